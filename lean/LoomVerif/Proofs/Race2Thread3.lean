/-
Race exactness on the WAIT fragment, part 14: `spawn`.  The new loom thread starts from the spawner's causality
BEFORE the spawner's own increment (`Execution::new_thread`), the new reference thread from the spawner's clock AFTER
its tick: both know exactly the accesses the spawner has performed.  The new thread has no `unpark` stored; the token
slot of its body is still zero.
-/
import LoomVerif.Proofs.Race2Thread2

namespace LoomVerif
namespace Race2
open Refine Refine2 Sy C07 C08 Clocks Race

/-- `new_thread` keeps `unparkCaus` and the `park` tokens -/
theorem newThread_view2 {e e' : Exec} {id : Nat} (h : e.newThread = .ok (e', id)) :
    (∀ i, (e'.threads.get i).unparkCaus = (e.threads.get i).unparkCaus) ∧
    (∀ i, (e'.threads.get i).token = (e.threads.get i).token) := by
  unfold Exec.newThread at h
  simp only [bind, Except.bind, pure, Except.pure] at h
  split at h
  · cases h
  · next v hv =>
    cases h
    unfold Threads.newThread at hv
    split at hv
    · cases hv
      have hlen2 : ({ e.threads with threads := e.threads.threads ++ [{}] } : Threads).threads.length =
          e.threads.threads.length + 1 := by simp
      refine ⟨?_, ?_⟩
      · intro i
        simp only [WB.get_modify, WB.length_modify, hlen2]
        have hbase : (({ e.threads with threads := e.threads.threads ++ [{}] } : Threads).get i).unparkCaus =
            (e.threads.get i).unparkCaus := by
          rw [get_append_new]
          split
          · next e1 => rw [e1, get_default_of_ge _ (Nat.le_refl _)]
          · rfl
        split
        · split
          · exact hbase
          · exact hbase
        · split
          · exact hbase
          · exact hbase
      · intro i
        simp only [WB.get_modify, WB.length_modify, hlen2]
        have hbase : (({ e.threads with threads := e.threads.threads ++ [{}] } : Threads).get i).token =
            (e.threads.get i).token := by
          rw [get_append_new]
          split
          · next e1 => rw [e1, get_default_of_ge _ (Nat.le_refl _)]
          · rfl
        split
        · split
          · exact hbase
          · exact hbase
        · split
          · exact hbase
          · exact hbase
    · cases hv

section
variable {w w' : World} {s : SC.St}

theorem spawn_view2 {b : Nat} (h : w.runOp (w.ctlOf w.tid) (.spawn b) = .ok w') :
    (∀ i, tuc w' i = tuc w i) ∧ (∀ i, ttok w' i = ttok w i) := by
  obtain ⟨w2, e', rfl, hv, he, hp, hc, hs⟩ := spawn_obs' h
  obtain ⟨h8, h9⟩ := newThread_view2 hv
  refine ⟨?_, ?_⟩
  · intro i
    show (w2.exec.threads.get i).unparkCaus = _
    rw [he]; exact h8 i
  · intro i
    show (w2.exec.threads.get i).token = _
    rw [he]; exact h9 i

/-- the twin side of `spawn` -/
theorem spawn_transfer2 (hRC : RC2 w s) (hact : w.tid < w.ctl.length) {b : Nat}
    (hop : opAt2 w = some (.spawn b)) (hfresh : ∀ i, i < w.ctl.length → body w i ≠ b) {σT : CS}
    {mT : Nat → List VV} (hLT : LinkT2 w σT mT)
    (hp : w'.prog = w.prog) (hs : w'.spawned = (b, nthr w, w.exec.objs.length) :: w.spawned)
    (hn : nthr w' = nthr w + 1) (hobjs : w'.exec.objs = w.exec.objs ++ [jhObj])
    (hctl : ∀ i, w'.ctlOf i = if i = w.tid then completeF .unit (w.ctlOf w.tid)
      else if i = w.ctl.length then ({ body := b } : TCtl) else w.ctlOf i)
    (hcaus : ∀ i, tcaus w' i = if i = nthr w then (tcaus w w.tid).inc (nthr w)
      else if i = w.tid then (tcaus w w.tid).inc w.tid else tcaus w i)
    (hrel : ∀ i, trel w' i = trel w i) (htopo : ∀ i, topo w' i = topo w i)
    (huc : ∀ i, tuc w' i = tuc w i) (htok : ∀ i, ttok w' i = ttok w i) :
    TwinInv w' ∧ TwinInv2 w' ∧ LinkT2 w' ((σT.fork w.tid (nthr w)).tick w.tid) mT := by
  obtain ⟨hT, hO⟩ := unpack hRC.inv hRC.inv2 hLT
  have hn0 : w.ctl.length = nthr w := nthr_eq2 hRC.r
  have ht : w.tid < nthr w := nthr_tid2 hRC hact
  have hpn : pend w w.tid = none := pend_none_of_op2 hop (by intro b'; simp)
  have hf0 : fin w w.tid = 0 := fin0 hRC hact hop
  have hpc0 : pendClk w σT w.tid = VV.zero :=
    pendClk_of_op (by rw [opAtI_tid2]; exact hop) (by intro n; simp) (by simp) (by intro b'; simp)
  have hσt : σT.thr w.tid = tcaus w w.tid := eq_caus2 hLT ht hpc0
  -- no entry for `b` yet
  have hjnb : jn w b = none := by
    cases hj : jn w b with
    | none => rfl
    | some n' =>
      obtain ⟨j, hm⟩ := jn_mem hj
      obtain ⟨hjl, hjb, _⟩ := hRC.r.c.o.y.sp b j n' hm
      exact absurd hjb (hfresh j hjl)
  have hjn : ∀ b', b' ≠ b → jn w' b' = jn w b' := by
    intro b' hb'
    unfold jn
    rw [hs, List.find?_cons]
    have : ((b, nthr w, w.exec.objs.length).1 == b') = false := beq_false_of_ne (Ne.symm hb')
    rw [this]
  have hctlne : ∀ i, i ≠ w.tid → i < nthr w → w'.ctlOf i = w.ctlOf i := by
    intro i h1 h2
    rw [hctl i, if_neg h1, if_neg (by omega)]
  have hpendMono : ∀ i, i ≠ w.tid → i < nthr w → ∀ n', pend w i = some n' → pend w' i = some n' := by
    intro i h1 h2 n' hpd
    have hopi : opAtI w' i = opAtI w i := opAtI_congr hp (hctlne i h1 h2)
    unfold pend at hpd ⊢
    rw [hctlne i h1 h2, hopi]
    by_cases hst : (w.ctlOf i).stage = 1
    · rw [if_pos hst] at hpd ⊢
      cases hoi : opAtI w i with
      | none => rw [hoi] at hpd; cases hpd
      | some op =>
        rw [hoi] at hpd
        cases op <;> first | (cases hpd; done) | skip
        case join b' =>
          have hpd' : jn w b' = some n' := hpd
          have : b' ≠ b := by
            intro e; rw [e, hjnb] at hpd'; cases hpd'
          show jn w' b' = some n'
          rw [hjn b' this]; exact hpd'
    · exact absurd hpd (by rw [if_neg hst]; simp)
  have hfinEq : ∀ j, j < nthr w → fin w' j = fin w j := by
    intro j hj
    unfold fin
    rw [hctl j]
    split
    · next e => rw [e]; rfl
    · rw [if_neg (by omega)]
  have hbodyEq : ∀ j, j < nthr w → body w' j = body w j := by
    intro j hj
    unfold body
    rw [hctl j]
    split
    · next e => rw [e]; rfl
    · rw [if_neg (by omega)]
  have hbodyN : body w' (nthr w) = b := by
    unfold body
    rw [hctl, if_neg (by omega), if_pos hn0.symm]
  have hso : ∀ n', n' < w.exec.objs.length → SameObj w.exec.objs w'.exec.objs n' := by
    intro n' hn'; rw [hobjs]; exact SameObj.append _ _ hn'
  have hhbEq : ∀ n', n' < w.exec.objs.length → objHb w'.exec.objs n' = objHb w.exec.objs n' :=
    fun n' hn' => (hso n' hn').hb
  have hout : w.ths.get (nthr w) = {} := get_out w (Nat.le_refl _)
  have htopoN : topo w (nthr w) = none := by unfold topo; rw [hout]; rfl
  have hthr' : ∀ i, ((σT.fork w.tid (nthr w)).tick w.tid).thr i =
      if i = w.tid then (σT.thr w.tid).inc w.tid
      else if i = nthr w then (σT.thr w.tid).inc (nthr w) else σT.thr i := by
    intro i
    show upd (upd σT.thr (nthr w) _) w.tid ((upd σT.thr (nthr w) _ w.tid).inc w.tid) i = _
    by_cases e1 : i = w.tid
    · rw [e1, upd_self, if_pos rfl, upd_ne _ _ (by omega)]
    · rw [upd_ne _ _ e1, if_neg e1]
      by_cases e2 : i = nthr w
      · rw [e2, upd_self, if_pos rfl]
      · rw [upd_ne _ _ e2, if_neg e2]
  have hmtx' : ∀ m, ((σT.fork w.tid (nthr w)).tick w.tid).mtx m = σT.mtx m := fun _ => rfl
  have hlen : w.exec.objs.length ≤ w'.exec.objs.length := by rw [hobjs]; simp
  have hkb : σT.mtx (kI w.prog b) = VV.zero := hO.tk0 b (fun i hi => hfresh i (by rw [hn0]; exact hi))
  apply pack
  · intro i hi
    rw [hn] at hi
    by_cases e1 : i = w.tid
    · -- the spawner
      subst e1
      have hTt := hT w.tid ht
      refine ThrInv.exact ?_ ?_ ?_ ?_ ?_ ?_
      · rw [hrel]; exact hTt.rel
      · intro o ho
        rw [htopo] at ho
        exact Nat.lt_of_lt_of_le (hTt.ob o ho) hlen
      · intro b' j n' ho hm hij
        rw [htopo] at ho
        rw [hs] at hm
        rcases List.mem_cons.1 hm with e | hm
        · cases e
          have := hTt.ob _ ho
          omega
        · have hjl : j < nthr w := by rw [← hn0]; exact (hRC.r.c.o.y.sp b' j n' hm).1
          rcases hTt.jo b' j n' ho hm hij with h1 | h1
          · rw [hpn] at h1; cases h1
          · rw [hfinEq j hjl]; exact .inr h1
      · rw [hthr', if_pos rfl, hcaus, if_neg (by omega), if_pos rfl, hσt]
      · intro _
        have hk := hTt.tok (by rw [hf0]; omega)
        rw [huc, hp, hbodyEq _ ht, hmtx', hcaus, if_neg (by omega), if_pos rfl]
        exact ⟨hk.1, le_trans hk.2 (join_mono (le_inc _ _) (le_refl _))⟩
      · intro _ htk
        rw [htok] at htk
        rw [huc]; exact hTt.tokz (by rw [hf0]; omega) htk
    · by_cases e2 : i = nthr w
      · -- the new thread
        subst e2
        have huz : tuc w' (nthr w) = VV.zero := by rw [huc]; unfold tuc; rw [hout]
        refine ThrInv.exact ?_ ?_ ?_ ?_ ?_ ?_
        · rw [hrel]; unfold trel; rw [hout]
        · intro o ho
          rw [htopo, htopoN] at ho; cases ho
        · intro b' j n' ho
          rw [htopo, htopoN] at ho; cases ho
        · rw [hthr', if_neg e1, if_pos rfl, hcaus, if_pos rfl, hσt]
        · intro _
          rw [huz, hp, hbodyN, hmtx', hkb]
          exact ⟨le_refl _, zero_le _⟩
        · intro _ _
          exact huz
      · -- the others
        have hi' : i < nthr w := by omega
        have hTi := hT i hi'
        have hci : tcaus w' i = tcaus w i := by rw [hcaus, if_neg e2, if_neg e1]
        have hti : ((σT.fork w.tid (nthr w)).tick w.tid).thr i = σT.thr i := by
          rw [hthr', if_neg e1, if_neg e2]
        have hmono : (pendHb w i).le (pendHb w' i) := by
          unfold pendHb
          cases hpd : pend w i with
          | none => exact zero_le _
          | some n' =>
            rw [hpendMono i e1 hi' n' hpd]
            obtain ⟨b', j', hm'⟩ := pend_mem hpd
            show (objHb w.exec.objs n').le (objHb w'.exec.objs n')
            rw [hhbEq n' (sp_lt2 hRC.r hm')]; exact le_refl _
        have hpmono : (pendClk w σT i).le (pendClk w' ((σT.fork w.tid (nthr w)).tick w.tid) i) := by
          unfold pendClk
          rw [opAtI_congr hp (hctlne i e1 hi'), hctlne i e1 hi', hp, hbodyEq i hi']
          split
          · exact le_refl _
          · exact le_refl _
          · exact hmono
        refine ⟨?_, ?_, ?_, ?_, ?_, ?_, ?_⟩
        · rw [hrel]; exact hTi.rel
        · intro o ho
          rw [htopo] at ho
          exact Nat.lt_of_lt_of_le (hTi.ob o ho) hlen
        · intro b' j n' ho hm hij
          rw [htopo] at ho
          rw [hs] at hm
          rcases List.mem_cons.1 hm with e | hm
          · cases e
            have := hTi.ob _ ho
            omega
          · have hjl : j < nthr w := by rw [← hn0]; exact (hRC.r.c.o.y.sp b' j n' hm).1
            rcases hTi.jo b' j n' ho hm hij with h1 | h1
            · exact .inl (hpendMono i e1 hi' n' h1)
            · rw [hfinEq j hjl]; exact .inr h1
        · rw [hti, hci]; exact hTi.lo
        · rw [hti, hci]
          exact le_trans hTi.hi (join_mono (le_refl _) hpmono)
        · intro hf
          rw [hfinEq i hi'] at hf
          rw [huc, hci, hp, hbodyEq i hi', hmtx']
          exact hTi.tok hf
        · intro hf htk
          rw [hfinEq i hi'] at hf
          rw [htok] at htk
          rw [huc]; exact hTi.tokz hf htk
  · -- the objects
    refine ⟨?_, ?_, ?_, ?_, ?_, ?_, ?_, ?_, ?_, ?_, ?_⟩
    · intro m hm
      rw [hp] at hm
      rw [mutexObj_congr hp, hmtx', (hso _ (mtx_lt2 hRC.r hm)).hb]
      exact hO.mtx m hm
    · intro k hk
      rw [hp] at hk ⊢
      rw [notifyObj_congr hp, hmtx', (hso _ (ntf_lt2 hRC.r hk)).hb]
      exact hO.ntf k hk
    · intro q hq
      rw [hp] at hq ⊢
      rw [chanObj_congr hp, hmtx', (hso _ (chan_lt2 hRC.r hq)).ss]
      exact hO.chn q hq
    · intro q hq
      rw [hp] at hq
      rw [chanObj_congr hp, (hso _ (chan_lt2 hRC.r hq)).rs]
      exact hO.msg q hq
    · intro k c hc
      rw [hp] at hc
      rw [cellObj_congr hp, (hso _ (cell_lt2 hRC.r hc)).acc]
      exact hO.acc k c hc
    · intro c hc
      rw [hp] at hc
      rw [cellObj_congr hp]
      exact (hso _ (cell_lt2 hRC.r hc)).idle (hO.cb c hc)
    · intro q hq
      rw [hp] at hq
      rw [chanObj_congr hp]
      exact (hso _ (chan_lt2 hRC.r hq)).shape (hO.rsl q hq)
    · intro b' j n' hm
      rw [hs] at hm
      rcases List.mem_cons.1 hm with e | hm
      · cases e
        have h1 : objHb w'.exec.objs w.exec.objs.length = VV.zero := by
          rw [hobjs]; unfold objHb; simp [jhObj, hbOf]; rfl
        have h2 : fin w' (nthr w) = 0 := by
          unfold fin; rw [hctl, if_neg (by omega), if_pos hn0.symm]
        rw [h1, h2]; simp
      · obtain ⟨hjl, _, _⟩ := hRC.r.c.o.y.sp b' j n' hm
        have hjl' : j < nthr w := by rw [← hn0]; exact hjl
        rw [hhbEq n' (sp_lt2 hRC.r hm), hO.nhb b' j n' hm, hfinEq j hjl', hcaus,
          if_neg (show ¬ j = nthr w by omega)]
        by_cases e : j = w.tid
        · rw [e, hf0]; simp
        · rw [if_neg e]
    · intro b' j n' hm
      rw [hs] at hm
      rcases List.mem_cons.1 hm with e | hm
      · cases e; omega
      · exact hO.sp0 b' j n' hm
    · intro e1 e2 h1 h2 he
      rw [hs] at h1 h2
      rcases List.mem_cons.1 h1 with a1 | a1 <;> rcases List.mem_cons.1 h2 with a2 | a2
      · rw [a1, a2]
      · exfalso
        obtain ⟨b2, j2, n2⟩ := e2
        have := (hRC.r.c.o.y.sp b2 j2 n2 a2).1
        rw [a1] at he; simp only at he; omega
      · exfalso
        obtain ⟨b1, j1, n1⟩ := e1
        have := (hRC.r.c.o.y.sp b1 j1 n1 a1).1
        rw [a2] at he; simp only at he; omega
      · exact hO.spt e1 e2 a1 a2 he
    · intro b' hb'
      rw [hp, hmtx']
      apply hO.tk0
      intro i hi
      have := hb' i (by rw [hn]; omega)
      rwa [hbodyEq i hi] at this

theorem clk_spawn2 (hwf : WF2 w.prog) (hRC : RC2 w s) (hact : w.tid < w.ctl.length) {b : Nat}
    (hop : opAt2 w = some (.spawn b)) (h : w.runOp (w.ctlOf w.tid) (.spawn b) = .ok w') : RealOut2 w s w' := by
  obtain ⟨hb0, hbl, hidle⟩ := hRC.r.c.x.spawn_fresh hwf hact hop
  have hfresh : ∀ i, i < w.ctl.length → body w i ≠ b := hidle
  have ht := nthr_tid2 hRC hact
  have hn0 : w.ctl.length = nthr w := nthr_eq2 hRC.r
  obtain ⟨hp, hs, hn, hobjs, hcl, hctl, hcaus, hrel, htopo⟩ := spawn_view h hact ht
  obtain ⟨huc, htok⟩ := spawn_view2 h
  obtain ⟨σT, σR, mT, mR, hc⟩ := hRC.clk
  have hT := spawn_transfer2 hRC hact hop hfresh hc.lt hp hs hn hobjs hctl hcaus hrel htopo huc htok
  have hC : pendCv w.prog (w.ctlOf w.tid) = none := pendCv_of_op hop (by simp)
  have hcv : (s.th (body w w.tid)).cvNotified = none := (frag_cv hRC hact hC).2
  have ho : SC.opOf w.prog s (body w w.tid) = some (.spawn b) := (opOf_eq2 hRC.r hact).trans hop
  have hbt := body_lt_ths2 hRC.r hact
  have hbne : b ≠ body w w.tid := Ne.symm (hfresh w.tid hact)
  have hRb : σR.thr b = VV.zero := hc.x.idleR b hfresh
  have hz : (s.tick (body w w.tid)).vc b = VV.zero := by
    rw [vc_tick _ _ _ hbt, upd_ne _ _ hbne, ← hc.lr.thr, hRb]
  have hz' : (σR.tick (body w w.tid)).thr b = VV.zero := by
    show upd σR.thr _ _ b = _
    rw [upd_ne _ _ hbne, hRb]
  have hbl' : b < (s.tick (body w w.tid)).ths.length := by rw [tick_len2, ths_len2 hRC.r]; exact hbl
  have hTn : σT.thr (nthr w) = VV.zero := hc.x.idleT _ (by omega)
  have hTn0 : σT.thr w.ctl.length = VV.zero := hc.x.idleT _ (Nat.le_refl _)
  have hGT' := hc.gt.fork w.tid (nthr w) hTn
  have hGR' := (hc.gr.tick (body w w.tid)).fork (body w w.tid) b hz'
  have hβ : ∀ i, i < w.ctl.length → body w' i = body w i := by
    intro i hi
    unfold body
    rw [hctl i]
    split
    · next e => rw [e]; rfl
    · rw [if_neg (by omega)]
  have hβn : body w' w.ctl.length = b := by
    unfold body
    rw [hctl, if_neg (by omega), if_pos rfl]
  have hX1 := hc.x.tickR hc.gt hc.gr (inj_body2 hRC.r) w.tid hact
  have hX2 := hX1.fork hc.gt (hc.gr.tick _) w.tid hact b hfresh (body w') hβ hβn
  have hX3 := hX2.tickT (by rw [hn0]; exact hGT') hGR' w.tid (by omega)
  refine ⟨hp, ?_, no_spur hRC hact hop (by intro n; simp), _, step_spawn hcv ho, hRC.fs.1, hRC.nd, hT.1, hT.2.1,
    (σT.fork w.tid (nthr w)).tick w.tid, (σR.tick (body w w.tid)).fork (body w w.tid) b, mT, mR, hT.2.2, ?_,
    hGT'.tick _, hGR', ?_, ?_, ?_, ?_⟩
  · -- not a stutter: the pc has moved
    intro hR' _
    have h1 := (pc_eq2 (s := s) hR' (show w.tid < w'.ctl.length by omega)).1
    rw [hβ _ hact, hctl, if_pos rfl] at h1
    have h0 := (pc_eq2 hRC.r hact).1
    have h1' : (s.th (body w w.tid)).pc = (w.ctlOf w.tid).pc + 1 := h1
    omega
  · exact (LinkR2.fork (hc.lr.tick hbt) hbl' hz).ret _ _
  · rw [hcl, ← hn0]; exact hX3
  · intro q hq
    rw [hcl]
    exact (hc.mx q hq).imp fun ZT ZR hh =>
      ((hh.ev (T' := σT) (R' := σR.tick (body w w.tid)) rfl rfl).fork b (body w') hβ hβn
        (ev_zero_of_idle hc.gt hTn0) (ev_zero_of_idle (hc.gr.tick _) hz')).ev rfl rfl
  · intro q Z hq hZ
    exact ((hc.mgt q Z hq hZ).fork w.tid (nthr w) hTn).tick _
  · intro q Z hq hZ
    exact ((hc.mgr q Z hq hZ).tick _).fork _ b hz'

end

end Race2
end LoomVerif

/-
Refinement, STATICS fragment, part 7: the thread epilogue and the one-step simulation theorem.

The stages of the epilogue (`World.runEpilogue`), for `tlsDtor ∈ {0, 2}`:

* spawned thread: `fin = 0` — the first `drop_locals` pass — is the reference's `finish` step (`sim_finish5`); then
  the branch point of the notification (`fin = 4 → 1`), its effect (`1 → 10`: the joiner can proceed; the reference
  thread has been finished since the `finish` step), the second `drop_locals` pass (`10 → 11`: it destroys what a
  destructor re-initialised, `sim_late5`), `thread_done` (`11 → 99`): all stuttering.
* main thread: `lazy_statics.drop()` (`fin < 10 → 10`, stuttering: the reference's `lazyDropped` follows one stage
  later), `drop_locals` (`10 → 11`): the reference's `finish` step, `thread_done`.
-/
import LoomVerif.Proofs.Refine5Drop2

namespace LoomVerif
namespace Refine5
open Refine Sy C07 C08

section
variable {w w' : World} {s : SCData5}

theorem quiet5_of_modCtl {t : Nat} {f : TCtl → TCtl} (h : Quiet5 (w.modCtl t f) w') : Quiet5 w w' :=
  ⟨⟨h.q.prog, h.q.spawned, h.q.events, h.q.len, h.q.view⟩, h.frame⟩

/-- an epilogue stage that only moves `fin`, on the same side of the `finish` step -/
theorem sim_fin5 (hR : R5 w s) (hact : w.tid < w.ctl.length) (hnone : opAt w = none) (k : Nat)
    (hq : Quiet5 w w') (hctl : w'.ctl = w.ctl.modify w.tid fun c => { c with fin := k })
    (hfd : ∀ c : TCtl, c.fin = k → finD w.tid c = finD w.tid (w.ctlOf w.tid))
    (h10 : 10 ≤ (w.ctlOf w.tid).fin → 10 ≤ k)
    (hg : w.tid = 0 → (w.ctlOf w.tid).fin = 10 → k = 10)
    (hs : w.tid = 0 → 10 ≤ k → 10 ≤ (w.ctlOf w.tid).fin)
    (hlag : w.tid = 0 → k = 10 → w'.tid = 0) : Sim5 w s w' := by
  refine ⟨hq.q.prog, .inl ⟨?_, hq.q.events⟩⟩
  exact hR.stutterQ hact _ hq hctl rfl rfl rfl rfl rfl (stage_le_one hR hact) (hfd _ rfl) h10 (fun _ => hnone)
    hg hs hlag

theorem sim_epilogue5 (hwf : WF5 w.prog) (hR : R5 w s) (hact : w.tid < w.ctl.length) (hnone : opAt w = none)
    (h : w.runEpilogue (w.ctlOf w.tid) = .ok w') : SimI w s w' := by
  have hin : w.tid < w.exec.threads.threads.length := by rw [← hR.lenCtl]; exact hact
  obtain ⟨_, hrel, hof⟩ := base5 hR hact
  have hdq := hrel.2.2.2.2.2.1
  have hloc := hrel.2.2.2.2.2.2
  have htd : w.cfg.tlsDtor = 0 ∨ w.cfg.tlsDtor = 2 := hwf.2.2.2
  by_cases h10 : 10 ≤ (w.ctlOf w.tid).fin
  · -- the common tail
    rw [runEpilogue_finish w _ h10] at h
    unfold World.finishThread at h
    split at h
    · cases h
    · next hrange =>
      rw [dropPass_eq] at h
      split at h
      · next e =>
        cases h
        by_cases ht0 : w.tid = 0
        · -- the main thread's `drop_locals`: the `finish` step
          refine ⟨sim_finish5 hwf hR hact hnone (10 + 1) ?_ ?_ (fun _ => by omega) (by omega) ?_,
            inRange_of (w := w) (w' := w.dropLocals.modCtl w.tid _) (C17.dropLocals_tid w)
              (by show _ ≤ w.dropLocals.exec.threads.threads.length
                  rw [World.dropLocals_exec]; exact Nat.le_refl _) hin⟩
          · rw [ht0, finD_main, ← ht0, e]; rfl
          · intro c hc; rw [ht0, finD_main, hc]; rfl
          · intro _; rw [← ht0]; exact e
        · -- a spawned thread's second pass: nothing left
          have hfd : finD w.tid (w.ctlOf w.tid) = true := by rw [finD_spawned ht0, e]; rfl
          exact ⟨sim_late5 hwf hR hact hnone ht0 hfd (10 + 1) (by omega) (fun _ => by omega),
            inRange_of (w := w) (w' := w.dropLocals.modCtl w.tid _) (C17.dropLocals_tid w)
              (by show _ ≤ w.dropLocals.exec.threads.threads.length
                  rw [World.dropLocals_exec]; exact Nat.le_refl _) hin⟩
      · split at h
        · next e1 e =>
          rw [hdq] at h
          simp only at h
          obtain ⟨hq, hc⟩ := threadDone_quiet5 h
          refine ⟨sim_fin5 hR hact hnone 99 (quiet5_of_modCtl hq) (by rw [hc]; rfl) ?_ (fun _ => by omega)
            (fun _ e' => by omega) (fun _ _ => by omega) (fun _ e' => by omega), threadDone_inRange h⟩
          intro c hc'
          unfold finD
          rw [hc', e]
          split <;> rfl
        · rw [hdq] at h
          cases h
  · have hlt : (w.ctlOf w.tid).fin < 10 := by omega
    by_cases ht0 : w.tid = 0
    · -- the main thread: `lazy_statics.drop()`
      rw [runEpilogue_main w _ ht0 hlt] at h
      cases h
      refine ⟨⟨rfl, .inl ⟨?_, rfl⟩⟩, inRange_of rfl (Nat.le_refl _) hin⟩
      have hf10 : ((({ w with exec := { w.exec with lazyStatics := none } } : World).modCtl w.tid
          fun c => { c with fin := 10 }).ctlOf 0).fin = 10 := by
        show ((w.ctl.modify w.tid _).getD 0 {}).fin = 10
        rw [← ht0, getD_modify_self _ _ _ _ hact]
      refine hR.restutter hact (fun c => { c with fin := 10 }) rfl rfl rfl rfl ⟨rfl, rfl, rfl⟩ rfl rfl rfl rfl rfl rfl
        (stage_le_one hR hact) ?_ (fun _ => hnone) ?_ ?_ ?_
      · rw [ht0, finD_main, finD_main]
        have : ¬ 11 ≤ (w.ctlOf 0).fin := by rw [← ht0]; omega
        simp [this]
      · exact hR.y.ctl (CtlLe.modify _ _ _ rfl (fun _ => Nat.le_refl _))
      · rw [hf10]
        exact ⟨hR.z.len, hR.z.eqI, fun l e => (by cases e), fun l z sv e => (by cases e), fun _ => Or.inr rfl,
          fun _ => rfl⟩
      · intro _; exact ht0
    · -- a spawned thread
      have hfind : ∃ b n, w.spawned.find? (·.2.1 == w.tid) = some (b, w.tid, n) := by
        cases hf : w.spawned.find? (·.2.1 == w.tid) with
        | none =>
          unfold World.runEpilogue at h
          simp [h10, ht0, hf, throw, throwThe, MonadExceptOf.throw] at h
        | some e =>
          obtain ⟨b, t, n⟩ := e
          have := List.find?_some hf
          simp only [beq_iff_eq] at this
          subst this
          exact ⟨b, n, rfl⟩
      obtain ⟨b, n, hf⟩ := hfind
      have hmem := List.mem_of_find?_eq_some hf
      rw [runEpilogue_spawned w _ b n ht0 hf hlt] at h
      split at h
      · next e =>
        -- the first `drop_locals` pass: the `finish` step
        have e' : (w.ctlOf w.tid).fin = 0 := by simpa using e
        cases h
        refine ⟨sim_finish5 hwf hR hact hnone 4 ?_ ?_ (fun _ => by omega) (by omega) (fun e0 => absurd e0 ht0),
          inRange_of (w := w) (w' := w.dropLocals.modCtl w.tid _) (C17.dropLocals_tid w)
            (by show _ ≤ w.dropLocals.exec.threads.threads.length
                rw [World.dropLocals_exec]; exact Nat.le_refl _) hin⟩
        · exact finD_fin_zero e'
        · intro c hc; rw [finD_spawned ht0, hc]; rfl
      · next e0 =>
        have hne : (w.ctlOf w.tid).fin ≠ 0 := by simpa using e0
        have hfd : finD w.tid (w.ctlOf w.tid) = true := by rw [finD_spawned ht0]; simpa using hne
        split at h
        · next e3 =>
          rw [dropPass_eq] at h
          split at h
          · -- (an unreachable stage) a `drop_locals` with nothing left
            cases h
            exact ⟨sim_late5 hwf hR hact hnone ht0 hfd (3 + 1) (by omega) (fun _ => by omega),
              inRange_of (w := w) (w' := w.dropLocals.modCtl w.tid _) (C17.dropLocals_tid w)
                (by show _ ≤ w.dropLocals.exec.threads.threads.length
                    rw [World.dropLocals_exec]; exact Nat.le_refl _) hin⟩
          · split at h
            · rw [hdq] at h
              simp only at h
              obtain ⟨hq, hc⟩ := branch_quiet5 h
              refine ⟨sim_fin5 hR hact hnone 1 (quiet5_of_modCtl hq) (by rw [hc]; rfl) ?_ (fun _ => by omega)
                (fun e0 => absurd e0 ht0) (fun e0 => absurd e0 ht0) (fun e0 => absurd e0 ht0), branch_inRange h⟩
              intro c hc'
              rw [hfd, finD_spawned ht0, hc']; rfl
            · rw [hdq] at h
              cases h
        · -- the notification: the joiner can proceed
          obtain ⟨hlt', hbody, nt, hv, hnt⟩ := hR.y.sp b w.tid n hmem
          obtain ⟨ns, hobj, hspur, hnotified⟩ := objView_notify hv
          obtain ⟨w1, h1, h⟩ := bind_ok h
          have hfr := notifyEffect_frame5 h1
          obtain ⟨hc1, ht1, hp1, hs1, he1, hl1, ns', hsp', hnt', hobjs⟩ := notifyEffect_obs hobj h1
          simp only [pure, Except.pure] at h
          cases h
          simp only [frame5, Prod.mk.injEq] at hfr
          obtain ⟨f1, f2, f3, f4, f5⟩ := hfr
          have hc0 : ((w1.modCtl w.tid fun c => { c with fin := 10 }).ctlOf 0).fin = (w.ctlOf 0).fin := by
            show ((w1.ctl.modify w.tid _).getD 0 {}).fin = _
            rw [hc1, getD_modify_ne _ _ _ _ _ (fun e => ht0 e.symm)]; rfl
          refine ⟨⟨hp1, .inl ⟨?_, he1⟩⟩, inRange_of (w' := w1.modCtl w.tid _) ht1 (Nat.le_of_eq hl1.symm) hin⟩
          refine hR.restutter hact (fun c => { c with fin := 10 }) hp1 hs1 he1 hl1 ⟨f1, f2, f3⟩
            (by show w1.ctl.modify _ _ = _; rw [hc1]) rfl rfl rfl rfl rfl (stage_le_one hR hact) ?_
            (fun _ => hnone) ?_ ?_ ?_
          · rw [hfd, finD_spawned ht0]; rfl
          · show RY w.prog _ w.spawned w1.exec.objs s.cells s.mutex
            rw [hobjs]
            refine (hR.y.ctl (CtlLe.modify _ _ _ rfl (fun _ => Nat.le_refl _))).setNotify hv _ true
              (by simp [view, hsp', hspur, hnt']) ?_
            intro _ b' i hmem'
            have := hR.y.spn _ _ hmem' hmem rfl
            simp only at this
            subst this
            rw [getD_modify_self _ _ _ _ hact]
            exact Nat.le_refl _
          · rw [hc0]
            show RLazy w.prog w1.exec.objs w1.exec.lazyStatics w1.lazyInits _ _ _
            rw [f4, f5, hobjs]
            exact hR.z.le (LazyLe.set_other _ hv (by intro c e; cases e))
          · rw [hc0]
            show _ → w1.tid = 0
            rw [ht1]; exact hR.lag

/-! ### the one-step simulation -/

/-- **one-step simulation**: a successful stage of the active thread of the twin, from a world related to the
reference data `s` and satisfying `resumeOk5`, leads to a world related to `s` again (stuttering: the event log is
unchanged), or to a world related to a successor `s'` of `s` by a step of the body `t` the active thread runs — a step
of `SCData5.stepL`, enabled in `s`, whose label is exactly the event the twin logs (`complete r`); and the new active
thread (if any) is in the thread table -/
theorem step_sim5 (hwf : WF5 w.prog) (hR : R5 w s) (hact : w.tid < w.ctl.length) (hok : resumeOk5 w = true)
    (h : w.stepActive = .ok w') : SimI w s w' := by
  unfold World.stepActive at h
  simp only at h
  cases hop : opAt w with
  | none =>
    have hop' := hop
    unfold opAt at hop'
    rw [hop'] at h
    exact sim_epilogue5 hwf hR hact hop h
  | some op =>
    have hop' := hop
    unfold opAt at hop'
    rw [hop'] at h
    simp only at h
    have hk := hwf.opOk hop'
    unfold resumeOk5 at hok
    rw [hop] at hok
    cases op <;> simp only [opOk5, opOk, Bool.false_eq_true, Bool.and_eq_true, decide_eq_true_eq] at hk
    case cellRead c => exact sim_cellRead5 hR hact hop hk h
    case cellWrite c v => exact sim_cellWrite5 hR hact hop hk h
    case lock m => exact sim_lock5 hR hact hop hk h
    case tryLock m => exact sim_tryLock5 hR hact hop hk h
    case unlock m => exact sim_unlock5 hR hact hop hk h
    case spawn b => exact sim_spawn5 hwf hR hact hop h
    case join b => exact sim_join5 hR hact hop h
    case ifEq i r n => exact sim_ifEq5 hR hact hop h
    case tls k => exact sim_tls5 hR hact hop hk (by simpa using hok) h
    case tlsTry k => exact sim_tlsTry5 hR hact hop hk (by simpa using hok) h
    case tlsNest k j => exact sim_tlsNest5 hR hact hop hk.1 hk.2 (by simpa using hok) h
    case tlsStat k => exact sim_tlsStat5 hR hact hop hok h
    case tlsObs k => exact sim_tlsObs5 hR hact hop h
    case lazyStat z => exact sim_lazyStat5 hR hact hop h
    case lazy z => exact sim_lazy5 hR hact hop hk.1 hk.2 h

end

end Refine5
end LoomVerif

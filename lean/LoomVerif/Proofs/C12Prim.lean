/-
C12, primitive layer: the single-thread invariant `SingleInv`, its establishment by `Atomic::new`
and its preservation by every `rt::Atomic` primitive; in the invariant every primitive has exactly
one outcome, reads the latest store and raises no panic.
-/
import LoomVerif.Proofs.C12Inv
import LoomVerif.Model.AtomicRun

namespace LoomVerif
namespace C12
open Atomic

/-- The single-thread invariant of an atomic cell `a` and the thread table `ths`:
one thread (thread 0, active); the ring invariant `RingInv` and the race-clock invariant
`ClockInv` hold relative to that thread's causality. -/
def SingleInv (a : Atomic) (ths : Threads) : Prop :=
  OneThread ths ∧ RingInv a ths.caus ∧ ClockInv a ths.caus

theorem forAll_single {α β : Type} (x : α) (f : α → Except Panic (List β)) (ys : List β)
    (h : f x = .ok ys) : forAll [x] f = .ok ys := by
  simp [forAll, h]

theorem inc_facts {ths : Threads} (h1 : OneThread ths) :
    ths.caus.le ths.activeCausalityInc.caus ∧
      ths.caus.get 0 < ths.activeCausalityInc.caus.get 0 := by
  rw [h1.caus_inc]
  exact ⟨VV.le_inc _ _, by rw [VV.get_inc_self _ _ (by decide)]; omega⟩

theorem prim_store (t : ATy) {a : Atomic} {ths : Threads} (h : SingleInv a ths) (v : Int) (o : Ord) :
    ∃ a' ths', (Prim.store v o).runAll t a ths = .ok [(a', ths', .unit)] ∧
      SingleInv a' ths' ∧ a'.latestValue = t.intoU64 v := by
  obtain ⟨h1, hr, hc⟩ := h
  obtain ⟨hle, hlt⟩ := inc_facts h1
  have h1' := h1.inc
  have hc' := hc.mono hle
  let a1 : Atomic := { a with storedAt := a.storedAt.join ths.activeCausalityInc.caus }
  have hr1 : RingInv a1 ths.caus := hr.congr rfl rfl
  have hc1 : ClockInv a1 ths.activeCausalityInc.caus :=
    ⟨hc'.notMut, hc'.loadedAt_le, hc'.unsyncLoadedAt_le,
      VV.join_le hc'.storedAt_le (VV.le_refl _), hc'.unsyncMutAt_le⟩
  refine ⟨a1.store ths.activeCausalityInc Sync.new (t.intoU64 v) o, ths.activeCausalityInc, ?_,
    ⟨h1', hr1.store h1' hle hlt _ _ _, hc1.congr rfl rfl rfl rfl rfl⟩,
    latestValue_store _ _ _ _ _ hr1.len⟩
  simp only [Prim.runAll, Prim.synchronizes, if_true, Prim.candidates]
  apply forAll_single
  simp only [Prim.effect, trackStore_ok hc']
  rfl

theorem prim_unsyncLoad (t : ATy) {a : Atomic} {ths : Threads} (h : SingleInv a ths) :
    ∃ a' ths', Prim.unsyncLoad.runAll t a ths
        = .ok [(a', ths', .val (t.fromU64 a.latestValue))] ∧
      SingleInv a' ths' ∧ a'.latestValue = a.latestValue := by
  obtain ⟨h1, hr, hc⟩ := h
  let a1 : Atomic := { a with unsyncLoadedAt := a.unsyncLoadedAt.join ths.caus }
  refine ⟨a1, ths, ?_, ⟨h1, hr.congr rfl rfl, ⟨hc.notMut, hc.loadedAt_le,
    VV.join_le hc.unsyncLoadedAt_le (VV.le_refl _), hc.storedAt_le, hc.unsyncMutAt_le⟩⟩, rfl⟩
  simp only [Prim.runAll, Prim.synchronizes, Bool.false_eq_true, if_false, Prim.candidates]
  apply forAll_single
  simp only [Prim.effect, trackUnsyncLoad_ok hc]
  rfl

theorem effect_withMut_eq (t : ATy) {a : Atomic} {ths : Threads} (hc : ClockInv a ths.caus)
    (v : Int) (idx : Nat) :
    Prim.effect t a ths (.withMut v) idx =
      ((({ a with unsyncMutAt := a.unsyncMutAt.join ths.caus } : Atomic).modifyStore (lastIdx a)
          fun s => { s with value := t.intoU64 v }).trackUnsyncMut ths >>= fun a' =>
        pure (a', ths, .val (t.fromU64 a.latestValue))) := by
  simp only [Prim.effect, trackUnsyncMut_ok hc]
  rfl

theorem prim_withMut (t : ATy) {a : Atomic} {ths : Threads} (h : SingleInv a ths) (v : Int) :
    ∃ a' ths', (Prim.withMut v).runAll t a ths
        = .ok [(a', ths', .val (t.fromU64 a.latestValue))] ∧
      SingleInv a' ths' ∧ a'.latestValue = t.intoU64 v := by
  obtain ⟨h1, hr, hc⟩ := h
  let a1 : Atomic := { a with unsyncMutAt := a.unsyncMutAt.join ths.caus }
  have hr1 : RingInv a1 ths.caus := hr.congr rfl rfl
  have hc1 : ClockInv a1 ths.caus := ⟨hc.notMut, hc.loadedAt_le, hc.unsyncLoadedAt_le,
    hc.storedAt_le, VV.join_le hc.unsyncMutAt_le (VV.le_refl _)⟩
  let a2 : Atomic := a1.modifyStore (lastIdx a1) fun s => { s with value := t.intoU64 v }
  have hr2 : RingInv a2 ths.caus :=
    hr1.modify_latest _ (VV.le_refl _) (hr1.mo_le _ (lastIdx_lt a1)) hr1.seen
  have hc2 : ClockInv a2 ths.caus := hc1.congr rfl rfl rfl rfl rfl
  let a3 : Atomic := { a2 with unsyncMutAt := a2.unsyncMutAt.join ths.caus }
  have hk : lastIdx a1 < a1.stores.length := by rw [hr1.len]; exact lastIdx_lt a1
  refine ⟨a3, ths, ?_, ⟨h1, hr2.congr rfl rfl, ⟨hc2.notMut, hc2.loadedAt_le, hc2.unsyncLoadedAt_le,
    hc2.storedAt_le, VV.join_le hc2.unsyncMutAt_le (VV.le_refl _)⟩⟩, ?_⟩
  · simp only [Prim.runAll, Prim.synchronizes, Bool.false_eq_true, if_false, Prim.candidates]
    apply forAll_single
    rw [effect_withMut_eq t hc]
    have : a2.trackUnsyncMut ths = .ok a3 := trackUnsyncMut_ok hc2
    show (match a2.trackUnsyncMut ths >>= (fun a' => (pure (a', ths, Ret.val (t.fromU64 a.latestValue)) :
        Except Panic (Atomic × Threads × Ret))) with
      | Except.error e => Except.error e
      | Except.ok out => Except.ok [out]) = _
    rw [this]
    rfl
  · show (a2.storeAt (lastIdx a1)).value = _
    rw [storeAt_modifyStore _ _ _ _ hk, if_pos rfl]

/-- what a primitive does to the `u64` of the latest store, and what it returns, in a single
thread -/
def primAbs (t : ATy) (u : Nat) : Prim → Nat × Ret
  | .load _ => (u, .val (t.fromU64 u))
  | .store v _ => (t.intoU64 v, .unit)
  | .rmw f _ _ =>
    match f.apply t (t.fromU64 u) with
    | some next => (t.intoU64 next, .ok (t.fromU64 u))
    | none => (u, .err (t.fromU64 u))
  | .unsyncLoad => (u, .val (t.fromU64 u))
  | .withMut v => (t.intoU64 v, .val (t.fromU64 u))

theorem prim_rmw (t : ATy) {a : Atomic} {ths : Threads} (h : SingleInv a ths) (f : RmwFn)
    (so fo : Ord) :
    ∃ a' ths', (Prim.rmw f so fo).runAll t a ths
        = .ok [(a', ths', (primAbs t a.latestValue (.rmw f so fo)).2)] ∧
      SingleInv a' ths' ∧ a'.latestValue = (primAbs t a.latestValue (.rmw f so fo)).1 := by
  obtain ⟨h1, hr, hc⟩ := h
  obtain ⟨hle, hlt⟩ := inc_facts h1
  have h1' := h1.inc
  have hc' := hc.mono hle
  obtain ⟨a', ths', heq, h1'', hr', hc'', hval⟩ := rmw_ok h1' hr hle hlt hc' so fo
    (fun u => (f.apply t (t.fromU64 u)).map t.intoU64)
  refine ⟨a', ths', ?_, ⟨h1'', hr', hc''⟩, ?_⟩
  · simp only [Prim.runAll, Prim.synchronizes, if_true, Prim.candidates, hr.matchRmw, Except.map]
    apply forAll_single
    simp only [Prim.effect, heq, primAbs]
    cases f.apply t (t.fromU64 a.latestValue) <;> rfl
  · rw [hval]; simp only [primAbs]
    cases f.apply t (t.fromU64 a.latestValue) <;> rfl

theorem new_eq (u : Nat) : Atomic.new (Threads.new 5) u =
    .ok (({ ({} : Atomic) with unsyncMutAt := VV.zero.join (Threads.new 5).caus } : Atomic).store
      (Threads.new 5) Sync.new u .rel) := by
  unfold Atomic.new
  rw [trackUnsyncMut_ok (a := {}) (ths := Threads.new 5)
    ⟨rfl, by decide, by decide, by decide, by decide⟩]
  rfl

theorem creation (u : Nat) :
    ∃ a, Atomic.new (Threads.new 5) u = .ok a ∧ SingleInv a (Threads.new 5) ∧ a.latestValue = u := by
  refine ⟨_, new_eq u, ⟨OneThread.new, ?_, ?_⟩, ?_⟩
  · refine ⟨rfl, Nat.succ_pos 0, ?_, ?_, ?_, ?_⟩
    · intro i hi
      have : i = 0 ∨ i = 1 ∨ i = 2 ∨ i = 3 ∨ i = 4 ∨ i = 5 ∨ i = 6 := by simp [NH] at hi; omega
      rcases this with h | h | h | h | h | h | h <;> subst h <;> exact (by decide : VV.zero.le VV.zero)
    · intro i hi hic hne
      have h1 : i < 1 := hic
      have h2 : i ≠ 0 := hne
      omega
    · intro i j _ _ hic hjc hne
      have h1 : i < 1 := hic
      have h2 : j < 1 := hjc
      omega
    · exact ⟨0, rfl, Nat.zero_le _⟩
  · have hz : VV.zero.le VV.zero := by decide
    exact ⟨rfl, hz, hz, hz, VV.join_le hz hz⟩
  · exact latestValue_store _ _ _ _ _ rfl

theorem prim_load (t : ATy) {a : Atomic} {ths : Threads} (h : SingleInv a ths) (o : Ord) :
    ∃ a' ths', (Prim.load o).runAll t a ths = .ok [(a', ths', .val (t.fromU64 a.latestValue))] ∧
      SingleInv a' ths' ∧ a'.latestValue = a.latestValue := by
  obtain ⟨h1, hr, hc⟩ := h
  obtain ⟨hle, hlt⟩ := inc_facts h1
  have h1' := h1.inc
  have hr' := hr.mono hle
  have hc' := hc.mono hle
  obtain ⟨hr3, hc3, hcnt, hv, hs⟩ := readPart_inv h1' hr' hc'
  have hle2 := h1'.caus_le_syncLoad (a.storeAt (lastIdx a)).sync o
  refine ⟨_, _, ?_, ⟨h1'.syncLoad _ _, hr3.mono hle2, hc3.mono hle2⟩, ?_⟩
  · simp only [Prim.runAll, Prim.synchronizes, if_true, Prim.candidates, hr'.matchLoad,
      Except.map]
    apply forAll_single
    simp only [Prim.effect, load_ok h1' hr' hc']
    rfl
  · show ((readPart a _).storeAt (index ((readPart a _).cnt - 1))).value = _
    rw [hcnt]; exact hv

theorem SingleInv.inc {a : Atomic} {ths : Threads} (h : SingleInv a ths) :
    SingleInv a ths.activeCausalityInc :=
  ⟨h.1.inc, h.2.1.mono (inc_facts h.1).1, h.2.2.mono (inc_facts h.1).1⟩

/-- In the invariant every primitive has exactly one outcome: it reads the latest store, raises
no panic, re-establishes the invariant, and acts on the latest value as `primAbs` says. -/
theorem prim_single (t : ATy) {a : Atomic} {ths : Threads} (h : SingleInv a ths) (p : Prim) :
    ∃ a' ths', p.runAll t a ths = .ok [(a', ths', (primAbs t a.latestValue p).2)] ∧
      SingleInv a' ths' ∧ a'.latestValue = (primAbs t a.latestValue p).1 := by
  cases p with
  | load o => exact prim_load t h o
  | store v o => exact prim_store t h v o
  | rmw f so fo => exact prim_rmw t h f so fo
  | unsyncLoad => exact prim_unsyncLoad t h
  | withMut v => exact prim_withMut t h v

end C12
end LoomVerif

/-
C07, hand-over ordering: everything before a release happens-before everything after the next
acquire.  The lock object is followed through arbitrary sequences of release/acquire steps made
from arbitrary worlds (any thread tables): only the object's `Sync` clock carries the ordering.
-/
import LoomVerif.Proofs.C07Rw

namespace LoomVerif
namespace C07
open C12 Sy

/-- causality of the active thread after its clock was joined with `hb` through `mapIdx` -/
theorem caus_acquired (w : World) (hb : VV) (G : Nat → Thread → Thread) (os : Objs)
    (hin : w.tid < w.ths.threads.length) :
    ({ w with exec := { w.exec with
        objs := os
        threads := { w.exec.threads with threads :=
          (w.exec.threads.threads.mapIdx fun i th =>
            if i = w.tid then { th with causality := th.causality.join hb } else G i th) } } }
      : World).ths.caus = w.ths.caus.join hb := by
  have := get_mapIdx w.exec.threads (fun i th =>
            if i = w.tid then { th with causality := th.causality.join hb } else G i th) w.tid hin
  refine (congrArg Thread.causality this).trans ?_
  simp [World.tid, Threads.caus, Threads.activeT, World.ths]

/-! ### mutex -/

/-- (a) a release by the active thread puts its causality (and its released clock) into the
mutex's clock and frees the mutex -/
theorem releaseLock_hb {w w' : World} {o : Nat} {m : MutexSt}
    (h : w.exec.objs[o]? = some (.mutex m)) (ha : w.ths.isActive = true)
    (hr : w.releaseLock o = .ok w') :
    ∃ m', w'.exec.objs[o]? = some (.mutex m') ∧ m'.lock = none ∧
      w.ths.caus.le m'.sync.hb ∧ w.ths.activeT.released.le m'.sync.hb ∧
      m.sync.hb.le m'.sync.hb := by
  rw [releaseLock_active h ha] at hr
  cases hr
  refine ⟨_, getElem?_set_self' _ _ _ _ h, rfl, ?_, ?_, ?_⟩
  · exact (le_store_rel _ _ _).2.2
  · exact (le_store_rel _ _ _).2.1
  · exact (le_store_rel _ _ _).1

/-- `release_lock` never lowers the mutex's clock (active or not) -/
theorem releaseLock_mono {w w' : World} {o : Nat} {m m' : MutexSt}
    (h : w.exec.objs[o]? = some (.mutex m)) (hr : w.releaseLock o = .ok w')
    (h' : w'.exec.objs[o]? = some (.mutex m')) : m.sync.hb.le m'.sync.hb := by
  cases ha : w.ths.isActive
  · rw [releaseLock_inactive h ha] at hr
    cases hr
    have := getElem?_set_self' w.exec.objs o (.mutex { m with lock := none }) _ h
    simp only [World.setObj, World.setObjs] at h'
    rw [this] at h'
    cases h'
    exact VV.le_refl _
  · obtain ⟨m'', h'', _, _, _, hle⟩ := releaseLock_hb h ha hr
    rw [h''] at h'; cases h'; exact hle

/-- the two outcomes of `post_acquire` -/
theorem postAcquire_cases {w w' : World} {o : Nat} {m : MutexSt} {b : Bool}
    (h : w.exec.objs[o]? = some (.mutex m)) (hr : w.postAcquire o = .ok (w', b)) :
    (b = false ∧ w' = w ∧ m.lock.isSome = true) ∨
    (b = true ∧ m.lock = none ∧
      w'.exec.objs[o]? = some (.mutex { m with lock := some w.tid }) ∧
      (w.tid < w.ths.threads.length → w'.ths.caus = w.ths.caus.join m.sync.hb)) := by
  cases hl : m.lock with
  | some t =>
    rw [postAcquire_held h (by simp [hl])] at hr
    cases hr; exact .inl ⟨rfl, rfl, rfl⟩
  | none =>
    rw [postAcquire_free h hl] at hr
    cases hr
    refine .inr ⟨rfl, rfl, getElem?_set_self' _ _ _ _ h, ?_⟩
    intro hin
    exact caus_acquired w m.sync.hb _ _ hin

/-- `post_acquire` leaves the mutex's clock alone -/
theorem postAcquire_mono {w w' : World} {o : Nat} {m m' : MutexSt} {b : Bool}
    (h : w.exec.objs[o]? = some (.mutex m)) (hr : w.postAcquire o = .ok (w', b))
    (h' : w'.exec.objs[o]? = some (.mutex m')) : m'.sync = m.sync := by
  rcases postAcquire_cases h hr with ⟨_, rfl, _⟩ | ⟨_, _, h'', _⟩
  · rw [h] at h'; cases h'; rfl
  · rw [h''] at h'; cases h'; rfl

/-- (c) a successful `post_acquire` puts the mutex's clock into the acquirer's causality -/
theorem postAcquire_hb {w w' : World} {o : Nat} {m : MutexSt}
    (h : w.exec.objs[o]? = some (.mutex m)) (hin : w.tid < w.ths.threads.length)
    (hr : w.postAcquire o = .ok (w', true)) :
    m.sync.hb.le w'.ths.caus ∧ w.ths.caus.le w'.ths.caus := by
  rcases postAcquire_cases h hr with ⟨hb, _⟩ | ⟨_, _, _, hc⟩
  · cases hb
  · rw [hc hin]; exact ⟨VV.le_join_right _ _, VV.le_join_left _ _⟩

/-- one step in the life of a mutex, seen from the mutex: some world holding `m` performs
`release_lock` or `post_acquire` on it (any world: the thread tables are arbitrary), or the
scheduler records an access (`set_last_access`, which keeps `lock` and `sync`) -/
inductive MutexStep : MutexSt → MutexSt → Prop
  | release {w w' : World} {o : Nat} {m m' : MutexSt} :
      w.exec.objs[o]? = some (.mutex m) → w.releaseLock o = .ok w' →
      w'.exec.objs[o]? = some (.mutex m') → MutexStep m m'
  | acquire {w w' : World} {o : Nat} {m m' : MutexSt} {b : Bool} :
      w.exec.objs[o]? = some (.mutex m) → w.postAcquire o = .ok (w', b) →
      w'.exec.objs[o]? = some (.mutex m') → MutexStep m m'
  | touch (m : MutexSt) (a : Option Access) : MutexStep m { m with lastAccess := a }

/-- any number of steps -/
inductive MutexSteps : MutexSt → MutexSt → Prop
  | refl (m : MutexSt) : MutexSteps m m
  | tail {m m' m'' : MutexSt} : MutexSteps m m' → MutexStep m' m'' → MutexSteps m m''

/-- (b) every step is monotone on the mutex's clock -/
theorem MutexStep.mono {m m' : MutexSt} (h : MutexStep m m') : m.sync.hb.le m'.sync.hb := by
  cases h with
  | release h hr h' => exact releaseLock_mono h hr h'
  | acquire h hr h' => rw [postAcquire_mono h hr h']; exact VV.le_refl _
  | touch _ _ => exact VV.le_refl _

theorem MutexSteps.mono {m m' : MutexSt} (h : MutexSteps m m') : m.sync.hb.le m'.sync.hb := by
  induction h with
  | refl => exact VV.le_refl _
  | tail _ s ih => exact VV.le_trans ih s.mono

/-- hand-over: a release by A, then any steps, then a successful acquire by B: B's causality
after the acquire is above A's causality at the release -/
theorem mutex_handover {wA wA' wB wB' : World} {oA oB : Nat} {m0 m1 m2 : MutexSt}
    (hA : wA.exec.objs[oA]? = some (.mutex m0)) (hact : wA.ths.isActive = true)
    (hrel : wA.releaseLock oA = .ok wA') (hA' : wA'.exec.objs[oA]? = some (.mutex m1))
    (hsteps : MutexSteps m1 m2)
    (hB : wB.exec.objs[oB]? = some (.mutex m2)) (hin : wB.tid < wB.ths.threads.length)
    (hacq : wB.postAcquire oB = .ok (wB', true)) :
    wA.ths.caus.le wB'.ths.caus := by
  obtain ⟨m1', h1, _, hle, _, _⟩ := releaseLock_hb hA hact hrel
  rw [h1] at hA'; cases hA'
  exact VV.le_trans hle (VV.le_trans hsteps.mono (postAcquire_hb hB hin hacq).1)

/-! ### rwlock -/

/-- (a) `release_write_lock` puts the causality of the active thread into the lock's clock -/
theorem releaseWrite_hb {w w' : World} {o : Nat} {s : RwSt}
    (h : w.exec.objs[o]? = some (.rwlock s)) (hr : w.releaseWrite o = .ok w') :
    ∃ s', w'.exec.objs[o]? = some (.rwlock s') ∧ s'.lock = none ∧
      w.ths.caus.le s'.sync.hb ∧ s.sync.hb.le s'.sync.hb := by
  rw [releaseWrite_eq h] at hr
  cases hr
  exact ⟨_, getElem?_set_self' _ _ _ _ h, rfl, (le_store_rel _ _ _).2.2, (le_store_rel _ _ _).1⟩

/-- (a) `release_read_lock` puts the causality of the active thread into the lock's clock (whether
or not other readers remain) and removes the reader -/
theorem releaseRead_hb {w w' : World} {o : Nat} {s : RwSt}
    (h : w.exec.objs[o]? = some (.rwlock s)) (hr : w.releaseRead o = .ok w') :
    ∃ rs s', s.lock = some (.read rs) ∧ w'.exec.objs[o]? = some (.rwlock s') ∧
      readersOf s'.lock = rs.filter (· != w.tid) ∧ writerOf s'.lock = none ∧
      (s'.lock = none ↔ rs.filter (· != w.tid) = []) ∧
      w.ths.caus.le s'.sync.hb ∧ s.sync.hb.le s'.sync.hb := by
  cases hl : s.lock with
  | none => rw [releaseRead_invalid h (by simp [hl])] at hr; cases hr
  | some k =>
    cases k with
    | write x => rw [releaseRead_invalid h (by simp [hl])] at hr; cases hr
    | read rs =>
      by_cases he : rs.filter (· != w.tid) = []
      · rw [releaseRead_last h hl he] at hr
        cases hr
        refine ⟨rs, _, rfl, getElem?_set_self' _ _ _ _ h, ?_, rfl, ?_, (le_store_rel _ _ _).2.2,
          (le_store_rel _ _ _).1⟩
        · simp [readersOf, he]
        · simp [he]
      · rw [releaseRead_more h hl he] at hr
        cases hr
        refine ⟨rs, _, rfl, getElem?_set_self' _ _ _ _ h, ?_, rfl, ?_, (le_store_rel _ _ _).2.2,
          (le_store_rel _ _ _).1⟩
        · simp [readersOf]
        · simp [he]

/-- the two outcomes of `post_acquire_read_lock` -/
theorem postAcquireRead_cases {w w' : World} {o : Nat} {s : RwSt} {b : Bool}
    (h : w.exec.objs[o]? = some (.rwlock s)) (hr : w.postAcquireRead o = .ok (w', b)) :
    (b = false ∧ w' = w ∧ (writerOf s.lock).isSome = true) ∨
    (b = true ∧ writerOf s.lock = none ∧
      w'.exec.objs[o]? = some (.rwlock { s with
        lock := some (.read (World.insertSorted w.tid (readersOf s.lock))) }) ∧
      (w.tid < w.ths.threads.length → w'.ths.caus = w.ths.caus.join s.sync.hb)) := by
  cases hl : writerOf s.lock with
  | some t =>
    have : s.lock = some (.write t) := by
      rcases hs : s.lock with _ | ⟨rs | x⟩ <;> simp [hs, writerOf] at hl
      rw [hl]
    rw [postAcquireRead_writer h this] at hr
    cases hr; exact .inl ⟨rfl, rfl, rfl⟩
  | none =>
    rw [postAcquireRead_ok h hl] at hr
    cases hr
    refine .inr ⟨rfl, rfl, getElem?_set_self' _ _ _ _ h, ?_⟩
    intro hin
    exact caus_acquired w s.sync.hb _ _ hin

/-- the two outcomes of `post_acquire_write_lock` -/
theorem postAcquireWrite_cases {w w' : World} {o : Nat} {s : RwSt} {b : Bool}
    (h : w.exec.objs[o]? = some (.rwlock s)) (hr : w.postAcquireWrite o = .ok (w', b)) :
    (b = false ∧ w' = w ∧ s.lock.isSome = true) ∨
    (b = true ∧ s.lock = none ∧
      w'.exec.objs[o]? = some (.rwlock { s with lock := some (.write w.tid) }) ∧
      (w.tid < w.ths.threads.length → w'.ths.caus = w.ths.caus.join s.sync.hb)) := by
  cases hl : s.lock with
  | some t =>
    rw [postAcquireWrite_locked h (by simp [hl])] at hr
    cases hr; exact .inl ⟨rfl, rfl, rfl⟩
  | none =>
    rw [postAcquireWrite_free h hl] at hr
    cases hr
    refine .inr ⟨rfl, rfl, getElem?_set_self' _ _ _ _ h, ?_⟩
    intro hin
    exact caus_acquired w s.sync.hb _ _ hin

/-- (c) a successful read acquisition puts the lock's clock into the acquirer's causality -/
theorem postAcquireRead_hb {w w' : World} {o : Nat} {s : RwSt}
    (h : w.exec.objs[o]? = some (.rwlock s)) (hin : w.tid < w.ths.threads.length)
    (hr : w.postAcquireRead o = .ok (w', true)) :
    s.sync.hb.le w'.ths.caus ∧ w.ths.caus.le w'.ths.caus := by
  rcases postAcquireRead_cases h hr with ⟨hb, _⟩ | ⟨_, _, _, hc⟩
  · cases hb
  · rw [hc hin]; exact ⟨VV.le_join_right _ _, VV.le_join_left _ _⟩

/-- (c) a successful write acquisition puts the lock's clock into the acquirer's causality -/
theorem postAcquireWrite_hb {w w' : World} {o : Nat} {s : RwSt}
    (h : w.exec.objs[o]? = some (.rwlock s)) (hin : w.tid < w.ths.threads.length)
    (hr : w.postAcquireWrite o = .ok (w', true)) :
    s.sync.hb.le w'.ths.caus ∧ w.ths.caus.le w'.ths.caus := by
  rcases postAcquireWrite_cases h hr with ⟨hb, _⟩ | ⟨_, _, _, hc⟩
  · cases hb
  · rw [hc hin]; exact ⟨VV.le_join_right _ _, VV.le_join_left _ _⟩

/-- one step in the life of an rwlock, seen from the lock -/
inductive RwStep : RwSt → RwSt → Prop
  | releaseRead {w w' : World} {o : Nat} {s s' : RwSt} :
      w.exec.objs[o]? = some (.rwlock s) → w.releaseRead o = .ok w' →
      w'.exec.objs[o]? = some (.rwlock s') → RwStep s s'
  | releaseWrite {w w' : World} {o : Nat} {s s' : RwSt} :
      w.exec.objs[o]? = some (.rwlock s) → w.releaseWrite o = .ok w' →
      w'.exec.objs[o]? = some (.rwlock s') → RwStep s s'
  | acquireRead {w w' : World} {o : Nat} {s s' : RwSt} {b : Bool} :
      w.exec.objs[o]? = some (.rwlock s) → w.postAcquireRead o = .ok (w', b) →
      w'.exec.objs[o]? = some (.rwlock s') → RwStep s s'
  | acquireWrite {w w' : World} {o : Nat} {s s' : RwSt} {b : Bool} :
      w.exec.objs[o]? = some (.rwlock s) → w.postAcquireWrite o = .ok (w', b) →
      w'.exec.objs[o]? = some (.rwlock s') → RwStep s s'
  | touch (s : RwSt) (a : Option Access) : RwStep s { s with lastAccess := a }

inductive RwSteps : RwSt → RwSt → Prop
  | refl (s : RwSt) : RwSteps s s
  | tail {s s' s'' : RwSt} : RwSteps s s' → RwStep s' s'' → RwSteps s s''

/-- (b) every step is monotone on the lock's clock -/
theorem RwStep.mono {s s' : RwSt} (h : RwStep s s') : s.sync.hb.le s'.sync.hb := by
  cases h with
  | releaseRead h hr h' =>
    obtain ⟨_, s'', _, h'', _, _, _, _, hle⟩ := releaseRead_hb h hr
    rw [h''] at h'; cases h'; exact hle
  | releaseWrite h hr h' =>
    obtain ⟨s'', h'', _, _, hle⟩ := releaseWrite_hb h hr
    rw [h''] at h'; cases h'; exact hle
  | acquireRead h hr h' =>
    rcases postAcquireRead_cases h hr with ⟨_, rfl, _⟩ | ⟨_, _, h'', _⟩
    · rw [h] at h'; cases h'; exact VV.le_refl _
    · rw [h''] at h'; cases h'; exact VV.le_refl _
  | acquireWrite h hr h' =>
    rcases postAcquireWrite_cases h hr with ⟨_, rfl, _⟩ | ⟨_, _, h'', _⟩
    · rw [h] at h'; cases h'; exact VV.le_refl _
    · rw [h''] at h'; cases h'; exact VV.le_refl _
  | touch _ _ => exact VV.le_refl _

theorem RwSteps.mono {s s' : RwSt} (h : RwSteps s s') : s.sync.hb.le s'.sync.hb := by
  induction h with
  | refl => exact VV.le_refl _
  | tail _ st ih => exact VV.le_trans ih st.mono

/-- hand-over through an rwlock: a release (of a read or a write guard) by A, any steps, then a
successful acquisition (read or write) by B: B's causality is above A's at the release -/
theorem rw_handover {wA wA' wB wB' : World} {oA oB : Nat} {s0 s1 s2 : RwSt}
    (hA : wA.exec.objs[oA]? = some (.rwlock s0))
    (hrel : wA.releaseRead oA = .ok wA' ∨ wA.releaseWrite oA = .ok wA')
    (hA' : wA'.exec.objs[oA]? = some (.rwlock s1))
    (hsteps : RwSteps s1 s2)
    (hB : wB.exec.objs[oB]? = some (.rwlock s2)) (hin : wB.tid < wB.ths.threads.length)
    (hacq : wB.postAcquireRead oB = .ok (wB', true) ∨ wB.postAcquireWrite oB = .ok (wB', true)) :
    wA.ths.caus.le wB'.ths.caus := by
  have h1 : wA.ths.caus.le s1.sync.hb := by
    rcases hrel with hrel | hrel
    · obtain ⟨_, s'', _, h'', _, _, _, hle, _⟩ := releaseRead_hb hA hrel
      rw [h''] at hA'; cases hA'; exact hle
    · obtain ⟨s'', h'', _, hle, _⟩ := releaseWrite_hb hA hrel
      rw [h''] at hA'; cases hA'; exact hle
  have h2 : s2.sync.hb.le wB'.ths.caus := by
    rcases hacq with hacq | hacq
    · exact (postAcquireRead_hb hB hin hacq).1
    · exact (postAcquireWrite_hb hB hin hacq).1
  exact VV.le_trans h1 (VV.le_trans hsteps.mono h2)

end C07
end LoomVerif

/-
Refinement, WAIT fragment, part 21: the token relation along `park` and `unpark`, and the one-step simulation
for the full relation `R2`.
-/
import LoomVerif.Proofs.Refine2Tok

set_option linter.unusedSimpArgs false
set_option linter.unusedVariables false

namespace LoomVerif
namespace Refine2
open Refine Sy C07 C08 Foot

/-! ### the twin side of `park` and `unpark` -/

/-- `rt::park` by a thread that is not parked: the other threads are kept; the parker has no token afterwards and
is blocked in `park` exactly when it had none before -/
theorem parkNow_thr {w w' : World} (hin : w.tid < w.exec.threads.threads.length) (hu : ActUnparked w)
    (h : w.parkNow = .ok w') :
    (∀ i, i ≠ w.tid → PKeep (w.exec.threads.get i) (w'.exec.threads.get i) ∧
      (w'.exec.threads.get i).token = (w.exec.threads.get i).token) ∧
    (w'.exec.threads.get w.tid).token = false ∧
    (w'.exec.threads.get w.tid).parked = !(w.exec.threads.get w.tid).token ∧
    PInv (w'.exec.threads.get w.tid) ∧
    ((w'.exec.threads.get w.tid).isTerminated = true → (w.exec.threads.get w.tid).isTerminated = true) := by
  have htok_ne := fun i hi => Tok.parkNow_toks_ne h i hi
  have htok_self := Tok.parkNow_toks_self h
  cases htk : (w.exec.threads.get w.tid).token with
  | true =>
    rw [Tok.parkNow_of_token htk] at h
    cases h
    have hget : ∀ i, (w.ths.modifyActive fun th => ({ th with token := false } : Thread).acquireUnpark).get i =
        if w.tid = i ∧ i < w.exec.threads.threads.length then
          ({ w.exec.threads.get i with token := false } : Thread).acquireUnpark else w.exec.threads.get i :=
      fun i => WB.get_modify _ _ _ _
    refine ⟨?_, htok_self, ?_, ?_, ?_⟩
    · intro i hi
      refine ⟨?_, htok_ne i hi⟩
      show PKeep _ ((w.ths.modifyActive _).get i)
      rw [hget i, if_neg (fun e => hi e.1.symm)]
      exact PKeep.refl _
    · show ((w.ths.modifyActive _).get w.tid).parked = _
      rw [hget, if_pos ⟨rfl, hin⟩]
      show (w.exec.threads.get w.tid).parked = _
      rw [hu]; rfl
    · show PInv ((w.ths.modifyActive _).get w.tid)
      rw [hget, if_pos ⟨rfl, hin⟩]
      intro hp
      have : (w.exec.threads.get w.tid).parked = true := hp
      rw [hu] at this; cases this
    · show ((w.ths.modifyActive _).get w.tid).isTerminated = true → _
      rw [hget, if_pos ⟨rfl, hin⟩]
      exact id
  | false =>
    have hat : w.ths.activeT.token = false := htk
    rw [parkNow_block hat] at h
    simp only [bind, Except.bind, pure, Except.pure] at h
    split at h
    · cases h
    · next v hv =>
      cases h
      have k2 := schedule_tkeep hv
      have hget : ∀ i, (w.ths.modifyActive fun th => { th.setParked with operation := none }).get i =
          if w.tid = i ∧ i < w.exec.threads.threads.length then
            { (w.exec.threads.get i).setParked with operation := none } else w.exec.threads.get i :=
        fun i => WB.get_modify _ _ _ _
      have hmid : PInv ((w.ths.modifyActive fun th => { th.setParked with operation := none }).get w.tid) := by
        rw [hget, if_pos ⟨rfl, hin⟩]
        intro _; exact ⟨rfl, rfl⟩
      have hfin := (k2 w.tid).2 hmid
      refine ⟨?_, htok_self, ?_, hfin.2, ?_⟩
      · intro i hi
        refine ⟨?_, htok_ne i hi⟩
        have := k2 i
        change PKeep ((w.ths.modifyActive _).get i) _ at this
        rw [hget i, if_neg (fun e => hi e.1.symm)] at this
        exact this
      · have := hfin.1
        change (v.1.threads.get w.tid).parked = _ at this
        rw [this, hget, if_pos ⟨rfl, hin⟩]
        rfl
      · intro ht
        have := (k2 w.tid).1 ht
        change ((w.ths.modifyActive _).get w.tid).isTerminated = true at this
        rw [hget, if_pos ⟨rfl, hin⟩] at this
        simp [Thread.isTerminated, Thread.setParked] at this

theorem unpark_get_ne (s : Threads) (t j : Nat) (h : j ≠ t) : (s.unpark t).get j = s.get j := by
  unfold Threads.unpark
  split
  · next e =>
    have e' : t = s.activeId := by simpa using e
    show (s.modify s.activeId _).get j = _
    rw [WB.get_modify, if_neg (fun c => h (by rw [e']; exact c.1.symm))]
  · rw [WB.get_modify, if_neg (fun c => h c.1.symm)]

section
variable {w w' : World} {s s' : SCData2}

/-- two worlds related to the same reference state give the active thread the same pc -/
theorem pc_same (hR : R2c w s) (hR' : R2c w' s) (hact : w.tid < w.ctl.length) (hc : CtlStep w w') :
    (w'.ctl.getD w.tid {}).pc = (w.ctl.getD w.tid {}).pc := by
  have h1 := (hR.x.thr w.tid hact).2.2.1
  have h2 := (hR'.x.thr w.tid (Nat.lt_of_lt_of_le hact hc.len)).2.2.1
  rw [hc.body] at h2
  rw [← h1, ← h2]

/-- `park`, first stage -/
theorem RPk_park0 (hR : R2c w s) (hP : RPk w s) (hact : w.tid < w.ctl.length) (hu : ActUnparked w)
    (hop : opAt2 w = some .park) (hst : (w.ctlOf w.tid).stage = 0)
    (hprog : w'.prog = w.prog) (hctl : w'.ctl = w.ctl.modify w.tid fun c => { c with stage := 1 })
    (h : (w.setStage 1).parkNow = .ok w') : RPk w' s := by
  have hin : w.tid < w.exec.threads.threads.length := by rw [← hR.lenCtl]; exact hact
  obtain ⟨hoth0, htk0, hpk0, hpi0, hterm0⟩ := parkNow_thr (w := w.setStage 1) hin hu h
  have htk : (w'.exec.threads.get w.tid).token = false := htk0
  have hpk : (w'.exec.threads.get w.tid).parked = !(w.exec.threads.get w.tid).token := hpk0
  have hpi : PInv (w'.exec.threads.get w.tid) := hpi0
  have hterm : (w'.exec.threads.get w.tid).isTerminated = true →
      (w.exec.threads.get w.tid).isTerminated = true := hterm0
  have hoth : ∀ i, i ≠ w.tid → PKeep (w.exec.threads.get i) (w'.exec.threads.get i) ∧
      (w'.exec.threads.get i).token = (w.exec.threads.get i).token := hoth0
  have hself : w'.ctlOf w.tid = { w.ctlOf w.tid with stage := 1 } := by
    simp only [World.ctlOf, hctl]; exact getD_modify_self _ _ _ _ hact
  have hother : ∀ i, i ≠ w.tid → w'.ctlOf i = w.ctlOf i := by
    intro i hi
    simp only [World.ctlOf, hctl]; exact getD_modify_ne _ _ _ _ _ hi
  have hlen : w'.ctl.length = w.ctl.length := by rw [hctl]; simp
  have hpa1 : parkedAt w'.prog (w'.ctlOf w.tid) = true := by
    rw [hself, hprog]
    simp [parkedAt, show opOfCtl w.prog { w.ctlOf w.tid with stage := 1 } = some .park from hop]
  have hpa0 : parkedAt w.prog (w.ctlOf w.tid) = false := parkedAt_false_of_stage hst
  refine ⟨?_, ?_, ?_⟩
  · intro i hi hfin
    rw [hlen] at hi
    by_cases hit : i = w.tid
    · subst hit
      have hfin0 : (w.ctlOf w.tid).fin < 10 := by rw [fin_zero2 hR hact hop]; omega
      rw [hpa1, htk, hpk, show (w'.ctlOf w.tid).body = (w.ctlOf w.tid).body by rw [hself],
        hP.tok w.tid hi hfin0, hpa0]
      cases (w.exec.threads.get w.tid).token <;> rfl
    · obtain ⟨hk, ht⟩ := hoth i hit
      rw [hother i hit] at hfin ⊢
      rw [ht, (hk.2 (hP.pinv i)).1, hprog]
      exact hP.tok i hi hfin
  · intro i hp
    by_cases hit : i = w.tid
    · subst hit
      exact ⟨by rw [hlen]; exact hact, hpa1, hpi⟩
    · obtain ⟨hk, _⟩ := hoth i hit
      have h2 := hk.2 (hP.pinv i)
      rw [h2.1] at hp
      obtain ⟨a1, a2, _⟩ := hP.pk i hp
      exact ⟨by rw [hlen]; exact a1, by rw [hother i hit, hprog]; exact a2, h2.2⟩
  · intro i hi hfin
    rw [hlen] at hi
    cases ht : (w'.exec.threads.get i).isTerminated with
    | false => rfl
    | true =>
      exfalso
      by_cases hit : i = w.tid
      · subst hit
        have := hterm ht
        rw [hP.live w.tid hi (by rw [fin_zero2 hR hact hop]; omega)] at this
        cases this
      · obtain ⟨hk, _⟩ := hoth i hit
        have := hk.1 ht
        rw [hother i hit] at hfin
        rw [hP.live i hi hfin] at this
        cases this

/-- `park`, second stage: the thread table is untouched, the reference token is consumed -/
theorem RPk_park1 (hR : R2c w s) (hP : RPk w s) (hact : w.tid < w.ctl.length)
    (hop : opAt2 w = some .park) (hok : parkResumeOk w = true) (hst : (w.ctlOf w.tid).stage ≠ 0)
    (hs : ∀ u, (s'.th u).token = if u = (w.ctlOf w.tid).body then false else (s.th u).token) :
    RPk (w.complete .unit) s' := by
  have hself : (w.complete .unit).ctlOf w.tid = completeF .unit (w.ctlOf w.tid) := by
    simp only [World.ctlOf, ctl_complete']; exact getD_modify_self _ _ _ _ hact
  have hother : ∀ i, i ≠ w.tid → (w.complete .unit).ctlOf i = w.ctlOf i := by
    intro i hi
    simp only [World.ctlOf, ctl_complete']; exact getD_modify_ne _ _ _ _ _ hi
  have hlen : (w.complete .unit).ctl.length = w.ctl.length := by rw [ctl_complete']; simp
  unfold parkResumeOk at hok
  rw [hop] at hok
  simp only [hst, if_false, Bool.and_eq_true, Bool.not_eq_true'] at hok
  refine ⟨?_, ?_, ?_⟩
  · intro i hi hfin
    rw [hlen] at hi
    show _ = ((w.exec.threads.get i).token || (_ && !(w.exec.threads.get i).parked))
    by_cases hit : i = w.tid
    · subst hit
      rw [hself, hs, if_pos (show (completeF .unit (w.ctlOf w.tid)).body = (w.ctlOf w.tid).body from rfl),
        parkedAt_false_of_stage (c := completeF .unit (w.ctlOf w.tid)) rfl, hok.2]
      rfl
    · rw [hother i hit] at hfin ⊢
      have hne : (w.ctlOf i).body ≠ (w.ctlOf w.tid).body := fun e => hit (hR.x.inj i w.tid hi hact e)
      rw [hs, if_neg hne]
      exact hP.tok i hi hfin
  · intro i hp
    have hp' : (w.exec.threads.get i).parked = true := hp
    obtain ⟨a1, a2, a3⟩ := hP.pk i hp'
    have hit : i ≠ w.tid := by
      intro e; rw [e, hok.1] at hp'; cases hp'
    exact ⟨by rw [hlen]; exact a1, by rw [hother i hit]; exact a2, a3⟩
  · intro i hi hfin
    rw [hlen] at hi
    show (w.exec.threads.get i).isTerminated = false
    by_cases hit : i = w.tid
    · subst hit
      exact hP.live w.tid hi (by rw [fin_zero2 hR hact hop]; omega)
    · rw [hother i hit] at hfin
      exact hP.live i hi hfin

/-- `unpark u` -/
theorem RPk_unpark (hR : R2c w s) (hP : RPk w s) (hact : w.tid < w.ctl.length) (hu : ActUnparked w) {u t : Nat}
    (hop : opAt2 w = some (.unpark u)) (ht : t < w.ctl.length) (htb : (w.ctl.getD t {}).body = u)
    (hs : ∀ v, (s'.th v).token = if v = u ∧ (s.th u).finished = false then true else (s.th v).token) :
    RPk ((w.setThs (w.ths.unpark t)).complete .unit) s' := by
  let w0 := w.setThs (w.ths.unpark t)
  have htid : w0.tid = w.tid := by show (w.ths.unpark t).activeId = _; rw [unpark_activeId]; rfl
  have hself : (w0.complete .unit).ctlOf w.tid = completeF .unit (w.ctlOf w.tid) := by
    simp only [World.ctlOf, ctl_complete', htid]; exact getD_modify_self _ _ _ _ hact
  have hother : ∀ i, i ≠ w.tid → (w0.complete .unit).ctlOf i = w.ctlOf i := by
    intro i hi
    simp only [World.ctlOf, ctl_complete', htid]; exact getD_modify_ne _ _ _ _ _ hi
  have hbody : ∀ i, ((w0.complete .unit).ctlOf i).body = (w.ctlOf i).body := by
    intro i
    by_cases hi : i = w.tid
    · rw [hi, hself]; rfl
    · rw [hother i hi]
  have hfinEq : ∀ i, ((w0.complete .unit).ctlOf i).fin = (w.ctlOf i).fin := by
    intro i
    by_cases hi : i = w.tid
    · rw [hi, hself]; rfl
    · rw [hother i hi]
  have hlen : (w0.complete .unit).ctl.length = w.ctl.length := by
    show (w.ctl.modify _ _).length = _; simp
  have hth : (w0.complete .unit).exec.threads = w.exec.threads.unpark t := rfl
  have hin : t < w.exec.threads.threads.length := by rw [← hR.lenCtl]; exact ht
  obtain ⟨f1, f2, f3⟩ := unpark_get_fields w.exec.threads t hin
  have hnp : opAt2 w ≠ some .park := by rw [hop]; intro e; cases e
  have hpaA0 : parkedAt w.prog (w.ctlOf w.tid) = false := parkedAt_false_of_op hnp
  have hpaA1 : parkedAt w.prog (completeF .unit (w.ctlOf w.tid)) = false := parkedAt_false_of_stage rfl
  -- `parkedAt` of every thread is the same before and after
  have hpaEq : ∀ i, parkedAt (w0.complete .unit).prog ((w0.complete .unit).ctlOf i) = parkedAt w.prog (w.ctlOf i) := by
    intro i
    by_cases hi : i = w.tid
    · rw [hi, hself]; show parkedAt w.prog _ = _; rw [hpaA0, hpaA1]
    · rw [hother i hi]; rfl
  have hfinu : ∀ i, i < w.ctl.length → (w.ctlOf i).fin < 10 → (s.th (w.ctlOf i).body).finished = false := by
    intro i hi hf
    have := (hR.x.thr i hi).2.2.2.2.1
    show (s.ths.getD (w.ctl.getD i {}).body {}).finished = false
    rw [this]
    exact decide_eq_false (by simp only [World.ctlOf] at hf; omega)
  refine ⟨?_, ?_, ?_⟩
  · intro i hi hfin
    rw [hlen] at hi
    rw [hfinEq] at hfin
    rw [hpaEq, hbody, hs, hth]
    by_cases hit : i = t
    · subst hit
      rw [if_pos ⟨htb, by rw [← htb]; exact hfinu i hi hfin⟩, f3, f2]
      cases hp : (w.exec.threads.get i).parked with
      | true =>
        obtain ⟨_, a2, _⟩ := hP.pk i hp
        rw [setUnparked_parked hp, a2]
        simp
      | false =>
        have hl : (w.exec.threads.get i).state ≠ .terminated := by
          intro e
          have := hP.live i hi hfin
          simp [Thread.isTerminated, e] at this
        rw [setUnparked_live hp hl]
        simp
    · rw [unpark_get_ne _ _ _ hit]
      have hne : (w.ctlOf i).body ≠ u := by
        rw [← htb]
        exact fun e => hit (hR.x.inj i t hi ht e)
      rw [if_neg (fun c => hne c.1)]
      exact hP.tok i hi hfin
  · intro i hp
    rw [hth] at hp
    by_cases hit : i = t
    · subst hit
      exfalso
      rw [f2] at hp
      cases hp0 : (w.exec.threads.get i).parked with
      | true => rw [setUnparked_parked hp0] at hp; cases hp
      | false => rw [(setUnparked_state_of_not_parked hp0).2.1] at hp; cases hp
    · rw [unpark_get_ne _ _ _ hit] at hp
      obtain ⟨a1, a2, a3⟩ := hP.pk i hp
      refine ⟨by rw [hlen]; exact a1, by rw [hpaEq]; exact a2, ?_⟩
      rw [hth, unpark_get_ne _ _ _ hit]; exact a3
  · intro i hi hfin
    rw [hlen] at hi
    rw [hfinEq] at hfin
    rw [hth]
    by_cases hit : i = t
    · subst hit
      have hl := hP.live i hi hfin
      unfold Thread.isTerminated at hl ⊢
      rw [f1]
      cases hp0 : (w.exec.threads.get i).parked with
      | true => rw [setUnparked_parked hp0]; rfl
      | false => rw [(setUnparked_state_of_not_parked hp0).1]; exact hl
    · rw [unpark_get_ne _ _ _ hit]
      exact hP.live i hi hfin

end

end Refine2
end LoomVerif

/-
Deadlock soundness (C05), FUTURES fragment, part 1: definitions.

* `Deadlock3.WFD`: `Refine4.WF4` plus `Deadlock.JoinOnce` (a `JoinHandle` is consumed by `join`).
* `Deadlock3.Unavail`: an object a thread can be blocked on is UNAVAILABLE: a held mutex, a `Notify` whose flag is
  clear.  `Deadlock3.GBlk`: a loom thread in state `blocked` has a pending operation that WAITS (`blocking`) on an
  unavailable object — an invariant of the execution record alone (no control table), kept by every helper of the
  interpreter.
* `Deadlock3.wpos`: the WAITING POSITIONS of the fragment — past the branch point of `join b`; in the second half of
  the `Notify::wait` of `blockOn f _` (stages 16, 53); past the branch point of the lock of the slot's mutex
  (`blockOn` 30, 45, `wake` / `wakeRef` / `wakeQ` 2, `dropWaker` 1) or of the `AtomicWaker`'s mutex (`blockOn` 44,
  `awWake` 2, `awTake` 1).  `Deadlock3.OpAt4`: the pending operation of a thread that is not running, by the place
  where it stopped; anywhere else than at a waiting position it is not a waiting one.
* `Deadlock3.holdsAt`: the places where a thread holds a mutex across a branch point (`blockOn` 13: the slot's,
  25: the `AtomicWaker`'s; `wakeRef` / `wakeQ` 5: the slot's).
* `Deadlock3.JB4`: the twin-side invariant; `Deadlock3.RB4 w s := R4 w s ∧ JB4 w ∧ PI w`.
* `Deadlock3.Dead4`: a deadlocked state of `Spec/SC.lean`.
-/
import LoomVerif.Proofs.Refine4Run
import LoomVerif.Proofs.Deadlock2Check

namespace LoomVerif
namespace Deadlock3
open Refine Refine4

/-- well-formed programs of the futures fragment (`Refine4.WF4`) in which each body is joined at most once -/
def WFD (p : Prog) : Prop := WF4 p ∧ Deadlock.JoinOnce p

instance (p : Prog) : Decidable (WFD p) := by unfold WFD; infer_instance

theorem WFD.join_unique {p : Prog} (h : WFD p) {a k a' k' b : Nat}
    (h1 : (p.threads.getD a [])[k]? = some (.join b))
    (h2 : (p.threads.getD a' [])[k']? = some (.join b)) : a = a' ∧ k = k' := by
  obtain ⟨ha, hk⟩ := Refine3.pos_bound h1
  obtain ⟨ha', hk'⟩ := Refine3.pos_bound h2
  have e1 : Deadlock.joinAt p a k = some b := by simp only [Deadlock.joinAt, h1]
  have e2 : Deadlock.joinAt p a' k' = some b := by simp only [Deadlock.joinAt, h2]
  have := h.2 a ha k hk a' ha' k' hk'
  simpa [Deadlock.joinPairOk, e1, e2] using this

/-! ### the execution record -/

/-- the objects of a world as the relation sees them -/
abbrev ovW (w : World) : List OV4 := w.exec.objs.map ov4

/-- **object `o` is unavailable**: a held mutex, or a `Notify` whose flag is clear -/
def Unavail (ov : List OV4) (o : Nat) : Prop :=
  (∃ l, ov[o]? = some (.mutex (some l))) ∨ (∃ sp ds, ov[o]? = some (.notify sp false ds))

/-- **blocked means waiting on an unavailable object** -/
def GBlk (e : Exec) : Prop :=
  ∀ i, (e.threads.get i).state = .blocked →
    ∃ op, (e.threads.get i).operation = some op ∧ op.blocking = true ∧ Unavail (e.objs.map ov4) op.obj

/-! ### the waiting positions -/

inductive WPos
  /-- `join b`, past the branch point -/
  | join (b : Nat)
  /-- the second half of the `Notify::wait` of a `block_on` of future `f` -/
  | call (f : Nat)
  /-- past the branch point of the lock of the slot's mutex of future `f` -/
  | slotM (f : Nat)
  /-- past the branch point of the lock of the `AtomicWaker`'s mutex of future `f` -/
  | awM (f : Nat)
deriving DecidableEq, Repr

/-- the waiting positions, by operation and stage -/
def wposT : Op → Nat → Option WPos
  | .join b, 1 => some (.join b)
  | .blockOn f _, 16 => some (.call f)
  | .blockOn f _, 53 => some (.call f)
  | .blockOn f _, 30 => some (.slotM f)
  | .blockOn f _, 45 => some (.slotM f)
  | .blockOn f _, 44 => some (.awM f)
  | .wake f, 2 => some (.slotM f)
  | .wakeRef f, 2 => some (.slotM f)
  | .wakeQ f, 2 => some (.slotM f)
  | .dropWaker f, 1 => some (.slotM f)
  | .awWake f, 2 => some (.awM f)
  | .awTake f, 1 => some (.awM f)
  | _, _ => none

/-- the waiting positions on a `Notify`: `join`, the `Notify::wait` of a `block_on` -/
def isNotifyPos : Option WPos → Bool
  | some (.join _) => true
  | some (.call _) => true
  | _ => false

/-- the waiting position of a control record -/
def wpos (p : Prog) (c : TCtl) : Option WPos :=
  match opOfCtl p c with
  | none => none
  | some op => wposT op c.stage

theorem wpos_of {p : Prog} {c : TCtl} {op : Op} (h : opOfCtl p c = some op) : wpos p c = wposT op c.stage := by
  unfold wpos; rw [h]

theorem wpos_none {p : Prog} {c : TCtl} (h : opOfCtl p c = none) : wpos p c = none := by
  unfold wpos; rw [h]

theorem wposT_zero (op : Op) : wposT op 0 = none := by
  cases op <;> rfl

/-- **the pending operation of a thread that is not running**, by the place where it stopped -/
def OpAt4 (p : Prog) (sp : List (Nat × Nat × Nat)) (futs : List FutSt) (c : TCtl) (o : Option Operation) : Prop :=
  match wpos p c with
  | some (.join b) => ∃ t n bl, (b, t, n) ∈ sp ∧ o = some ⟨n, .opaque, bl⟩
  | some (.call f) => ∃ bl, o = some ⟨(futs.getD f {}).notify, .opaque, bl⟩
  | some (.slotM f) => o = some ⟨mbase p + 2 * f, .opaque, true⟩
  | some (.awM f) => o = some ⟨mbase p + 2 * f + 1, .opaque, true⟩
  | none => ∀ op, o = some op → op.blocking = false

/-- the mutex a thread holds across a branch point, by operation and stage -/
def holdsT (p : Prog) : Op → Nat → Option Nat
  | .blockOn f _, 13 => some (mbase p + 2 * f)
  | .blockOn f _, 25 => some (mbase p + 2 * f + 1)
  | .wakeRef f, 5 => some (mbase p + 2 * f)
  | .wakeQ f, 5 => some (mbase p + 2 * f)
  | _, _ => none

def holdsAt (p : Prog) (c : TCtl) : Option Nat :=
  match opOfCtl p c with
  | none => none
  | some op => holdsT p op c.stage

theorem holdsAt_of {p : Prog} {c : TCtl} {op : Op} (h : opOfCtl p c = some op) :
    holdsAt p c = holdsT p op c.stage := by
  unfold holdsAt; rw [h]

theorem holdsAt_none {p : Prog} {c : TCtl} (h : opOfCtl p c = none) : holdsAt p c = none := by
  unfold holdsAt; rw [h]

/-- a thread that holds a mutex across a branch point is not at a waiting position -/
theorem wpos_of_holds {p : Prog} {c : TCtl} {o : Nat} (h : holdsAt p c = some o) : wpos p c = none := by
  unfold holdsAt at h
  unfold wpos
  cases ho : opOfCtl p c with
  | none => rfl
  | some op =>
    rw [ho] at h
    simp only at h ⊢
    unfold holdsT at h
    split at h
    all_goals first
      | (cases h; done)
      | (rename_i hs; rw [hs]; rfl)

/-- a thread about to deliver a notification is not at a waiting position -/
theorem wpos_of_pendN {p : Prog} {c : TCtl} {k : Nat} (h : pendN p c = some k) : wpos p c = none := by
  unfold pendN at h
  unfold wpos
  split at h <;> first | (cases h; done) | (rename_i ho hs; rw [ho]; simp only [hs]; rfl)

/-! ### the twin-side invariant -/

/-- what the entry of loom thread `i` means (`act`: it is the running thread, whose `operation` field may be left
over from its last branch point): terminated ⇒ at the very end of its epilogue; blocked, or not running ⇒ its
pending operation is the one of the place where it stopped -/
structure JT4 (p : Prog) (sp : List (Nat × Nat × Nat)) (futs : List FutSt) (act : Prop) (th : Thread)
    (c : TCtl) : Prop where
  blk : th.state = .blocked → OpAt4 p sp futs c th.operation
  term : th.state = .terminated → c.fin = 99
  opn : ¬ act → OpAt4 p sp futs c th.operation

/-- a `JoinHandle` notify whose thread has passed its notification is still notified, unless the `join` of that
body has been executed -/
def Jnd4 (w : World) : Prop :=
  ∀ b i n, (b, i, n) ∈ w.spawned → 10 ≤ (w.ctlOf i).fin →
    (∃ sp ds, (ovW w)[n]? = some (.notify sp true ds)) ∨
    ∃ j k, j < w.ctl.length ∧ k < (w.ctlOf j).pc ∧
      (w.prog.threads.getD (w.ctlOf j).body [])[k]? = some (.join b)

/-- **the twin-side invariant** -/
structure JB4 (w : World) : Prop where
  /-- blocked means waiting on an unavailable object -/
  g : GBlk w.exec
  thr : ∀ i, i < w.ctl.length → JT4 w.prog w.spawned w.futs (i = w.tid) (w.ths.get i) (w.ctlOf i)
  /-- a held mutex is held by a thread that holds it across a branch point -/
  hold : ∀ o t, (ovW w)[o]? = some (.mutex (some t)) → t < w.ctl.length ∧ holdsAt w.prog (w.ctlOf t) = some o
  /-- the two mutexes of a future are mutexes -/
  mtx : ∀ f, f < w.prog.cfg.nFutures →
    (∃ l, (ovW w)[mbase w.prog + 2 * f]? = some (.mutex l)) ∧ ∃ l, (ovW w)[mbase w.prog + 2 * f + 1]? = some (.mutex l)
  jnd : Jnd4 w
  spb : ∀ e1 e2, e1 ∈ w.spawned → e2 ∈ w.spawned → e1.1 = e2.1 → e1 = e2
  sp0 : ∀ b i n, (b, i, n) ∈ w.spawned → 0 < i
  /-- **not blocked past the branch point of a wait means notified**: a thread other than the running one that
  stands past the branch point of `join` or of the `Notify::wait` of a `block_on` and is NOT blocked waits on an
  object that is available (the flag of the `Notify` is raised) -/
  avail : ∀ i, i < w.ctl.length → i ≠ w.tid → (w.ths.get i).state ≠ .blocked →
    isNotifyPos (wpos w.prog (w.ctlOf i)) = true → ∀ op, (w.ths.get i).operation = some op → ¬ Unavail (ovW w) op.obj

/-- **the strengthened abstraction relation**: `R4`, the twin-side invariant, and a path whose remaining `Schedule`
entries all name a thread -/
structure RB4 (w : World) (s : SC.St) : Prop where
  r : R4 w s
  j : JB4 w
  path : Deadlock.ReplayOK w.exec.path

/-- the path in the middle of (or after) a stage that started with path `p0`: what is left to replay names a thread
at every scheduling point; and it is well-formed with an active thread in every `Schedule` entry if `p0` was -/
def PathOK (p0 p : Path) : Prop :=
  Deadlock.ReplayOK p ∧ (p0.WF ∧ Deadlock.AllOK p0 → p.WF ∧ Deadlock.AllOK p)

/-! ### the reference side -/

/-- **a deadlocked state of the reference semantics**: no verdict, no thread is `SC.enabled`, some started thread
has not finished -/
def Dead4 (p : Prog) (s : SC.St) : Prop :=
  s.verdict = none ∧ (∀ t, SC.enabled p s t = false) ∧ ∃ t, (s.th t).started = true ∧ (s.th t).finished = false

/-- `s` — or its successor by one step of a thread enabled in `s` — is deadlocked -/
def DeadFrom (p : Prog) (s : SC.St) : Prop :=
  ∃ s', (s' = s ∨ ∃ t, SC.enabled p s t = true ∧ s' ∈ SC.step p s t) ∧ Dead4 p s'

/-- **what a stage of the active thread of `w` (related to `s`) yields**: a world that satisfies the twin-side
invariant again — or, if it panics with "deadlock", a deadlocked reference state -/
def Out (w : World) (s : SC.St) : Except Panic World → Prop
  | .ok w' => JB4 w' ∧ Deadlock.ReplayOK w'.exec.path ∧
      (w.exec.path.WF ∧ Deadlock.AllOK w.exec.path → Deadlock.PI w')
  | .error e => e = .deadlock → DeadFrom w.prog s

/-- what every case of the proof starts from -/
structure Ctx (w : World) (s : SC.St) : Prop where
  wf : WFD w.prog
  r : R4 w s
  j : JB4 w
  rp : Deadlock.ReplayOK w.exec.path
  active : w.ths.isActive = true
  act : w.tid < w.ctl.length
  ok : resumeOk4 w = true
  run : (w.ths.get w.tid).state ≠ .blocked ∧ (w.ths.get w.tid).state ≠ .terminated

theorem Ctx.hin {w : World} {s : SC.St} (c : Ctx w s) : w.tid < w.exec.threads.threads.length := by
  have : w.ctl.length = w.exec.threads.threads.length := c.r.lenCtl
  rw [← this]; exact c.act

/-- **the world in the middle of a stage** of the active thread of `w`: `w1` has been reached by helpers that do
not schedule.  `G`: what the stage has done to the control record of the active thread so far; `H`: the mutex the
active thread holds; `K`: the `Notify` objects whose flag the stage has consumed; `Fu`: the futures' table. -/
structure Mid (w w1 : World) (G : TCtl → TCtl) (H : Option Nat) (K : List Nat) (Fu : List FutSt) : Prop where
  prog : w1.prog = w.prog
  spawned : w1.spawned = w.spawned
  ctl : w1.ctl = w.ctl.modify w.tid G
  futs : w1.futs = Fu
  tid : w1.tid = w.tid
  pan : w1.panicking = w.panicking
  act : w1.ths.isActive = true
  len : w1.exec.threads.threads.length = w.exec.threads.threads.length
  g : GBlk w1.exec
  /-- the other threads keep their pending operation and are not terminated by the stage -/
  oth : ∀ i, i ≠ w.tid → (w1.ths.get i).operation = (w.ths.get i).operation ∧
    ((w1.ths.get i).state = .terminated → (w.ths.get i).state = .terminated)
  run : (w1.ths.get w.tid).state ≠ .blocked ∧ (w1.ths.get w.tid).state ≠ .terminated
  /-- the mutexes the other threads hold, they held before -/
  locks : ∀ (o t : Nat), (ovW w1)[o]? = some (.mutex (some t)) → t ≠ w.tid → (ovW w)[o]? = some (.mutex (some t))
  mine : ∀ (o : Nat), (ovW w1)[o]? = some (.mutex (some w.tid)) → H = some o
  /-- mutexes stay mutexes -/
  mkind : ∀ (o : Nat) (l : Option Nat), (ovW w)[o]? = some (.mutex l) → ∃ l', (ovW w1)[o]? = some (.mutex l')
  /-- raised flags stay raised, except those the stage has consumed -/
  nmono : ∀ (o : Nat) (sp ds : Bool), o ∉ K → (ovW w)[o]? = some (.notify sp true ds) →
    ∃ ds', (ovW w1)[o]? = some (.notify sp true ds')
  /-- `Notify` objects stay `Notify` objects -/
  nkind : ∀ (o : Nat) (sp nt ds : Bool), (ovW w)[o]? = some (.notify sp nt ds) →
    ∃ nt' ds', (ovW w1)[o]? = some (.notify sp nt' ds')
  /-- another thread whose pending operation is on a `Notify` whose flag the stage has not consumed, and that is
  not blocked now: if it was blocked, or the flag was raised, at the start of the stage, the flag is raised now -/
  avail : ∀ (i : Nat), i ≠ w.tid → ∀ (op : Operation) (sp nt ds : Bool), (w.ths.get i).operation = some op →
    (ovW w)[op.obj]? = some (.notify sp nt ds) → op.obj ∉ K → (w1.ths.get i).state ≠ .blocked →
    ((w.ths.get i).state = .blocked ∨ nt = true) → ∃ ds', (ovW w1)[op.obj]? = some (.notify sp true ds')
  path : PathOK w.exec.path w1.exec.path

end Deadlock3
end LoomVerif

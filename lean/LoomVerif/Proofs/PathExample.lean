/-
Part G of C14: a concrete run (two threads and one spurious-wakeup decision, four iterations)
built by calling the model's API functions.
-/
import LoomVerif.Proofs.PathTerm

namespace LoomVerif
namespace Path
namespace Example

def get {α} [Inhabited α] : Except Panic α → α
  | .ok a => a
  | .error _ => default

/-- thread 0 running, thread 1 runnable -/
def seed : List ThSt := [.active, .skip]

/-- one execution: schedule (2 threads), DPOR asks to also try thread 1 at branch 0, then a
spurious-wakeup decision -/
def p0 : Path := Path.new 4 none true
def p0a : Path := (get (p0.branchThread seed)).1
def p0b : Path := get (p0a.backtrack 0 1)
def q0 : Path := (get (p0b.branchSpurious)).1
def p1 : Path := q0.step.getD default
def p1a : Path := (get (p1.branchThread seed)).1
def q1 : Path := (get (p1a.branchSpurious)).1
def p2 : Path := q1.step.getD default
def p2a : Path := (get (p2.branchThread seed)).1
def q2 : Path := (get (p2a.branchSpurious)).1
def p3 : Path := q2.step.getD default
def p3a : Path := (get (p3.branchThread seed)).1
def q3 : Path := (get (p3a.branchSpurious)).1

theorem iter0 : Iter true p0 q0 :=
  .call false (fun _ => rfl) (.branchThread seed (some 0) rfl) <|
  .call false (fun _ => rfl) (.backtrack 0 1 rfl) <|
  .call false (fun _ => rfl) (.branchSpurious false rfl) <|
  .refl _

theorem iter1 : Iter true p1 q1 :=
  .call false (fun _ => rfl) (.branchThread seed (some 0) rfl) <|
  .call false (fun _ => rfl) (.branchSpurious true rfl) <|
  .refl _

theorem iter2 : Iter true p2 q2 :=
  .call false (fun _ => rfl) (.branchThread seed (some 1) rfl) <|
  .call false (fun _ => rfl) (.branchSpurious false rfl) <|
  .refl _

theorem iter3 : Iter true p3 q3 :=
  .call false (fun _ => rfl) (.branchThread seed (some 1) rfl) <|
  .call false (fun _ => rfl) (.branchSpurious true rfl) <|
  .refl _

theorem run : Explore (Iter true) (Path.new 4 none true) [q0, q1, q2, q3] :=
  .next iter0 (p' := p1) rfl <|
  .next iter1 (p' := p2) rfl <|
  .next iter2 (p' := p3) rfl <|
  .last iter3

theorem finished : Finished [q0, q1, q2, q3] := ⟨q3, rfl, rfl⟩

theorem decisions : [q0, q1, q2, q3].map D = [[0, 0], [0, 1], [1, 0], [1, 1]] := rfl

end Example
end Path
end LoomVerif

/-
Deadlock soundness, FUTURES fragment, part 13: `spawn`; the case analysis over the operation and the stage of the
active thread; the one-stage theorem `step_out`: a stage of the active thread of a world that satisfies the
strengthened relation yields a world that satisfies the twin-side invariant again or, if it panics with "deadlock",
a deadlocked reference state.
-/
import LoomVerif.Proofs.Deadlock3Act

set_option linter.unusedSimpArgs false
set_option linter.unusedVariables false

namespace LoomVerif
namespace Deadlock3
open Refine Refine4 Deadlock Deadlock2

/-! ### `spawn b` -/

theorem spawn_noDL (w : World) (c : TCtl) (b : Nat) : NoDL (w.runOp c (.spawn b)) := by
  rw [Sy.runOp_spawn]
  nodl

theorem getD_append_default (l : List Thread) (i : Nat) : (l ++ [({} : Thread)]).getD i {} = l.getD i {} := by
  by_cases h : i < l.length
  · simp [List.getD, List.getElem?_append_left h]
  · by_cases e : i = l.length
    · subst e
      simp [List.getD]
    · have h1 : (l ++ [({} : Thread)])[i]? = none := List.getElem?_eq_none (by simp; omega)
      have h2 : l[i]? = none := List.getElem?_eq_none (by omega)
      simp [List.getD, h1, h2]

theorem OpAt4.mono {p : Prog} {sp sp' : List (Nat × Nat × Nat)} {futs : List FutSt} {c : TCtl}
    {o : Option Operation} (h : OpAt4 p sp futs c o) (hsp : ∀ e, e ∈ sp → e ∈ sp') : OpAt4 p sp' futs c o := by
  unfold OpAt4 at h ⊢
  cases hw : wpos p c with
  | none => rw [hw] at h; exact h
  | some x =>
    rw [hw] at h
    cases x with
    | join b =>
      obtain ⟨t, n, bl, hm, e⟩ := h
      exact ⟨t, n, bl, hsp _ hm, e⟩
    | call f => exact h
    | slotM f => exact h
    | awM f => exact h

section
variable {w : World} {s : SC.St}

/-- a thread other than the running one that stands past the branch point of a wait on a `Notify` has a pending
operation on a `Notify` object -/
theorem waits_on_notify (hwf : WFD w.prog) (hR : R4 w s) (hJ : JB4 w) {i : Nat} (hi : i < w.ctl.length)
    (hne : i ≠ w.tid) (hw : isNotifyPos (wpos w.prog (w.ctlOf i)) = true) {op : Operation}
    (hop : (w.ths.get i).operation = some op) :
    ∃ sp nt ds, (ovW w)[op.obj]? = some (.notify sp nt ds) ∧
      ((∃ b t, wpos w.prog (w.ctlOf i) = some (.join b) ∧ (b, t, op.obj) ∈ w.spawned ∧ sp = false) ∨
       (∃ f, wpos w.prog (w.ctlOf i) = some (.call f) ∧ op.obj = (w.futs.getD f {}).notify ∧ sp = true)) := by
  have hO := (hJ.thr i hi).opn hne
  rw [hop] at hO
  unfold OpAt4 at hO
  cases hx : wpos w.prog (w.ctlOf i) with
  | none => rw [hx] at hw; cases hw
  | some x =>
    rw [hx] at hO hw
    cases x with
    | join b =>
      obtain ⟨t, n, bl, hmem, e'⟩ := hO
      cases e'
      obtain ⟨_, _, nt, ds, hv, _⟩ := hR.sp.sp b t n hmem
      exact ⟨false, nt, ds, hv, .inl ⟨b, t, rfl, hmem, rfl⟩⟩
    | call f =>
      obtain ⟨bl, e'⟩ := hO
      cases e'
      obtain ⟨md, hopc, hst⟩ := wpos_call hx
      obtain ⟨_, nt, ds, hv, _⟩ := hR.no_lost_wakeup hwf.1 i hi hopc hst
      exact ⟨true, nt, ds, hv, .inr ⟨f, rfl, rfl, rfl⟩⟩
    | slotM f => cases hw
    | awM f => cases hw

theorem st_spawn (c : Ctx w s) {b : Nat} (hop : opAt w = some (.spawn b)) (hst : (w.ctlOf w.tid).stage = 0) :
    Out w s w.stepActive := by
  rw [Refine4.stepActive_op hop]
  cases h : w.runOp (w.ctlOf w.tid) (.spawn b) with
  | error e => exact out_of_ne rfl ((spawn_noDL w _ b).h e h)
  | ok w' =>
    show JB4 w' ∧ ReplayOK w'.exec.path ∧ (w.exec.path.WF ∧ AllOK w.exec.path → PI w')
    have hlen : w.ctl.length = w.exec.threads.threads.length := c.r.lenCtl
    obtain ⟨hb0, hb, hidle⟩ : 0 < b ∧ b < w.prog.threads.length ∧
        ∀ i, i < w.ctl.length → (w.ctl.getD i {}).body ≠ b := c.r.x.spawn_fresh c.wf.1 c.act hop
    have hfu : w'.futs = w.futs := spawn_futs h
    obtain ⟨hpath, hths⟩ := Deadlock.spawn_ths h
    obtain ⟨w2, rfl, hp, ht, _, hc, hsp, hobjs, hlen2⟩ := Refine.spawn_obs h
    have hprog : (w2.complete .unit).prog = w.prog := hp
    have hspw : (w2.complete .unit).spawned =
        (b, w.exec.threads.threads.length, w.exec.objs.length) :: w.spawned := hsp
    have hst' : ∀ i, ((w2.complete .unit).ths.get i).state = (w.ths.get i).state ∧
        ((w2.complete .unit).ths.get i).operation = (w.ths.get i).operation := by
      intro i
      have := hths i
      rw [getD_append_default] at this
      exact this
    have hov : ovW (w2.complete .unit) = ovW w ++ [.notify false false false] := by
      show w2.exec.objs.map ov4 = _
      rw [hobjs]; simp [ov4]
    have old : ∀ (o : Nat) (v : OV4), (ovW w)[o]? = some v → (ovW (w2.complete .unit))[o]? = some v := by
      intro o v hv
      rw [hov, List.getElem?_append_left (List.getElem?_eq_some_iff.1 hv).1]; exact hv
    have oldM : ∀ (o : Nat) (l : Option Nat), (ovW (w2.complete .unit))[o]? = some (.mutex l) →
        (ovW w)[o]? = some (.mutex l) := by
      intro o l hv
      rw [hov] at hv
      by_cases ho : o < (ovW w).length
      · rw [List.getElem?_append_left ho] at hv; exact hv
      · rw [List.getElem?_append_right (by omega)] at hv
        cases hk : o - (ovW w).length with
        | zero => rw [hk] at hv; simp at hv
        | succ k => rw [hk] at hv; simp at hv
    have hctlLen : (w2.complete .unit).ctl.length = w.ctl.length + 1 := by
      show (w2.ctl.modify w2.tid _).length = _
      rw [List.length_modify, hc]; simp
    have hctl : ∀ i, (w2.complete .unit).ctlOf i =
        if i = w.tid then completeF .unit (w.ctlOf w.tid)
        else if i = w.ctl.length then ({ body := b } : TCtl) else w.ctlOf i := by
      intro i
      show (w2.ctl.modify w2.tid (completeF .unit)).getD i {} = _
      rw [hc, ht, modify_append_left4 _ _ _ _ c.act]
      by_cases e : i = w.tid
      · subst e
        rw [if_pos rfl, getD_append_left _ _ _ _ (by rw [List.length_modify]; exact c.act),
          getD_modify_self _ _ _ _ c.act]
        rfl
      · rw [if_neg e]
        by_cases e2 : i = w.ctl.length
        · subst e2
          rw [if_pos rfl]
          have := getD_append_new (w.ctl.modify w.tid (completeF .unit)) ({ body := b } : TCtl) {}
          rw [List.length_modify] at this
          exact this
        · rw [if_neg e2]
          by_cases e3 : i < w.ctl.length
          · rw [getD_append_left _ _ _ _ (by rw [List.length_modify]; exact e3), getD_modify_ne _ _ _ _ _ e]
            rfl
          · have h1 : (w.ctl.modify w.tid (completeF .unit) ++ [({ body := b } : TCtl)])[i]? = none :=
              List.getElem?_eq_none (by simp; omega)
            have h2 : w.ctl[i]? = none := List.getElem?_eq_none (by omega)
            simp [List.getD, h1, h2, World.ctlOf]
    have hne0 : w.tid ≠ w.ctl.length := by have := c.act; omega
    have hctlS : (w2.complete .unit).ctlOf w.tid = completeF .unit (w.ctlOf w.tid) := by rw [hctl, if_pos rfl]
    have hctlN : (w2.complete .unit).ctlOf w.ctl.length = ({ body := b } : TCtl) := by
      rw [hctl, if_neg (fun e => hne0 e.symm), if_pos rfl]
    have hctlO : ∀ i, i ≠ w.tid → i ≠ w.ctl.length → (w2.complete .unit).ctlOf i = w.ctlOf i := by
      intro i e1 e2; rw [hctl, if_neg e1, if_neg e2]
    have hH : holdsAt w.prog (w.ctlOf w.tid) = none := by rw [holdsAt_of hop, hst]; rfl
    have hjoined : ∀ b', (∃ j k, j < w.ctl.length ∧ k < (w.ctlOf j).pc ∧
          (w.prog.threads.getD (w.ctlOf j).body [])[k]? = some (.join b')) →
        ∃ j k, j < (w2.complete .unit).ctl.length ∧ k < ((w2.complete .unit).ctlOf j).pc ∧
          ((w2.complete .unit).prog.threads.getD ((w2.complete .unit).ctlOf j).body [])[k]? = some (.join b') := by
      rintro b' ⟨j, k, hj, hk, hopj⟩
      refine ⟨j, k, by rw [hctlLen]; omega, ?_, ?_⟩
      · by_cases e : j = w.tid
        · subst e; rw [hctlS]; exact Nat.lt_succ_of_lt hk
        · rw [hctlO j e (by omega)]; exact hk
      · rw [hprog]
        by_cases e : j = w.tid
        · subst e; rw [hctlS]; exact hopj
        · rw [hctlO j e (by omega)]; exact hopj
    refine ⟨⟨?_, ?_, ?_, ?_, ?_, ?_, ?_, ?_⟩, by rw [hpath]; exact c.rp, ?_⟩
    · -- blocked means waiting
      intro i hbk
      have hbk' : ((w2.complete .unit).ths.get i).state = .blocked := hbk
      rw [(hst' i).1] at hbk'
      obtain ⟨op, h1, h2, h3⟩ := c.j.g i hbk'
      refine ⟨op, by show ((w2.complete .unit).ths.get i).operation = _; rw [(hst' i).2]; exact h1, h2, ?_⟩
      rcases h3 with ⟨l, hl⟩ | ⟨sp, ds, hn⟩
      · exact .inl ⟨l, old _ _ hl⟩
      · exact .inr ⟨sp, ds, old _ _ hn⟩
    · -- the entries
      intro i hi
      rw [hctlLen] at hi
      rw [hprog, hspw, hfu, (show (w2.complete .unit).tid = w.tid from ht)]
      by_cases e : i = w.tid
      · subst e
        rw [hctlS]
        exact ⟨fun hb' => absurd (by rw [← (hst' _).1]; exact hb') c.run.1,
          fun ht' => absurd (by rw [← (hst' _).1]; exact ht') c.run.2, fun hn => absurd rfl hn⟩
      · by_cases e2 : i = w.ctl.length
        · subst e2
          rw [hctlN]
          have hdef : w.ths.get w.ctl.length = {} := by
            show w.exec.threads.threads.getD w.ctl.length {} = {}
            simp [List.getD, List.getElem?_eq_none (show w.exec.threads.threads.length ≤ w.ctl.length by omega)]
          have hO : OpAt4 w.prog ((b, w.exec.threads.threads.length, w.exec.objs.length) :: w.spawned) w.futs
              ({ body := b } : TCtl) ((w2.complete .unit).ths.get w.ctl.length).operation := by
            rw [(hst' _).2, hdef]
            unfold OpAt4
            rw [wpos_stage0 rfl]
            intro op e; cases e
          refine ⟨fun _ => hO, fun ht' => ?_, fun _ => hO⟩
          rw [(hst' _).1, hdef] at ht'
          cases ht'
        · rw [hctlO i e e2]
          have hi' : i < w.ctl.length := by omega
          have old' := c.j.thr i hi'
          have hO : OpAt4 w.prog ((b, w.exec.threads.threads.length, w.exec.objs.length) :: w.spawned) w.futs
              (w.ctlOf i) ((w2.complete .unit).ths.get i).operation := by
            rw [(hst' i).2]
            exact (old'.opn e).mono (fun _ h => List.mem_cons_of_mem _ h)
          exact ⟨fun _ => hO, fun ht' => old'.term (by rw [← (hst' i).1]; exact ht'), fun _ => hO⟩
    · -- the mutexes held
      intro o t hl
      obtain ⟨htl, hh⟩ := c.j.hold o t (oldM o _ hl)
      rw [hctlLen, hprog]
      have e : t ≠ w.tid := by
        intro e; subst e
        rw [hH] at hh; cases hh
      rw [hctlO t e (by omega)]
      exact ⟨by omega, hh⟩
    · intro f hf
      rw [hprog] at hf ⊢
      obtain ⟨⟨l1, h1⟩, ⟨l2, h2⟩⟩ := c.j.mtx f hf
      exact ⟨⟨l1, old _ _ h1⟩, ⟨l2, old _ _ h2⟩⟩
    · -- the join handles
      intro b' i n hmem h10
      rw [hspw] at hmem
      rcases List.mem_cons.1 hmem with e | hmem'
      · -- the new thread has not started its epilogue
        simp only [Prod.mk.injEq] at e
        obtain ⟨_, rfl, _⟩ := e
        rw [← hlen, hctlN] at h10
        simp at h10
      · obtain ⟨hil0, _⟩ := c.r.sp.sp b' i n hmem'
        have hil : i < w.ctl.length := hil0
        have h10' : 10 ≤ (w.ctlOf i).fin := by
          by_cases e : i = w.tid
          · subst e; rw [hctlS] at h10; exact h10
          · rw [hctlO i e (by omega)] at h10; exact h10
        rcases c.j.jnd b' i n hmem' h10' with ⟨sp, ds, hv⟩ | hj
        · exact .inl ⟨sp, ds, old _ _ hv⟩
        · exact .inr (hjoined b' hj)
    · -- one entry per body
      intro e1 e2 h1 h2 hb12
      rw [hspw] at h1 h2
      have fresh : ∀ e, e ∈ w.spawned → e.1 ≠ b := by
        rintro ⟨b', i, n⟩ hm e
        obtain ⟨hil, hbody, _⟩ := c.r.sp.sp b' i n hm
        exact hidle i hil (hbody.trans e)
      rcases List.mem_cons.1 h1 with rfl | h1' <;> rcases List.mem_cons.1 h2 with rfl | h2'
      · rfl
      · exact absurd hb12.symm (fresh _ h2')
      · exact absurd hb12 (fresh _ h1')
      · exact c.j.spb _ _ h1' h2' hb12
    · intro b' i n hmem
      rw [hspw] at hmem
      rcases List.mem_cons.1 hmem with e | hmem'
      · simp only [Prod.mk.injEq] at e
        obtain ⟨_, rfl, _⟩ := e
        have := c.hin
        omega
      · exact c.j.sp0 b' i n hmem'
    · -- not blocked past the branch point of a wait means notified
      intro i hi hne' hnb hw op hopi
      rw [hctlLen] at hi
      rw [hprog] at hw
      have hne : i ≠ w.tid := fun e => hne' (e.trans ht.symm)
      by_cases e2 : i = w.ctl.length
      · subst e2
        rw [hctlN, wpos_stage0 rfl] at hw
        cases hw
      · rw [hctlO i hne e2] at hw
        have hi' : i < w.ctl.length := by omega
        have hnb' : (w.ths.get i).state ≠ .blocked := by rw [← (hst' i).1]; exact hnb
        have hopw : (w.ths.get i).operation = some op := by rw [← (hst' i).2]; exact hopi
        have hav := c.j.avail i hi' hne hnb' hw op hopw
        obtain ⟨sp, nt, ds, hv, _⟩ := waits_on_notify c.wf c.r c.j hi' hne hw hopw
        intro hun
        apply hav
        have hlt : op.obj < (ovW w).length := (List.getElem?_eq_some_iff.1 hv).1
        rw [hov] at hun
        rcases hun with ⟨l, hl⟩ | ⟨sp', d2, hn⟩
        · rw [List.getElem?_append_left hlt] at hl; exact .inl ⟨l, hl⟩
        · rw [List.getElem?_append_left hlt] at hn; exact .inr ⟨sp', d2, hn⟩
    · -- the path
      intro hall
      have hall' : AllOK (w2.complete .unit).exec.path := by rw [hpath]; exact hall.2
      exact ⟨by rw [hpath]; exact hall.1, hall'.butLast, fun _ => hall'⟩

/-! ### the case analysis -/

/-- **one stage of the active thread**, which is neither blocked nor terminated -/
theorem stage_out (c : Ctx w s) : Out w s w.stepActive := by
  cases hop : opAt w with
  | none => exact st_epilogue c hop
  | some op =>
    have hopok := c.wf.1.opOk hop
    have hso : stageOk (some op) (w.ctlOf w.tid).stage = true := by
      have := (rel4 c.r c.act).2.2.2.2.2.2.1
      rw [opOfCtl_active, hop] at this
      exact this
    cases op <;> simp only [opOk4, Bool.false_eq_true] at hopok
    case spawn b =>
      have hst : (w.ctlOf w.tid).stage = 0 := by simpa [stageOk] using hso
      exact st_spawn c hop hst
    case ifEq i r n =>
      have hst : (w.ctlOf w.tid).stage = 0 := by simpa [stageOk] using hso
      exact st_ifEq c hop hst
    case join b =>
      have hst : (w.ctlOf w.tid).stage ≤ 1 := by simpa [stageOk] using hso
      have : (w.ctlOf w.tid).stage = 0 ∨ (w.ctlOf w.tid).stage = 1 := by omega
      rcases this with e | e
      · exact st_join0 c hop e
      · exact st_join1 c hop e
    case atom x aop =>
      cases aop <;> try (simp only [opOk4, Bool.false_eq_true] at hopok; done)
      case store v o =>
        cases o <;> try (simp only [opOk4, Bool.false_eq_true] at hopok; done)
        simp only [opOk4, Bool.and_eq_true, decide_eq_true_eq] at hopok
        obtain ⟨rfl, _⟩ := hopok
        have hst : (w.ctlOf w.tid).stage ≤ 1 := by simpa [stageOk] using hso
        have : (w.ctlOf w.tid).stage = 0 ∨ (w.ctlOf w.tid).stage = 1 := by omega
        rcases this with e | e
        · exact st_store0 c hop e
        · exact st_store1 c hop e
    case wake f =>
      have hst : (w.ctlOf w.tid).stage ≤ 4 := by simpa [stageOk] using hso
      have : (w.ctlOf w.tid).stage = 0 ∨ (w.ctlOf w.tid).stage = 1 ∨ (w.ctlOf w.tid).stage = 2 ∨
          (w.ctlOf w.tid).stage = 3 ∨ (w.ctlOf w.tid).stage = 4 := by omega
      rcases this with e | e | e | e | e
      · exact st_wake0 c hop e
      · exact st_wake1 c hop e
      · exact st_wake2 c hop e
      · exact st_wake3 c hop e
      · exact st_wake4 c hop e
    case awWake f =>
      have hst : (w.ctlOf w.tid).stage ≤ 4 := by simpa [stageOk] using hso
      have : (w.ctlOf w.tid).stage = 0 ∨ (w.ctlOf w.tid).stage = 1 ∨ (w.ctlOf w.tid).stage = 2 ∨
          (w.ctlOf w.tid).stage = 3 ∨ (w.ctlOf w.tid).stage = 4 := by omega
      rcases this with e | e | e | e | e
      · exact st_awWake0 c hop e
      · exact st_awWake1 c hop e
      · exact st_awWake2 c hop e
      · exact st_awWake3 c hop e
      · exact st_awWake4 c hop e
    case wakeRef f =>
      have : (w.ctlOf w.tid).stage = 0 ∨ (w.ctlOf w.tid).stage = 1 ∨ (w.ctlOf w.tid).stage = 2 ∨
          (w.ctlOf w.tid).stage = 5 := by simpa [stageOk, or_assoc] using hso
      rcases this with e | e | e | e
      · exact st_wakeRef0 c hop e
      · exact st_wakeRef1 c hop e
      · exact st_wakeRef2 c hop e
      · exact st_wakeRef5 c hop e
    case wakeQ f =>
      have : (w.ctlOf w.tid).stage = 0 ∨ (w.ctlOf w.tid).stage = 2 ∨ (w.ctlOf w.tid).stage = 5 := by
        simpa [stageOk, or_assoc] using hso
      rcases this with e | e | e
      · exact st_wakeQ0 c hop e
      · exact st_wakeQ2 c hop e
      · exact st_wakeQ5 c hop e
    case dropWaker f =>
      have hst : (w.ctlOf w.tid).stage ≤ 2 := by simpa [stageOk] using hso
      have : (w.ctlOf w.tid).stage = 0 ∨ (w.ctlOf w.tid).stage = 1 ∨ (w.ctlOf w.tid).stage = 2 := by omega
      rcases this with e | e | e
      · exact st_dropWaker0 c hop e
      · exact st_dropWaker1 c hop e
      · exact st_dropWaker2 c hop e
    case awTake f =>
      have hst : (w.ctlOf w.tid).stage ≤ 2 := by simpa [stageOk] using hso
      have : (w.ctlOf w.tid).stage = 0 ∨ (w.ctlOf w.tid).stage = 1 ∨ (w.ctlOf w.tid).stage = 2 := by omega
      rcases this with e | e | e
      · exact st_awTake0 c hop e
      · exact st_awTake1 c hop e
      · exact st_awTake2 c hop e
    case blockOn f mode =>
      have hbo : boStageOk mode (w.ctlOf w.tid).stage = true := hso
      rcases boStage_cases hbo with e | e | e | e | e | e | e | e | e | e | e | e | e | e | e | e | e | e | e | e | e | e
      · exact st_bo0 c hop e
      · exact st_bo40 c hop e
      · exact st_bo10 c hop e
      · exact st_bo11 c hop e
      · exact st_bo14 c hop e
      · exact st_bo15 c hop e
      · exact st_bo16 c hop e
      · exact st_bo12 c hop e
      · exact st_bo30 c hop e
      · exact st_bo13 c hop e
      · exact st_bo45 c hop e
      · exact st_bo43 c hop e
      · exact st_bo20 c hop e
      · exact st_bo21 c hop e
      · exact st_bo25 c hop e
      · exact st_bo41 c hop e
      · exact st_bo44 c hop e
      · exact st_bo46 c hop e
      · exact st_bo50 c hop e
      · exact st_bo51 c hop e
      · exact st_bo52 c hop e
      · exact st_bo53 c hop e

/-- **one stage of the active thread of a world that satisfies the strengthened relation**: the world reached
satisfies the twin-side invariant (and the path invariant) again; a stage that panics with "deadlock" does so in a
deadlocked reference state (`s`, or its successor by one enabled step) -/
theorem step_out (hwf : WFD w.prog) (hRB : RB4 w s) (hactive : w.ths.isActive = true)
    (hact : w.tid < w.ctl.length) (hok : resumeOk4 w = true) : Out w s w.stepActive := by
  by_cases hne : ∀ e, w.stepActive = .error e → e = .deadlock
  · exact stage_out ⟨hwf, hRB.r, hRB.j, hRB.path, hactive, hact, hok, active_running4 hwf hRB hact hne⟩
  · have : ∃ e, w.stepActive = .error e ∧ e ≠ .deadlock := by
      apply Classical.byContradiction
      intro hn
      apply hne
      intro e he
      apply Classical.byContradiction
      intro hd
      exact hn ⟨e, he, hd⟩
    obtain ⟨e, he, hd⟩ := this
    exact out_of_ne he hd

end

end Deadlock3
end LoomVerif

/-
The simp set collecting the `NoDL` facts of `Proofs/Deadlock3NoDL.lean` (an attribute has to be declared in a
module other than the one using it).
-/
import Lean.Meta.Tactic.Simp.RegisterCommand

/-- facts `NoDL (f x)`: "`f` cannot raise the deadlock panic" -/
register_simp_attr nodl

/-
Clocks, atomic cell: one-step facts about `State::store`, `State::load`, `State::rmw`,
`apply_load_coherence` and `seq_cst_fence`, valid in every state.
-/
import LoomVerif.Proofs.ClocksRace
import LoomVerif.Proofs.C12Inv

namespace LoomVerif
namespace Clocks

open Atomic

/-! ### slot access -/

theorem storeAt_modifyStore (a : Atomic) (k : Nat) (f : AStore → AStore) (i : Nat) :
    (a.modifyStore k f).storeAt i =
      if i = k ∧ k < a.stores.length then f (a.storeAt k) else a.storeAt i := by
  unfold Atomic.modifyStore Atomic.storeAt
  simp only [List.getD_eq_getElem?_getD, List.getElem?_modify]
  by_cases hik : i = k
  · subst hik
    by_cases hl : i < a.stores.length
    · simp [hl]
    · simp [hl]
  · simp [hik, Ne.symm hik]

theorem storeAt_modifyStore_ne (a : Atomic) (k : Nat) (f : AStore → AStore) (i : Nat)
    (h : i ≠ k) : (a.modifyStore k f).storeAt i = a.storeAt i := by
  rw [storeAt_modifyStore, if_neg (fun h' => h h'.1)]

/-- a slot rewrite that keeps a field keeps it in every slot -/
theorem storeAt_modifyStore_field {β : Type} (g : AStore → β) (a : Atomic) (k : Nat)
    (f : AStore → AStore) (hf : ∀ s, g (f s) = g s) (i : Nat) :
    g ((a.modifyStore k f).storeAt i) = g (a.storeAt i) := by
  rw [storeAt_modifyStore]
  split
  · rename_i h; rw [hf, h.1]
  · rfl

theorem index_lt (n : Nat) : index n < NH := Nat.mod_lt _ (by decide)

/-! ### generic folds of conditional joins -/

theorem foldl_join_ge {β : Type} (l : List β) (step : VV → β → VV)
    (hge : ∀ (m : VV) x, m.le (step m x)) (init : VV) : init.le (l.foldl step init) := by
  induction l generalizing init with
  | nil => exact le_refl _
  | cons x xs ih => exact le_trans (hge init x) (ih (step init x))

/-- every element whose contribution `g x` is joined by its step is below the result -/
theorem foldl_join_mem {β : Type} (l : List β) (step : VV → β → VV) (g : β → VV)
    (P : β → Prop) (hge : ∀ (m : VV) x, m.le (step m x))
    (hin : ∀ (m : VV) x, P x → (g x).le (step m x)) (init : VV) (x : β) (hx : x ∈ l)
    (hP : P x) : (g x).le (l.foldl step init) := by
  induction l generalizing init with
  | nil => cases hx
  | cons y ys ih =>
    rw [List.foldl_cons]
    rcases List.mem_cons.1 hx with rfl | h
    · exact le_trans (hin init x hP) (foldl_join_ge ys step hge _)
    · exact ih _ h

/-! ### `State::store` -/

/-- the modification-order clock of a new store (`C12.newMo`) is above the storing thread's
causality (WRITE-WRITE coherence) … -/
theorem caus_le_newMo (a : Atomic) (ths : Threads) : ths.caus.le (C12.newMo a ths) := by
  unfold C12.newMo
  apply foldl_join_ge
  intro m x; split
  · exact le_join_left _ _
  · exact le_refl _

/-- … and above the clock of every slot the storing thread has seen (READ-WRITE coherence) -/
theorem seen_le_newMo (a : Atomic) (ths : Threads) (s : AStore) (hs : s ∈ a.stores)
    (hseen : s.firstSeen.isSeenByCurrent ths = true) : s.mo.le (C12.newMo a ths) := by
  unfold C12.newMo
  apply foldl_join_mem a.stores _ (fun s => s.mo)
    (fun s => s.firstSeen.isSeenByCurrent ths = true) _ _ _ s hs hseen
  · intro m x; split
    · exact le_join_left _ _
    · exact le_refl _
  · intro m x hx; rw [if_pos hx]; exact le_join_right _ _

theorem storeAt_mem (a : Atomic) (i : Nat) (h : i < a.stores.length) : a.storeAt i ∈ a.stores := by
  unfold Atomic.storeAt
  rw [List.getD_eq_getElem?_getD, List.getElem?_eq_getElem h]
  exact List.getElem_mem h

theorem store_cnt (a : Atomic) (ths : Threads) (sync : Sync) (v : Nat) (o : Ord) :
    (a.store ths sync v o).cnt = a.cnt + 1 := rfl

theorem store_length (a : Atomic) (ths : Threads) (sync : Sync) (v : Nat) (o : Ord) :
    (a.store ths sync v o).stores.length = a.stores.length := by
  simp [Atomic.store]

/-! ### `State::load` / the read half of `State::rmw` -/

theorem trackLoad_ok {a a1 : Atomic} {ths : Threads} (h : a.trackLoad ths = .ok a1) :
    a1 = { a with loadedAt := a.loadedAt.join ths.caus } ∧ a.unsyncMutAt.le ths.caus := by
  rcases Bool.eq_false_or_eq_true a.isMutating with hm | hm
  · rw [(track_mutating a ths hm).1] at h; cases h
  · rw [trackLoad_eq a ths hm] at h
    by_cases h1 : a.unsyncMutAt.le ths.caus
    · rw [if_neg (by simpa using h1)] at h
      exact ⟨(Except.ok.inj h).symm, h1⟩
    · rw [if_pos h1] at h; cases h

theorem trackStore_ok {a a1 : Atomic} {ths : Threads} (h : a.trackStore ths = .ok a1) :
    a1 = { a with storedAt := a.storedAt.join ths.caus } := by
  rcases Bool.eq_false_or_eq_true a.isMutating with hm | hm
  · rw [(track_mutating a ths hm).2.2.1] at h; cases h
  · rw [trackStore_eq a ths hm] at h
    by_cases h1 : a.unsyncMutAt.le ths.caus
    · by_cases h2 : a.unsyncLoadedAt.le ths.caus
      · rw [if_neg (by simpa using h1), if_neg (by simpa using h2)] at h
        exact (Except.ok.inj h).symm
      · rw [if_neg (by simpa using h1), if_pos h2] at h; cases h
    · rw [if_pos h1] at h; cases h

/-- the cell after the common first half of `load` and `rmw` (track, coherence, touch) -/
def readPart (a : Atomic) (ths : Threads) (idx : Nat) : Atomic :=
  ((({ a with loadedAt := a.loadedAt.join ths.caus } : Atomic).applyLoadCoherence ths idx).modifyStore
    idx fun s => { s with firstSeen := s.firstSeen.touch ths })

theorem readPart_cnt (a : Atomic) (ths : Threads) (idx : Nat) : (readPart a ths idx).cnt = a.cnt :=
  rfl

theorem readPart_length (a : Atomic) (ths : Threads) (idx : Nat) :
    (readPart a ths idx).stores.length = a.stores.length := by
  simp [readPart, Atomic.applyLoadCoherence, Atomic.modifyStore]

theorem readPart_storeAt_ne (a : Atomic) (ths : Threads) (idx i : Nat) (h : i ≠ idx) :
    (readPart a ths idx).storeAt i = a.storeAt i := by
  unfold readPart
  rw [storeAt_modifyStore_ne _ _ _ _ h, C12.applyLoadCoherence_eq, storeAt_modifyStore_ne _ _ _ _ h]
  rfl

/-- the read half never changes a field other than `mo` and `firstSeen` -/
theorem readPart_field {β : Type} (g : AStore → β)
    (hmo : ∀ (s : AStore) m, g { s with mo := m } = g s)
    (hfs : ∀ (s : AStore) fs, g { s with firstSeen := fs } = g s)
    (a : Atomic) (ths : Threads) (idx i : Nat) :
    g ((readPart a ths idx).storeAt i) = g (a.storeAt i) := by
  unfold readPart
  rw [storeAt_modifyStore_field g _ _ _ (fun s => hfs s _), C12.applyLoadCoherence_eq,
    storeAt_modifyStore_field g _ _ _ (fun s => hmo s _)]
  rfl

theorem readPart_value (a : Atomic) (ths : Threads) (idx i : Nat) :
    ((readPart a ths idx).storeAt i).value = (a.storeAt i).value :=
  readPart_field (·.value) (fun _ _ => rfl) (fun _ _ => rfl) a ths idx i

theorem readPart_sync (a : Atomic) (ths : Threads) (idx i : Nat) :
    ((readPart a ths idx).storeAt i).sync = (a.storeAt i).sync :=
  readPart_field (·.sync) (fun _ _ => rfl) (fun _ _ => rfl) a ths idx i

theorem readPart_hb (a : Atomic) (ths : Threads) (idx i : Nat) :
    ((readPart a ths idx).storeAt i).hb = (a.storeAt i).hb :=
  readPart_field (·.hb) (fun _ _ => rfl) (fun _ _ => rfl) a ths idx i

theorem readPart_seqCst (a : Atomic) (ths : Threads) (idx i : Nat) :
    ((readPart a ths idx).storeAt i).seqCst = (a.storeAt i).seqCst :=
  readPart_field (·.seqCst) (fun _ _ => rfl) (fun _ _ => rfl) a ths idx i

/-- `State::load` succeeds exactly when `track_load` does, and then is this -/
theorem load_ok {a a' : Atomic} {ths ths' : Threads} {idx u : Nat} {o : Ord}
    (h : a.load ths idx o = .ok (a', ths', u)) :
    a' = readPart a ths idx ∧ ths' = ths.syncLoad (a.storeAt idx).sync o ∧
      u = (a.storeAt idx).value := by
  cases h1 : a.trackLoad ths with
  | error e =>
    have : a.load ths idx o = .error e := by unfold Atomic.load; rw [h1]; rfl
    rw [this] at h; cases h
  | ok a1 =>
    have e1 := (trackLoad_ok h1).1
    have : a.load ths idx o = .ok (readPart a ths idx,
        ths.syncLoad ((readPart a ths idx).storeAt idx).sync o,
        ((readPart a ths idx).storeAt idx).value) := by
      unfold Atomic.load; rw [h1, e1]; rfl
    rw [this, readPart_sync, readPart_value] at h
    have := Except.ok.inj h
    simp only [Prod.mk.injEq] at this
    exact ⟨this.1.symm, this.2.1.symm, this.2.2.symm⟩

/-- `State::rmw` whose closure succeeds -/
theorem rmw_ok_some {a a' : Atomic} {ths ths' : Threads} {idx prev next : Nat} {b : Bool}
    {so fo : Ord} {f : Nat → Option Nat} (hf : f (a.storeAt idx).value = some next)
    (h : a.rmw ths idx so fo f = .ok (a', ths', prev, b)) :
    let a4 : Atomic := { readPart a ths idx with
      storedAt := (readPart a ths idx).storedAt.join ths.caus }
    a' = a4.store (ths.syncLoad (a.storeAt idx).sync so) (a.storeAt idx).sync next so ∧
      ths' = ths.syncLoad (a.storeAt idx).sync so ∧ prev = (a.storeAt idx).value ∧ b = true := by
  intro a4
  cases h1 : a.trackLoad ths with
  | error e =>
    have : a.rmw ths idx so fo f = .error e := by unfold Atomic.rmw; rw [h1]; rfl
    rw [this] at h; cases h
  | ok a1 =>
    have e1 := (trackLoad_ok h1).1
    have hv : f ((readPart a ths idx).storeAt idx).value = some next := by
      rw [readPart_value]; exact hf
    cases h2 : (readPart a ths idx).trackStore ths with
    | error e =>
      have : a.rmw ths idx so fo f = .error e := by
        unfold Atomic.rmw; rw [h1, e1]
        show (match f ((readPart a ths idx).storeAt idx).value with
          | some next => _
          | none => _) = _
        rw [hv]
        show ((readPart a ths idx).trackStore ths >>= _) = _
        rw [h2]; rfl
      rw [this] at h; cases h
    | ok a4' =>
      have e4 : a4' = a4 := trackStore_ok h2
      have : a.rmw ths idx so fo f = .ok
          (a4.store (ths.syncLoad (a4.storeAt idx).sync so) (a4.storeAt idx).sync next so,
            ths.syncLoad (a4.storeAt idx).sync so,
            ((readPart a ths idx).storeAt idx).value, true) := by
        unfold Atomic.rmw; rw [h1, e1]
        show (match f ((readPart a ths idx).storeAt idx).value with
          | some next => _
          | none => _) = _
        rw [hv]
        show ((readPart a ths idx).trackStore ths >>= _) = _
        rw [h2, e4]; rfl
      have hs : (a4.storeAt idx).sync = (a.storeAt idx).sync := readPart_sync a ths idx idx
      rw [this, hs, readPart_value] at h
      have := Except.ok.inj h
      simp only [Prod.mk.injEq] at this
      exact ⟨this.1.symm, this.2.1.symm, this.2.2.1.symm, this.2.2.2.symm⟩

/-- `State::rmw` whose closure fails (`compare_exchange` mismatch, `fetch_update` → `None`) -/
theorem rmw_ok_none {a a' : Atomic} {ths ths' : Threads} {idx prev : Nat} {b : Bool}
    {so fo : Ord} {f : Nat → Option Nat} (hf : f (a.storeAt idx).value = none)
    (h : a.rmw ths idx so fo f = .ok (a', ths', prev, b)) :
    a' = readPart a ths idx ∧ ths' = ths.syncLoad (a.storeAt idx).sync fo ∧
      prev = (a.storeAt idx).value ∧ b = false := by
  cases h1 : a.trackLoad ths with
  | error e =>
    have : a.rmw ths idx so fo f = .error e := by unfold Atomic.rmw; rw [h1]; rfl
    rw [this] at h; cases h
  | ok a1 =>
    have e1 := (trackLoad_ok h1).1
    have hv : f ((readPart a ths idx).storeAt idx).value = none := by
      rw [readPart_value]; exact hf
    have : a.rmw ths idx so fo f = .ok (readPart a ths idx,
        ths.syncLoad ((readPart a ths idx).storeAt idx).sync fo,
        ((readPart a ths idx).storeAt idx).value, false) := by
      unfold Atomic.rmw; rw [h1, e1]
      show (match f ((readPart a ths idx).storeAt idx).value with
        | some next => _
        | none => _) = _
      rw [hv]; rfl
    rw [this, readPart_sync, readPart_value] at h
    have := Except.ok.inj h
    simp only [Prod.mk.injEq] at this
    exact ⟨this.1.symm, this.2.1.symm, this.2.2.1.symm, this.2.2.2.symm⟩

/-! ### `apply_load_coherence` -/

theorem le_cohMo (a : Atomic) (ths : Threads) (idx : Nat) :
    (a.storeAt idx).mo.le (C12.cohMo a ths idx) := by
  unfold C12.cohMo
  apply foldl_join_ge
  intro m i
  dsimp only
  split
  · exact le_refl _
  · split <;> split
    · exact le_trans (le_join_left _ _) (le_join_left _ _)
    · exact le_join_left _ _
    · exact le_join_left _ _
    · exact le_refl _

theorem coh_le_cohMo (a : Atomic) (ths : Threads) (idx i : Nat) (hi : i < NH) (hne : i ≠ idx)
    (h : (a.storeAt i).firstSeen.isSeenByCurrent ths = true ∨
      (a.storeAt i).hb.blt ths.caus = true) :
    (a.storeAt i).mo.le (C12.cohMo a ths idx) := by
  unfold C12.cohMo
  apply foldl_join_mem (List.range NH) _ (fun i => (a.storeAt i).mo)
    (fun i => i ≠ idx ∧ ((a.storeAt i).firstSeen.isSeenByCurrent ths = true ∨
      (a.storeAt i).hb.blt ths.caus = true)) _ _ _ i (List.mem_range.2 hi) ⟨hne, h⟩
  · intro m i
    dsimp only
    split
    · exact le_refl _
    · split <;> split
      · exact le_trans (le_join_left _ _) (le_join_left _ _)
      · exact le_join_left _ _
      · exact le_join_left _ _
      · exact le_refl _
  · intro m j ⟨hj, hc⟩
    dsimp only
    rw [if_neg (by simpa using hj)]
    split <;> split
    · exact le_join_right _ _
    · exact le_trans (le_join_right _ _) (le_refl _)
    · exact le_join_right _ _
    · rename_i h1 h2
      rcases hc with hc | hc
      · exact absurd hc h2
      · exact absurd hc h1

/-! ### `seq_cst_fence` -/

theorem seqCstFence_seqCst (s : Threads) : s.seqCstFence.seqCst = s.caus.join s.seqCst := by
  show s.seqCst.join (s.caus.join s.seqCst) = s.caus.join s.seqCst
  rw [join_comm s.caus, ← join_assoc, join_idem]

theorem seqCstFence_caus {s : Threads} (h : ActiveOk s) :
    s.seqCstFence.caus = s.caus.join s.seqCst := by
  show (Threads.caus { (s.setCaus (s.caus.join s.seqCst)) with seqCst := _ }) = _
  have : Threads.caus { (s.setCaus (s.caus.join s.seqCst)) with
      seqCst := s.seqCst.join (s.caus.join s.seqCst) } =
      (s.setCaus (s.caus.join s.seqCst)).caus := rfl
  rw [this, caus_setCaus h]

/-- a step of the thread table that is either an SC fence by the active thread or leaves the
global `seq_cst_causality` alone (every other runtime step: `sync_load`, `sync_store`,
`active_causality_inc`, `unpark`, switching the active thread, spawning …) -/
inductive ScStep : Threads → Threads → Prop
  | fence (t : Threads) : ScStep t t.seqCstFence
  | other (t t' : Threads) : t'.seqCst = t.seqCst → ScStep t t'

/-- reflexive-transitive closure -/
inductive ScSteps : Threads → Threads → Prop
  | refl (t : Threads) : ScSteps t t
  | tail {t t' t'' : Threads} : ScSteps t t' → ScStep t' t'' → ScSteps t t''

theorem ScStep.seqCst_mono {t t' : Threads} (h : ScStep t t') : t.seqCst.le t'.seqCst := by
  cases h with
  | fence => rw [seqCstFence_seqCst]; exact le_join_right _ _
  | other _ e => rw [e]; exact le_refl _

theorem ScSteps.seqCst_mono {t t' : Threads} (h : ScSteps t t') : t.seqCst.le t'.seqCst := by
  induction h with
  | refl => exact le_refl _
  | tail _ hs ih => exact le_trans ih hs.seqCst_mono

end Clocks
end LoomVerif

/-
C10: the allocation-tracking operations of `runOp`, the shape of `runIter`, and the fact that
`Execution::schedule` leaves no active thread only when every thread has terminated.
-/
import LoomVerif.Proofs.WorldBasics
import LoomVerif.Proofs.C10Leak

namespace LoomVerif
namespace C10
open World WB

/-! ### `Track::new` / `drop`, `alloc` / `dealloc` -/

theorem runOp_trackNew (w : World) (c : TCtl) (k : Nat) :
    w.runOp c (.trackNew k) =
      .ok ({ (w.pushObj (.alloc {})).1 with
              tracks := (k, w.exec.objs.length) :: w.tracks }.complete .unit) := by
  simp [World.runOp, World.pushObj]
  rfl

theorem runOp_trackDrop (w : World) (c : TCtl) (k : Nat) :
    w.runOp c (.trackDrop k) =
      match w.tracks.lookup k with
      | some o => .ok ((w.setObj o (.alloc { isDropped := true })).complete .unit)
      | none => .error (.internal 75) := by
  cases h : w.tracks.lookup k <;> simp [World.runOp, h]

theorem runOp_alloc (w : World) (c : TCtl) (k : Nat) :
    w.runOp c (.alloc k) =
      if (w.rawAllocs.lookup k).isSome then .error (.internal 76)
      else .ok ({ (w.pushObj (.alloc {})).1 with
              rawAllocs := (k, w.exec.objs.length) :: w.rawAllocs }.complete .unit) := by
  cases h : (w.rawAllocs.lookup k).isSome with
  | true => simp [World.runOp, h]
  | false => simp [World.runOp, World.pushObj, h]; rfl

theorem runOp_dealloc (w : World) (c : TCtl) (k : Nat) :
    w.runOp c (.dealloc k) =
      match w.rawAllocs.lookup k with
      | some o =>
        .ok (({ w with rawAllocs := w.rawAllocs.filter (·.1 != k) }.setObj o
          (.alloc { isDropped := true })).complete .unit)
      | none => .error (.internal 77) := by
  cases h : w.rawAllocs.lookup k <;> simp [World.runOp, h]

/-- `Track::new`: a fresh, undropped allocation object is appended and recorded under slot `k` -/
theorem trackNew_effect (w : World) (c : TCtl) (k : Nat) :
    ∃ w', w.runOp c (.trackNew k) = .ok w' ∧
      w'.exec.objs = w.exec.objs ++ [.alloc { isDropped := false }] ∧
      w'.tracks = (k, w.exec.objs.length) :: w.tracks ∧
      w'.tracks.lookup k = some w.exec.objs.length ∧
      w'.rawAllocs = w.rawAllocs ∧ w'.ths = w.ths ∧ w'.exec.path = w.exec.path := by
  refine ⟨_, runOp_trackNew w c k, ?_, rfl, ?_, rfl, rfl, rfl⟩
  · simp [World.pushObj, World.setObjs]
  · simp

/-- `alloc::alloc`: the same, in the `raw_allocations` table; "pointer already tracked" if the
slot is in use -/
theorem alloc_effect (w : World) (c : TCtl) (k : Nat) :
    ((w.rawAllocs.lookup k).isSome = true → w.runOp c (.alloc k) = .error (.internal 76)) ∧
    ((w.rawAllocs.lookup k) = none → ∃ w', w.runOp c (.alloc k) = .ok w' ∧
      w'.exec.objs = w.exec.objs ++ [.alloc { isDropped := false }] ∧
      w'.rawAllocs = (k, w.exec.objs.length) :: w.rawAllocs ∧
      w'.rawAllocs.lookup k = some w.exec.objs.length ∧
      w'.tracks = w.tracks ∧ w'.ths = w.ths ∧ w'.exec.path = w.exec.path) := by
  rw [runOp_alloc]
  refine ⟨fun h => by simp [h], fun h => ?_⟩
  refine ⟨{ (w.pushObj (.alloc {})).1 with
              rawAllocs := (k, w.exec.objs.length) :: w.rawAllocs }.complete .unit,
    by simp [h], ?_, rfl, ?_, rfl, rfl, rfl⟩
  · simp [World.pushObj, World.setObjs]
  · simp

theorem set_alloc_facts (os : Objs) (o : Nat) :
    (∀ s, os[o]? = some (.alloc s) →
      (os.set o (.alloc { isDropped := true }))[o]? = some (.alloc { s with isDropped := true })) ∧
    (∀ o', o' ≠ o → (os.set o (.alloc { isDropped := true }))[o']? = os[o']?) ∧
    (os.set o (.alloc { isDropped := true })).length = os.length := by
  refine ⟨?_, ?_, by simp⟩
  · intro s hs
    have : o < os.length := by
      rcases Nat.lt_or_ge o os.length with h' | h'
      · exact h'
      · rw [List.getElem?_eq_none h'] at hs; cases hs
    simp [this]
  · intro o' ho
    simp [List.getElem?_set_ne (Ne.symm ho)]

/-- `Drop for Track`: exactly the recorded object's flag is set; no other object changes -/
theorem trackDrop_effect (w : World) (c : TCtl) (k : Nat) :
    (w.tracks.lookup k = none → w.runOp c (.trackDrop k) = .error (.internal 75)) ∧
    (∀ o, w.tracks.lookup k = some o → ∃ w', w.runOp c (.trackDrop k) = .ok w' ∧
      w'.exec.objs = w.exec.objs.set o (.alloc { isDropped := true }) ∧
      (∀ s, w.exec.objs[o]? = some (.alloc s) →
        w'.exec.objs[o]? = some (.alloc { s with isDropped := true })) ∧
      (∀ o', o' ≠ o → w'.exec.objs[o']? = w.exec.objs[o']?) ∧
      w'.exec.objs.length = w.exec.objs.length ∧
      w'.tracks = w.tracks ∧ w'.rawAllocs = w.rawAllocs ∧ w'.ths = w.ths ∧
      w'.exec.path = w.exec.path) := by
  rw [runOp_trackDrop]
  refine ⟨fun h => by simp [h], fun o h => ?_⟩
  obtain ⟨f1, f2, f3⟩ := set_alloc_facts w.exec.objs o
  exact ⟨(w.setObj o (.alloc { isDropped := true })).complete .unit, by simp [h], rfl, f1, f2, f3,
    rfl, rfl, rfl, rfl⟩

/-- `alloc::dealloc`: "pointer not tracked" for an unknown slot; otherwise the slot is forgotten
and exactly its object's flag is set -/
theorem dealloc_effect (w : World) (c : TCtl) (k : Nat) :
    (w.rawAllocs.lookup k = none → w.runOp c (.dealloc k) = .error (.internal 77)) ∧
    (∀ o, w.rawAllocs.lookup k = some o → ∃ w', w.runOp c (.dealloc k) = .ok w' ∧
      w'.exec.objs = w.exec.objs.set o (.alloc { isDropped := true }) ∧
      (∀ s, w.exec.objs[o]? = some (.alloc s) →
        w'.exec.objs[o]? = some (.alloc { s with isDropped := true })) ∧
      (∀ o', o' ≠ o → w'.exec.objs[o']? = w.exec.objs[o']?) ∧
      w'.exec.objs.length = w.exec.objs.length ∧
      w'.rawAllocs = w.rawAllocs.filter (·.1 != k) ∧ w'.rawAllocs.lookup k = none ∧
      w'.tracks = w.tracks ∧ w'.ths = w.ths ∧ w'.exec.path = w.exec.path) := by
  rw [runOp_dealloc]
  refine ⟨fun h => by simp [h], fun o h => ?_⟩
  obtain ⟨f1, f2, f3⟩ := set_alloc_facts w.exec.objs o
  refine ⟨({ w with rawAllocs := w.rawAllocs.filter (·.1 != k) }.setObj o
          (.alloc { isDropped := true })).complete .unit, by simp [h], rfl, f1, f2, f3, rfl, ?_,
    rfl, rfl, rfl⟩
  show (w.rawAllocs.filter (·.1 != k)).lookup k = none
  rw [List.lookup_eq_none_iff]
  intro q hq
  simp only [List.mem_filter, bne_iff_ne, ne_eq] at hq
  simpa using fun e => hq.2 e.symm

/-! ### the iteration -/

/-- `runLoop` stops without a panic only when no thread is active -/
theorem runLoop_none (fuel : Nat) (w w' : World) (h : World.runLoop fuel w = (w', none)) :
    w'.ths.isActive = false := by
  induction fuel generalizing w with
  | zero => simp [World.runLoop] at h
  | succ n ih =>
    unfold World.runLoop at h
    cases ha : w.ths.isActive with
    | false =>
      simp only [ha, Bool.not_false, if_true, Prod.mk.injEq, and_true] at h
      subst h; exact ha
    | true =>
      simp only [ha, Bool.not_true, Bool.false_eq_true, if_false] at h
      cases hs : w.stepActive with
      | error e => rw [hs] at h; cases h
      | ok w1 => rw [hs] at h; exact ih w1 h

/-- `Execution::schedule` leaves no active thread only if every thread has terminated (otherwise
it panics with "deadlock") -/
theorem schedule_none (e e' : Exec) (p b : Bool) (h : e.schedule p = .ok (e', b))
    (hn : e'.threads.active = none) : e'.threads.threads.all Thread.isTerminated = true := by
  unfold Exec.schedule at h
  dsimp only at h
  split at h
  · cases h
  obtain ⟨path, _, h⟩ := bind_eq_ok h
  obtain ⟨⟨path', next⟩, _, h⟩ := bind_eq_ok h
  cases next with
  | none =>
    dsimp only at h
    split at h
    · cases h; assumption
    · cases h
  | some nid =>
    dsimp only at h
    have key : ∀ (x : Except Panic (Threads × Objs)), (∀ y, x = .ok y → y.1.active = some nid) →
        ∀ f : Threads × Objs → Except Panic (Exec × Bool),
        (∀ y r, f y = .ok r → r.1.threads.active = y.1.active) →
        (x >>= f) = .ok (e', b) → e'.threads.active = some nid := by
      intro x hx f hf hxf
      obtain ⟨y, hy, hfy⟩ := bind_eq_ok hxf
      rw [hf y _ hfy, hx y hy]
    split at h
    · cases h
    split at h
    · have := key _ (by intro y hy; cases hy; rfl) _ (by intro y r hr; cases hr; rfl) h
      rw [this] at hn; cases hn
    · obtain ⟨acc, _, h⟩ := bind_eq_ok h
      obtain ⟨objs, _, h⟩ := bind_eq_ok h
      have := key _ (by intro y hy; cases hy; rfl) _ (by intro y r hr; cases hr; rfl) h
      rw [this] at hn; cases hn

/-- the verdict of the end-of-iteration leak check -/
def leakVerdict (os : Objs) : Option Panic :=
  match os.checkForLeaks with
  | .error e => some e
  | .ok () => none

/-- `runIter`, unfolded -/
theorem runIter_eq (prog : Prog) (exec : Exec) (fuel : Nat) :
    runIter prog exec fuel =
      match World.init prog exec with
      | .error e => { events := [], term := some e, exec }
      | .ok w0 =>
        match World.runLoop fuel w0 with
        | (w, some e) => { events := w.events.reverse, term := some e, exec := w.exec }
        | (w, none) =>
          { events := w.events.reverse, term := leakVerdict w.exec.objs, exec := w.exec } := by
  unfold runIter leakVerdict
  cases World.init prog exec with
  | error e => rfl
  | ok w0 =>
    dsimp only
    rcases World.runLoop fuel w0 with ⟨w, _ | e⟩
    · dsimp only
      cases w.exec.objs.checkForLeaks <;> rfl
    · rfl

end C10
end LoomVerif

/-
The worklist of the total RC11 enumerator (`Oracle/RC11EnumV.lean`) against the PRUNED outcome
set: what it reports are the outcomes of the consistent graphs of the reachable complete states for
the modification orders `prunedMos`, and, unless a cap was hit, all of them.

The worklist invariant is `Inv`; what one pass of the inner loops does is `VisitRel` / `EvalRel`.
(The pruning itself is dealt with in `OracleRC11Prune.lean` / `OracleRC11Init.lean`.)
-/
import LoomVerif.Proofs.OracleRC11Init

set_option linter.unusedSectionVars false

namespace LoomVerif.RC11

/-! ### specification -/

/-- reachable from the initial state by the successor function `succs` -/
inductive ReachS (p : Prog) : PSt → Prop
  | init : ReachS p (pinit p)
  | tail {s s' : PSt} : ReachS p s → s' ∈ succs p s → ReachS p s'

/-- the enabled threads, as `explore` computes them -/
def enabledThreads (p : Prog) (s : PSt) : List Nat :=
  (List.range s.ths.length).filter (penabled p s)

theorem succs_eq (p : Prog) (s : PSt) : succs p s = (enabledThreads p s).flatMap (pstep p s) := rfl

theorem enabledThreads_bad {p : Prog} {s : PSt} (h : s.bad = true) : enabledThreads p s = [] := by
  unfold enabledThreads
  rw [List.filter_eq_nil_iff]
  intro t _
  simp [penabled, h]

theorem ReachS.tidOk {p : Prog} {s : PSt} (r : ReachS p s) :
    TidOk s ∧ s.ths.length = p.threads.length := by
  induction r with
  | init => exact ⟨pinit_tidOk p, pinit_length p⟩
  | tail _ hs ih =>
    rw [succs_eq] at hs
    obtain ⟨t, -, hs⟩ := List.mem_flatMap.1 hs
    have g := pstep_good hs
    exact ⟨ih.1.good g, g.len.trans ih.2⟩

section
variable {α : Type} [BEq α] [Hashable α] [LawfulBEq α]

/-- the outcome set with pruned modification orders -/
def PrunedOutcome (p : Prog) (out : PSt → Graph → α) (strong : Bool) (o : α) : Prop :=
  ∃ s mos, ReachS p s ∧ s.bad = false ∧ enabledThreads p s = [] ∧
    mos ∈ prunedMos (candidate p s) ∧ ((candidate p s).graph mos).consistent strong = true ∧
    o = out s ((candidate p s).graph mos)

/-! ### one pass of the inner loop over the successors -/

/-- what folding `visit` over the list `l` does to the loop state -/
structure VisitRel (n : Nat) (l : List PSt) (w w' : WL α) : Prop where
  outs_eq : w'.outs = w.outs
  unsup_eq : w'.unsupported = w.unsupported
  graphs_eq : w'.graphs = w.graphs
  seen_mono : ∀ x, x ∈ w.seen → x ∈ w'.seen
  seen_new : ∀ x, x ∈ w'.seen → x ∈ w.seen ∨ (x ∈ l ∧ x ∈ w'.stack)
  stack_mono : ∀ x, x ∈ w.stack → x ∈ w'.stack
  stack_new : ∀ x, x ∈ w'.stack → x ∈ w.stack ∨ (x ∈ l ∧ x ∈ w'.seen)
  capped_mono : w'.capped = false → w.capped = false
  all_seen : w'.capped = false → ∀ x ∈ l, x ∈ w'.seen
  size_eq : w'.seen.size + w.stack.length = w.seen.size + w'.stack.length
  size_mono : w.seen.size ≤ w'.seen.size
  size_bound : w'.seen.size ≤ max n w.seen.size
  frozen : n ≤ w.seen.size → ∀ x, x ∈ w'.seen → x ∈ w.seen
  cap_new : w'.capped = true → w.capped = true ∨ (n ≤ w'.seen.size ∧ ∃ x ∈ l, x ∉ w'.seen)

theorem VisitRel.refl (n : Nat) (w : WL α) : VisitRel n [] w w where
  outs_eq := rfl
  unsup_eq := rfl
  graphs_eq := rfl
  seen_mono _ h := h
  seen_new _ h := .inl h
  stack_mono _ h := h
  stack_new _ h := .inl h
  capped_mono h := h
  all_seen _ _ h := by cases h
  size_eq := rfl
  size_mono := Nat.le_refl _
  size_bound := by omega
  frozen _ _ h := h
  cap_new h := .inl h

theorem visit_rel (n : Nat) (w : WL α) (x : PSt) : VisitRel n [x] w (visit n w x) := by
  unfold visit
  by_cases hc : w.seen.contains x = true
  · have hx : x ∈ w.seen := Std.HashSet.mem_iff_contains.2 hc
    rw [if_pos hc]
    exact {
      outs_eq := rfl
      unsup_eq := rfl
      graphs_eq := rfl
      seen_mono := fun _ h => h
      seen_new := fun _ h => .inl h
      stack_mono := fun _ h => h
      stack_new := fun _ h => .inl h
      capped_mono := fun h => h
      all_seen := by intro _ y hy; simp at hy; subst hy; exact hx
      size_eq := rfl
      size_mono := Nat.le_refl _
      size_bound := by omega
      frozen := fun _ _ h => h
      cap_new := fun h => .inl h }
  · have hx : x ∉ w.seen := fun h => hc (Std.HashSet.mem_iff_contains.1 h)
    rw [if_neg hc]
    by_cases hn : w.seen.size ≥ n
    · rw [if_pos hn]
      exact {
        outs_eq := rfl
        unsup_eq := rfl
        graphs_eq := rfl
        seen_mono := fun _ h => h
        seen_new := fun _ h => .inl h
        stack_mono := fun _ h => h
        stack_new := fun _ h => .inl h
        capped_mono := by intro h; simp at h
        all_seen := by intro h; simp at h
        size_eq := rfl
        size_mono := Nat.le_refl _
        size_bound := by simp only; omega
        frozen := fun _ _ h => h
        cap_new := fun _ => .inr ⟨hn, x, by simp, hx⟩ }
    · rw [if_neg hn]
      have hsz : (w.seen.insert x).size = w.seen.size + 1 := by
        rw [Std.HashSet.size_insert]; simp [hx]
      exact {
        outs_eq := rfl
        unsup_eq := rfl
        graphs_eq := rfl
        seen_mono := fun y h => Std.HashSet.mem_insert.2 (.inr h)
        seen_new := by
          intro y h
          rcases Std.HashSet.mem_insert.1 h with h | h
          · have : x = y := by simpa using h
            subst this; exact .inr ⟨by simp, by simp⟩
          · exact .inl h
        stack_mono := fun y h => List.mem_cons_of_mem _ h
        stack_new := by
          intro y h
          rcases List.mem_cons.1 h with rfl | h
          · exact .inr ⟨by simp, Std.HashSet.mem_insert_self⟩
          · exact .inl h
        capped_mono := fun h => h
        all_seen := by
          intro _ y hy; simp at hy; subst hy; exact Std.HashSet.mem_insert_self
        size_eq := by simp only [hsz, List.length_cons]; omega
        size_mono := by simp only [hsz]; omega
        size_bound := by simp only [hsz]; omega
        frozen := by intro h; omega
        cap_new := fun h => .inl h }

theorem VisitRel.trans {n : Nat} {l₁ l₂ : List PSt} {w w₁ w₂ : WL α}
    (a : VisitRel n l₁ w w₁) (b : VisitRel n l₂ w₁ w₂) : VisitRel n (l₁ ++ l₂) w w₂ where
  outs_eq := b.outs_eq.trans a.outs_eq
  unsup_eq := b.unsup_eq.trans a.unsup_eq
  graphs_eq := b.graphs_eq.trans a.graphs_eq
  seen_mono x h := b.seen_mono x (a.seen_mono x h)
  seen_new x h := by
    rcases b.seen_new x h with h | ⟨h1, h2⟩
    · rcases a.seen_new x h with h | ⟨h1, h2⟩
      · exact .inl h
      · exact .inr ⟨List.mem_append_left _ h1, b.stack_mono x h2⟩
    · exact .inr ⟨List.mem_append_right _ h1, h2⟩
  stack_mono x h := b.stack_mono x (a.stack_mono x h)
  stack_new x h := by
    rcases b.stack_new x h with h | ⟨h1, h2⟩
    · rcases a.stack_new x h with h | ⟨h1, h2⟩
      · exact .inl h
      · exact .inr ⟨List.mem_append_left _ h1, b.seen_mono x h2⟩
    · exact .inr ⟨List.mem_append_right _ h1, h2⟩
  capped_mono h := a.capped_mono (b.capped_mono h)
  all_seen h x hx := by
    rcases List.mem_append.1 hx with hx | hx
    · exact b.seen_mono x (a.all_seen (b.capped_mono h) x hx)
    · exact b.all_seen h x hx
  size_eq := by have := a.size_eq; have := b.size_eq; omega
  size_mono := Nat.le_trans a.size_mono b.size_mono
  size_bound := by have := a.size_bound; have := b.size_bound; omega
  frozen h x hx := a.frozen h x (b.frozen (Nat.le_trans h a.size_mono) x hx)
  cap_new h := by
    rcases b.cap_new h with h | ⟨h1, x, hx, hx'⟩
    · rcases a.cap_new h with h | ⟨h1, x, hx, hx'⟩
      · exact .inl h
      · exact .inr ⟨Nat.le_trans h1 b.size_mono, x, List.mem_append_left _ hx,
          fun h2 => hx' (b.frozen h1 x h2)⟩
    · exact .inr ⟨h1, x, List.mem_append_right _ hx, hx'⟩

theorem foldl_visit_rel (n : Nat) : ∀ (l : List PSt) (w : WL α),
    VisitRel n l w (l.foldl (visit n) w)
  | [], w => VisitRel.refl n w
  | x :: l, w => by
    have := (visit_rel n w x).trans (foldl_visit_rel n l (visit n w x))
    simpa using this

/-! ### one pass of the loop over the modification orders of a complete state -/

/-- what folding `evalMo` over the list `L` of modification orders does to the loop state -/
structure EvalRel (out : PSt → Graph → α) (strong : Bool) (mg : Nat) (s : PSt) (c : Candidate)
    (L : List (List (List Nat))) (w w' : WL α) : Prop where
  seen_eq : w'.seen = w.seen
  stack_eq : w'.stack = w.stack
  unsup_eq : w'.unsupported = w.unsupported
  outs_mono : ∀ o, o ∈ w.outs → o ∈ w'.outs
  outs_new : ∀ o, o ∈ w'.outs → o ∈ w.outs ∨
    ∃ mos, mos ∈ L ∧ (c.graph mos).consistent strong = true ∧ o = out s (c.graph mos)
  capped_mono : w'.capped = false → w.capped = false
  all_outs : w'.capped = false → ∀ mos, mos ∈ L → (c.graph mos).consistent strong = true →
    out s (c.graph mos) ∈ w'.outs
  graphs_mono : w.graphs ≤ w'.graphs
  cap_new : w'.capped = true → w.capped = true ∨ mg ≤ w'.graphs

theorem foldl_evalMo_rel (out : PSt → Graph → α) (strong : Bool) (mg : Nat) (s : PSt)
    (c : Candidate) : ∀ (L : List (List (List Nat))) (w : WL α),
    EvalRel out strong mg s c L w (L.foldl (evalMo out strong mg s c) w)
  | [], w => {
      seen_eq := rfl
      stack_eq := rfl
      unsup_eq := rfl
      outs_mono := fun _ h => h
      outs_new := fun _ h => .inl h
      capped_mono := fun h => h
      all_outs := fun _ _ h => by cases h
      graphs_mono := Nat.le_refl _
      cap_new := fun h => .inl h }
  | mos :: L, w => by
    have R := foldl_evalMo_rel out strong mg s c L (evalMo out strong mg s c w mos)
    rw [List.foldl_cons]
    generalize L.foldl (evalMo out strong mg s c) (evalMo out strong mg s c w mos) = w' at R
    unfold evalMo at R
    by_cases hg : w.graphs ≥ mg
    · rw [if_pos hg] at R
      exact {
        seen_eq := R.seen_eq, stack_eq := R.stack_eq, unsup_eq := R.unsup_eq
        outs_mono := R.outs_mono
        outs_new := fun o h => (R.outs_new o h).imp id
          fun ⟨m, hm, h⟩ => ⟨m, List.mem_cons_of_mem _ hm, h⟩
        capped_mono := fun h => by have := R.capped_mono h; simp at this
        all_outs := fun h => by have := R.capped_mono h; simp at this
        graphs_mono := R.graphs_mono
        cap_new := fun _ => .inr (Nat.le_trans hg R.graphs_mono) }
    · rw [if_neg hg] at R
      simp only at R
      by_cases hc : (c.graph mos).consistent strong = true
      · rw [if_pos hc] at R
        exact {
          seen_eq := R.seen_eq, stack_eq := R.stack_eq, unsup_eq := R.unsup_eq
          outs_mono := fun o h => R.outs_mono o (Std.HashSet.mem_insert.2 (.inr h))
          outs_new := by
            intro o h
            rcases R.outs_new o h with h | ⟨m, hm, h⟩
            · rcases Std.HashSet.mem_insert.1 h with h | h
              · exact .inr ⟨mos, List.mem_cons_self, hc, (by simpa using h : _ = o).symm⟩
              · exact .inl h
            · exact .inr ⟨m, List.mem_cons_of_mem _ hm, h⟩
          capped_mono := R.capped_mono
          all_outs := by
            intro h m hm hcm
            rcases List.mem_cons.1 hm with rfl | hm
            · exact R.outs_mono _ Std.HashSet.mem_insert_self
            · exact R.all_outs h m hm hcm
          graphs_mono := by have := R.graphs_mono; simp only at this; omega
          cap_new := R.cap_new }
      · rw [if_neg hc] at R
        exact {
          seen_eq := R.seen_eq, stack_eq := R.stack_eq, unsup_eq := R.unsup_eq
          outs_mono := R.outs_mono
          outs_new := fun o h => (R.outs_new o h).imp id
            fun ⟨m, hm, h⟩ => ⟨m, List.mem_cons_of_mem _ hm, h⟩
          capped_mono := R.capped_mono
          all_outs := by
            intro h m hm hcm
            rcases List.mem_cons.1 hm with rfl | hm
            · exact absurd hcm hc
            · exact R.all_outs h m hm hcm
          graphs_mono := by have := R.graphs_mono; simp only at this; omega
          cap_new := R.cap_new }

/-! ### the worklist invariant -/

/-- the invariant of the outer loop -/
structure Inv (p : Prog) (out : PSt → Graph → α) (strong : Bool) (w : WL α) : Prop where
  /-- everything on the stack has been seen -/
  stack_seen : ∀ s, s ∈ w.stack → s ∈ w.seen
  /-- every seen state is reachable -/
  seen_reach : ∀ s, s ∈ w.seen → ReachS p s
  init_seen : pinit p ∈ w.seen
  /-- unless a cap was hit: every successor of a processed state (seen, not on the stack) is
  seen -/
  closed : w.capped = false → ∀ s, s ∈ w.seen → s ∉ w.stack → ∀ s', s' ∈ succs p s → s' ∈ w.seen
  /-- every recorded outcome is an outcome of the program -/
  outs_sound : ∀ o, o ∈ w.outs → PrunedOutcome p out strong o
  /-- unless a cap was hit: every outcome of every processed complete state is recorded -/
  outs_complete : w.capped = false → ∀ s, s ∈ w.seen → s ∉ w.stack → s.bad = false →
    enabledThreads p s = [] → ∀ mos, mos ∈ prunedMos (candidate p s) →
    ((candidate p s).graph mos).consistent strong = true →
    out s ((candidate p s).graph mos) ∈ w.outs
  /-- the `unsupported` flag is clear only for programs with at most `initTid` threads … -/
  unsup : w.unsupported = false → p.threads.length ≤ initTid
  /-- … and only if no processed state is `bad` -/
  unsup_bad : w.unsupported = false → ∀ s, s ∈ w.seen → s ∉ w.stack → s.bad = false

theorem Inv.start (p : Prog) (out : PSt → Graph → α) (strong : Bool) :
    Inv p out strong (WL.start p : WL α) where
  stack_seen s h := by
    simp only [WL.start, List.mem_singleton] at h
    subst h; exact Std.HashSet.mem_insert_self
  seen_reach s h := by
    have : pinit p = s := by simpa [WL.start] using h
    subst this; exact .init
  init_seen := Std.HashSet.mem_insert_self
  closed _ s h h' := by
    have : pinit p = s := by simpa [WL.start] using h
    subst this; simp [WL.start] at h'
  outs_sound o h := by simp [WL.start] at h
  outs_complete _ s h h' := by
    have : pinit p = s := by simpa [WL.start] using h
    subst this; simp [WL.start] at h'
  unsup h := by simpa [WL.start] using h
  unsup_bad _ s h h' := by
    have : pinit p = s := by simpa [WL.start] using h
    subst this; simp [WL.start] at h'

/-- `expand` of a state that is not `bad`: first the modification orders of a complete state, then
the successors -/
theorem expand_rel (p : Prog) (out : PSt → Graph → α) (strong : Bool) (n mg : Nat) (w : WL α)
    (s : PSt) (hb : s.bad = false) :
    ∃ w₁ : WL α, VisitRel n (succs p s) w₁ (expand p out strong n mg w s) ∧
      EvalRel out strong mg s (candidate p s)
        (if (enabledThreads p s).isEmpty then prunedMos (candidate p s) else []) w w₁ := by
  unfold expand
  rw [hb]
  simp only [Bool.false_eq_true, if_false]
  refine ⟨_, foldl_visit_rel n _ _, ?_⟩
  show EvalRel out strong mg s (candidate p s) _ w
    (if (enabledThreads p s).isEmpty then evalComplete p out strong mg w s else w)
  by_cases h : (enabledThreads p s).isEmpty = true
  · rw [if_pos h, if_pos h]
    have R := foldl_evalMo_rel out strong mg s (candidate p s) (prunedMos (candidate p s))
      { w with cands := w.cands + 1 }
    exact ⟨R.seen_eq, R.stack_eq, R.unsup_eq, R.outs_mono, R.outs_new, R.capped_mono, R.all_outs,
      R.graphs_mono, R.cap_new⟩
  · rw [if_neg h, if_neg h]
    exact foldl_evalMo_rel out strong mg s (candidate p s) [] w

theorem expand_bad (p : Prog) (out : PSt → Graph → α) (strong : Bool) (n mg : Nat) (w : WL α)
    (s : PSt) (hb : s.bad = true) :
    expand p out strong n mg w s = { w with unsupported := true } := by
  unfold expand; rw [if_pos hb]

theorem Inv.expand {p : Prog} {out : PSt → Graph → α} {strong : Bool} {w : WL α} {s : PSt}
    {rest : List PSt} (n mg : Nat) (hst : w.stack = s :: rest) (I : Inv p out strong w) :
    Inv p out strong (expand p out strong n mg { w with stack := rest } s) := by
  have hs_seen : s ∈ w.seen := I.stack_seen s (by simp [hst])
  have hs : ReachS p s := I.seen_reach s hs_seen
  cases hb : s.bad with
  | true =>
    rw [expand_bad _ _ _ _ _ _ _ hb]
    have processed : ∀ x, x ∈ w.seen → x ∉ rest → x = s ∨ x ∉ w.stack := by
      intro x _ hx'
      by_cases hxs : x = s
      · exact .inl hxs
      · refine .inr fun h => hx' ?_
        rw [hst] at h
        rcases List.mem_cons.1 h with h | h
        · exact absurd h hxs
        · exact h
    exact {
      stack_seen := fun x hx => I.stack_seen x (by rw [hst]; exact List.mem_cons_of_mem _ hx)
      seen_reach := I.seen_reach
      init_seen := I.init_seen
      closed := by
        intro hc x hx hx' s' hs'
        rcases processed x hx hx' with rfl | h2
        · rw [succs_eq, enabledThreads_bad hb] at hs'; cases hs'
        · exact I.closed hc x hx h2 s' hs'
      outs_sound := I.outs_sound
      outs_complete := by
        intro hc x hx hx' hxb hterm mos hmos hcons
        rcases processed x hx hx' with rfl | h2
        · rw [hb] at hxb; cases hxb
        · exact I.outs_complete hc x hx h2 hxb hterm mos hmos hcons
      unsup := by intro h; simp at h
      unsup_bad := by intro h; simp at h }
  | false =>
    obtain ⟨w₁, R, E⟩ := expand_rel p out strong n mg { w with stack := rest } s hb
    have hseen : w₁.seen = w.seen := E.seen_eq
    have hstack : w₁.stack = rest := E.stack_eq
    have hunsup : w₁.unsupported = w.unsupported := E.unsup_eq
    -- a processed state of the new loop state is `s` or a processed state of the old one
    have processed : ∀ x, x ∈ (RC11.expand p out strong n mg { w with stack := rest } s).seen →
        x ∉ (RC11.expand p out strong n mg { w with stack := rest } s).stack →
        x ∈ w.seen ∧ (x = s ∨ x ∉ w.stack) := by
      intro x hx hx'
      have h1 : x ∈ w.seen := by
        rcases R.seen_new x hx with h | ⟨_, h⟩
        · exact hseen ▸ h
        · exact absurd h hx'
      refine ⟨h1, ?_⟩
      by_cases hxs : x = s
      · exact .inl hxs
      · refine .inr fun h => hx' (R.stack_mono x ?_)
        rw [hstack]
        rw [hst] at h
        rcases List.mem_cons.1 h with h | h
        · exact absurd h hxs
        · exact h
    exact {
      stack_seen := by
        intro x hx
        rcases R.stack_new x hx with h | ⟨_, h⟩
        · rw [hstack] at h
          have h' : x ∈ w.stack := by rw [hst]; exact List.mem_cons_of_mem _ h
          exact R.seen_mono x (hseen ▸ I.stack_seen x h')
        · exact h
      seen_reach := by
        intro x hx
        rcases R.seen_new x hx with h | ⟨h, _⟩
        · exact I.seen_reach x (hseen ▸ h)
        · exact .tail hs h
      init_seen := R.seen_mono _ (hseen ▸ I.init_seen)
      closed := by
        intro hc x hx hx' s' hs'
        have hc₀ : w.capped = false := E.capped_mono (R.capped_mono hc)
        obtain ⟨h1, h2⟩ := processed x hx hx'
        rcases h2 with rfl | h2
        · exact R.all_seen hc s' hs'
        · exact R.seen_mono s' (hseen ▸ I.closed hc₀ x h1 h2 s' hs')
      outs_sound := by
        intro o ho
        rw [R.outs_eq] at ho
        rcases E.outs_new o ho with h | ⟨mos, hmos, hcons, ho⟩
        · exact I.outs_sound o h
        · by_cases ht : (enabledThreads p s).isEmpty = true
          · rw [if_pos ht] at hmos
            exact ⟨s, mos, hs, hb, by simpa using ht, hmos, hcons, ho⟩
          · rw [if_neg ht] at hmos; cases hmos
      outs_complete := by
        intro hc x hx hx' hxb hterm mos hmos hcons
        rw [R.outs_eq]
        have hc₁ : w₁.capped = false := R.capped_mono hc
        have hc₀ : w.capped = false := E.capped_mono hc₁
        obtain ⟨h1, h2⟩ := processed x hx hx'
        rcases h2 with rfl | h2
        · refine E.all_outs hc₁ mos ?_ hcons
          rw [if_pos (by simp [hterm])]; exact hmos
        · exact E.outs_mono _ (I.outs_complete hc₀ x h1 h2 hxb hterm mos hmos hcons)
      unsup := fun h => I.unsup (hunsup ▸ R.unsup_eq ▸ h)
      unsup_bad := by
        intro h x hx hx'
        obtain ⟨h1, h2⟩ := processed x hx hx'
        rcases h2 with rfl | h2
        · exact hb
        · exact I.unsup_bad (hunsup ▸ R.unsup_eq ▸ h) x h1 h2 }

theorem Inv.set_capped {p : Prog} {out : PSt → Graph → α} {strong : Bool} {w : WL α}
    (I : Inv p out strong w) : Inv p out strong { w with capped := true } where
  stack_seen := I.stack_seen
  seen_reach := I.seen_reach
  init_seen := I.init_seen
  closed h := by simp at h
  outs_sound := I.outs_sound
  outs_complete h := by simp at h
  unsup := I.unsup
  unsup_bad := I.unsup_bad

theorem Inv.loop {p : Prog} {out : PSt → Graph → α} {strong : Bool} (n mg : Nat) :
    ∀ (fuel : Nat) {w : WL α}, Inv p out strong w → Inv p out strong (loop p out strong n mg fuel w)
  | 0, w, I => by
    unfold RC11.loop
    split
    · exact I
    · exact I.set_capped
  | fuel + 1, w, I => by
    unfold RC11.loop
    split
    · exact I
    · next s rest hst => exact Inv.loop n mg fuel (I.expand n mg hst)

/-- a run that is not capped ends with an empty stack -/
theorem loop_stack (p : Prog) (out : PSt → Graph → α) (strong : Bool) (n mg : Nat) :
    ∀ (fuel : Nat) (w : WL α),
    (loop p out strong n mg fuel w).capped = false → (loop p out strong n mg fuel w).stack = []
  | 0, w => by
    unfold loop
    split
    · next h => exact fun _ => h
    · intro h; simp at h
  | fuel + 1, w => by
    unfold loop
    split
    · next h => exact fun _ => h
    · exact loop_stack p out strong n mg fuel _

/-- with an empty stack and no cap the seen set contains every reachable state -/
theorem Inv.all_seen {p : Prog} {out : PSt → Graph → α} {strong : Bool} {w : WL α}
    (I : Inv p out strong w) (hst : w.stack = []) (hc : w.capped = false) {s : PSt}
    (r : ReachS p s) : s ∈ w.seen := by
  induction r with
  | init => exact I.init_seen
  | tail _ hs ih => exact I.closed hc _ ih (by simp [hst]) _ hs

theorem finalWL_inv (p : Prog) (out : PSt → Graph → α) (strong : Bool) (n mg : Nat) :
    Inv p out strong (finalWL p out strong n mg) :=
  Inv.loop n mg _ (Inv.start p out strong)

/-- soundness for the pruned set -/
theorem finalWL_sound {p : Prog} {out : PSt → Graph → α} {strong : Bool} {n mg : Nat} {o : α}
    (h : o ∈ (finalWL p out strong n mg).outs) : PrunedOutcome p out strong o :=
  (finalWL_inv p out strong n mg).outs_sound o h

/-- completeness for the pruned set -/
theorem finalWL_complete {p : Prog} {out : PSt → Graph → α} {strong : Bool} {n mg : Nat} {o : α}
    (hc : (finalWL p out strong n mg).capped = false) (h : PrunedOutcome p out strong o) :
    o ∈ (finalWL p out strong n mg).outs := by
  obtain ⟨s, mos, hr, hb, ht, hmos, hcons, rfl⟩ := h
  have I := finalWL_inv p out strong n mg
  have hst : (finalWL p out strong n mg).stack = [] := loop_stack p out strong n mg _ _ hc
  exact I.outs_complete hc s (I.all_seen hst hc hr) (by simp [hst]) hb ht mos hmos hcons

/-- not capped and not `unsupported`: no reachable state is `bad`, at most `initTid` threads -/
theorem finalWL_supported {p : Prog} {out : PSt → Graph → α} {strong : Bool} {n mg : Nat}
    (hu : (finalWL p out strong n mg).unsupported = false) :
    p.threads.length ≤ initTid ∧
      ((finalWL p out strong n mg).capped = false → ∀ s, ReachS p s → s.bad = false) := by
  have I := finalWL_inv p out strong n mg
  refine ⟨I.unsup hu, fun hc s hr => ?_⟩
  have hst : (finalWL p out strong n mg).stack = [] := loop_stack p out strong n mg _ _ hc
  exact I.unsup_bad hu s (I.all_seen hst hc hr) (by simp [hst])

/-! ### the cap flag is genuine, the fuel suffices -/

/-- when the cap flag is set, either `seen` is full and some reachable state is missing from it,
or the graph counter has reached its cap -/
def CapInv (p : Prog) (n mg : Nat) (w : WL α) : Prop :=
  w.capped = true → (n ≤ w.seen.size ∧ ∃ x, ReachS p x ∧ x ∉ w.seen) ∨ mg ≤ w.graphs

theorem CapInv.expand {p : Prog} {out : PSt → Graph → α} {strong : Bool} {w : WL α} {s : PSt}
    {rest : List PSt} (n mg : Nat) (hst : w.stack = s :: rest) (I : Inv p out strong w)
    (C : CapInv p n mg w) :
    CapInv p n mg (expand p out strong n mg { w with stack := rest } s) := by
  have hs : ReachS p s := I.seen_reach s (I.stack_seen s (by simp [hst]))
  cases hb : s.bad with
  | true => rw [expand_bad _ _ _ _ _ _ _ hb]; exact C
  | false =>
    obtain ⟨w₁, R, E⟩ := expand_rel p out strong n mg { w with stack := rest } s hb
    have hseen : w₁.seen = w.seen := E.seen_eq
    intro hc
    rcases R.cap_new hc with h | ⟨h1, x, hx, hx'⟩
    · rcases E.cap_new h with h | h
      · rcases C h with ⟨h1, x, hx, hx'⟩ | h
        · exact .inl ⟨Nat.le_trans (hseen ▸ h1) R.size_mono, x, hx,
            fun h2 => hx' (hseen ▸ R.frozen (hseen ▸ h1) x h2)⟩
        · exact .inr (by have := E.graphs_mono; have := R.graphs_eq; simp only at *; omega)
      · exact .inr (by rw [R.graphs_eq]; exact h)
    · exact .inl ⟨h1, x, .tail hs hx, hx'⟩

/-- what `expand` does to the sizes -/
theorem expand_sizes (p : Prog) (out : PSt → Graph → α) (strong : Bool) (n mg : Nat) (w : WL α)
    (s : PSt) :
    (expand p out strong n mg w s).seen.size + w.stack.length =
        w.seen.size + (expand p out strong n mg w s).stack.length ∧
      (expand p out strong n mg w s).seen.size ≤ max n w.seen.size := by
  cases hb : s.bad with
  | true => rw [expand_bad _ _ _ _ _ _ _ hb]; exact ⟨rfl, by simp only; omega⟩
  | false =>
    obtain ⟨w₁, R, E⟩ := expand_rel p out strong n mg w s hb
    have e1 := R.size_eq
    have e2 := R.size_bound
    rw [E.seen_eq] at e1 e2
    rw [E.stack_eq] at e1
    exact ⟨e1, e2⟩

/-- `k` states have been popped so far: with `max n 1 - k` pops left the fuel branch of `loop` is
never taken, so the cap flag stays genuine -/
theorem CapInv.loop {p : Prog} {out : PSt → Graph → α} {strong : Bool} (n mg : Nat) :
    ∀ (fuel : Nat) {w : WL α} (k : Nat), Inv p out strong w → CapInv p n mg w →
    w.stack.length + k = w.seen.size → w.seen.size ≤ max n 1 → max n 1 ≤ k + fuel →
    CapInv p n mg (loop p out strong n mg fuel w)
  | 0, w, k, _, C, h1, h2, h3 => by
    unfold RC11.loop
    split
    · exact C
    · next hst => simp [hst] at h1; omega
  | fuel + 1, w, k, I, C, h1, h2, h3 => by
    unfold RC11.loop
    split
    · exact C
    · next s rest hst =>
      obtain ⟨e1, e2⟩ := expand_sizes p out strong n mg { w with stack := rest } s
      simp only at e1 e2
      rw [hst, List.length_cons] at h1
      exact CapInv.loop n mg fuel (k + 1) (I.expand n mg hst) (C.expand n mg hst I)
        (by omega) (by omega) (by omega)

theorem size_start (p : Prog) : (WL.start p : WL α).seen.size = 1 := by
  simp [WL.start, Std.HashSet.size_insert]

theorem nodup_toList (m : Std.HashSet PSt) : m.toList.Nodup :=
  (Std.HashSet.distinct_toList (m := m)).imp (by intro a b h e; subst e; simp at h)

/-- capped: there are more than `n` distinct reachable states, or the graph counter has reached
its cap `mg` (so the flag is never set by the fuel of the outer loop running out) -/
theorem finalWL_capped {p : Prog} {out : PSt → Graph → α} {strong : Bool} {n mg : Nat}
    (hc : (finalWL p out strong n mg).capped = true) :
    (∃ l : List PSt, l.Nodup ∧ (∀ s, s ∈ l → ReachS p s) ∧ n < l.length) ∨
      mg ≤ (finalWL p out strong n mg).graphs := by
  have C : CapInv p n mg (finalWL p out strong n mg) :=
    CapInv.loop n mg (fuelFor n) 0 (Inv.start p out strong) (by intro h; simp [WL.start] at h)
      (by rw [size_start]; simp [WL.start]) (by rw [size_start]; omega)
      (by simp [fuelFor])
  rcases C hc with ⟨h1, x, hx, hx'⟩ | h
  · left
    refine ⟨x :: (finalWL p out strong n mg).seen.toList, ?_, ?_, ?_⟩
    · exact List.nodup_cons.2 ⟨fun h => hx' (Std.HashSet.mem_toList.1 h), nodup_toList _⟩
    · intro s hs
      rcases List.mem_cons.1 hs with rfl | hs
      · exact hx
      · exact (finalWL_inv p out strong n mg).seen_reach s (Std.HashSet.mem_toList.1 hs)
    · rw [List.length_cons, Std.HashSet.length_toList]; omega
  · exact .inr h

end
end LoomVerif.RC11

/-
Refinement, RESOURCE fragment, part 10: `check_for_leaks` on the object store of a world related to the reference
data `d` fails exactly when `d` leaks (`SCData3.leaks`: an Arc with a count ≠ 0, or a slot of `tracks` that is not
dropped), and the panic names the kind of the first leaking object.
-/
import LoomVerif.Proofs.Refine3Run
import LoomVerif.Proofs.Refine3Lift
import LoomVerif.Proofs.C10Leak

namespace LoomVerif
namespace Refine3
open Refine C10

/-- the complaint of `check_for_leaks` about an entry, in terms of its resource view -/
theorem leakOf_aview (o : Obj) (e : Panic) :
    leakOf o = some e ↔
      (∃ k, aview o = .arc k ∧ k ≠ 0 ∧ e = .leakArc) ∨ (aview o = .alloc false ∧ e = .leakAlloc) ∨
      (∃ k, aview o = .chan k ∧ k ≠ 0 ∧ e = .leakMsg) := by
  cases o <;> simp [leakOf, aview] <;> grind

theorem leakOf_none_aview (o : Obj) :
    leakOf o = none ↔ (∀ k, aview o = .arc k → k = 0) ∧ aview o ≠ .alloc false ∧ (∀ k, aview o = .chan k → k = 0) := by
  cases o <;> simp [leakOf, aview]

/-- some Arc of the reference has a count ≠ 0 ↔ some `rt::Arc` object of the store has -/
theorem arcs_leak_iff {os hd ar sa sh} (h : RArc os hd ar sa sh) :
    sa.any (· != 0) = true ↔ ∃ n k, av os n = .arc k ∧ k ≠ 0 := by
  constructor
  · intro hany
    rw [List.any_eq_true] at hany
    obtain ⟨x, hx, hne⟩ := hany
    obtain ⟨a, ha, rfl⟩ := List.getElem_of_mem hx
    have ha' : a < ar.length := by rw [← h.lenA]; exact ha
    refine ⟨_, _, (h.arc a ha').1, ?_⟩
    have : sa.getD a 0 = sa[a] := by simp [List.getD, List.getElem?_eq_getElem ha]
    rw [this]
    simpa using hne
  · rintro ⟨n, k, hk, hne⟩
    obtain ⟨a, ha, e⟩ := h.all n k hk
    have h1 := (h.arc a ha).1
    rw [e, hk] at h1
    cases h1
    have ha' : a < sa.length := by rw [h.lenA]; exact ha
    rw [List.any_eq_true]
    refine ⟨sa[a], List.getElem_mem ha', ?_⟩
    have : sa.getD a 0 = sa[a] := by simp [List.getD, List.getElem?_eq_getElem ha']
    rw [← this]
    simpa using hne

/-- some slot of the reference table is not dropped ↔ some allocation object of the store is not -/
theorem tracks_leak_iff {p os tr ra st} (h : RTrk p os tr ra st) :
    st.any (!·.2) = true ↔ ∃ n, av os n = .alloc false := by
  constructor
  · intro hany
    rw [List.any_eq_true] at hany
    obtain ⟨⟨k, d⟩, hx, hd⟩ := hany
    have hd' : d = false := by simpa using hd
    subst hd'
    have hl := lookup_of_mem_nodup h.nodup hx
    rcases h.cov k hl with ⟨n, hn⟩ | ⟨n, hn⟩
    · obtain ⟨d, h1, h2⟩ := h.trk k n hn
      rw [hl] at h2
      cases h2
      exact ⟨n, h1⟩
    · exact ⟨n, (h.raw k n hn).1⟩
  · rintro ⟨n, hn⟩
    obtain ⟨k, hk⟩ := h.cur n hn
    have hl : st.lookup k = some false := by
      rcases hk with hk | hk
      · obtain ⟨d, h1, h2⟩ := h.trk k n hk
        rw [hn] at h1
        cases h1
        exact h2
      · exact (h.raw k n hk).2
    rw [List.any_eq_true]
    exact ⟨(k, false), mem_of_lookup hl, rfl⟩

theorem av_getElem {os : List Obj} {i : Nat} (hi : i < os.length) : av os i = aview os[i] := by
  unfold av; rw [List.getElem?_eq_getElem hi]

/-- **leak exactness, on the data**: in a world related to the reference data `d`, `check_for_leaks` fails iff `d`
leaks; a `leakArc` panic means an Arc of the reference has a count ≠ 0, a `leakAlloc` panic that a slot of the
reference's `tracks` is not dropped; no other panic is possible; and when only one kind leaks, it is that panic -/
theorem leak_data {w : World} {d : SCData3} (hR : R3 w d) :
    ((∃ e, w.exec.objs.checkForLeaks = .error e) ↔ d.leaks = true) ∧
    (∀ e, w.exec.objs.checkForLeaks = .error e →
      (e = .leakArc ∧ d.arcs.any (· != 0) = true) ∨ (e = .leakAlloc ∧ d.tracks.any (!·.2) = true)) ∧
    (d.arcs.any (· != 0) = true → d.tracks.any (!·.2) = false → w.exec.objs.checkForLeaks = .error .leakArc) ∧
    (d.tracks.any (!·.2) = true → d.arcs.any (· != 0) = false → w.exec.objs.checkForLeaks = .error .leakAlloc) := by
  have hA := arcs_leak_iff hR.a
  have hT := tracks_leak_iff hR.t
  -- what an error says
  have kind : ∀ e, w.exec.objs.checkForLeaks = .error e →
      (e = .leakArc ∧ d.arcs.any (· != 0) = true) ∨ (e = .leakAlloc ∧ d.tracks.any (!·.2) = true) := by
    intro e he
    obtain ⟨i, hi, hl, _⟩ := (check_error_iff _ _).1 he
    rcases (leakOf_aview _ _).1 hl with ⟨k, hk, hne, rfl⟩ | ⟨hk, rfl⟩ | ⟨k, hk, hne, rfl⟩
    · exact .inl ⟨rfl, hA.2 ⟨i, k, by rw [av_getElem hi]; exact hk, hne⟩⟩
    · exact .inr ⟨rfl, hT.2 ⟨i, by rw [av_getElem hi]; exact hk⟩⟩
    · exact absurd (hR.a.noMsg i k (by rw [av_getElem hi]; exact hk)) hne
  -- a leak of the reference is reported
  have rep : d.leaks = true → ∃ e, w.exec.objs.checkForLeaks = .error e := by
    intro hl
    cases hc : w.exec.objs.checkForLeaks with
    | error e => exact ⟨e, rfl⟩
    | ok u =>
      exfalso
      cases u
      have hall := (check_ok_iff _).1 hc
      unfold SCData3.leaks at hl
      rw [Bool.or_eq_true] at hl
      rcases hl with hl | hl
      · obtain ⟨n, k, hk, hne⟩ := hA.1 hl
        have hn : n < w.exec.objs.length := av_lt (by rw [hk]; intro e; cases e)
        rw [av_getElem hn] at hk
        exact hne (((leakOf_none_aview _).1 (hall _ (List.getElem_mem hn))).1 k hk)
      · obtain ⟨n, hk⟩ := hT.1 hl
        have hn : n < w.exec.objs.length := av_lt (by rw [hk]; intro e; cases e)
        rw [av_getElem hn] at hk
        exact ((leakOf_none_aview _).1 (hall _ (List.getElem_mem hn))).2.1 hk
  refine ⟨⟨?_, rep⟩, kind, ?_, ?_⟩
  · rintro ⟨e, he⟩
    unfold SCData3.leaks
    rcases kind e he with ⟨_, h⟩ | ⟨_, h⟩ <;> simp [h]
  · intro h1 h2
    obtain ⟨e, he⟩ := rep (by unfold SCData3.leaks; simp [h1])
    rcases kind e he with ⟨rfl, _⟩ | ⟨_, h⟩
    · exact he
    · rw [h2] at h; cases h
  · intro h1 h2
    obtain ⟨e, he⟩ := rep (by unfold SCData3.leaks; simp [h1])
    rcases kind e he with ⟨_, h⟩ | ⟨rfl, _⟩
    · rw [h2] at h; cases h
    · exact he

end Refine3
end LoomVerif

/-
Refinement, WAIT fragment, part 18: the thread-table frame theorem at the level of one stage of an operation of
the fragment (other than `park`, `unpark`) and of the epilogue.
-/
import LoomVerif.Proofs.Refine2Thr

set_option linter.unusedSimpArgs false
set_option linter.unusedVariables false

namespace LoomVerif
namespace Refine2
open Refine Sy C07 C08 Foot

macro "tk_close" h:ident hu:ident : tactic => `(tactic|
  first
    | (cases $h:ident; done)
    | (cases $h:ident; exact TK.refl _)
    | (cases $h:ident; exact sync_tk _)
    | (have hk := branch_tk (by exact $hu) $h; exact hk)
    | (have hp := ‹World.postAcquire _ _ = Except.ok _›; cases $h:ident; have hk := postAcquire_tk hp; exact hk)
    | (have hp := ‹World.releaseLock _ _ = Except.ok _›; cases $h:ident; have hk := releaseLock_tk hp; exact hk)
    | (have hp := ‹World.notifyWait2 _ _ = Except.ok _›; cases $h:ident; have hk := notifyWait2_tk hp; exact hk)
    | (have hp := ‹World.notifyEffect _ _ = Except.ok _›; cases $h:ident; have hk := notifyEffect_tk hp; exact hk)
    | (have hp := ‹World.sendEffect _ _ _ = Except.ok _›; cases $h:ident; have hk := sendEffect_tk hp; exact hk)
    | (have hp := ‹World.recvEffect _ _ = Except.ok _›; cases $h:ident; have hk := recvEffect_tk hp; exact hk)
    | (have hp := ‹World.notifyWait1 _ _ = Except.ok _›; cases $h:ident
       have hk := notifyWait1_tk (by exact $hu) hp; exact hk)
    | (have hp := ‹Exec.newThread _ = Except.ok _›; cases $h:ident; have hk := newThread_tk hp; exact hk))

/-- the operations whose stages are covered by the frame theorem `runOp_tk` -/
def tkOp : Op → Bool
  | .park | .unpark _ | .cvWait .. | .cvOne _ | .cvAll _ => false
  | _ => true

theorem runOp_tk {w w' : World} {c : TCtl} {op : Op} (hok : opOk w.prog op = true) (hne : tkOp op = true)
    (hu : ActUnparked w) (h : w.runOp c op = .ok w') : TK w w' := by
  cases op <;> simp only [opOk, tkOp, Bool.false_eq_true] at hok hne
  all_goals (simp only [World.runOp] at h; mt_split h)
  all_goals tk_close h hu

theorem runOp_cvWait_tk {w w' : World} {c : TCtl} {v m : Nat} (hu : ActUnparked w)
    (h : w.runOp c (.cvWait v m) = .ok w') : TK w w' := by
  rw [runOp_cvWait] at h
  mt_split h
  · have hk := branch_tk (by exact hu) h; exact hk
  · cases h
  · cases h
  · next w2 hrl =>
    have k0 := releaseLock_tk hrl
    have k1 : TK w w2 := k0
    have hu2 : ActUnparked (w2.setStage 2) := ActUnparked.of_tk (w' := w2) hu k1 (releaseLock_same hrl).2
    have k1' : TK w (w2.setStage 2) := k0
    exact TK.trans k1' (blockNow_tk hu2 h)
  · cases h
  · have hk := branch_tk (by exact hu) h; exact hk
  · cases h
  · cases h
  · have hp := ‹World.postAcquire _ _ = Except.ok _›; cases h; have hk := postAcquire_tk hp; exact hk

theorem runOp_cvOne_tk {w w' : World} {c : TCtl} {v : Nat} (hu : ActUnparked w)
    (h : w.runOp c (.cvOne v) = .ok w') : TK w w' := by
  rw [runOp_cvOne] at h
  mt_split h
  · have hk := branch_tk (by exact hu) h; exact hk
  · cases h
  · cases h; exact TK.refl _
  · cases h; exact wake_tk _ _

theorem runOp_cvAll_tk {w w' : World} {c : TCtl} {v : Nat} (hu : ActUnparked w)
    (h : w.runOp c (.cvAll v) = .ok w') : TK w w' := by
  rw [runOp_cvAll] at h
  mt_split h
  · have hk := branch_tk (by exact hu) h; exact hk
  · cases h
  · cases h; exact foldl_wake_tk _ _

/-- what a stage does to the thread table, as far as `park` is concerned: no thread is terminated except by the
`thread_done` of its own epilogue, `parked` flags (of threads satisfying `PInv`) are kept -/
structure ThrStep (w w' : World) : Prop where
  term : ∀ i, (w'.exec.threads.get i).isTerminated = true →
    (w.exec.threads.get i).isTerminated = true ∨ (i = w.tid ∧ 10 ≤ (w.ctlOf w.tid).fin)
  pk : ∀ i, PInv (w.exec.threads.get i) →
    (w'.exec.threads.get i).parked = (w.exec.threads.get i).parked ∧ PInv (w'.exec.threads.get i)

theorem ThrStep.of_tk {w w' : World} (h : TK w w') : ThrStep w w' :=
  ⟨fun i hi => .inl ((h i).1 hi), fun i hi => (h i).2 hi⟩

theorem threadDone_thr {w w' : World} (hu : ActUnparked w) (h10 : 10 ≤ (w.ctlOf w.tid).fin)
    (h : w.threadDone = .ok w') : ThrStep w w' := by
  unfold World.threadDone at h
  simp only [bind, Except.bind, pure, Except.pure] at h
  split at h
  · cases h
  · next v hv =>
    cases h
    have k2 := schedule_tkeep hv
    let s1 := w.ths.modifyActive fun th => { th.setTerminated with operation := none }
    have hget : ∀ i, s1.get i = if w.tid = i ∧ i < w.exec.threads.threads.length then
        { (w.exec.threads.get i).setTerminated with operation := none } else w.exec.threads.get i := by
      intro i
      exact WB.get_modify _ _ _ _
    refine ⟨?_, ?_⟩
    · intro i hi
      have := (k2 i).1 hi
      change (s1.get i).isTerminated = true at this
      rw [hget i] at this
      split at this
      · next hc => exact .inr ⟨hc.1.symm, h10⟩
      · exact .inl this
    · intro i hi
      have hmid : (s1.get i).parked = (w.exec.threads.get i).parked ∧ PInv (s1.get i) := by
        rw [hget i]
        split
        · next hc =>
          have : (w.exec.threads.get i).parked = false := by rw [← hc.1]; exact hu
          exact ⟨rfl, fun hp => by simp [Thread.setTerminated, this] at hp⟩
        · exact ⟨rfl, hi⟩
      have := (k2 i).2 hmid.2
      exact ⟨this.1.trans hmid.1, this.2⟩

theorem runEpilogue_thr {w w' : World} (hu : ActUnparked w) (hq : (w.ctlOf w.tid).dtorQueue = [])
    (h : w.runEpilogue (w.ctlOf w.tid) = .ok w') : ThrStep w w' := by
  have hdt : w.dropLocals.exec = w.exec := World.dropLocals_exec w
  have hdl : ∀ f, TK w (w.dropLocals.modCtl w.tid f) := by
    intro f
    show TKeep w.exec.threads w.dropLocals.exec.threads
    rw [hdt]; exact TKeep.refl _
  by_cases h10 : 10 ≤ (w.ctlOf w.tid).fin
  · rw [runEpilogue_finish w _ h10] at h
    unfold World.finishThread at h
    split at h
    · cases h
    · rw [dropPass_eq] at h
      split at h
      · cases h; exact .of_tk (hdl _)
      · split at h
        · rw [hq] at h
          simp only at h
          exact threadDone_thr (w := w.modCtl w.tid _) hu (by
            show 10 ≤ ((w.modCtl w.tid fun c => { c with fin := 99 }).ctlOf w.tid).fin
            by_cases hl : w.tid < w.ctl.length
            · simp only [World.ctlOf, World.modCtl]
              rw [getD_modify_self _ _ _ _ hl]
              show 10 ≤ 99
              omega
            · have : (w.modCtl w.tid fun c => { c with fin := 99 }).ctlOf w.tid = w.ctlOf w.tid := by
                simp only [World.ctlOf, World.modCtl]
                simp [List.getD, List.getElem?_eq_none (Nat.le_of_not_lt hl)]
              rw [this]; exact h10) h |> fun r => ⟨fun i hi => (r.term i hi).imp id (fun e => ⟨e.1, h10⟩), r.pk⟩
        · rw [hq] at h
          cases h
  · have hlt : (w.ctlOf w.tid).fin < 10 := by omega
    by_cases ht0 : w.tid = 0
    · rw [runEpilogue_main w _ ht0 hlt] at h
      cases h
      exact .of_tk (TK.refl w)
    · cases hf : w.spawned.find? (·.2.1 == w.tid) with
      | none =>
        unfold World.runEpilogue at h
        simp [h10, ht0, hf, bind, Except.bind, throw, throwThe, MonadExceptOf.throw] at h
      | some e =>
        obtain ⟨b, t, n⟩ := e
        have := List.find?_some hf
        simp only [beq_iff_eq] at this
        subst this
        rw [runEpilogue_spawned w _ b n ht0 hf hlt] at h
        split at h
        · cases h; exact .of_tk (hdl _)
        · split at h
          · rw [dropPass_eq] at h
            split at h
            · cases h; exact .of_tk (hdl _)
            · split at h
              · rw [hq] at h
                simp only at h
                have hk := branch_tk (by exact hu) h
                exact .of_tk hk
              · rw [hq] at h
                cases h
          · obtain ⟨w1, h1, h⟩ := bind_ok h
            simp only [pure, Except.pure] at h
            cases h
            have hk := notifyEffect_tk h1
            exact .of_tk hk

end Refine2
end LoomVerif

/-
Part B of C14: every API function of `Path` satisfies the frame condition `Path.Frame`,
preserves well-formedness and (unless called while panicking) the branch limit.
-/
import LoomVerif.Proofs.PathDfs

namespace LoomVerif

/-! ### list helpers -/

theorem set_of_getElem? {α} (l : List α) (i : Nat) (a : α) (h : l[i]? = some a) :
    l.set i a = l := by
  obtain ⟨hlt, rfl⟩ := List.getElem?_eq_some_iff.1 h
  exact List.set_getElem_self hlt

theorem idxsOf_eq_nil {α} (p : α → Bool) (l : List α) (h : ∀ a ∈ l, p a = false) :
    idxsOf p l = [] := by
  induction l with
  | nil => rfl
  | cons x xs ih =>
    have hx : p x = false := h x (by simp)
    have := ih (fun a ha => h a (by simp [ha]))
    simp [idxsOf, hx, this]

theorem padTo_length {α} (l : List α) (n : Nat) (d : α) (h : l.length ≤ n) :
    (Path.padTo l n d).length = n := by
  simp [Path.padTo]; omega

theorem mem_padTo {α} {l : List α} {n : Nat} {d a : α} (h : a ∈ Path.padTo l n d) :
    a ∈ l ∨ a = d := by
  simp only [Path.padTo, List.mem_append, List.mem_replicate] at h
  rcases h with h | h
  · exact Or.inl h
  · exact Or.inr h.2

/-! ### `Sched.backtrack` only turns `skip` into `pending` -/

namespace Sched

/-- `s'` differs from `s` at most by some `skip` threads having become `pending` (or back) -/
structure Rel (s s' : Sched) : Prop where
  fields : s' = { s with threads := s'.threads }
  threads : s'.threads.map ThSt.explore = s.threads.map ThSt.explore

theorem Rel.refl (s : Sched) : Rel s s := ⟨rfl, rfl⟩

theorem Rel.length {s s' : Sched} (h : Rel s s') : s'.threads.length = s.threads.length := by
  have := congrArg List.length h.threads
  simpa using this

theorem Rel.exploring {s s' : Sched} (h : Rel s s') : s'.exploring = s.exploring := by
  rw [h.fields]

theorem Rel.activeIdx {s s' : Sched} (h : Rel s s') : s'.activeIdx = s.activeIdx := by
  have key : ∀ l : List ThSt, findIdx? ThSt.isActive l =
      findIdx? ThSt.isActive (l.map ThSt.explore) := by
    intro l; rw [findIdx?_map]; congr 1; funext t; exact (ThSt.isActive_explore t).symm
  unfold Sched.activeIdx
  rw [key, h.threads, ← key]

theorem Rel.visitedIdx {s s' : Sched} (h : Rel s s') : s'.visitedIdx = s.visitedIdx := by
  have key : ∀ l : List ThSt, idxsOf ThSt.isVisited l =
      idxsOf ThSt.isVisited (l.map ThSt.explore) := by
    intro l; rw [idxsOf_map]; congr 1; funext t; exact (ThSt.isVisited_explore t).symm
  unfold Sched.visitedIdx
  rw [key, h.threads, ← key]

theorem Rel.openCount {s s' : Sched} (h : Rel s s') : s'.openCount = s.openCount := by
  have key : ∀ l : List ThSt, l.countP ThSt.isOpen =
      (l.map ThSt.explore).countP ThSt.isOpen := by
    intro l; rw [List.countP_map]; congr 1; funext t; exact (ThSt.isOpen_explore t).symm
  unfold Sched.openCount
  rw [key, h.threads, ← key]

theorem Rel.activeCount {s s' : Sched} (h : Rel s s') : s'.activeCount = s.activeCount := by
  have key : ∀ l : List ThSt, l.countP ThSt.isActive =
      (l.map ThSt.explore).countP ThSt.isActive := by
    intro l; rw [List.countP_map]; congr 1; funext t; exact (ThSt.isActive_explore t).symm
  unfold Sched.activeCount
  rw [key, h.threads, ← key]

theorem Rel.wf {s s' : Sched} (h : Rel s s') (hw : s.WF) : s'.WF :=
  ⟨by rw [h.length, hw.len], by rw [h.activeCount]; exact hw.oneActive⟩

theorem Rel.same {s s' : Sched} (h : Rel s s') : Entry.Same (.sched s) (.sched s') where
  kind := rfl
  dec := by simp only [Entry.dec, h.activeIdx]
  tried := h.visitedIdx
  exploring := h.exploring
  alt := by simp only [Entry.alt, h.exploring, h.openCount]

theorem mark_rel (tid : Nat) (s : Sched) : Rel s (backtrack.mark tid s) := by
  unfold backtrack.mark
  split
  · exact Rel.refl s
  · rename_i st hst
    split
    · refine ⟨rfl, ?_⟩
      simp only [List.map_set, ThSt.explore_explore]
      apply set_of_getElem?
      simp [hst]
    · refine ⟨rfl, ?_⟩
      simp only [List.map_map]
      congr 1; funext t; exact ThSt.explore_explore t

theorem backtrack_rel {s s' : Sched} {tid : Nat} {b : Option Nat}
    (h : s.backtrack tid b = .ok s') : Rel s s' := by
  unfold backtrack at h
  split at h
  · cases h
  · split at h
    · split at h
      · cases h
      · split at h
        · cases h; exact Rel.refl s
        · cases h; exact mark_rel tid s
    · cases h; exact mark_rel tid s

end Sched

namespace Path

/-! ### building frames -/

/-- appending well-formed entries is a frame -/
theorem Frame.of_append {p q : Path} (ext : List Entry) (hb : q.branches = p.branches ++ ext)
    (hw : ∀ e ∈ ext, e.WF) (hc : q.cap = p.cap) (hbd : q.bound = p.bound)
    (he : q.exploringOnStart = p.exploringOnStart) : Frame p q where
  len := by simp [hb]
  cap := hc
  bound := hbd
  eos := he
  same i h := by
    have : q.branches[i]'(by simp [hb]; omega) = p.branches[i] := by
      simp [hb, List.getElem_append_left h]
    rw [this]; exact Entry.Same.refl _
  wf hp := by
    intro e hm
    rw [hb, List.mem_append] at hm
    rcases hm with hm | hm
    · exact hp e hm
    · exact hw e hm

/-- leaving the stack alone is a frame -/
theorem Frame.of_eq {p q : Path} (hb : q.branches = p.branches)
    (hc : q.cap = p.cap) (hbd : q.bound = p.bound)
    (he : q.exploringOnStart = p.exploringOnStart) : Frame p q :=
  Frame.of_append [] (by simp [hb]) (by simp) hc hbd he

theorem schedAt_eq_some {p : Path} {i : Nat} {s : Sched} (h : p.schedAt i = some s) :
    p.branches[i]? = some (.sched s) := by
  unfold schedAt at h
  split at h
  · cases h; assumption
  · cases h

/-- overwriting a schedule by a `Rel`ated one is a frame -/
theorem Frame.of_setSched {p : Path} {i : Nat} {s s' : Sched} (h : p.schedAt i = some s)
    (hr : Sched.Rel s s') : Frame p (p.setSched i s') where
  len := by simp [setSched]
  cap := rfl
  bound := rfl
  eos := rfl
  same j hj := by
    obtain ⟨hi, hpi⟩ := List.getElem?_eq_some_iff.1 (schedAt_eq_some h)
    simp only [setSched, List.getElem_set]
    split
    · subst_vars; rw [hpi]; exact hr.same
    · exact Entry.Same.refl _
  wf hp := by
    obtain ⟨hi, hpi⟩ := List.getElem?_eq_some_iff.1 (schedAt_eq_some h)
    intro e hm
    rcases List.mem_or_eq_of_mem_set hm with hm | rfl
    · exact hp e hm
    · have : (Entry.sched s).WF := by rw [← hpi]; exact hp _ (List.getElem_mem hi)
      exact hr.wf this

theorem setSched_length (p : Path) (i : Nat) (s : Sched) :
    (p.setSched i s).branches.length = p.branches.length := by simp [setSched]

/-! ### the simple API functions -/

theorem exploreState_frame {p p' : Path} (h : p.exploreState = .ok p') :
    Frame p p' ∧ p'.branches = p.branches := by
  unfold exploreState at h
  split at h
  · split at h
    · cases h
    · cases h; exact ⟨Frame.of_eq rfl rfl rfl rfl, rfl⟩
  · cases h; exact ⟨Frame.refl p, rfl⟩

theorem critical_frame {p p' : Path} (h : p.critical = .ok p') :
    Frame p p' ∧ p'.branches = p.branches := by
  unfold critical at h
  split at h
  · split at h
    · cases h
    · cases h; exact ⟨Frame.of_eq rfl rfl rfl rfl, rfl⟩
  · cases h; exact ⟨Frame.refl p, rfl⟩

theorem skipBranch_frame (p : Path) :
    Frame p p.skipBranch ∧ p.skipBranch.branches = p.branches :=
  ⟨Frame.of_eq rfl rfl rfl rfl, rfl⟩

theorem branchLoad_frame {p p' : Path} {v : Nat} (h : p.branchLoad = .ok (p', v)) :
    Frame p p' ∧ p'.branches = p.branches := by
  unfold branchLoad at h
  split at h
  · cases h
  · split at h
    · cases h; exact ⟨Frame.of_eq rfl rfl rfl rfl, rfl⟩
    · cases h

/-! ### `pushLoad` -/

/-- the entry pushed by `pushLoad` -/
def newLoad (p : Path) (seed : List Nat) : Load :=
  { values := padTo seed NH 0, pos := 0, len := seed.length, exploring := p.exploring }

theorem pushLoad_eq (p : Path) (seed : List Nat) (pk : Bool) :
    p.pushLoad seed pk =
      if p.branches.length < p.cap || pk then
        if seed.any (fun s => s ≥ NH) || seed.length > NH then .error (.internal 3)
        else .ok { p with branches := p.branches ++ [.load (p.newLoad seed)] }
      else .error .branchLimit := by
  unfold pushLoad
  simp only [assertLen]
  by_cases hc : (decide (p.branches.length < p.cap) || pk) = true
  · simp only [hc, if_true]; rfl
  · simp only [hc]; rfl

/-- inversion of a successful `pushLoad` -/
theorem pushLoad_ok {p p' : Path} {seed : List Nat} {pk : Bool}
    (h : p.pushLoad seed pk = .ok p') :
    (p.branches.length < p.cap ∨ pk = true) ∧ seed.length ≤ NH ∧
      p' = { p with branches := p.branches ++ [.load (p.newLoad seed)] } := by
  rw [pushLoad_eq] at h
  split at h
  · rename_i hc
    split at h
    · cases h
    · rename_i hs
      cases h
      refine ⟨by simpa using hc, ?_, rfl⟩
      simp only [Bool.or_eq_true, decide_eq_true_eq, not_or] at hs
      omega
  · cases h

theorem newLoad_wf (p : Path) (seed : List Nat) (h : seed.length ≤ NH) :
    (p.newLoad seed).WF := ⟨h, by simp only [newLoad]; omega⟩

theorem newLoad_tried (p : Path) (seed : List Nat) :
    (Entry.load (p.newLoad seed)).tried = [] := by simp [Entry.tried, newLoad]

theorem pushLoad_frame {p p' : Path} {seed : List Nat} {pk : Bool}
    (h : p.pushLoad seed pk = .ok p') :
    Frame p p' ∧ (pk = false → p.LenOk → p'.LenOk) := by
  obtain ⟨hc, hs, rfl⟩ := pushLoad_ok h
  refine ⟨Frame.of_append [.load (p.newLoad seed)] rfl ?_ rfl rfl rfl, ?_⟩
  · intro e he; simp only [List.mem_singleton] at he; subst he; exact newLoad_wf p seed hs
  · intro hpk _
    subst hpk
    simp only [LenOk, List.length_append, List.length_singleton]
    rcases hc with hc | hc
    · omega
    · cases hc

/-! ### `branchSpurious` -/

/-- second half of `branchSpurious` -/
def readSpur (p : Path) : Except Panic (Path × Bool) :=
  match p.branches[p.pos]? with
  | some (.spur s) => .ok ({ p with pos := p.pos + 1 }, s.spur)
  | _ => .error .nondet

theorem branchSpurious_eq (p : Path) (pk : Bool) :
    p.branchSpurious pk =
      if p.isTraversed then
        if p.branches.length < p.cap || pk then
          readSpur { p with branches := p.branches ++
            [.spur { spur := false, exploring := p.exploring }] }
        else .error .branchLimit
      else readSpur p := by
  unfold branchSpurious
  by_cases ht : p.isTraversed = true
  · simp only [ht, if_true, assertLen]
    by_cases hc : (decide (p.branches.length < p.cap) || pk) = true
    · simp only [hc, if_true]; rfl
    · simp only [hc]; rfl
  · simp only [ht]; rfl

theorem readSpur_ok {p p' : Path} {b : Bool} (h : p.readSpur = .ok (p', b)) :
    p' = { p with pos := p.pos + 1 } := by
  unfold readSpur at h
  split at h
  · cases h; rfl
  · cases h

/-- inversion of a successful `branchSpurious` -/
theorem branchSpurious_ok {p p' : Path} {pk b : Bool} (h : p.branchSpurious pk = .ok (p', b)) :
    p' = { p with pos := p.pos + 1 } ∨
    ((p.branches.length < p.cap ∨ pk = true) ∧
      p' = { p with pos := p.pos + 1, branches := p.branches ++
        [.spur { spur := false, exploring := p.exploring }] }) := by
  rw [branchSpurious_eq] at h
  split at h
  · split at h
    · rename_i hc
      exact Or.inr ⟨by simpa using hc, readSpur_ok h⟩
    · cases h
  · exact Or.inl (readSpur_ok h)

theorem branchSpurious_frame {p p' : Path} {pk b : Bool}
    (h : p.branchSpurious pk = .ok (p', b)) :
    Frame p p' ∧ (pk = false → p.LenOk → p'.LenOk) := by
  rcases branchSpurious_ok h with rfl | ⟨hc, rfl⟩
  · exact ⟨Frame.of_eq rfl rfl rfl rfl, fun _ h => h⟩
  · refine ⟨Frame.of_append [.spur { spur := false, exploring := p.exploring }] rfl ?_
      rfl rfl rfl, ?_⟩
    · intro e he; simp only [List.mem_singleton] at he; subst he; trivial
    · intro hpk _
      subst hpk
      simp only [LenOk, List.length_append, List.length_singleton]
      rcases hc with hc | hc
      · omega
      · cases hc

/-! ### `branchThread` -/

/-- thread states of the schedule pushed by `branchThread` -/
def newThreads (seed : List ThSt) : List ThSt :=
  let ths := padTo seed NT .disabled
  match findIdx? ThSt.isActive ths with
  | some _ => ths
  | none =>
    match findIdx? (· == ThSt.yield) ths with
    | some y => ths.set y .active
    | none => ths

/-- the schedule entry pushed by `branchThread` -/
def newSched (p : Path) (seed : List ThSt) : Sched :=
  let ths := padTo seed NT .disabled
  let r : List ThSt × Option Nat := match findIdx? ThSt.isActive ths with
    | some a => (ths, some a)
    | none =>
      match findIdx? (· == ThSt.yield) ths with
      | some y => (ths.set y .active, some y)
      | none => (ths, none)
  let prevS := p.lastSchedule.bind p.schedAt
  { preemptions := match prevS with
        | some ps => ps.preemptionsNow
        | none => 0
    initialActive := match prevS with
        | some ps => if r.2 != ps.activeIdx then none else r.2
        | none => r.2
    threads := r.1, prev := p.lastSchedule, exploring := p.exploring }

/-- second half of `branchThread` -/
def readSched (p : Path) : Except Panic (Path × Option Nat) :=
  match p.branches[p.pos]? with
  | some (.sched s) => .ok ({ p with pos := p.pos + 1 }, s.activeIdx)
  | _ => .error .nondet

theorem branchThread_eq (p : Path) (seed : List ThSt) (pk : Bool) :
    p.branchThread seed pk =
      if p.isTraversed then
        if p.branches.length < p.cap || pk then
          if seed.length > NT then .error (.internal 5)
          else if (seed.filter ThSt.isActive).length > 1 then .error (.internal 6)
          else readSched { p with branches := p.branches ++ [.sched (p.newSched seed)] }
        else .error .branchLimit
      else readSched p := by
  unfold branchThread
  by_cases ht : p.isTraversed = true
  · simp only [ht, if_true, assertLen]
    by_cases hc : (decide (p.branches.length < p.cap) || pk) = true
    · simp only [hc, if_true]
      by_cases h1 : seed.length > NT
      · simp only [h1, if_true]; rfl
      · simp only [h1, if_false]
        by_cases h2 : (seed.filter ThSt.isActive).length > 1
        · simp only [h2, if_true]; rfl
        · simp only [h2, if_false]
          rfl
    · simp only [hc]; rfl
  · simp only [ht]; rfl

theorem readSched_ok {p p' : Path} {r : Option Nat} (h : p.readSched = .ok (p', r)) :
    p' = { p with pos := p.pos + 1 } := by
  unfold readSched at h
  split at h
  · cases h; rfl
  · cases h

theorem newSched_threads (p : Path) (seed : List ThSt) :
    (p.newSched seed).threads = newThreads seed := by
  unfold newSched newThreads
  simp only
  split
  · rfl
  · split <;> rfl

theorem newSched_exploring (p : Path) (seed : List ThSt) :
    (p.newSched seed).exploring = p.exploring := rfl

theorem newThreads_length (seed : List ThSt) (h : seed.length ≤ NT) :
    (newThreads seed).length = NT := by
  unfold newThreads
  simp only
  split
  · exact padTo_length _ _ _ h
  · split
    · simp [padTo_length _ _ _ h]
    · exact padTo_length _ _ _ h

theorem newThreads_active (seed : List ThSt) (h : (seed.filter ThSt.isActive).length ≤ 1) :
    (newThreads seed).countP ThSt.isActive ≤ 1 := by
  have hpad : (padTo seed NT ThSt.disabled).countP ThSt.isActive =
      (seed.filter ThSt.isActive).length := by
    simp [padTo, ThSt.isActive, List.countP_eq_length_filter]
  unfold newThreads
  simp only
  split
  · omega
  · rename_i hn
    have h0 : (padTo seed NT ThSt.disabled).countP ThSt.isActive = 0 := by
      rw [List.countP_eq_zero]
      intro x hx; simp [(findIdx?_eq_none _ _).1 hn x hx]
    split
    · have := countP_set_le ThSt.isActive (padTo seed NT ThSt.disabled) ‹Nat› .active
      omega
    · omega

theorem newThreads_visited (seed : List ThSt) (h : ThSt.visited ∉ seed) :
    idxsOf ThSt.isVisited (newThreads seed) = [] := by
  apply idxsOf_eq_nil
  have hpad : ∀ a ∈ padTo seed NT ThSt.disabled, a.isVisited = false := by
    intro a ha
    rcases mem_padTo ha with ha | rfl
    · cases a <;> first | rfl | exact absurd ha h
    · rfl
  unfold newThreads
  simp only
  split
  · exact hpad
  · split
    · intro a ha
      rcases List.mem_or_eq_of_mem_set ha with ha | rfl
      · exact hpad a ha
      · rfl
    · exact hpad

theorem newSched_wf (p : Path) (seed : List ThSt) (h1 : seed.length ≤ NT)
    (h2 : (seed.filter ThSt.isActive).length ≤ 1) : (p.newSched seed).WF := by
  constructor
  · rw [newSched_threads]; exact newThreads_length seed h1
  · unfold Sched.activeCount; rw [newSched_threads]; exact newThreads_active seed h2

/-- a schedule pushed by `branchThread` has no exhausted alternatives (the seeds built by
`Execution::schedule` never contain `Visited`) -/
theorem newSched_tried (p : Path) (seed : List ThSt) (h : ThSt.visited ∉ seed) :
    (Entry.sched (p.newSched seed)).tried = [] := by
  simp only [Entry.tried, Sched.visitedIdx, newSched_threads]
  exact newThreads_visited seed h

/-- inversion of a successful `branchThread` -/
theorem branchThread_ok {p p' : Path} {seed : List ThSt} {pk : Bool} {r : Option Nat}
    (h : p.branchThread seed pk = .ok (p', r)) :
    p' = { p with pos := p.pos + 1 } ∨
    ((p.branches.length < p.cap ∨ pk = true) ∧ seed.length ≤ NT ∧
      (seed.filter ThSt.isActive).length ≤ 1 ∧
      p' = { p with pos := p.pos + 1,
                    branches := p.branches ++ [.sched (p.newSched seed)] }) := by
  rw [branchThread_eq] at h
  split at h
  · split at h
    · rename_i hc
      split at h
      · cases h
      · split at h
        · cases h
        · exact Or.inr ⟨by simpa using hc, by omega, by omega, readSched_ok h⟩
    · cases h
  · exact Or.inl (readSched_ok h)

theorem branchThread_frame {p p' : Path} {seed : List ThSt} {pk : Bool} {r : Option Nat}
    (h : p.branchThread seed pk = .ok (p', r)) :
    Frame p p' ∧ (pk = false → p.LenOk → p'.LenOk) := by
  rcases branchThread_ok h with rfl | ⟨hc, h1, h2, rfl⟩
  · exact ⟨Frame.of_eq rfl rfl rfl rfl, fun _ h => h⟩
  · refine ⟨Frame.of_append [.sched (p.newSched seed)] rfl ?_ rfl rfl rfl, ?_⟩
    · intro e he; simp only [List.mem_singleton] at he; subst he
      exact newSched_wf p seed h1 h2
    · intro hpk _
      subst hpk
      simp only [LenOk, List.length_append, List.length_singleton]
      rcases hc with hc | hc
      · omega
      · cases hc

/-! ### `backtrack` -/

theorem findExploringSched_some {p : Path} {n i : Nat} {s : Sched}
    (h : p.findExploringSched n = some (i, s)) : p.schedAt i = some s := by
  induction n with
  | zero =>
    unfold findExploringSched at h
    split at h
    · split at h
      · cases h; assumption
      · cases h
    · cases h
  | succ n ih =>
    unfold findExploringSched at h
    split at h
    · split at h
      · cases h; assumption
      · exact ih h
    · exact ih h

theorem backtrackConservative_frame {p p' : Path} {tid fuel curr : Nat}
    (h : p.backtrackConservative tid fuel curr = .ok p') :
    Frame p p' ∧ p'.branches.length = p.branches.length := by
  induction fuel generalizing curr with
  | zero => unfold backtrackConservative at h; cases h; exact ⟨Frame.refl p, rfl⟩
  | succ fuel ih =>
    unfold backtrackConservative at h
    split at h
    · cases h
    · rename_i cs hcs
      have setCase : ∀ {p' : Path},
          (do let cs' ← cs.backtrack tid p.bound; pure (p.setSched curr cs')) = Except.ok p' →
          Frame p p' ∧ p'.branches.length = p.branches.length := by
        intro p' h
        cases hb : cs.backtrack tid p.bound with
        | error e => rw [hb] at h; cases h
        | ok cs' =>
          rw [hb] at h; cases h
          exact ⟨Frame.of_setSched hcs (Sched.backtrack_rel hb), setSched_length _ _ _⟩
      split at h
      · split at h
        · cases h
        · split at h
          · exact setCase h
          · exact ih h
      · split at h
        · exact setCase h
        · cases h; exact ⟨Frame.refl p, rfl⟩

theorem backtrack_frame {p p' : Path} {point tid : Nat} (h : p.backtrack point tid = .ok p') :
    Frame p p' ∧ p'.branches.length = p.branches.length := by
  unfold backtrack at h
  split at h
  · cases h
  · split at h
    · cases h; exact ⟨Frame.refl p, rfl⟩
    · rename_i i s hf
      have hs := findExploringSched_some hf
      cases hb : s.backtrack tid p.bound with
      | error e => rw [hb] at h; cases h
      | ok s' =>
        rw [hb] at h
        have f1 := Frame.of_setSched hs (Sched.backtrack_rel hb)
        have l1 := setSched_length p i s'
        simp only [bind, Except.bind] at h
        split at h
        · cases h; exact ⟨f1, l1⟩
        · split at h
          · obtain ⟨f2, l2⟩ := backtrackConservative_frame h
            exact ⟨f1.trans f2, l2.trans l1⟩
          · cases h; exact ⟨f1, l1⟩

/-! ### iterations as sequences of API calls -/

/-- one call of a `Path` API function made while an execution runs; `pk` is the value of
`std::thread::panicking()` seen by `assert_path_len!` -/
inductive Call (pk : Bool) : Path → Path → Prop
  | branchThread {p p' : Path} (seed : List ThSt) (r : Option Nat) :
      p.branchThread seed pk = .ok (p', r) → Call pk p p'
  | pushLoad {p p' : Path} (seed : List Nat) : p.pushLoad seed pk = .ok p' → Call pk p p'
  | branchLoad {p p' : Path} (v : Nat) : p.branchLoad = .ok (p', v) → Call pk p p'
  | branchSpurious {p p' : Path} (b : Bool) : p.branchSpurious pk = .ok (p', b) → Call pk p p'
  | backtrack {p p' : Path} (point tid : Nat) : p.backtrack point tid = .ok p' → Call pk p p'
  | exploreState {p p' : Path} : p.exploreState = .ok p' → Call pk p p'
  | critical {p p' : Path} : p.critical = .ok p' → Call pk p p'
  | skipBranch {p : Path} : Call pk p p.skipBranch

theorem Call.frame {pk : Bool} {p p' : Path} (h : Call pk p p') :
    Frame p p' ∧ (pk = false → p.LenOk → p'.LenOk) := by
  have keep : ∀ {p p' : Path}, p'.cap = p.cap → p'.branches.length = p.branches.length →
      pk = false → p.LenOk → p'.LenOk := by
    intro p p' h1 h2 _ h; unfold LenOk at *; omega
  cases h with
  | branchThread seed r h => exact branchThread_frame h
  | pushLoad seed h => exact pushLoad_frame h
  | branchLoad v h =>
    obtain ⟨f, e⟩ := branchLoad_frame h; exact ⟨f, keep f.cap (by rw [e])⟩
  | branchSpurious b h => exact branchSpurious_frame h
  | backtrack point tid h =>
    obtain ⟨f, e⟩ := backtrack_frame h; exact ⟨f, keep f.cap e⟩
  | exploreState h =>
    obtain ⟨f, e⟩ := exploreState_frame h; exact ⟨f, keep f.cap (by rw [e])⟩
  | critical h =>
    obtain ⟨f, e⟩ := critical_frame h; exact ⟨f, keep f.cap (by rw [e])⟩
  | skipBranch =>
    obtain ⟨f, e⟩ := skipBranch_frame p; exact ⟨f, keep f.cap (by rw [e])⟩

/-- an iteration: any finite sequence of API calls.  With `np = true` none of them is made
while a thread is panicking (a panic aborts `loom::model`, so this is the case for every
iteration that is followed by `Path::step`). -/
inductive Iter (np : Bool) : Path → Path → Prop
  | refl (p : Path) : Iter np p p
  | call {p p' q : Path} (pk : Bool) : (np = true → pk = false) → Call pk p p' →
      Iter np p' q → Iter np p q

theorem Iter.frame {np : Bool} {p q : Path} (h : Iter np p q) : Frame p q := by
  induction h with
  | refl p => exact Frame.refl p
  | call pk _ hc _ ih => exact hc.frame.1.trans ih

theorem Iter.lenOk {p q : Path} (h : Iter true p q) (hl : p.LenOk) : q.LenOk := by
  induction h with
  | refl p => exact hl
  | call pk hpk hc _ ih => exact ih (hc.frame.2 (hpk rfl) hl)

theorem Iter.weaken {np : Bool} {p q : Path} (h : Iter np p q) : Iter false p q := by
  induction h with
  | refl p => exact .refl p
  | call pk _ hc _ ih => exact .call pk (fun h => by cases h) hc ih

theorem Iter.trans {np : Bool} {p q r : Path} (h1 : Iter np p q) (h2 : Iter np q r) :
    Iter np p r := by
  induction h1 with
  | refl p => exact h2
  | call pk hpk hc _ ih => exact .call pk hpk hc (ih h2)

end Path
end LoomVerif

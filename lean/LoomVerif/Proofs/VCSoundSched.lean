/-
Soundness of the vector clocks of the reference semantics, part 11: tools for the non-vacuity examples.
`runSched`: the run of a program along a given schedule (a list of thread indices), computed; `runSched_run`: it is a
`Run`.  `Run.reach`: the end state of a run is reachable in the sense of the verified enumerator (`Props/Oracle.lean`).
-/
import LoomVerif.Proofs.VCSoundMain
import LoomVerif.Proofs.OracleSC

namespace LoomVerif
namespace VCSound

/-- follow a schedule: each listed thread must be enabled and have exactly one successor -/
def runSched (p : Prog) : List Nat → SC.St → List Step → Option (List Step × SC.St)
  | [], s, acc => some (acc, s)
  | t :: ts, s, acc =>
    if SC.enabled p s t then
      match SC.step p s t with
      | [s'] => runSched p ts s' (acc ++ [⟨t, s, s'⟩])
      | _ => none
    else none

theorem runSched_run {p : Prog} (sched : List Nat) {s : SC.St} {acc : List Step} (h : Run p acc s)
    {tr : List Step} {s' : SC.St} (hr : runSched p sched s acc = some (tr, s')) : Run p tr s' := by
  induction sched generalizing s acc with
  | nil => simp only [runSched, Option.some.injEq, Prod.mk.injEq] at hr; rw [← hr.1, ← hr.2]; exact h
  | cons t ts ih =>
    unfold runSched at hr
    split at hr
    · next hen =>
      split at hr
      · next s1 hstep =>
        exact ih (.snoc h hen (by rw [hstep]; exact List.mem_singleton.2 rfl)) hr
      · cases hr
    · cases hr

/-- the trace and the end state of the run along a schedule (empty if the schedule cannot be followed) -/
def traceOf (p : Prog) (sched : List Nat) : List Step × SC.St :=
  (runSched p sched (SC.init p) []).getD ([], SC.init p)

theorem traceOf_run (p : Prog) (sched : List Nat) : Run p (traceOf p sched).1 (traceOf p sched).2 := by
  unfold traceOf
  cases h : runSched p sched (SC.init p) [] with
  | none => exact .nil
  | some x => exact runSched_run sched .nil h

/-- the end state of a run is reachable from the initial state along the successor function of the enumerator -/
theorem Run.reach {p : Prog} {tr : List Step} {s : SC.St} (h : Run p tr s) : SC.Reach p s := by
  induction h with
  | nil => exact .refl
  | @snoc tr s s' t _ hen hstep ih =>
    refine .tail ih ?_
    unfold SC.succs
    refine List.mem_append_left _ (List.mem_flatMap.2 ⟨t, ?_, hstep⟩)
    unfold SC.enabledThreads
    exact List.mem_filter.2 ⟨List.mem_range.2 (enabled_facts hen).2.2.2, hen⟩

/-- a state with a verdict has no enabled thread -/
theorem no_enabled_of_verdict {p : Prog} {s : SC.St} {k : SC.Verdict} (h : s.verdict = some k) :
    SC.enabledThreads p s = [] := by
  unfold SC.enabledThreads
  rw [List.filter_eq_nil_iff]
  intro t _ hen
  have := (enabled_facts hen).1
  rw [h] at this; cases this

/-- **if the enumerator of the reference lists no outcome with a race verdict, no run ends in a race** -/
theorem no_race_of_naive {p : Prog} {fuel : Nat} {l : List SC.Outcome}
    (hn : SC.outcomesNaive p fuel (SC.init p) = some l) (hl : ∀ o ∈ l, ∀ k, o.verdict ≠ .race k)
    {tr : List Step} {s : SC.St} (h : Run p tr s) (k : Nat) : s.verdict ≠ some (.race k) := by
  intro hv
  have hmem := (SC.outcomesNaive_spec p fuel _ l hn (SC.outcome s)).2 ⟨s, h.reach, no_enabled_of_verdict hv, rfl⟩
  refine hl _ hmem k ?_
  show SC.finalVerdict s = _
  unfold SC.finalVerdict; rw [hv]

end VCSound
end LoomVerif

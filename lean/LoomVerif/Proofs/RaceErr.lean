/-
Race exactness, part 11: only the race checks of `cellRead` / `cellWrite` make a stage of a fragment program panic
with a causality violation: the scheduler (`Exec.schedule`: DPOR loop, `branch_thread`, the access bookkeeping),
`post_acquire`, `release_lock`, `new_thread`, the `Notify` primitives never do.
-/
import LoomVerif.Proofs.RaceOps5
import LoomVerif.Proofs.DeadlockSched

namespace LoomVerif
namespace Race
open Refine Sy C07 C08 Clocks

/-- not a causality violation -/
def NoRace (e : Panic) : Prop := ∀ k, e ≠ .causality k

theorem sched_backtrack_nr {s : Sched} {tid : Nat} {b : Option Nat} {e : Panic}
    (h : s.backtrack tid b = .error e) : NoRace e := by
  intro k
  rcases (Sched.backtrack_error s tid b e).1 h with ⟨_, rfl⟩ | ⟨_, _, _, _, rfl⟩ <;> simp

theorem backtrackConservative_nr {p : Path} {tid fuel curr : Nat} {e : Panic}
    (h : p.backtrackConservative tid fuel curr = .error e) : NoRace e := by
  induction fuel generalizing curr with
  | zero => unfold Path.backtrackConservative at h; cases h
  | succ fuel ih =>
    unfold Path.backtrackConservative at h
    split at h
    · cases h; intro k; simp
    · split at h
      · split at h
        · cases h; intro k; simp
        · split at h
          · exact sched_backtrack_nr (Deadlock.bind_pure_error h)
          · exact ih h
      · split at h
        · exact sched_backtrack_nr (Deadlock.bind_pure_error h)
        · cases h

theorem path_backtrack_nr {p : Path} {point tid : Nat} {e : Panic}
    (h : p.backtrack point tid = .error e) : NoRace e := by
  unfold Path.backtrack at h
  split at h
  · cases h; intro k; simp
  · split at h
    · cases h
    · rename_i i s hf
      cases hbt : s.backtrack tid p.bound with
      | error e' =>
        rw [hbt] at h
        cases h
        exact sched_backtrack_nr hbt
      | ok s' =>
        rw [hbt] at h
        simp only [bind, Except.bind] at h
        split at h
        · cases h
        · split at h
          · exact backtrackConservative_nr h
          · cases h

theorem dporStep_nr {e : Exec} {p : Path} {x : Thread × Nat} {err : Panic}
    (h : Exec.dporStep e p x = .error err) : NoRace err := by
  unfold Exec.dporStep at h
  split at h
  · rename_i err' hr
    cases h
    unfold Exec.raceOf at hr
    split at hr
    · cases hr
    · split at hr
      · rename_i hl; cases hr; rw [Exec.lastDependentAccess_error hl]; intro k; simp
      · cases hr
      · split at hr <;> cases hr
  · cases h
  · exact path_backtrack_nr h

theorem foldlM_dporStep_nr {e : Exec} (l : List (Thread × Nat)) {p : Path} {err : Panic}
    (h : l.foldlM (Exec.dporStep e) p = .error err) : NoRace err := by
  induction l generalizing p with
  | nil => cases h
  | cons x xs ih =>
    simp only [List.foldlM_cons, bind, Except.bind] at h
    split at h
    · rename_i err' hq; cases h; exact dporStep_nr hq
    · exact ih h

theorem dporMarks_nr {e : Exec} {err : Panic} (h : e.dporMarks = .error err) : NoRace err := by
  rw [Exec.dporMarks_eq] at h
  exact foldlM_dporStep_nr _ h

theorem readSched_nr {p : Path} {err : Panic} (h : p.readSched = .error err) : NoRace err := by
  unfold Path.readSched at h
  split at h
  · cases h
  · cases h; intro k; simp

theorem branchThread_nr {p : Path} {seed : List ThSt} {pk : Bool} {err : Panic}
    (h : p.branchThread seed pk = .error err) : NoRace err := by
  rw [Path.branchThread_eq] at h
  split at h
  · split at h
    · split at h
      · cases h; intro k; simp
      · split at h
        · cases h; intro k; simp
        · exact readSched_nr h
    · cases h; intro k; simp
  · exact readSched_nr h

/-- **`schedule` never panics with a causality violation** -/
theorem schedule_nr {e : Exec} {pk : Bool} {err : Panic} (h : e.schedule pk = .error err) : NoRace err := by
  rw [Exec.schedule_eq] at h
  split at h
  · cases h; intro k; simp
  · split at h
    · rename_i err' hd; cases h; exact dporMarks_nr hd
    · split at h
      · rename_i err' hb; cases h; exact branchThread_nr hb
      · split at h
        · cases h
        · cases h; intro k; simp
      · split at h
        · cases h; intro k; simp
        · rcases Exec.finish_error h with rfl | rfl <;> (intro k; simp)

theorem branch_nr {w : World} {o : Nat} {a : Action} {blk wt : Bool} {e : Panic}
    (h : w.branch o a blk wt = .error e) : NoRace e := by
  unfold World.branch at h
  simp only [bind, Except.bind, pure, Except.pure] at h
  split at h
  · next err hs => cases h; exact schedule_nr hs
  · cases h

theorem threadDone_nr {w : World} {e : Panic} (h : w.threadDone = .error e) : NoRace e := by
  unfold World.threadDone at h
  simp only [bind, Except.bind, pure, Except.pure] at h
  split at h
  · next err hs => cases h; exact schedule_nr hs
  · cases h

end Race
end LoomVerif

/-
Soundness of the vector clocks of the reference semantics, part 12: WHAT THE OWN COMPONENT COUNTS.
`(s.vc u)[u]` is the number of ticking steps of thread `u` so far, plus the number of `spawn u` events (0 for the main
thread, 1 for a spawned thread: `spawn` starts the child at `1`); the own component of the clock of a ticking event `j`
of `u` is that count at `j`: event `j` is "the `k`-th tick of `u`" for `k = stamp`.
-/
import LoomVerif.Proofs.VCSoundMain

namespace LoomVerif
namespace VCSound
open Race (upd upd_self upd_ne get_zero zero_join join_zero)
open Clocks

/-- the event advances the component `u` of the clocks: a ticking step of `u`, or the `spawn` of `u` -/
def Event.advances (u : Nat) (e : Event) : Bool := (e.thr == u && e.ticks) || e.op == some (.spawn u)

/-- the number of events so far that advance component `u` -/
def advCount (evs : List Event) (u : Nat) : Nat := evs.countP (Event.advances u)

structure InvK (evs : List Event) (cl : List VV) (v : View) : Prop where
  own : ∀ u, u < 5 → (v.vc u).get u = advCount evs u
  stamp : ∀ (j : Nat) (e : Event) (c : VV), evs[j]? = some e → cl[j]? = some c → e.ticks = true →
    c.get e.thr = advCount (evs.take (j + 1)) e.thr

theorem advCount_snoc (evs : List Event) (e : Event) (u : Nat) :
    advCount (evs ++ [e]) u = advCount evs u + (if e.advances u then 1 else 0) := by
  unfold advCount
  rw [List.countP_append]
  simp [List.countP_cons]

section
variable {p : Prog} {evs : List Event} {cl : List VV} {v v' : View} {e : Event} {live : Bool}

theorem Ctx.invK (c : Ctx p evs cl v e v' live) (hK : InvK evs cl v) :
    InvK (evs ++ [e]) (cl ++ [newClock v e]) v' := by
  have hI := c.inv
  have own' : ∀ u, u < 5 → (v'.vc u).get u = advCount (evs ++ [e]) u := by
    intro u hu
    rw [advCount_snoc]
    by_cases h1 : u = e.thr
    · subst h1
      rw [c.vc_self, newClock_self hI e hu, hK.own _ hu]
      have hns : (e.op == some (.spawn e.thr)) = false := by
        cases hop : e.op == some (.spawn e.thr) with
        | false => rfl
        | true =>
          have := Event.forkOf_iff.2 (by simpa using hop)
          exact (c.fork_ne this rfl).elim
      unfold Event.advances
      rw [hns]
      cases e.ticks <;> simp
    · by_cases h2 : e.forkOf = some u
      · rw [c.vc_child h2, get_inc_self _ _ hu]
        have h0 : (newClock v e).get u = 0 := by
          have h3 := newClock_le_own hI e h1
          rw [(hI.unstarted u (c.fresh u h2)).1, get_zero] at h3
          omega
        have hz : advCount evs u = 0 := by
          have := hK.own u hu
          rw [(hI.unstarted u (c.fresh u h2)).1, get_zero] at this
          exact this.symm
        have hadv : e.advances u = true := by
          unfold Event.advances
          rw [Event.forkOf_iff.1 h2]; simp
        rw [h0, hz, hadv]; rfl
      · rw [c.vc_other h1 h2, hK.own u hu]
        have hadv : e.advances u = false := by
          unfold Event.advances
          have : (e.thr == u) = false := by simpa using fun h => h1 h.symm
          have h3 : (e.op == some (.spawn u)) = false := by
            cases hop : e.op == some (.spawn u) with
            | false => rfl
            | true => exact (h2 (Event.forkOf_iff.2 (by simpa using hop))).elim
          rw [this, h3]; rfl
        rw [hadv]; rfl
  refine ⟨own', ?_⟩
  intro j a c0 h1 h2 hta
  rcases snoc_both hI.len h1 h2 with ⟨hj, hc⟩ | ⟨hjn, rfl, rfl⟩
  · have hlt := (List.getElem?_eq_some_iff.1 hj).1
    rw [List.take_append_of_le_length (by omega)]
    exact hK.stamp j a c0 hj hc hta
  · rw [hjn, List.take_of_length_le (by simp), ← c.vc_self]
    exact own' a.thr c.sf.t5

end

theorem invK_init (p : Prog) : InvK [] [] (view (SC.init p)) := by
  refine ⟨?_, ?_⟩
  · intro u _; rw [view_init_vc, get_zero]; rfl
  · intro j e c h; simp at h

theorem Run.invK {p : Prog} {tr : List Step} {s : SC.St} (hwf : WFX p) (hlen : p.threads.length ≤ 5)
    (h : Run p tr s) : InvK (events p tr) (clocks tr) (view s) := by
  induction h with
  | nil => exact invK_init p
  | snoc hr hen hstep ih =>
    obtain ⟨hs, hI⟩ := hr.inv hwf hlen
    obtain ⟨_, _, c, hclk, _⟩ := ctx_of_step hwf hlen hs hI hen hstep
    rw [events_snoc, clocks_snoc, hclk]
    exact c.invK ih

end VCSound
end LoomVerif

/-
Deadlock soundness, FUTURES fragment, part 16: the twin-side invariant read through the relation, at a stage
boundary: blocked in `join` / in the `Notify::wait` of a `block_on` means not enabled (unless a notification is in
flight); blocked on a mutex means the holder can run; a thread about to deliver a notification, a thread that holds
a mutex is neither blocked nor terminated; not blocked past the branch point of a wait means enabled.  Executions
of `Spec/SC.lean` as paths of the enumerator's successor relation.
-/
import LoomVerif.Proofs.Deadlock3Check
import LoomVerif.Proofs.OracleSC

set_option linter.unusedSimpArgs false
set_option linter.unusedVariables false

namespace LoomVerif
namespace Deadlock3
open Refine Refine4 Deadlock Deadlock2

section
variable {w : World} {s : SC.St}

/-- a blocked thread waits on an unavailable object, at a waiting position -/
theorem blocked_waiting (hJ : JB4 w) {i : Nat} (hi : i < w.ctl.length) (hb : (w.ths.get i).state = .blocked) :
    ∃ op, (w.ths.get i).operation = some op ∧ op.blocking = true ∧ Unavail (ovW w) op.obj ∧
      wpos w.prog (w.ctlOf i) ≠ none ∧ OpAt4 w.prog w.spawned w.futs (w.ctlOf i) (some op) := by
  obtain ⟨op, h1, h2, h3⟩ := hJ.g i hb
  have h1' : (w.ths.get i).operation = some op := h1
  have hO := (hJ.thr i hi).blk hb
  rw [h1'] at hO
  refine ⟨op, h1', h2, h3, ?_, hO⟩
  intro hw
  rw [hO.nowait hw] at h2
  cases h2

/-- a thread that is blocked or terminated is at a waiting position, or at the end of its epilogue -/
theorem stuck_pos0 (hR : R4 w s) (hJ : JB4 w) {j : Nat} (hj : j < w.ctl.length)
    (hst : (w.ths.get j).state = .blocked ∨ (w.ths.get j).state = .terminated) :
    wpos w.prog (w.ctlOf j) ≠ none ∨ opOfCtl w.prog (w.ctlOf j) = none := by
  rcases hst with hb | ht
  · obtain ⟨_, _, _, _, h, _⟩ := blocked_waiting hJ hj hb
    exact .inl h
  · right
    have h99 := (hJ.thr j hj).term ht
    exact hR.x.epi j hj (by
      show (w.ctlOf j).fin ≠ 0
      omega)

/-- **a thread about to deliver a notification is neither blocked nor terminated** -/
theorem notifier_runs (hR : R4 w s) (hJ : JB4 w) {j k : Nat} (hj : j < w.ctl.length)
    (hp : pendN w.prog (w.ctlOf j) = some k) :
    (w.ths.get j).state ≠ .blocked ∧ (w.ths.get j).state ≠ .terminated := by
  constructor
  · intro hb
    rcases stuck_pos0 hR hJ hj (.inl hb) with h | h
    · exact h (wpos_of_pendN hp)
    · exact pendN_op hp h
  · intro ht
    rcases stuck_pos0 hR hJ hj (.inr ht) with h | h
    · exact h (wpos_of_pendN hp)
    · exact pendN_op hp h

/-- **the holder of a mutex is neither blocked nor terminated** -/
theorem holder_runs (hR : R4 w s) (hJ : JB4 w) {o t : Nat} (hl : (ovW w)[o]? = some (.mutex (some t))) :
    t < w.ctl.length ∧ holdsAt w.prog (w.ctlOf t) = some o ∧
    (w.ths.get t).state ≠ .blocked ∧ (w.ths.get t).state ≠ .terminated := by
  obtain ⟨htl, hh⟩ := hJ.hold o t hl
  refine ⟨htl, hh, ?_, ?_⟩
  · intro hb
    rcases stuck_pos0 hR hJ htl (.inl hb) with h | h
    · exact h (wpos_of_holds hh)
    · rw [holdsAt_none h] at hh; cases hh
  · intro ht
    rcases stuck_pos0 hR hJ htl (.inr ht) with h | h
    · exact h (wpos_of_holds hh)
    · rw [holdsAt_none h] at hh; cases hh

/-- the reference thread of a thread past the branch point of `join b` -/
theorem join_ref (hR : R4 w s) {i b : Nat} (hi : i < w.ctl.length) (hw : wpos w.prog (w.ctlOf i) = some (.join b)) :
    SC.opOf w.prog s (w.ctlOf i).body = some (.join b) ∧ Plain (s.th (w.ctlOf i).body) ∧
    (s.th (w.ctlOf i).body).started = true ∧ (s.th (w.ctlOf i).body).finished = false := by
  obtain ⟨hopc, hst⟩ := wpos_join hw
  have hah : aheadOf (opOfCtl w.prog (w.ctlOf i)) (w.ctlOf i).stage = none := by rw [hopc, hst]; rfl
  obtain ⟨_, hpc, _, _⟩ := hR.results i hi hah
  have hrel := thr4 hR hi
  obtain ⟨h1, h2⟩ := alive_of_op hR hi (by rw [hopc]; simp)
  refine ⟨?_, plain_of hrel.2.2.1, h1, h2⟩
  unfold SC.opOf; rw [hpc]; exact hopc

/-- **blocked past the branch point of `join b` means not enabled**: the joined thread has not finished -/
theorem blocked_join_disabled (hwf : WFD w.prog) (hR : R4 w s) (hJ : JB4 w) {i b : Nat} (hi : i < w.ctl.length)
    (hb : (w.ths.get i).state = .blocked) (hw : wpos w.prog (w.ctlOf i) = some (.join b)) :
    SC.enabled w.prog s (w.ctlOf i).body = false ∧ (s.th b).finished = false ∧
    (s.th (w.ctlOf i).body).started = true ∧ (s.th (w.ctlOf i).body).finished = false := by
  obtain ⟨op, h1, h2, h3, _, hO⟩ := blocked_waiting hJ hi hb
  unfold OpAt4 at hO
  rw [hw] at hO
  obtain ⟨t, n, bl, hmem, e⟩ := hO
  cases e
  obtain ⟨hopS, hpl, ha1, ha2⟩ := join_ref hR hi hw
  obtain ⟨hopc, _⟩ := wpos_join hw
  obtain ⟨ht, hbody, nt, ds, hv, _⟩ := hR.sp.sp b t n hmem
  have hv' : (ovW w)[n]? = some (.notify false nt ds) := hv
  have hnt : nt = false := by
    rcases h3 with ⟨l, hl⟩ | ⟨sp, d2, hn⟩
    · rw [hv'] at hl; cases hl
    · rw [hv'] at hn; cases hn; rfl
  subst hnt
  have hlt : (w.ctlOf t).fin < 10 := by
    apply Classical.byContradiction
    intro hge
    rcases hJ.jnd b t n hmem (by omega) with ⟨sp, d2, hv2⟩ | ⟨j, k, hj, hk, hop'⟩
    · rw [hv'] at hv2; cases hv2
    · obtain ⟨e1, e2⟩ := hwf.join_unique hop'
        (show (w.prog.threads.getD (w.ctlOf i).body [])[(w.ctlOf i).pc]? = _ from hopc)
      have := hR.x.inj j i hj hi e1
      subst this
      omega
  have hf : (s.th (w.ctlOf t).body).finished = decide (10 ≤ (w.ctlOf t).fin) := (thr4 hR ht).2.1
  have hb' : (w.ctlOf t).body = b := hbody
  rw [hb'] at hf
  have hfin : (s.th b).finished = false := by rw [hf]; simp; omega
  exact ⟨en_join hpl hopS hfin, hfin, ha1, ha2⟩

/-- **blocked in the `Notify::wait` of `blockOn f _` means not enabled, unless a notification is in flight**: the
reference thread is in phase 4, and it is enabled exactly when some thread has taken its reference step of a wake
and is about to raise the flag -/
theorem blocked_call_disabled (hwf : WFD w.prog) (hR : R4 w s) (hJ : JB4 w) {i f : Nat} (hi : i < w.ctl.length)
    (hb : (w.ths.get i).state = .blocked) (hw : wpos w.prog (w.ctlOf i) = some (.call f)) :
    (s.th (w.ctlOf i).body).phase = 4 ∧
    (SC.enabled w.prog s (w.ctlOf i).body = true ↔
      ∃ j, j < w.ctl.length ∧ pendN w.prog (w.ctlOf j) = some (w.futs.getD f {}).notify) ∧
    (s.th (w.ctlOf i).body).started = true ∧ (s.th (w.ctlOf i).body).finished = false := by
  obtain ⟨op, h1, h2, h3, _, hO⟩ := blocked_waiting hJ hi hb
  unfold OpAt4 at hO
  rw [hw] at hO
  obtain ⟨bl, e⟩ := hO
  cases e
  obtain ⟨md, hopc, hst⟩ := wpos_call hw
  obtain ⟨hph, nt, ds, hv, hiff, hdis⟩ := hR.no_lost_wakeup hwf.1 i hi hopc hst
  have hv' : (ovW w)[(w.futs.getD f {}).notify]? = some (.notify true nt ds) := hv
  have hnt : nt = false := by
    rcases h3 with ⟨l, hl⟩ | ⟨sp, d2, hn⟩
    · rw [hv'] at hl; cases hl
    · rw [hv'] at hn; cases hn; rfl
  subst hnt
  obtain ⟨ha1, ha2⟩ := alive_of_op hR hi (by rw [hopc]; simp)
  refine ⟨hph, ⟨fun hen => ?_, fun ⟨j, hj, hp⟩ => ?_⟩, ha1, ha2⟩
  · apply Classical.byContradiction
    intro hno
    have := hdis rfl (fun j hj hp => hno ⟨j, hj, hp⟩)
    rw [this] at hen
    cases hen
  · have hnot : (s.futs.getD f {}).notified = true := hiff.2 (.inr ⟨j, hj, hp⟩)
    have hah : aheadOf (opOfCtl w.prog (w.ctlOf i)) (w.ctlOf i).stage = none := by
      rw [hopc]; rcases hst with e | e <;> rw [e] <;> rfl
    obtain ⟨_, hpc, _, _⟩ := hR.results i hi hah
    have hopS : SC.opOf w.prog s (w.ctlOf i).body = some (.blockOn f md) := by
      unfold SC.opOf; rw [hpc]; exact hopc
    exact sc_enabled_op hR.verdict (plain_of (thr4 hR hi).2.2.1) ha1 ha2 hopS (hwf.1.opOk hopc) (by
      show ((s.th _).phase != 4 || _) = true
      rw [hnot]; simp)

/-- **blocked on a mutex means the holder can run** -/
theorem blocked_mutex_holder (hwf : WFD w.prog) (hR : R4 w s) (hJ : JB4 w) {i f : Nat} (hi : i < w.ctl.length)
    (hb : (w.ths.get i).state = .blocked)
    (hw : wpos w.prog (w.ctlOf i) = some (.slotM f) ∨ wpos w.prog (w.ctlOf i) = some (.awM f)) :
    ∃ o t, (ovW w)[o]? = some (.mutex (some t)) ∧ t < w.ctl.length ∧ holdsAt w.prog (w.ctlOf t) = some o ∧
      (w.ths.get t).state ≠ .blocked ∧ (w.ths.get t).state ≠ .terminated := by
  obtain ⟨op, h1, h2, h3, _, hO⟩ := blocked_waiting hJ hi hb
  obtain ⟨op', k, hop', hk⟩ := wpos_mutex hw
  have hf := opOk4_fut (hwf.1.opOk hop') hk
  obtain ⟨⟨l1, hl1⟩, ⟨l2, hl2⟩⟩ := hJ.mtx f hf
  unfold OpAt4 at hO
  have hheld : ∃ (o t : Nat), (ovW w)[o]? = some (OV4.mutex (some t)) := by
    rcases hw with hw | hw
    · rw [hw] at hO
      cases hO
      rcases h3 with ⟨t, ht⟩ | ⟨sp, d2, hn⟩
      · exact ⟨_, t, ht⟩
      · rw [hl1] at hn; cases hn
    · rw [hw] at hO
      cases hO
      rcases h3 with ⟨t, ht⟩ | ⟨sp, d2, hn⟩
      · exact ⟨_, t, ht⟩
      · rw [hl2] at hn; cases hn
  obtain ⟨o, t, ht⟩ := hheld
  obtain ⟨a, b, c, d⟩ := holder_runs hR hJ ht
  exact ⟨o, t, ht, a, b, c, d⟩

/-- **not blocked past the branch point of a wait means enabled**: a thread other than the running one that stands
past the branch point of `join b` (resp. in the second half of the `Notify::wait` of a `block_on`) and is not
blocked stands for a reference thread that is enabled: the joined thread has finished (resp. the call has been
notified) -/
theorem runnable_enabled (hwf : WFD w.prog) (hR : R4 w s) (hJ : JB4 w) {i : Nat} (hi : i < w.ctl.length)
    (hne : i ≠ w.tid) (hnb : (w.ths.get i).state ≠ .blocked)
    (hw : isNotifyPos (wpos w.prog (w.ctlOf i)) = true) : SC.enabled w.prog s (w.ctlOf i).body = true := by
  have hO := (hJ.thr i hi).opn hne
  unfold OpAt4 at hO
  cases hx : wpos w.prog (w.ctlOf i) with
  | none => rw [hx] at hw; cases hw
  | some x =>
    rw [hx] at hO
    cases x with
    | join b =>
      obtain ⟨t, n, bl, hmem, e⟩ := hO
      have hav := hJ.avail i hi hne hnb hw _ e
      obtain ⟨hopS, hpl, ha1, ha2⟩ := join_ref hR hi hx
      obtain ⟨hopc, _⟩ := wpos_join hx
      obtain ⟨ht, hbody, nt, ds, hv, hfin⟩ := hR.sp.sp b t n hmem
      have hv' : (ovW w)[n]? = some (.notify false nt ds) := hv
      have hnt : nt = true := by
        cases nt with
        | true => rfl
        | false => exact absurd (.inr ⟨false, ds, hv'⟩) hav
      have hf : (s.th (w.ctlOf t).body).finished = decide (10 ≤ (w.ctlOf t).fin) := (thr4 hR ht).2.1
      have hb' : (w.ctlOf t).body = b := hbody
      rw [hb'] at hf
      have h10 : 10 ≤ (w.ctlOf t).fin := hfin hnt
      exact sc_enabled_op hR.verdict hpl ha1 ha2 hopS (hwf.1.opOk hopc) (by
        show (s.th b).finished = true
        rw [hf]; simpa using h10)
    | call f =>
      obtain ⟨bl, e⟩ := hO
      have hav := hJ.avail i hi hne hnb hw _ e
      obtain ⟨md, hopc, hst⟩ := wpos_call hx
      obtain ⟨hph, nt, ds, hv, hiff, _⟩ := hR.no_lost_wakeup hwf.1 i hi hopc hst
      have hv' : (ovW w)[(w.futs.getD f {}).notify]? = some (.notify true nt ds) := hv
      have hnt : nt = true := by
        cases nt with
        | true => rfl
        | false => exact absurd (.inr ⟨true, ds, hv'⟩) hav
      have hnot : (s.futs.getD f {}).notified = true := hiff.2 (.inl hnt)
      obtain ⟨ha1, ha2⟩ := alive_of_op hR hi (by rw [hopc]; simp)
      have hah : aheadOf (opOfCtl w.prog (w.ctlOf i)) (w.ctlOf i).stage = none := by
        rw [hopc]; rcases hst with e | e <;> rw [e] <;> rfl
      obtain ⟨_, hpc, _, _⟩ := hR.results i hi hah
      have hopS : SC.opOf w.prog s (w.ctlOf i).body = some (.blockOn f md) := by
        unfold SC.opOf; rw [hpc]; exact hopc
      exact sc_enabled_op hR.verdict (plain_of (thr4 hR hi).2.2.1) ha1 ha2 hopS (hwf.1.opOk hopc) (by
        show ((s.th _).phase != 4 || _) = true
        rw [hnot]; simp)
    | slotM f => rw [hx] at hw; cases hw
    | awM f => rw [hx] at hw; cases hw

end

/-! ### executions of the reference semantics as paths of the enumerator's successor relation -/

theorem enabled_lt {p : Prog} {s : SC.St} {t : Nat} (h : SC.enabled p s t = true) : t < s.ths.length := by
  apply Classical.byContradiction
  intro hn
  have : s.th t = {} := by
    unfold SC.St.th
    have : s.ths[t]? = none := List.getElem?_eq_none (by omega)
    simp [List.getD, this]
  rw [en_unstarted (by rw [this])] at h
  cases h

theorem spurious_lt {p : Prog} {s s' : SC.St} {t : Nat} (h : s' ∈ SC.spurious p s t) : t < s.ths.length := by
  apply Classical.byContradiction
  intro hn
  have : s.th t = {} := by
    unfold SC.St.th
    have : s.ths[t]? = none := List.getElem?_eq_none (by omega)
    simp [List.getD, this]
  unfold SC.spurious at h
  rw [this] at h
  simp at h
  done

/-- an execution of the reference semantics is a path of `SC.succs` -/
theorem reach_of_exec {p : Prog} {a s : SC.St} (h : Refine2.SCExec2 p a s) : SC.ReachFrom p a s := by
  induction h with
  | nil => exact .refl
  | step _ hen hst ih =>
    refine .tail ih ?_
    unfold SC.succs
    refine List.mem_append_left _ (List.mem_flatMap.2 ⟨_, ?_, hst⟩)
    unfold SC.enabledThreads
    exact List.mem_filter.2 ⟨List.mem_range.2 (enabled_lt hen), hen⟩
  | spur _ hsp ih =>
    refine .tail ih ?_
    unfold SC.succs
    exact List.mem_append_right _ (List.mem_flatMap.2 ⟨_, List.mem_range.2 (spurious_lt hsp), hsp⟩)

/-- a deadlocked state is a terminal state of the enumerator whose outcome is "deadlock" -/
theorem dead_outcome {p : Prog} {s : SC.St} (h : Dead4 p s) :
    SC.enabledThreads p s = [] ∧ (SC.outcome s).verdict = .deadlock := by
  refine ⟨?_, h.finalVerdict⟩
  unfold SC.enabledThreads
  rw [List.filter_eq_nil_iff]
  intro t _
  rw [h.2.1 t]
  simp

/-- **when the reference enumerator finds no deadlock, no execution of the reference semantics ends in a
deadlocked state** -/
theorem no_dead_of_outcomes {p : Prog} {fuel : Nat} {l : List SC.Outcome}
    (hl : SC.outcomesNaive p fuel (SC.init p) = some l) (hno : (l.all fun o => o.verdict != .deadlock) = true) :
    ¬ ∃ s, Refine2.SCExec2 p (SC.init p) s ∧ Dead4 p s := by
  rintro ⟨s, hex, hd⟩
  obtain ⟨h1, h2⟩ := dead_outcome hd
  have hm : SC.outcome s ∈ l := (SC.outcomesNaive_spec p fuel _ l hl _).2 ⟨s, reach_of_exec hex, h1, rfl⟩
  rw [List.all_eq_true] at hno
  have := hno _ hm
  rw [h2] at this
  simp at this

end Deadlock3
end LoomVerif

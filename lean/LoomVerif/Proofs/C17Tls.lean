/-
C17, thread-locals: `World.tlsGet` (`LocalKey::try_with`), `World.dropLocals`
(`Thread::drop_locals`) and the `.tls` / `.tlsTry` / `.tlsNest` cases of `World.runOp`.
-/
import LoomVerif.Proofs.WorldBasics
import LoomVerif.Proofs.InterpMaxTh

namespace LoomVerif
namespace C17
open World

/-! ### plumbing -/

theorem ctlOf_modCtl (w : World) (t t' : Nat) (f : TCtl → TCtl) :
    (w.modCtl t f).ctlOf t' = if t = t' ∧ t' < w.ctl.length then f (w.ctlOf t') else w.ctlOf t' := by
  simp only [World.modCtl, World.ctlOf, List.getD_eq_getElem?_getD, List.getElem?_modify]
  by_cases ht : t' < w.ctl.length
  · by_cases e : t = t' <;> simp [ht, e]
  · simp [ht]

theorem ctlOf_modCtl_self (w : World) (t : Nat) (f : TCtl → TCtl) (ht : t < w.ctl.length) :
    (w.modCtl t f).ctlOf t = f (w.ctlOf t) := by
  rw [ctlOf_modCtl, if_pos ⟨rfl, ht⟩]

theorem ctlOf_modCtl_ne (w : World) (t t' : Nat) (f : TCtl → TCtl) (h : t' ≠ t) :
    (w.modCtl t f).ctlOf t' = w.ctlOf t' := by
  rw [ctlOf_modCtl, if_neg (fun e => h e.1.symm)]

theorem length_modCtl (w : World) (t : Nat) (f : TCtl → TCtl) :
    (w.modCtl t f).ctl.length = w.ctl.length := by
  simp [World.modCtl]

/-! ### `tlsGet` -/

/-- first access by this thread: the key's counter is bumped, the id names the owning thread -/
theorem tlsGet_fresh {w : World} {k : Nat} (h : (w.ctlOf w.tid).locals.lookup k = none) :
    w.tlsGet k =
      (({ w with tlsInits := w.tlsInits.set k (w.tlsInits.getD k 0 + 1) } : World).modCtl w.tid
          (fun c => { c with locals := (k, some (w.tid * 10 + 1)) :: c.locals }),
        some (w.tid * 10 + 1)) := by
  unfold World.tlsGet
  simp only [h]

theorem tlsGet_live {w : World} {k id : Nat}
    (h : (w.ctlOf w.tid).locals.lookup k = some (some id)) : w.tlsGet k = (w, some id) := by
  unfold World.tlsGet
  simp only [h]

theorem tlsGet_destroyed {w : World} {k : Nat}
    (h : (w.ctlOf w.tid).locals.lookup k = some none) : w.tlsGet k = (w, none) := by
  unfold World.tlsGet
  simp only [h]

theorem tlsGet_tid (w : World) (k : Nat) : (w.tlsGet k).1.tid = w.tid := by
  show (w.tlsGet k).1.exec.threads.activeId = _
  rw [tlsGet_exec]; rfl

theorem tlsGet_ctl_length (w : World) (k : Nat) : (w.tlsGet k).1.ctl.length = w.ctl.length := by
  unfold World.tlsGet
  dsimp only
  split
  · rfl
  · rfl
  · exact length_modCtl _ _ _

/-- `tlsGet` writes only the active thread's control record -/
theorem tlsGet_other (w : World) (k t' : Nat) (h : t' ≠ w.tid) :
    (w.tlsGet k).1.ctlOf t' = w.ctlOf t' := by
  unfold World.tlsGet
  dsimp only
  split
  · rfl
  · rfl
  · exact ctlOf_modCtl_ne _ _ _ _ h

/-- the result of `tlsGet` depends only on the active thread's id and its `locals` -/
theorem tlsGet_reads (w w2 : World) (k : Nat)
    (hl : (w2.ctlOf w2.tid).locals = (w.ctlOf w.tid).locals)
    (hi : w2.tid = w.tid) : (w2.tlsGet k).2 = (w.tlsGet k).2 := by
  rcases hq : (w.ctlOf w.tid).locals.lookup k with _ | _ | id
  · rw [tlsGet_fresh hq, tlsGet_fresh (by rw [hl]; exact hq), hi]
  · rw [tlsGet_destroyed hq, tlsGet_destroyed (by rw [hl]; exact hq)]
  · rw [tlsGet_live hq, tlsGet_live (by rw [hl]; exact hq)]

theorem getD_set_self {l : List Nat} {i : Nat} (a d : Nat) (h : i < l.length) :
    (l.set i a).getD i d = a := by
  simp [List.getD, List.getElem?_set, h]

theorem getD_set_ne {l : List Nat} {i j : Nat} (a d : Nat) (h : i ≠ j) :
    (l.set i a).getD j d = l.getD j d := by
  simp [List.getD, List.getElem?_set, h]

/-- an initialising access bumps the key's counter by one -/
theorem tlsGet_fresh_counter {w : World} {k : Nat} (h : (w.ctlOf w.tid).locals.lookup k = none)
    (hk : k < w.tlsInits.length) :
    (w.tlsGet k).1.tlsInits.getD k 0 = w.tlsInits.getD k 0 + 1 := by
  rw [tlsGet_fresh h]
  exact getD_set_self _ _ hk

/-- the entry an initialising access records -/
theorem tlsGet_fresh_entry {w : World} {k : Nat} (h : (w.ctlOf w.tid).locals.lookup k = none)
    (ht : w.tid < w.ctl.length) :
    ((w.tlsGet k).1.ctlOf w.tid).locals = (k, some (w.tid * 10 + 1)) :: (w.ctlOf w.tid).locals := by
  rw [tlsGet_fresh h]
  exact congrArg TCtl.locals
    (ctlOf_modCtl_self ({ w with tlsInits := w.tlsInits.set k (w.tlsInits.getD k 0 + 1) } : World)
      w.tid _ ht)

/-- the counters never decrease -/
theorem tlsGet_counter_mono (w : World) (k k' : Nat) :
    w.tlsInits.getD k' 0 ≤ (w.tlsGet k).1.tlsInits.getD k' 0 := by
  unfold World.tlsGet
  dsimp only
  split
  · exact Nat.le_refl _
  · exact Nat.le_refl _
  · show _ ≤ (w.tlsInits.set k _).getD k' 0
    by_cases e : k = k'
    · subst e
      by_cases hk : k < w.tlsInits.length
      · rw [getD_set_self _ _ hk]; omega
      · rw [List.set_eq_of_length_le (by omega)]; exact Nat.le_refl _
    · rw [getD_set_ne _ _ e]; exact Nat.le_refl _

/-- `tlsGet` leaves the drop counters and the destructors' observations alone -/
theorem tlsGet_tlsDrops (w : World) (k : Nat) : (w.tlsGet k).1.tlsDrops = w.tlsDrops := by
  unfold World.tlsGet
  dsimp only
  split <;> rfl

/-- after `tlsGet k` returned an id, the key is live with that id -/
theorem tlsGet_some_live {w w1 : World} {k id : Nat} (ht : w.tid < w.ctl.length)
    (h : w.tlsGet k = (w1, some id)) : (w1.ctlOf w.tid).locals.lookup k = some (some id) := by
  rcases hq : (w.ctlOf w.tid).locals.lookup k with _ | _ | id'
  · have e := tlsGet_fresh_entry hq ht
    rw [h] at e
    rw [tlsGet_fresh hq] at h
    cases h
    rw [e]; simp [List.lookup]
  · rw [tlsGet_destroyed hq] at h; cases h
  · rw [tlsGet_live hq] at h; cases h; exact hq

/-- `tlsGet k` never destroys or re-initialises another key of the active thread -/
theorem tlsGet_keeps_lookup (w : World) (k j : Nat) (v : Option Nat)
    (h : (w.ctlOf w.tid).locals.lookup j = some v) :
    ((w.tlsGet k).1.ctlOf w.tid).locals.lookup j = some v := by
  rcases hq : (w.ctlOf w.tid).locals.lookup k with _ | _ | id'
  · rw [tlsGet_fresh hq]
    dsimp only
    rw [ctlOf_modCtl]
    split
    · have hjk : (j == k) = false := by
        cases e : j == k
        · rfl
        · rw [beq_iff_eq] at e; subst e; rw [hq] at h; cases h
      show List.lookup j ((k, _) :: _) = _
      simp only [List.lookup, hjk]
      exact h
    · exact h
  · rw [tlsGet_destroyed hq]; exact h
  · rw [tlsGet_live hq]; exact h

/-! ### `runOp` on the thread-local operations -/

theorem runOp_tls_of {w w1 : World} (c : TCtl) {k id : Nat} (h : w.tlsGet k = (w1, some id)) :
    w.runOp c (.tls k) = .ok (w1.complete (.val id)) := by
  simp only [World.runOp, h]; rfl

theorem runOp_tls_none {w w1 : World} (c : TCtl) {k : Nat} (h : w.tlsGet k = (w1, none)) :
    w.runOp c (.tls k) = .error .tlsDestroyed := by
  simp only [World.runOp, h]; rfl

theorem runOp_tlsTry_of {w w1 : World} (c : TCtl) {k id : Nat} (h : w.tlsGet k = (w1, some id)) :
    w.runOp c (.tlsTry k) = .ok (w1.complete (.val id)) := by
  simp only [World.runOp, h]; rfl

theorem runOp_tlsTry_none {w w1 : World} (c : TCtl) {k : Nat} (h : w.tlsGet k = (w1, none)) :
    w.runOp c (.tlsTry k) = .ok (w1.complete .accessError) := by
  simp only [World.runOp, h]; rfl

theorem runOp_tlsNest_of {w w1 w2 : World} (c : TCtl) {k j idk idj : Nat}
    (h1 : w.tlsGet k = (w1, some idk)) (h2 : w1.tlsGet j = (w2, some idj)) :
    w.runOp c (.tlsNest k j) = .ok (w2.complete (.val idj)) := by
  simp only [World.runOp, h1, h2]; rfl

theorem runOp_tlsNest_outer_none {w w1 : World} (c : TCtl) {k j : Nat}
    (h1 : w.tlsGet k = (w1, none)) : w.runOp c (.tlsNest k j) = .error .tlsDestroyed := by
  simp only [World.runOp, h1]; rfl

theorem runOp_tlsNest_inner_none {w w1 w2 : World} (c : TCtl) {k j idk : Nat}
    (h1 : w.tlsGet k = (w1, some idk)) (h2 : w1.tlsGet j = (w2, none)) :
    w.runOp c (.tlsNest k j) = .error .tlsDestroyed := by
  simp only [World.runOp, h1, h2]; rfl

/-- a key that is not destroyed yields an id -/
theorem tlsGet_not_destroyed {w : World} {k : Nat}
    (h : (w.ctlOf w.tid).locals.lookup k ≠ some none) : ∃ id, (w.tlsGet k).2 = some id := by
  rcases hq : (w.ctlOf w.tid).locals.lookup k with _ | _ | id'
  · rw [tlsGet_fresh hq]; exact ⟨_, rfl⟩
  · exact absurd hq h
  · rw [tlsGet_live hq]; exact ⟨_, rfl⟩

/-! ### `dropLocals` -/

/-- the keys that are live in the active thread, in the order in which it initialised them
(`locals` is consed: the reverse) -/
def liveKeys (w : World) : List Nat :=
  (w.ctlOf w.tid).locals.reverse.filterMap fun (k, v) => v.map fun _ => k

theorem mem_liveKeys (w : World) (k : Nat) :
    k ∈ liveKeys w ↔ ∃ id, (k, some id) ∈ (w.ctlOf w.tid).locals := by
  unfold liveKeys
  simp only [List.mem_filterMap, List.mem_reverse, Prod.exists, Option.map_eq_some_iff]
  constructor
  · rintro ⟨a, b, hm, id, rfl, rfl⟩
    exact ⟨id, hm⟩
  · rintro ⟨id, hm⟩
    exact ⟨k, some id, hm, id, rfl, rfl⟩

theorem filterMap_live_sublist (l : List (Nat × Option Nat)) :
    (l.filterMap fun (k, v) => v.map fun _ => k).Sublist (l.map (·.1)) := by
  induction l with
  | nil => exact List.Sublist.slnil
  | cons x xs ih =>
    obtain ⟨a, b⟩ := x
    cases b with
    | none => simpa [List.filterMap_cons] using ih.cons a
    | some id => simpa [List.filterMap_cons] using ih.cons₂ a

/-- when the thread's entries have pairwise different keys, no key is listed twice -/
theorem liveKeys_nodup (w : World) (h : ((w.ctlOf w.tid).locals.map (·.1)).Nodup) :
    (liveKeys w).Nodup := by
  unfold liveKeys
  refine List.Nodup.sublist (filterMap_live_sublist _) ?_
  rw [List.map_reverse]
  exact List.pairwise_reverse.2 (List.Pairwise.imp (fun hab => Ne.symm hab) h)

/-- the drop counter of key `k` goes up by one -/
def bump (d : List Nat) (k : Nat) : List Nat := d.set k (d.getD k 0 + 1)

/-- the world after `drop_locals` proper, before the destructors' effects: every entry of the
active thread is destroyed, the drop counter of each live key went up by one -/
def afterDrops (w : World) : World :=
  { w.modCtl w.tid (fun c => { c with locals := c.locals.map fun (k, _) => (k, none) }) with
    tlsDrops := (liveKeys w).foldl bump w.tlsDrops }

/-- the destructor of key 0 under `tlsdtor=2`: `try_with` on key 1 (destroyed → observation bit 2;
never initialised by this thread → initialised on the spot, observation bit 1); the observations of an
execution are or-ed -/
def dtor2Probe (t : Nat) (w : World) : World :=
  match (w.ctlOf t).locals.lookup 1 with
  | some _ => { w with tlsObs := w.tlsObs.set 0 (w.tlsObs.getD 0 0 ||| 2) }
  | none => { (w.tlsGet 1).1 with tlsObs := (w.tlsGet 1).1.tlsObs.set 0 ((w.tlsGet 1).1.tlsObs.getD 0 0 ||| 1) }

theorem foldl_drops (l : List Nat) (w : World) :
    l.foldl (fun w k => { w with tlsDrops := w.tlsDrops.set k (w.tlsDrops.getD k 0 + 1) }) w =
      { w with tlsDrops := l.foldl bump w.tlsDrops } := by
  induction l generalizing w with
  | nil => rfl
  | cons a l ih => rw [List.foldl_cons, ih]; rfl

theorem dropLocals_eq (w : World) :
    w.dropLocals =
      match w.cfg.tlsDtor with
      | 1 => (afterDrops w).modCtl w.tid fun c => { c with dtorQueue := liveKeys w }
      | 2 => if (liveKeys w).contains 0 then dtor2Probe w.tid (afterDrops w) else afterDrops w
      | _ => afterDrops w := by
  unfold World.dropLocals
  dsimp only
  rw [foldl_drops]
  rfl

theorem dropLocals_tid (w : World) : w.dropLocals.tid = w.tid := by
  show w.dropLocals.exec.threads.activeId = _
  rw [dropLocals_exec]; rfl

/-- with `tlsdtor=0` (and any value other than 1, 2) `drop_locals` does nothing else -/
theorem dropLocals_plain {w : World} (h1 : w.cfg.tlsDtor ≠ 1) (h2 : w.cfg.tlsDtor ≠ 2) :
    w.dropLocals = afterDrops w := by
  rw [dropLocals_eq]
  split
  · next e => exact absurd e h1
  · next e => exact absurd e h2
  · rfl

theorem lookup_destroyed (l : List (Nat × Option Nat)) (k : Nat) :
    (l.map fun (k, _) => (k, (none : Option Nat))).lookup k = (l.lookup k).map fun _ => none := by
  induction l with
  | nil => rfl
  | cons x xs ih =>
    obtain ⟨a, b⟩ := x
    simp only [List.map_cons, List.lookup]
    split
    · rfl
    · exact ih

theorem afterDrops_locals (w : World) (ht : w.tid < w.ctl.length) :
    ((afterDrops w).ctlOf w.tid).locals = (w.ctlOf w.tid).locals.map fun (k, _) => (k, none) :=
  congrArg TCtl.locals (ctlOf_modCtl_self w w.tid _ ht)

theorem afterDrops_other (w : World) (t' : Nat) (h : t' ≠ w.tid) :
    (afterDrops w).ctlOf t' = w.ctlOf t' := ctlOf_modCtl_ne w w.tid t' _ h

/-- what `dtor2Probe` preserves: the drop counters, the other threads' records and the destroyed
entries of the active thread -/
theorem dtor2Probe_drops (t : Nat) (w : World) : (dtor2Probe t w).tlsDrops = w.tlsDrops := by
  unfold dtor2Probe
  split
  · rfl
  · exact tlsGet_tlsDrops _ _

theorem dtor2Probe_other (w : World) (t' : Nat) (h : t' ≠ w.tid) :
    (dtor2Probe w.tid w).ctlOf t' = w.ctlOf t' := by
  unfold dtor2Probe
  split
  · rfl
  · exact tlsGet_other _ _ _ h

theorem dtor2Probe_lookup (w : World) (j : Nat) (v : Option Nat)
    (h : (w.ctlOf w.tid).locals.lookup j = some v) :
    ((dtor2Probe w.tid w).ctlOf w.tid).locals.lookup j = some v := by
  unfold dtor2Probe
  split
  · exact h
  · exact tlsGet_keeps_lookup _ _ _ _ h

/-- after `drop_locals`, whatever the destructors do: a key the thread had (live or destroyed) is
destroyed; the other threads' records are untouched; the drop counters are those of `afterDrops` -/
theorem dropLocals_facts (w : World) (ht : w.tid < w.ctl.length) :
    (∀ j v, (w.ctlOf w.tid).locals.lookup j = some v →
      (w.dropLocals.ctlOf w.tid).locals.lookup j = some none) ∧
    (∀ t', t' ≠ w.tid → w.dropLocals.ctlOf t' = w.ctlOf t') ∧
    w.dropLocals.tlsDrops = (liveKeys w).foldl bump w.tlsDrops := by
  have base : (∀ j v, (w.ctlOf w.tid).locals.lookup j = some v →
      ((afterDrops w).ctlOf w.tid).locals.lookup j = some none) := by
    intro j v hv
    rw [afterDrops_locals w ht, lookup_destroyed, hv]; rfl
  rw [dropLocals_eq]
  split
  · refine ⟨?_, ?_, rfl⟩
    · intro j v hv
      have := base j v hv
      rw [ctlOf_modCtl]
      split <;> exact this
    · intro t' h'
      rw [ctlOf_modCtl_ne _ _ _ _ h']; exact afterDrops_other w t' h'
  · split
    · have htid : (afterDrops w).tid = w.tid := rfl
      refine ⟨?_, ?_, ?_⟩
      · intro j v hv
        have := dtor2Probe_lookup (afterDrops w) j none (base j v hv)
        rw [htid] at this; exact this
      · intro t' h'
        have := dtor2Probe_other (afterDrops w) t' h'
        rw [htid] at this; rw [this]; exact afterDrops_other w t' h'
      · rw [dtor2Probe_drops]; rfl
    · exact ⟨base, fun t' h' => afterDrops_other w t' h', rfl⟩
  · exact ⟨base, fun t' h' => afterDrops_other w t' h', rfl⟩

theorem length_bump (d : List Nat) (k : Nat) : (bump d k).length = d.length := by
  simp [bump]

theorem getD_bump (d : List Nat) (a k : Nat) (hk : k < d.length) :
    (bump d a).getD k 0 = d.getD k 0 + if a = k then 1 else 0 := by
  unfold bump
  by_cases e : a = k
  · subst e; rw [getD_set_self _ _ hk]; simp
  · rw [getD_set_ne _ _ e]; simp [e]

/-- the loop over the live keys adds to each counter the number of times its key is listed -/
theorem bump_count (l : List Nat) (d : List Nat) (k : Nat) (hk : k < d.length) :
    (l.foldl bump d).getD k 0 = d.getD k 0 + l.count k := by
  induction l generalizing d with
  | nil => simp
  | cons a l ih =>
    rw [List.foldl_cons, ih _ (by rw [length_bump]; exact hk), getD_bump _ _ _ hk,
      List.count_cons]
    by_cases e : a = k <;> simp [e] <;> omega

theorem count_of_nodup (l : List Nat) (h : l.Nodup) (k : Nat) :
    l.count k = if k ∈ l then 1 else 0 := by
  induction l with
  | nil => simp
  | cons a l ih =>
    have ⟨ha, hl⟩ := List.nodup_cons.1 h
    rw [List.count_cons, ih hl]
    by_cases e : a = k
    · subst e; simp [ha]
    · have e' : ¬ k = a := fun x => e x.symm
      simp [e, e']

/-- the keys of the active thread's entries stay pairwise different -/
theorem tlsGet_keys_nodup (w : World) (k : Nat) (ht : w.tid < w.ctl.length)
    (h : ((w.ctlOf w.tid).locals.map (·.1)).Nodup) :
    (((w.tlsGet k).1.ctlOf w.tid).locals.map (·.1)).Nodup := by
  rcases hq : (w.ctlOf w.tid).locals.lookup k with _ | _ | id'
  · rw [tlsGet_fresh_entry hq ht]
    simp only [List.map_cons, List.nodup_cons]
    refine ⟨?_, h⟩
    intro hm
    obtain ⟨x, hx, rfl⟩ := List.mem_map.1 hm
    have : (w.ctlOf w.tid).locals.lookup x.1 ≠ none := by
      generalize (w.ctlOf w.tid).locals = l at hx
      induction l with
      | nil => cases hx
      | cons y ys ih =>
        simp only [List.lookup]
        split
        · simp
        · next hne =>
          rcases List.mem_cons.1 hx with rfl | hin
          · simp at hne
          · exact ih hin
    exact this hq
  · rw [tlsGet_destroyed hq]; exact h
  · rw [tlsGet_live hq]; exact h

end C17
end LoomVerif

/-
Race exactness on the WAIT fragment, part 8: a completing stage in which only the active thread's clocks change
(`complete_core2`), and the stages of `cellRead`, `cellWrite`, `lock`, `tryLock`, `unlock`, `ifEq`.
-/
import LoomVerif.Proofs.Race2Core

namespace LoomVerif
namespace Race2
open Refine Refine2 Sy C07 C08 Clocks Race

section
variable {w w' : World} {s : SC.St}

/-- the active thread is at an operation: its epilogue has not begun -/
theorem fin0 (hRC : RC2 w s) (hact : w.tid < w.ctl.length) {op : Op} (hop : opAt2 w = some op) : fin w w.tid = 0 :=
  fin_zero2 hRC.r.c hact hop

theorem pend_none_of_op2 {op : Op} (hop : opAt2 w = some op) (hj : ∀ b, op ≠ .join b) : pend w w.tid = none := by
  apply pend_notJoin
  intro b hb
  rw [opAtI_tid2, hop] at hb
  exact hj b (by cases hb; rfl)

/-- **the active thread completes an operation; the clocks of the other threads are kept** -/
theorem complete_core2 (hRC : RC2 w s) (hact : w.tid < w.ctl.length) {op : Op} (hop : opAt2 w = some op)
    {σT σT' : CS} {mT mT' : Nat → List VV} (hLT : LinkT2 w σT mT)
    (w1 : World) (r : Ret) (hw' : w' = w1.complete r)
    (hc1 : w1.ctl = w.ctl) (hp1 : w1.prog = w.prog) (hs1 : w1.spawned = w.spawned) (ht1 : w1.tid = w.tid)
    (hn : nthr w1 = nthr w) (hlen : w1.exec.objs.length = w.exec.objs.length)
    (hoth : ∀ i, i ≠ w.tid → SameThr w w1 i ∧ topo w1 i = topo w i)
    (hrelT : trel w1 w.tid = trel w w.tid) (htopoT : topo w1 w.tid = topo w w.tid)
    (hucT : tuc w1 w.tid = tuc w w.tid) (htokT : ttok w1 w.tid = ttok w w.tid)
    (hle : (tcaus w w.tid).le (tcaus w1 w.tid))
    (hthr : ∀ i, i ≠ w.tid → σT'.thr i = σT.thr i) (hσt : σT'.thr w.tid = tcaus w1 w.tid)
    (hslot : ∀ m, (σT.mtx m).le (σT'.mtx m))
    (hkI : ∀ b, σT'.mtx (kI w.prog b) = σT.mtx (kI w.prog b))
    (hj : ∀ n, pend w w.tid = some n → ∀ b j, (b, j, n) ∈ w.spawned → 10 ≤ fin w j)
    (hjh : ∀ b j n, (b, j, n) ∈ w.spawned → objHb w1.exec.objs n = objHb w.exec.objs n)
    (hmtx : ∀ m, m < w.prog.cfg.nMutexes →
      (SameObj w.exec.objs w1.exec.objs (w.mutexObj m) ∧ σT'.mtx m = σT.mtx m) ∨
        σT'.mtx m = objHb w1.exec.objs (w.mutexObj m))
    (hntf : ∀ n, n < w.prog.cfg.nNotifies →
      (SameObj w.exec.objs w1.exec.objs (w.notifyObj n) ∧ σT'.mtx (nI w.prog n) = σT.mtx (nI w.prog n)) ∨
        σT'.mtx (nI w.prog n) = objHb w1.exec.objs (w.notifyObj n))
    (hchn : ∀ q, q < w.prog.cfg.nChans →
      (SameObj w.exec.objs w1.exec.objs (w.chanObj q) ∧ σT'.mtx (cI w.prog q) = σT.mtx (cI w.prog q) ∧
          mT' q = mT q) ∨
        (σT'.mtx (cI w.prog q) = objSs w1.exec.objs (w.chanObj q) ∧ mT' q = objRs w1.exec.objs (w.chanObj q) ∧
          chanShape w1.exec.objs (w.chanObj q)))
    (hcell : ∀ c, c < w.prog.cfg.nCells →
      (SameObj w.exec.objs w1.exec.objs (w.cellObj c) ∧ ∀ k, σT'.acc k c = σT.acc k c) ∨
        ((∀ k, σT'.acc k c = objAcc w1.exec.objs k (w.cellObj c)) ∧ cellIdle w1.exec.objs (w.cellObj c))) :
    TwinInv w' ∧ TwinInv2 w' ∧ LinkT2 w' σT' mT' := by
  subst hw'
  have ht := nthr_tid2 hRC hact
  have hf0 := fin0 hRC hact hop
  obtain ⟨hT, hO⟩ := unpack hRC.inv hRC.inv2 hLT
  have hTt := hT w.tid ht
  have hctl : ∀ i, (w1.complete r).ctlOf i = if i = w.tid then completeF r (w.ctlOf w.tid) else w.ctlOf i :=
    fun i => complete_ctlOf w w1 r i ht1 hc1 hact
  -- the readers of the thread table do not see `complete`
  have hfinT : fin (w1.complete r) w.tid = 0 := by
    unfold fin; rw [hctl, if_pos rfl]; exact hf0
  have hstage : ((w1.complete r).ctlOf w.tid).stage = 0 := by rw [hctl, if_pos rfl]; rfl
  have hbodyT : body (w1.complete r) w.tid = body w w.tid := by unfold body; rw [hctl, if_pos rfl]; rfl
  have hpend' : pend (w1.complete r) w.tid = none := pend_stage0 (by rw [hstage]; decide)
  refine assemble (w' := w1.complete r) hRC hLT hp1 hs1 hn (by rw [← hlen]; exact Nat.le_refl _) ?_ hbodyT
    (by intro h; rw [hf0] at h; omega) ?_ ?_ hslot ?_ hmtx hntf hchn hcell ?_ (fun b _ => hkI b)
  · intro i hi; rw [hctl, if_neg hi]
  · -- the active thread
    refine ThrInv.exact ?_ ?_ ?_ hσt ?_ ?_
    · show trel w1 w.tid = _; rw [hrelT]; exact hTt.rel
    · intro o ho
      have ho' : topo w w.tid = some o := by rw [← htopoT]; exact ho
      show o < w1.exec.objs.length
      rw [hlen]; exact hTt.ob o ho'
    · intro b j n ho hm hij
      have ho' : topo w w.tid = some n := by rw [← htopoT]; exact ho
      have hm' : (b, j, n) ∈ w.spawned := by rw [← hs1]; exact hm
      right
      have h10 : 10 ≤ fin w j := by
        rcases hTt.jo b j n ho' hm' hij with h | h
        · exact hj n h b j hm'
        · exact h
      unfold fin at h10 ⊢
      rw [hctl, if_neg (Ne.symm hij)]; exact h10
    · intro _
      have hk := hTt.tok (by rw [hf0]; omega)
      show (tuc w1 w.tid).le (σT'.mtx (kI w1.prog (body (w1.complete r) w.tid))) ∧
        (σT'.mtx (kI w1.prog (body (w1.complete r) w.tid))).le ((tcaus w1 w.tid).join (tuc w1 w.tid))
      rw [hp1, hbodyT, hkI, hucT]
      exact ⟨hk.1, le_trans hk.2 (join_mono hle (le_refl _))⟩
    · intro _ htk
      show tuc w1 w.tid = _
      rw [hucT]
      exact hTt.tokz (by rw [hf0]; omega) (by rw [← htokT]; exact htk)
  · intro i _ e
    exact .inl ⟨⟨(hoth i e).1.caus, (hoth i e).1.rel, (hoth i e).1.uc, (hoth i e).1.tok⟩, (hoth i e).2, hthr i e,
      fun _ => hkI _⟩
  · intro b j n hm
    show (objHb w.exec.objs n).le (objHb w1.exec.objs n)
    rw [hjh b j n hm]; exact le_refl _
  · refine nhb_frame (w' := w1.complete r) hO hjh ?_ ?_
    · intro j
      by_cases e : j = w.tid
      · subst e; rw [hfinT, hf0]
      · unfold fin; rw [hctl, if_neg e]
    · intro j h10
      have e : j ≠ w.tid := by intro e; subst e; rw [hf0] at h10; omega
      exact (hoth j e).1.caus

/-- `RealOut2` for a completing stage of an operation other than `nWait` -/
theorem realOut_complete {op : Op} (hRC : RC2 w s) (hact : w.tid < w.ctl.length) (hop : opAt2 w = some op)
    (hnw : ∀ n, op ≠ .nWait n) (w1 : World) (r : Ret) (hp1 : w1.prog = w.prog) (he1 : w1.events = w.events)
    {s' : SC.St} (hstep : SC.step w.prog s (body w w.tid) = [s']) (hnew : NewSt w (w1.complete r) s') :
    RealOut2 w s (w1.complete r) :=
  ⟨hp1, fun _ => complete_not_stutter w1 r he1, no_spur hRC hact hop hnw, s', hstep, hnew⟩

/-- the control table after `complete` -/
theorem complete_bodies (w1 : World) (r : Ret) (ht1 : w1.tid = w.tid) (hc1 : w1.ctl = w.ctl)
    (hact : w.tid < w.ctl.length) :
    (w1.complete r).ctl.length = w.ctl.length ∧ ∀ i, body (w1.complete r) i = body w i := by
  obtain ⟨_, _, _, c4, c5⟩ := complete_real w w1 r ht1 hc1 hact
  exact ⟨c4, c5⟩

/-- the clock systems and side clocks re-indexed along `complete` -/
theorem newSt_complete {s' : SC.St} (hact : w.tid < w.ctl.length) (w1 : World) (r : Ret)
    (ht1 : w1.tid = w.tid) (hc1 : w1.ctl = w.ctl)
    (hv : s'.verdict = none) (hnd : ∀ q, s'.rxDropped.getD q false = false)
    (hI : TwinInv (w1.complete r) ∧ TwinInv2 (w1.complete r))
    {σT' σR' : CS} {mT' mR' : Nat → List VV}
    (h1 : LinkT2 (w1.complete r) σT' mT') (h2 : LinkR2 w.prog s' σR' mR') (h3 : Good σT') (h4 : Good σR')
    (h5 : XInv w.ctl.length (body w) σT' σR')
    (h6 : ∀ q, q < w.prog.cfg.nChans → All2 (SideX w.ctl.length (body w) σT' σR') (mT' q) (mR' q))
    (h7 : ∀ q Z, q < w.prog.cfg.nChans → Z ∈ mT' q → SideGood σT' Z)
    (h8 : ∀ q Z, q < w.prog.cfg.nChans → Z ∈ mR' q → SideGood σR' Z) : NewSt w (w1.complete r) s' := by
  obtain ⟨c4, c5⟩ := complete_bodies (w := w) w1 r ht1 hc1 hact
  refine ⟨hv, hnd, hI.1, hI.2, σT', σR', mT', mR', h1, h2, h3, h4, ?_, ?_, h7, h8⟩
  · rw [c4]; exact XInv.congr2 h5 (fun i _ => c5 i)
  · intro q hq
    rw [c4]
    exact (h6 q hq).imp fun _ _ hh => hh.congr (fun i _ => c5 i)

end

end Race2
end LoomVerif

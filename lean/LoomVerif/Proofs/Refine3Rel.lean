/-
Refinement, RESOURCE fragment, part 2: what the abstraction relation sees of the resource objects (`AV`: the count
of an `rt::Arc`, the `is_dropped` flag of an allocation, the message count of a channel), the scheduler does not
change it, and the control part `RX3` of the relation (that of `Refine.RX`, with the stage bound 2 for
`arcUnwrap`).
-/
import LoomVerif.Proofs.Refine3Data
import LoomVerif.Proofs.RefineTwin
import LoomVerif.Proofs.DepSC

namespace LoomVerif
namespace Refine3
open Refine Sy

/-! ### tables -/

theorem lookup_bind {β} (l : List (Nat × β)) (k k' : Nat) (v : β) :
    (SCData3.bind l k v).lookup k' = if k' = k then some v else l.lookup k' := by
  unfold SCData3.bind
  by_cases e : k' = k
  · subst e; simp [List.lookup]
  · have : (k' == k) = false := by simpa using e
    simp only [List.lookup, this, if_neg e]
    exact SC.lookup_filter_ne k' k l e

theorem lookup_unbind {β} (l : List (Nat × β)) (k k' : Nat) :
    (SCData3.unbind l k).lookup k' = if k' = k then none else l.lookup k' := by
  unfold SCData3.unbind
  by_cases e : k' = k
  · subst e
    rw [if_pos rfl, List.lookup_eq_none_iff]
    intro p hp
    simp only [List.mem_filter, bne_iff_ne, ne_eq] at hp
    simpa using fun e => hp.2 e.symm
  · rw [if_neg e]
    exact SC.lookup_filter_ne k' k l e

theorem lookup_cons {β} (l : List (Nat × β)) (k k' : Nat) (v : β) :
    ((k, v) :: l).lookup k' = if k' = k then some v else l.lookup k' := by
  by_cases e : k' = k
  · subst e; simp [List.lookup]
  · have : (k' == k) = false := by simpa using e
    simp only [List.lookup, this, if_neg e]

/-- the keys of a table built with `bind` are distinct -/
theorem nodup_bind {β} (l : List (Nat × β)) (k : Nat) (v : β) (h : (l.map (·.1)).Nodup) :
    ((SCData3.bind l k v).map (·.1)).Nodup := by
  unfold SCData3.bind
  rw [List.map_cons, List.nodup_cons]
  constructor
  · intro hm
    rw [List.mem_map] at hm
    obtain ⟨x, hx, e⟩ := hm
    simp only [List.mem_filter, bne_iff_ne, ne_eq] at hx
    exact hx.2 e
  · exact (List.filter_sublist.map _).nodup h

theorem lookup_of_mem_nodup {β} {l : List (Nat × β)} {k : Nat} {v : β} (hn : (l.map (·.1)).Nodup)
    (hm : (k, v) ∈ l) : l.lookup k = some v := by
  induction l with
  | nil => cases hm
  | cons x xs ih =>
    obtain ⟨a, b⟩ := x
    rw [List.map_cons, List.nodup_cons] at hn
    rw [lookup_cons]
    rcases List.mem_cons.1 hm with e | hm'
    · cases e; simp
    · have : k ≠ a := by
        intro e
        subst e
        exact hn.1 (List.mem_map.2 ⟨(k, v), hm', rfl⟩)
      rw [if_neg this]
      exact ih hn.2 hm'

theorem mem_of_lookup {β} {l : List (Nat × β)} {k : Nat} {v : β} (h : l.lookup k = some v) : (k, v) ∈ l := by
  induction l with
  | nil => cases h
  | cons x xs ih =>
    obtain ⟨a, b⟩ := x
    rw [lookup_cons] at h
    split at h
    · next e => cases h; subst e; exact List.mem_cons_self
    · exact List.mem_cons_of_mem _ (ih h)

/-! ### what the relation sees of a resource object -/

inductive AV
  | arc (n : Nat)
  | alloc (dropped : Bool)
  | chan (n : Nat)
  | other
deriving DecidableEq, Repr

def aview : Obj → AV
  | .arc s => .arc s.refCnt
  | .alloc s => .alloc s.isDropped
  | .chan s => .chan s.msgCnt
  | _ => .other

/-- the resource view of object `n` of the store (`other` beyond its end) -/
def av (os : List Obj) (n : Nat) : AV :=
  match os[n]? with
  | some x => aview x
  | none => .other

/-- the two stores have the same resource objects, with the same counts / flags -/
def AEq (os os' : List Obj) : Prop := ∀ n, av os' n = av os n

theorem AEq.refl (os : List Obj) : AEq os os := fun _ => rfl
theorem AEq.trans {a b c : List Obj} (h1 : AEq a b) (h2 : AEq b c) : AEq a c := fun n => (h2 n).trans (h1 n)

theorem av_lt {os : List Obj} {n : Nat} (h : av os n ≠ .other) : n < os.length := by
  apply Classical.byContradiction
  intro hn
  apply h
  unfold av
  rw [List.getElem?_eq_none (by omega)]

theorem av_of {os : List Obj} {n : Nat} {x : Obj} (h : os[n]? = some x) : av os n = aview x := by
  unfold av; rw [h]

theorem av_set (os : List Obj) (o n : Nat) (x : Obj) (ho : o < os.length) :
    av (os.set o x) n = if n = o then aview x else av os n := by
  unfold av
  by_cases e : n = o
  · subst e; simp [ho]
  · have : ¬ o = n := fun e' => e e'.symm
    simp [this, e]

theorem av_append (os : List Obj) (x : Obj) (n : Nat) :
    av (os ++ [x]) n = if n = os.length then aview x else av os n := by
  unfold av
  by_cases e : n = os.length
  · subst e; simp
  · rw [if_neg e]
    by_cases hl : n < os.length
    · rw [List.getElem?_append_left hl]
    · rw [List.getElem?_eq_none (by simp; omega), List.getElem?_eq_none (by omega)]

/-- replacing an object by one with the same resource view -/
theorem AEq.set {os : List Obj} {o : Nat} {x x' : Obj} (h : os[o]? = some x) (hv : aview x' = aview x) :
    AEq os (os.set o x') := by
  intro n
  have ho : o < os.length := (List.getElem?_eq_some_iff.1 h).1
  rw [av_set _ _ _ _ ho]
  split
  · next e => subst e; rw [hv, av_of h]
  · rfl

/-- a new object that is no resource -/
theorem AEq.append (os : List Obj) {x : Obj} (hv : aview x = .other) : AEq os (os ++ [x]) := by
  intro n
  rw [av_append]
  split
  · next e => subst e; rw [hv]; unfold av; rw [List.getElem?_eq_none (Nat.le_refl _)]
  · rfl

theorem arc_setLastAccess_aview (s : ArcSt) (act : Action) (pid : Nat) (v : VV) :
    aview (.arc (s.setLastAccess act pid v)) = aview (.arc s) := by
  unfold ArcSt.setLastAccess
  split <;> rfl

theorem chan_setLastAccess_aview (s : ChanSt) (act : Action) (pid : Nat) (v : VV) :
    aview (.chan (s.setLastAccess act pid v)) = aview (.chan s) := by
  unfold ChanSt.setLastAccess
  split <;> rfl

theorem setLastAccess_aeq {os os' : Objs} {op : Operation} {pid : Nat} {d : VV}
    (h : os.setLastAccess op pid d = .ok os') : AEq os os' := by
  unfold Objs.setLastAccess at h
  split at h
  all_goals first
    | (cases h; done)
    | (cases h
       refine AEq.set ‹_› ?_
       first
         | rfl
         | exact arc_setLastAccess_aview _ _ _ _
         | exact chan_setLastAccess_aview _ _ _ _)

theorem schedule_aeq {e e' : Exec} {b : Bool} {p : Bool} (h : e.schedule p = .ok (e', b)) :
    AEq e.objs e'.objs := by
  unfold Exec.schedule at h
  simp only [bind, Except.bind, pure, Except.pure] at h
  repeat' split at h
  all_goals first
    | (cases h; done)
    | (cases h; exact AEq.refl _)
    | (cases h; exact setLastAccess_aeq ‹_›)

/-- the resource tables of the twin -/
def frame (w : World) : List (Nat × HandleSt) × List ArcInfo × List (Nat × Nat) × List (Nat × Nat) :=
  (w.handles, w.arcs, w.tracks, w.rawAllocs)

/-- a step that changes nothing the relation reads, except (possibly) the control table -/
structure Quiet3 (w w' : World) : Prop where
  q : Quiet w w'
  aeq : AEq w.exec.objs w'.exec.objs
  frame : frame w' = frame w

theorem Quiet3.refl (w : World) : Quiet3 w w := ⟨Quiet.refl w, AEq.refl _, rfl⟩

theorem branch_quiet3 {w w' : World} {o : Nat} {a : Action} {blk wt : Bool}
    (h : w.branch o a blk wt = .ok w') : Quiet3 w w' ∧ w'.ctl = w.ctl := by
  obtain ⟨hq, hc⟩ := branch_quiet h
  unfold World.branch at h
  simp only [bind, Except.bind, pure, Except.pure] at h
  split at h
  · cases h
  · next v hv =>
    cases h
    have ha := @schedule_aeq _ v.1 v.2 _ hv
    exact ⟨⟨hq, ha, rfl⟩, hc⟩

theorem threadDone_quiet3 {w w' : World} (h : w.threadDone = .ok w') : Quiet3 w w' ∧ w'.ctl = w.ctl := by
  obtain ⟨hq, hc⟩ := threadDone_quiet h
  unfold World.threadDone at h
  simp only [bind, Except.bind, pure, Except.pure] at h
  split at h
  · cases h
  · next v hv =>
    cases h
    have ha := @schedule_aeq _ v.1 v.2 _ hv
    exact ⟨⟨hq, ha, rfl⟩, hc⟩

theorem quiet3_setStage {w w' : World} {n : Nat} (h : Quiet3 (w.setStage n) w') : Quiet3 w w' :=
  ⟨⟨h.q.prog, h.q.spawned, h.q.events, h.q.len, h.q.view⟩, h.aeq, h.frame⟩

theorem quiet3_modCtl (w : World) (t : Nat) (f : TCtl → TCtl) : Quiet3 w (w.modCtl t f) :=
  ⟨⟨rfl, rfl, rfl, rfl, ViewLe.refl _⟩, AEq.refl _, rfl⟩

/-! ### the control part of the relation -/

/-- the operation a control record is at -/
def opOfCtl (p : Prog) (c : TCtl) : Option Op := (p.threads.getD c.body [])[c.pc]?

/-- the last stage of an operation -/
def maxStage : Option Op → Nat
  | some (.arcUnwrap _) => 2
  | _ => 1

theorem one_le_maxStage (o : Option Op) : 1 ≤ maxStage o := by
  unfold maxStage
  split <;> omega

/-- twin control record `c` of a thread ↔ data `h` of the body it runs: started; same pc and recorded results;
finished ↔ the epilogue has passed its notification (`fin ≥ 10`).  A thread that is mid-operation
(`stage ≠ 0`) has not yet taken its reference step -/
def ThRel3 (p : Prog) (c : TCtl) (h : DTh) : Prop :=
  h.started = true ∧ h.pc = c.pc ∧ h.rets = c.results ∧ h.finished = decide (10 ≤ c.fin) ∧
    c.stage ≤ maxStage (opOfCtl p c) ∧ c.locals = [] ∧ c.dtorQueue = []

structure RX3 (p : Prog) (ctl : List TCtl) (ths : List DTh) : Prop where
  len : ths.length = p.threads.length
  main : 0 < ctl.length ∧ (ctl.getD 0 {}).body = 0
  thr : ∀ i, i < ctl.length →
    (ctl.getD i {}).body < p.threads.length ∧ ThRel3 p (ctl.getD i {}) (ths.getD (ctl.getD i {}).body {})
  epi : ∀ i, i < ctl.length → (ctl.getD i {}).fin ≠ 0 → opOfCtl p (ctl.getD i {}) = none
  inj : ∀ i j, i < ctl.length → j < ctl.length → (ctl.getD i {}).body = (ctl.getD j {}).body → i = j
  idle : ∀ b, b < p.threads.length → (∀ i, i < ctl.length → (ctl.getD i {}).body ≠ b) → ths.getD b {} = {}
  past : ∀ i, 0 < i → i < ctl.length → ∃ j k, j < ctl.length ∧ k < (ctl.getD j {}).pc ∧
    (p.threads.getD (ctl.getD j {}).body [])[k]? = some (.spawn (ctl.getD i {}).body)

theorem RX3.modify {p : Prog} {ctl : List TCtl} {ths : List DTh} (h : RX3 p ctl ths) {t : Nat}
    (ht : t < ctl.length) (f : TCtl → TCtl) (g : DTh → DTh)
    (hbody : (f (ctl.getD t {})).body = (ctl.getD t {}).body)
    (hpc : (ctl.getD t {}).pc ≤ (f (ctl.getD t {})).pc)
    (hrel : ThRel3 p (f (ctl.getD t {})) (g (ths.getD (ctl.getD t {}).body {})))
    (hepi : (f (ctl.getD t {})).fin ≠ 0 → opOfCtl p (f (ctl.getD t {})) = none) :
    RX3 p (ctl.modify t f) (ths.modify (ctl.getD t {}).body g) := by
  have hlen : (ctl.modify t f).length = ctl.length := by simp
  have hbl : (ctl.getD t {}).body < ths.length := by rw [h.len]; exact (h.thr t ht).1
  have body_eq : ∀ i, ((ctl.modify t f).getD i {}).body = (ctl.getD i {}).body := by
    intro i
    by_cases hi : i = t
    · subst hi; rw [getD_modify_self _ _ _ _ ht]; exact hbody
    · rw [getD_modify_ne _ _ _ _ _ hi]
  have pc_le : ∀ i, (ctl.getD i {}).pc ≤ ((ctl.modify t f).getD i {}).pc := by
    intro i
    by_cases hi : i = t
    · subst hi; rw [getD_modify_self _ _ _ _ ht]; exact hpc
    · rw [getD_modify_ne _ _ _ _ _ hi]; exact Nat.le_refl _
  refine ⟨by simpa using h.len, ⟨by rw [hlen]; exact h.main.1, by rw [body_eq]; exact h.main.2⟩, ?_, ?_, ?_, ?_, ?_⟩
  · intro i hi
    rw [hlen] at hi
    rw [body_eq]
    refine ⟨(h.thr i hi).1, ?_⟩
    by_cases hit : i = t
    · subst hit
      rw [getD_modify_self _ _ _ _ ht, getD_modify_self _ _ _ _ hbl]
      exact hrel
    · have hne : (ctl.getD i {}).body ≠ (ctl.getD t {}).body := fun e => hit (h.inj i t hi ht e)
      rw [getD_modify_ne _ _ _ _ _ hit, getD_modify_ne _ _ _ _ _ hne]
      exact (h.thr i hi).2
  · intro i hi
    rw [hlen] at hi
    by_cases hit : i = t
    · subst hit
      rw [getD_modify_self _ _ _ _ ht]
      exact hepi
    · rw [getD_modify_ne _ _ _ _ _ hit]
      exact h.epi i hi
  · intro i j hi hj
    rw [hlen] at hi hj
    rw [body_eq, body_eq]
    exact h.inj i j hi hj
  · intro b hb hidle
    have hidle' : ∀ i, i < ctl.length → (ctl.getD i {}).body ≠ b := by
      intro i hi
      have := hidle i (by rw [hlen]; exact hi)
      rw [body_eq] at this; exact this
    have hne : b ≠ (ctl.getD t {}).body := fun e => hidle' t ht e.symm
    rw [getD_modify_ne _ _ _ _ _ hne]
    exact h.idle b hb hidle'
  · intro i hi0 hi
    rw [hlen] at hi
    obtain ⟨j, k, hj, hk, hop⟩ := h.past i hi0 hi
    refine ⟨j, k, by rw [hlen]; exact hj, Nat.lt_of_lt_of_le hk (pc_le j), ?_⟩
    rw [body_eq, body_eq]; exact hop

theorem RX3.stutter {p : Prog} {ctl : List TCtl} {ths : List DTh} (h : RX3 p ctl ths) {t : Nat}
    (ht : t < ctl.length) (f : TCtl → TCtl)
    (hbody : (f (ctl.getD t {})).body = (ctl.getD t {}).body)
    (hpc : (ctl.getD t {}).pc ≤ (f (ctl.getD t {})).pc)
    (hrel : ThRel3 p (f (ctl.getD t {})) (ths.getD (ctl.getD t {}).body {}))
    (hepi : (f (ctl.getD t {})).fin ≠ 0 → opOfCtl p (f (ctl.getD t {})) = none) :
    RX3 p (ctl.modify t f) ths := by
  have := h.modify ht f id hbody hpc hrel hepi
  rwa [modify_id' _ _ id (fun _ => rfl)] at this

/-- `spawn b`: a new twin thread running body `b`, which no thread ran before -/
theorem RX3.append {p : Prog} {ctl : List TCtl} {ths : List DTh} (h : RX3 p ctl ths) {b : Nat}
    (_hb0 : 0 < b) (hb : b < p.threads.length)
    (hidle : ∀ i, i < ctl.length → (ctl.getD i {}).body ≠ b)
    (hpast : ∃ j k, j < ctl.length ∧ k < (ctl.getD j {}).pc ∧
      (p.threads.getD (ctl.getD j {}).body [])[k]? = some (.spawn b)) :
    RX3 p (ctl ++ [({ body := b } : TCtl)]) (ths.modify b fun h => { h with started := true }) := by
  have hlen : (ctl ++ [({ body := b } : TCtl)]).length = ctl.length + 1 := by simp
  have old : ∀ i, i < ctl.length → (ctl ++ [({ body := b } : TCtl)]).getD i {} = ctl.getD i {} :=
    fun i hi => getD_append_left _ _ _ _ hi
  have new : (ctl ++ [({ body := b } : TCtl)]).getD ctl.length {} = { body := b } := getD_append_new _ _ _
  have hbl : b < ths.length := by rw [h.len]; exact hb
  refine ⟨by simpa using h.len, ⟨by omega, by rw [old 0 h.main.1]; exact h.main.2⟩, ?_, ?_, ?_, ?_, ?_⟩
  · intro i hi
    rw [hlen] at hi
    by_cases hin : i < ctl.length
    · rw [old i hin]
      refine ⟨(h.thr i hin).1, ?_⟩
      rw [getD_modify_ne _ _ _ _ _ (hidle i hin)]
      exact (h.thr i hin).2
    · have : i = ctl.length := by omega
      subst this
      rw [new]
      refine ⟨hb, ?_⟩
      rw [getD_modify_self _ _ _ _ hbl, h.idle b hb hidle]
      exact ⟨rfl, rfl, rfl, rfl, Nat.zero_le _, rfl, rfl⟩
  · intro i hi
    rw [hlen] at hi
    by_cases hin : i < ctl.length
    · rw [old i hin]; exact h.epi i hin
    · have : i = ctl.length := by omega
      subst this
      rw [new]
      intro hne; exact absurd rfl hne
  · intro i j hi hj
    rw [hlen] at hi hj
    by_cases hin : i < ctl.length <;> by_cases hjn : j < ctl.length
    · rw [old i hin, old j hjn]; exact h.inj i j hin hjn
    · have : j = ctl.length := by omega
      subst this
      rw [old i hin, new]; intro e; exact absurd e (hidle i hin)
    · have : i = ctl.length := by omega
      subst this
      rw [old j hjn, new]; intro e; exact absurd e.symm (hidle j hjn)
    · omega
  · intro b' hb' hidle'
    have hne : b' ≠ b := by
      intro e
      have := hidle' ctl.length (by omega)
      rw [new] at this; exact this e.symm
    rw [getD_modify_ne _ _ _ _ _ hne]
    apply h.idle b' hb'
    intro i hi
    have := hidle' i (by omega)
    rwa [old i hi] at this
  · intro i hi0 hi
    rw [hlen] at hi
    by_cases hin : i < ctl.length
    · obtain ⟨j, k, hj, hk, hop⟩ := h.past i hi0 hin
      refine ⟨j, k, by omega, ?_, ?_⟩
      · rw [old j hj]; exact hk
      · rw [old j hj, old i hin]; exact hop
    · have : i = ctl.length := by omega
      subst this
      obtain ⟨j, k, hj, hk, hop⟩ := hpast
      refine ⟨j, k, by omega, ?_, ?_⟩
      · rw [old j hj]; exact hk
      · rw [old j hj, new]; exact hop

theorem RX3.spawn_fresh {p : Prog} {ctl : List TCtl} {ths : List DTh} (h : RX3 p ctl ths) (hwf : WF3 p)
    {t b : Nat} (ht : t < ctl.length)
    (hop : opOfCtl p (ctl.getD t {}) = some (.spawn b)) :
    0 < b ∧ b < p.threads.length ∧ ∀ i, i < ctl.length → (ctl.getD i {}).body ≠ b := by
  have hok := hwf.opOk hop
  simp only [opOk3, opOk, isArcOp, isTrkOp, Bool.or_false, Bool.and_eq_true, decide_eq_true_eq] at hok
  refine ⟨hok.1, hok.2, ?_⟩
  intro i hi e
  by_cases hi0 : i = 0
  · subst hi0
    rw [h.main.2] at e
    omega
  · obtain ⟨j, k, hj, hk, hop'⟩ := h.past i (by omega) hi
    rw [e] at hop'
    obtain ⟨e1, e2⟩ := hwf.spawn_unique hop hop'
    have := h.inj t j ht hj e1
    subst this
    omega

end Refine3
end LoomVerif

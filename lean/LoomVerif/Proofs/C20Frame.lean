/-
C20, frame facts: the helpers of `Model/Interp.lean` used by the future protocol (`block_on`,
the waker slot, `AtomicWaker`) change neither the control table `ctl` nor the futures' table `futs`
— they work on the execution (`exec`) and on the `Arc` bookkeeping (`arcs`) only.  The stage
functions write `ctl` through `setStage` / `modCtl` / `complete` and `futs` through `modFut`, and
nowhere else; events are recorded by `complete` only.
-/
import LoomVerif.Proofs.InterpMaxTh

set_option linter.unusedSimpArgs false
set_option linter.unusedVariables false

namespace LoomVerif
namespace C20

/-- `w'` has the control table, the futures' table and the recorded events of `w` -/
def CF (w w' : World) : Prop := w'.ctl = w.ctl ∧ w'.futs = w.futs ∧ w'.events = w.events

theorem CF.refl (w : World) : CF w w := ⟨rfl, rfl, rfl⟩
theorem CF.trans {a b c : World} (h1 : CF a b) (h2 : CF b c) : CF a c :=
  ⟨h2.1.trans h1.1, h2.2.1.trans h1.2.1, h2.2.2.trans h1.2.2⟩

macro "cf_simp" : tactic => `(tactic|
  simp_all [CF, World.setObj, World.setObjs, World.setThs, World.setPath, World.forOthers,
    World.sync, World.modArc, World.fenceAcq, World.fenceRel, World.pushObj])

macro "cf_auto0" h:ident : tactic => `(tactic|
  (mt_split $h
   all_goals first
     | (cases $h:ident; done)
     | (cases $h:ident; exact ⟨rfl, rfl, rfl⟩)
     | ((try cases $h:ident); cf_simp; done)))

theorem branch_cf {w w' : World} {o : Nat} {a : Action} {b wt : Bool}
    (h : w.branch o a b wt = .ok w') : CF w w' := by
  unfold World.branch at h; cf_auto0 h

theorem yieldNow_cf {w w' : World} (h : w.yieldNow = .ok w') : CF w w' := by
  unfold World.yieldNow at h; cf_auto0 h

theorem primEffect_cf {w : World} {x : Nat} {p : Prim} {r : World × Ret}
    (h : w.primEffect x p = .ok r) : CF w r.1 := by
  unfold World.primEffect at h; cf_auto0 h

theorem postAcquire_cf {w : World} {o : Nat} {r : World × Bool}
    (h : w.postAcquire o = .ok r) : CF w r.1 := by
  unfold World.postAcquire at h; cf_auto0 h

theorem releaseLock_cf {w w' : World} {o : Nat} (h : w.releaseLock o = .ok w') : CF w w' := by
  unfold World.releaseLock at h; cf_auto0 h

theorem notifyEffect_cf {w w' : World} {o : Nat} (h : w.notifyEffect o = .ok w') : CF w w' := by
  unfold World.notifyEffect at h; cf_auto0 h

theorem notifyWait2_cf {w w' : World} {o : Nat} (h : w.notifyWait2 o = .ok w') : CF w w' := by
  unfold World.notifyWait2 at h; cf_auto0 h

theorem refDecEffect_cf {w : World} {o : Nat} {r : World × Bool}
    (h : w.refDecEffect o = .ok r) : CF w r.1 := by
  unfold World.refDecEffect at h; cf_auto0 h

theorem afterDec_cf {w w' : World} {a : Nat} {l : Bool} (h : w.afterDec a l = .ok w') :
    CF w w' := by
  unfold World.afterDec at h; cf_auto0 h

theorem wakerClone_cf {w w' : World} {a : Nat} (h : w.wakerClone a = .ok w') : CF w w' := by
  unfold World.wakerClone at h; cf_auto0 h

theorem notifyWait1_cf {w : World} {o : Nat} {r : World × Nat}
    (h : w.notifyWait1 o = .ok r) : CF w r.1 := by
  unfold World.notifyWait1 at h
  mt_split h
  all_goals first
    | (cases h; done)
    | (have := yieldNow_cf ‹World.yieldNow _ = Except.ok _›; cases h; cf_simp; done)
    | (have := branch_cf ‹World.branch _ _ _ _ _ = Except.ok _›; cases h; cf_simp; done)

theorem wakerDrop_cf {w w' : World} {a : Nat} (h : w.wakerDrop a = .ok w') : CF w w' := by
  unfold World.wakerDrop at h
  mt_split h
  · cases h
  · have h1 := refDecEffect_cf ‹World.refDecEffect _ _ = Except.ok _›
    exact h1.trans (afterDec_cf h)

end C20
end LoomVerif

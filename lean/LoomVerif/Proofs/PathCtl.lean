/-
Helpers for property C19 (exploration controls and limits) about the model of `path.rs`:
non-exploring entries are frozen, the `explore_state`/`critical`/`skip_branch` decision table,
`step` ignores non-exploring entries, exactness of the branch limit.
-/
import LoomVerif.Proofs.PathExample
import LoomVerif.Model.Threads

namespace LoomVerif

/-! ### non-exploring entries have no alternative -/

namespace Entry

theorem advance_of_not_exploring {e : Entry} (h : e.exploring = false) : e.advance = none := by
  cases e with
  | sched s => have h : s.exploring = false := h; simp [advance, h]
  | load l => have h : l.exploring = false := h; simp [advance, h]
  | spur p => have h : p.exploring = false := h; simp [advance, h]

theorem alt_of_not_exploring {e : Entry} (h : e.exploring = false) : e.alt = 0 := by
  cases e with
  | sched s => have h : s.exploring = false := h; simp [alt, h]
  | load l => have h : l.exploring = false := h; simp [alt, h]
  | spur p => have h : p.exploring = false := h; simp [alt, h]

end Entry

namespace Sched

/-- `Schedule::backtrack` asserts `exploring` -/
theorem backtrack_exploring {s s' : Sched} {tid : Nat} {b : Option Nat}
    (h : s.backtrack tid b = .ok s') : s.exploring = true := by
  unfold backtrack at h
  split at h
  · cases h
  · rename_i hx; simpa using hx

end Sched

namespace Path

/-! ### `backtrack` leaves non-exploring entries alone -/

/-- `p'` has the same length as `p` and every non-exploring entry of `p` is literally
unchanged in `p'` -/
structure Frozen (p p' : Path) : Prop where
  len : p'.branches.length = p.branches.length
  same : ∀ i (h : i < p.branches.length), p.branches[i].exploring = false →
    p'.branches[i]? = some p.branches[i]

theorem Frozen.refl (p : Path) : Frozen p p := ⟨rfl, fun i h _ => by simp [h]⟩

theorem Frozen.trans {p q r : Path} (h1 : Frozen p q) (h2 : Frozen q r) : Frozen p r where
  len := h2.len.trans h1.len
  same i h hx := by
    have hq := h1.same i h hx
    have hi : i < q.branches.length := by rw [h1.len]; exact h
    rw [List.getElem?_eq_getElem hi] at hq
    have hq' : q.branches[i] = p.branches[i] := Option.some.inj hq
    have := h2.same i hi (by rw [hq']; exact hx)
    rw [this, hq']

theorem Frozen.of_setSched {p : Path} {i tid : Nat} {s s' : Sched} (h : p.schedAt i = some s)
    (hb : s.backtrack tid p.bound = .ok s') : Frozen p (p.setSched i s') where
  len := setSched_length _ _ _
  same j hj hx := by
    obtain ⟨hi, hpi⟩ := List.getElem?_eq_some_iff.1 (schedAt_eq_some h)
    have hne : i ≠ j := by
      rintro rfl
      rw [hpi] at hx
      have := Sched.backtrack_exploring hb
      simp [Entry.exploring, this] at hx
    simp [setSched, hne, hj]

theorem backtrackConservative_frozen {p p' : Path} {tid fuel curr : Nat}
    (h : p.backtrackConservative tid fuel curr = .ok p') : Frozen p p' := by
  induction fuel generalizing curr with
  | zero => unfold backtrackConservative at h; cases h; exact Frozen.refl p
  | succ fuel ih =>
    unfold backtrackConservative at h
    split at h
    · cases h
    · rename_i cs hcs
      have setCase : ∀ {p' : Path},
          (do let cs' ← cs.backtrack tid p.bound; pure (p.setSched curr cs')) = Except.ok p' →
          Frozen p p' := by
        intro p' h
        cases hb : cs.backtrack tid p.bound with
        | error e => rw [hb] at h; cases h
        | ok cs' => rw [hb] at h; cases h; exact Frozen.of_setSched hcs hb
      split at h
      · split at h
        · cases h
        · split at h
          · exact setCase h
          · exact ih h
      · split at h
        · exact setCase h
        · cases h; exact Frozen.refl p

theorem backtrack_frozen {p p' : Path} {point tid : Nat} (h : p.backtrack point tid = .ok p') :
    Frozen p p' := by
  unfold backtrack at h
  split at h
  · cases h
  · split at h
    · cases h; exact Frozen.refl p
    · rename_i i s hf
      have hs := findExploringSched_some hf
      cases hb : s.backtrack tid p.bound with
      | error e => rw [hb] at h; cases h
      | ok s' =>
        rw [hb] at h
        have f1 := Frozen.of_setSched hs hb
        simp only [bind, Except.bind] at h
        split at h
        · cases h; exact f1
        · split at h
          · exact f1.trans (backtrackConservative_frozen h)
          · cases h; exact f1

/-! ### entries on the stack survive every API call when they are not exploring -/

/-- `q` extends `p`, and every non-exploring entry of `p` is literally unchanged in `q` -/
structure Keeps (p q : Path) : Prop where
  len : p.branches.length ≤ q.branches.length
  same : ∀ i (h : i < p.branches.length), p.branches[i].exploring = false →
    q.branches[i]? = some p.branches[i]

theorem Keeps.refl (p : Path) : Keeps p p := ⟨Nat.le_refl _, fun i h _ => by simp [h]⟩

theorem Keeps.trans {p q r : Path} (h1 : Keeps p q) (h2 : Keeps q r) : Keeps p r where
  len := Nat.le_trans h1.len h2.len
  same i h hx := by
    have hq := h1.same i h hx
    have hi : i < q.branches.length := by have := h1.len; omega
    rw [List.getElem?_eq_getElem hi] at hq
    have hq' : q.branches[i] = p.branches[i] := Option.some.inj hq
    have := h2.same i hi (by rw [hq']; exact hx)
    rw [this, hq']

theorem Keeps.of_append {p q : Path} (ext : List Entry) (hb : q.branches = p.branches ++ ext) :
    Keeps p q where
  len := by simp [hb]
  same i h _ := by simp [hb, List.getElem?_append_left h, h]

theorem Frozen.keeps {p q : Path} (h : Frozen p q) : Keeps p q := ⟨Nat.le_of_eq h.len.symm, h.same⟩

theorem Call.keeps {pk : Bool} {p p' : Path} (h : Call pk p p') : Keeps p p' := by
  cases h with
  | branchThread seed r h =>
    rcases branchThread_ok h with rfl | ⟨_, _, _, rfl⟩
    · exact Keeps.of_append [] (by simp)
    · exact Keeps.of_append [_] rfl
  | pushLoad seed h =>
    obtain ⟨_, _, rfl⟩ := pushLoad_ok h
    exact Keeps.of_append [_] rfl
  | branchLoad v h => exact Keeps.of_append [] (by simp [(branchLoad_frame h).2])
  | branchSpurious b h =>
    rcases branchSpurious_ok h with rfl | ⟨_, rfl⟩
    · exact Keeps.of_append [] (by simp)
    · exact Keeps.of_append [_] rfl
  | backtrack point tid h => exact (backtrack_frozen h).keeps
  | exploreState h => exact Keeps.of_append [] (by simp [(exploreState_frame h).2])
  | critical h => exact Keeps.of_append [] (by simp [(critical_frame h).2])
  | skipBranch => exact Keeps.of_append [] (by rw [List.append_nil]; rfl)

theorem Iter.keeps {np : Bool} {p q : Path} (h : Iter np p q) : Keeps p q := by
  induction h with
  | refl p => exact Keeps.refl p
  | call pk _ hc _ ih => exact hc.keeps.trans ih

/-! ### `step` never advances a non-exploring entry -/

/-- the entry `step` advances is exploring; every entry that survives and is not exploring is
literally unchanged (and lies strictly above the advanced entry) -/
theorem step_keeps {q p' : Path} (h : q.step = some p') :
    ∃ (m : Nat) (hm : m < q.branches.length), q.branches[m].exploring = true ∧
      p'.branches.length = m + 1 ∧
      (∀ i (hi : i < m), p'.branches[i]? = some (q.branches[i]'(by omega))) ∧
      (∀ i (hi : i < q.branches.length), i < p'.branches.length →
        q.branches[i].exploring = false → i < m ∧ p'.branches[i]? = some q.branches[i]) := by
  obtain ⟨m, hm, e', ha, _, rfl⟩ := (step_eq_some_idx q p').1 h
  have hx := Entry.advance_exploring ha
  have hlen : (q.restart (q.branches.take m ++ [e'])).branches.length = m + 1 := by
    simp [restart]; omega
  have hpre : ∀ i (hi : i < m),
      (q.restart (q.branches.take m ++ [e'])).branches[i]? = some (q.branches[i]'(by omega)) := by
    intro i hi
    have : i < (q.branches.take m).length := by simp; omega
    simp only [restart]
    rw [List.getElem?_append_left this, List.getElem?_take_of_lt hi]
    simp [show i < q.branches.length by omega]
  refine ⟨m, hm, hx, hlen, hpre, ?_⟩
  intro i hi hi' hnx
  rw [hlen] at hi'
  have hne : i ≠ m := by rintro rfl; rw [hx] at hnx; cases hnx
  have hlt : i < m := by omega
  exact ⟨hlt, hpre i hlt⟩

/-! ### the decision table of `explore_state` / `critical` / `skip_branch` -/

theorem exploreState_table (p : Path) :
    p.exploreState =
      if p.skipping then .ok p
      else if p.exploring then .error .notCritical
      else .ok { p with exploring := true } := by
  unfold exploreState; cases p.skipping <;> cases p.exploring <;> rfl

theorem critical_table (p : Path) :
    p.critical =
      if p.skipping then .ok p
      else if p.exploring then .ok { p with exploring := false }
      else .error .notExploring := by
  unfold critical; cases p.skipping <;> cases p.exploring <;> rfl

/-- the two control calls as one function -/
inductive Ctl | explore | critical
deriving DecidableEq, Repr

def ctl (p : Path) : Ctl → Except Panic Path
  | .explore => p.exploreState
  | .critical => p.critical

/-- a sequence of control calls -/
def ctls (p : Path) : List Ctl → Except Panic Path
  | [] => .ok p
  | c :: cs => match p.ctl c with
    | .ok p' => p'.ctls cs
    | .error e => .error e

theorem ctl_of_skipping {p : Path} (h : p.skipping = true) (c : Ctl) : p.ctl c = .ok p := by
  cases c <;> simp [ctl, exploreState, critical, h]

theorem ctls_of_skipping {p : Path} (h : p.skipping = true) (cs : List Ctl) :
    p.ctls cs = .ok p := by
  induction cs with
  | nil => rfl
  | cons c cs ih => simp [ctls, ctl_of_skipping h, ih]

/-- API calls never leave the skipping state, and in it `exploring` stays `false` -/
theorem Call.skipping {pk : Bool} {p p' : Path} (h : Call pk p p')
    (hs : p.skipping = true ∧ p.exploring = false) :
    p'.skipping = true ∧ p'.exploring = false := by
  cases h with
  | branchThread seed r h =>
    rcases branchThread_ok h with rfl | ⟨_, _, _, rfl⟩ <;> exact hs
  | pushLoad seed h => obtain ⟨_, _, rfl⟩ := pushLoad_ok h; exact hs
  | branchLoad v h =>
    unfold Path.branchLoad at h
    split at h
    · cases h
    · split at h
      · cases h; exact hs
      · cases h
  | branchSpurious b h =>
    rcases branchSpurious_ok h with rfl | ⟨_, rfl⟩ <;> exact hs
  | backtrack point tid h =>
    have key : ∀ {p p' : Path} {tid fuel curr : Nat},
        p.backtrackConservative tid fuel curr = .ok p' →
        p'.skipping = p.skipping ∧ p'.exploring = p.exploring := by
      intro p p' tid fuel curr h
      induction fuel generalizing curr with
      | zero => unfold backtrackConservative at h; cases h; exact ⟨rfl, rfl⟩
      | succ fuel ih =>
        unfold backtrackConservative at h
        split at h
        · cases h
        · rename_i cs hcs
          have setCase : ∀ {p' : Path},
              (do let cs' ← cs.backtrack tid p.bound; pure (p.setSched curr cs')) =
                Except.ok p' → p'.skipping = p.skipping ∧ p'.exploring = p.exploring := by
            intro p' h
            cases hb : cs.backtrack tid p.bound with
            | error e => rw [hb] at h; cases h
            | ok cs' => rw [hb] at h; cases h; exact ⟨rfl, rfl⟩
          split at h
          · split at h
            · cases h
            · split at h
              · exact setCase h
              · exact ih h
          · split at h
            · exact setCase h
            · cases h; exact ⟨rfl, rfl⟩
    unfold Path.backtrack at h
    split at h
    · cases h
    · split at h
      · cases h; exact hs
      · rename_i i s hf
        cases hb : s.backtrack tid p.bound with
        | error e => rw [hb] at h; cases h
        | ok s' =>
          rw [hb] at h
          simp only [bind, Except.bind] at h
          split at h
          · cases h; exact hs
          · split at h
            · obtain ⟨h1, h2⟩ := key h
              exact ⟨h1.trans hs.1, h2.trans hs.2⟩
            · cases h; exact hs
  | exploreState h =>
    rw [show p.exploreState = p.ctl .explore from rfl, ctl_of_skipping hs.1] at h
    cases h; exact hs
  | critical h =>
    rw [show p.critical = p.ctl .critical from rfl, ctl_of_skipping hs.1] at h
    cases h; exact hs
  | skipBranch => exact ⟨rfl, rfl⟩

theorem Iter.skipping {np : Bool} {p q : Path} (h : Iter np p q)
    (hs : p.skipping = true ∧ p.exploring = false) :
    q.skipping = true ∧ q.exploring = false := by
  induction h with
  | refl p => exact hs
  | call pk _ hc _ ih => exact ih (hc.skipping hs)

/-- an entry pushed by a call carries the `exploring` flag the path had before the call -/
theorem Call.pushed {pk : Bool} {p p' : Path} (h : Call pk p p') :
    ∀ i (_ : p.branches.length ≤ i) (h2 : i < p'.branches.length),
      p'.branches[i].exploring = p.exploring := by
  intro i h1 h2
  have none : ∀ {p' : Path}, p'.branches.length = p.branches.length →
      i < p'.branches.length → False := by intro p' e h; omega
  cases h with
  | branchThread seed r h =>
    rcases branchThread_ok h with rfl | ⟨_, _, _, rfl⟩
    · exact (none rfl h2).elim
    · simp only [List.length_append, List.length_singleton] at h2
      have : i = p.branches.length := by omega
      subst this; simp [Entry.exploring, newSched_exploring]
  | pushLoad seed h =>
    obtain ⟨_, _, rfl⟩ := pushLoad_ok h
    simp only [List.length_append, List.length_singleton] at h2
    have : i = p.branches.length := by omega
    subst this; simp [Entry.exploring, newLoad]
  | branchLoad v h => exact (none (by rw [(branchLoad_frame h).2]) h2).elim
  | branchSpurious b h =>
    rcases branchSpurious_ok h with rfl | ⟨_, rfl⟩
    · exact (none rfl h2).elim
    · simp only [List.length_append, List.length_singleton] at h2
      have : i = p.branches.length := by omega
      subst this; simp [Entry.exploring]
  | backtrack point tid h => exact (none (backtrack_frame h).2 h2).elim
  | exploreState h => exact (none (by rw [(exploreState_frame h).2]) h2).elim
  | critical h => exact (none (by rw [(critical_frame h).2]) h2).elim
  | skipBranch => exact (none rfl h2).elim

/-- in the skipping state every entry pushed by the rest of the iteration is non-exploring -/
theorem Iter.pushed_of_skipping {np : Bool} {p q : Path} (h : Iter np p q)
    (hs : p.skipping = true ∧ p.exploring = false) :
    ∀ i (_ : p.branches.length ≤ i) (h2 : i < q.branches.length),
      q.branches[i].exploring = false := by
  induction h with
  | refl p => intro i h1 h2; omega
  | @call p p' q pk _ hc hit ih =>
    intro i h1 h2
    by_cases hi : i < p'.branches.length
    · have hp := hc.pushed i h1 hi
      rw [hs.2] at hp
      have := hit.keeps.same i hi hp
      rw [List.getElem?_eq_getElem h2] at this
      rw [Option.some.inj this]; exact hp
    · exact ih (hc.skipping hs) i (by omega) h2

/-! ### `step` commutes with erasing the non-exploring entries -/

theorem stepR_filter (r : List Entry) :
    (stepR r).map (List.filter Entry.exploring) = stepR (r.filter Entry.exploring) := by
  induction r with
  | nil => rfl
  | cons e rest ih =>
    cases hx : e.exploring with
    | false =>
      rw [List.filter_cons_of_neg (by simp [hx])]
      simp only [stepR, Entry.advance_of_not_exploring hx]
      exact ih
    | true =>
      rw [List.filter_cons_of_pos hx]
      simp only [stepR]
      cases ha : e.advance with
      | none => exact ih
      | some e' =>
        have : e'.exploring = true := by rw [Entry.advance_exploring_eq ha, hx]
        simp [List.filter_cons_of_pos this]

/-- erase the non-exploring entries of the stack -/
def exploringPart (p : Path) : Path := { p with branches := p.branches.filter Entry.exploring }

theorem step_exploringPart (p : Path) :
    p.step.map exploringPart = p.exploringPart.step := by
  unfold step exploringPart
  simp only [Option.map_map]
  have := stepR_filter p.branches.reverse
  rw [← List.filter_reverse] at *
  rw [← this, Option.map_map]
  congr 1
  funext r
  simp [List.filter_reverse]

/-- index form: `step` advances the deepest *exploring* entry that has an alternative left;
the entries that are not exploring are never consulted. -/
theorem step_eq_some_exploring (q p' : Path) :
    q.step = some p' ↔ ∃ (m : Nat) (hm : m < q.branches.length) (e' : Entry),
      q.branches[m].exploring = true ∧ q.branches[m].advance = some e' ∧
      (∀ j (hj : j < q.branches.length), m < j → q.branches[j].exploring = true →
        q.branches[j].advance = none) ∧
      p' = q.restart (q.branches.take m ++ [e']) := by
  rw [step_eq_some_idx]
  constructor
  · rintro ⟨m, hm, e', h1, h2, h3⟩
    exact ⟨m, hm, e', Entry.advance_exploring h1, h1, fun j hj hmj _ => h2 j hj hmj, h3⟩
  · rintro ⟨m, hm, e', _, h1, h2, h3⟩
    refine ⟨m, hm, e', h1, ?_, h3⟩
    intro j hj hmj
    cases hx : q.branches[j].exploring with
    | true => exact h2 j hj hmj hx
    | false => exact Entry.advance_of_not_exploring hx

/-! ### the branch limit -/

theorem assertLen_error (p : Path) (pk : Bool) (e : Panic) :
    p.assertLen pk = .error e ↔ (p.branches.length ≥ p.cap ∧ pk = false ∧ e = .branchLimit) := by
  unfold assertLen
  by_cases h : p.branches.length < p.cap
  · simp only [h, decide_true, Bool.true_or, if_true]
    constructor
    · intro h'; cases h'
    · rintro ⟨h1, _⟩; omega
  · cases pk
    · simp only [h, decide_false, Bool.or_false, Bool.false_eq_true, if_false,
        Except.error.injEq, true_and]
      constructor
      · rintro rfl; exact ⟨by omega, rfl⟩
      · rintro ⟨_, rfl⟩; rfl
    · simp

theorem readSched_ne_limit (p : Path) : p.readSched ≠ .error .branchLimit := by
  unfold readSched; split <;> simp

theorem readSpur_ne_limit (p : Path) : p.readSpur ≠ .error .branchLimit := by
  unfold readSpur; split <;> simp

theorem branchThread_limit (p : Path) (seed : List ThSt) (pk : Bool) :
    p.branchThread seed pk = .error .branchLimit ↔
      (p.isTraversed = true ∧ p.branches.length ≥ p.cap ∧ pk = false) := by
  rw [branchThread_eq]
  by_cases ht : p.isTraversed = true
  · simp only [ht, if_true, true_and]
    by_cases hc : (decide (p.branches.length < p.cap) || pk) = true
    · simp only [hc, if_true]
      have hn : ¬ (p.branches.length ≥ p.cap ∧ pk = false) := by
        simp only [Bool.or_eq_true, decide_eq_true_eq] at hc
        rintro ⟨h1, rfl⟩; rcases hc with hc | hc
        · omega
        · cases hc
      simp only [hn, iff_false]
      split
      · simp
      · split
        · simp
        · exact readSched_ne_limit _
    · simp only [hc]
      simp only [Bool.or_eq_true, decide_eq_true_eq, not_or, Bool.not_eq_true] at hc
      have := hc.1; simp [hc.2]; omega
  · simp only [ht]
    simp only [Bool.false_eq_true, if_false, false_and, iff_false]
    exact readSched_ne_limit _

theorem branchSpurious_limit (p : Path) (pk : Bool) :
    p.branchSpurious pk = .error .branchLimit ↔
      (p.isTraversed = true ∧ p.branches.length ≥ p.cap ∧ pk = false) := by
  rw [branchSpurious_eq]
  by_cases ht : p.isTraversed = true
  · simp only [ht, if_true, true_and]
    by_cases hc : (decide (p.branches.length < p.cap) || pk) = true
    · simp only [hc, if_true]
      have hn : ¬ (p.branches.length ≥ p.cap ∧ pk = false) := by
        simp only [Bool.or_eq_true, decide_eq_true_eq] at hc
        rintro ⟨h1, rfl⟩; rcases hc with hc | hc
        · omega
        · cases hc
      simp only [hn, iff_false]
      exact readSpur_ne_limit _
    · simp only [hc]
      simp only [Bool.or_eq_true, decide_eq_true_eq, not_or, Bool.not_eq_true] at hc
      have := hc.1; simp [hc.2]; omega
  · simp only [ht]
    simp only [Bool.false_eq_true, if_false, false_and, iff_false]
    exact readSpur_ne_limit _

theorem pushLoad_limit (p : Path) (seed : List Nat) (pk : Bool) :
    p.pushLoad seed pk = .error .branchLimit ↔ (p.branches.length ≥ p.cap ∧ pk = false) := by
  rw [pushLoad_eq]
  by_cases hc : (decide (p.branches.length < p.cap) || pk) = true
  · simp only [hc, if_true]
    have hn : ¬ (p.branches.length ≥ p.cap ∧ pk = false) := by
      simp only [Bool.or_eq_true, decide_eq_true_eq] at hc
      rintro ⟨h1, rfl⟩; rcases hc with hc | hc
      · omega
      · cases hc
    simp only [hn, iff_false]
    split <;> simp
  · simp only [hc]
    simp only [Bool.or_eq_true, decide_eq_true_eq, not_or, Bool.not_eq_true] at hc
    simp [hc.2]; omega

end Path

theorem Threads.newThread_limit (s : Threads) :
    s.newThread = .error .threadLimit ↔ s.threads.length ≥ s.max := by
  unfold Threads.newThread
  by_cases h : s.threads.length < s.max <;> simp [h] <;> omega

theorem Threads.newThread_error (s : Threads) (e : Panic) :
    s.newThread = .error e ↔ (s.threads.length ≥ s.max ∧ e = .threadLimit) := by
  unfold Threads.newThread
  by_cases h : s.threads.length < s.max
  · simp [h]; omega
  · simp only [h, if_false, Except.error.injEq]
    constructor
    · rintro rfl; exact ⟨by omega, rfl⟩
    · rintro ⟨_, rfl⟩; rfl

end LoomVerif

namespace LoomVerif
namespace Path

/-! ### a non-exploring entry keeps its decision for as long as it stays on the stack -/

theorem nonexploring_survives {np : Bool} {p q p' : Path} (hit : Iter np p q)
    (hs : q.step = some p') {i : Nat} (hi : i < p.branches.length)
    (hx : p.branches[i].exploring = false) (hlen : i < p'.branches.length) :
    p'.branches[i]? = some p.branches[i] := by
  have hk := hit.keeps
  have hq := hk.same i hi hx
  have hiq : i < q.branches.length := by have := hk.len; omega
  rw [List.getElem?_eq_getElem hiq] at hq
  have hq' : q.branches[i] = p.branches[i] := Option.some.inj hq
  obtain ⟨m, hm, _, _, _, hkeep⟩ := step_keeps hs
  have := (hkeep i hiq hlen (by rw [hq']; exact hx)).2
  rw [this, hq']

/-- along a run, a non-exploring entry of the starting stack is literally the same entry at
the end of every iteration, until some `step` pops it -/
theorem nonexploring_run {np : Bool} {p : Path} {qs : List Path} (h : Explore (Iter np) p qs)
    {i : Nat} (hi : i < p.branches.length) (hx : p.branches[i].exploring = false) :
    ∀ k (hk : k < qs.length), qs[k].branches[i]? = some p.branches[i] ∨
      ∃ j, ∃ hj : j < k, ∃ p', (qs[j]'(by omega)).step = some p' ∧ p'.branches.length ≤ i := by
  induction h with
  | last hr =>
    intro k hk
    have : k = 0 := by simpa using hk
    subst this
    exact Or.inl (hr.keeps.same i hi hx)
  | @next p q p' qs hr hs _ ih =>
    intro k hk
    cases k with
    | zero => exact Or.inl (hr.keeps.same i hi hx)
    | succ k =>
      simp only [List.length_cons] at hk
      by_cases hlen : i < p'.branches.length
      · have hsv := nonexploring_survives hr hs hi hx hlen
        rw [List.getElem?_eq_getElem hlen] at hsv
        have heq : p'.branches[i] = p.branches[i] := Option.some.inj hsv
        rcases ih hlen (by rw [heq]; exact hx) k (by omega) with h1 | ⟨j, hj, p'', h1, h2⟩
        · left; simpa [heq] using h1
        · right; exact ⟨j + 1, by omega, p'', by simpa using h1, h2⟩
      · right; exact ⟨0, by omega, p', by simpa using hs, by omega⟩

end Path
end LoomVerif

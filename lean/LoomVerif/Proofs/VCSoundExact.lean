/-
Soundness of the vector clocks of the reference semantics, part 13: EXACT MESSAGE MATCHING.
The invariant proof works with `HBA`, in which a `send` is ordered before every later take of a message with the same
or a larger number (what the accumulated message clocks of `Spec/SC.lean` decide).  For a single consumer
(`Refine2.RxOrder`, part of `WFX`) this generates the same happens-before as the declarative `HB`
("send → the event that takes THAT message out of the channel"): the earlier messages were taken by earlier steps
of the same thread.  `Run.hb_iff_hba`.
-/
import LoomVerif.Proofs.VCSoundCount

namespace LoomVerif
namespace VCSound
open Race (upd upd_self upd_ne get_zero zero_join join_zero)
open Clocks

/-- what the equivalence needs of the events of a run -/
structure ChanOK (p : Prog) (evs : List Event) : Prop where
  /-- every event executes an operation of the body of its thread -/
  evOp : ∀ (i : Nat) (e : Event), evs[i]? = some e → e.op = none ∨ ∃ k, opAt p e.thr k = e.op
  /-- a message is taken after it was sent -/
  takeOk : ∀ (q i : Nat) (e : Event), evs[i]? = some e → e.takeOn q →
    (chanCount q (evs.take i)).takes < (chanCount q (evs.take i)).sends

theorem HB.lt {evs : List Event} {j i : Nat} (h : HB evs j i) : j < i := by
  induction h with
  | single e => exact e.1
  | tail _ e ih => exact Nat.lt_trans ih e.1

theorem HB.trans {evs : List Event} {j i k : Nat} (h1 : HB evs j i) (h2 : HB evs i k) : HB evs j k :=
  Relation.TransGen.trans h1 h2

/-- the take with a given number exists among the earlier events -/
theorem exists_take (q : Nat) (evs : List Event) (i m : Nat) (hm : m < (chanCount q (evs.take i)).takes) :
    ∃ k e, k < i ∧ evs[k]? = some e ∧ e.takeOn q ∧ (chanCount q (evs.take k)).takes = m := by
  induction i with
  | zero => simp [chanCount] at hm
  | succ i ih =>
    cases he : evs[i]? with
    | none =>
      have : evs.take (i + 1) = evs.take i := by rw [List.take_add_one, he]; simp
      rw [this] at hm
      obtain ⟨k, e, h1, h2⟩ := ih hm
      exact ⟨k, e, by omega, h2⟩
    | some e =>
      rw [chanCount_take_succ q evs he, count_takes] at hm
      by_cases hlt : m < (chanCount q (evs.take i)).takes
      · obtain ⟨k, e', h1, h2⟩ := ih hlt
        exact ⟨k, e', by omega, h2⟩
      · by_cases ht : e.takeOn q
        · rw [if_pos ht] at hm
          exact ⟨i, e, Nat.lt_succ_self _, he, ht, by omega⟩
        · rw [if_neg ht] at hm; omega

theorem rxChan_take {e : Event} {q : Nat} (h : e.takeOn q) : ∃ op, e.op = some op ∧ Refine2.rxChan op = some q := by
  rcases h with h | ⟨h, _⟩
  · exact ⟨_, h, rfl⟩
  · exact ⟨_, h, rfl⟩

/-- single consumer: two receiver-side events on one channel are steps of one thread -/
theorem same_thread {p : Prog} {evs : List Event} (hwf : WFX p) (hok : ChanOK p evs) {i k q : Nat} {a b : Event}
    (ha : evs[i]? = some a) (hb : evs[k]? = some b) {opa opb : Op} (hoa : a.op = some opa) (hob : b.op = some opb)
    (hqa : Refine2.rxChan opa = some q) (hqb : Refine2.rxChan opb = some q) : a.thr = b.thr := by
  rcases hok.evOp i a ha with h | ⟨ka, hka⟩
  · rw [hoa] at h; cases h
  · rcases hok.evOp k b hb with h | ⟨kb, hkb⟩
    · rw [hob] at h; cases h
    · rw [hoa] at hka; rw [hob] at hkb
      exact hwf.rx_same_body hka hkb hqa hqb

/-- an accumulated message edge is a chain of an exact message edge and program order -/
theorem edgeA_hb {p : Prog} {evs : List Event} (hwf : WFX p) (hok : ChanOK p evs) {j i : Nat}
    (h : EdgeA evs j i) : HB evs j i := by
  obtain ⟨hlt, h⟩ := h
  rcases h with hs | ⟨q, a, b, ha, hb, hsnd, hd, hh⟩
  · exact .single ⟨hlt, .inl hs⟩
  · -- the take of the message of `j`, if it is earlier than `i`
    have via : (chanCount q (evs.take j)).sends < (chanCount q (evs.take i)).takes →
        ∀ {opb : Op}, b.op = some opb → Refine2.rxChan opb = some q → HB evs j i := by
      intro hm opb hob hqb
      obtain ⟨k, e, hki, hk, htk, hkm⟩ := exists_take q evs i _ hm
      have hjk : j < k := by
        apply Classical.byContradiction
        intro hn
        have h1 := hok.takeOk q k e hk htk
        have h2 := (chanCount_mono q evs (i := k) (n := j) (by omega)).1
        omega
      obtain ⟨opk, hok', hqk⟩ := rxChan_take htk
      have hth := same_thread hwf hok hk hb hok' hob hqk hqb
      have e1 : Edge evs j k := ⟨hjk, .inr ⟨q, a, e, ha, hk, hsnd, hd, .inl ⟨htk, by simp [hkm]⟩⟩⟩
      have e2 : Edge evs k i := ⟨hki, .inl ⟨e, b, hk, hb, .inl hth⟩⟩
      exact .tail (.single e1) e2
    rcases hh with ⟨htk, hle⟩ | ⟨hdr, hnd, hlt2⟩
    · simp only [Bool.false_eq_true, if_false] at hle
      obtain ⟨opb, hob, hqb⟩ := rxChan_take htk
      by_cases heq : (chanCount q (evs.take j)).sends = (chanCount q (evs.take i)).takes
      · exact .single ⟨hlt, .inr ⟨q, a, b, ha, hb, hsnd, hd, .inl ⟨htk, by simp [heq]⟩⟩⟩
      · exact via (by omega) hob hqb
    · simp only [Bool.false_eq_true, if_false] at hlt2
      by_cases hle : (chanCount q (evs.take i)).takes ≤ (chanCount q (evs.take j)).sends
      · exact .single ⟨hlt, .inr ⟨q, a, b, ha, hb, hsnd, hd, .inr ⟨hdr, hnd, by simp [hle]⟩⟩⟩
      · exact via (by omega) hdr rfl

/-- an exact message edge is an accumulated one -/
theorem edge_edgeA {evs : List Event} {j i : Nat} (h : Edge evs j i) : EdgeA evs j i := by
  obtain ⟨hlt, h⟩ := h
  refine ⟨hlt, ?_⟩
  rcases h with hs | ⟨q, a, b, ha, hb, hsnd, hd, hh⟩
  · exact .inl hs
  · refine .inr ⟨q, a, b, ha, hb, hsnd, hd, ?_⟩
    rcases hh with ⟨htk, heq⟩ | ⟨hdr, hnd, hle⟩
    · simp only [if_true] at heq
      exact .inl ⟨htk, by simp [heq]⟩
    · simp only [if_true] at hle
      have := sends_lt_of_send q evs ha hsnd hd hlt
      exact .inr ⟨hdr, hnd, by simp; omega⟩

/-- **the declarative happens-before is the one the clocks decide** (single consumer) -/
theorem hb_iff_hba {p : Prog} {evs : List Event} (hwf : WFX p) (hok : ChanOK p evs) {j i : Nat} :
    HB evs j i ↔ HBA evs j i := by
  constructor
  · intro h
    induction h with
    | single e => exact .single (edge_edgeA e)
    | tail _ e ih => exact .tail ih (edge_edgeA e)
  · intro h
    induction h with
    | single e => exact edgeA_hb hwf hok e
    | tail _ e ih => exact ih.trans (edgeA_hb hwf hok e)

theorem hbeq_iff_hbaeq {p : Prog} {evs : List Event} (hwf : WFX p) (hok : ChanOK p evs) {j i : Nat} :
    HBeq evs j i ↔ HBAeq evs j i := by
  unfold HBeq HBAeq; rw [hb_iff_hba hwf hok]

theorem vis_iff_visA {p : Prog} {evs : List Event} (hwf : WFX p) (hok : ChanOK p evs) {j t : Nat} :
    Vis evs j t ↔ VisA evs j t := by
  unfold Vis VisA
  constructor
  · rintro ⟨i, e, h1, h2, h3⟩; exact ⟨i, e, h1, h2, (hbeq_iff_hbaeq hwf hok).1 h3⟩
  · rintro ⟨i, e, h1, h2, h3⟩; exact ⟨i, e, h1, h2, (hbeq_iff_hbaeq hwf hok).2 h3⟩

/-! ### `ChanOK` along runs -/

theorem Run.chanOK {p : Prog} {tr : List Step} {s : SC.St} (hwf : WFX p) (hlen : p.threads.length ≤ 5)
    (h : Run p tr s) : ChanOK p (events p tr) := by
  refine ⟨?_, ?_⟩
  · intro i e hi
    rw [events_getElem?] at hi
    cases hti : tr[i]? with
    | none => rw [hti] at hi; cases hi
    | some ei =>
      rw [hti] at hi; cases hi
      obtain ⟨hr0, hen, hstep, _⟩ := h.take i ei hti
      obtain ⟨hs0, hI0⟩ := hr0.inv hwf hlen
      obtain ⟨_, _, c, _, _⟩ := ctx_of_step hwf hlen hs0 hI0 hen hstep
      exact .inr ⟨_, c.sf.hop⟩
  · intro q i e hi htk
    rw [events_getElem?] at hi
    cases hti : tr[i]? with
    | none => rw [hti] at hi; cases hi
    | some ei =>
      rw [hti] at hi; cases hi
      obtain ⟨hr0, hen, hstep, _⟩ := h.take i ei hti
      obtain ⟨hs0, hI0⟩ := hr0.inv hwf hlen
      obtain ⟨_, _, c, _, _⟩ := ctx_of_step hwf hlen hs0 hI0 hen hstep
      have hne := c.sf.takeNe q htk
      rw [← events_take]
      have hnd : (chanCount q (events p (tr.take i))).dropped = false := by
        cases hd : (chanCount q (events p (tr.take i))).dropped with
        | false => rfl
        | true => exact (hne (hI0.lenQD q hd)).elim
      have hl := hI0.lenQ q hnd
      have hpos : 0 < ((view ei.s).chq q).length := List.length_pos_iff.2 hne
      omega

end VCSound
end LoomVerif

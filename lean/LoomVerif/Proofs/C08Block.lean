/-
C08, repair of finding F15: `rt::block` (`World.blockNow`) does not depend on the caller's unpark token.
`Exec.schedule` never looks at a token: it is equivariant under setting the token of one thread.
-/
import LoomVerif.Proofs.C01Choice
import LoomVerif.Proofs.C08Condvar

namespace LoomVerif
namespace C08
open C12 Sy C07

/-- the two thread records agree on everything `Exec.schedule` looks at -/
def SchedEq (t t' : Thread) : Prop :=
  t'.state = t.state ∧ t'.operation = t.operation ∧ t'.dporVV = t.dporVV ∧ t'.yieldCount = t.yieldCount

theorem SchedEq.refl (t : Thread) : SchedEq t t := ⟨rfl, rfl, rfl, rfl⟩

theorem SchedEq.isRunnable {t t' : Thread} (h : SchedEq t t') : t'.isRunnable = t.isRunnable := by
  unfold Thread.isRunnable; rw [h.1]
theorem SchedEq.isYield {t t' : Thread} (h : SchedEq t t') : t'.isYield = t.isYield := by
  unfold Thread.isYield; rw [h.1]
theorem SchedEq.isTerminated {t t' : Thread} (h : SchedEq t t') : t'.isTerminated = t.isTerminated := by
  unfold Thread.isTerminated; rw [h.1]

/-- pointwise `SchedEq` -/
inductive ListRel : List Thread → List Thread → Prop
  | nil : ListRel [] []
  | cons {a b : Thread} {l l' : List Thread} : SchedEq a b → ListRel l l' → ListRel (a :: l) (b :: l')

theorem ListRel.refl (l : List Thread) : ListRel l l := by
  induction l with
  | nil => exact .nil
  | cons a l ih => exact .cons (SchedEq.refl a) ih

theorem dporMarks_go_congr (e e' : Exec) (ho : e'.objs = e.objs) {l l' : List Thread}
    (h : ListRel l l') (k : Nat) (p : Path) :
    Exec.dporMarks.go e' l' k p = Exec.dporMarks.go e l k p := by
  induction h generalizing k p with
  | nil => rfl
  | cons hab _ ih =>
    unfold Exec.dporMarks.go
    rw [hab.2.1, hab.2.2.1, ho]
    split
    · exact ih _ _
    · split
      · rfl
      · exact ih _ _
      · split
        · exact ih _ _
        · split
          · rfl
          · exact ih _ _

theorem pickInitial_go_congr {ths ths' : List Thread}
    (hy : ∀ j, (ths'.getD j {}).yieldCount = (ths.getD j {}).yieldCount) {l l' : List Thread}
    (h : ListRel l l') (k : Nat) (acc : Option Nat) :
    Exec.pickInitial.go ths' l' k acc = Exec.pickInitial.go ths l k acc := by
  induction h generalizing k acc with
  | nil => rfl
  | cons hab _ ih =>
    unfold Exec.pickInitial.go
    rw [hab.isRunnable, hab.2.2.2]
    split
    · exact ih _ _
    · split
      · exact ih _ _
      · rw [hy]
        split <;> exact ih _ _

theorem seed_go_congr {l l' : List Thread} (h : ListRel l l') (k : Nat) (ini : Option Nat) :
    Exec.seed.go l' k ini = Exec.seed.go l k ini := by
  induction h generalizing k ini with
  | nil => rfl
  | cons hab _ ih =>
    unfold Exec.seed.go
    simp only [hab.isRunnable, hab.isYield, ih]

theorem all_terminated_congr {l l' : List Thread} (h : ListRel l l') :
    l'.all Thread.isTerminated = l.all Thread.isTerminated := by
  induction h with
  | nil => rfl
  | cons hab _ ih => simp only [List.all_cons, hab.isTerminated, ih]

/-- setting the token of thread `i` -/
def setTok (i : Nat) (b : Bool) (s : Threads) : Threads := s.modify i fun th => { th with token := b }

theorem forall₂_modify (l : List Thread) (i : Nat) (g : Thread → Thread) (hg : ∀ t, SchedEq t (g t)) :
    ListRel l (l.modify i g) := by
  induction l generalizing i with
  | nil => simpa using ListRel.nil
  | cons a l ih =>
    cases i with
    | zero => exact .cons (hg a) (ListRel.refl l)
    | succ i => exact .cons (SchedEq.refl a) (ih i)

theorem getD_modify_yc (l : List Thread) (i j : Nat) (g : Thread → Thread)
    (hg : ∀ t, (g t).yieldCount = t.yieldCount) :
    ((l.modify i g).getD j {}).yieldCount = (l.getD j {}).yieldCount := by
  simp only [List.getD, List.getElem?_modify]
  cases h : l[j]? with
  | none => rfl
  | some th =>
    by_cases e : i = j
    · simp [e, hg]
    · simp [e]

theorem get_setTok (s : Threads) (i j : Nat) (b : Bool) :
    (setTok i b s).get j = if i = j ∧ j < s.threads.length then { s.get j with token := b } else s.get j :=
  WB.get_modify s i j _

theorem modify_comm (l : List Thread) (i j : Nat) (g h : Thread → Thread) (hc : ∀ t, g (h t) = h (g t)) :
    (l.modify i g).modify j h = (l.modify j h).modify i g := by
  apply List.ext_getElem?
  intro n
  simp only [List.getElem?_modify]
  cases l[n]? with
  | none => simp
  | some t =>
    by_cases e1 : i = n <;> by_cases e2 : j = n <;> simp [e1, e2, hc]

theorem mapIdx_modify_comm (l : List Thread) (i : Nat) (g : Thread → Thread) (F : Nat → Thread → Thread)
    (hc : ∀ j t, F j (g t) = g (F j t)) :
    (l.modify i g).mapIdx F = (l.mapIdx F).modify i g := by
  apply List.ext_getElem?
  intro n
  simp only [List.getElem?_mapIdx, List.getElem?_modify]
  cases l[n]? with
  | none => simp
  | some t =>
    by_cases e1 : i = n <;> simp [e1, hc]

open Exec in
/-- `Exec.schedule` is equivariant under setting the token of one thread: it never reads a token and never
writes one -/
theorem schedule_setTok (e : Exec) (pk : Bool) (i : Nat) (b : Bool) :
    ({ e with threads := setTok i b e.threads } : Exec).schedule pk =
      (e.schedule pk).map fun r => ({ r.1 with threads := setTok i b r.1.threads }, r.2) := by
  have hF : ListRel e.threads.threads (setTok i b e.threads).threads :=
    forall₂_modify _ _ _ (fun t => ⟨rfl, rfl, rfl, rfl⟩)
  have hd : ({ e with threads := setTok i b e.threads } : Exec).dporMarks = e.dporMarks := by
    unfold Exec.dporMarks
    exact dporMarks_go_congr e { e with threads := setTok i b e.threads } rfl hF 0 e.path
  have hactT : (setTok i b e.threads).activeT.isRunnable = e.threads.activeT.isRunnable := by
    show ((setTok i b e.threads).get e.threads.activeId).isRunnable = _
    rw [get_setTok]; split <;> rfl
  have hpick : pickInitial (setTok i b e.threads).threads = pickInitial e.threads.threads := by
    unfold pickInitial
    exact pickInitial_go_congr (ths := e.threads.threads) (ths' := (setTok i b e.threads).threads)
      (fun j => getD_modify_yc _ _ _ _ (fun _ => rfl)) hF 0 none
  have hini : ({ e with threads := setTok i b e.threads } : Exec).initial = e.initial := by
    unfold Exec.initial
    show (if (setTok i b e.threads).activeT.isRunnable = true then some e.threads.activeId
      else pickInitial (setTok i b e.threads).threads) = _
    rw [hactT, hpick]
  have hseed : seed (setTok i b e.threads).threads e.initial = seed e.threads.threads e.initial := by
    unfold seed; rw [seed_go_congr hF]
  rw [schedule_eq, schedule_eq]
  show (if (!e.threads.isActive) = true then _ else _) = _
  split
  · rfl
  · rw [hd]
    cases e.dporMarks with
    | error err => rfl
    | ok p1 =>
      simp only [hini]
      show (match p1.branchThread (seed (setTok i b e.threads).threads e.initial) pk with
        | .error err => _ | .ok (p2, none) => _ | .ok (p2, some nid) => _) = _
      rw [hseed]
      cases p1.branchThread (seed e.threads.threads e.initial) pk with
      | error err => rfl
      | ok v =>
        obtain ⟨p2, next⟩ := v
        cases next with
        | none =>
          simp only
          show (if (setTok i b e.threads).threads.all Thread.isTerminated = true then _ else _) = _
          rw [all_terminated_congr hF]
          split <;> rfl
        | some nid =>
          simp only
          have hlen : (setTok i b e.threads).threads.length = e.threads.threads.length := by
            simp [setTok, Threads.modify]
          show (if nid ≥ (setTok i b e.threads).threads.length then _ else _) = _
          rw [hlen]
          split
          · rfl
          · unfold finish finishOp
            have hop : (({ setTok i b e.threads with active := some nid } : Threads).get nid).operation =
                (({ e.threads with active := some nid } : Threads).get nid).operation := by
              show ((setTok i b e.threads).get nid).operation = (e.threads.get nid).operation
              rw [get_setTok]; split <;> rfl
            have hdv : (({ setTok i b e.threads with active := some nid } : Threads).get nid).dporVV =
                (({ e.threads with active := some nid } : Threads).get nid).dporVV := by
              show ((setTok i b e.threads).get nid).dporVV = (e.threads.get nid).dporVV
              rw [get_setTok]; split <;> rfl
            simp only [hop, hdv]
            have hre : ∀ l : List Thread,
                reactivate (l.modify i fun th => { th with token := b }) nid =
                  (reactivate l nid).modify i fun th => { th with token := b } := by
              intro l
              unfold reactivate
              apply mapIdx_modify_comm
              intro j t
              show (if (Thread.isYield { t with token := b } && j != nid) = true then _ else _) = _
              have : Thread.isYield { t with token := b } = t.isYield := rfl
              rw [this]
              split <;> rfl
            cases hopn : (({ e.threads with active := some nid } : Threads).get nid).operation with
            | none =>
              simp only [pure, Except.pure, Except.map]
              congr 3
              show Threads.mk (reactivate (e.threads.threads.modify i _) nid) (some nid)
                e.threads.seqCst e.threads.max = _
              rw [hre]; rfl
            | some op =>
              simp only [bind, Except.bind, pure, Except.pure]
              cases e.objs.lastDependentAccess op with
              | error err => rfl
              | ok acc =>
                simp only
                cases e.objs.setLastAccess op p1.pos _ with
                | error err => rfl
                | ok objs =>
                  simp only [Except.map]
                  congr 3
                  show Threads.mk (reactivate ((e.threads.threads.modify i _).modify nid _) nid) (some nid)
                    e.threads.seqCst e.threads.max = _
                  rw [modify_comm, hre]
                  · rfl
                  · intro t; rfl

/-- `rt::block` does not depend on the caller's unpark token: setting the token to `b` before the call gives the
same result, with that thread's token set to `b` -/
theorem blockNow_token_independent {w w' : World} (h : w.blockNow = .ok w') (b : Bool) :
    (w.setThs (w.ths.modifyActive fun th => { th with token := b })).blockNow =
      .ok (w'.setThs (w'.ths.modify w.tid fun th => { th with token := b })) := by
  unfold World.blockNow at h ⊢
  simp only [bind, Except.bind, pure, Except.pure] at h ⊢
  let e0 : Exec :=
    { w.exec with threads := w.ths.modifyActive fun th => { th.setBlocked with operation := none } }
  have hth : ((w.ths.modifyActive fun th => { th with token := b }).modifyActive
      fun th => { th.setBlocked with operation := none }) = setTok w.tid b e0.threads := by
    show Threads.mk ((w.ths.threads.modify w.ths.activeId _).modify w.ths.activeId _) w.ths.active
      w.ths.seqCst w.ths.max =
      Threads.mk ((w.ths.threads.modify w.ths.activeId _).modify w.ths.activeId _) w.ths.active
      w.ths.seqCst w.ths.max
    rw [modify_comm]
    intro t; rfl
  have key : ({ (w.setThs (w.ths.modifyActive fun th => { th with token := b })).exec with
      threads := (w.setThs (w.ths.modifyActive fun th => { th with token := b })).ths.modifyActive
        fun th => { th.setBlocked with operation := none } } : Exec) =
      { e0 with threads := setTok w.tid b e0.threads } := by
    show Exec.mk w.exec.path ((w.ths.modifyActive fun th => { th with token := b }).modifyActive
      fun th => { th.setBlocked with operation := none }) w.exec.objs w.exec.lazyStatics w.exec.maxThreads =
      Exec.mk w.exec.path (setTok w.tid b e0.threads) w.exec.objs w.exec.lazyStatics w.exec.maxThreads
    rw [hth]
  have hp : (w.setThs (w.ths.modifyActive fun th => { th with token := b })).panicking = w.panicking := rfl
  rw [key, hp, schedule_setTok]
  split at h
  · cases h
  · next v hv =>
    cases h
    have hv' : e0.schedule w.panicking = .ok v := hv
    rw [hv']
    rfl

end C08
end LoomVerif

/-
Refinement, RESOURCE fragment, part 4: the abstraction relation `R3` and the one-step simulation for the
lock-fragment operations and the thread epilogue (the proofs of `Proofs/RefineStep.lean` / `RefineStep2.lean`,
carrying the resource part of the relation along: these stages touch neither the resource tables of the twin nor
the counts / flags of the resource objects).
-/
import LoomVerif.Proofs.Refine3Res
import LoomVerif.Proofs.RefineStep2

namespace LoomVerif
namespace Refine3
open Refine Sy C07 C08

/-- **the abstraction relation** between a world of the twin and the data of a reference state -/
structure R3 (w : World) (s : SCData3) : Prop where
  /-- one control record per loom thread -/
  lenCtl : w.ctl.length = w.exec.threads.threads.length
  x : RX3 w.prog w.ctl s.ths
  y : RY w.prog w.ctl w.spawned w.exec.objs s.cells s.mutex
  a : RArc w.exec.objs w.handles w.arcs s.arcs s.handles
  t : RTrk w.prog w.exec.objs w.tracks w.rawAllocs s.tracks

/-- the conclusion of the simulation: `w'` keeps the program and either stutters or takes the reference step
of the active thread's body -/
def Sim3 (w : World) (s : SCData3) (w' : World) : Prop :=
  w'.prog = w.prog ∧
  ((R3 w' s ∧ w'.events = w.events) ∨
   ∃ l s', SCData3.enabled w.prog s (w.ctlOf w.tid).body = true ∧
     (l, s') ∈ SCData3.stepL w.prog s (w.ctlOf w.tid).body ∧ R3 w' s' ∧
     w'.events.map triple = SCData.label (w.ctlOf w.tid).body l ++ w.events.map triple)

/-- … and the new active thread (if any) is in the thread table -/
def SimI (w : World) (s : SCData3) (w' : World) : Prop := Sim3 w s w' ∧ InRange w'

theorem R3.mk' {w' : World} {s' : SCData3} {p : Prog} {ctl : List TCtl} {sp : List (Nat × Nat × Nat)}
    (hp : w'.prog = p) (hc : w'.ctl = ctl) (hs : w'.spawned = sp)
    (hl : ctl.length = w'.exec.threads.threads.length) (hx : RX3 p ctl s'.ths)
    (hy : RY p ctl sp w'.exec.objs s'.cells s'.mutex)
    (ha : RArc w'.exec.objs w'.handles w'.arcs s'.arcs s'.handles)
    (ht : RTrk p w'.exec.objs w'.tracks w'.rawAllocs s'.tracks) : R3 w' s' := by
  subst hp hc hs
  exact ⟨hl, hx, hy, ha, ht⟩

/-! ### the lock-fragment steps of the data semantics -/

theorem stepL_frag {p : Prog} {s : SCData3} {t : Nat} {op : Op} (hop : SCData3.opOf p s t = some op)
    (hf : isFrag op = true) :
    SCData3.stepL p s t = (SCData.stepL p s.base t).map fun x => (x.1, s.withBase x.2) := by
  unfold SCData3.stepL
  rw [hop]
  cases op <;> simp only [isFrag, Bool.false_eq_true] at hf <;> rfl

theorem stepL_none {p : Prog} {s : SCData3} {t : Nat} (hop : SCData3.opOf p s t = none) :
    SCData3.stepL p s t = (SCData.stepL p s.base t).map fun x => (x.1, s.withBase x.2) := by
  unfold SCData3.stepL
  rw [hop]

theorem mem_stepL_frag {p : Prog} {s : SCData3} {t : Nat} {op : Op} (hop : SCData3.opOf p s t = some op)
    (hf : isFrag op = true) {l : Option (Nat × Ret)} {b : SCData} (h : (l, b) ∈ SCData.stepL p s.base t) :
    (l, s.withBase b) ∈ SCData3.stepL p s t := by
  rw [stepL_frag hop hf]
  exact List.mem_map.2 ⟨(l, b), h, rfl⟩

section
variable {w : World} {s : SCData3}

/-- what the relation says about the active thread -/
theorem base3 (hR : R3 w s) (hact : w.tid < w.ctl.length) :
    (w.ctlOf w.tid).body < w.prog.threads.length ∧
    ThRel3 w.prog (w.ctlOf w.tid) (s.th (w.ctlOf w.tid).body) ∧
    SCData3.opOf w.prog s (w.ctlOf w.tid).body = opAt w := by
  obtain ⟨h1, h2⟩ := hR.x.thr w.tid hact
  refine ⟨h1, h2, ?_⟩
  unfold SCData3.opOf opAt
  have : (s.th (w.ctlOf w.tid).body).pc = (w.ctlOf w.tid).pc := h2.2.1
  rw [this]

theorem opOfCtl_active (w : World) : opOfCtl w.prog (w.ctlOf w.tid) = opAt w := rfl

/-- a thread that still has an operation to run is not in its epilogue: not finished -/
theorem fin_zero3 (hR : R3 w s) (hact : w.tid < w.ctl.length) {op : Op} (hop : opAt w = some op) :
    (w.ctlOf w.tid).fin = 0 := by
  apply Classical.byContradiction
  intro hne
  have := hR.x.epi w.tid hact hne
  rw [show w.ctl.getD w.tid {} = w.ctlOf w.tid from rfl, opOfCtl_active, hop] at this
  cases this

theorem started_running3 (hR : R3 w s) (hact : w.tid < w.ctl.length) (hfin : (w.ctlOf w.tid).fin < 10) :
    (s.th (w.ctlOf w.tid).body).started = true ∧ (s.th (w.ctlOf w.tid).body).finished = false := by
  obtain ⟨_, h2, _⟩ := base3 hR hact
  refine ⟨h2.1, ?_⟩
  rw [h2.2.2.2.1]
  simp; omega

/-- the operation completes with result `r`; the objects, the resource tables and the reference data have changed
consistently -/
theorem R3_complete {w0 : World} {op : Op} (hR : R3 w s) (hact : w.tid < w.ctl.length)
    (hop : opAt w = some op)
    (hctl : w0.ctl = w.ctl) (htid : w0.tid = w.tid) (hprog : w0.prog = w.prog) (hsp : w0.spawned = w.spawned)
    (hlen : w0.exec.threads.threads.length = w.exec.threads.threads.length)
    {cells' : List Int} {mutex' : List (Option Nat)} {arcs' : List Nat} {handles' : List (Nat × Nat)}
    {tracks' : List (Nat × Bool)}
    (hy : RY w.prog w.ctl w.spawned w0.exec.objs cells' mutex')
    (ha : RArc w0.exec.objs w0.handles w0.arcs arcs' handles')
    (ht : RTrk w.prog w0.exec.objs w0.tracks w0.rawAllocs tracks') (r : Ret) :
    R3 (w0.complete r)
      (({ s with cells := cells', mutex := mutex', arcs := arcs', handles := handles', tracks := tracks' } :
        SCData3).ret (w.ctlOf w.tid).body r) := by
  obtain ⟨_, hrel, _⟩ := base3 hR hact
  have hf0 := fin_zero3 hR hact hop
  obtain ⟨h1, h2, h3, h4, h5, h6, h7⟩ := hrel
  simp only [World.ctlOf, SCData3.th] at *
  refine R3.mk' (p := w.prog) (ctl := w.ctl.modify w.tid (completeF r)) (sp := w.spawned)
    hprog (by rw [ctl_complete', hctl, htid]) hsp ?_ ?_ ?_ ha ht
  · show _ = w0.exec.threads.threads.length
    rw [hlen, ← hR.lenCtl]; simp
  · refine hR.x.modify hact (completeF r) _ rfl (Nat.le_succ _) ?_ ?_
    · refine ⟨h1, ?_, ?_, h4, Nat.zero_le _, h6, h7⟩
      · show (s.ths.getD _ {}).pc + 1 = (w.ctl.getD w.tid {}).pc + 1
        rw [h2]
      · show ((s.ths.getD _ {}).pc, r) :: (s.ths.getD _ {}).rets =
          ((w.ctl.getD w.tid {}).pc, r) :: (w.ctl.getD w.tid {}).results
        rw [h2, h3]
    · intro hne
      exact absurd hf0 hne
  · exact hy.ctl (CtlLe.modify _ _ _ rfl id)

/-- … when the stage touched neither the resource tables nor the resource objects -/
theorem R3_complete_q {w0 : World} {op : Op} (hR : R3 w s) (hact : w.tid < w.ctl.length)
    (hop : opAt w = some op)
    (hctl : w0.ctl = w.ctl) (htid : w0.tid = w.tid) (hprog : w0.prog = w.prog) (hsp : w0.spawned = w.spawned)
    (hlen : w0.exec.threads.threads.length = w.exec.threads.threads.length)
    (hfr : frame w0 = frame w) (haeq : AEq w.exec.objs w0.exec.objs)
    {cells' : List Int} {mutex' : List (Option Nat)}
    (hy : RY w.prog w.ctl w.spawned w0.exec.objs cells' mutex') (r : Ret) :
    R3 (w0.complete r) (s.withBase (({ s.base with cells := cells', mutex := mutex' } : SCData).ret
      (w.ctlOf w.tid).body r)) := by
  simp only [frame, Prod.mk.injEq] at hfr
  obtain ⟨f1, f2, f3, f4⟩ := hfr
  refine R3_complete (s := s) (arcs' := s.arcs) (handles' := s.handles) (tracks' := s.tracks) hR hact hop hctl htid
    hprog hsp hlen hy ?_ ?_ r
  · rw [f1, f2]; exact hR.a.aeq haeq
  · rw [f3, f4]; exact hR.t.aeq haeq

/-- a stuttering stage: only the active thread's stage / epilogue counter moves -/
theorem R3_stutter {w' : World} (hR : R3 w s) (hact : w.tid < w.ctl.length) (f : TCtl → TCtl)
    (hq : Quiet3 w w') (hctl : w'.ctl = w.ctl.modify w.tid f)
    (hbody : (f (w.ctlOf w.tid)).body = (w.ctlOf w.tid).body)
    (hpc : (f (w.ctlOf w.tid)).pc = (w.ctlOf w.tid).pc)
    (hres : (f (w.ctlOf w.tid)).results = (w.ctlOf w.tid).results)
    (hloc : (f (w.ctlOf w.tid)).locals = (w.ctlOf w.tid).locals)
    (hdq : (f (w.ctlOf w.tid)).dtorQueue = (w.ctlOf w.tid).dtorQueue)
    (hst : (f (w.ctlOf w.tid)).stage ≤ maxStage (opAt w))
    (hfin : 10 ≤ (f (w.ctlOf w.tid)).fin ↔ 10 ≤ (w.ctlOf w.tid).fin)
    (hepi : (f (w.ctlOf w.tid)).fin ≠ 0 → opAt w = none) : R3 w' s := by
  obtain ⟨_, hrel, _⟩ := base3 hR hact
  obtain ⟨h1, h2, h3, h4, h5, h6, h7⟩ := hrel
  have hfr := hq.frame
  simp only [frame, Prod.mk.injEq] at hfr
  obtain ⟨f1, f2, f3, f4⟩ := hfr
  have hopc : opOfCtl w.prog (f (w.ctlOf w.tid)) = opAt w := by
    unfold opOfCtl opAt
    rw [hbody, hpc]
  simp only [World.ctlOf, SCData3.th] at *
  refine R3.mk' (p := w.prog) (ctl := w.ctl.modify w.tid f) (sp := w.spawned) hq.q.prog hctl hq.q.spawned ?_ ?_ ?_
    ?_ ?_
  · rw [hq.q.len, ← hR.lenCtl]; simp
  · refine hR.x.stutter hact f hbody (by rw [hpc]; exact Nat.le_refl _) ?_ ?_
    · refine ⟨h1, by rw [hpc]; exact h2, by rw [hres]; exact h3, ?_, by rw [hopc]; exact hst, by rw [hloc]; exact h6,
        by rw [hdq]; exact h7⟩
      rw [h4]
      exact decide_eq_decide.2 hfin.symm
    · intro hne
      rw [hopc]
      exact hepi hne
  · exact (hR.y.ctl (CtlLe.modify _ _ _ hbody hfin.2)).viewLe hq.q.view
  · rw [f1, f2]; exact hR.a.aeq hq.aeq
  · rw [f3, f4]; exact hR.t.aeq hq.aeq

/-- the stage of the epilogue that makes the thread joinable -/
theorem R3_finish {w0 : World} (hR : R3 w s) (hact : w.tid < w.ctl.length)
    (hnone : opAt w = none)
    (hctl : w0.ctl = w.ctl) (hprog : w0.prog = w.prog) (hsp : w0.spawned = w.spawned)
    (hlen : w0.exec.threads.threads.length = w.exec.threads.threads.length)
    (hfr : frame w0 = frame w) (haeq : AEq w.exec.objs w0.exec.objs)
    (hy : RY w.prog (w.ctl.modify w.tid fun c => { c with fin := 10 }) w.spawned w0.exec.objs s.cells s.mutex) :
    R3 (w0.modCtl w.tid fun c => { c with fin := 10 })
      (s.modTh (w.ctlOf w.tid).body fun h => { h with finished := true }) := by
  obtain ⟨_, hrel, _⟩ := base3 hR hact
  obtain ⟨h1, h2, h3, h4, h5, h6, h7⟩ := hrel
  simp only [frame, Prod.mk.injEq] at hfr
  obtain ⟨f1, f2, f3, f4⟩ := hfr
  have hopc : opOfCtl w.prog ({ w.ctlOf w.tid with fin := 10 }) = opAt w := rfl
  simp only [World.ctlOf, SCData3.th] at *
  refine R3.mk' (p := w.prog) (ctl := w.ctl.modify w.tid fun c => { c with fin := 10 }) (sp := w.spawned)
    hprog (by show w0.ctl.modify _ _ = _; rw [hctl]) hsp ?_ ?_ hy ?_ ?_
  · show _ = w0.exec.threads.threads.length
    rw [hlen, ← hR.lenCtl]; simp
  · refine hR.x.modify hact _ _ rfl (Nat.le_refl _) ?_ ?_
    · exact ⟨h1, h2, h3, rfl, h5, h6, h7⟩
    · intro _
      rw [hopc]; exact hnone
  · show RArc w0.exec.objs w0.handles w0.arcs s.arcs s.handles
    rw [f1, f2]; exact hR.a.aeq haeq
  · show RTrk w.prog w0.exec.objs w0.tracks w0.rawAllocs s.tracks
    rw [f3, f4]; exact hR.t.aeq haeq

end

/-! ### the resource tables are not touched by the lock primitives -/

theorem postAcquire_frame {w w1 : World} {o : Nat} {okk : Bool} (h : w.postAcquire o = .ok (w1, okk)) :
    frame w1 = frame w := by
  unfold World.postAcquire at h
  simp only [bind, Except.bind, pure, Except.pure] at h
  repeat' split at h
  all_goals first
    | (cases h; done)
    | (cases h; rfl)

theorem releaseLock_frame {w w1 : World} {o : Nat} (h : w.releaseLock o = .ok w1) : frame w1 = frame w := by
  unfold World.releaseLock at h
  simp only [bind, Except.bind, pure, Except.pure] at h
  repeat' split at h
  all_goals first
    | (cases h; done)
    | (cases h; rfl)

theorem notifyEffect_frame {w w1 : World} {o : Nat} (h : w.notifyEffect o = .ok w1) : frame w1 = frame w := by
  unfold World.notifyEffect at h
  simp only [bind, Except.bind, pure, Except.pure] at h
  repeat' split at h
  all_goals first
    | (cases h; done)
    | (cases h; rfl)

theorem notifyWait2_frame {w w1 : World} {o : Nat} (h : w.notifyWait2 o = .ok w1) : frame w1 = frame w := by
  unfold World.notifyWait2 at h
  simp only [bind, Except.bind, pure, Except.pure] at h
  repeat' split at h
  all_goals first
    | (cases h; done)
    | (cases h; rfl)

/-- the first half of a wait on a notify that cannot return spuriously is a scheduling point -/
theorem notifyWait1_obs3 {w : World} {o : Nat} {ns : NotifySt} {w1 : World} {st : Nat}
    (hn : w.exec.objs[o]? = some (.notify ns)) (hs : ns.spurious = false)
    (h : w.notifyWait1 o = .ok (w1, st)) : st = 1 ∧ Quiet3 w w1 ∧ w1.ctl = w.ctl ∧ InRange w1 := by
  rw [notifyWait1_plain hn (by rw [hs]; rfl)] at h
  obtain ⟨w2, hb, he⟩ := map_ok h
  cases he
  exact ⟨rfl, (branch_quiet3 hb).1, (branch_quiet3 hb).2, branch_inRange hb⟩

theorem spawn_frame {w w' : World} {c : TCtl} {b : Nat} (h : w.runOp c (.spawn b) = .ok w') :
    frame w' = frame w := by
  rw [runOp_spawn] at h
  simp only [World.pushObj, bind, Except.bind, pure, Except.pure] at h
  split at h
  · cases h
  · cases h; rfl

/-! ### the operations -/

section
variable {w w' : World} {s : SCData3}

theorem enabled_plain3 (hR : R3 w s) (hact : w.tid < w.ctl.length) {op : Op} (hop : opAt w = some op)
    (hl : ∀ m, op ≠ .lock m) (hj : ∀ b, op ≠ .join b) :
    SCData3.enabled w.prog s (w.ctlOf w.tid).body = true := by
  obtain ⟨_, _, hof⟩ := base3 hR hact
  obtain ⟨h1, h2⟩ := started_running3 hR hact (by rw [fin_zero3 hR hact hop]; omega)
  unfold SCData3.enabled SCData.enabled
  rw [SCData3.base_opOf, hof, hop, SCData3.base_th, h1, h2]
  cases op <;> first | rfl | (exfalso; exact hl _ rfl) | (exfalso; exact hj _ rfl)

theorem sim_cellRead3 (hR : R3 w s) (hact : w.tid < w.ctl.length) {ci : Nat}
    (hop : opAt w = some (.cellRead ci)) (hci : ci < w.prog.cfg.nCells)
    (h : w.runOp (w.ctlOf w.tid) (.cellRead ci) = .ok w') : SimI w s w' := by
  have hin : w.tid < w.exec.threads.threads.length := by rw [← hR.lenCtl]; exact hact
  obtain ⟨_, hrel, hof⟩ := base3 hR hact
  rw [runOp_cellRead] at h
  obtain ⟨cs, hg, h⟩ := bind_ok h
  have hobj : w.exec.objs[w.prog.cfg.nAtomics + ci]? = some (.cell cs) := getCell_ok hg
  obtain ⟨cs', hcs', hval⟩ := objView_cell (hR.y.cell ci hci)
  rw [hobj] at hcs'; cases hcs'
  simp only [bind, Except.bind, pure, Except.pure, throw, throwThe, MonadExceptOf.throw] at h
  repeat' split at h
  all_goals try (cases h; done)
  cases h
  have hco : w.cellObj ci = w.prog.cfg.nAtomics + ci := rfl
  refine ⟨?_, inRange_of (w := w) rfl (by
    show _ ≤ w.sync.exec.threads.threads.length
    rw [sync_len]; exact Nat.le_refl _) hin⟩
  refine ⟨rfl, .inr ⟨some ((s.th (w.ctlOf w.tid).body).pc, .val (s.cells.getD ci 0)),
    s.withBase (s.base.ret (w.ctlOf w.tid).body (.val (s.cells.getD ci 0))),
    enabled_plain3 hR hact hop (by simp) (by simp), ?_, ?_, ?_⟩⟩
  · refine mem_stepL_frag (hof.trans hop) rfl ?_
    unfold SCData.stepL
    rw [SCData3.base_opOf, hof, hop]
    exact List.mem_singleton.2 rfl
  · rw [← hval]
    refine R3_complete_q (s := s) (cells' := s.cells) (mutex' := s.mutex)
      (w0 := w.sync.setObj (w.cellObj ci) (.cell { cs with readAccess := cs.readAccess.join w.sync.ths.caus }))
      hR hact hop rfl rfl rfl rfl (sync_len w) rfl ?_ ?_ _
    · show AEq w.exec.objs (w.exec.objs.set _ _)
      rw [hco]; exact AEq.set hobj rfl
    · refine hR.y.viewLe ?_
      intro n v hv
      by_cases e : n = w.prog.cfg.nAtomics + ci
      · subst e
        show objView (w.exec.objs.set _ _) _ = _
        rw [hco, objView_set_self _ (objView_lt hv)]
        rw [objView_of hobj] at hv
        exact hv
      · show objView (w.exec.objs.set _ _) _ = _
        rw [hco, objView_set_ne _ _ e]; exact hv
  · rw [events_complete', ← hval, hrel.2.1]
    rfl

theorem sim_cellWrite3 (hR : R3 w s) (hact : w.tid < w.ctl.length) {ci : Nat} {v : Int}
    (hop : opAt w = some (.cellWrite ci v)) (hci : ci < w.prog.cfg.nCells)
    (h : w.runOp (w.ctlOf w.tid) (.cellWrite ci v) = .ok w') : SimI w s w' := by
  have hin : w.tid < w.exec.threads.threads.length := by rw [← hR.lenCtl]; exact hact
  obtain ⟨_, hrel, hof⟩ := base3 hR hact
  rw [runOp_cellWrite] at h
  obtain ⟨cs, hg, h⟩ := bind_ok h
  have hobj : w.exec.objs[w.prog.cfg.nAtomics + ci]? = some (.cell cs) := getCell_ok hg
  simp only [bind, Except.bind, pure, Except.pure, throw, throwThe, MonadExceptOf.throw] at h
  repeat' split at h
  all_goals try (cases h; done)
  cases h
  have hco : w.cellObj ci = w.prog.cfg.nAtomics + ci := rfl
  refine ⟨?_, inRange_of (w := w) rfl (by
    show _ ≤ w.sync.exec.threads.threads.length
    rw [sync_len]; exact Nat.le_refl _) hin⟩
  refine ⟨rfl, .inr ⟨some ((s.th (w.ctlOf w.tid).body).pc, .unit),
    s.withBase (({ s.base with cells := s.cells.set ci v } : SCData).ret (w.ctlOf w.tid).body .unit),
    enabled_plain3 hR hact hop (by simp) (by simp), ?_, ?_, ?_⟩⟩
  · refine mem_stepL_frag (hof.trans hop) rfl ?_
    unfold SCData.stepL
    rw [SCData3.base_opOf, hof, hop]
    exact List.mem_singleton.2 rfl
  · refine R3_complete_q (s := s) (cells' := s.cells.set ci v) (mutex' := s.mutex)
      (w0 := w.sync.setObj (w.cellObj ci)
        (.cell { cs with writeAccess := cs.writeAccess.join w.sync.ths.caus, value := v }))
      hR hact hop rfl rfl rfl rfl (sync_len w) rfl ?_ ?_ _
    · show AEq w.exec.objs (w.exec.objs.set _ _)
      rw [hco]; exact AEq.set hobj rfl
    · exact hR.y.setCell hci _ v rfl
  · rw [events_complete', hrel.2.1]
    rfl

theorem sim_ifEq3 (hR : R3 w s) (hact : w.tid < w.ctl.length) {i n : Nat} {r : Ret}
    (hop : opAt w = some (.ifEq i r n))
    (h : w.runOp (w.ctlOf w.tid) (.ifEq i r n) = .ok w') : SimI w s w' := by
  have hin : w.tid < w.exec.threads.threads.length := by rw [← hR.lenCtl]; exact hact
  obtain ⟨_, hrel, hof⟩ := base3 hR hact
  have hf0 := fin_zero3 hR hact hop
  obtain ⟨h1, h2, h3, h4, h5, h6, h7⟩ := hrel
  rw [runOp_ifEq] at h
  have hst1 : (w.ctlOf w.tid).stage ≤ 1 := by
    have := h5
    rw [opOfCtl_active, hop] at this
    exact this
  have key : ∀ k : Nat, k ≠ 0 →
      R3 (w.modCtl w.tid fun c => { c with pc := c.pc + k })
        (s.modTh (w.ctlOf w.tid).body fun h => { h with pc := h.pc + k }) := by
    intro k hk
    refine R3.mk' (p := w.prog) (ctl := w.ctl.modify w.tid fun c => { c with pc := c.pc + k }) (sp := w.spawned)
      rfl rfl rfl ?_ ?_ ?_ hR.a hR.t
    · show _ = w.exec.threads.threads.length
      rw [← hR.lenCtl]; simp
    · refine hR.x.modify hact _ _ rfl (Nat.le_add_right _ _) ?_ ?_
      · refine ⟨h1, ?_, h3, h4, ?_, h6, h7⟩
        · show (s.th (w.ctlOf w.tid).body).pc + k = (w.ctlOf w.tid).pc + k
          rw [h2]
        · exact Nat.le_trans hst1 (one_le_maxStage _)
      · intro hne; exact absurd hf0 hne
    · exact hR.y.ctl (CtlLe.modify _ _ _ rfl id)
  split at h
  · next hc =>
    cases h
    refine ⟨?_, inRange_of rfl (Nat.le_refl _) hin⟩
    refine ⟨rfl, .inr ⟨none, s.withBase (s.base.modTh (w.ctlOf w.tid).body fun h => { h with pc := h.pc + 1 }),
      enabled_plain3 hR hact hop (by simp) (by simp), ?_, key 1 (by omega), rfl⟩⟩
    refine mem_stepL_frag (hof.trans hop) rfl ?_
    unfold SCData.stepL
    rw [SCData3.base_opOf, hof, hop]
    simp only [SCData3.base_th, h2, h3, hc, if_true, List.mem_singleton]
  · next hc =>
    cases h
    refine ⟨?_, inRange_of rfl (Nat.le_refl _) hin⟩
    refine ⟨rfl, .inr ⟨none, s.withBase (s.base.modTh (w.ctlOf w.tid).body fun h => { h with pc := h.pc + 1 + n }),
      enabled_plain3 hR hact hop (by simp) (by simp), ?_, ?_, rfl⟩⟩
    · refine mem_stepL_frag (hof.trans hop) rfl ?_
      unfold SCData.stepL
      rw [SCData3.base_opOf, hof, hop]
      simp only [SCData3.base_th, h2, h3, hc, Bool.false_eq_true, if_false, List.mem_singleton]
    · have := key (1 + n) (by omega)
      simp only [← Nat.add_assoc] at this
      exact this

end

end Refine3
end LoomVerif

/-
C08, `rt::Notify`: exact one-step laws of `notifyEffect`, `notifyWait1`, `notifyWait2`
(`rt/notify.rs`: `notify`, `wait`), the stored flag, the single spurious return and the
notifier → waiter ordering.
-/
import LoomVerif.Proofs.C07Handover
import LoomVerif.Proofs.SyncSched
import LoomVerif.Proofs.WorldBasics

namespace LoomVerif
namespace C08
open C12 Sy C07

/-! ### `Notify::notify` after its branch point -/

/-- the explicit successor state of `notify`: the flag is set, the notifier's clocks are released
into the object, and every OTHER thread whose pending operation is on the object is woken if it is
blocked (`Thread.wake`; this is not `Thread::unpark`: a thread that is not blocked gets no `park`
token).  Nothing is acquired by the threads woken (repair of finding F26): the waiter synchronises with
the notifiers in the second half of `wait` -/
theorem notifyEffect_eq {w : World} {o : Nat} {s : NotifySt}
    (h : w.exec.objs[o]? = some (.notify s)) :
    w.notifyEffect o = .ok
      { w with exec := { w.exec with
          objs := w.exec.objs.set o (.notify { s with
            sync := s.sync.store w.ths.activeT.released w.ths.caus .rel, notified := true })
          threads := { w.exec.threads with threads :=
            (w.exec.threads.threads.mapIdx fun i th =>
              if i = w.tid then th
              else if th.operation.any (fun op => op.obj == o) then th.wake
              else th) } } } := by
  unfold World.notifyEffect
  simp only [getNotify_of h, bind, Except.bind, pure, Except.pure]
  rw [wake_normal_form]
  rfl

/-- the entry of every thread after `notify`: a thread OTHER than the notifier whose pending operation is on
the object is woken if it is blocked (`Thread.wake`); every other entry is unchanged -/
theorem notifyEffect_get {w w' : World} {o : Nat} {s : NotifySt}
    (h : w.exec.objs[o]? = some (.notify s)) (hr : w.notifyEffect o = .ok w') (i : Nat) :
    w'.ths.get i =
      if i ≠ w.tid ∧ ∃ op, (w.ths.get i).operation = some op ∧ op.obj = o then (w.ths.get i).wake
      else w.ths.get i := by
  unfold World.notifyEffect at hr
  simp only [getNotify_of h, bind, Except.bind, pure, Except.pure] at hr
  cases hr
  rw [WB.forOthers_get]
  simp only [WB.tid_setObj, WB.ths_setObj]
  by_cases hi : i = w.tid
  · simp [hi]
  · cases hop : (w.ths.get i).operation with
    | none => simp [hi]
    | some op =>
      by_cases ho : op.obj = o
      · simp [hi, ho]
      · simp [hi, ho]

/-- `notify` hands out no `park` token, and changes a thread's state only by waking a blocked waiter: thread
`i` is woken (its state changes; it becomes `runnable`, not `parked`) exactly if it is not the notifier, its
pending operation is on the object and it is blocked -/
theorem notifyEffect_wakes {w w' : World} {o : Nat} {s : NotifySt}
    (h : w.exec.objs[o]? = some (.notify s)) (hr : w.notifyEffect o = .ok w') (i : Nat) :
    (w'.ths.get i).token = (w.ths.get i).token ∧
    ((w'.ths.get i).state ≠ (w.ths.get i).state ↔
      i ≠ w.tid ∧ (∃ op, (w.ths.get i).operation = some op ∧ op.obj = o) ∧
        (w.ths.get i).state = .blocked) ∧
    ((w'.ths.get i).state ≠ (w.ths.get i).state →
      (w'.ths.get i).state = .runnable ∧ (w'.ths.get i).parked = false) ∧
    ((w'.ths.get i).state = (w.ths.get i).state → (w'.ths.get i).parked = (w.ths.get i).parked) := by
  rw [notifyEffect_get h hr i]
  split
  · next hc =>
    cases hb : (w.ths.get i).state <;>
      simp [Thread.wake, Thread.isBlocked, Thread.setRunnable, hb, hc.1, hc.2]
  · next hc =>
    refine ⟨rfl, ⟨fun hne => absurd rfl hne, fun hh => absurd ⟨hh.1, hh.2.1⟩ hc⟩,
      fun hne => absurd rfl hne, fun _ => rfl⟩

/-- `notify` acquires nothing for anybody (repair of finding F26): every thread's causality (and every other
clock field, the pending operation, the token) is what it was; only `state` / `parked` of a woken thread change -/
theorem notifyEffect_caus {w w' : World} {o : Nat} {s : NotifySt}
    (h : w.exec.objs[o]? = some (.notify s)) (hr : w.notifyEffect o = .ok w') (i : Nat) :
    (w'.ths.get i).causality = (w.ths.get i).causality ∧
    (w'.ths.get i).released = (w.ths.get i).released ∧
    (w'.ths.get i).unparkCaus = (w.ths.get i).unparkCaus ∧
    (w'.ths.get i).operation = (w.ths.get i).operation := by
  rw [notifyEffect_get h hr i]
  split
  · cases hb : (w.ths.get i).state <;>
      simp [Thread.wake, Thread.isBlocked, Thread.setRunnable, hb]
  · exact ⟨rfl, rfl, rfl, rfl⟩

/-- `notify` sets the flag and releases: the object's clock is above the notifier's causality -/
theorem notifyEffect_hb {w w' : World} {o : Nat} {s : NotifySt}
    (h : w.exec.objs[o]? = some (.notify s)) (hr : w.notifyEffect o = .ok w') :
    ∃ s', w'.exec.objs[o]? = some (.notify s') ∧ s'.notified = true ∧
      s'.didSpur = s.didSpur ∧ s'.spurious = s.spurious ∧
      w.ths.caus.le s'.sync.hb ∧ s.sync.hb.le s'.sync.hb := by
  rw [notifyEffect_eq h] at hr
  cases hr
  exact ⟨_, getElem?_set_self' _ _ _ _ h, rfl, rfl, rfl, (le_store_rel _ _ _).2.2,
    (le_store_rel _ _ _).1⟩

/-! ### second half of `Notify::wait` -/

/-- `assert!(state.notified)` -/
theorem notifyWait2_unnotified {w : World} {o : Nat} {s : NotifySt}
    (h : w.exec.objs[o]? = some (.notify s)) (hn : s.notified = false) :
    w.notifyWait2 o = .error .notNotified := by
  unfold World.notifyWait2
  simp [getNotify_of h, hn, bind, Except.bind]

/-- notified: the waiter acquires the object's clock and consumes the flag -/
theorem notifyWait2_notified {w : World} {o : Nat} {s : NotifySt}
    (h : w.exec.objs[o]? = some (.notify s)) (hn : s.notified = true) :
    w.notifyWait2 o = .ok
      ((w.setThs (w.ths.setCaus (w.ths.caus.join s.sync.hb))).setObj o
        (.notify { s with notified := false })) := by
  unfold World.notifyWait2
  simp [getNotify_of h, hn, bind, Except.bind, pure, Except.pure, Threads.syncLoad, load_acq]

theorem caus_setCaus (ths : Threads) (v : VV) (hin : ths.activeId < ths.threads.length) :
    (ths.setCaus v).caus = v := by
  simp [Threads.setCaus, Threads.modifyActive, Threads.modify, Threads.caus, Threads.activeT,
    Threads.get, Threads.activeId, List.getD] at *
  simp [hin]

/-- `notifyWait2` returns normally only if the flag was set; then the waiter's causality is above
the object's clock and the flag is cleared -/
theorem notifyWait2_ok {w w' : World} {o : Nat} {s : NotifySt}
    (h : w.exec.objs[o]? = some (.notify s)) (hr : w.notifyWait2 o = .ok w') :
    s.notified = true ∧
    w'.exec.objs[o]? = some (.notify { s with notified := false }) ∧
    (w.tid < w.ths.threads.length → w'.ths.caus = w.ths.caus.join s.sync.hb) := by
  cases hn : s.notified with
  | false => rw [notifyWait2_unnotified h hn] at hr; cases hr
  | true =>
    rw [notifyWait2_notified h hn] at hr
    cases hr
    refine ⟨rfl, ?_, ?_⟩
    · simp only [World.setObj, World.setObjs, World.setThs]
      exact getElem?_set_self' _ _ _ _ h
    · intro hin
      exact caus_setCaus w.ths _ hin

/-! ### first half of `Notify::wait` -/

/-- no spurious return possible (`!might_spur()`): the path is not consulted; the waiter branches
on the object, blocked exactly when the flag is not set -/
theorem notifyWait1_plain {w : World} {o : Nat} {s : NotifySt}
    (h : w.exec.objs[o]? = some (.notify s)) (hs : (s.spurious && !s.didSpur) = false) :
    w.notifyWait1 o = (w.branch o .opaque (block := !s.notified) (wait := !s.notified)).map (·, 1) := by
  unfold World.notifyWait1
  simp only [getNotify_of h, hs, bind, Except.bind, pure, Except.pure, Bool.false_eq_true, if_false]
  rw [setObj_self w o _ h]
  cases w.branch o .opaque (block := !s.notified) (wait := !s.notified) <;> rfl

/-- a spurious return is possible: the path decides (`branch_spurious`) -/
theorem notifyWait1_maySpur {w : World} {o : Nat} {s : NotifySt}
    (h : w.exec.objs[o]? = some (.notify s)) (hs : s.spurious = true) (hd : s.didSpur = false) :
    w.notifyWait1 o =
      match w.exec.path.branchSpurious w.panicking with
      | .error e => .error e
      | .ok (p, true) =>
        -- spurious return: `did_spur` is set, the thread yields and `wait` returns
        (((w.setPath p).setObj o (.notify { s with didSpur := true })).yieldNow).map (·, 2)
      | .ok (p, false) => ((w.setPath p).branch o .opaque (block := !s.notified) (wait := !s.notified)).map (·, 1) := by
  unfold World.notifyWait1
  simp only [getNotify_of h, hs, hd, bind, Except.bind, pure, Except.pure, Bool.not_false,
    Bool.and_self, if_true]
  cases hb : w.exec.path.branchSpurious w.panicking with
  | error e => rfl
  | ok r =>
    obtain ⟨p, b⟩ := r
    cases b
    · simp only [Bool.false_eq_true, if_false]
      have : (w.setPath p).exec.objs[o]? = some (.notify s) := h
      rw [setObj_self _ o _ this]
      cases (w.setPath p).branch o .opaque (block := !s.notified) (wait := !s.notified) <;> rfl
    · simp only [if_true]
      cases (((w.setPath p).setObj o (.notify { s with didSpur := true })).yieldNow) <;> rfl

theorem map_ok {α β} {x : Except Panic α} {f : α → β} {y : β} (h : x.map f = .ok y) :
    ∃ a, x = .ok a ∧ y = f a := by
  cases x with
  | error e => cases h
  | ok a => cases h; exact ⟨a, rfl, rfl⟩

/-- what `notifyWait1` does to the notify object: nothing but (possibly) setting `did_spur` (and
the scheduler's access record).  The returned stage is `2` (spurious return) exactly when
`did_spur` went from `false` to `true`, which needs `spurious`. -/
theorem notifyWait1_obj {w w' : World} {o st : Nat} {s : NotifySt}
    (h : w.exec.objs[o]? = some (.notify s)) (hr : w.notifyWait1 o = .ok (w', st)) :
    ∃ a d, w'.exec.objs[o]? = some (.notify { s with lastAccess := a, didSpur := d }) ∧
      ((st = 1 ∧ d = s.didSpur) ∨ (st = 2 ∧ d = true ∧ s.didSpur = false ∧ s.spurious = true)) := by
  by_cases hs : (s.spurious && !s.didSpur) = false
  · rw [notifyWait1_plain h hs] at hr
    obtain ⟨w1, hb, he⟩ := map_ok hr
    cases he
    obtain ⟨x', hx', ht⟩ := branch_objs hb o _ h
    obtain ⟨a, rfl⟩ := ht.notify_inv
    exact ⟨a, s.didSpur, hx', .inl ⟨rfl, rfl⟩⟩
  · have hsp : s.spurious = true := by cases hh : s.spurious <;> simp [hh] at hs ⊢
    have hd : s.didSpur = false := by cases hh : s.didSpur <;> simp [hh] at hs ⊢
    rw [notifyWait1_maySpur h hsp hd] at hr
    split at hr
    · cases hr
    · next p hp =>
      obtain ⟨w1, hb, he⟩ := map_ok hr
      cases he
      have h1 : ((w.setPath p).setObj o (.notify { s with didSpur := true })).exec.objs[o]? =
          some (.notify { s with didSpur := true }) := by
        simp only [World.setObj, World.setObjs, World.setPath]
        exact getElem?_set_self' _ _ _ _ h
      obtain ⟨x', hx', ht⟩ := yieldNow_objs hb o _ h1
      obtain ⟨a, rfl⟩ := ht.notify_inv
      exact ⟨a, true, hx', .inr ⟨rfl, rfl, hd, hsp⟩⟩
    · next p hp =>
      obtain ⟨w1, hb, he⟩ := map_ok hr
      cases he
      have h1 : (w.setPath p).exec.objs[o]? = some (.notify s) := h
      obtain ⟨x', hx', ht⟩ := branch_objs hb o _ h1
      obtain ⟨a, rfl⟩ := ht.notify_inv
      exact ⟨a, s.didSpur, hx', .inl ⟨rfl, rfl⟩⟩

/-! ### the life of a notify object -/

/-- a step that does not consume the notification: `notify`, the first half of `wait`, or an
access record of the scheduler -/
inductive NotifyKeep : NotifySt → NotifySt → Prop
  | effect {w w' : World} {o : Nat} {s s' : NotifySt} :
      w.exec.objs[o]? = some (.notify s) → w.notifyEffect o = .ok w' →
      w'.exec.objs[o]? = some (.notify s') → NotifyKeep s s'
  | wait1 {w w' : World} {o st : Nat} {s s' : NotifySt} :
      w.exec.objs[o]? = some (.notify s) → w.notifyWait1 o = .ok (w', st) →
      w'.exec.objs[o]? = some (.notify s') → NotifyKeep s s'
  | touch (s : NotifySt) (a : Option Access) : NotifyKeep s { s with lastAccess := a }

/-- any step: a non-consuming one, or the second half of `wait` -/
inductive NotifyStep : NotifySt → NotifySt → Prop
  | keep {s s' : NotifySt} : NotifyKeep s s' → NotifyStep s s'
  | wait2 {w w' : World} {o : Nat} {s s' : NotifySt} :
      w.exec.objs[o]? = some (.notify s) → w.notifyWait2 o = .ok w' →
      w'.exec.objs[o]? = some (.notify s') → NotifyStep s s'

inductive NotifyKeeps : NotifySt → NotifySt → Prop
  | refl (s : NotifySt) : NotifyKeeps s s
  | tail {s s' s'' : NotifySt} : NotifyKeeps s s' → NotifyKeep s' s'' → NotifyKeeps s s''

inductive NotifySteps : NotifySt → NotifySt → Prop
  | refl (s : NotifySt) : NotifySteps s s
  | tail {s s' s'' : NotifySt} : NotifySteps s s' → NotifyStep s' s'' → NotifySteps s s''

/-- a non-consuming step keeps a set flag, never resets `did_spur`, never changes `spurious`, and
is monotone on the object's clock -/
theorem NotifyKeep.facts {s s' : NotifySt} (h : NotifyKeep s s') :
    (s.notified = true → s'.notified = true) ∧ (s.didSpur = true → s'.didSpur = true) ∧
    s'.spurious = s.spurious ∧ s.sync.hb.le s'.sync.hb := by
  cases h with
  | effect h hr h' =>
    obtain ⟨s'', h'', hn, hd, hsp, _, hle⟩ := notifyEffect_hb h hr
    rw [h''] at h'; cases h'
    exact ⟨fun _ => hn, fun e => by rw [hd]; exact e, hsp, hle⟩
  | wait1 h hr h' =>
    obtain ⟨a, d, h'', hc⟩ := notifyWait1_obj h hr
    rw [h''] at h'; cases h'
    refine ⟨id, ?_, rfl, VV.le_refl _⟩
    rcases hc with ⟨_, rfl⟩ | ⟨_, rfl, _, _⟩
    · exact id
    · exact fun _ => rfl
  | touch s a => exact ⟨id, id, rfl, VV.le_refl _⟩

/-- any step never resets `did_spur`, never changes `spurious`, and is monotone on the clock -/
theorem NotifyStep.facts {s s' : NotifySt} (h : NotifyStep s s') :
    (s.didSpur = true → s'.didSpur = true) ∧ s'.spurious = s.spurious ∧
    s.sync.hb.le s'.sync.hb := by
  cases h with
  | keep k => exact k.facts.2
  | wait2 h hr h' =>
    obtain ⟨_, h'', _⟩ := notifyWait2_ok h hr
    rw [h''] at h'; cases h'
    exact ⟨id, rfl, VV.le_refl _⟩

theorem NotifyKeeps.facts {s s' : NotifySt} (h : NotifyKeeps s s') :
    (s.notified = true → s'.notified = true) ∧ (s.didSpur = true → s'.didSpur = true) ∧
    s'.spurious = s.spurious ∧ s.sync.hb.le s'.sync.hb := by
  induction h with
  | refl => exact ⟨id, id, rfl, VV.le_refl _⟩
  | tail _ k ih =>
    obtain ⟨a1, a2, a3, a4⟩ := ih
    obtain ⟨b1, b2, b3, b4⟩ := k.facts
    exact ⟨fun e => b1 (a1 e), fun e => b2 (a2 e), b3.trans a3, VV.le_trans a4 b4⟩

theorem NotifySteps.facts {s s' : NotifySt} (h : NotifySteps s s') :
    (s.didSpur = true → s'.didSpur = true) ∧ s'.spurious = s.spurious ∧
    s.sync.hb.le s'.sync.hb := by
  induction h with
  | refl => exact ⟨id, rfl, VV.le_refl _⟩
  | tail _ k ih =>
    obtain ⟨a2, a3, a4⟩ := ih
    obtain ⟨b2, b3, b4⟩ := k.facts
    exact ⟨fun e => b2 (a2 e), b3.trans a3, VV.le_trans a4 b4⟩

/-- at most one spurious return per `Notify`: after a `wait` returned spuriously (stage 2), no
later `wait` on the same object does, whatever happens to the object in between -/
theorem single_spurious {w1 w1' w2 w2' : World} {o1 o2 st : Nat} {s0 s1 s2 : NotifySt}
    (h0 : w1.exec.objs[o1]? = some (.notify s0)) (hr1 : w1.notifyWait1 o1 = .ok (w1', 2))
    (h1 : w1'.exec.objs[o1]? = some (.notify s1)) (hsteps : NotifySteps s1 s2)
    (h2 : w2.exec.objs[o2]? = some (.notify s2)) (hr2 : w2.notifyWait1 o2 = .ok (w2', st)) :
    st = 1 := by
  obtain ⟨a, d, h1', hc⟩ := notifyWait1_obj h0 hr1
  rw [h1'] at h1; cases h1
  have hd1 : d = true := by
    rcases hc with ⟨h21, _⟩ | ⟨_, rfl, _, _⟩
    · cases h21
    · rfl
  subst hd1
  have hd2 : s2.didSpur = true := hsteps.facts.1 rfl
  obtain ⟨a', d', _, hc'⟩ := notifyWait1_obj h2 hr2
  rcases hc' with ⟨rfl, _⟩ | ⟨_, _, hf, _⟩
  · rfl
  · rw [hd2] at hf; cases hf

/-- the notifier's prior writes happen-before the woken thread's continuation: `notify` by N, any
steps, then the second half of `wait` by W returns: W's causality is above N's at the `notify` -/
theorem notifier_hb {wN wN' wW wW' : World} {oN oW : Nat} {s0 s1 s2 : NotifySt}
    (h0 : wN.exec.objs[oN]? = some (.notify s0)) (hn : wN.notifyEffect oN = .ok wN')
    (h1 : wN'.exec.objs[oN]? = some (.notify s1)) (hsteps : NotifySteps s1 s2)
    (h2 : wW.exec.objs[oW]? = some (.notify s2)) (hin : wW.tid < wW.ths.threads.length)
    (hw : wW.notifyWait2 oW = .ok wW') :
    wN.ths.caus.le wW'.ths.caus := by
  obtain ⟨s1', h1', _, _, _, hle, _⟩ := notifyEffect_hb h0 hn
  rw [h1'] at h1; cases h1
  obtain ⟨_, _, hc⟩ := notifyWait2_ok h2 hw
  rw [hc hin]
  exact VV.le_trans hle (VV.le_trans hsteps.facts.2.2 (VV.le_join_right _ _))

/-- a notification issued before the wait is not lost: `notify`, then any non-consuming steps;
a `wait` that then starts (without a spurious return) is not blocked, and its second half
succeeds -/
theorem flag_not_lost {wN wN' wW : World} {oN oW : Nat} {s0 s1 s2 : NotifySt}
    (h0 : wN.exec.objs[oN]? = some (.notify s0)) (hn : wN.notifyEffect oN = .ok wN')
    (h1 : wN'.exec.objs[oN]? = some (.notify s1)) (hsteps : NotifyKeeps s1 s2)
    (h2 : wW.exec.objs[oW]? = some (.notify s2)) :
    s2.notified = true ∧
    ((s2.spurious && !s2.didSpur) = false →
      wW.notifyWait1 oW = (wW.branch oW .opaque (block := false)).map (·, 1)) ∧
    (∃ wW', wW.notifyWait2 oW = .ok wW') := by
  obtain ⟨s1', h1', hnot, _⟩ := notifyEffect_hb h0 hn
  rw [h1'] at h1; cases h1
  have hn2 : s2.notified = true := hsteps.facts.1 hnot
  refine ⟨hn2, ?_, ?_⟩
  · intro hs
    rw [notifyWait1_plain h2 hs, hn2]; rfl
  · exact ⟨_, notifyWait2_notified h2 hn2⟩

end C08
end LoomVerif

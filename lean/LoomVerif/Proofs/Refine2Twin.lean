/-
Refinement, WAIT fragment, part 5: what one stage of the twin does to the components the abstraction relation
reads: the scheduling points are `Quiet2`; `notifyWait1` (with its spurious branch), `sendEffect`, `recvEffect`
spelled out; none of the helpers touches `World.notifyWaiting`.
-/
import LoomVerif.Proofs.Refine2Obj2
import LoomVerif.Proofs.InterpMaxTh

namespace LoomVerif
namespace Refine2
open Refine Sy C07 C08

/-- a step that changes nothing the relation reads, except (possibly) the control table and the thread table -/
structure Quiet2 (w w' : World) : Prop where
  prog : w'.prog = w.prog
  spawned : w'.spawned = w.spawned
  events : w'.events = w.events
  len : w'.exec.threads.threads.length = w.exec.threads.threads.length
  view : ViewLe2 w.exec.objs w'.exec.objs
  nw : w'.notifyWaiting = w.notifyWaiting

theorem Quiet2.refl (w : World) : Quiet2 w w := ⟨rfl, rfl, rfl, rfl, ViewLe2.refl _, rfl⟩

theorem Quiet2.trans {a b c : World} (h1 : Quiet2 a b) (h2 : Quiet2 b c) : Quiet2 a c :=
  ⟨h2.prog.trans h1.prog, h2.spawned.trans h1.spawned, h2.events.trans h1.events, h2.len.trans h1.len,
    h1.view.trans h2.view, h2.nw.trans h1.nw⟩

theorem branch_quiet2 {w w' : World} {o : Nat} {a : Action} {blk wt : Bool}
    (h : w.branch o a blk wt = .ok w') : Quiet2 w w' ∧ w'.ctl = w.ctl ∧ InRange w' := by
  have hr := branch_inRange h
  unfold World.branch at h
  simp only [bind, Except.bind, pure, Except.pure] at h
  split at h
  · cases h
  · next v hv' =>
    cases h
    have hl := @schedule_len _ v.1 v.2 _ hv'
    have hv := ViewLe2.of_touched (@schedule_objs2 _ v.1 v.2 _ hv')
    refine ⟨⟨rfl, rfl, rfl, ?_, hv, rfl⟩, rfl, hr⟩
    rw [hl]
    simp [World.ths, Threads.modifyActive, Threads.modify]

theorem threadDone_quiet2 {w w' : World} (h : w.threadDone = .ok w') :
    Quiet2 w w' ∧ w'.ctl = w.ctl ∧ InRange w' := by
  have hr := threadDone_inRange h
  unfold World.threadDone at h
  simp only [bind, Except.bind, pure, Except.pure] at h
  split at h
  · cases h
  · next v hv' =>
    cases h
    have hl := @schedule_len _ v.1 v.2 _ hv'
    have hv := ViewLe2.of_touched (@schedule_objs2 _ v.1 v.2 _ hv')
    refine ⟨⟨rfl, rfl, rfl, ?_, hv, rfl⟩, rfl, hr⟩
    rw [hl]
    simp [World.ths, Threads.modifyActive, Threads.modify]

theorem yieldNow_quiet2 {w w' : World} (h : w.yieldNow = .ok w') :
    Quiet2 w w' ∧ w'.ctl = w.ctl ∧ InRange w' := by
  unfold World.yieldNow at h
  simp only [bind, Except.bind, pure, Except.pure] at h
  split at h
  · cases h
  · next v hv' =>
    cases h
    have hl := @schedule_len _ v.1 v.2 _ hv'
    have hv := ViewLe2.of_touched (@schedule_objs2 _ v.1 v.2 _ hv')
    refine ⟨⟨rfl, rfl, rfl, ?_, hv, rfl⟩, rfl, @schedule_inRange _ v.1 v.2 _ hv'⟩
    rw [hl]
    simp [World.ths, Threads.modifyActive, Threads.modify]

theorem blockNow_quiet2 {w w' : World} (h : w.blockNow = .ok w') :
    Quiet2 w w' ∧ w'.ctl = w.ctl ∧ InRange w' := by
  unfold World.blockNow at h
  simp only [bind, Except.bind, pure, Except.pure] at h
  split at h
  · cases h
  · next v hv' =>
    cases h
    have hl := @schedule_len _ v.1 v.2 _ hv'
    have hv := ViewLe2.of_touched (@schedule_objs2 _ v.1 v.2 _ hv')
    refine ⟨⟨rfl, rfl, rfl, ?_, hv, rfl⟩, rfl, @schedule_inRange _ v.1 v.2 _ hv'⟩
    rw [hl]
    simp [World.ths, Threads.modifyActive, Threads.modify]

/-- `rt::park`: either the stored token is consumed (no scheduling point: the active thread stays) or the
thread parks and the scheduler runs -/
theorem parkNow_quiet2 {w w' : World} (hin : w.tid < w.exec.threads.threads.length)
    (h : w.parkNow = .ok w') : Quiet2 w w' ∧ w'.ctl = w.ctl ∧ InRange w' := by
  unfold World.parkNow at h
  simp only [bind, Except.bind, pure, Except.pure] at h
  split at h
  · cases h
    refine ⟨⟨rfl, rfl, rfl, ?_, ViewLe2.refl _, rfl⟩, rfl, ?_⟩
    · simp [World.setThs, World.ths, Threads.modifyActive, Threads.modify]
    · intro _
      show (World.setThs w _).tid < _
      have e : (World.setThs w (w.ths.modifyActive fun th =>
          ({ th with token := false } : Thread).acquireUnpark)).tid = w.tid := rfl
      rw [e]
      simpa [World.setThs, World.ths, Threads.modifyActive, Threads.modify] using hin
  · split at h
    · cases h
    · next v hv' =>
      cases h
      have hl := @schedule_len _ v.1 v.2 _ hv'
      have hv := ViewLe2.of_touched (@schedule_objs2 _ v.1 v.2 _ hv')
      refine ⟨⟨rfl, rfl, rfl, ?_, hv, rfl⟩, rfl, @schedule_inRange _ v.1 v.2 _ hv'⟩
      rw [hl]
      simp [World.ths, Threads.modifyActive, Threads.modify]

/-! ### `notifyWaiting` is only written by `nWait` itself -/

theorem postAcquire_nw {w : World} {o : Nat} {r : World × Bool} (h : w.postAcquire o = .ok r) :
    r.1.notifyWaiting = w.notifyWaiting := by
  unfold World.postAcquire at h
  mt_split h
  all_goals first | (cases h; done) | (cases h; rfl)

theorem releaseLock_nw {w w' : World} {o : Nat} (h : w.releaseLock o = .ok w') :
    w'.notifyWaiting = w.notifyWaiting := by
  unfold World.releaseLock at h
  mt_split h
  all_goals first | (cases h; done) | (cases h; rfl)

theorem notifyEffect_nw {w w' : World} {o : Nat} (h : w.notifyEffect o = .ok w') :
    w'.notifyWaiting = w.notifyWaiting := by
  unfold World.notifyEffect at h
  mt_split h
  all_goals first | (cases h; done) | (cases h; rfl)

theorem notifyWait2_nw {w w' : World} {o : Nat} (h : w.notifyWait2 o = .ok w') :
    w'.notifyWaiting = w.notifyWaiting := by
  unfold World.notifyWait2 at h
  mt_split h
  all_goals first | (cases h; done) | (cases h; rfl)

/-! ### the first half of `Notify::wait`, in general -/

theorem notifyWait1_obs2 {w : World} {o : Nat} {ns : NotifySt} {w1 : World} {st : Nat}
    (hn : w.exec.objs[o]? = some (.notify ns)) (h : w.notifyWait1 o = .ok (w1, st)) :
    w1.ctl = w.ctl ∧ w1.prog = w.prog ∧ w1.spawned = w.spawned ∧ w1.events = w.events ∧
    w1.notifyWaiting = w.notifyWaiting ∧
    w1.exec.threads.threads.length = w.exec.threads.threads.length ∧ InRange w1 ∧
    ((st = 1 ∧ ViewLe2 w.exec.objs w1.exec.objs) ∨
     (st = 2 ∧ ns.spurious = true ∧ ns.didSpur = false ∧
       ViewLe2 (w.exec.objs.set o (.notify { ns with didSpur := true })) w1.exec.objs)) := by
  by_cases hs : (ns.spurious && !ns.didSpur) = false
  · rw [notifyWait1_plain hn hs] at h
    obtain ⟨w2, hb, he⟩ := map_ok h
    cases he
    obtain ⟨hq, hc, hr⟩ := branch_quiet2 hb
    exact ⟨hc, hq.prog, hq.spawned, hq.events, hq.nw, hq.len, hr, .inl ⟨rfl, hq.view⟩⟩
  · have hsp : ns.spurious = true := by cases hh : ns.spurious <;> simp [hh] at hs ⊢
    have hd : ns.didSpur = false := by cases hh : ns.didSpur <;> simp [hh] at hs ⊢
    rw [notifyWait1_maySpur hn hsp hd] at h
    split at h
    · cases h
    · next p hp =>
      obtain ⟨w2, hb, he⟩ := map_ok h
      cases he
      obtain ⟨hq, hc, hr⟩ := yieldNow_quiet2 hb
      exact ⟨hc, hq.prog, hq.spawned, hq.events, hq.nw, hq.len, hr, .inr ⟨rfl, hsp, hd, hq.view⟩⟩
    · next p hp =>
      obtain ⟨w2, hb, he⟩ := map_ok h
      cases he
      obtain ⟨hq, hc, hr⟩ := branch_quiet2 hb
      exact ⟨hc, hq.prog, hq.spawned, hq.events, hq.nw, hq.len, hr, .inl ⟨rfl, hq.view⟩⟩

/-! ### channels -/

theorem forOthers_len (w : World) (q : Operation → Bool) (f : Thread → Thread) :
    (w.forOthers q f).exec.threads.threads.length = w.exec.threads.threads.length := by
  simp [World.forOthers, World.setThs, World.ths]

theorem sendEffect_obs {w : World} {o : Nat} {cs : ChanSt} {v : Int} {w1 : World}
    (hc : w.exec.objs[o]? = some (.chan cs)) (h : w.sendEffect o v = .ok w1) :
    w1.ctl = w.ctl ∧ w1.tid = w.tid ∧ w1.prog = w.prog ∧ w1.spawned = w.spawned ∧ w1.events = w.events ∧
    w1.notifyWaiting = w.notifyWaiting ∧
    w1.exec.threads.threads.length = w.exec.threads.threads.length ∧
    ∃ cs' : ChanSt, cs'.msgCnt = cs.msgCnt + 1 ∧ cs'.queue = cs.queue ++ [v] ∧
      w1.exec.objs = w.exec.objs.set o (.chan cs') := by
  unfold World.sendEffect at h
  simp only [getChan_of hc, bind, Except.bind, pure, Except.pure] at h
  split at h
  · cases h
    exact ⟨rfl, rfl, rfl, rfl, rfl, rfl, forOthers_len _ _ _, _, rfl, rfl, rfl⟩
  · cases h
    exact ⟨rfl, rfl, rfl, rfl, rfl, rfl, rfl, _, rfl, rfl, rfl⟩

theorem recvEffect_obs {w : World} {o : Nat} {cs : ChanSt} {v : Int} {w1 : World}
    (hc : w.exec.objs[o]? = some (.chan cs)) (h : w.recvEffect o = .ok (w1, v)) :
    cs.msgCnt ≠ 0 ∧
    w1.ctl = w.ctl ∧ w1.tid = w.tid ∧ w1.prog = w.prog ∧ w1.spawned = w.spawned ∧ w1.events = w.events ∧
    w1.notifyWaiting = w.notifyWaiting ∧
    w1.exec.threads.threads.length = w.exec.threads.threads.length ∧
    ∃ (cs' : ChanSt) (rest : List Int), cs.queue = v :: rest ∧ cs'.msgCnt = cs.msgCnt - 1 ∧ cs'.queue = rest ∧
      w1.exec.objs = w.exec.objs.set o (.chan cs') := by
  unfold World.recvEffect at h
  simp only [getChan_of hc, bind, Except.bind, pure, Except.pure, throw, throwThe, MonadExceptOf.throw] at h
  split at h
  · cases h
  · next hcnt =>
    have hcnt' : cs.msgCnt ≠ 0 := by simpa using hcnt
    split at h
    · next sy rest' v' q hsy hq =>
      split at h
      · cases h
        refine ⟨hcnt', rfl, rfl, rfl, rfl, rfl, rfl, ?_, _, q, hq, rfl, rfl, rfl⟩
        rw [forOthers_len]
        simp [World.setThs, World.setObj, World.setObjs, World.ths, Threads.syncLoad, Threads.setCaus,
          Threads.modifyActive, Threads.modify]
      · cases h
        refine ⟨hcnt', rfl, rfl, rfl, rfl, rfl, rfl, ?_, _, q, hq, rfl, rfl, rfl⟩
        simp [World.setThs, World.setObj, World.setObjs, World.ths, Threads.syncLoad, Threads.setCaus,
          Threads.modifyActive, Threads.modify]
    · cases h

/-! ### typed getters -/

theorem getChan_ok2 {w : World} {o : Nat} {cs : ChanSt} (h : w.getChan o = .ok cs) :
    w.exec.objs[o]? = some (.chan cs) := by
  unfold World.getChan at h
  split at h
  · next a heq => cases h; exact heq
  · cases h

theorem getCv_ok2 {w : World} {o : Nat} {cs : CondvarSt} (h : w.getCv o = .ok cs) :
    w.exec.objs[o]? = some (.condvar cs) := by
  unfold World.getCv at h
  split at h
  · next a heq => cases h; exact heq
  · cases h

end Refine2
end LoomVerif

/-
C20: the reference count of the `block_on` waker (`Arc<rt::Notify>`): `wakerClone` / `wakerDrop`.
-/
import LoomVerif.Props.C11

namespace LoomVerif
namespace C20
open C11 WB World

theorem wakerDrop_eq (w : World) (a : Nat) :
    w.wakerDrop a = (do
      let (w1, last) ← w.refDecEffect (w.arcInfo a).obj
      w1.afterDec a last) := rfl

theorem wakerClone_eq {w : World} {a : Nat} {s : ArcSt}
    (hg : w.getArc (w.arcInfo a).obj = .ok s) :
    w.wakerClone a = .ok
      ((w.setObj (w.arcInfo a).obj (.arc { s with refCnt := s.refCnt + 1 })).modArc a
        fun i => { i with stdCount := i.stdCount + 1 }) := by
  unfold World.wakerClone
  simp only [hg, bind, Except.bind, pure, Except.pure]

theorem getArc_ok' {w : World} {o : Nat} {m : ArcSt} (h : w.getArc o = .ok m) :
    w.exec.objs[o]? = some (.arc m) := by
  unfold World.getArc at h; split at h <;> cases h; assumption

/-- a waker clone: both counts go up by one, nothing else about the allocation changes -/
theorem wakerClone_counts {w w' : World} {a : Nat} {s : ArcSt} (ha : a < w.arcs.length)
    (hg : w.getArc (w.arcInfo a).obj = .ok s) (h : w.wakerClone a = .ok w') :
    w'.getArc (w.arcInfo a).obj = .ok { s with refCnt := s.refCnt + 1 } ∧
    (w'.arcInfo a).stdCount = (w.arcInfo a).stdCount + 1 ∧
    (w'.arcInfo a).obj = (w.arcInfo a).obj ∧
    (w'.arcInfo a).registered = (w.arcInfo a).registered := by
  rw [wakerClone_eq hg] at h
  cases h
  have hi : ((w.setObj (w.arcInfo a).obj (.arc { s with refCnt := s.refCnt + 1 })).modArc a
      fun i => { i with stdCount := i.stdCount + 1 }).arcInfo a =
      { w.arcInfo a with stdCount := (w.arcInfo a).stdCount + 1 } :=
    arcInfo_modArc_self (w.setObj _ _) a _ ha
  refine ⟨?_, by rw [hi], by rw [hi], by rw [hi]⟩
  have hlt : (w.arcInfo a).obj < w.exec.objs.length :=
    (List.getElem?_eq_some_iff.1 (getArc_ok' hg)).1
  unfold World.getArc
  show (match (w.exec.objs.set (w.arcInfo a).obj _)[(w.arcInfo a).obj]? with
    | some (.arc x) => _ | _ => _) = _
  simp [hlt]

theorem afterDec_exec {w w' : World} {a : Nat} {last : Bool} (h : w.afterDec a last = .ok w') :
    w'.exec = w.exec := by
  rw [afterDec_eq] at h
  repeat' split at h
  all_goals first | (cases h; done) | (cases h; rfl)

/-- dropping a waker clone: both counts go down by one; the allocation is unregistered exactly
when the count reaches zero (and then the wrapped `std` count was 1) -/
theorem wakerDrop_counts {w w' : World} {a : Nat} {s : ArcSt} (ha : a < w.arcs.length)
    (hg : w.getArc (w.arcInfo a).obj = .ok s) (h : w.wakerDrop a = .ok w') :
    ∃ s', w'.getArc (w.arcInfo a).obj = .ok s' ∧ s'.refCnt + 1 = s.refCnt ∧
      (w'.arcInfo a).stdCount = (w.arcInfo a).stdCount - 1 ∧
      (w'.arcInfo a).registered = ((w.arcInfo a).registered && !(s'.refCnt == 0)) ∧
      (s'.refCnt = 0 → (w.arcInfo a).registered = true ∧ (w.arcInfo a).stdCount = 1) := by
  rw [wakerDrop_eq] at h
  obtain ⟨⟨w1, last⟩, h1, h2⟩ := WB.bind_eq_ok h
  obtain ⟨s', hs', hcnt, hlast⟩ := ArcObj.drop_once.2.1 w w1 _ s last hg h1
  have harcs : w1.arcs = w.arcs :=
    ((ArcObj.refines_refcount_refDec w _ s hg).2.2 w1 last h1).2.2.2.2.2.1
  have hinfo : w1.arcInfo a = w.arcInfo a := by unfold World.arcInfo; rw [harcs]
  have ha1 : a < w1.arcs.length := by rw [harcs]; exact ha
  dsimp only at h2
  obtain ⟨hreg, hl⟩ := ArcObj.drop_once.1 w1 w' a last ha1 h2
  rw [hinfo] at hreg hl
  have hexec := afterDec_exec h2
  refine ⟨s', ?_, hcnt, ?_, ?_, ?_⟩
  · unfold World.getArc at hs' ⊢; rw [hexec]; exact hs'
  · rw [afterDec_eq] at h2
    cases last with
    | true =>
      obtain ⟨_, h1c⟩ := hl rfl
      rw [hinfo] at h2
      simp only [if_true, h1c, ne_eq, not_true_eq_false, if_false] at h2
      split at h2
      · cases h2
      · cases h2
        rw [arcInfo_modArc_self w1 a _ ha1, h1c]
    | false =>
      simp only [Bool.false_eq_true, if_false, Except.ok.injEq] at h2
      subst h2
      rw [arcInfo_modArc_self w1 a _ ha1, hinfo]
  · rw [hreg]
    cases last with
    | true =>
      have := hlast.1 rfl
      simp [this]
    | false =>
      have : ¬ s'.refCnt = 0 := fun e => by have := hlast.2 e; cases this
      simp [this]
  · intro e0
    exact hl (hlast.2 e0)

end C20
end LoomVerif

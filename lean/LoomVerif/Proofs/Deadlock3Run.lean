/-
Deadlock soundness, FUTURES fragment, part 14: the initial world satisfies the strengthened relation `RB4`; the
one-stage results lift to `World.runLoop`: a run that satisfies `okRun4` and ends with the panic "deadlock" has
reached a world related to a reference state that is deadlocked, or whose successor by one enabled step is.
-/
import LoomVerif.Proofs.Deadlock3Step

set_option linter.unusedSimpArgs false
set_option linter.unusedVariables false

namespace LoomVerif
namespace Deadlock3
open Refine Refine4 Deadlock Deadlock2 Sy

/-! ### the initial world -/

theorem futObjs_mem {k : Nat} {x : Obj} (h : x ∈ futObjs k) : ∃ m : MutexSt, x = .mutex m ∧ m.lock = none := by
  induction k with
  | zero => cases h
  | succ k ih =>
    simp only [futObjs, List.cons_append, List.nil_append, List.mem_cons] at h
    rcases h with rfl | rfl | h
    · exact ⟨_, rfl, rfl⟩
    · exact ⟨_, rfl, rfl⟩
    · exact ih h

/-- every mutex of the initial world is free -/
theorem init_free {prog : Prog} {e : Exec} {w : World} (h : World.init prog e = .ok w) :
    ∀ (o : Nat) (m : MutexSt), w.exec.objs[o]? = some (.mutex m) → m.lock = none := by
  unfold World.init at h
  simp only [Except.bind_eq_ok'] at h
  obtain ⟨a1, h1, a2, h2, a3, h3, a4, h4, a5, h5, a6, h6, a7, h7, a8, h8, h⟩ := h
  cases h
  rw [forIn_pure] at h2 h3 h4 h5 h6 h7
  cases h2; cases h3; cases h4; cases h5; cases h6; cases h7
  obtain ⟨e1, e2⟩ := forIn_futs _ _ _ _ h8
  intro o m ho
  have hmem : Obj.mutex m ∈ a8.1 := List.mem_of_getElem? ho
  rw [e1] at hmem
  have hA : ∀ x ∈ a1, ∃ a, x = Obj.atomic a := by
    rcases forIn_try' _ _ _ _ _ h1 with ⟨_, hr⟩ | ⟨v, _, hr⟩
    · rw [hr]; intro x hx; cases hx
    · rw [hr]
      intro x hx
      simp only [List.nil_append] at hx
      exact ⟨v, List.eq_of_mem_replicate hx⟩
  simp only [List.mem_append] at hmem
  rcases hmem with (((((( hm | hm) | hm) | hm) | hm) | hm) | hm) | hm
  · obtain ⟨a, ha⟩ := hA _ hm; cases ha
  · have := List.eq_of_mem_replicate hm; cases this
  · have := List.eq_of_mem_replicate hm; cases this; rfl
  · have := List.eq_of_mem_replicate hm; cases this
  · have := List.eq_of_mem_replicate hm; cases this
  · have := List.eq_of_mem_replicate hm; cases this
  · have := List.eq_of_mem_replicate hm; cases this
  · obtain ⟨m', hm', hl⟩ := futObjs_mem hm
    cases hm'; exact hl

/-- **the initial world satisfies the strengthened relation** -/
theorem init_RB4 {prog : Prog} {e : Exec} {w : World} (hwf : WFD prog) (hf : Refine2.FreshExec2 e)
    (hp : ReplayOK e.path) (h : World.init prog e = .ok w) : RB4 w (SC.init prog) ∧ w.prog = prog := by
  obtain ⟨hR, hprog⟩ := init_R4 hwf.1 hf.fresh h
  obtain ⟨_, hc, hs, hth, hfuts, A, B, hA, hAv, hB, hobjs⟩ := init_shape4 h
  have hfree := init_free h
  have hget : ∀ i, w.ths.get i = {} := by
    intro i
    show w.exec.threads.threads.getD i {} = {}
    rw [hth, hf.1]
    cases i with
    | zero => rfl
    | succ i => simp [List.getD]
  have htid : w.tid = 0 := by
    show w.exec.threads.activeId = 0
    rw [hth]; unfold Threads.activeId; rw [hf.2]; rfl
  have hnomutex : ∀ (o t : Nat), (ovW w)[o]? = some (.mutex (some t)) → False := by
    intro o t hv
    obtain ⟨m, hm, hl⟩ := ov_mutex_inv hv
    rw [hfree o m hm] at hl
    cases hl
  refine ⟨⟨hR, ⟨?_, ?_, ?_, ?_, ?_, ?_, ?_, ?_⟩, by rw [init_path h]; exact hp⟩, hprog⟩
  · intro i hb
    have : (w.ths.get i).state = .blocked := hb
    rw [hget i] at this
    cases this
  · intro i hi
    have hi0 : i = 0 := by rw [hc] at hi; simpa using hi
    subst hi0
    refine ⟨fun hb => ?_, fun ht => ?_, fun hn => absurd htid.symm hn⟩
    · rw [hget 0] at hb; cases hb
    · rw [hget 0] at ht; cases ht
  · intro o t hv
    exact (hnomutex o t hv).elim
  · -- the mutexes of the futures
    intro f hf'
    rw [hprog] at hf' ⊢
    have hv : ovW w = A.map ov4 ++ B.map ov4 ++ (futObjs prog.cfg.nFutures).map ov4 := by
      show w.exec.objs.map ov4 = _
      simp [hobjs]
    have hmb : prog.cfg.nAtomics ≤ mbase prog := by simp [mbase]; omega
    have hlen : (A.map ov4 ++ B.map ov4).length = mbase prog := by simp [hA, hB]; omega
    constructor
    · obtain ⟨m, h1, h2⟩ := futObjs_get prog.cfg.nFutures (2 * f) (by omega)
      refine ⟨none, ?_⟩
      rw [hv, List.getElem?_append_right (by rw [hlen]; omega), hlen]
      have : mbase prog + 2 * f - mbase prog = 2 * f := by omega
      rw [this, List.getElem?_map, h1]
      simp [ov4, h2]
    · obtain ⟨m, h1, h2⟩ := futObjs_get prog.cfg.nFutures (2 * f + 1) (by omega)
      refine ⟨none, ?_⟩
      rw [hv, List.getElem?_append_right (by rw [hlen]; omega), hlen]
      have : mbase prog + 2 * f + 1 - mbase prog = 2 * f + 1 := by omega
      rw [this, List.getElem?_map, h1]
      simp [ov4, h2]
  · rw [Jnd4, hs]; intro b i n h1; cases h1
  · rw [hs]; intro e1 e2 h1; cases h1
  · rw [hs]; intro b i n h1; cases h1
  · intro i hi hne
    have hi0 : i = 0 := by rw [hc] at hi; simpa using hi
    exact absurd (hi0.trans htid.symm) hne

/-! ### runs -/

/-- the simulation along `runLoop`, whatever the way the run ends (under `okRun4`): the world returned is related
(`RB4`) to the end of an execution of the reference semantics; if the run ends with a panic other than the
exhaustion of the fuel, it is the panic of the next stage of the world returned -/
theorem runLoop_RB4 (p : Prog) (s0 : SC.St) (hwf : WFD p) :
    ∀ (fuel : Nat) (w w' : World) (r : Option Panic) (s : SC.St), w.prog = p → RB4 w s → InRange w →
      Refine2.SCExec2 p s0 s → okRun4 fuel w = true → World.runLoop fuel w = (w', r) →
      ∃ s', Refine2.SCExec2 p s0 s' ∧ RB4 w' s' ∧ w'.prog = p ∧ InRange w' ∧
        (∀ e, r = some e → e ≠ .fuel →
          w'.ths.isActive = true ∧ resumeOk4 w' = true ∧ w'.stepActive = .error e) := by
  intro fuel
  induction fuel with
  | zero =>
    intro w w' r s hp hRB hrange hrun _ h
    simp only [World.runLoop, Prod.mk.injEq] at h
    obtain ⟨rfl, rfl⟩ := h
    exact ⟨s, hrun, hRB, hp, hrange, fun e he hne => by cases he; exact absurd rfl hne⟩
  | succ fuel ih =>
    intro w w' r s hp hRB hrange hrun hok h
    unfold World.runLoop at h
    unfold okRun4 at hok
    split at h
    · simp only [Prod.mk.injEq] at h
      obtain ⟨rfl, rfl⟩ := h
      exact ⟨s, hrun, hRB, hp, hrange, fun e he => by cases he⟩
    · next hact =>
      have hact' : w.ths.isActive = true := by simpa using hact
      have hlen : w.ctl.length = w.exec.threads.threads.length := hRB.r.lenCtl
      have hin : w.tid < w.ctl.length := by rw [hlen]; exact hrange hact'
      rw [if_neg hact] at hok
      simp only [Bool.and_eq_true] at hok
      obtain ⟨hok1, hok2⟩ := hok
      split at h
      · next e hstep =>
        simp only [Prod.mk.injEq] at h
        obtain ⟨rfl, rfl⟩ := h
        exact ⟨s, hrun, hRB, hp, hrange, fun e' he _ => by cases he; exact ⟨hact', hok1, hstep⟩⟩
      · next w1 hstep =>
        rw [hstep] at hok2
        obtain ⟨hp1, ⟨s1, hex, hR1⟩, hr1⟩ := step_sim4 (by rw [hp]; exact hwf.1) hRB.r hin hok1 hstep
        have hout := step_out (by rw [hp]; exact hwf) hRB hact' hin hok1
        rw [hstep] at hout
        obtain ⟨hJ1, hrp1, _⟩ : JB4 w1 ∧ ReplayOK w1.exec.path ∧ _ := hout
        rw [hp] at hex
        exact ih w1 w' r s1 (hp1.trans hp) ⟨hR1, hJ1, hrp1⟩ hr1 (exec_trans hrun hex) hok2 h

/-- the path invariant of `Proofs/DeadlockCheck.lean` along `runLoop`: a run that satisfies `okRun4` and completes
ends in a world whose path is well-formed and all of whose `Schedule` entries but possibly the last have an active
thread -/
theorem runLoop_PI4 (p : Prog) (hwf : WFD p) :
    ∀ (fuel : Nat) (w w' : World) (s : SC.St), w.prog = p → RB4 w s → InRange w → PI w →
      okRun4 fuel w = true → World.runLoop fuel w = (w', none) →
      w'.exec.path.WF ∧ AllButLastOK w'.exec.path := by
  intro fuel
  induction fuel with
  | zero =>
    intro w w' s _ _ _ _ _ h
    simp [World.runLoop] at h
  | succ fuel ih =>
    intro w w' s hp hRB hrange hpi hok h
    unfold World.runLoop at h
    unfold okRun4 at hok
    split at h
    · simp only [Prod.mk.injEq, and_true] at h
      subst h
      exact ⟨hpi.1, hpi.2.1⟩
    · next hact =>
      have hact' : w.ths.isActive = true := by simpa using hact
      have hlen : w.ctl.length = w.exec.threads.threads.length := hRB.r.lenCtl
      have hin : w.tid < w.ctl.length := by rw [hlen]; exact hrange hact'
      rw [if_neg hact] at hok
      simp only [Bool.and_eq_true] at hok
      obtain ⟨hok1, hok2⟩ := hok
      split at h
      · cases h
      · next w1 hstep =>
        rw [hstep] at hok2
        obtain ⟨hp1, ⟨s1, hex, hR1⟩, hr1⟩ := step_sim4 (by rw [hp]; exact hwf.1) hRB.r hin hok1 hstep
        have hout := step_out (by rw [hp]; exact hwf) hRB hact' hin hok1
        rw [hstep] at hout
        obtain ⟨hJ1, hrp1, hpi1⟩ : JB4 w1 ∧ ReplayOK w1.exec.path ∧
          (w.exec.path.WF ∧ AllOK w.exec.path → PI w1) := hout
        exact ih w1 w' s1 (hp1.trans hp) ⟨hR1, hJ1, hrp1⟩ hr1 (hpi1 ⟨hpi.1, hpi.2.2 hact'⟩) hok2 h

end Deadlock3
end LoomVerif

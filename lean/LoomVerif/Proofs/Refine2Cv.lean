/-
Refinement, WAIT fragment, part 13: the condvar.  `cvWait v m` is two reference steps: the first half (release
the mutex, join the queue) is the twin's stage 1 (`waiters ++ [tid]`, `releaseLock`, `blockNow`); the second half
(re-acquire the mutex) is the twin's stage 3 (`postAcquire`).  `cvOne v` / `cvAll v` take waiters off the list
(`Threads.wake`) and notify the reference threads.

Run-level hypothesis `cvResumeOk`: the schedule does not resume a thread that is still in a condvar's waiter
list (a path to replay can name any thread; the twin's stage 2 of `cvWait` does not look at the waiter list).
-/
import LoomVerif.Proofs.Refine2CvRel
import LoomVerif.Proofs.C08Condvar

namespace LoomVerif
namespace Refine2
open Refine Sy C07 C08

/-- the active thread, if it is at stage 2 of a `cvWait v m` (blocked by `rt::block` until `Set::wake`), is no
longer in the waiter list of `v` -/
def cvResumeOk (w : World) : Bool :=
  match opAt2 w with
  | some (.cvWait v _) =>
    if (w.ctlOf w.tid).stage = 2 then
      match w.exec.objs[w.cvObj v]? with
      | some (.condvar cs) => !cs.waiters.contains w.tid
      | _ => true
    else true
  | _ => true

theorem foldl_wake_len (l : List Nat) (s : Threads) :
    (l.foldl (fun ths t => ths.wake t) s).threads.length = s.threads.length ∧
    (l.foldl (fun ths t => ths.wake t) s).activeId = s.activeId := by
  induction l generalizing s with
  | nil => exact ⟨rfl, rfl⟩
  | cons a l ih =>
    simp only [List.foldl_cons]
    obtain ⟨h1, h2⟩ := ih (s.wake a)
    exact ⟨h1.trans (wake_length _ _), h2.trans (wake_activeId _ _)⟩

theorem foldl_modTh (l : List Nat) (d : SCData2) (f : DTh2 → DTh2) :
    l.foldl (fun d w => d.modTh w f) d = { d with ths := l.foldl (fun ths b => ths.modify b f) d.ths } := by
  induction l generalizing d with
  | nil => rfl
  | cons a l ih =>
    simp only [List.foldl_cons]
    rw [ih]
    rfl

theorem RX2.modRefAll {p : Prog} {ctl : List TCtl} (g : DTh2 → DTh2)
    (hg : ∀ x, (g x).pc = x.pc ∧ (g x).started = x.started ∧ (g x).finished = x.finished ∧ (g x).rets = x.rets) :
    ∀ (ws : List Nat) (ths : List DTh2), RX2 p ctl ths → (∀ i, i ∈ ws → i < ctl.length) →
      RX2 p ctl ((ws.map fun i => (ctl.getD i {}).body).foldl (fun ths b => ths.modify b g) ths) := by
  intro ws
  induction ws with
  | nil => intro ths h _; exact h
  | cons a ws ih =>
    intro ths h hlt
    simp only [List.map_cons, List.foldl_cons]
    exact ih _ (h.modRef (hlt a List.mem_cons_self) g hg) (fun i hi => hlt i (List.mem_cons_of_mem _ hi))

section
variable {w w' : World} {s : SCData2}

theorem hbl_of (hR : R2c w s) : ∀ i, i < w.ctl.length → (w.ctl.getD i {}).body < s.ths.length := by
  intro i hi
  rw [hR.x.len]; exact (hR.x.thr i hi).1

theorem sim_cvWait (hR : R2c w s) (hact : w.tid < w.ctl.length) {vi mi : Nat}
    (hop : opAt2 w = some (.cvWait vi mi)) (hv : vi < w.prog.cfg.nCondvars) (hm : mi < w.prog.cfg.nMutexes)
    (hok : cvResumeOk w = true)
    (h : w.runOp (w.ctlOf w.tid) (.cvWait vi mi) = .ok w') : Sim2c w s w' := by
  obtain ⟨_, hrel, hof⟩ := base2 hR hact
  have hop' : opOfCtl w.prog (w.ctl.getD w.tid {}) = some (.cvWait vi mi) := hop
  have hN : ∀ k, pendN w.prog { w.ctl.getD w.tid {} with stage := k } = none := fun k =>
    pendN_of_op (c := { w.ctl.getD w.tid {} with stage := k }) hop (by simp)
  have hN0 : pendN w.prog (w.ctl.getD w.tid {}) = none := pendN_of_op hop' (by simp)
  have hD : ∀ k, pendD w.prog { w.ctl.getD w.tid {} with stage := k } = none := fun k =>
    pendD_of_op (c := { w.ctl.getD w.tid {} with stage := k }) hop (by simp)
  have hD0 : pendD w.prog (w.ctl.getD w.tid {}) = none := pendD_of_op hop' (by simp)
  obtain ⟨ws, hws, hcq, hnd, hmem⟩ := hR.o.cv.q vi hv
  obtain ⟨cs, hcobj, hcws⟩ := objView2_condvar hws
  have hcobj' : w.exec.objs[w.cvObj vi]? = some (.condvar cs) := hcobj
  obtain ⟨l, hvm, hmap, hown⟩ := hR.o.y.mtx mi hm
  obtain ⟨ms, hmobj, hlock⟩ := objView2_mutex hvm
  have hmobj' : w.exec.objs[w.mutexObj mi]? = some (.mutex ms) := hmobj
  have hst : (w.ctlOf w.tid).stage ≤ 3 := by
    have := hrel.2.2.2.2.1
    rw [show opOfCtl w.prog (w.ctlOf w.tid) = some (.cvWait vi mi) from hop] at this
    simpa [maxStage] using this
  have hfin0 := fin_zero2 hR hact hop
  rw [runOp_cvWait] at h
  rcases Nat.lt_or_ge (w.ctlOf w.tid).stage 2 with hlt | hge
  · have hC0 : pendCv w.prog (w.ctlOf w.tid) = none := pendCv_lt hlt
    obtain ⟨c1, c2⟩ := cv_none hR hact hC0
    rcases Nat.lt_or_ge (w.ctlOf w.tid).stage 1 with h0 | h1
    · -- stage 0: the branch point
      have hs0 : (w.ctlOf w.tid).stage = 0 := by omega
      simp only [hs0] at h
      obtain ⟨hqt, hc, _⟩ := branch_quiet2 h
      exact sim_stage (k := 1) hR hact hop (by simp) hC0 (by simp [maxStage]) (by omega)
        (quiet2_setStage hqt) hc
    · -- stage 1: first half of the wait
      have hs1 : (w.ctlOf w.tid).stage = 1 := by omega
      simp only [hs1] at h
      simp only [getCv_of hcobj', bind, Except.bind] at h
      split at h
      · cases h
      · next w2 hrl =>
        have hm1 : (w.setObj (w.cvObj vi) (.condvar { cs with waiters := cs.waiters ++ [w.tid] })).exec.objs[
            w.mutexObj mi]? = some (.mutex ms) := by
          show (w.exec.objs.set _ _)[_]? = _
          rw [getElem?_set_ne' _ _ _ _ (by rw [cvObj_eq, mutexObj_eq]; unfold cvIdx mutexIdx; omega)]
          exact hmobj'
        obtain ⟨hc2, ht2, hp2, hs2, he2, hl2, m', hm', hobjs2⟩ := releaseLock_obs hm1 hrl
        have hnw2 := releaseLock_nw hrl
        obtain ⟨hq3, hc3, _⟩ := blockNow_quiet2 h
        -- the reference data after the first half
        let b := (w.ctlOf w.tid).body
        let g : DTh2 → DTh2 := fun h => { h with cvWaiting := some (vi, mi) }
        let s0 : SCData2 := { s with mutex := s.mutex.set mi none }
        let s' : SCData2 := ({ s0 with cvQueue := s.cvQueue.set vi (s.cvQueue.getD vi [] ++ [b]) }).modTh b g
        have hx : view2 (.condvar { cs with waiters := cs.waiters ++ [w.tid] }) = .condvar (ws ++ [w.tid]) := by
          simp [view2, hcws]
        have hvm1 : objView2 (w.exec.objs.set (cvIdx w.prog vi)
            (.condvar { cs with waiters := cs.waiters ++ [w.tid] })) (mutexIdx w.prog mi) = some (.mutex l) :=
          objView2_set_keep _ hws hvm (by intro e; cases e)
        have hRO : RO w.prog (w.ctl.modify w.tid fun c => { c with stage := 2 }) w.spawned
            ((w.exec.objs.set (cvIdx w.prog vi) (.condvar { cs with waiters := cs.waiters ++ [w.tid] })).set
              (mutexIdx w.prog mi) (.mutex m')) w.notifyWaiting s' := by
          refine ⟨?_, ?_, ?_, ?_⟩
          · have := ((hR.o.y.modify w.tid (fun c => { c with stage := 2 }) rfl id).setOther hws
              (.condvar { cs with waiters := cs.waiters ++ [w.tid] }) (by intro _ e; cases e)
              (by intro _ e; cases e) (by intro _ _ e; cases e)).setMutex hm (.mutex m') none
              (by simp [view2, hm']) (by intro i hi; cases hi)
            exact this
          · exact ((hR.o.ch.modify w.tid (fun c => { c with stage := 2 }) rfl (Nat.le_refl _)
              (by intro q hq; rw [hD0] at hq; cases hq)).setOther hws _ (by intro _ _ e; cases e)).setOther
              hvm1 _ (by intro _ _ e; cases e)
          · exact ((hR.o.n.modify w.tid (fun c => { c with stage := 2 }) ((hN 2).trans hN0.symm)).setOther hws _
              (by intro _ _ e; cases e)).setOther hvm1 _ (by intro _ _ e; cases e)
          · exact (hR.o.cv.enqueue hR.x.inj hact hv (hbl_of hR _ hact) hop' hlt hws _ hx).setOther
              hvm1 _ (by intro _ e; cases e)
        have hR' := R2c_stage' (s := s) (s' := s') (w' := w') hR hact hop 2 (by simp [maxStage])
          (by rw [hq3.prog]; exact hp2) (by rw [hq3.spawned]; exact hs2)
          (by rw [hq3.len]; exact hl2)
          (by rw [hc3]; show w2.ctl.modify w2.tid _ = _; rw [hc2, ht2]; rfl)
          (hR.x.modRef hact g (fun _ => ⟨rfl, rfl, rfl, rfl⟩))
          (by
            rw [hq3.nw]
            show RO _ _ _ _ w2.notifyWaiting _
            rw [hnw2]
            refine RO.viewLe ?_ hq3.view
            show RO _ _ _ w2.exec.objs _ _
            rw [hobjs2]
            exact hRO)
        refine ⟨by rw [hq3.prog]; exact hp2, hR'.2, .inr ⟨none, s',
          .inl ⟨enabled_plain2 hR hact hop hC0 (by simp) (by simp) (by simp) (by simp) (by simp), ?_⟩,
          hR'.1, ?_⟩⟩
        · unfold SCData2.stepL
          simp only [c2, hof, hop]
          simp [s', s0, b, g]
        · rw [hq3.events]
          show w2.events.map triple = _
          rw [he2]; rfl
  · have hC0 : pendCv w.prog (w.ctlOf w.tid) = some (vi, mi) := pendCv_at hop' hge
    obtain ⟨_, hth2⟩ := hR.o.cv.th w.tid hact
    rcases Nat.lt_or_ge (w.ctlOf w.tid).stage 3 with h2 | h3
    · -- stage 2: woken; the branch point of the re-acquisition
      have hs2 : (w.ctlOf w.tid).stage = 2 := by omega
      have hnot : w.tid ∉ ws := by
        unfold cvResumeOk at hok
        rw [hop] at hok
        simp only [hs2, if_true, hcobj'] at hok
        intro hmem'
        rw [← hcws] at hmem'
        have : cs.waiters.contains w.tid = true := List.contains_iff_mem.2 hmem'
        rw [this] at hok; cases hok
      simp only [hs2] at h
      simp only [getMutex_of hmobj', bind, Except.bind] at h
      obtain ⟨hq3, hc3, _⟩ := branch_quiet2 h
      have hC3 : pendCv w.prog { w.ctl.getD w.tid {} with stage := 3 } = some (vi, mi) :=
        pendCv_at (c := { w.ctl.getD w.tid {} with stage := 3 }) hop (by show 2 ≤ 3; omega)
      have hRO : RO w.prog (w.ctl.modify w.tid fun c => { c with stage := 3 }) w.spawned w.exec.objs
          w.notifyWaiting s :=
        ⟨hR.o.y.modify w.tid _ rfl id,
          hR.o.ch.modify w.tid _ rfl (Nat.le_refl _) (by intro q hq; rw [hD0] at hq; cases hq),
          hR.o.n.modify w.tid _ ((hN 3).trans hN0.symm),
          hR.o.cv.modify w.tid _ rfl (hC3.trans hC0.symm) (by
            intro v' ws' hv' hview ht
            exfalso
            obtain ⟨ws0, a1, _, _, a4⟩ := hR.o.cv.q v' hv'
            rw [a1] at hview
            have e0 : ws0 = ws' := by cases hview; rfl
            subst e0
            obtain ⟨_, _, m', hm'⟩ := a4 w.tid ht
            rw [show w.ctl.getD w.tid {} = w.ctlOf w.tid from rfl, hC0] at hm'
            cases hm'
            rw [a1] at hws
            have e1 : ws0 = ws := by cases hws; rfl
            subst e1
            exact hnot ht)⟩
      have hR' := R2c_stage' (s := s) (s' := s) (w' := w') hR hact hop 3 (by simp [maxStage])
        hq3.prog hq3.spawned hq3.len (by rw [hc3]; rfl) hR.x
        (by rw [hq3.nw]; exact hRO.viewLe hq3.view)
      exact ⟨hq3.prog, hR'.2, .inl ⟨hR'.1, hq3.events⟩⟩
    · -- stage 3: second half of the wait
      have hs3 : (w.ctlOf w.tid).stage = 3 := by omega
      have hnot : w.tid ∉ ws := by
        intro hmem'
        have := (hmem w.tid hmem').2.1
        rw [show w.ctl.getD w.tid {} = w.ctlOf w.tid from rfl, hs3] at this
        cases this
      obtain ⟨cw0, cn0⟩ := (hth2 vi mi ws hC0 hv hws).2 hnot
      have cw : (s.th (w.ctlOf w.tid).body).cvWaiting = none := cw0
      have cn : (s.th (w.ctlOf w.tid).body).cvNotified = some mi := cn0
      simp only [hs3] at h
      obtain ⟨⟨w1, okk⟩, hpa, h⟩ := bind_ok h
      obtain ⟨hk, hc1, ht1, hp1, hs1, he1, hl1, _, hobjs⟩ := postAcquire_obs hmobj' hpa
      have hnw := postAcquire_nw hpa
      cases okk with
      | false => simp [bind, Except.bind, throw, throwThe, MonadExceptOf.throw] at h
      | true =>
        simp only [Bool.not_true, Bool.false_eq_true, if_false, bind, Except.bind, pure, Except.pure] at h
        cases h
        have hl0 : l = none := by
          rw [← hlock]
          cases hh : ms.lock with
          | none => rfl
          | some i => rw [hh] at hk; cases hk
        subst hl0
        obtain ⟨e1, e2⟩ := started_running2 hR hact (by rw [hfin0]; omega)
        let b := (w.ctlOf w.tid).body
        let d : SCData2 := ({ s with mutex := s.mutex.set mi (some b) }).modTh b
          fun h => { h with cvNotified := none }
        have hRO : RO w.prog (w.ctl.modify w.tid (completeF .unit)) w.spawned
            (w.exec.objs.set (mutexIdx w.prog mi) (.mutex { ms with lock := some w.tid })) w.notifyWaiting
            (d.ret b .unit) := by
          refine ⟨?_, ?_, ?_, ?_⟩
          · exact (hR.o.y.setMutex hm _ (some w.tid) rfl (by intro i hi; cases hi; exact hact)).modify
              w.tid _ rfl id
          · exact (hR.o.ch.setOther hvm _ (by intro _ _ e; cases e)).modify w.tid _ rfl (Nat.le_succ _)
              (by intro q hq; rw [hD0] at hq; cases hq)
          · exact (hR.o.n.setOther hvm _ (by intro _ _ e; cases e)).modify w.tid _
              ((pendN_stage0 _ _ rfl).trans hN0.symm)
          · refine (((hR.o.cv.setOther hvm _ (by intro _ e; cases e)).leave hR.x.inj hact hv
              (hbl_of hR _ hact) hC0 (completeF .unit) rfl (pendCv_stage0 _ _ rfl) ?_).same
              (CvSame.modify _ b (fun h => { h with rets := (h.pc, Ret.unit) :: h.rets, pc := h.pc + 1 })
                fun _ => ⟨rfl, rfl⟩))
            intro ws' hview
            have := objView2_set_keep (.mutex { ms with lock := some w.tid }) hvm hws (by intro e; cases e)
            rw [this] at hview
            cases hview
            exact hnot
        have hR' := R2c_complete'' (s := s) (d := d) (w0 := w1) hR hact hop hc1 ht1 hp1 hs1 hl1
          (hR.x.modRef hact _ (fun _ => ⟨rfl, rfl, rfl, rfl⟩)) .unit
          (by rw [hobjs rfl, hnw]; exact hRO)
        refine ⟨hp1, hR'.2, .inr ⟨some ((s.th b).pc, .unit), d.ret b .unit, .inl ⟨?_, ?_⟩, hR'.1, ?_⟩⟩
        · unfold SCData2.enabled
          rw [e1, e2, cw, cn]
          simp only [Option.map_none] at hmap
          show (true && !false && (s.mutex.getD mi none).isNone) = true
          rw [← hmap]; rfl
        · unfold SCData2.stepL
          simp only [cn]
          simp [d, b]
        · rw [events_complete2, he1, ht1]
          show ((w1.ctlOf w.tid).body, (w1.ctlOf w.tid).pc, Ret.unit) :: _ = _
          rw [show w1.ctlOf w.tid = w.ctlOf w.tid by simp only [World.ctlOf, hc1], hrel.2.1]
          rfl

end

end Refine2
end LoomVerif

/-
Refinement, WAIT fragment, part 16: the one-step simulation for the core relation `R2c`, and the active thread
stays in the thread table.
-/
import LoomVerif.Proofs.Refine2Park
import LoomVerif.Proofs.C08Foot

set_option linter.unusedSimpArgs false
set_option linter.unusedVariables false

namespace LoomVerif
namespace Refine2
open Refine Sy C07 C08 Foot

/-- after the stage either the scheduler has run (and the active thread it chose is in the table) or the active
thread is the same -/
def TidOr (w w' : World) : Prop := InRange w' ∨ w'.tid = w.tid

theorem notifyWait1_inRange {w : World} {o : Nat} {r : World × Nat} (h : w.notifyWait1 o = .ok r) :
    InRange r.1 := by
  unfold World.notifyWait1 at h
  mt_split h
  all_goals first
    | (cases h; done)
    | (cases h; exact (yieldNow_quiet2 ‹World.yieldNow _ = Except.ok _›).2.2)
    | (cases h; exact (branch_quiet2 ‹World.branch _ _ _ _ _ = Except.ok _›).2.2)

theorem parkNow_tidOr {w w' : World} (h : w.parkNow = .ok w') : TidOr w w' := by
  unfold World.parkNow at h
  simp only [bind, Except.bind, pure, Except.pure] at h
  split at h
  · cases h; exact .inr rfl
  · split at h
    · cases h
    · next v hv' => cases h; exact .inl (@schedule_inRange _ v.1 v.2 _ hv')

macro "ir_close" h:ident : tactic => `(tactic|
  first
    | (cases $h:ident; done)
    | exact Or.inl (branch_quiet2 $h).2.2
    | exact Or.inl (blockNow_quiet2 $h).2.2
    | exact Or.inl (yieldNow_quiet2 $h).2.2
    | exact Or.inl (threadDone_quiet2 $h).2.2
    | exact (parkNow_tidOr $h).imp id (fun e => e)
    | (cases $h:ident; exact Or.inr rfl)
    | (cases $h:ident
       exact Or.inl (InRange.modCtl (notifyWait1_inRange ‹World.notifyWait1 _ _ = Except.ok _›) _ _))
    | (fs_sat1
       try (have := Exec.newThread_act ‹Exec.newThread _ = Except.ok _›)
       (try cases $h:ident)
       refine Or.inr ?_
       simp_all [Same]
       done))

theorem runOp_tidOr {w w' : World} {c : TCtl} {op : Op} (hok : opOk w.prog op = true)
    (h : w.runOp c op = .ok w') : TidOr w w' := by
  cases op <;> simp only [opOk, Bool.false_eq_true] at hok
  all_goals (simp only [World.runOp] at h; mt_split h)
  all_goals ir_close h

theorem runEpilogue_tidOr {w w' : World} (hq : (w.ctlOf w.tid).dtorQueue = [])
    (h : w.runEpilogue (w.ctlOf w.tid) = .ok w') : TidOr w w' := by
  have hdt : w.dropLocals.tid = w.tid := (dropLocals_foot w).1
  by_cases h10 : 10 ≤ (w.ctlOf w.tid).fin
  · rw [runEpilogue_finish w _ h10] at h
    unfold World.finishThread at h
    split at h
    · cases h
    · rw [dropPass_eq] at h
      split at h
      · cases h; exact .inr hdt
      · split at h
        · rw [hq] at h
          simp only at h
          exact .inl (threadDone_quiet2 h).2.2
        · rw [hq] at h
          cases h
  · have hlt : (w.ctlOf w.tid).fin < 10 := by omega
    by_cases ht0 : w.tid = 0
    · rw [runEpilogue_main w _ ht0 hlt] at h
      cases h
      exact .inr rfl
    · cases hf : w.spawned.find? (·.2.1 == w.tid) with
      | none =>
        unfold World.runEpilogue at h
        simp [h10, ht0, hf, bind, Except.bind, throw, throwThe, MonadExceptOf.throw] at h
      | some e =>
        obtain ⟨b, t, n⟩ := e
        have := List.find?_some hf
        simp only [beq_iff_eq] at this
        subst this
        rw [runEpilogue_spawned w _ b n ht0 hf hlt] at h
        split at h
        · cases h; exact .inr hdt
        · split at h
          · rw [dropPass_eq] at h
            split at h
            · cases h; exact .inr hdt
            · split at h
              · rw [hq] at h
                simp only at h
                exact .inl (branch_quiet2 h).2.2
              · rw [hq] at h
                cases h
          · obtain ⟨w1, h1, h⟩ := bind_ok h
            simp only [pure, Except.pure] at h
            cases h
            exact .inr (notifyEffect_same h1).2

section
variable {w w' : World} {s : SCData2}

/-- the run-level side condition of the completing stage of `park`: the reference thread holds a token (derived
from the token relation `RPk` and `parkResumeOk`, `Refine2Tok.lean`) -/
def ParkTok (w : World) (s : SCData2) : Prop :=
  opAt2 w = some .park → (w.ctlOf w.tid).stage ≠ 0 → (s.th (w.ctlOf w.tid).body).token = true

/-- **one-step simulation, core relation** -/
theorem step_sim2c (hwf : WF2 w.prog) (hR : R2c w s) (hact : w.tid < w.ctl.length)
    (hcv : cvResumeOk w = true) (hpk : ParkTok w s)
    (h : w.stepActive = .ok w') : Sim2c w s w' := by
  have hin : w.tid < w.exec.threads.threads.length := by rw [← hR.lenCtl]; exact hact
  unfold World.stepActive at h
  simp only at h
  cases hop : opAt2 w with
  | none =>
    unfold opAt2 opOfCtl at hop
    rw [hop] at h
    exact sim_epilogue hR hact hop h
  | some op =>
    have hop' := hop
    unfold opAt2 opOfCtl at hop'
    rw [hop'] at h
    simp only at h
    have hok := hwf.opOk hop'
    cases op <;> simp only [opOk, Bool.false_eq_true, Bool.and_eq_true, decide_eq_true_eq] at hok
    case cellRead c => exact sim_cellRead hR hact hop hok h
    case cellWrite c v => exact sim_cellWrite hR hact hop hok h
    case lock m => exact sim_lock hR hact hop hok h
    case tryLock m => exact sim_tryLock hR hact hop hok h
    case unlock m => exact sim_unlock hR hact hop hok h
    case spawn b => exact sim_spawn hwf hR hact hop h
    case join b => exact sim_join hR hact hop h
    case ifEq i r n => exact sim_ifEq hR hact hop h
    case send q v => exact sim_send hR hact hop hok h
    case recv q => exact sim_recv hwf hR hact hop hok h
    case tryRecv q => exact sim_tryRecv hwf hR hact hop hok h
    case dropRx q => exact sim_dropRx hwf hR hact hop hok h
    case nWait n => exact sim_nWait hR hact hop hok h
    case nNotify n => exact sim_nNotify hR hact hop hok h
    case park => exact sim_park hR hact hop hin (hpk hop) h
    case unpark u => exact sim_unpark hR hact hop h
    case cvWait v m => exact sim_cvWait hR hact hop hok.1 hok.2 hcv h
    case cvOne v => exact sim_cvOne hR hact hop hok h
    case cvAll v => exact sim_cvAll hR hact hop hok h

theorem stepActive_tidOr (hwf : WF2 w.prog) (hR : R2c w s) (hact : w.tid < w.ctl.length)
    (h : w.stepActive = .ok w') : TidOr w w' := by
  unfold World.stepActive at h
  simp only at h
  split at h
  · next op hop => exact runOp_tidOr (hwf.opOk hop) h
  · exact runEpilogue_tidOr (base2 hR hact).2.1.2.2.2.2.2.2 h

/-- after a successful stage the active thread, if there is one, is in the thread table -/
theorem step_inRange2 {s' : SCData2} (hwf : WF2 w.prog) (hR : R2c w s) (hact : w.tid < w.ctl.length)
    (h : w.stepActive = .ok w') (hR' : R2c w' s') (hc : CtlStep w w') : InRange w' := by
  rcases stepActive_tidOr hwf hR hact h with hr | ht
  · exact hr
  · intro _
    rw [ht, ← hR'.lenCtl]
    exact Nat.lt_of_lt_of_le hact hc.len

end

end Refine2
end LoomVerif

/-
Deadlock soundness, FUTURES fragment, part 6: the end of a stage.  The calculus on `Deadlock3.Out`; how the
twin-side invariant `JB4` is re-established from the world in the middle of the stage (`Mid`) — after a stage
without scheduling point, and after `Exec.schedule`; and what a scheduling point that panics with "deadlock" means:
never at a branch point that does not block, never at the lock of a mutex (its holder is never blocked).
-/
import LoomVerif.Proofs.Deadlock3Dead

set_option linter.unusedSimpArgs false
set_option linter.unusedVariables false

namespace LoomVerif
namespace Deadlock3
open Refine Refine4 Deadlock Deadlock2

/-! ### the calculus -/

section
variable {w : World} {s : SC.St}

theorem out_bind {α : Type} {m : Except Panic α} {f : α → Except Panic World} (hn : NoDL m)
    (k : ∀ a, m = .ok a → Out w s (f a)) : Out w s (m >>= f) := by
  cases h : m with
  | error e =>
    show Out w s (Except.error e)
    intro he
    exact absurd he (hn.h e h)
  | ok a => exact k a h

theorem out_error (e : Panic) (h : notDL e = true) : Out w s (Except.error e) :=
  fun he => absurd he (ne_of_notDL h)

theorem out_throw (e : Panic) (h : notDL e = true) : Out w s (throw e) := out_error e h

theorem out_throw_bind {α : Type} (e : Panic) (h : notDL e = true) (f : α → Except Panic World) :
    Out w s ((throw e : Except Panic α) >>= f) := out_error e h

/-- an error that is not the deadlock panic -/
theorem out_of_ne {r : Except Panic World} {e : Panic} (h : r = .error e) (hne : e ≠ .deadlock) : Out w s r := by
  rw [h]; exact fun he => absurd he hne

end

/-! ### what a stage has to say about the new control record of the active thread -/

/-- `G`: what the stage does to the control record of the active thread; `H`: the mutex it holds at the end; `K`:
the `Notify` objects whose flag it has consumed; `Fu`: the futures' table at the end; `ov1`: the objects at the
end -/
structure Pos (w : World) (G : TCtl → TCtl) (H : Option Nat) (K : List Nat) (Fu : List FutSt) (ov1 : List OV4) :
    Prop where
  body : (G (w.ctlOf w.tid)).body = (w.ctlOf w.tid).body
  pc : (w.ctlOf w.tid).pc ≤ (G (w.ctlOf w.tid)).pc
  /-- a mutex still held is held across the branch point the thread stands at -/
  hold : ∀ o, H = some o → holdsAt w.prog (G (w.ctlOf w.tid)) = some o
  /-- the `Notify` of the call another thread waits in is kept -/
  fut : ∀ i, i < w.ctl.length → i ≠ w.tid → ∀ f, wpos w.prog (w.ctlOf i) = some (.call f) →
    (Fu.getD f {}).notify = (w.futs.getD f {}).notify
  /-- the thread passes its notification only by notifying its join handle -/
  fin : ∀ b n, (b, w.tid, n) ∈ w.spawned → 10 ≤ (G (w.ctlOf w.tid)).fin →
    10 ≤ (w.ctlOf w.tid).fin ∨ ∃ sp ds, ov1[n]? = some (.notify sp true ds)
  /-- a join handle whose flag the stage has consumed: the `join` has been executed -/
  cons : ∀ n, n ∈ K → ∀ b i, (b, i, n) ∈ w.spawned →
    ∃ k, k < (G (w.ctlOf w.tid)).pc ∧ (w.prog.threads.getD (w.ctlOf w.tid).body [])[k]? = some (.join b)
  /-- no other thread waits on a `Notify` whose flag the stage has consumed -/
  avoid : ∀ n, n ∈ K → ∀ i, i < w.ctl.length → i ≠ w.tid → isNotifyPos (wpos w.prog (w.ctlOf i)) = true →
    ∀ op, (w.ths.get i).operation = some op → op.obj ≠ n

/-- the usual case: `body`, `fin` are kept, no flag is consumed, the futures' table keeps the `Notify` of every
call -/
theorem Pos.simple {w : World} {G : TCtl → TCtl} {H : Option Nat} {Fu : List FutSt} {ov1 : List OV4}
    (hb : (G (w.ctlOf w.tid)).body = (w.ctlOf w.tid).body) (hpc : (w.ctlOf w.tid).pc ≤ (G (w.ctlOf w.tid)).pc)
    (hf : (G (w.ctlOf w.tid)).fin = (w.ctlOf w.tid).fin)
    (hH : ∀ o, H = some o → holdsAt w.prog (G (w.ctlOf w.tid)) = some o)
    (hfu : ∀ f, (Fu.getD f {}).notify = (w.futs.getD f {}).notify) : Pos w G H [] Fu ov1 :=
  ⟨hb, hpc, hH, fun _ _ _ f _ => hfu f, fun _ _ _ h => .inl (by rw [← hf]; exact h),
    fun n hn => (by cases hn), fun n hn => (by cases hn)⟩

theorem notify_modify (futs : List FutSt) (f : Nat) (g : FutSt → FutSt) (hg : ∀ x, (g x).notify = x.notify)
    (f' : Nat) : ((futs.modify f g).getD f' {}).notify = (futs.getD f' {}).notify := by
  by_cases e : f' = f
  · subst e
    by_cases hl : f' < futs.length
    · rw [getD_modify_self _ _ _ _ hl]; exact hg _
    · rw [List.modify_eq_self (by omega)]
  · rw [getD_modify_ne _ _ _ _ _ e]

/-! ### entries across `schedule` -/

theorem _root_.LoomVerif.Deadlock2.SchedKeep.blocked {t t' : Thread} (h : SchedKeep t t') (hb : t'.state = .blocked) : t.state = .blocked := by
  by_cases hy : t.state = .yield
  · rcases h.yl hy with e | e <;> rw [e] at hb <;> cases hb
  · rw [← (h.st hy).1]; exact hb

theorem _root_.LoomVerif.Deadlock2.SchedKeep.terminated {t t' : Thread} (h : SchedKeep t t') (hb : t'.state = .terminated) :
    t.state = .terminated := by
  by_cases hy : t.state = .yield
  · rcases h.yl hy with e | e <;> rw [e] at hb <;> cases hb
  · rw [← (h.st hy).1]; exact hb

/-! ### the invariant at the end of a stage -/

section
variable {w w1 : World} {s : SC.St} {G : TCtl → TCtl} {H : Option Nat} {K : List Nat} {Fu : List FutSt}

/-- **the twin-side invariant at the end of a stage**: `w'` is the world in the middle of the stage up to what
`Exec.schedule` does to the entries (`SchedKeep`); the new entry of the (previously) active thread fits its new
control record -/
theorem finish (c : Ctx w s) (m : Mid w w1 G H K Fu) (P : Pos w G H K Fu (ovW w1)) {w' : World}
    (hp : w'.prog = w1.prog) (hc : w'.ctl = w1.ctl) (hs : w'.spawned = w1.spawned) (hf : w'.futs = w1.futs)
    (hov : ovW w' = ovW w1)
    (hoth : ∀ i, i ≠ w.tid → SchedKeep (w1.ths.get i) (w'.ths.get i))
    (hself : JT4 w.prog w.spawned Fu (w.tid = w'.tid) (w'.ths.get w.tid) (G (w.ctlOf w.tid)))
    (hselfg : (w'.ths.get w.tid).state = .blocked →
      ∃ op, (w'.ths.get w.tid).operation = some op ∧ op.blocking = true ∧ Unavail (ovW w1) op.obj)
    (hselfR : isNotifyPos (wpos w.prog (G (w.ctlOf w.tid))) = true → w.tid ≠ w'.tid →
      (w'.ths.get w.tid).state ≠ .blocked →
      ∀ op, (w'.ths.get w.tid).operation = some op → ¬ Unavail (ovW w1) op.obj) :
    JB4 w' := by
  have hprog : w'.prog = w.prog := hp.trans m.prog
  have hsp : w'.spawned = w.spawned := hs.trans m.spawned
  have hfu : w'.futs = Fu := hf.trans m.futs
  have hlen : w'.ctl.length = w.ctl.length := by rw [hc, m.ctl, List.length_modify]
  have hctl : ∀ i, w'.ctlOf i = if i = w.tid then G (w.ctlOf w.tid) else w.ctlOf i := by
    intro i
    unfold World.ctlOf
    rw [hc, m.ctl]
    by_cases e : i = w.tid
    · subst e
      rw [if_pos rfl, getD_modify_self _ _ _ _ c.act]
    · rw [if_neg e, getD_modify_ne _ _ _ _ _ e]
  have hctlS : w'.ctlOf w.tid = G (w.ctlOf w.tid) := by rw [hctl, if_pos rfl]
  have hctlO : ∀ i, i ≠ w.tid → w'.ctlOf i = w.ctlOf i := fun i e => by rw [hctl, if_neg e]
  -- `joined b` is kept
  have hjoined : ∀ b, (∃ j k, j < w.ctl.length ∧ k < (w.ctlOf j).pc ∧
        (w.prog.threads.getD (w.ctlOf j).body [])[k]? = some (.join b)) →
      ∃ j k, j < w'.ctl.length ∧ k < (w'.ctlOf j).pc ∧
        (w'.prog.threads.getD (w'.ctlOf j).body [])[k]? = some (.join b) := by
    rintro b ⟨j, k, hj, hk, hop⟩
    refine ⟨j, k, by rw [hlen]; exact hj, ?_, ?_⟩
    · by_cases e : j = w.tid
      · subst e; rw [hctlS]; exact Nat.lt_of_lt_of_le hk P.pc
      · rw [hctlO j e]; exact hk
    · rw [hprog]
      by_cases e : j = w.tid
      · subst e; rw [hctlS, P.body]; exact hop
      · rw [hctlO j e]; exact hop
  refine ⟨?_, ?_, ?_, ?_, ?_, by rw [hsp]; exact c.j.spb, by rw [hsp]; exact c.j.sp0, ?_⟩
  · -- blocked means waiting on an unavailable object
    intro i hb
    show ∃ op, (w'.ths.get i).operation = some op ∧ op.blocking = true ∧ Unavail (ovW w') op.obj
    rw [hov]
    by_cases e : i = w.tid
    · subst e; exact hselfg hb
    · have hk := hoth i e
      obtain ⟨op, h1, h2, h3⟩ := m.g i (hk.blocked hb)
      exact ⟨op, by rw [hk.op]; exact h1, h2, h3⟩
  · -- the entries
    intro i hi
    rw [hlen] at hi
    rw [hprog, hsp, hfu]
    by_cases e : i = w.tid
    · subst e
      rw [hctlS]
      exact hself
    · rw [hctlO i e]
      have hk := hoth i e
      have old := c.j.thr i hi
      have hO : OpAt4 w.prog w.spawned Fu (w.ctlOf i) (w'.ths.get i).operation := by
        rw [hk.op, (m.oth i e).1]
        exact (old.opn e).futs (P.fut i hi e)
      exact ⟨fun _ => hO, fun ht => old.term ((m.oth i e).2 (hk.terminated ht)), fun _ => hO⟩
  · -- the mutexes held
    intro o t hl
    rw [hov] at hl
    rw [hlen, hprog]
    by_cases e : t = w.tid
    · subst e
      rw [hctlS]
      exact ⟨c.act, P.hold o (m.mine o hl)⟩
    · rw [hctlO t e]
      exact c.j.hold o t (m.locks o t hl e)
  · -- the mutexes of the futures
    intro f hf'
    rw [hprog] at hf' ⊢
    rw [hov]
    obtain ⟨⟨l1, h1⟩, ⟨l2, h2⟩⟩ := c.j.mtx f hf'
    exact ⟨m.mkind _ _ h1, m.mkind _ _ h2⟩
  · -- the join handles
    intro b i n hmem h10
    rw [hsp] at hmem
    rw [hov]
    have fromOld : 10 ≤ (w.ctlOf i).fin →
        (∃ sp ds, (ovW w1)[n]? = some (OV4.notify sp true ds)) ∨
        ∃ j k, j < w'.ctl.length ∧ k < (w'.ctlOf j).pc ∧
          (w'.prog.threads.getD (w'.ctlOf j).body [])[k]? = some (.join b) := by
      intro h10'
      rcases c.j.jnd b i n hmem h10' with ⟨sp, ds, hv⟩ | hj
      · by_cases hk : n ∈ K
        · obtain ⟨k, hk1, hk2⟩ := P.cons n hk b i hmem
          refine .inr ⟨w.tid, k, by rw [hlen]; exact c.act, by rw [hctlS]; exact hk1, ?_⟩
          rw [hprog, hctlS, P.body]; exact hk2
        · obtain ⟨ds', h'⟩ := m.nmono n sp ds hk hv
          exact .inl ⟨sp, ds', h'⟩
      · exact .inr (hjoined b hj)
    by_cases e : i = w.tid
    · subst e
      rw [hctlS] at h10
      rcases P.fin b n hmem h10 with h | h
      · exact fromOld h
      · exact .inl h
    · rw [hctlO i e] at h10
      exact fromOld h10
  · -- not blocked past the branch point of a wait means notified
    intro i hi hne' hnb hw op hop
    rw [hlen] at hi
    rw [hprog] at hw
    rw [hov]
    by_cases e : i = w.tid
    · subst e
      rw [hctlS] at hw
      exact hselfR hw (fun e => hne' e) hnb op hop
    · rw [hctlO i e] at hw
      have hk := hoth i e
      have hnb1 : (w1.ths.get i).state ≠ .blocked := by
        intro hb
        apply hnb
        have hy : (w1.ths.get i).state ≠ .yield := by rw [hb]; simp
        rw [(hk.st hy).1]; exact hb
      have hopw : (w.ths.get i).operation = some op := by rw [← (m.oth i e).1, ← hk.op]; exact hop
      have old := c.j.thr i hi
      have hO := old.opn e
      rw [hopw] at hO
      -- the object the thread waits on is a `Notify`
      have hnv : ∃ sp nt ds, (ovW w)[op.obj]? = some (.notify sp nt ds) := by
        unfold OpAt4 at hO
        cases hx : wpos w.prog (w.ctlOf i) with
        | none => rw [hx] at hw; cases hw
        | some x =>
          rw [hx] at hO hw
          cases x with
          | join b =>
            obtain ⟨t, n, bl, hmem, e'⟩ := hO
            cases e'
            obtain ⟨_, _, nt, ds, hv, _⟩ := c.r.sp.sp b t n hmem
            exact ⟨false, nt, ds, hv⟩
          | call f =>
            obtain ⟨bl, e'⟩ := hO
            cases e'
            obtain ⟨md, hopc, hst⟩ := wpos_call hx
            obtain ⟨_, nt, ds, hv, _⟩ := c.r.no_lost_wakeup c.wf.1 i hi hopc hst
            exact ⟨true, nt, ds, hv⟩
          | slotM f => cases hw
          | awM f => cases hw
      obtain ⟨sp, nt, ds, hv⟩ := hnv
      have hprem : (w.ths.get i).state = .blocked ∨ nt = true := by
        by_cases hb : (w.ths.get i).state = .blocked
        · exact .inl hb
        · right
          have := c.j.avail i hi e hb hw op hopw
          cases nt with
          | true => rfl
          | false => exact absurd (.inr ⟨sp, ds, hv⟩) this
      obtain ⟨ds', h'⟩ := m.avail i e op sp nt ds hopw hv (fun hk' => P.avoid _ hk' i hi e hw op hopw rfl) hnb1 hprem
      rintro (⟨l, hl⟩ | ⟨sp', d2, hn⟩)
      · rw [h'] at hl; cases hl
      · rw [h'] at hn; cases hn

/-- the path invariant in the middle of a stage -/
theorem Mid.pi (m : Mid w w1 G H K Fu) (h : w.exec.path.WF ∧ AllOK w.exec.path) : PI w1 :=
  ⟨(m.path.2 h).1, (m.path.2 h).2.butLast, fun _ => (m.path.2 h).2⟩

/-- **a stage without scheduling point** -/
theorem out_pure (c : Ctx w s) (m : Mid w w1 G H K Fu) (P : Pos w G H K Fu (ovW w1)) :
    Out w s (pure w1) := by
  show JB4 w1 ∧ ReplayOK w1.exec.path ∧ (w.exec.path.WF ∧ AllOK w.exec.path → PI w1)
  refine ⟨finish c m P rfl rfl rfl rfl rfl (fun _ _ => SchedKeep.refl _) ?_ ?_ ?_, m.path.1, m.pi⟩
  · exact ⟨fun hb => absurd hb m.run.1, fun ht => absurd ht m.run.2, fun hn => absurd m.tid.symm hn⟩
  · intro hb; exact absurd hb m.run.1
  · intro _ hne; exact absurd m.tid.symm hne

theorem out_ok (c : Ctx w s) (m : Mid w w1 G H K Fu) (P : Pos w G H K Fu (ovW w1)) :
    Out w s (Except.ok w1) := out_pure c m P

/-! ### scheduling points -/

theorem Mid.hin (c : Ctx w s) (m : Mid w w1 G H K Fu) : w1.tid < w1.exec.threads.threads.length := by
  rw [m.tid, m.len]; exact c.hin

theorem entryOn_self (m : Mid w w1 G H K Fu) (F : Thread → Thread) :
    entryOn w1 F w.tid = F (w1.ths.get w.tid) := by
  unfold entryOn; rw [if_pos m.tid.symm]

theorem entryOn_other (m : Mid w w1 G H K Fu) (F : Thread → Thread) {i : Nat} (h : i ≠ w.tid) :
    entryOn w1 F i = w1.ths.get i := by
  unfold entryOn; rw [if_neg (by rw [m.tid]; exact h)]

/-- **a successful scheduling point**: the entry of the active thread is rewritten by `F`, which fits its new
control record; then `Exec.schedule` -/
theorem sched_ok (c : Ctx w s) (m : Mid w w1 G H K Fu) (P : Pos w G H K Fu (ovW w1)) {F : Thread → Thread}
    {x : Exec × Bool} (hs : schedOn w1 F = .ok x)
    (hO : OpAt4 w.prog w.spawned Fu (G (w.ctlOf w.tid)) (F (w1.ths.get w.tid)).operation)
    (hB : (F (w1.ths.get w.tid)).state = .blocked →
      ∃ op, (F (w1.ths.get w.tid)).operation = some op ∧ op.blocking = true ∧ Unavail (ovW w1) op.obj)
    (hT : (F (w1.ths.get w.tid)).state = .terminated → (G (w.ctlOf w.tid)).fin = 99)
    (hR : isNotifyPos (wpos w.prog (G (w.ctlOf w.tid))) = true → (F (w1.ths.get w.tid)).state ≠ .blocked →
      ∀ op, (F (w1.ths.get w.tid)).operation = some op → ¬ Unavail (ovW w1) op.obj) :
    JB4 { w1 with exec := x.1 } ∧ ReplayOK x.1.path ∧
      (w.exec.path.WF ∧ AllOK w.exec.path → PI { w1 with exec := x.1 }) := by
  obtain ⟨e', b⟩ := x
  have hin := m.hin c
  have hkeep := fun i => schedOn_keep hs hin i
  have hov : ovW { w1 with exec := e' } = ovW w1 :=
    @schedule_ov ({ w1.exec with threads := w1.ths.modifyActive F }) e' b w1.panicking hs
  have hk0 := hkeep w.tid
  rw [entryOn_self m] at hk0
  refine ⟨finish c m P rfl rfl rfl rfl hov ?_ ?_ ?_ ?_, ?_, ?_⟩
  · intro i hi
    have := hkeep i
    rw [entryOn_other m F hi] at this
    exact this
  · have hop : ({ w1 with exec := e' } : World).ths.get w.tid = e'.threads.get w.tid := rfl
    rw [hop]
    refine ⟨fun hb => ?_, fun ht => hT (hk0.terminated ht), fun _ => ?_⟩
    · rw [hk0.op]; exact hO
    · rw [hk0.op]; exact hO
  · intro hb
    have hb' : (e'.threads.get w.tid).state = .blocked := hb
    obtain ⟨op, h1, h2, h3⟩ := hB (hk0.blocked hb')
    exact ⟨op, by show (e'.threads.get w.tid).operation = _; rw [hk0.op]; exact h1, h2, h3⟩
  · intro hw _ hnb op hop
    have hnb' : (e'.threads.get w.tid).state ≠ .blocked := hnb
    have hop' : (e'.threads.get w.tid).operation = some op := hop
    refine hR hw ?_ op (by rw [← hk0.op]; exact hop')
    intro hb
    apply hnb'
    have hy : (F (w1.ths.get w.tid)).state ≠ .yield := by rw [hb]; simp
    rw [(hk0.st hy).1]; exact hb
  · exact @schedule_replayOK ({ w1.exec with threads := w1.ths.modifyActive F }) e' w1.panicking b hs m.path.1
  · intro h
    exact @schedule_PI ({ w1.exec with threads := w1.ths.modifyActive F }) e' w1.panicking b hs (m.path.2 h).1
      (m.path.2 h).2

/-- **a scheduling point that panics with "deadlock"**: every other thread is blocked or terminated; the new
entry of the active thread is blocked or terminated; some thread is not terminated -/
theorem stuck_of_dl (c : Ctx w s) (m : Mid w w1 G H K Fu) {F : Thread → Thread}
    (hs : schedOn w1 F = .error .deadlock) :
    (∀ j, j < w.ctl.length → j ≠ w.tid →
      (w1.ths.get j).state = .blocked ∨ (w1.ths.get j).state = .terminated) ∧
    ((F (w1.ths.get w.tid)).state = .blocked ∨ (F (w1.ths.get w.tid)).state = .terminated) ∧
    ((F (w1.ths.get w.tid)).state = .terminated →
      ¬ ∀ j, j < w.ctl.length → j ≠ w.tid → (w1.ths.get j).state = .terminated) := by
  have hin := m.hin c
  obtain ⟨h1, i0, hi0, hnt⟩ := schedOn_deadlock2 hs m.path.1 hin
  have hl : w1.exec.threads.threads.length = w.ctl.length := by
    rw [m.len]; exact (c.r.lenCtl).symm
  have four : ∀ t : Thread, t.state ≠ .runnable → t.state ≠ .yield →
      t.state = .blocked ∨ t.state = .terminated := by
    intro t h1 h2
    cases hh : t.state with
    | runnable => exact absurd hh h1
    | yield => exact absurd hh h2
    | blocked => exact .inl rfl
    | terminated => exact .inr rfl
  refine ⟨fun j hj hne => ?_, ?_, fun ht hall => ?_⟩
  · have := h1 j (by rw [hl]; exact hj)
    rw [entryOn_other m F hne] at this
    exact four _ this.1 this.2
  · have := h1 w.tid (by rw [hl]; exact c.act)
    rw [entryOn_self m] at this
    exact four _ this.1 this.2
  · by_cases e : i0 = w.tid
    · subst e
      rw [entryOn_self m] at hnt
      exact hnt ht
    · rw [entryOn_other m F e] at hnt
      exact hnt (hall i0 (by rw [← hl]; exact hi0) e)

/-- a scheduling point whose entry function does not change the state of the active thread never panics with
"deadlock" -/
theorem no_dl_of_state (c : Ctx w s) (m : Mid w w1 G H K Fu) {F : Thread → Thread}
    (hF : (F (w1.ths.get w.tid)).state ≠ .blocked ∧ (F (w1.ths.get w.tid)).state ≠ .terminated)
    (hs : schedOn w1 F = .error .deadlock) : False := by
  rcases (stuck_of_dl c m hs).2.1 with h | h
  · exact hF.1 h
  · exact hF.2 h

/-- the shape of every scheduling point of the twin -/
theorem out_sched (c : Ctx w s) (m : Mid w w1 G H K Fu) (P : Pos w G H K Fu (ovW w1)) {F : Thread → Thread}
    (hO : OpAt4 w.prog w.spawned Fu (G (w.ctlOf w.tid)) (F (w1.ths.get w.tid)).operation)
    (hB : (F (w1.ths.get w.tid)).state = .blocked →
      ∃ op, (F (w1.ths.get w.tid)).operation = some op ∧ op.blocking = true ∧ Unavail (ovW w1) op.obj)
    (hT : (F (w1.ths.get w.tid)).state = .terminated → (G (w.ctlOf w.tid)).fin = 99)
    (hR : isNotifyPos (wpos w.prog (G (w.ctlOf w.tid))) = true → (F (w1.ths.get w.tid)).state ≠ .blocked →
      ∀ op, (F (w1.ths.get w.tid)).operation = some op → ¬ Unavail (ovW w1) op.obj)
    (hD : schedOn w1 F = .error .deadlock → DeadFrom w.prog s) :
    Out w s (schedOn w1 F >>= fun x => (pure { w1 with exec := x.1 } : Except Panic World)) := by
  cases hs : schedOn w1 F with
  | error e =>
    show Out w s (Except.error e)
    intro he
    subst he
    exact hD hs
  | ok x => exact sched_ok c m P hs hO hB hT hR

/-- **a branch point that does not block** -/
theorem out_branch (c : Ctx w s) (m : Mid w w1 G H K Fu) (P : Pos w G H K Fu (ovW w1)) (o : Nat) (a : Action)
    (hw : wpos w.prog (G (w.ctlOf w.tid)) = none) : Out w s (w1.branch o a) := by
  show Out w s (w1.branch o a false false)
  rw [branch_point]
  have hst : (branchF o a false false (w1.ths.get w.tid)).state = (w1.ths.get w.tid).state := by
    rw [branchF_state]; rfl
  refine out_sched c m P ?_ ?_ ?_ ?_ ?_
  · rw [branchF_operation]
    unfold OpAt4; rw [hw]
    intro op e; cases e; rfl
  · intro hb; rw [hst] at hb; exact absurd hb m.run.1
  · intro ht; rw [hst] at ht; exact absurd ht m.run.2
  · intro h; rw [hw] at h; cases h
  · intro hs
    exact (no_dl_of_state c m (by rw [hst]; exact m.run) hs).elim

/-- **`yield_now`** -/
theorem out_yield (c : Ctx w s) (m : Mid w w1 G H K Fu) (P : Pos w G H K Fu (ovW w1))
    (hw : wpos w.prog (G (w.ctlOf w.tid)) = none) : Out w s w1.yieldNow := by
  rw [yield_point]
  have hst : (yieldF w1.tid (w1.ths.get w.tid)).state = .yield := rfl
  refine out_sched c m P ?_ ?_ ?_ ?_ ?_
  · show OpAt4 _ _ _ _ none
    unfold OpAt4; rw [hw]
    intro op e; cases e
  · intro hb; rw [hst] at hb; cases hb
  · intro ht; rw [hst] at ht; cases ht
  · intro h; rw [hw] at h; cases h
  · intro hs
    exact (no_dl_of_state c m (by rw [hst]; exact ⟨by simp, by simp⟩) hs).elim

/-- **the lock of a mutex never panics with "deadlock"**: the holder of the mutex holds it across a branch point
and is neither blocked nor terminated -/
theorem lock_no_dl (c : Ctx w s) (m : Mid w w1 G none K Fu) {o : Nat} {b : Bool}
    (hheld : b = true → ∃ t, (ovW w1)[o]? = some (.mutex (some t)))
    (hs : schedOn w1 (branchF o .opaque b true) = .error .deadlock) : False := by
  obtain ⟨hstuck, hself, _⟩ := stuck_of_dl c m hs
  cases b with
  | false =>
    have hst : (branchF o .opaque false true (w1.ths.get w.tid)).state = (w1.ths.get w.tid).state := by
      rw [branchF_state]; rfl
    rw [hst] at hself
    rcases hself with h | h
    · exact m.run.1 h
    · exact m.run.2 h
  | true =>
    obtain ⟨t, ht⟩ := hheld rfl
    by_cases htt : t = w.tid
    · subst htt
      have := m.mine _ ht
      cases this
    · obtain ⟨htl, hh⟩ := c.j.hold _ t (m.locks _ t ht htt)
      rcases stuck_pos c m htl htt (hstuck t htl htt) with h | h
      · exact h (wpos_of_holds hh)
      · rw [holdsAt_none h] at hh; cases hh

/-- the control record stands past the branch point of the lock of mutex `o` -/
def LockPos (p : Prog) (c : TCtl) (o : Nat) : Prop :=
  (∃ f, wpos p c = some (.slotM f) ∧ o = mbase p + 2 * f) ∨ (∃ f, wpos p c = some (.awM f) ∧ o = mbase p + 2 * f + 1)

theorem LockPos.opAt {p : Prog} {c : TCtl} {o : Nat} (h : LockPos p c o) (sp : List (Nat × Nat × Nat))
    (Fu : List FutSt) : OpAt4 p sp Fu c (some ⟨o, .opaque, true⟩) := by
  unfold OpAt4
  rcases h with ⟨f, hw, ho⟩ | ⟨f, hw, ho⟩ <;> rw [hw, ho]

theorem LockPos.notNotify {p : Prog} {c : TCtl} {o : Nat} (h : LockPos p c o) : isNotifyPos (wpos p c) = false := by
  rcases h with ⟨f, hw, _⟩ | ⟨f, hw, _⟩ <;> rw [hw] <;> rfl

/-- **the branch point of the lock of a mutex** -/
theorem out_lock (c : Ctx w s) (m : Mid w w1 G none K Fu) (P : Pos w G none K Fu (ovW w1)) {o : Nat}
    {w0 : World} {mm : MutexSt} (hm : w0.getMutex o = .ok mm) (hobjs : w0.exec.objs = w1.exec.objs)
    (hL : LockPos w.prog (G (w.ctlOf w.tid)) o) :
    Out w s (w1.branch o .opaque mm.lock.isSome true) := by
  have hO := hL.opAt w.spawned Fu
  rw [branch_point]
  have hv : (ovW w1)[o]? = some (.mutex mm.lock) := by
    show (w1.exec.objs.map ov4)[o]? = _
    rw [← hobjs, List.getElem?_map, getMutex_ok4 hm]; rfl
  have hheld : mm.lock.isSome = true → ∃ t, (ovW w1)[o]? = some (.mutex (some t)) := by
    intro hl
    cases hh : mm.lock with
    | none => rw [hh] at hl; cases hl
    | some t => exact ⟨t, by rw [hv, hh]⟩
  refine out_sched c m P ?_ ?_ ?_ ?_ ?_
  · rw [branchF_operation]; exact hO
  · intro hb
    rw [branchF_state] at hb
    rw [branchF_operation]
    refine ⟨_, rfl, rfl, ?_⟩
    cases hl : mm.lock.isSome with
    | false => rw [hl] at hb; exact absurd hb m.run.1
    | true =>
      obtain ⟨t, ht⟩ := hheld hl
      exact .inl ⟨t, ht⟩
  · intro ht
    rw [branchF_state] at ht
    cases hl : mm.lock.isSome with
    | false => rw [hl] at ht; exact absurd ht m.run.2
    | true => rw [hl] at ht; cases ht
  · intro h; rw [hL.notNotify] at h; cases h
  · intro hs
    exact (lock_no_dl c m hheld hs).elim

end

end Deadlock3
end LoomVerif

/-
Deadlock soundness, WAIT fragment, part 16: **deadlock soundness, one stage** (`step_deadlock2`), by cases on the
operation and its stage: every part of a stage other than its scheduling point panics, if at all, with something
else than "deadlock"; at the scheduling point the rewritten entry of the active thread stands for a disabled
reference thread.
-/
import LoomVerif.Proofs.Deadlock2Err2

namespace LoomVerif
namespace Deadlock2
open Refine Refine2 Sy Deadlock C07 C08

section
variable {w : World} {s : SCData2}

theorem map_error {α β} {x : Except Panic α} {f : α → β} {e : Panic} (h : x.map f = .error e) :
    x = .error e := by
  cases x with
  | error e' => simp only [Except.map, Except.error.injEq] at h; rw [h]
  | ok a => cases h

/-- **deadlock soundness, one stage**: if a stage of the active thread panics with "deadlock" in a world related
to the reference state `s` (`RB2`), then `s` — or, when the panic comes from the `rt::block` of `cvWait`, its
successor by the first half of that `cvWait` — is deadlocked -/
theorem step_deadlock2 (hwf : WFD w.prog) (hRB : RB2 w s) (hactive : w.ths.isActive = true)
    (hact : w.tid < w.ctl.length) (h : w.stepActive = .error .deadlock) : DeadAt w s := by
  have hR := hRB.r.c
  have hJ := hRB.j
  obtain ⟨_, hrel, hof⟩ := base2 hR hact
  have hp0 := hRB.path
  cases hop : opAt2 w with
  | none =>
    rw [stepActive_none hop] at h
    have hloc := hrel.2.2.2.2.2.1
    have hdq := hrel.2.2.2.2.2.2
    have hdl : w.dropLocals = w := dropLocals_frag w hloc hdq
    by_cases h10 : 10 ≤ (w.ctlOf w.tid).fin
    · rw [runEpilogue_finish w _ h10] at h
      unfold World.finishThread at h
      split at h
      · cases h
      · rw [dropPass_eq, hdl] at h
        split at h
        · cases h
        · split at h
          · rw [hdq] at h
            simp only at h
            rw [done_point] at h
            refine DeadAt.here (dead_of_schedOn2 (wb := w.modCtl w.tid _) hwf hRB hact rfl hp0 (point_error h)
              (fun _ _ _ => ⟨finished_disabled2 hR hact h10, fun hne => absurd rfl hne⟩))
          · rw [hdq] at h
            cases h
    · have hlt : (w.ctlOf w.tid).fin < 10 := by omega
      by_cases ht0 : w.tid = 0
      · rw [runEpilogue_main w _ ht0 hlt] at h
        cases h
      · cases hf : w.spawned.find? (·.2.1 == w.tid) with
        | none =>
          unfold World.runEpilogue at h
          simp [h10, ht0, hf, throw, throwThe, MonadExceptOf.throw] at h
        | some e =>
          obtain ⟨b, t, n⟩ := e
          have := List.find?_some hf
          simp only [beq_iff_eq] at this
          subst this
          have hmem := List.mem_of_find?_eq_some hf
          rw [runEpilogue_spawned w _ b n ht0 hf hlt] at h
          split at h
          · rw [hdl] at h
            cases h
          · split at h
            · rw [dropPass_eq, hdl] at h
              split at h
              · cases h
              · split at h
                · rw [hdq] at h
                  simp only at h
                  exact dead_branch (wb := w.modCtl w.tid _) hwf hRB hact rfl hp0 h (by intro hb; cases hb)
                · rw [hdq] at h
                  cases h
            · obtain ⟨ns, hobj, _⟩ := join_obj hR hmem
              rw [notifyEffect_eq hobj] at h
              simp only [bind, Except.bind, pure, Except.pure] at h
              cases h
  | some op =>
    rw [stepActive_op hop] at h
    have hop' : (w.prog.threads.getD (w.ctlOf w.tid).body [])[(w.ctlOf w.tid).pc]? = some op := hop
    have hopc : opOfCtl w.prog (w.ctlOf w.tid) = some op := hop
    have hok := hwf.1.opOk hop'
    have halive := alive_of_op2 hR hact hopc
    cases op <;> simp only [Refine2.opOk, Bool.false_eq_true, Bool.and_eq_true, decide_eq_true_eq] at hok
    case cellRead ci =>
      obtain ⟨cs, hcs, _⟩ := objView2_cell (hR.o.y.cell ci hok)
      have hg : w.sync.getCell (w.cellObj ci) = .ok cs := by
        unfold World.getCell
        have : w.sync.exec.objs[w.cellObj ci]? = some (.cell cs) := hcs
        rw [this]
      rw [runOp_cellRead, hg] at h
      simp only [bind, Except.bind, pure, Except.pure, throw, throwThe, MonadExceptOf.throw] at h
      repeat' split at h
      all_goals cases h
    case cellWrite ci v =>
      obtain ⟨cs, hcs, _⟩ := objView2_cell (hR.o.y.cell ci hok)
      have hg : w.sync.getCell (w.cellObj ci) = .ok cs := by
        unfold World.getCell
        have : w.sync.exec.objs[w.cellObj ci]? = some (.cell cs) := hcs
        rw [this]
      rw [runOp_cellWrite, hg] at h
      simp only [bind, Except.bind, pure, Except.pure, throw, throwThe, MonadExceptOf.throw] at h
      repeat' split at h
      all_goals cases h
    case ifEq i r n =>
      rw [runOp_ifEq] at h
      split at h <;> cases h
    case lock mi =>
      obtain ⟨ms, hobj⟩ := mutex_obj hR hok
      have hview : objView2 w.exec.objs (mutexIdx w.prog mi) = some (.mutex ms.lock) := objView2_of hobj
      rw [runOp_lock] at h
      split at h
      · simp only [getMutex_of hobj, bind, Except.bind] at h
        refine dead_branch (wb := w.setStage 1) hwf hRB hact rfl hp0 h (fun hb _ => ?_)
        cases hl : ms.lock with
        | none => rw [hl] at hb; cases hb
        | some l => exact ⟨lock_disabled2 hwf.1 hR hact hopc (by rw [hview, hl]), halive⟩
      · cases hl : ms.lock with
        | none =>
          rw [postAcquire_free hobj hl] at h
          simp only [bind, Except.bind, pure, Except.pure, Bool.not_true, Bool.false_eq_true, if_false] at h
          cases h
        | some x =>
          rw [postAcquire_held hobj (by rw [hl]; rfl)] at h
          simp [bind, Except.bind, throw, throwThe, MonadExceptOf.throw] at h
    case tryLock mi =>
      obtain ⟨ms, hobj⟩ := mutex_obj hR hok
      rw [runOp_tryLock] at h
      split at h
      · exact dead_branch (wb := w.setStage 1) hwf hRB hact rfl hp0 h (by intro hb; cases hb)
      · cases hl : ms.lock with
        | none =>
          rw [postAcquire_free hobj hl] at h
          simp only [bind, Except.bind, pure, Except.pure] at h
          cases h
        | some x =>
          rw [postAcquire_held hobj (by rw [hl]; rfl)] at h
          simp only [bind, Except.bind, pure, Except.pure] at h
          cases h
    case unlock mi =>
      obtain ⟨ms, hobj⟩ := mutex_obj hR hok
      rw [runOp_unlock, releaseLock_active hobj hactive] at h
      simp only [bind, Except.bind, pure, Except.pure] at h
      cases h
    case spawn b =>
      rw [runOp_spawn] at h
      simp only [World.pushObj, bind, Except.bind, pure, Except.pure] at h
      split at h
      · next e he =>
        cases h
        unfold Exec.newThread at he
        simp only [bind, Except.bind, pure, Except.pure] at he
        split at he
        · next e' he' =>
          cases he
          unfold Threads.newThread at he'
          split at he' <;> cases he'
        · cases he
      · cases h
    case join b =>
      rw [runOp_join] at h
      rcases WB.bind_eq_error h with hl | ⟨⟨tid', n⟩, hl, h⟩
      · unfold World.lookupSpawn at hl
        split at hl <;> cases hl
      · have hmem := lookupSpawn_mem hl
        obtain ⟨ns, hobj, hspur⟩ := join_obj hR hmem
        have hview : objView2 w.exec.objs n = some (.notify ns.spurious ns.notified ns.didSpur) := objView2_of hobj
        simp only at h
        split at h
        · rw [notifyWait1_plain hobj (by rw [hspur]; rfl)] at h
          rcases WB.bind_eq_error h with hb | ⟨x, _, h'⟩
          · have hb' := map_error hb
            refine dead_branch (wb := w) hwf hRB hact rfl hp0 hb' (fun hbk _ => ?_)
            have hnt : ns.notified = false := by simpa using hbk
            exact ⟨join_disabled2 hwf hR hJ hact hopc hmem (by rw [hview, hnt]), halive⟩
          · cases h'
        · cases hn : ns.notified with
          | true =>
            rw [notifyWait2_notified hobj hn] at h
            simp only [bind, Except.bind, pure, Except.pure] at h
            cases h
          | false =>
            rw [notifyWait2_unnotified hobj hn] at h
            simp only [bind, Except.bind] at h
            cases h
        · cases h
    case send q v =>
      obtain ⟨cs, hobj⟩ := chan_obj hR hok
      by_cases hs0 : (w.ctlOf w.tid).stage = 0
      · rw [C09.runOp_send_stage0 _ _ _ _ hs0] at h
        exact dead_branch (wb := w.setStage 1) hwf hRB hact rfl hp0 h (by intro hb; cases hb)
      · rw [C09.runOp_send_stage1 _ _ _ _ hs0] at h
        rcases WB.bind_eq_error h with h1 | ⟨x, _, h'⟩
        · unfold World.sendEffect at h1
          simp only [getChan_of hobj, bind, Except.bind, pure, Except.pure] at h1
          split at h1 <;> cases h1
        · cases h'
    case recv q =>
      obtain ⟨cs, hobj⟩ := chan_obj hR hok
      have hview : objView2 w.exec.objs (chanIdx w.prog q) = some (.chan cs.msgCnt cs.queue) := objView2_of hobj
      by_cases hs0 : (w.ctlOf w.tid).stage = 0
      · rw [C09.runOp_recv_stage0 _ _ _ cs hs0 (getChan_of hobj)] at h
        refine dead_branch (wb := w.setStage 1) hwf hRB hact rfl hp0 h (fun hb _ => ?_)
        have h0 : cs.msgCnt = 0 := by simpa using hb
        exact ⟨recv_disabled2 hwf.1 hR hact hopc (by rw [hview, h0]), halive⟩
      · rw [C09.runOp_recv_stage1 _ _ _ hs0] at h
        rcases WB.bind_eq_error h with h1 | ⟨x, _, h'⟩
        · unfold World.recvEffect at h1
          simp only [getChan_of hobj, bind, Except.bind, pure, Except.pure, throw, throwThe,
            MonadExceptOf.throw] at h1
          repeat' split at h1
          all_goals cases h1
        · cases h'
    case tryRecv q =>
      obtain ⟨cs, hobj⟩ := chan_obj hR hok
      by_cases hs0 : (w.ctlOf w.tid).stage = 0
      · by_cases h0 : cs.msgCnt = 0
        · rw [C09.runOp_tryRecv_stage0_empty _ _ _ cs hs0 (getChan_of hobj) h0] at h
          cases h
        · rw [(C09.runOp_tryRecv_stage0_nonempty _ _ _ cs hs0 (getChan_of hobj) h0).1] at h
          exact dead_branch (wb := w.setStage 1) hwf hRB hact rfl hp0 h (by intro hb; cases hb)
      · rw [C09.runOp_tryRecv_stage1 _ _ _ hs0, C09.runOp_recv_stage1 _ _ _ hs0] at h
        rcases WB.bind_eq_error h with h1 | ⟨x, _, h'⟩
        · unfold World.recvEffect at h1
          simp only [getChan_of hobj, bind, Except.bind, pure, Except.pure, throw, throwThe,
            MonadExceptOf.throw] at h1
          repeat' split at h1
          all_goals cases h1
        · cases h'
    case dropRx q =>
      obtain ⟨cs, hobj⟩ := chan_obj hR hok
      simp only [World.runOp] at h
      split at h
      · simp only [getChan_of hobj, bind, Except.bind] at h
        split at h
        · cases h
        · exact dead_branch (wb := w.setStage 1) hwf hRB hact rfl hp0 h (by intro hb; cases hb)
      · rcases WB.bind_eq_error h with h1 | ⟨x, _, h'⟩
        · unfold World.recvEffect at h1
          simp only [getChan_of hobj, bind, Except.bind, pure, Except.pure, throw, throwThe,
            MonadExceptOf.throw] at h1
          repeat' split at h1
          all_goals cases h1
        · cases h'
    case nNotify n =>
      obtain ⟨ns, hobj, _⟩ := notify_obj hR hok
      rw [runOp_nNotify] at h
      split at h
      · exact dead_branch (wb := w.setStage 1) hwf hRB hact rfl hp0 h (by intro hb; cases hb)
      · rw [notifyEffect_eq hobj] at h
        simp only [bind, Except.bind, pure, Except.pure] at h
        cases h
    case nWait n =>
      obtain ⟨ns, hobj, hsp⟩ := notify_obj hR hok
      have hview : objView2 w.exec.objs (notifyIdx w.prog n) =
          some (.notify ns.spurious ns.notified ns.didSpur) := objView2_of hobj
      have hblk : ∀ wb : World, wb.exec.threads = w.exec.threads → ReplayOK wb.exec.path →
          wb.branch (w.notifyObj n) .opaque (!ns.notified) (!ns.notified) = .error .deadlock → DeadAt w s := by
        intro wb hth hpth hb
        refine dead_branch hwf hRB hact hth hpth hb (fun hbk _ => ?_)
        have hnt : ns.notified = false := by simpa using hbk
        exact ⟨nwait_disabled2 hwf.1 hR hact hopc (by rw [hview, hnt]), halive⟩
      rw [runOp_nWait] at h
      split at h
      · simp only [bind, Except.bind, pure, Except.pure] at h
        split at h
        · cases h
        · rcases WB.bind_eq_error h with h1 | ⟨x, _, h'⟩
          · let w0 : World := { w with notifyWaiting := w.notifyWaiting.set n true }
            have hobj0 : w0.exec.objs[w.notifyObj n]? = some (.notify ns) := hobj
            by_cases hd : (ns.spurious && !ns.didSpur) = false
            · rw [notifyWait1_plain hobj0 hd] at h1
              exact hblk w0 rfl hp0 (map_error h1)
            · have hds : ns.didSpur = false := by
                cases hh : ns.didSpur with
                | false => rfl
                | true => rw [hh] at hd; simp at hd
              rw [notifyWait1_maySpur hobj0 hsp hds] at h1
              split at h1
              · next e he =>
                cases h1
                exact absurd rfl (branchSpurious_notDL he)
              · next p hbs =>
                have hy := map_error h1
                rw [yield_point] at hy
                refine DeadAt.here (dead_of_schedOn2 hwf hRB hact
                  (wb := (w0.setPath p).setObj (w.notifyObj n) (.notify { ns with didSpur := true })) rfl
                  (branchSpurious_replayOK hbs hp0) (point_error hy) (fun _ hny _ => absurd rfl hny))
              · next p hbs =>
                exact hblk (w0.setPath p) rfl (branchSpurious_replayOK hbs hp0) (map_error h1)
          · cases h'
      · cases hn : ns.notified with
        | true =>
          rw [notifyWait2_notified hobj hn] at h
          simp only [bind, Except.bind, pure, Except.pure] at h
          cases h
        | false =>
          rw [notifyWait2_unnotified hobj hn] at h
          simp only [bind, Except.bind] at h
          cases h
      · cases h
    case park =>
      rw [runOp_park] at h
      split at h
      · next hs0 =>
        have hs0' : (w.ctlOf w.tid).stage = 0 := by simpa using hs0
        cases htok : (w.ths.get w.tid).token with
        | true =>
          have htok' : (w.setStage 1).ths.activeT.token = true := htok
          rw [parkNow_token htok'] at h
          cases h
        | false =>
          have htok' : (w.setStage 1).ths.activeT.token = false := htok
          rw [park_point _ htok'] at h
          refine DeadAt.here (dead_of_schedOn2 (wb := w.setStage 1) hwf hRB hact rfl hp0 (point_error h)
            (fun _ _ _ => ⟨park_disabled2 hRB.r hact hopc htok (.inl hs0'), fun _ => halive⟩))
      · cases h
    case unpark b =>
      rw [runOp_unpark] at h
      rcases WB.bind_eq_error h with hl | ⟨t, _, h'⟩
      · unfold World.threadOf at hl
        split at hl
        · cases hl
        · split at hl <;> cases hl
      · cases h'
    case cvOne v =>
      obtain ⟨cs, hobj⟩ := cv_obj hR hok
      rw [runOp_cvOne] at h
      split at h
      · exact dead_branch (wb := w.setStage 1) hwf hRB hact rfl hp0 h (by intro hb; cases hb)
      · simp only [getCv_of hobj, bind, Except.bind, pure, Except.pure] at h
        split at h <;> cases h
    case cvAll v =>
      obtain ⟨cs, hobj⟩ := cv_obj hR hok
      rw [runOp_cvAll] at h
      split at h
      · exact dead_branch (wb := w.setStage 1) hwf hRB hact rfl hp0 h (by intro hb; cases hb)
      · simp only [getCv_of hobj, bind, Except.bind, pure, Except.pure] at h
        cases h
    case cvWait v m =>
      obtain ⟨cs, hobj⟩ := cv_obj hR hok.1
      obtain ⟨ms, hmobj⟩ := mutex_obj hR hok.2
      have hmview : objView2 w.exec.objs (mutexIdx w.prog m) = some (.mutex ms.lock) := objView2_of hmobj
      have hst3 : (w.ctlOf w.tid).stage ≤ 3 := by
        have := hrel.2.2.2.2.1
        rw [hopc] at this
        exact this
      have hcases : (w.ctlOf w.tid).stage = 0 ∨ (w.ctlOf w.tid).stage = 1 ∨ (w.ctlOf w.tid).stage = 2 ∨
          (w.ctlOf w.tid).stage = 3 := by omega
      rcases hcases with hs | hs | hs | hs
      · rw [runOp_cvWait, hs] at h
        exact dead_branch (wb := w.setStage 1) hwf hRB hact rfl hp0 h (by intro hb; cases hb)
      · rw [cvWait_stage1 hobj hs] at h
        rcases WB.bind_eq_error h with hrl | ⟨w2, hrl, hbn⟩
        · have hne : w.mutexObj m ≠ w.cvObj v := by
            intro e
            have h1 : objView2 w.exec.objs (w.mutexObj m) = some (.mutex ms.lock) := hmview
            have h2 : objView2 w.exec.objs (w.cvObj v) = some (.condvar cs.waiters) := objView2_of hobj
            rw [e, h2] at h1; cases h1
          have hmobjA : (w.setObj (w.cvObj v) (.condvar { cs with waiters := cs.waiters ++ [w.tid] })).exec.objs[
              w.mutexObj m]? = some (.mutex ms) := by
            show (w.exec.objs.set (w.cvObj v) _)[w.mutexObj m]? = _
            rw [getElem?_set_ne' _ _ _ _ hne]; exact hmobj
          rw [releaseLock_active hmobjA hactive] at hrl
          cases hrl
        · rw [block_point] at hbn
          exact dead_cvWait hwf hRB hactive hact hok.2 hop hs hobj hrl (point_error (w := w2.setStage 2) hbn)
      · rw [cvWait_stage2 hmobj hs] at h
        refine dead_branch (wb := w.setStage 3) hwf hRB hact rfl hp0 h (fun hb _ => ?_)
        cases hl : ms.lock with
        | none => rw [hl] at hb; cases hb
        | some l =>
          exact ⟨cvre_disabled2 hwf.1 hR hact hopc (by omega) (by rw [hmview, hl]), halive⟩
      · cases hl : ms.lock with
        | some l =>
          rw [(cvWait_stage3 hmobj (by rw [hs]; exact Nat.le_refl _)).1 (by rw [hl]; rfl)] at h
          cases h
        | none =>
          obtain ⟨w1, hpa, hrun, _⟩ := (cvWait_stage3 (c := w.ctlOf w.tid) (vi := v) hmobj
            (by rw [hs]; exact Nat.le_refl _)).2 hl
          rw [hrun] at h
          cases h

end

end Deadlock2
end LoomVerif

/-
Refinement, FUTURES fragment, part 14: the one-step simulation lifts to whole runs of `World.runLoop`; what the
relation says at the end of a run.
-/
import LoomVerif.Proofs.Refine4Step
import LoomVerif.Proofs.Refine4Init

set_option linter.unusedSimpArgs false
set_option linter.unusedVariables false

namespace LoomVerif
namespace Refine4
open Refine Sy Refine2 C20

/-- **the run-level hypothesis**: `resumeOk4` holds at every step the run takes.  Computable (by running the
twin). -/
def okRun4 : Nat → World → Bool
  | 0, _ => true
  | fuel + 1, w =>
    if !w.ths.isActive then true
    else resumeOk4 w &&
      match w.stepActive with
      | .error _ => true
      | .ok w' => okRun4 fuel w'

/-- the simulation along `runLoop` -/
theorem runLoop_sim4 (p : Prog) (s0 : SC.St) (hwf : WF4 p) :
    ∀ (fuel : Nat) (w w' : World) (s : SC.St), w.prog = p → R4 w s → InRange w →
      SCExec2 p s0 s → okRun4 fuel w = true → World.runLoop fuel w = (w', none) →
      ∃ s', SCExec2 p s0 s' ∧ R4 w' s' ∧ w'.prog = p := by
  intro fuel
  induction fuel with
  | zero =>
    intro w w' s _ _ _ _ _ h
    simp [World.runLoop] at h
  | succ fuel ih =>
    intro w w' s hp hR hrange hrun hok h
    unfold World.runLoop at h
    unfold okRun4 at hok
    split at h
    · cases h
      exact ⟨s, hrun, hR, hp⟩
    · next hact =>
      have hact' : w.ths.isActive = true := by simpa using hact
      have hlen : w.ctl.length = w.exec.threads.threads.length := hR.lenCtl
      have hin : w.tid < w.ctl.length := by rw [hlen]; exact hrange hact'
      rw [if_neg hact] at hok
      simp only [Bool.and_eq_true] at hok
      obtain ⟨hok1, hok2⟩ := hok
      split at h
      · cases h
      · next w1 hstep =>
        rw [hstep] at hok2
        obtain ⟨hp1, ⟨s1, hex, hR1⟩, hr1⟩ := step_sim4 (by rw [hp]; exact hwf) hR hin hok1 hstep
        rw [hp] at hex
        exact ih w1 w' s1 (hp1.trans hp) hR1 hr1 (exec_trans hrun hex) hok2 h

/-- a twin thread whose reference thread is not ahead of it has recorded exactly the results of the reference thread
of its body, is at the same operation, and its `blockOn` is in the phase of the reference that its stage says -/
theorem R4.results {w : World} {s : SC.St} (hR : R4 w s) (i : Nat) (hi : i < w.ctl.length)
    (hah : aheadOf (opOfCtl w.prog (w.ctlOf i)) (w.ctlOf i).stage = none) :
    (s.th (w.ctlOf i).body).rets = (w.ctlOf i).results ∧ (s.th (w.ctlOf i).body).pc = (w.ctlOf i).pc ∧
    (s.th (w.ctlOf i).body).phase = phaseOf (opOfCtl w.prog (w.ctlOf i)) (w.ctlOf i).stage ∧
    ((s.th (w.ctlOf i).body).finished = true ↔ 10 ≤ (w.ctlOf i).fin) := by
  obtain ⟨_, h2⟩ := hR.x.thr i hi
  have e : (data4 s).ths.getD (w.ctlOf i).body {} = dth4 (s.th (w.ctlOf i).body) := data4_th s _
  have h2' : ThRel4 w.prog (w.ctlOf i) (dth4 (s.th (w.ctlOf i).body)) := by rw [← e]; exact h2
  have h9 := h2'.2.2.2.2.2.2.2.2
  rw [hah] at h9
  refine ⟨h9.2.1, h9.1, h9.2.2, ?_⟩
  have : (s.th (w.ctlOf i).body).finished = decide (10 ≤ (w.ctlOf i).fin) := h2'.2.1
  rw [this]; simp

/-- a twin thread that has left its last operation (its epilogue has started) is not behind its reference thread -/
theorem R4.results_done {w : World} {s : SC.St} (hR : R4 w s) (i : Nat) (hi : i < w.ctl.length)
    (hfin : (w.ctlOf i).fin ≠ 0) :
    (s.th (w.ctlOf i).body).rets = (w.ctlOf i).results ∧ (s.th (w.ctlOf i).body).pc = (w.ctlOf i).pc := by
  have hnone : opOfCtl w.prog (w.ctlOf i) = none := hR.x.epi i hi hfin
  have := hR.results i hi (by rw [hnone]; rfl)
  exact ⟨this.1, this.2.1⟩

/-- when the reference thread IS ahead: it has recorded the result the twin thread is about to record -/
theorem R4.results_ahead {w : World} {s : SC.St} (hR : R4 w s) (i : Nat) (hi : i < w.ctl.length) {r : Ret}
    (hah : aheadOf (opOfCtl w.prog (w.ctlOf i)) (w.ctlOf i).stage = some r) :
    (s.th (w.ctlOf i).body).rets = ((w.ctlOf i).pc, r) :: (w.ctlOf i).results ∧
    (s.th (w.ctlOf i).body).pc = (w.ctlOf i).pc + 1 := by
  obtain ⟨_, h2⟩ := hR.x.thr i hi
  have e : (data4 s).ths.getD (w.ctlOf i).body {} = dth4 (s.th (w.ctlOf i).body) := data4_th s _
  have h2' : ThRel4 w.prog (w.ctlOf i) (dth4 (s.th (w.ctlOf i).body)) := by rw [← e]; exact h2
  have h9 := h2'.2.2.2.2.2.2.2.2
  rw [hah] at h9
  exact ⟨h9.2.1, h9.1⟩

/-- **No wake-up is lost** (the relation at a waiting `block_on`).  Twin thread `i` is in the second half of the
`Notify::wait` of `blockOn f mode` (stage 16, or 53 for a self-waking future).  Then its reference thread is in
phase 4 (waiting), the call's `Notify` is an object of the twin, and

  the reference's `notified` flag of the call is set  ⟺  the flag of that `Notify` is raised, or a thread that has
  taken its reference step of a wake is about to raise it (`pendN`: a thread at a branch point, not blocked);

in particular when the flag is not raised and no notification is in flight the reference thread is NOT ENABLED: the
reference is blocked exactly where the twin is. -/
theorem R4.no_lost_wakeup {w : World} {s : SC.St} (hwf : WF4 w.prog) (hR : R4 w s) (i : Nat)
    (hi : i < w.ctl.length) {f mode : Nat} (hop : opOfCtl w.prog (w.ctlOf i) = some (.blockOn f mode))
    (hst : (w.ctlOf i).stage = 16 ∨ (w.ctlOf i).stage = 53) :
    (s.th (w.ctlOf i).body).phase = 4 ∧
    ∃ nt ds, (view4 w).objs[(w.futs.getD f {}).notify]? = some (.notify true nt ds) ∧
      ((s.futs.getD f {}).notified = true ↔
        (nt = true ∨ ∃ j, j < w.ctl.length ∧ pendN w.prog (w.ctlOf j) = some (w.futs.getD f {}).notify)) ∧
      (nt = false → (∀ j, j < w.ctl.length → pendN w.prog (w.ctlOf j) ≠ some (w.futs.getD f {}).notify) →
        SC.enabled w.prog s (w.ctlOf i).body = false) := by
  have hah : aheadOf (opOfCtl w.prog (w.ctlOf i)) (w.ctlOf i).stage = none := by
    rw [hop]; rcases hst with e | e <;> rw [e] <;> rfl
  obtain ⟨_, hpc, hph, _⟩ := hR.results i hi hah
  have hph4 : (s.th (w.ctlOf i).body).phase = 4 := by
    rw [hph, hop]; rcases hst with e | e <;> rw [e] <;> rfl
  have hca : ∃ b, caOf w.prog w.ctl i = some (f, mode, b) := by
    show ∃ b, callOf w.prog (w.ctlOf i) = some (f, mode, b)
    unfold callOf
    rw [hop]
    rcases hst with e | e <;> rw [e] <;> exact ⟨_, rfl⟩
  obtain ⟨b, hca⟩ := hca
  obtain ⟨hf, nt, ds, hnv, _, hnt, _⟩ := hR.f.c.call i f mode b hi hca
  have hnot : ((data4 s).futs.getD f {}).notified = (s.futs.getD f {}).notified := by
    have := data4_fut s f
    show ((data4 s).fut f).notified = _
    rw [this]; rfl
  refine ⟨hph4, nt, ds, nvOf_some.1 hnv, ?_, ?_⟩
  · rw [← hnot]; exact hnt
  · intro hnt0 hno
    have hnf : (s.futs.getD f {}).notified = false := by
      cases hh : (s.futs.getD f {}).notified with
      | false => rfl
      | true =>
        rw [← hnot] at hh
        rcases hnt.1 hh with e | ⟨j, hj, hj'⟩
        · rw [hnt0] at e; cases e
        · exact absurd hj' (hno j hj)
    have hopS : SC.opOf w.prog s (w.ctlOf i).body = some (.blockOn f mode) := by
      unfold SC.opOf
      have : (s.th (w.ctlOf i).body).pc = (w.ctlOf i).pc := hpc
      rw [this]; exact hop
    have hpl : Plain (s.th (w.ctlOf i).body) := by
      obtain ⟨_, h2⟩ := hR.x.thr i hi
      have e : (data4 s).ths.getD (w.ctlOf i).body {} = dth4 (s.th (w.ctlOf i).body) := data4_th s _
      have h2' : ThRel4 w.prog (w.ctlOf i) (dth4 (s.th (w.ctlOf i).body)) := by rw [← e]; exact h2
      exact plain_of h2'.2.2.1
    unfold SC.enabled
    simp only [hopS, hph4, hnf, hpl.1, hpl.2.1]
    simp

end Refine4
end LoomVerif

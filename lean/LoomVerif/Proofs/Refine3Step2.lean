/-
Refinement, RESOURCE fragment, part 5: the simulation for `lock`, `tryLock`, `unlock`, `spawn`, `join` and the
thread epilogue (the proofs of `Proofs/RefineStep2.lean` with the resource part of the relation carried along).
-/
import LoomVerif.Proofs.Refine3Step

namespace LoomVerif
namespace Refine3
open Refine Sy C07 C08

section
variable {w w' : World} {s : SCData3}

/-- a stage that only moves the active thread's `stage` -/
theorem sim_stage (hR : R3 w s) (hact : w.tid < w.ctl.length) {op : Op} (hop : opAt w = some op) (n : Nat)
    (hn : n ≤ maxStage (some op))
    (hq : Quiet3 w w') (hctl : w'.ctl = w.ctl.modify w.tid fun c => { c with stage := n }) : Sim3 w s w' := by
  refine ⟨hq.q.prog, .inl ⟨?_, hq.q.events⟩⟩
  refine R3_stutter hR hact _ hq hctl rfl rfl rfl rfl rfl (by rw [hop]; exact hn) Iff.rfl ?_
  intro hne
  exact absurd (fin_zero3 hR hact hop) hne

theorem mem_frag (hR : R3 w s) (hact : w.tid < w.ctl.length) {op : Op} (hop : opAt w = some op)
    (hf : isFrag op = true) {l : Option (Nat × Ret)} {b : SCData}
    (h : (l, b) ∈ SCData.stepL w.prog s.base (w.ctlOf w.tid).body) :
    (l, s.withBase b) ∈ SCData3.stepL w.prog s (w.ctlOf w.tid).body :=
  mem_stepL_frag ((base3 hR hact).2.2.trans hop) hf h

theorem sim_lock3 (hR : R3 w s) (hact : w.tid < w.ctl.length) {mi : Nat}
    (hop : opAt w = some (.lock mi)) (hmi : mi < w.prog.cfg.nMutexes)
    (h : w.runOp (w.ctlOf w.tid) (.lock mi) = .ok w') : SimI w s w' := by
  have hin : w.tid < w.exec.threads.threads.length := by rw [← hR.lenCtl]; exact hact
  obtain ⟨_, hrel, hof⟩ := base3 hR hact
  obtain ⟨l, hv, hmap, hown⟩ := hR.y.mtx mi hmi
  obtain ⟨ms, hobj, hlock⟩ := objView_mutex hv
  have hobj' : w.exec.objs[w.mutexObj mi]? = some (.mutex ms) := hobj
  rw [runOp_lock] at h
  split at h
  · -- the branch point
    simp only [getMutex_of hobj', bind, Except.bind] at h
    obtain ⟨hq, hc⟩ := branch_quiet3 h
    exact ⟨sim_stage hR hact hop 1 (Nat.le_refl _) (quiet3_setStage hq) hc, branch_inRange h⟩
  · obtain ⟨⟨w1, okk⟩, hpa, h⟩ := bind_ok h
    obtain ⟨hk, hc1, ht1, hp1, hs1, he1, hl1, _, hobjs⟩ := postAcquire_obs hobj' hpa
    cases okk with
    | false => simp [bind, Except.bind, throw, throwThe, MonadExceptOf.throw] at h
    | true =>
      simp only [Bool.not_true, Bool.false_eq_true, if_false, bind, Except.bind, pure, Except.pure] at h
      cases h
      refine ⟨?_, inRange_of (w' := w1.complete .unit) ht1 (Nat.le_of_eq hl1.symm) hin⟩
      have hl0 : l = none := by
        rw [← hlock]
        cases hh : ms.lock with
        | none => rfl
        | some i => rw [hh] at hk; cases hk
      subst hl0
      obtain ⟨h1, h2⟩ := started_running3 hR hact (by rw [fin_zero3 hR hact hop]; omega)
      refine ⟨hp1, .inr ⟨some ((s.th (w.ctlOf w.tid).body).pc, .unit),
        s.withBase (({ s.base with mutex := s.mutex.set mi (some (w.ctlOf w.tid).body) } : SCData).ret
          (w.ctlOf w.tid).body .unit),
        ?_, ?_, ?_, ?_⟩⟩
      · unfold SCData3.enabled SCData.enabled
        rw [SCData3.base_opOf, hof, hop, SCData3.base_th, h1, h2]
        simp only [Option.map_none] at hmap
        show (true && !false && (s.mutex.getD mi none).isNone) = true
        rw [← hmap]; rfl
      · refine mem_frag hR hact hop rfl ?_
        unfold SCData.stepL
        rw [SCData3.base_opOf, hof, hop]
        exact List.mem_singleton.2 rfl
      · refine R3_complete_q (s := s) (cells' := s.cells) (w0 := w1) hR hact hop hc1 ht1 hp1 hs1 hl1
          (postAcquire_frame hpa) ?_ ?_ _
        · rw [hobjs rfl]; exact AEq.set hobj' rfl
        · rw [hobjs rfl]
          exact hR.y.setMutex hmi _ (some w.tid) rfl (by intro i hi; cases hi; exact hact)
      · rw [events_complete', he1, ht1]
        show ((w1.ctlOf w.tid).body, (w1.ctlOf w.tid).pc, Ret.unit) :: _ = _
        rw [show w1.ctlOf w.tid = w.ctlOf w.tid by simp only [World.ctlOf, hc1], hrel.2.1]
        rfl

theorem sim_tryLock3 (hR : R3 w s) (hact : w.tid < w.ctl.length) {mi : Nat}
    (hop : opAt w = some (.tryLock mi)) (hmi : mi < w.prog.cfg.nMutexes)
    (h : w.runOp (w.ctlOf w.tid) (.tryLock mi) = .ok w') : SimI w s w' := by
  have hin : w.tid < w.exec.threads.threads.length := by rw [← hR.lenCtl]; exact hact
  obtain ⟨_, hrel, hof⟩ := base3 hR hact
  obtain ⟨l, hv, hmap, hown⟩ := hR.y.mtx mi hmi
  obtain ⟨ms, hobj, hlock⟩ := objView_mutex hv
  have hobj' : w.exec.objs[w.mutexObj mi]? = some (.mutex ms) := hobj
  rw [runOp_tryLock] at h
  split at h
  · obtain ⟨hq, hc⟩ := branch_quiet3 h
    exact ⟨sim_stage hR hact hop 1 (Nat.le_refl _) (quiet3_setStage hq) hc, branch_inRange h⟩
  · obtain ⟨⟨w1, okk⟩, hpa, h⟩ := bind_ok h
    obtain ⟨hk, hc1, ht1, hp1, hs1, he1, hl1, hsame, hobjs⟩ := postAcquire_obs hobj' hpa
    simp only [pure, Except.pure] at h
    cases h
    refine ⟨?_, inRange_of (w' := w1.complete _) ht1 (Nat.le_of_eq hl1.symm) hin⟩
    have hev : (w1.complete (World.boolRet okk)).events.map triple =
        ((w.ctlOf w.tid).body, (s.th (w.ctlOf w.tid).body).pc, World.boolRet okk) :: w.events.map triple := by
      rw [events_complete', he1, ht1,
        show w1.ctlOf w.tid = w.ctlOf w.tid by simp only [World.ctlOf, hc1], hrel.2.1]
    cases okk with
    | false =>
      have hw : w1 = w := hsame rfl
      rw [hw] at hev ⊢
      have hl0 : (s.base.mutex.getD mi none).isNone = false := by
        show (s.mutex.getD mi none).isNone = false
        rw [← hmap, ← hlock]
        cases hh : ms.lock with
        | none => rw [hh] at hk; cases hk
        | some i => rfl
      refine ⟨rfl, .inr ⟨some ((s.th (w.ctlOf w.tid).body).pc, SC.bool01 false),
        s.withBase (s.base.ret (w.ctlOf w.tid).body (SC.bool01 false)),
        enabled_plain3 hR hact hop (by simp) (by simp), ?_, ?_, hev⟩⟩
      · refine mem_frag hR hact hop rfl ?_
        unfold SCData.stepL
        rw [SCData3.base_opOf, hof, hop]
        simp only []
        rw [hl0]
        exact List.mem_singleton.2 rfl
      · exact R3_complete_q (s := s) (cells' := s.cells) (mutex' := s.mutex) (w0 := w) hR hact hop rfl rfl rfl rfl
          rfl rfl (AEq.refl _) hR.y _
    | true =>
      have hl0 : l = none := by
        rw [← hlock]
        cases hh : ms.lock with
        | none => rfl
        | some i => rw [hh] at hk; cases hk
      subst hl0
      simp only [Option.map_none] at hmap
      have hl1' : (s.base.mutex.getD mi none).isNone = true := by
        show (s.mutex.getD mi none).isNone = true
        rw [← hmap]; rfl
      refine ⟨hp1, .inr ⟨some ((s.th (w.ctlOf w.tid).body).pc, SC.bool01 true),
        s.withBase (({ s.base with mutex := s.mutex.set mi (some (w.ctlOf w.tid).body) } : SCData).ret
          (w.ctlOf w.tid).body (SC.bool01 true)),
        enabled_plain3 hR hact hop (by simp) (by simp), ?_, ?_, hev⟩⟩
      · refine mem_frag hR hact hop rfl ?_
        unfold SCData.stepL
        rw [SCData3.base_opOf, hof, hop]
        simp only []
        rw [hl1']
        exact List.mem_singleton.2 rfl
      · refine R3_complete_q (s := s) (cells' := s.cells) (w0 := w1) hR hact hop hc1 ht1 hp1 hs1 hl1
          (postAcquire_frame hpa) ?_ ?_ _
        · rw [hobjs rfl]; exact AEq.set hobj' rfl
        · rw [hobjs rfl]
          exact hR.y.setMutex hmi _ (some w.tid) rfl (by intro i hi; cases hi; exact hact)

theorem sim_unlock3 (hR : R3 w s) (hact : w.tid < w.ctl.length) {mi : Nat}
    (hop : opAt w = some (.unlock mi)) (hmi : mi < w.prog.cfg.nMutexes)
    (h : w.runOp (w.ctlOf w.tid) (.unlock mi) = .ok w') : SimI w s w' := by
  have hin : w.tid < w.exec.threads.threads.length := by rw [← hR.lenCtl]; exact hact
  obtain ⟨_, hrel, hof⟩ := base3 hR hact
  obtain ⟨l, hv, hmap, hown⟩ := hR.y.mtx mi hmi
  obtain ⟨ms, hobj, hlock⟩ := objView_mutex hv
  have hobj' : w.exec.objs[w.mutexObj mi]? = some (.mutex ms) := hobj
  rw [runOp_unlock] at h
  obtain ⟨w1, hrl, h⟩ := bind_ok h
  obtain ⟨hc1, ht1, hp1, hs1, he1, hl1, m', hm', hobjs⟩ := releaseLock_obs hobj' hrl
  simp only [pure, Except.pure] at h
  cases h
  refine ⟨?_, inRange_of (w' := w1.complete .unit) ht1 (Nat.le_of_eq hl1.symm) hin⟩
  refine ⟨hp1, .inr ⟨some ((s.th (w.ctlOf w.tid).body).pc, .unit),
    s.withBase (({ s.base with mutex := s.mutex.set mi none } : SCData).ret (w.ctlOf w.tid).body .unit),
    enabled_plain3 hR hact hop (by simp) (by simp), ?_, ?_, ?_⟩⟩
  · refine mem_frag hR hact hop rfl ?_
    unfold SCData.stepL
    rw [SCData3.base_opOf, hof, hop]
    exact List.mem_singleton.2 rfl
  · refine R3_complete_q (s := s) (cells' := s.cells) (w0 := w1) hR hact hop hc1 ht1 hp1 hs1 hl1
      (releaseLock_frame hrl) ?_ ?_ _
    · rw [hobjs]; exact AEq.set hobj' rfl
    · rw [hobjs]
      exact hR.y.setMutex hmi (.mutex m') none (by simp [view, hm']) (by intro i hi; cases hi)
  · rw [events_complete', he1, ht1,
      show w1.ctlOf w.tid = w.ctlOf w.tid by simp only [World.ctlOf, hc1], hrel.2.1]
    rfl

theorem sim_spawn3 (hwf : WF3 w.prog) (hR : R3 w s) (hact : w.tid < w.ctl.length) {b : Nat}
    (hop : opAt w = some (.spawn b))
    (h : w.runOp (w.ctlOf w.tid) (.spawn b) = .ok w') : SimI w s w' := by
  have hin : w.tid < w.exec.threads.threads.length := by rw [← hR.lenCtl]; exact hact
  obtain ⟨_, hrel, hof⟩ := base3 hR hact
  have hf0 := fin_zero3 hR hact hop
  obtain ⟨hb0, hb, hidle⟩ := hR.x.spawn_fresh hwf hact hop
  have hfr := spawn_frame h
  obtain ⟨w2, rfl, hp, ht, hev, hc, hsp, hobjs, hlen⟩ := spawn_obs h
  refine ⟨?_, inRange_of (w' := w2.complete .unit) ht (by
    show _ ≤ w2.exec.threads.threads.length
    rw [hlen]; omega) hin⟩
  obtain ⟨h1, h2, h3, h4, h5, h6, h7⟩ := hrel
  have hne : (w.ctlOf w.tid).body ≠ b := hidle w.tid hact
  simp only [frame, Prod.mk.injEq] at hfr
  obtain ⟨f1, f2, f3, f4⟩ := hfr
  have haeq : AEq w.exec.objs w2.exec.objs := by
    rw [hobjs]; exact AEq.append _ rfl
  refine ⟨hp, .inr ⟨some ((s.th (w.ctlOf w.tid).body).pc, .unit),
    s.withBase ((s.base.modTh b fun h => { h with started := true }).ret (w.ctlOf w.tid).body .unit),
    enabled_plain3 hR hact hop (by simp) (by simp), ?_, ?_, ?_⟩⟩
  · refine mem_frag hR hact hop rfl ?_
    unfold SCData.stepL
    rw [SCData3.base_opOf, hof, hop]
    exact List.mem_singleton.2 rfl
  · refine R3.mk' (p := w.prog) (ctl := (w.ctl ++ [({ body := b } : TCtl)]).modify w.tid (completeF .unit))
      (sp := (b, w.ctl.length, w.exec.objs.length) :: w.spawned) hp (by rw [ctl_complete', hc, ht])
      (by show w2.spawned = _; rw [hsp, hR.lenCtl]) ?_ ?_ ?_ ?_ ?_
    · show _ = w2.exec.threads.threads.length
      rw [hlen, ← hR.lenCtl]; simp
    · -- control part
      have hopc : opOfCtl w.prog (completeF .unit (w.ctl.getD w.tid {})) =
          (w.prog.threads.getD (w.ctlOf w.tid).body [])[(w.ctlOf w.tid).pc + 1]? := rfl
      have X1 := hR.x.modify hact (completeF .unit)
        (fun h => { h with rets := (h.pc, Ret.unit) :: h.rets, pc := h.pc + 1 }) rfl (Nat.le_succ _)
        (by
          refine ⟨h1, ?_, ?_, h4, Nat.zero_le _, h6, h7⟩
          · show (s.th (w.ctlOf w.tid).body).pc + 1 = (w.ctlOf w.tid).pc + 1
            rw [h2]
          · show ((s.th (w.ctlOf w.tid).body).pc, Ret.unit) :: (s.th (w.ctlOf w.tid).body).rets = _
            rw [h2, h3]; rfl)
        (by intro hne'; exact absurd hf0 hne')
      have hlenm : (w.ctl.modify w.tid (completeF .unit)).length = w.ctl.length := by simp
      have body_eq : ∀ i, ((w.ctl.modify w.tid (completeF .unit)).getD i {}).body = (w.ctl.getD i {}).body := by
        intro i
        by_cases hi : i = w.tid
        · subst hi; rw [getD_modify_self _ _ _ _ hact]; rfl
        · rw [getD_modify_ne _ _ _ _ _ hi]
      have X2 := X1.append hb0 hb
        (by intro i hi; rw [body_eq]; exact hidle i (by rw [hlenm] at hi; exact hi))
        ⟨w.tid, (w.ctlOf w.tid).pc, by rw [hlenm]; exact hact,
          by rw [getD_modify_self _ _ _ _ hact]; exact Nat.lt_succ_self _,
          by rw [body_eq]; exact hop⟩
      rw [modify_append_left' _ _ _ _ hact]
      have e : (s.withBase ((s.base.modTh b fun h => { h with started := true }).ret (w.ctlOf w.tid).body
            .unit)).ths =
          ((s.ths.modify (w.ctl.getD w.tid {}).body
              (fun h => { h with rets := (h.pc, Ret.unit) :: h.rets, pc := h.pc + 1 })).modify b
              fun h => { h with started := true }) := by
        show ((s.ths.modify b _).modify _ _) = _
        rw [modify_comm' _ _ _ _ _ (Ne.symm hne)]
        rfl
      rw [e]
      exact X2
    · have Y1 := hR.y.spawn b ({ body := b } : TCtl) rfl (.notify { seqCst := true, spurious := false }) rfl
      show RY _ _ _ w2.exec.objs s.cells s.mutex
      rw [hobjs]
      exact Y1.ctl (CtlLe.modify _ _ _ (by
        rw [getD_append_left _ _ _ _ hact]; rfl) (by
        rw [getD_append_left _ _ _ _ hact]; exact id))
    · show RArc w2.exec.objs (w2.complete .unit).handles (w2.complete .unit).arcs s.arcs s.handles
      rw [f1, f2]; exact hR.a.aeq haeq
    · show RTrk w.prog w2.exec.objs (w2.complete .unit).tracks (w2.complete .unit).rawAllocs s.tracks
      rw [f3, f4]; exact hR.t.aeq haeq
  · rw [events_complete', hev, ht]
    have : w2.ctlOf w.tid = w.ctlOf w.tid := by
      simp only [World.ctlOf, hc]
      exact getD_append_left _ _ _ _ hact
    rw [this, h2]
    rfl

theorem sim_join3 (hR : R3 w s) (hact : w.tid < w.ctl.length) {b : Nat}
    (hop : opAt w = some (.join b))
    (h : w.runOp (w.ctlOf w.tid) (.join b) = .ok w') : SimI w s w' := by
  have hin : w.tid < w.exec.threads.threads.length := by rw [← hR.lenCtl]; exact hact
  obtain ⟨_, hrel, hof⟩ := base3 hR hact
  rw [runOp_join] at h
  obtain ⟨⟨tid', n⟩, hl, h2⟩ := bind_ok h
  clear h
  have h := h2
  clear h2
  -- the entry of `spawned`
  have hent : ∃ b'', (b'', tid', n) ∈ w.spawned ∧ b'' = b := by
    unfold World.lookupSpawn at hl
    split at hl
    · next b'' t'' n'' hf =>
      cases hl
      have := List.find?_some hf
      exact ⟨b'', List.mem_of_find?_eq_some hf, by simpa using this⟩
    · cases hl
  obtain ⟨b'', hmem, hbb⟩ := hent
  obtain ⟨hlt, hbody, nt, hv, hnt⟩ := hR.y.sp _ tid' n hmem
  rw [hbb] at hbody
  obtain ⟨ns, hobj, hspur, hnotified⟩ := objView_notify hv
  have hst : (w.ctlOf w.tid).stage = 0 ∨ (w.ctlOf w.tid).stage = 1 := by
    have := hrel.2.2.2.2.1
    rw [opOfCtl_active, hop] at this
    have h' : (w.ctlOf w.tid).stage ≤ 1 := this
    omega
  rcases hst with hst | hst
  · simp only [hst] at h
    obtain ⟨⟨w1, st⟩, h1, h⟩ := bind_ok h
    obtain ⟨rfl, hq, hc, hr⟩ := notifyWait1_obs3 hobj hspur h1
    simp only [pure, Except.pure] at h
    cases h
    refine ⟨sim_stage hR hact hop 1 (Nat.le_refl _) ⟨⟨hq.q.prog, hq.q.spawned, hq.q.events, hq.q.len, hq.q.view⟩,
      hq.aeq, hq.frame⟩ ?_, hr⟩
    show w1.ctl.modify _ _ = _
    rw [hc]
  · simp only [hst] at h
    obtain ⟨w1, h1, h⟩ := bind_ok h
    obtain ⟨hn1, hc1, ht1, hp1, hs1, he1, hl1, hobjs⟩ := notifyWait2_obs hobj h1
    simp only [pure, Except.pure] at h
    cases h
    refine ⟨?_, inRange_of (w' := w1.complete .unit) ht1 (Nat.le_of_eq hl1.symm) hin⟩
    obtain ⟨e1, e2⟩ := started_running3 hR hact (by rw [fin_zero3 hR hact hop]; omega)
    have hfinished : (s.th (w.ctl.getD tid' {}).body).finished = true := by
      have := (hR.x.thr tid' hlt).2.2.2.2.1
      rw [show s.th (w.ctl.getD tid' {}).body = s.ths.getD (w.ctl.getD tid' {}).body {} from rfl, this]
      simp only [decide_eq_true_eq]
      exact hnt (by rw [← hnotified]; exact hn1)
    refine ⟨hp1, .inr ⟨some ((s.th (w.ctlOf w.tid).body).pc, .unit),
      s.withBase (s.base.ret (w.ctlOf w.tid).body .unit), ?_, ?_, ?_, ?_⟩⟩
    · unfold SCData3.enabled SCData.enabled
      rw [SCData3.base_opOf, hof, hop, SCData3.base_th, e1, e2]
      show (true && !false && (s.th b).finished) = true
      rw [← hbody, hfinished]; rfl
    · refine mem_frag hR hact hop rfl ?_
      unfold SCData.stepL
      rw [SCData3.base_opOf, hof, hop]
      exact List.mem_singleton.2 rfl
    · refine R3_complete_q (s := s) (cells' := s.cells) (mutex' := s.mutex) (w0 := w1) hR hact hop hc1 ht1 hp1 hs1
        hl1 (notifyWait2_frame h1) ?_ ?_ _
      · rw [hobjs]; exact AEq.set hobj rfl
      · rw [hobjs]
        exact hR.y.setNotify hv _ false (by simp [view, hspur]) (by intro e; cases e)
    · rw [events_complete', he1, ht1,
        show w1.ctlOf w.tid = w.ctlOf w.tid by simp only [World.ctlOf, hc1], hrel.2.1]
      rfl

/-! ### the epilogue -/

theorem enabled_end3 (hR : R3 w s) (hact : w.tid < w.ctl.length) (hnone : opAt w = none)
    (hfin : (w.ctlOf w.tid).fin < 10) : SCData3.enabled w.prog s (w.ctlOf w.tid).body = true := by
  obtain ⟨_, _, hof⟩ := base3 hR hact
  obtain ⟨h1, h2⟩ := started_running3 hR hact hfin
  unfold SCData3.enabled SCData.enabled
  rw [SCData3.base_opOf, hof, hnone, SCData3.base_th, h1, h2]
  rfl

theorem stepL_end3 (hR : R3 w s) (hact : w.tid < w.ctl.length) (hnone : opAt w = none) :
    (none, s.modTh (w.ctlOf w.tid).body fun h => { h with finished := true }) ∈
      SCData3.stepL w.prog s (w.ctlOf w.tid).body := by
  obtain ⟨_, _, hof⟩ := base3 hR hact
  rw [stepL_none (hof.trans hnone)]
  refine List.mem_map.2 ⟨(none, s.base.modTh (w.ctlOf w.tid).body fun h => { h with finished := true }), ?_, rfl⟩
  unfold SCData.stepL
  rw [SCData3.base_opOf, hof, hnone]
  exact List.mem_singleton.2 rfl

/-- an epilogue stage that only moves `fin`, on the same side of the notification -/
theorem sim_fin3 (hR : R3 w s) (hact : w.tid < w.ctl.length) (hnone : opAt w = none) (k : Nat)
    (hq : Quiet3 w w') (hctl : w'.ctl = w.ctl.modify w.tid fun c => { c with fin := k })
    (hk : 10 ≤ k ↔ 10 ≤ (w.ctlOf w.tid).fin) : Sim3 w s w' := by
  refine ⟨hq.q.prog, .inl ⟨?_, hq.q.events⟩⟩
  refine R3_stutter hR hact _ hq hctl rfl rfl rfl rfl rfl ?_ hk (fun _ => hnone)
  have := (base3 hR hact).2.1.2.2.2.2.1
  rw [opOfCtl_active] at this
  exact this

theorem sim_epilogue3 (hR : R3 w s) (hact : w.tid < w.ctl.length) (hnone : opAt w = none)
    (h : w.runEpilogue (w.ctlOf w.tid) = .ok w') : SimI w s w' := by
  have hin : w.tid < w.exec.threads.threads.length := by rw [← hR.lenCtl]; exact hact
  obtain ⟨_, hrel, hof⟩ := base3 hR hact
  have hloc := hrel.2.2.2.2.2.1
  have hdq := hrel.2.2.2.2.2.2
  have hdl : w.dropLocals = w := dropLocals_frag w hloc hdq
  by_cases h10 : 10 ≤ (w.ctlOf w.tid).fin
  · -- the common tail
    rw [runEpilogue_finish w _ h10] at h
    unfold World.finishThread at h
    split at h
    · cases h
    · next hrange =>
      rw [dropPass_eq, hdl] at h
      split at h
      · next e =>
        cases h
        exact ⟨sim_fin3 hR hact hnone 11 (quiet3_modCtl _ _ _) rfl (by omega),
          inRange_of rfl (Nat.le_refl _) hin⟩
      · split at h
        · next e =>
          rw [hdq] at h
          simp only at h
          obtain ⟨hq, hc⟩ := threadDone_quiet3 h
          refine ⟨sim_fin3 hR hact hnone 99 ⟨⟨hq.q.prog, hq.q.spawned, hq.q.events, hq.q.len, hq.q.view⟩, hq.aeq,
            hq.frame⟩ ?_ (by omega), threadDone_inRange h⟩
          rw [hc]; rfl
        · rw [hdq] at h
          cases h
  · have hlt : (w.ctlOf w.tid).fin < 10 := by omega
    by_cases ht0 : w.tid = 0
    · -- the main thread
      rw [runEpilogue_main w _ ht0 hlt] at h
      cases h
      refine ⟨⟨rfl, .inr ⟨none, _, enabled_end3 hR hact hnone hlt, stepL_end3 hR hact hnone, ?_, rfl⟩⟩,
        inRange_of rfl (Nat.le_refl _) hin⟩
      refine R3_finish (w0 := { w with exec := { w.exec with lazyStatics := none } }) hR hact hnone rfl rfl rfl rfl
        rfl (AEq.refl _) ?_
      exact hR.y.ctl (CtlLe.modify _ _ _ rfl (fun _ => Nat.le_refl _))
    · -- a spawned thread
      have hfind : ∃ b n, w.spawned.find? (·.2.1 == w.tid) = some (b, w.tid, n) := by
        cases hf : w.spawned.find? (·.2.1 == w.tid) with
        | none =>
          unfold World.runEpilogue at h
          simp [h10, ht0, hf, throw, throwThe, MonadExceptOf.throw] at h
        | some e =>
          obtain ⟨b, t, n⟩ := e
          have := List.find?_some hf
          simp only [beq_iff_eq] at this
          subst this
          exact ⟨b, n, rfl⟩
      obtain ⟨b, n, hf⟩ := hfind
      have hmem := List.mem_of_find?_eq_some hf
      rw [runEpilogue_spawned w _ b n ht0 hf hlt] at h
      split at h
      · next e =>
        rw [hdl] at h
        cases h
        exact ⟨sim_fin3 hR hact hnone 4 (quiet3_modCtl _ _ _) rfl (by omega), inRange_of rfl (Nat.le_refl _) hin⟩
      · split at h
        · next e3 =>
          rw [dropPass_eq, hdl] at h
          split at h
          · cases h
            exact ⟨sim_fin3 hR hact hnone 4 (quiet3_modCtl _ _ _) rfl (by omega),
              inRange_of rfl (Nat.le_refl _) hin⟩
          · split at h
            · rw [hdq] at h
              simp only at h
              obtain ⟨hq, hc⟩ := branch_quiet3 h
              refine ⟨sim_fin3 hR hact hnone 1 ⟨⟨hq.q.prog, hq.q.spawned, hq.q.events, hq.q.len, hq.q.view⟩,
                hq.aeq, hq.frame⟩ ?_ (by omega), branch_inRange h⟩
              rw [hc]; rfl
            · rw [hdq] at h
              cases h
        · -- the notification: the thread becomes joinable
          obtain ⟨hlt', hbody, nt, hv, hnt⟩ := hR.y.sp b w.tid n hmem
          obtain ⟨ns, hobj, hspur, hnotified⟩ := objView_notify hv
          obtain ⟨w1, h1, h⟩ := bind_ok h
          obtain ⟨hc1, ht1, hp1, hs1, he1, hl1, ns', hsp', hnt', hobjs⟩ := notifyEffect_obs hobj h1
          simp only [pure, Except.pure] at h
          cases h
          refine ⟨⟨hp1, .inr ⟨none, _, enabled_end3 hR hact hnone hlt, stepL_end3 hR hact hnone, ?_, ?_⟩⟩,
            inRange_of (w' := w1.modCtl w.tid _) ht1 (Nat.le_of_eq hl1.symm) hin⟩
          · refine R3_finish (w0 := w1) hR hact hnone hc1 hp1 hs1 hl1 (notifyEffect_frame h1) ?_ ?_
            · rw [hobjs]; exact AEq.set hobj rfl
            · rw [hobjs]
              refine (hR.y.ctl (CtlLe.modify _ _ _ rfl (fun _ => Nat.le_refl _))).setNotify hv _ true
                (by simp [view, hsp', hspur, hnt']) ?_
              intro _ b' i hmem'
              have := hR.y.spn _ _ hmem' hmem rfl
              simp only at this
              subst this
              rw [getD_modify_self _ _ _ _ hact]
              exact Nat.le_refl _
          · show (w1.events).map triple = _
            rw [he1]; rfl

end

end Refine3
end LoomVerif

/-
Soundness of the vector clocks of the reference semantics, part 1: DEFINITIONS.

* `Run p tr s`: executions of `Spec/SC.lean` WITH HISTORY: the list `tr` of the steps `(t, s, s')` taken so far
  (`s' ∈ SC.step p s t`, `SC.enabled p s t`), from `SC.init p`, ending in `s`.
* `Event`, `events p tr`: what a step shows declaratively — the thread, the operation it executes (`none`: the end of
  the thread) and the result it records.  No clock is part of an event.
* `Edge evs j i`, `HB evs j i`: the happens-before relation of a list of events, DECLARATIVELY: the transitive
  closure of program order and of the synchronisation edges (spawn, join, release → later acquire of the same
  synchronisation object: mutex, rwlock, `Notify`, park token; send → the event that takes that message out of the
  channel).  `EdgeA`, `HBA`: the variant with accumulated message clocks the proofs work with (the same relation for
  single-consumer programs: `Proofs/VCSoundExact.lean`).
* `clocks tr`: the vector clock each step leaves in its thread (`St.vc` of the stepping thread after the step): the
  ALGORITHM of `Spec/SC.lean`, whose agreement with `HB` is the subject of `Props/VCSound.lean`.
* `View`, `AStep`: the part of a reference state the clocks of the fragment live in, as functions, and the steps of
  the fragment on it (proved to describe `SC.step` in `Proofs/VCSoundView.lean`).
* `WFX`: the well-formedness predicate of the fragment.
-/
import LoomVerif.Proofs.RaceRef
import LoomVerif.Proofs.Refine2Data

namespace LoomVerif
namespace VCSound

open Refine (WF)
open Race (upd)

/-! ## executions with history -/

/-- one step of a run of the reference: thread `t` takes the state `s` to `s'` -/
structure Step where
  t : Nat
  s : SC.St
  s' : SC.St

/-- **Runs of the reference semantics with their history**: `Run p tr s` — from `SC.init p` the steps `tr` (oldest
first) have been taken and the state is `s`; every step is a successor (`SC.step`) of a thread that is enabled
(`SC.enabled`) in the state the previous step left. -/
inductive Run (p : Prog) : List Step → SC.St → Prop
  | nil : Run p [] (SC.init p)
  | snoc {tr : List Step} {s s' : SC.St} {t : Nat} :
      Run p tr s → SC.enabled p s t = true → s' ∈ SC.step p s t → Run p (tr ++ [⟨t, s, s'⟩]) s'

/-- the operation a step executes (`none`: the thread has run off its body and ends) -/
def Step.op (p : Prog) (e : Step) : Option Op := SC.opOf p e.s e.t

/-- the result the step records for its operation (`St.ret` pushes `(pc, result)` on the thread's `rets`) -/
def Step.res (e : Step) : Option Ret := (e.s'.th e.t).rets.lookup (e.s.th e.t).pc

/-- the vector clock of the stepping thread after the step: what `Spec/SC.lean` compares at cell accesses -/
def Step.clock (e : Step) : VV := e.s'.vc e.t

/-- an event of a trace: the thread, the operation, the recorded result.  (Its index in the trace is its position in
the list `events p tr`.) -/
structure Event where
  thr : Nat
  op : Option Op
  res : Option Ret
deriving DecidableEq, Repr

def Step.ev (p : Prog) (e : Step) : Event := ⟨e.t, e.op p, e.res⟩

/-- the events of a trace, in order -/
def events (p : Prog) (tr : List Step) : List Event := tr.map (Step.ev p)

/-- the clocks of a trace, in order (`clocks tr`[i] is the clock of the thread of step `i` after step `i`) -/
def clocks (tr : List Step) : List VV := tr.map Step.clock

/-! ## happens-before, declaratively -/

/-- the synchronisation objects that carry a clock which is RELEASED into and ACQUIRED from: a mutex, a rwlock, a
`Notify`, the park token of a thread -/
inductive Obj
  | mutex (m : Nat) | rw (l : Nat) | notify (n : Nat) | token (u : Nat)
  /-- the sender side of a channel (`chanRel q`, into which every `send` releases and from which the clock of the next
  message is taken; nothing acquires from it directly: see `ChanSync`) -/
  | chan (q : Nat)
deriving DecidableEq, Repr

/-- the object an operation of thread `t` acquires from when it succeeds: `lock` / `trylock` the mutex; `rd` / `tryrd`
/ `wr` / `trywr` the rwlock; `nwait` the `Notify`; `park` the token of the parking thread -/
def acqObjOf (t : Nat) : Op → Option Obj
  | .lock m | .tryLock m => some (.mutex m)
  | .read l | .tryRead l | .write l | .tryWrite l => some (.rw l)
  | .nWait n => some (.notify n)
  | .park => some (.token t)
  | _ => none

/-- the `try` operations: they acquire only when they return 1 -/
def isTry : Op → Bool
  | .tryLock _ | .tryRead _ | .tryWrite _ => true
  | _ => false

/-- the object an operation releases into: `unlock` the mutex; `unrd` / `unwr` the rwlock; `nnotify` the `Notify`;
`unpark u` the token of `u` -/
def relObjOf : Op → Option Obj
  | .unlock m => some (.mutex m)
  | .unread l | .unwrite l => some (.rw l)
  | .nNotify n => some (.notify n)
  | .unpark u => some (.token u)
  | .send q _ => some (.chan q)
  | _ => none

/-- the event acquires from object `o`: an acquiring operation on `o` (`acqObjOf`) that is not a `try` operation, or a
`try` operation that returned 1 -/
def Event.Acq (e : Event) (o : Obj) : Prop :=
  ∃ op, e.op = some op ∧ acqObjOf e.thr op = some o ∧ (isTry op = true → e.res = some (.val 1))

/-- the event releases into object `o` -/
def Event.Rel (e : Event) (o : Obj) : Prop := ∃ op, e.op = some op ∧ relObjOf op = some o

/-- **The generating edges of happens-before** between an earlier event `a` and a later event `b` of one trace:

* program order: the same thread;
* spawn: `a` is the `spawn` of the thread of `b` (with program order: spawn → first step of the child → every step);
* join: `b` is a `join` of the thread of `a` (`join b` is enabled only when `b` has ended, so every step of the joined
  thread is earlier, and this is: last step of the thread → join, with program order);
* release → acquire: `a` releases into a synchronisation object `o` and `b` acquires from the same object: every
  release happens before every LATER acquire of the same object.
  - mutex: `unlock m` → `lock m` / successful `trylock m`.  (The textbook definition.  Taking only the most recent
    `unlock` generates the same closure for programs in which only the holder unlocks; the reference semantics does not
    check the holder, and its mutex clock accumulates every `unlock`.)
  - rwlock: `unrd l` / `unwr l` → `rd l` / `wr l` / successful `tryrd l` / `trywr l`.  NOTE: this includes
    read-unlock → read-lock (readers synchronise with later readers), which the textbook rwlock does not promise; it is
    what `Spec/SC.lean` (one accumulating clock `rwRel l`, as in loom) decides.
  - `Notify`: `nnotify n` → every later `nwait n`.  NOTE: NOT "the wait it wakes": `Spec/SC.lean` (`nRel n`, like loom's
    `Notify`) accumulates every notification and never resets, so a wait also acquires from notifications that an
    earlier wait of ANOTHER thread consumed; see `Example.Notify2` in `Props/VCSound.lean`.
  - park token: `unpark u` → every later `park` of thread `u` (the parks of `u` are ordered by program order, so this
    is the closure of "unpark → the park that consumes the token"; several `unpark`s before one `park` all count). -/
def Sync (a b : Event) : Prop :=
  a.thr = b.thr ∨ a.op = some (.spawn b.thr) ∨ b.op = some (.join a.thr) ∨
  ∃ o, a.Rel o ∧ b.Acq o

/-! ### messages -/

/-- a `send` on channel `q` -/
def Event.sendOn (e : Event) (q : Nat) : Prop := ∃ x, e.op = some (.send q x)
/-- the event takes a message out of channel `q`: a `recv q`, or a `tryrecv q` that returned a value -/
def Event.takeOn (e : Event) (q : Nat) : Prop :=
  e.op = some (.recv q) ∨ (e.op = some (.tryRecv q) ∧ ∃ x, e.res = some (.val x))
/-- the event drops the receiver of channel `q` (and with it every message still in the channel) -/
def Event.dropOn (e : Event) (q : Nat) : Prop := e.op = some (.dropRx q)

instance (e : Event) (q : Nat) : Decidable (e.sendOn q) := by
  unfold Event.sendOn
  cases h : e.op with
  | none => exact isFalse (by simp)
  | some op =>
    cases op
    case send q' x =>
      by_cases hq : q' = q
      · exact isTrue ⟨x, by rw [hq]⟩
      · exact isFalse (by rintro ⟨y, hy⟩; cases hy; exact hq rfl)
    all_goals exact isFalse (by rintro ⟨y, hy⟩; cases hy)

instance (e : Event) (q : Nat) : Decidable (e.takeOn q) := by
  unfold Event.takeOn
  have : Decidable (∃ x, e.res = some (Ret.val x)) := by
    cases h : e.res with
    | none => exact isFalse (by simp)
    | some r =>
      cases r
      case val x => exact isTrue ⟨x, rfl⟩
      all_goals exact isFalse (by rintro ⟨y, hy⟩; cases hy)
  infer_instance

instance (e : Event) (q : Nat) : Decidable (e.dropOn q) := by unfold Event.dropOn; infer_instance

/-- what has happened on channel `q`: the number of messages sent into it (a `send` after the receiver was dropped
sends nothing), the number of messages taken out by `recv` / `tryrecv`, whether the receiver has been dropped -/
structure ChanCount where
  sends : Nat := 0
  takes : Nat := 0
  dropped : Bool := false
deriving DecidableEq, Repr

def ChanCount.step (q : Nat) (c : ChanCount) (e : Event) : ChanCount :=
  if e.dropOn q then { c with dropped := true }
  else if e.sendOn q then (if c.dropped then c else { c with sends := c.sends + 1 })
  else if e.takeOn q then { c with takes := c.takes + 1 }
  else c

/-- the counts of channel `q` after the events `evs` -/
def chanCount (q : Nat) (evs : List Event) : ChanCount := evs.foldl (ChanCount.step q) {}

/-- **message edges**, between event `j` — a `send` on `q` before the receiver is dropped, which puts message number
`n` (counting from 0) into the channel — and a later event `i` on the same channel.

EXACT (`exact = true`, the declarative definition): `i` is the event that takes message number `n` out of the channel:
the `recv` / successful `tryrecv` before which exactly `n` messages had been taken (the channel is FIFO), or the
`droprx` that discards it (at most `n` messages had been taken before it): "send → the recv that receives that
message".

ACCUMULATED (`exact = false`, what the clocks of `Spec/SC.lean` decide, with any number of consumers): `i` takes a message
with a number `≥ n`, or is the first `droprx`, of a non-empty channel.  (The clock of a message is the accumulated
clock `chanRel q` of ALL sends so far.)  For a single consumer (`Refine2.RxOrder`) both generate the same
happens-before (`Proofs/VCSoundExact.lean`): the earlier messages were taken by earlier steps of the same thread. -/
def ChanSync (exact : Bool) (evs : List Event) (j i : Nat) : Prop :=
  ∃ q a b, evs[j]? = some a ∧ evs[i]? = some b ∧ a.sendOn q ∧ (chanCount q (evs.take j)).dropped = false ∧
    ((b.takeOn q ∧
        (if exact then (chanCount q (evs.take j)).sends = (chanCount q (evs.take i)).takes
         else (chanCount q (evs.take j)).sends ≤ (chanCount q (evs.take i)).takes)) ∨
     (b.dropOn q ∧ (chanCount q (evs.take i)).dropped = false ∧
        (if exact then (chanCount q (evs.take i)).takes ≤ (chanCount q (evs.take j)).sends
         else (chanCount q (evs.take i)).takes < (chanCount q (evs.take i)).sends)))

/-- an edge from event `j` to the later event `i` of the list (`exact`: how messages are matched, see `ChanSync`) -/
def EdgeG (exact : Bool) (evs : List Event) (j i : Nat) : Prop :=
  j < i ∧ ((∃ a b, evs[j]? = some a ∧ evs[i]? = some b ∧ Sync a b) ∨ ChanSync exact evs j i)

/-- **HAPPENS-BEFORE** (the declarative definition): the transitive closure of program order, spawn, join,
release → acquire and "send → the event that takes that message out of the channel" -/
def Edge (evs : List Event) (j i : Nat) : Prop := EdgeG true evs j i
def HB (evs : List Event) : Nat → Nat → Prop := Relation.TransGen (Edge evs)
/-- happens-before or equal -/
def HBeq (evs : List Event) (j i : Nat) : Prop := j = i ∨ HB evs j i

/-- the edges with accumulated message clocks: what the vector clocks decide without any assumption on the consumers
(used in the proofs; equal to `HB` for single-consumer programs) -/
def EdgeA (evs : List Event) (j i : Nat) : Prop := EdgeG false evs j i
def HBA (evs : List Event) : Nat → Nat → Prop := Relation.TransGen (EdgeA evs)
def HBAeq (evs : List Event) (j i : Nat) : Prop := j = i ∨ HBA evs j i

/-- the event advances the own component of its thread's clock: every operation except `ifEq` and the end of the
thread (`SC.step`: `let s := match op with | .ifEq .. => s | _ => s.tick t`) -/
def Event.ticks (e : Event) : Bool :=
  match e.op with
  | none => false
  | some (.ifEq ..) => false
  | some _ => true

/-- event `j` is known to thread `t` at the end of the trace: it happens before (or is) a step of `t`, or the `spawn`
of `t` — i.e. it happens-before-or-equals the current point of `t` -/
def VisA (evs : List Event) (j t : Nat) : Prop :=
  ∃ i e, evs[i]? = some e ∧ (e.thr = t ∨ e.op = some (.spawn t)) ∧ HBAeq evs j i

/-- the same with the declarative happens-before -/
def Vis (evs : List Event) (j t : Nat) : Prop :=
  ∃ i e, evs[i]? = some e ∧ (e.thr = t ∨ e.op = some (.spawn t)) ∧ HBeq evs j i

def Event.isWrite (e : Event) (c : Nat) : Prop := ∃ v, e.op = some (.cellWrite c v)
def Event.isRead (e : Event) (c : Nat) : Prop := e.op = some (.cellRead c)
def Event.isAccess (e : Event) (c : Nat) : Prop := e.isRead c ∨ e.isWrite c

/-- two accesses of the same cell, at least one of them a write -/
def Conflict (a b : Event) : Prop :=
  ∃ c, (a.isWrite c ∧ b.isAccess c) ∨ (a.isAccess c ∧ b.isWrite c)

/-! ## the clock part of a state, as functions -/

/-- what the lock fragment reads and writes of a reference state, besides values: the clocks of the threads, of the
mutexes (`mutexRel`) and of the cells (`cellW`, `cellR`), and the control data of the threads -/
structure View where
  vc : Nat → VV
  started : Nat → Bool
  finished : Nat → Bool
  pc : Nat → Nat
  mrel : Nat → VV
  cw : Nat → VV
  cr : Nat → VV
  verdict : Option SC.Verdict
  /-- rwlock clocks (`rwRel`), `Notify` clocks (`nRel`), park token clocks (`Th.tokenVC`) -/
  rwrel : Nat → VV
  nrel : Nat → VV
  tok : Nat → VV
  /-- channels: the accumulated sender clock (`chanRel`), the clocks of the messages in the channel, oldest first
  (`chan`), whether the receiver has been dropped (`rxDropped`) -/
  crel : Nat → VV
  chq : Nat → List VV
  rxd : Nat → Bool

def view (s : SC.St) : View where
  vc := s.vc
  started := fun t => (s.th t).started
  finished := fun t => (s.th t).finished
  pc := fun t => (s.th t).pc
  mrel := fun m => s.mutexRel.getD m VV.zero
  cw := fun c => s.cellW.getD c VV.zero
  cr := fun c => s.cellR.getD c VV.zero
  verdict := s.verdict
  rwrel := fun l => s.rwRel.getD l VV.zero
  nrel := fun n => s.nRel.getD n VV.zero
  tok := fun u => (s.th u).tokenVC
  crel := fun q => s.chanRel.getD q VV.zero
  chq := fun q => (s.chan.getD q []).map (·.2)
  rxd := fun q => s.rxDropped.getD q false

/-- the clock of a synchronisation object -/
def View.orel (v : View) : Obj → VV
  | .mutex m => v.mrel m
  | .rw l => v.rwrel l
  | .notify n => v.nrel n
  | .token u => v.tok u
  | .chan q => v.crel q

/-- set the clock of a synchronisation object -/
def View.setRel (v : View) (o : Obj) (X : VV) : View :=
  match o with
  | .mutex m => { v with mrel := upd v.mrel m X }
  | .rw l => { v with rwrel := upd v.rwrel l X }
  | .notify n => { v with nrel := upd v.nrel n X }
  | .token u => { v with tok := upd v.tok u X }
  | .chan q => { v with crel := upd v.crel q X }

/-- the operation at position `k` of body `t` -/
def opAt (p : Prog) (t k : Nat) : Option Op := (p.threads.getD t [])[k]?

/-- the ticked clock of thread `t` -/
def View.tk (v : View) (t : Nat) : VV := (v.vc t).inc t

/-- **the steps of the fragment on the view** (`op`, `res`: the operation and the recorded result; `n`: the number of
threads of the program) -/
inductive AStep (n : Nat) (t : Nat) (v : View) : Option Op → Option Ret → View → Prop
  | fin (res) : AStep n t v none res { v with finished := upd v.finished t true }
  | ifEq (i r k j res) : v.pc t < j → AStep n t v (some (.ifEq i r k)) res { v with pc := upd v.pc t j }
  /-- an operation that acquires from `o` (a `try` operation: one that returned 1) -/
  | acq (op o res) : acqObjOf t op = some o → (isTry op = true → res = some (.val 1)) → AStep n t v (some op) res
      { v with vc := upd v.vc t ((v.tk t).join (v.orel o)), pc := upd v.pc t (v.pc t + 1) }
  /-- a `try` operation that failed -/
  | tryFail (op res) : isTry op = true → res ≠ some (.val 1) → AStep n t v (some op) res
      { v with vc := upd v.vc t (v.tk t), pc := upd v.pc t (v.pc t + 1) }
  /-- an operation that releases into `o` -/
  | rel (op o res) : relObjOf op = some o → (∀ q x, op ≠ .send q x) → AStep n t v (some op) res
      (({ v with vc := upd v.vc t (v.tk t), pc := upd v.pc t (v.pc t + 1) } : View).setRel o
        ((v.orel o).join (v.tk t)))
  /-- `unpark` of a thread that has ended or does not exist: nothing is recorded (nobody will acquire from it) -/
  | relDead (u res) : (v.finished u = true ∨ n ≤ u) → AStep n t v (some (.unpark u)) res
      { v with vc := upd v.vc t (v.tk t), pc := upd v.pc t (v.pc t + 1) }
  /-- `send` after the receiver was dropped: nothing is recorded -/
  | sendDead (q x res) : v.rxd q = true → AStep n t v (some (.send q x)) res
      { v with vc := upd v.vc t (v.tk t), pc := upd v.pc t (v.pc t + 1) }
  /-- `send`: the accumulated sender clock takes the clock of the sender, the message gets the result -/
  | send (q x res) : v.rxd q = false → AStep n t v (some (.send q x)) res
      { v with vc := upd v.vc t (v.tk t), pc := upd v.pc t (v.pc t + 1),
               crel := upd v.crel q ((v.crel q).join (v.tk t)),
               chq := upd v.chq q (v.chq q ++ [(v.crel q).join (v.tk t)]) }
  /-- `recv` / a `tryrecv` that finds a message: the clock of the oldest message is acquired -/
  | take (op q X rest res) : (op = .recv q ∨ (op = .tryRecv q ∧ ∃ x, res = some (.val x))) → v.chq q = X :: rest →
      AStep n t v (some op) res
      { v with vc := upd v.vc t ((v.tk t).join X), pc := upd v.pc t (v.pc t + 1), chq := upd v.chq q rest }
  /-- `tryrecv` on an empty channel -/
  | recvEmpty (q) : v.chq q = [] → AStep n t v (some (.tryRecv q)) (some .empty)
      { v with vc := upd v.vc t (v.tk t), pc := upd v.pc t (v.pc t + 1) }
  /-- `droprx`: the clocks of all messages in the channel are acquired, the channel is emptied and closed -/
  | drop (q res) : AStep n t v (some (.dropRx q)) res
      { v with vc := upd v.vc t ((v.chq q).foldl VV.join (v.tk t)), pc := upd v.pc t (v.pc t + 1),
               chq := upd v.chq q [], rxd := upd v.rxd q true }
  | spawn (b res) : 0 < b → AStep n t v (some (.spawn b)) res
      { v with vc := upd (upd v.vc t (v.tk t)) b (((upd v.vc t (v.tk t) b).join (v.tk t)).inc b),
               started := upd v.started b true, pc := upd v.pc t (v.pc t + 1) }
  | join (b res) : v.finished b = true → AStep n t v (some (.join b)) res
      { v with vc := upd v.vc t ((v.tk t).join (v.vc b)), pc := upd v.pc t (v.pc t + 1) }
  | readRace (c res) : ¬ (v.cw c).le (v.tk t) → AStep n t v (some (.cellRead c)) res
      { v with vc := upd v.vc t (v.tk t), verdict := some (.race 9) }
  | read (c res) : (v.cw c).le (v.tk t) → AStep n t v (some (.cellRead c)) res
      { v with vc := upd v.vc t (v.tk t), cr := upd v.cr c ((v.cr c).join (v.tk t)), pc := upd v.pc t (v.pc t + 1) }
  | writeRaceW (c x res) : ¬ (v.cw c).le (v.tk t) → AStep n t v (some (.cellWrite c x)) res
      { v with vc := upd v.vc t (v.tk t), verdict := some (.race 10) }
  | writeRaceR (c x res) : (v.cw c).le (v.tk t) → ¬ (v.cr c).le (v.tk t) → AStep n t v (some (.cellWrite c x)) res
      { v with vc := upd v.vc t (v.tk t), verdict := some (.race 11) }
  | write (c x res) : (v.cw c).le (v.tk t) → (v.cr c).le (v.tk t) → AStep n t v (some (.cellWrite c x)) res
      { v with vc := upd v.vc t (v.tk t), cw := upd v.cw c ((v.cw c).join (v.tk t)), pc := upd v.pc t (v.pc t + 1) }

/-- a step of an enabled thread of a well-formed program, on the view -/
structure AStepE (p : Prog) (t : Nat) (v : View) (op : Option Op) (res : Option Ret) (v' : View) : Prop where
  started : v.started t = true
  running : v.finished t = false
  noVerdict : v.verdict = none
  lt : t < p.threads.length
  hop : opAt p t (v.pc t) = op
  step : AStep p.threads.length t v op res v'

/-- the shape of the states of runs of fragment programs: table lengths, no open access section, threads outside
multi-phase operations -/
structure Shape (p : Prog) (s : SC.St) : Prop where
  lenT : s.ths.length = p.threads.length
  lenM : s.mutexRel.length = p.cfg.nMutexes
  lenW : s.cellW.length = p.cfg.nCells
  lenR : s.cellR.length = p.cfg.nCells
  lenL : s.rwRel.length = p.cfg.nRwlocks
  lenN : s.nRel.length = p.cfg.nNotifies
  lenQ : s.chan.length = p.cfg.nChans
  lenQR : s.chanRel.length = p.cfg.nChans
  lenQD : s.rxDropped.length = p.cfg.nChans
  opnW : ∀ c, s.cellWOpen.getD c false = false
  opnR : ∀ c, s.cellOpen.getD c 0 = 0
  frag : ∀ t, Refine.FragTh (s.th t)

/-! ## the fragment -/

/-- operation `op` is in the fragment of this development and its arguments are in range for program `p`: the lock
fragment of `Refine.opOk`, the rwlock operations, `nwait` / `nnotify`, `park` / `unpark`, the channel operations -/
def opOkX (p : Prog) : Op → Bool
  | .spawn b => decide (0 < b) && decide (b < p.threads.length)
  | .join _ => true
  | .lock m | .unlock m | .tryLock m => decide (m < p.cfg.nMutexes)
  | .cellRead c | .cellWrite c _ => decide (c < p.cfg.nCells)
  | .ifEq .. => true
  | .read l | .tryRead l | .write l | .tryWrite l | .unread l | .unwrite l => decide (l < p.cfg.nRwlocks)
  | .nWait n | .nNotify n => decide (n < p.cfg.nNotifies)
  | .park | .unpark _ => true
  | .send q _ | .recv q | .tryRecv q | .dropRx q => decide (q < p.cfg.nChans)
  | _ => false

def OpsOkX (p : Prog) : Prop :=
  ∀ a, a < p.threads.length → ∀ k, k < (p.threads.getD a []).length →
    ((p.threads.getD a [])[k]?.all (opOkX p)) = true

instance (p : Prog) : Decidable (OpsOkX p) := by unfold OpsOkX; infer_instance

/-- well-formed programs of the fragment: a main body; only fragment operations with declared objects and `spawn t`
naming an existing body `0 < t`; each body spawned by at most one operation of the text (`Refine.SpawnOnce`); single
consumer: all `recv` / `tryrecv` / `droprx` on a channel are in one body (`Refine2.RxOrder`, of which only this part is
used) -/
def WFX (p : Prog) : Prop := 0 < p.threads.length ∧ OpsOkX p ∧ Refine.SpawnOnce p ∧ Refine2.RxOrder p

instance (p : Prog) : Decidable (WFX p) := by unfold WFX; infer_instance

theorem WFX.opOk {p : Prog} (h : WFX p) {a k : Nat} {op : Op}
    (hop : (p.threads.getD a [])[k]? = some op) : opOkX p op = true := by
  have hk : k < (p.threads.getD a []).length := (List.getElem?_eq_some_iff.1 hop).1
  have ha : a < p.threads.length := by
    apply Classical.byContradiction
    intro hn
    have : p.threads[a]? = none := List.getElem?_eq_none (by omega)
    simp [List.getD, this] at hk
  have := h.2.1 a ha k hk
  rw [hop] at this
  simpa using this

theorem WFX.spawn_unique {p : Prog} (h : WFX p) {a k a' k' b : Nat}
    (h1 : (p.threads.getD a [])[k]? = some (.spawn b))
    (h2 : (p.threads.getD a' [])[k']? = some (.spawn b)) : a = a' ∧ k = k' := by
  have bound : ∀ {a k : Nat} {op : Op}, (p.threads.getD a [])[k]? = some op →
      a < p.threads.length ∧ k < (p.threads.getD a []).length := by
    intro a k op hop
    have hk : k < (p.threads.getD a []).length := (List.getElem?_eq_some_iff.1 hop).1
    refine ⟨?_, hk⟩
    apply Classical.byContradiction
    intro hn
    have : p.threads[a]? = none := List.getElem?_eq_none (by omega)
    simp [List.getD, this] at hk
  obtain ⟨ha, hk⟩ := bound h1
  obtain ⟨ha', hk'⟩ := bound h2
  have e1 : Refine.spawnAt p a k = some b := by simp only [Refine.spawnAt, h1]
  have e2 : Refine.spawnAt p a' k' = some b := by simp only [Refine.spawnAt, h2]
  have := h.2.2.1 a ha k hk a' ha' k' hk'
  simpa [Refine.spawnPairOk, e1, e2] using this

/-- two receiver-side operations on the same channel are in the same body -/
theorem WFX.rx_same_body {p : Prog} (h : WFX p) {a k a' k' q : Nat} {op op' : Op}
    (h1 : (p.threads.getD a [])[k]? = some op) (h2 : (p.threads.getD a' [])[k']? = some op')
    (hq : Refine2.rxChan op = some q) (hq' : Refine2.rxChan op' = some q) : a = a' := by
  obtain ⟨ha, hk⟩ := Refine2.pos_bound h1
  obtain ⟨ha', hk'⟩ := Refine2.pos_bound h2
  have := h.2.2.2 a ha k hk a' ha' k' hk'
  simp only [Refine2.rxPairOk, Refine2.opAtPos, h1, h2, Option.bind_some, hq, hq', bne_self_eq_false,
    Bool.false_or, Bool.and_eq_true, beq_iff_eq] at this
  exact this.1

/-- the lock fragment of `Props/Refine.lean` is part of it -/
theorem WFX.of_wf {p : Prog} (h : Refine.WF p) : WFX p := by
  refine ⟨h.1, ?_, h.2.2, ?_⟩
  case refine_2 =>
    intro a ha k hk a' ha' k' hk'
    unfold Refine2.rxPairOk Refine2.opAtPos
    cases ho : (p.threads.getD a [])[k]? with
    | none => rfl
    | some op =>
      have := h.2.1 a ha k hk
      rw [ho] at this
      simp only [Option.all_some] at this
      have hn : Refine2.rxChan op = none := by
        cases op <;> first | rfl | (simp [Refine.opOk] at this)
      simp only [Option.bind_some, hn]
  intro a ha k hk
  have := h.2.1 a ha k hk
  cases ho : (p.threads.getD a [])[k]? with
  | none => rfl
  | some op =>
    rw [ho] at this
    simp only [Option.all_some] at this ⊢
    cases op <;> first | exact this | (simp [Refine.opOk] at this)

end VCSound
end LoomVerif

/-
Refinement, part 4: the one-step simulation.  Every successful stage of the active thread of the twin either
keeps the abstraction relation with the same reference state (a stuttering step: branch points, blocking,
scheduling, the stages of the epilogue around the notification), or is matched by exactly one step of the
data semantics `SCData.stepL` of the body the thread runs, enabled in the reference state, recording the same
result.
-/
import LoomVerif.Proofs.RefineTwin

namespace LoomVerif
namespace Refine
open Sy C07 C08

theorem bind_ok {α β} {x : Except Panic α} {f : α → Except Panic β} {y : β}
    (h : (x >>= f) = .ok y) : ∃ a, x = .ok a ∧ f a = .ok y := by
  cases x with
  | error e => cases h
  | ok a => exact ⟨a, rfl, h⟩

/-- the operation the active thread is at -/
def opAt (w : World) : Option Op := (w.prog.threads.getD (w.ctlOf w.tid).body [])[(w.ctlOf w.tid).pc]?

/-- the conclusion of the simulation: `w'` keeps the program and either stutters or takes the reference step
of the active thread's body -/
def Sim (w : World) (s : SCData) (w' : World) : Prop :=
  w'.prog = w.prog ∧
  ((R w' s ∧ w'.events = w.events) ∨
   ∃ l s', SCData.enabled w.prog s (w.ctlOf w.tid).body = true ∧
     (l, s') ∈ SCData.stepL w.prog s (w.ctlOf w.tid).body ∧ R w' s' ∧
     w'.events.map triple = SCData.label (w.ctlOf w.tid).body l ++ w.events.map triple)

/-- what `World.complete r` does to the control record -/
def completeF (r : Ret) (c : TCtl) : TCtl :=
  { c with pc := c.pc + 1, stage := 0, prim := none, results := (c.pc, r) :: c.results }

theorem ctl_complete' (w : World) (r : Ret) : (w.complete r).ctl = w.ctl.modify w.tid (completeF r) := rfl

theorem R.mk' {w' : World} {s' : SCData} {p : Prog} {ctl : List TCtl} {sp : List (Nat × Nat × Nat)}
    (hp : w'.prog = p) (hc : w'.ctl = ctl) (hs : w'.spawned = sp)
    (hl : ctl.length = w'.exec.threads.threads.length) (hx : RX p ctl s'.ths)
    (hy : RY p ctl sp w'.exec.objs s'.cells s'.mutex) : R w' s' := by
  subst hp hc hs
  exact ⟨hl, hx, hy⟩

section
variable {w : World} {s : SCData}

/-- what the relation says about the active thread -/
theorem base (hR : R w s) (hact : w.tid < w.ctl.length) :
    (w.ctlOf w.tid).body < w.prog.threads.length ∧
    ThRel (w.ctlOf w.tid) (s.th (w.ctlOf w.tid).body) ∧
    SCData.opOf w.prog s (w.ctlOf w.tid).body = opAt w := by
  obtain ⟨h1, h2⟩ := hR.x.thr w.tid hact
  refine ⟨h1, h2, ?_⟩
  unfold SCData.opOf opAt
  have : (s.th (w.ctlOf w.tid).body).pc = (w.ctlOf w.tid).pc := h2.2.1
  rw [this]

/-- a thread that still has an operation to run is not in its epilogue: not finished -/
theorem fin_zero (hR : R w s) (hact : w.tid < w.ctl.length) {op : Op} (hop : opAt w = some op) :
    (w.ctlOf w.tid).fin = 0 := by
  apply Classical.byContradiction
  intro hne
  have := hR.x.epi w.tid hact hne
  unfold opAt at hop
  rw [show w.ctl.getD w.tid {} = w.ctlOf w.tid from rfl] at this
  rw [this] at hop; cases hop

theorem started_running (hR : R w s) (hact : w.tid < w.ctl.length) (hfin : (w.ctlOf w.tid).fin < 10) :
    (s.th (w.ctlOf w.tid).body).started = true ∧ (s.th (w.ctlOf w.tid).body).finished = false := by
  obtain ⟨_, h2, _⟩ := base hR hact
  refine ⟨h2.1, ?_⟩
  rw [h2.2.2.2.1]
  simp; omega

/-- the operation completes with result `r`; the objects and the reference cells / mutexes have changed
consistently -/
theorem R_complete {w0 : World} {op : Op} (hR : R w s) (hact : w.tid < w.ctl.length)
    (hop : opAt w = some op)
    (hctl : w0.ctl = w.ctl) (htid : w0.tid = w.tid) (hprog : w0.prog = w.prog) (hsp : w0.spawned = w.spawned)
    (hlen : w0.exec.threads.threads.length = w.exec.threads.threads.length)
    {cells' : List Int} {mutex' : List (Option Nat)}
    (hy : RY w.prog w.ctl w.spawned w0.exec.objs cells' mutex') (r : Ret) :
    R (w0.complete r) (({ s with cells := cells', mutex := mutex' } : SCData).ret (w.ctlOf w.tid).body r) := by
  obtain ⟨_, hrel, _⟩ := base hR hact
  have hf0 := fin_zero hR hact hop
  obtain ⟨h1, h2, h3, h4, h5, h6, h7⟩ := hrel
  simp only [World.ctlOf, SCData.th] at *
  refine R.mk' (p := w.prog) (ctl := w.ctl.modify w.tid (completeF r)) (sp := w.spawned)
    hprog (by rw [ctl_complete', hctl, htid]) hsp ?_ ?_ ?_
  · show _ = w0.exec.threads.threads.length
    rw [hlen, ← hR.lenCtl]; simp
  · refine hR.x.modify hact (completeF r) _ rfl (Nat.le_succ _) ?_ ?_
    · refine ⟨h1, ?_, ?_, h4, Nat.zero_le _, h6, h7⟩
      · show (s.ths.getD _ {}).pc + 1 = (w.ctl.getD w.tid {}).pc + 1
        rw [h2]
      · show ((s.ths.getD _ {}).pc, r) :: (s.ths.getD _ {}).rets =
          ((w.ctl.getD w.tid {}).pc, r) :: (w.ctl.getD w.tid {}).results
        rw [h2, h3]
    · intro hne
      exact absurd hf0 hne
  · exact hy.ctl (CtlLe.modify _ _ _ rfl id)

/-- a stuttering stage: only the active thread's stage / epilogue counter moves -/
theorem R_stutter {w' : World} (hR : R w s) (hact : w.tid < w.ctl.length) (f : TCtl → TCtl)
    (hq : Quiet w w') (hctl : w'.ctl = w.ctl.modify w.tid f)
    (hbody : (f (w.ctlOf w.tid)).body = (w.ctlOf w.tid).body)
    (hpc : (f (w.ctlOf w.tid)).pc = (w.ctlOf w.tid).pc)
    (hres : (f (w.ctlOf w.tid)).results = (w.ctlOf w.tid).results)
    (hloc : (f (w.ctlOf w.tid)).locals = (w.ctlOf w.tid).locals)
    (hdq : (f (w.ctlOf w.tid)).dtorQueue = (w.ctlOf w.tid).dtorQueue)
    (hst : (f (w.ctlOf w.tid)).stage ≤ 1)
    (hfin : 10 ≤ (f (w.ctlOf w.tid)).fin ↔ 10 ≤ (w.ctlOf w.tid).fin)
    (hepi : (f (w.ctlOf w.tid)).fin ≠ 0 → opAt w = none) : R w' s := by
  obtain ⟨_, hrel, _⟩ := base hR hact
  obtain ⟨h1, h2, h3, h4, h5, h6, h7⟩ := hrel
  unfold opAt at hepi
  simp only [World.ctlOf, SCData.th] at *
  refine R.mk' (p := w.prog) (ctl := w.ctl.modify w.tid f) (sp := w.spawned) hq.prog hctl hq.spawned ?_ ?_ ?_
  · rw [hq.len, ← hR.lenCtl]; simp
  · refine hR.x.stutter hact f hbody (by rw [hpc]; exact Nat.le_refl _) ?_ ?_
    · refine ⟨h1, by rw [hpc]; exact h2, by rw [hres]; exact h3, ?_, hst, by rw [hloc]; exact h6,
        by rw [hdq]; exact h7⟩
      rw [h4]
      exact decide_eq_decide.2 hfin.symm
    · intro hne
      have := hepi hne
      rw [hpc]; exact this
  · exact (hR.y.ctl (CtlLe.modify _ _ _ hbody hfin.2)).viewLe hq.view

/-- the stage of the epilogue that makes the thread joinable -/
theorem R_finish {w0 : World} (hR : R w s) (hact : w.tid < w.ctl.length)
    (hnone : opAt w = none)
    (hctl : w0.ctl = w.ctl) (hprog : w0.prog = w.prog) (hsp : w0.spawned = w.spawned)
    (hlen : w0.exec.threads.threads.length = w.exec.threads.threads.length)
    (hy : RY w.prog (w.ctl.modify w.tid fun c => { c with fin := 10 }) w.spawned w0.exec.objs s.cells s.mutex) :
    R (w0.modCtl w.tid fun c => { c with fin := 10 })
      (s.modTh (w.ctlOf w.tid).body fun h => { h with finished := true }) := by
  obtain ⟨_, hrel, _⟩ := base hR hact
  obtain ⟨h1, h2, h3, h4, h5, h6, h7⟩ := hrel
  unfold opAt at hnone
  simp only [World.ctlOf, SCData.th] at *
  refine R.mk' (p := w.prog) (ctl := w.ctl.modify w.tid fun c => { c with fin := 10 }) (sp := w.spawned)
    hprog (by show w0.ctl.modify _ _ = _; rw [hctl]) hsp ?_ ?_ hy
  · show _ = w0.exec.threads.threads.length
    rw [hlen, ← hR.lenCtl]; simp
  · refine hR.x.modify hact _ _ rfl (Nat.le_refl _) ?_ ?_
    · exact ⟨h1, h2, h3, rfl, h5, h6, h7⟩
    · intro _
      exact hnone

end

/-! ### the equations of the remaining fragment operations -/

theorem runOp_cellRead (w : World) (c : TCtl) (ci : Nat) :
    w.runOp c (.cellRead ci) = (do
      let s ← w.sync.getCell (w.cellObj ci)
      if s.isWriting then throw .cellBusy
      if (w.sync.ths.caus.ahead s.writeAccess).isSome then throw (.causality 9)
      pure ((w.sync.setObj (w.cellObj ci)
        (.cell { s with readAccess := s.readAccess.join w.sync.ths.caus })).complete (.val s.value))) := rfl

theorem runOp_cellWrite (w : World) (c : TCtl) (ci : Nat) (v : Int) :
    w.runOp c (.cellWrite ci v) = (do
      let s ← w.sync.getCell (w.cellObj ci)
      if s.isReading != 0 || s.isWriting then throw .cellBusy
      if (w.sync.ths.caus.ahead s.writeAccess).isSome then throw (.causality 10)
      if (w.sync.ths.caus.ahead s.readAccess).isSome then throw (.causality 11)
      pure ((w.sync.setObj (w.cellObj ci)
        (.cell { s with writeAccess := s.writeAccess.join w.sync.ths.caus, value := v })).complete .unit)) := rfl

theorem runOp_ifEq (w : World) (c : TCtl) (i : Nat) (r : Ret) (n : Nat) :
    w.runOp c (.ifEq i r n) =
      if c.results.lookup (c.pc - i) == some r then pure (w.modCtl w.tid fun c => { c with pc := c.pc + 1 })
      else pure (w.modCtl w.tid fun c => { c with pc := c.pc + 1 + n }) := rfl

theorem sync_len (w : World) : w.sync.exec.threads.threads.length = w.exec.threads.threads.length := by
  simp [World.sync, World.setThs, World.ths, Threads.activeCausalityInc, Threads.modifyActive, Threads.modify]

theorem events_complete' (w : World) (r : Ret) :
    (w.complete r).events.map triple = ((w.ctlOf w.tid).body, (w.ctlOf w.tid).pc, r) :: w.events.map triple := rfl

/-! ### the operations -/

section
variable {w w' : World} {s : SCData}

theorem enabled_plain (hR : R w s) (hact : w.tid < w.ctl.length) {op : Op} (hop : opAt w = some op)
    (hl : ∀ m, op ≠ .lock m) (hj : ∀ b, op ≠ .join b) :
    SCData.enabled w.prog s (w.ctlOf w.tid).body = true := by
  obtain ⟨_, _, hof⟩ := base hR hact
  obtain ⟨h1, h2⟩ := started_running hR hact (by rw [fin_zero hR hact hop]; omega)
  unfold SCData.enabled
  rw [hof, hop, h1, h2]
  cases op <;> first | rfl | (exfalso; exact hl _ rfl) | (exfalso; exact hj _ rfl)

theorem sim_cellRead (hR : R w s) (hact : w.tid < w.ctl.length) {ci : Nat}
    (hop : opAt w = some (.cellRead ci)) (hci : ci < w.prog.cfg.nCells)
    (h : w.runOp (w.ctlOf w.tid) (.cellRead ci) = .ok w') : Sim w s w' := by
  obtain ⟨_, hrel, hof⟩ := base hR hact
  rw [runOp_cellRead] at h
  obtain ⟨cs, hg, h⟩ := bind_ok h
  have hobj : w.exec.objs[w.prog.cfg.nAtomics + ci]? = some (.cell cs) := getCell_ok hg
  obtain ⟨cs', hcs', hval⟩ := objView_cell (hR.y.cell ci hci)
  rw [hobj] at hcs'; cases hcs'
  simp only [bind, Except.bind, pure, Except.pure, throw, throwThe, MonadExceptOf.throw] at h
  repeat' split at h
  all_goals try (cases h; done)
  cases h
  refine ⟨rfl, .inr ⟨some ((s.th (w.ctlOf w.tid).body).pc, .val (s.cells.getD ci 0)),
    s.ret (w.ctlOf w.tid).body (.val (s.cells.getD ci 0)), enabled_plain hR hact hop (by simp) (by simp), ?_, ?_, ?_⟩⟩
  · unfold SCData.stepL
    rw [hof, hop]
    simp
  · rw [← hval]
    refine R_complete (s := s) (cells' := s.cells) (mutex' := s.mutex)
      (w0 := w.sync.setObj (w.cellObj ci) (.cell { cs with readAccess := cs.readAccess.join w.sync.ths.caus }))
      hR hact hop rfl rfl rfl rfl (sync_len w) ?_ _
    refine hR.y.viewLe ?_
    intro n v hv
    have hco : w.cellObj ci = w.prog.cfg.nAtomics + ci := rfl
    by_cases e : n = w.prog.cfg.nAtomics + ci
    · subst e
      show objView (w.exec.objs.set _ _) _ = _
      rw [hco, objView_set_self _ (objView_lt hv)]
      rw [objView_of hobj] at hv
      exact hv
    · show objView (w.exec.objs.set _ _) _ = _
      rw [hco, objView_set_ne _ _ e]; exact hv
  · rw [events_complete', ← hval, hrel.2.1]
    rfl

theorem sim_cellWrite (hR : R w s) (hact : w.tid < w.ctl.length) {ci : Nat} {v : Int}
    (hop : opAt w = some (.cellWrite ci v)) (hci : ci < w.prog.cfg.nCells)
    (h : w.runOp (w.ctlOf w.tid) (.cellWrite ci v) = .ok w') : Sim w s w' := by
  obtain ⟨_, hrel, hof⟩ := base hR hact
  rw [runOp_cellWrite] at h
  obtain ⟨cs, hg, h⟩ := bind_ok h
  simp only [bind, Except.bind, pure, Except.pure, throw, throwThe, MonadExceptOf.throw] at h
  repeat' split at h
  all_goals try (cases h; done)
  cases h
  refine ⟨rfl, .inr ⟨some ((s.th (w.ctlOf w.tid).body).pc, .unit),
    ({ s with cells := s.cells.set ci v } : SCData).ret (w.ctlOf w.tid).body .unit,
    enabled_plain hR hact hop (by simp) (by simp), ?_, ?_, ?_⟩⟩
  · unfold SCData.stepL
    rw [hof, hop]
    simp
  · refine R_complete (s := s) (cells' := s.cells.set ci v) (mutex' := s.mutex)
      (w0 := w.sync.setObj (w.cellObj ci)
        (.cell { cs with writeAccess := cs.writeAccess.join w.sync.ths.caus, value := v }))
      hR hact hop rfl rfl rfl rfl (sync_len w) ?_ _
    exact hR.y.setCell hci _ v rfl
  · rw [events_complete', hrel.2.1]
    rfl

theorem sim_ifEq (hR : R w s) (hact : w.tid < w.ctl.length) {i n : Nat} {r : Ret}
    (hop : opAt w = some (.ifEq i r n))
    (h : w.runOp (w.ctlOf w.tid) (.ifEq i r n) = .ok w') : Sim w s w' := by
  obtain ⟨_, hrel, hof⟩ := base hR hact
  have hf0 := fin_zero hR hact hop
  obtain ⟨h1, h2, h3, h4, h5, h6, h7⟩ := hrel
  rw [runOp_ifEq] at h
  have key : ∀ k : Nat, k ≠ 0 →
      R (w.modCtl w.tid fun c => { c with pc := c.pc + k })
        (s.modTh (w.ctlOf w.tid).body fun h => { h with pc := h.pc + k }) := by
    intro k hk
    refine R.mk' (p := w.prog) (ctl := w.ctl.modify w.tid fun c => { c with pc := c.pc + k }) (sp := w.spawned)
      rfl rfl rfl ?_ ?_ ?_
    · show _ = w.exec.threads.threads.length
      rw [← hR.lenCtl]; simp
    · refine hR.x.modify hact _ _ rfl (Nat.le_add_right _ _) ?_ ?_
      · refine ⟨h1, ?_, h3, h4, h5, h6, h7⟩
        show (s.th (w.ctlOf w.tid).body).pc + k = (w.ctlOf w.tid).pc + k
        rw [h2]
      · intro hne; exact absurd hf0 hne
    · exact hR.y.ctl (CtlLe.modify _ _ _ rfl id)
  split at h
  · next hc =>
    cases h
    refine ⟨rfl, .inr ⟨none, s.modTh (w.ctlOf w.tid).body fun h => { h with pc := h.pc + 1 },
      enabled_plain hR hact hop (by simp) (by simp), ?_, key 1 (by omega), rfl⟩⟩
    unfold SCData.stepL
    rw [hof, hop]
    simp only [h2, h3, hc, if_true, List.mem_singleton]
  · next hc =>
    cases h
    refine ⟨rfl, .inr ⟨none, s.modTh (w.ctlOf w.tid).body fun h => { h with pc := h.pc + 1 + n },
      enabled_plain hR hact hop (by simp) (by simp), ?_, ?_, rfl⟩⟩
    · unfold SCData.stepL
      rw [hof, hop]
      simp only [h2, h3, hc, Bool.false_eq_true, if_false, List.mem_singleton]
    · have := key (1 + n) (by omega)
      simpa [Nat.add_assoc] using this

end

end Refine
end LoomVerif

/-
C12, API layer: every API call of `Atomic<t>` by a single thread has exactly one outcome, returns
what std returns and leaves `into_u64` of std's content in the latest store; by induction, whole
operation sequences refine `Std.run`.
-/
import LoomVerif.Proofs.C12Prim
import LoomVerif.Proofs.C12Num
namespace LoomVerif
namespace C12

theorem runFrom_step (t : ATy) (op : AOp) (fuel : Nat) {a a' : Atomic} {ths ths' : Threads}
    {p : Prim} {r : Ret} (h : p.runAll t a ths = .ok [(a', ths', r)]) :
    op.runFrom t (fuel + 1) a ths p =
      match op.next t r with
      | .inl ret => .ok [(a', ths', ret)]
      | .inr p' => op.runFrom t fuel a' ths' p' := by
  rw [AOp.runFrom, h]
  simp only [forAll]
  cases op.next t r with
  | inl ret => rfl
  | inr p' =>
    dsimp only
    cases op.runFrom t fuel a' ths' p' <;> simp

/-- the abstraction relation: the latest store holds `into_u64` of the std content -/
def Rep (t : ATy) (a : Atomic) (c : Int) : Prop := a.latestValue = t.intoU64 c ∧ t.inRange c = true

/-- one primitive ending the call -/
theorem run_one (t : ATy) (op : AOp) {a : Atomic} {ths : Threads} (h : SingleInv a ths)
    (p : Prim) (fuel : Nat) (ret : Ret)
    (hnext : op.next t (primAbs t a.latestValue p).2 = .inl ret) :
    ∃ a' ths', op.runFrom t (fuel + 1) a ths p = .ok [(a', ths', ret)] ∧ SingleInv a' ths' ∧
      a'.latestValue = (primAbs t a.latestValue p).1 := by
  obtain ⟨a', ths', he, hi, hv⟩ := prim_single t h p
  exact ⟨a', ths', by rw [runFrom_step t op fuel he, hnext], hi, hv⟩

/-- the post-condition of one API call: exactly one outcome, std's return value, the invariant
again, and the latest store holds std's new content -/
def OpPost (n : Nat) (t : ATy) (a : Atomic) (ths : Threads) (c : Int) (op : AOp) : Prop :=
  ∃ a' ths', op.runFrom t (n + 2) a ths op.first = .ok [(a', ths', (Std.step t c op).2)] ∧
    SingleInv a' ths' ∧ Rep t a' (Std.step t c op).1

/-- an API call made of one primitive -/
theorem op_of_first (n : Nat) (t : ATy) (op : AOp) {a : Atomic} {ths : Threads} {c : Int}
    (h : SingleInv a ths) (hr : Rep t a c) (c' : Int) (r ret : Ret)
    (hstep : Std.step t c op = (c', ret))
    (habs : primAbs t (t.intoU64 c) op.first = (t.intoU64 c', r))
    (hnext : op.next t r = .inl ret) (hc' : t.inRange c' = true) : OpPost n t a ths c op := by
  rw [← hr.1] at habs
  obtain ⟨a', ths', he, hi, hv⟩ := run_one t op h op.first (n + 1) ret (by rw [habs]; exact hnext)
  refine ⟨a', ths', ?_, hi, ?_, ?_⟩
  · rw [hstep]; exact he
  · rw [hstep, hv, habs]
  · rw [hstep]; exact hc'

theorem op_load (n : Nat) (t : ATy) {a : Atomic} {ths : Threads} {c : Int} (h : SingleInv a ths)
    (hr : Rep t a c) (o : Ord) : OpPost n t a ths c (.load o) :=
  op_of_first n t _ h hr c (.val c) (.val c) rfl
    (by simp [primAbs, AOp.first, roundtrip t c hr.2]) rfl hr.2

theorem op_store (n : Nat) (t : ATy) {a : Atomic} {ths : Threads} {c : Int} (h : SingleInv a ths)
    (hr : Rep t a c) (v : Int) (o : Ord) (hv : t.inRange v = true) :
    OpPost n t a ths c (.store v o) :=
  op_of_first n t _ h hr v .unit .unit rfl (by simp [primAbs, AOp.first]) rfl hv

theorem op_swap (n : Nat) (t : ATy) {a : Atomic} {ths : Threads} {c : Int} (h : SingleInv a ths)
    (hr : Rep t a c) (v : Int) (o : Ord) (hv : t.inRange v = true) :
    OpPost n t a ths c (.swap v o) :=
  op_of_first n t _ h hr v (.ok c) (.val c) rfl
    (by simp [primAbs, AOp.first, RmwFn.apply, roundtrip t c hr.2]) rfl hv

theorem op_cas (n : Nat) (t : ATy) {a : Atomic} {ths : Threads} {c : Int} (h : SingleInv a ths)
    (hr : Rep t a c) (cur new : Int) (so fo : Ord) (hn : t.inRange new = true) :
    OpPost n t a ths c (.cas cur new so fo) := by
  by_cases hc : c = cur
  · subst hc
    exact op_of_first n t _ h hr new (.ok c) (.ok c) (by simp [Std.step])
      (by simp [primAbs, AOp.first, RmwFn.apply, roundtrip t c hr.2]) rfl hn
  · exact op_of_first n t _ h hr c (.err c) (.err c) (by simp [Std.step, hc])
      (by simp [primAbs, AOp.first, RmwFn.apply, roundtrip t c hr.2, hc]) rfl hr.2

theorem op_cswp (n : Nat) (t : ATy) {a : Atomic} {ths : Threads} {c : Int} (h : SingleInv a ths)
    (hr : Rep t a c) (cur new : Int) (o : Ord) (hn : t.inRange new = true) :
    OpPost n t a ths c (.cswp cur new o) := by
  by_cases hc : c = cur
  · subst hc
    exact op_of_first n t _ h hr new (.ok c) (.val c) (by simp [Std.step])
      (by simp [primAbs, AOp.first, RmwFn.apply, roundtrip t c hr.2]) rfl hn
  · exact op_of_first n t _ h hr c (.err c) (.val c) (by simp [Std.step, hc])
      (by simp [primAbs, AOp.first, RmwFn.apply, roundtrip t c hr.2, hc]) rfl hr.2

theorem op_fetch (n : Nat) (t : ATy) {a : Atomic} {ths : Threads} {c : Int} (h : SingleInv a ths)
    (hr : Rep t a c) (f : RmwFn) (o : Ord) (hf : f.isFetchOf t = true)
    (hops : f.operandsInRange t = true) : OpPost n t a ths c (.fetch f o) :=
  op_of_first n t _ h hr (Std.fetchNew t f c) (.ok c) (.val c) rfl
    (by simp [primAbs, AOp.first, roundtrip t c hr.2, apply_eq_fetchNew t f c hf]) rfl
    (rmw_apply_inRange t f c _ hr.2 hops (apply_eq_fetchNew t f c hf))

theorem op_unsyncLoad (n : Nat) (t : ATy) {a : Atomic} {ths : Threads} {c : Int} (h : SingleInv a ths)
    (hr : Rep t a c) : OpPost n t a ths c .unsyncLoad :=
  op_of_first n t _ h hr c (.val c) (.val c) rfl
    (by simp [primAbs, AOp.first, roundtrip t c hr.2]) rfl hr.2

theorem op_withMut (n : Nat) (t : ATy) {a : Atomic} {ths : Threads} {c : Int} (h : SingleInv a ths)
    (hr : Rep t a c) (v : Int) (hv : t.inRange v = true) : OpPost n t a ths c (.withMut v) :=
  op_of_first n t _ h hr v (.val c) (.val c) rfl
    (by simp [primAbs, AOp.first, roundtrip t c hr.2]) rfl hv

theorem op_fupd (n : Nat) (t : ATy) {a : Atomic} {ths : Threads} {c : Int} (h : SingleInv a ths)
    (hr : Rep t a c) (f : FupdFn) (so fo : Ord) : OpPost n t a ths c (.fupd f so fo) := by
  cases hf : f.apply t c with
  | none =>
    exact op_of_first n t _ h hr c (.val c) (.err c) (by simp [Std.step, hf])
      (by simp [primAbs, AOp.first, roundtrip t c hr.2]) (by simp [AOp.next, hf]) hr.2
  | some next =>
    have hrt := roundtrip t c hr.2
    -- the load
    obtain ⟨a1, ths1, he1, hi1, hv1⟩ := prim_single t h (.load fo)
    have hv1' : a1.latestValue = t.intoU64 c := by rw [hv1]; simpa [primAbs] using hr.1
    have hr1 : (primAbs t a.latestValue (.load fo)).2 = .val c := by simp [primAbs, hr.1, hrt]
    rw [hr1] at he1
    -- the compare_exchange, which succeeds
    obtain ⟨a2, ths2, he2, hi2, hv2⟩ := run_one t (.fupd f so fo) hi1 (.rmw (.casEq c next) so fo)
      n (.ok c) (by simp [primAbs, hv1', hrt, RmwFn.apply, AOp.next])
    refine ⟨a2, ths2, ?_, hi2, ?_, ?_⟩
    · show AOp.runFrom t (.fupd f so fo) (n + 1 + 1) a ths (.load fo) = _
      rw [runFrom_step t _ (n + 1) he1]
      simp only [AOp.next, hf, Std.step]
      exact he2
    · rw [hv2]; simp [primAbs, hv1', hrt, RmwFn.apply, Std.step, hf]
    · simp only [Std.step, hf]; exact fupd_apply_inRange t f c next hf

/-- every valid API call (any ordering) behaves as std's, with any fuel ≥ 2 -/
theorem op_single (n : Nat) (t : ATy) {a : Atomic} {ths : Threads} {c : Int} (h : SingleInv a ths)
    (hr : Rep t a c) (op : AOp) (hop : op.operandsOk t = true) : OpPost n t a ths c op := by
  cases op with
  | load o => exact op_load n t h hr o
  | store v o => exact op_store n t h hr v o hop
  | swap v o => exact op_swap n t h hr v o hop
  | cas cur new so fo =>
    simp only [AOp.operandsOk, Bool.and_eq_true] at hop
    exact op_cas n t h hr cur new so fo hop.2
  | cswp cur new o =>
    simp only [AOp.operandsOk, Bool.and_eq_true] at hop
    exact op_cswp n t h hr cur new o hop.2
  | fetch f o =>
    simp only [AOp.operandsOk, Bool.and_eq_true] at hop
    exact op_fetch n t h hr f o hop.1 hop.2
  | fupd f so fo => exact op_fupd n t h hr f so fo
  | unsyncLoad => exact op_unsyncLoad n t h hr
  | withMut v =>
    simp only [AOp.operandsOk, Bool.and_eq_true] at hop
    exact op_withMut n t h hr v hop.2

/-- sequences of valid API calls from any state of the invariant -/
theorem runFrom_refines (t : ATy) (ops : List AOp) :
    ∀ {a : Atomic} {ths : Threads} {c : Int}, SingleInv a ths → Rep t a c →
      (∀ op ∈ ops, op.operandsOk t = true) →
      atomicRunFrom t ops a ths = .ok [Std.run t c ops] := by
  induction ops with
  | nil =>
    intro a ths c _ hr _
    simp only [atomicRunFrom, Std.run, hr.1, roundtrip t c hr.2]
  | cons op ops ih =>
    intro a ths c h hr hops
    obtain ⟨a', ths', he, hi, hr'⟩ :=
      op_single 2 t h hr op (hops op List.mem_cons_self)
    have he' : op.runAll t a ths = .ok [(a', ths', (Std.step t c op).2)] := he
    have := ih hi hr' (fun o ho => hops o (List.mem_cons_of_mem _ ho))
    simp only [atomicRunFrom, he', forAll, this, Std.run, List.map_cons, List.map_nil,
      List.append_nil]

/-- the whole single-thread program -/
theorem run_refines (t : ATy) (init : Int) (ops : List AOp) (hinit : t.inRange init = true)
    (hops : ∀ op ∈ ops, op.operandsOk t = true) :
    atomicRunAll t init ops = .ok [Std.run t init ops] := by
  obtain ⟨a, hnew, hi, hv⟩ := creation (t.intoU64 init)
  simp only [atomicRunAll, hnew]
  exact runFrom_refines t ops hi ⟨hv, hinit⟩ hops

end C12
end LoomVerif

/-
Part E of C14: a numeric measure that `Path.step` strictly decreases and API calls never
increase; hence a run has at most `K ^ cap` iterations.
-/
import LoomVerif.Proofs.PathApi

namespace LoomVerif
namespace Path

/-- radix of the measure: every entry has fewer than `K` open alternatives -/
def K : Nat := 8

/-- weight of the open-alternative counts `as` (root first) when `c` stack slots are left:
the base-`K` number with one digit per slot, most significant first, where the slots that
are not yet occupied count as `K - 1`. -/
def wt : Nat → List Nat → Nat
  | 0, _ => 0
  | c + 1, [] => (K - 1) * K ^ c + wt c []
  | c + 1, a :: as => a * K ^ c + wt c as

/-- the measure of a stack -/
def w (p : Path) : Nat := wt p.cap (p.branches.map Entry.alt)

theorem wt_nil (c : Nat) : wt c [] + 1 = K ^ c := by
  induction c with
  | zero => simp [wt]
  | succ c ih =>
    simp only [wt, Nat.pow_succ, K] at ih ⊢
    omega

theorem wt_lt (c : Nat) (as : List Nat) (h : ∀ a ∈ as, a ≤ K - 1) : wt c as + 1 ≤ K ^ c := by
  induction c generalizing as with
  | zero => simp [wt]
  | succ c ih =>
    cases as with
    | nil => exact Nat.le_of_eq (wt_nil _)
    | cons a as =>
      have h1 := ih as (fun x hx => h x (by simp [hx]))
      have h2 : a * K ^ c ≤ (K - 1) * K ^ c := Nat.mul_le_mul_right _ (h a (by simp))
      simp only [wt, Nat.pow_succ, K] at h1 h2 ⊢
      omega

/-- pushing entries never increases the weight -/
theorem wt_append_le (c : Nat) (as ext : List Nat) (h : ∀ a ∈ ext, a ≤ K - 1) :
    wt c (as ++ ext) ≤ wt c as := by
  induction c generalizing as with
  | zero => simp [wt]
  | succ c ih =>
    cases as with
    | nil =>
      have h1 := wt_lt (c + 1) ext h
      have h2 := wt_nil (c + 1)
      simp only [List.nil_append]
      omega
    | cons a as =>
      have := ih as
      simp only [List.cons_append, wt]
      omega

/-- advancing the entry at depth `|pre|` and dropping everything below lowers the weight -/
theorem wt_step_lt (c : Nat) (pre suf : List Nat) (a a' : Nat) (hlen : pre.length < c)
    (ha : a' + 1 = a) : wt c (pre ++ [a']) < wt c (pre ++ a :: suf) := by
  induction pre generalizing c with
  | nil =>
    cases c with
    | zero => simp at hlen
    | succ c =>
      have h1 := wt_nil c
      subst ha
      simp only [List.nil_append, wt, Nat.succ_mul]
      omega
  | cons x pre ih =>
    cases c with
    | zero => simp at hlen
    | succ c =>
      have := ih c (by simpa using hlen)
      simp only [List.cons_append, wt]
      omega

theorem Entry.alt_le {e : Entry} (hw : e.WF) : e.alt ≤ K - 1 := by
  cases e with
  | sched s =>
    have hw : s.WF := hw
    simp only [Entry.alt, K]
    split
    · have := List.countP_le_length (p := ThSt.isOpen) (l := s.threads)
      unfold Sched.openCount
      rw [hw.len] at this
      simp only [NT] at this
      omega
    · omega
  | load l =>
    have hw : l.WF := hw
    have := hw.len
    simp only [Entry.alt, K, NH] at this ⊢
    split <;> omega
  | spur p =>
    simp only [Entry.alt, K]
    split
    · split <;> omega
    · omega

theorem alts_le {p : Path} (hw : p.WF) : ∀ a ∈ p.branches.map Entry.alt, a ≤ K - 1 := by
  intro a ha
  obtain ⟨e, he, rfl⟩ := List.mem_map.1 ha
  exact Entry.alt_le (hw e he)

/-- the measure is below `K ^ cap` -/
theorem w_lt {p : Path} (hw : p.WF) : w p + 1 ≤ K ^ p.cap := wt_lt _ _ (alts_le hw)

theorem w_new (cap : Nat) (bound : Option Nat) (expl : Bool) :
    w (Path.new cap bound expl) + 1 = K ^ cap := wt_nil cap

/-- API calls (whole iterations) never increase the measure -/
theorem w_frame {p q : Path} (hr : Frame p q) (hw : p.WF) : w q ≤ w p := by
  have hwq := hr.wf hw
  have hsplit : q.branches.map Entry.alt =
      p.branches.map Entry.alt ++ (q.branches.drop p.branches.length).map Entry.alt := by
    apply List.ext_getElem
    · have := hr.len; simp; omega
    · intro i h1 h2
      by_cases hi : i < p.branches.length
      · rw [List.getElem_append_left (by simpa using hi)]
        simp [(hr.same i hi).alt]
      · rw [List.getElem_append_right (by simpa using hi)]
        simp only [List.getElem_map, List.getElem_drop, List.length_map]
        congr 2; omega
  unfold w
  rw [hr.cap, hsplit]
  apply wt_append_le
  intro a ha
  obtain ⟨e, he, rfl⟩ := List.mem_map.1 ha
  exact Entry.alt_le (hwq e (List.mem_of_mem_drop he))

/-- `Path.step` strictly decreases the measure -/
theorem w_step {q p' : Path} (hs : q.step = some p') (hl : q.LenOk) : w p' < w q := by
  obtain ⟨pre, e, suf, e', h1, h2, _, rfl⟩ := (step_eq_some _ _).1 hs
  unfold w
  simp only [restart, h1, List.map_append, List.map_cons, List.map_nil]
  apply wt_step_lt
  · unfold LenOk at hl; rw [h1] at hl; simp at hl ⊢; omega
  · exact Entry.advance_alt h2

/-- the frame condition together with the branch limit -/
def FrameL (p q : Path) : Prop := Frame p q ∧ (p.LenOk → q.LenOk)

theorem Iter.frameL {p q : Path} (h : Iter true p q) : FrameL p q := ⟨h.frame, h.lenOk⟩

theorem step_lenOk {q p' : Path} (hs : q.step = some p') (hl : q.LenOk) : p'.LenOk := by
  have := step_length hs
  have := (step_fields hs).1
  unfold LenOk at *; omega

theorem length_le_w {p : Path} {qs : List Path} (h : Explore FrameL p qs) :
    p.WF → p.LenOk → qs.length ≤ w p + 1 := by
  induction h with
  | last hr => intro _ _; simp
  | @next p q p' qs hr hs _ ih =>
    intro hw hl
    have hwq := hr.1.wf hw
    have hlq := hr.2 hl
    have h1 := ih (step_wf hs hwq) (step_lenOk hs hlq)
    have h2 := w_step hs hlq
    have h3 := w_frame hr.1 hw
    simp only [List.length_cons]
    omega

/-- a run has at most `K ^ cap` iterations -/
theorem terminates_frame {p : Path} {qs : List Path} (h : Explore FrameL p qs) (hw : p.WF)
    (hl : p.LenOk) : qs.length ≤ K ^ p.cap :=
  Nat.le_trans (length_le_w h hw hl) (w_lt hw)

/-- there is no infinite run -/
theorem no_infinite_frame (ps qs : Nat → Path) (hw : (ps 0).WF) (hl : (ps 0).LenOk)
    (hrun : ∀ i, FrameL (ps i) (qs i) ∧ (qs i).step = some (ps (i + 1))) : False := by
  have build : ∀ n i, ∃ l, Explore FrameL (ps i) l ∧ l.length = n + 1 := by
    intro n
    induction n with
    | zero => intro i; exact ⟨[qs i], .last (hrun i).1, rfl⟩
    | succ n ih =>
      intro i
      obtain ⟨l, hl, hlen⟩ := ih (i + 1)
      exact ⟨qs i :: l, .next (hrun i).1 (hrun i).2 hl, by simp [hlen]⟩
  obtain ⟨l, hl', hlen⟩ := build (K ^ (ps 0).cap) 0
  have := terminates_frame hl' hw hl
  omega

end Path
end LoomVerif

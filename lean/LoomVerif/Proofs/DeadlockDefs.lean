/-
Deadlock soundness (C05, lock fragment), part 1: definitions.

* `Deadlock.JoinOnce`, `Deadlock.WF`: the well-formedness of `Proofs/RefineData.lean` plus "each body is joined by
  at most one operation of the program text" (a `JoinHandle` is consumed by `join`; the DSL can write `join b`
  twice, and then the twin blocks on the consumed notification although the reference `join` of a finished thread
  is enabled: `Props/Deadlock.lean`, `double_join_false_deadlock`).
* `Deadlock.ReplayOK`: every `Schedule` entry of the path that is still to be replayed names a thread (its decision
  is a thread index).  A hand-made path with a `Schedule` entry without an active thread makes `Exec.schedule`
  report a deadlock whatever the threads do (`Props/Deadlock.lean`, `empty_schedule_false_deadlock`).
* `Deadlock.JT`, `Deadlock.JB`: the twin-side "blocked means waiting" invariant; `Deadlock.RB w s := R w s ∧ JB w ∧
  ReplayOK w.exec.path`.
-/
import LoomVerif.Proofs.RefineRun
import LoomVerif.Proofs.C07Try
import LoomVerif.Proofs.C08Release

namespace LoomVerif
namespace Deadlock
open Refine Sy

/-! ### programs: each body is joined at most once -/

/-- the body joined by the operation at position `k` of body `a` (if it is a `join`) -/
def joinAt (p : Prog) (a k : Nat) : Option Nat :=
  match (p.threads.getD a [])[k]? with
  | some (.join b) => some b
  | _ => none

/-- positions `(a, k)` and `(a', k')` do not both join the same body, unless they are the same position -/
def joinPairOk (p : Prog) (a k a' k' : Nat) : Bool :=
  !(joinAt p a k).isSome || joinAt p a k != joinAt p a' k' || (a == a' && k == k')

/-- every body is joined by at most one operation of the program text -/
def JoinOnce (p : Prog) : Prop :=
  ∀ a, a < p.threads.length → ∀ k, k < (p.threads.getD a []).length →
  ∀ a', a' < p.threads.length → ∀ k', k' < (p.threads.getD a' []).length → joinPairOk p a k a' k' = true

instance (p : Prog) : Decidable (JoinOnce p) := by unfold JoinOnce; infer_instance

/-- well-formed programs of the lock fragment (`Refine.WF`) in which each body is joined at most once -/
def WF (p : Prog) : Prop := Refine.WF p ∧ JoinOnce p

instance (p : Prog) : Decidable (WF p) := by unfold WF; infer_instance

theorem WF.join_unique {p : Prog} (h : WF p) {a k a' k' b : Nat}
    (h1 : (p.threads.getD a [])[k]? = some (.join b))
    (h2 : (p.threads.getD a' [])[k']? = some (.join b)) : a = a' ∧ k = k' := by
  have bound : ∀ {a k : Nat} {op : Op}, (p.threads.getD a [])[k]? = some op →
      a < p.threads.length ∧ k < (p.threads.getD a []).length := by
    intro a k op hop
    have hk : k < (p.threads.getD a []).length := (List.getElem?_eq_some_iff.1 hop).1
    refine ⟨?_, hk⟩
    apply Classical.byContradiction
    intro hn
    have : p.threads[a]? = none := List.getElem?_eq_none (by omega)
    simp [List.getD, this] at hk
  obtain ⟨ha, hk⟩ := bound h1
  obtain ⟨ha', hk'⟩ := bound h2
  have e1 : joinAt p a k = some b := by simp only [joinAt, h1]
  have e2 : joinAt p a' k' = some b := by simp only [joinAt, h2]
  have := h.2 a ha k hk a' ha' k' hk'
  simpa [joinPairOk, e1, e2] using this

/-! ### paths: what is left to replay names a thread at every scheduling point -/

/-- a `Schedule` entry has an active thread (its decision is a thread index `< NT`) -/
def entryOK (e : Entry) : Bool := e.kind != .sched || decide (e.dec < NT)

/-- every `Schedule` entry at or beyond the cursor has an active thread.  True of the empty path
(`Exec.new`); `Path.step` leaves an active thread in the entry it advances and drops the entries behind it. -/
def ReplayOK (p : Path) : Prop :=
  ∀ i, i < p.branches.length → p.pos ≤ i → (p.branches[i]?).all entryOK = true

instance (p : Path) : Decidable (ReplayOK p) := by unfold ReplayOK; infer_instance

theorem replayOK_new (mb : Nat) (b : Option Nat) (x : Bool) : ReplayOK (Path.new mb b x) := by
  intro i hi; simp [Path.new] at hi

/-! ### the twin-side invariant -/

/-- object index of mutex `m` (`World.mutexObj`) -/
def mobj (p : Prog) (m : Nat) : Nat := p.cfg.nAtomics + p.cfg.nCells + m

theorem mutexObj_eq (w : World) (m : Nat) : w.mutexObj m = mobj w.prog m := rfl

/-- the operation a thread with control record `c` is at -/
def opOfC (p : Prog) (c : TCtl) : Option Op := (p.threads.getD c.body [])[c.pc]?

/-- the operation thread `i` of the twin is at -/
def opAtOf (w : World) (i : Nat) : Option Op := opOfC w.prog (w.ctlOf i)

theorem opAtOf_tid (w : World) : opAtOf w w.tid = opAt w := rfl

/-- a thread past the branch point of a `lock m` / `tryLock m` / `join b` (`stage = 1`): its pending operation is
the one that branch point recorded (`lock`: WAITING on the mutex object; `tryLock`: NOT waiting; `join`: on the
`JoinHandle` notify of `b`), and it is blocked EXACTLY when the mutex is held, resp. when the joined thread has not
passed its notification (`fin < 10`); a thread pending on a `tryLock` is never blocked.
(`fin t`: the epilogue counter of twin thread `t`.) -/
inductive Pend (p : Prog) (sp : List (Nat × Nat × Nat)) (objs : List Obj) (fin : Nat → Nat)
    (th : Thread) (c : TCtl) : Prop
  | lock (m : Nat) (l : Option Nat) : opOfC p c = some (.lock m) →
      th.operation = some ⟨mobj p m, .opaque, true⟩ → objView objs (mobj p m) = some (.mutex l) →
      (th.state = .blocked ↔ l.isSome = true) → Pend p sp objs fin th c
  | tryLock (m : Nat) : opOfC p c = some (.tryLock m) →
      th.operation = some ⟨mobj p m, .opaque, false⟩ → th.state ≠ .blocked → Pend p sp objs fin th c
  | join (b t n : Nat) (wt : Bool) : opOfC p c = some (.join b) → (b, t, n) ∈ sp →
      th.operation = some ⟨n, .opaque, wt⟩ → (th.state = .blocked ↔ fin t < 10) → Pend p sp objs fin th c

/-- **what the state of a loom thread means**, for a thread with entry `th` and control record `c` (`act`: it is
the active thread).  The thread
* is never in `yield` state (no fragment operation yields);
* is terminated only at the very end of its epilogue;
* past the branch point of a `lock` / `tryLock` / `join` (`stage = 1`): `Pend`;
* otherwise (`stage ≠ 1`) it is not blocked and, unless it is the active thread (whose `operation` field may be left
  over from its last branch point), its pending operation is not a waiting one. -/
structure JTd (p : Prog) (sp : List (Nat × Nat × Nat)) (objs : List Obj) (fin : Nat → Nat) (act : Prop)
    (th : Thread) (c : TCtl) : Prop where
  noYield : th.state ≠ .yield
  term : th.state = .terminated → c.fin = 99
  st1 : c.stage = 1 → Pend p sp objs fin th c
  st0 : c.stage ≠ 1 → th.state ≠ .blocked ∧ (¬ act → ∀ op, th.operation = some op → op.blocking = false)

/-- `JTd` for thread `i` of world `w` -/
def JT (w : World) (i : Nat) : Prop :=
  JTd w.prog w.spawned w.exec.objs (fun t => (w.ctlOf t).fin) (i = w.tid) (w.ths.get i) (w.ctlOf i)

/-- the twin-side invariant: `JT` for every thread; the entries of `World.spawned` are determined by their thread,
which is never the main thread; a `JoinHandle` notify whose thread has passed its notification is still notified
unless the `join` of that body has been executed -/
structure JB (w : World) : Prop where
  thr : ∀ i, i < w.ctl.length → JT w i
  spt : ∀ e1 e2, e1 ∈ w.spawned → e2 ∈ w.spawned → e1.2.1 = e2.2.1 → e1 = e2
  sp0 : ∀ b i n, (b, i, n) ∈ w.spawned → 0 < i
  jnd : ∀ b i n, (b, i, n) ∈ w.spawned → 10 ≤ (w.ctlOf i).fin →
    objView w.exec.objs n = some (.notify false true) ∨
    ∃ j k, j < w.ctl.length ∧ k < (w.ctlOf j).pc ∧
      (w.prog.threads.getD (w.ctlOf j).body [])[k]? = some (.join b)

/-- **the strengthened abstraction relation**: `R`, the blocked-means-waiting invariant of the twin, and a path
whose remaining `Schedule` entries all name a thread -/
structure RB (w : World) (s : SCData) : Prop where
  r : R w s
  j : JB w
  path : ReplayOK w.exec.path

end Deadlock
end LoomVerif

/-
Pruning lemma (a) of the RC11 enumerator: in a consistent graph of a reachable state the initial
write of a location is first in its modification order.  Needs an invariant of the pre-execution
states (every event carries the id of the thread that holds it) and the shape of `candidate`.
-/
import LoomVerif.Proofs.OracleRC11Prune

namespace LoomVerif.RC11

/-! ### the invariant -/

/-- every event of thread `t` carries the thread id `t` -/
def TidOk (s : PSt) : Prop := ∀ t e, e ∈ (s.th t).evs → e.ev.tid = t

/-- `s'` has the threads of `s`, with events added that carry the right thread id -/
structure Good (s s' : PSt) : Prop where
  len : s'.ths.length = s.ths.length
  evs : ∀ t e, e ∈ (s'.th t).evs → e ∈ (s.th t).evs ∨ e.ev.tid = t

theorem Good.refl (s : PSt) : Good s s := ⟨rfl, fun _ _ h => .inl h⟩

theorem TidOk.good {s s' : PSt} (h : TidOk s) (g : Good s s') : TidOk s' := by
  intro t e he
  rcases g.evs t e he with h' | h'
  · exact h t e h'
  · exact h'

theorem th_modTh (s : PSt) (t t' : Nat) (f : PTh → PTh) :
    (s.modTh t f).th t' = if t = t' ∧ t < s.ths.length then f (s.th t) else s.th t' := by
  unfold PSt.modTh PSt.th
  simp only [List.getD_eq_getElem?_getD, List.getElem?_modify]
  by_cases h : t = t'
  · subst h
    by_cases h' : t < s.ths.length
    · simp [h']
    · simp [h']
  · simp [h]

theorem Good.modTh {s s' : PSt} (g : Good s s') (t : Nat) (f : PTh → PTh)
    (hf : ∀ h e, e ∈ (f h).evs → e ∈ h.evs ∨ e.ev.tid = t) : Good s (s'.modTh t f) := by
  refine ⟨by simp [PSt.modTh, g.len], ?_⟩
  intro t' e he
  rw [th_modTh] at he
  split at he
  · next h =>
    obtain ⟨rfl, -⟩ := h
    rcases hf _ e he with h' | h'
    · exact g.evs t e h'
    · exact .inr h'
  · exact g.evs t' e he

theorem Good.emit {s s' : PSt} (g : Good s s') (t pc : Nat) (kind : EK) (loc : Nat) (ord : Ord)
    (rval wval : Int) (src : Option (Nat × Nat)) :
    Good s (emit s' t pc kind loc ord rval wval src) := by
  unfold RC11.emit
  refine g.modTh t _ ?_
  intro h e he
  rcases List.mem_cons.1 he with rfl | he
  · exact .inr rfl
  · exact .inl he

theorem Good.retOp {s s' : PSt} (g : Good s s') (t : Nat) (r : Ret) : Good s (retOp s' t r) := by
  unfold RC11.retOp
  exact g.modTh t _ fun h e he => .inl he

theorem Good.setBad {s s' : PSt} (g : Good s s') : Good s { s' with bad := true } :=
  ⟨g.len, g.evs⟩

theorem Good.of_mem_map {α} {s s' : PSt} {l : List α} {f : α → PSt} (h : ∀ a, Good s (f a))
    (hs : s' ∈ l.map f) : Good s s' := by
  obtain ⟨a, -, rfl⟩ := List.mem_map.1 hs
  exact h a

theorem Good.of_mem_filterMap {α} {s s' : PSt} {l : List α} {f : α → Option PSt}
    (h : ∀ a b, f a = some b → Good s b) (hs : s' ∈ l.filterMap f) : Good s s' := by
  obtain ⟨a, -, ha⟩ := List.mem_filterMap.1 hs
  exact h a s' ha

theorem Good.of_mem_singleton {s s' s'' : PSt} (h : Good s s'') (hs : s' ∈ [s'']) : Good s s' := by
  rw [List.mem_singleton] at hs; subst hs; exact h

local macro "good_step" : tactic =>
  `(tactic| first
    | assumption | apply Good.retOp | apply Good.emit | apply Good.setBad
    | refine Good.modTh ?_ _ _ (fun h e he => Or.inl he))

/-- every step keeps the threads and adds only events with the right thread id -/
theorem pstep_good {p : Prog} {s s' : PSt} {t : Nat} (hs : s' ∈ pstep p s t) : Good s s' := by
  have R := Good.refl s
  revert hs
  unfold pstep
  simp only
  repeat' split
  all_goals intro hs
  all_goals first
    | exact Good.of_mem_singleton (by repeat good_step) hs
    | cases hs; done
    | (refine Good.of_mem_map (fun a => ?_) hs
       repeat' split
       all_goals repeat good_step
       done)
    | (refine Good.of_mem_filterMap (fun a b hab => ?_) hs
       repeat' (split at hab)
       all_goals first | cases hab; done | (injection hab with hab; subst hab)
       all_goals repeat good_step
       done)

theorem pinit_tidOk (p : Prog) : TidOk (pinit p) := by
  intro t e he
  unfold pinit PSt.th at he
  simp only [List.getD_eq_getElem?_getD, List.getElem?_map] at he
  cases h : (List.range p.threads.length)[t]? with
  | none => rw [h] at he; simp at he
  | some i => rw [h] at he; simp at he

theorem pinit_length (p : Prog) : (pinit p).ths.length = p.threads.length := by
  simp [pinit]

/-! ### the shape of `candidate` -/

/-- the initial write of location `x` -/
def initEv (x : Nat) : Ev := { tid := initTid, po := x, kind := .W, loc := x, ord := .rlx, wval := 0 }

theorem candidate_nLoc (p : Prog) (s : PSt) : (candidate p s).nLoc = p.cfg.nAtomics := rfl

theorem candidate_evs (p : Prog) (s : PSt) : (candidate p s).evs =
    ((List.range p.cfg.nAtomics).map initEv ++
      ((List.range s.ths.length).flatMap fun t => (s.th t).evs.reverse).map (·.ev)).toArray := rfl

theorem candidate_ev_init {p : Prog} {s : PSt} {i : Nat} (hi : i < p.cfg.nAtomics) :
    (candidate p s).evs.getD i default = initEv i := by
  rw [candidate_evs, Array.getD_eq_getD_getElem?, List.getElem?_toArray,
    List.getElem?_append_left (by simpa using hi)]
  simp [hi]

theorem candidate_size_ge (p : Prog) (s : PSt) : p.cfg.nAtomics ≤ (candidate p s).evs.size := by
  rw [candidate_evs]; simp

theorem candidate_ev_thread {p : Prog} {s : PSt} (hs : TidOk s) {i : Nat}
    (hi : p.cfg.nAtomics ≤ i) (hi' : i < (candidate p s).evs.size) :
    ((candidate p s).evs.getD i default).tid < s.ths.length := by
  rw [candidate_evs] at hi' ⊢
  simp only [List.size_toArray, List.length_append, List.length_map, List.length_range] at hi'
  have hlt : i - p.cfg.nAtomics <
      ((List.range s.ths.length).flatMap fun t => (s.th t).evs.reverse).length := by omega
  rw [Array.getD_eq_getD_getElem?, List.getElem?_toArray,
    List.getElem?_append_right (by simpa using hi)]
  simp only [List.length_map, List.length_range]
  rw [List.getElem?_eq_getElem (by rw [List.length_map]; exact hlt)]
  simp only [Option.getD_some, List.getElem_map]
  have := List.getElem_mem hlt
  obtain ⟨t, ht, he⟩ := List.mem_flatMap.1 this
  rw [hs t _ (List.mem_reverse.1 he)]
  exact List.mem_range.1 ht

/-! ### pruning lemma (a) -/

theorem Candidate.graph_asw_init {c : Candidate} {mos : List (List Nat)} {a b : Nat}
    (ha : a < c.evs.size) (hb : b < c.evs.size) (h1 : (c.evs.getD a default).tid = initTid)
    (h2 : (c.evs.getD b default).tid ≠ initTid) : (c.graph mos).asw.get a b = true := by
  unfold Candidate.graph
  simp only
  rw [Rel.get_ofFn ha hb, h1, Bool.or_eq_true]
  right
  rw [Bool.and_eq_true]
  exact ⟨by simp, by simpa using h2⟩

/-- (a) the initial write of location `x` is event `x`, it is the first write of `x` in index
order, and it is first in the modification order of `x` in every consistent graph -/
theorem prune_init {p : Prog} {s : PSt} {mos : List (List Nat)} {strong : Bool} (hs : TidOk s)
    (hth : s.ths.length ≤ initTid) (h : MoOk (candidate p s) mos)
    (hc : ((candidate p s).graph mos).consistent strong = true) {x : Nat}
    (hx : x < p.cfg.nAtomics) {l : List Nat} (hl : mos[x]? = some l) :
    l.head? = some x ∧ ((candidate p s).writesAt x).head? = some x := by
  have hsz := candidate_size_ge p s
  have hxw : x ∈ (candidate p s).writesAt x := by
    rw [Candidate.mem_writesAt, Candidate.isWr, candidate_ev_init hx]
    exact ⟨by omega, rfl, rfl⟩
  have hge : ∀ w, w ∈ (candidate p s).writesAt x → w ≠ x → p.cfg.nAtomics ≤ w := by
    intro w hw hne
    apply Nat.le_of_not_lt
    intro hlt
    rw [Candidate.mem_writesAt, candidate_ev_init hlt] at hw
    exact hne hw.2.2
  have htid : ∀ w, w ∈ (candidate p s).writesAt x → w ≠ x →
      ((candidate p s).evs.getD w default).tid ≠ initTid := by
    intro w hw hne
    have := candidate_ev_thread hs (hge w hw hne) (Candidate.mem_writesAt.1 hw).1
    omega
  constructor
  · have hxl : x ∈ l := (h x l hl).mem_iff.2 hxw
    cases l with
    | nil => cases hxl
    | cons a0 l' =>
      simp only [List.head?_cons, Option.some.injEq]
      apply Classical.byContradiction
      intro hne
      have ha0 : a0 ∈ (candidate p s).writesAt x := (h x _ hl).mem_iff.1 List.mem_cons_self
      obtain ⟨k, hk⟩ := List.mem_iff_getElem?.1 hxl
      have hk0 : 0 < k := by
        cases k with
        | zero => simp at hk; exact absurd hk hne
        | succ k => omega
      have hmo := (h.mo_iff hl (i := 0) (j := k) (a := a0) (b := x) rfl hk).2 hk0
      have hxn : x < ((candidate p s).graph mos).n := by
        show x < (candidate p s).evs.size
        omega
      have han : a0 < ((candidate p s).graph mos).n := (Candidate.mem_writesAt.1 ha0).1
      have hasw := Candidate.graph_asw_init (mos := mos) hxn han
        (by rw [candidate_ev_init hx]; rfl) (htid a0 ha0 hne)
      exact Graph.coherent_hb_mo rfl (Graph.consistent_iff.1 hc).2.1 hxn han
        (Graph.hb_of_asw hxn han hasw) hmo
  · have hsorted := Candidate.sorted_writesAt (c := candidate p s) x
    cases hw : (candidate p s).writesAt x with
    | nil => rw [hw] at hxw; cases hxw
    | cons i0 rest =>
      rw [hw] at hsorted hxw
      simp only [List.head?_cons, Option.some.injEq]
      apply Classical.byContradiction
      intro hne
      have hlt : i0 < x := by
        rcases List.mem_cons.1 hxw with h' | h'
        · exact absurd h'.symm hne
        · exact List.rel_of_pairwise_cons hsorted h'
      have := hge i0 (by rw [hw]; exact List.mem_cons_self) hne
      omega

/-- (a), (b), (c) together: every family of modification orders that gives a consistent graph
survives the pruning of `moChoices` -/
theorem mem_prunedMos_of_consistent {p : Prog} {s : PSt} {mos : List (List Nat)} {strong : Bool}
    (hs : TidOk s) (hth : s.ths.length ≤ initTid) (hmos : mos ∈ allMo (candidate p s))
    (hc : ((candidate p s).graph mos).consistent strong = true) :
    mos ∈ prunedMos (candidate p s) := by
  obtain ⟨hlen, hok⟩ := mem_allMo.1 hmos
  unfold prunedMos
  rw [mem_product_range]
  refine ⟨hlen, fun x l hl => ?_⟩
  have hx : x < p.cfg.nAtomics := by
    have := (List.getElem?_eq_some_iff.1 hl).1
    rw [hlen, candidate_nLoc] at this; exact this
  obtain ⟨h1, h2⟩ := prune_init hs hth hok hc hx hl
  exact mem_moChoices_of_consistent hok hc hl (h1.trans h2.symm)

end LoomVerif.RC11

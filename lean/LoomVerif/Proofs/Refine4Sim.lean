/-
Refinement, FUTURES fragment, part 8: the shape of the one-step simulation (`Sim4`), what the relation says about the
active thread, how a reference step is produced, and how the relation is re-established after a stage.
-/
import LoomVerif.Proofs.Refine4Calls

set_option linter.unusedSimpArgs false
set_option linter.unusedVariables false

namespace LoomVerif
namespace Refine4
open Refine Sy Refine2

/-- **the conclusion of the one-step simulation**: the program is kept; the reference semantics takes zero or more
steps (each one `SC.step` of a thread that is `SC.enabled`, or the spurious return `SC.spurious`) to a state related
to the new world; the new active thread (if any) is in the thread table -/
def Sim4 (w : World) (s : SC.St) (w' : World) : Prop :=
  w'.prog = w.prog ∧ (∃ s', SCExec2 w.prog s s' ∧ R4 w' s') ∧ InRange w'

theorem exec_step {p : Prog} {s s' : SC.St} {t : Nat} (hen : SC.enabled p s t = true)
    (hst : SC.step p s t = [s']) : SCExec2 p s s' :=
  .step (.nil s) hen (by rw [hst]; exact List.mem_singleton.2 rfl)

theorem exec_step2 {p : Prog} {s s1 s2 : SC.St} {t : Nat} (h1 : SCExec2 p s s1)
    (hsp : SC.spurious p s1 t = [s2]) : SCExec2 p s s2 :=
  .spur h1 (by rw [hsp]; exact List.mem_singleton.2 rfl)

theorem exec_trans {p : Prog} {s s1 s2 : SC.St} (h1 : SCExec2 p s s1) (h2 : SCExec2 p s1 s2) : SCExec2 p s s2 := by
  induction h2 with
  | nil => exact h1
  | step _ hen hst ih => exact .step ih hen hst
  | spur _ hsp ih => exact .spur ih hsp

/-! ### the futures part, for a world whose active thread has rewritten its control record -/

theorem RF.ofGroups {p : Prog} {ctl : List TCtl} {a : Nat} (ha : a < ctl.length) (F : TCtl → TCtl)
    {futs : List FutSt} {objs : List OV4} {d : SCData4}
    (hs : GS p futs (nvOf objs) d.futs)
    (hc : GC p ctl.length (upd (paOf p ctl) a (pendN p (F (ctl.getD a {}))))
      (upd (caOf p ctl) a (callOf p (F (ctl.getD a {})))) futs (nvOf objs) d.futs)
    (hA : GA p ctl.length (upd (iaOf p ctl) a (inflS p (F (ctl.getD a {})))) (avOf objs) d.atoms)
    (hw : GW p ctl.length (upd (waOf p ctl) a (aw25 p (F (ctl.getD a {})))) futs (mvOf objs)) :
    RF p (ctl.modify a F) futs objs d := by
  refine ⟨hs, ?_, ?_, ?_⟩
  · rw [paOf_modify _ _ _ _ ha, caOf_modify _ _ _ _ ha, List.length_modify]; exact hc
  · rw [iaOf_modify _ _ _ _ ha, List.length_modify]; exact hA
  · rw [waOf_modify _ _ _ _ ha, List.length_modify]; exact hw

/-- … with the new attributes given explicitly -/
theorem RF.ofGroups' {p : Prog} {ctl : List TCtl} {a : Nat} (ha : a < ctl.length) (F : TCtl → TCtl)
    {futs : List FutSt} {objs : List OV4} {d : SCData4}
    {x1 x2 : Option Nat} {x3 : Option (Nat × Nat × Bool)} {x4 : Option Nat}
    (e1 : inflS p (F (ctl.getD a {})) = x1) (e2 : pendN p (F (ctl.getD a {})) = x2)
    (e3 : callOf p (F (ctl.getD a {})) = x3) (e4 : aw25 p (F (ctl.getD a {})) = x4)
    (hs : GS p futs (nvOf objs) d.futs)
    (hc : GC p ctl.length (upd (paOf p ctl) a x2) (upd (caOf p ctl) a x3) futs (nvOf objs) d.futs)
    (hA : GA p ctl.length (upd (iaOf p ctl) a x1) (avOf objs) d.atoms)
    (hw : GW p ctl.length (upd (waOf p ctl) a x4) futs (mvOf objs)) :
    RF p (ctl.modify a F) futs objs d := by
  subst e1 e2 e3 e4
  exact RF.ofGroups ha F hs hc hA hw

theorem GC.same {p : Prog} {n : Nat} {pa : Nat → Option Nat} {ca : Nat → Option (Nat × Nat × Bool)}
    {futs : List FutSt} {nv : Nat → Option (Bool × Bool × Bool)} {df : List DFut}
    (h : GC p n pa ca futs nv df) {a : Nat} {x2 : Option Nat} {x3 : Option (Nat × Nat × Bool)}
    (e2 : pa a = x2) (e3 : ca a = x3) : GC p n (upd pa a x2) (upd ca a x3) futs nv df := by
  subst e2 e3
  rw [upd_same, upd_same]; exact h

theorem GA.same {p : Prog} {n : Nat} {ia : Nat → Option Nat} {av : Nat → Option (Nat × Bool × Nat)} {atoms : List Int}
    (h : GA p n ia av atoms) {a : Nat} {x : Option Nat} (e : ia a = x) : GA p n (upd ia a x) av atoms := by
  subst e; rw [upd_same]; exact h

theorem GW.same {p : Prog} {n : Nat} {wa : Nat → Option Nat} {futs : List FutSt} {mv : Nat → Option (Option Nat)}
    (h : GW p n wa futs mv) {a : Nat} {x : Option Nat} (e : wa a = x) : GW p n (upd wa a x) futs mv := by
  subst e; rw [upd_same]; exact h

/-- … when the attributes of the record are unchanged -/
theorem RF.sameAttrs {p : Prog} {ctl : List TCtl} {a : Nat} (ha : a < ctl.length) (F : TCtl → TCtl)
    {futs : List FutSt} {objs : List OV4} {d : SCData4} (h : RF p ctl futs objs d)
    (hattr : fattr p (F (ctl.getD a {})) = fattr p (ctl.getD a {})) :
    RF p (ctl.modify a F) futs objs d := by
  simp only [fattr, Prod.mk.injEq] at hattr
  obtain ⟨e1, e2, e3, e4⟩ := hattr
  refine RF.ofGroups ha F h.s ?_ ?_ ?_
  · rw [e2, e3]
    have h1 : upd (paOf p ctl) a (pendN p (ctl.getD a {})) = paOf p ctl := upd_same _ _
    have h2 : upd (caOf p ctl) a (callOf p (ctl.getD a {})) = caOf p ctl := upd_same _ _
    rw [h1, h2]; exact h.c
  · rw [e1]
    have h1 : upd (iaOf p ctl) a (inflS p (ctl.getD a {})) = iaOf p ctl := upd_same _ _
    rw [h1]; exact h.a
  · rw [e4]
    have h1 : upd (waOf p ctl) a (aw25 p (ctl.getD a {})) = waOf p ctl := upd_same _ _
    rw [h1]; exact h.w

/-! ### the active thread -/

section
variable {w : World} {s : SC.St}

theorem opOfCtl_active (w : World) : opOfCtl w.prog (w.ctlOf w.tid) = opAt w := rfl

/-- what the relation says about the active thread -/
theorem act4 (hR : R4 w s) (hact : w.tid < w.ctl.length) :
    (w.ctlOf w.tid).body < w.prog.threads.length ∧
    ThRel4 w.prog (w.ctlOf w.tid) (dth4 (s.th (w.ctlOf w.tid).body)) ∧
    Plain (s.th (w.ctlOf w.tid).body) ∧ (s.th (w.ctlOf w.tid).body).started = true ∧
    ((s.th (w.ctlOf w.tid).body).finished = decide (10 ≤ (w.ctlOf w.tid).fin)) := by
  obtain ⟨h1, h2⟩ := hR.x.thr w.tid hact
  have e : (data4 s).ths.getD (w.ctlOf w.tid).body {} = dth4 (s.th (w.ctlOf w.tid).body) := data4_th s _
  have h2' : ThRel4 w.prog (w.ctlOf w.tid) (dth4 (s.th (w.ctlOf w.tid).body)) := by
    rw [← e]; exact h2
  exact ⟨h1, h2', plain_of h2'.2.2.1, h2'.1, h2'.2.1⟩

/-- a thread that still has an operation to run is not in its epilogue -/
theorem fin_zero4 (hR : R4 w s) (hact : w.tid < w.ctl.length) {op : Op} (hop : opAt w = some op) :
    (w.ctlOf w.tid).fin = 0 := by
  apply Classical.byContradiction
  intro hne
  have := hR.x.epi w.tid hact hne
  rw [show (view4 w).ctl.getD w.tid {} = w.ctlOf w.tid from rfl] at this
  rw [show opOfCtl (view4 w).prog (w.ctlOf w.tid) = opAt w from rfl, hop] at this
  cases this

/-- the reference thread of the active thread is where the twin thread is, unless it is ahead -/
theorem sync4 (hR : R4 w s) (hact : w.tid < w.ctl.length)
    (hah : aheadOf (opAt w) (w.ctlOf w.tid).stage = none) :
    SC.opOf w.prog s (w.ctlOf w.tid).body = opAt w ∧
    (s.th (w.ctlOf w.tid).body).pc = (w.ctlOf w.tid).pc ∧
    (s.th (w.ctlOf w.tid).body).rets = (w.ctlOf w.tid).results ∧
    (s.th (w.ctlOf w.tid).body).phase = phaseOf (opAt w) (w.ctlOf w.tid).stage := by
  obtain ⟨_, hrel, _⟩ := act4 hR hact
  have := hrel.2.2.2.2.2.2.2.2
  rw [opOfCtl_active, hah] at this
  obtain ⟨h1, h2, h3⟩ := this
  refine ⟨?_, h1, h2, h3⟩
  unfold SC.opOf opAt
  have : (s.th (w.ctlOf w.tid).body).pc = (w.ctlOf w.tid).pc := h1
  rw [this]

/-- the reference thread of an active thread with an operation to run can run -/
theorem running4 (hR : R4 w s) (hact : w.tid < w.ctl.length) {op : Op} (hop : opAt w = some op) :
    (s.th (w.ctlOf w.tid).body).started = true ∧ (s.th (w.ctlOf w.tid).body).finished = false := by
  obtain ⟨_, _, _, h1, h2⟩ := act4 hR hact
  refine ⟨h1, ?_⟩
  rw [h2, fin_zero4 hR hact hop]
  rfl

/-- the operation of the active thread is a well-formed fragment operation -/
theorem opOk_active (hwf : WF4 w.prog) {op : Op} (hop : opAt w = some op) : opOk4 w.prog op = true :=
  hwf.opOk hop

end

/-! ### re-establishing the relation -/

/-- the world after a stage: only the active thread's record, the futures' table and the objects (as the relation
sees them) have changed -/
theorem RV.mk' {v v' : View} {d' : SCData4} {ctl' : List TCtl} {futs' : List FutSt} {objs' : List OV4}
    (hv : v' = { v with ctl := ctl', futs := futs', objs := objs' })
    (hl : ctl'.length = v.nth) (hver : d'.verdict = none)
    (hx : RX4 v.prog ctl' d'.ths) (hsp : RSp ctl' v.spawned objs') (hf : RF v.prog ctl' futs' objs' d') :
    RV v' d' := by
  subst hv
  exact ⟨hl, hver, hx, hsp, hf⟩

/-- the general assembly: the active thread `a` has rewritten its record by `F`, the reference thread of its body has
changed by `g` -/
theorem RV.step {v : View} {d d' : SCData4} (h : RV v d) {a : Nat} (ha : a < v.ctl.length) (F : TCtl → TCtl)
    (g : DTh4 → DTh4) (futs' : List FutSt) (objs' : List OV4)
    (hd : d'.ths = d.ths.modify (v.ctl.getD a {}).body g) (hver : d'.verdict = none)
    (hbody : (F (v.ctl.getD a {})).body = (v.ctl.getD a {}).body)
    (hpc : (v.ctl.getD a {}).pc ≤ (F (v.ctl.getD a {})).pc)
    (hrel : ThRel4 v.prog (F (v.ctl.getD a {})) (g (d.ths.getD (v.ctl.getD a {}).body {})))
    (hepi : (F (v.ctl.getD a {})).fin ≠ 0 → opOfCtl v.prog (F (v.ctl.getD a {})) = none)
    (hfin : 10 ≤ (v.ctl.getD a {}).fin → 10 ≤ (F (v.ctl.getD a {})).fin)
    (hobjs : ∀ (n : Nat) (nt ds : Bool), v.objs[n]? = some (OV4.notify false nt ds) →
      objs'[n]? = some (OV4.notify false nt ds))
    (hf : RF v.prog (v.ctl.modify a F) futs' objs' d') :
    RV { v with ctl := v.ctl.modify a F, futs := futs', objs := objs' } d' := by
  refine ⟨by simpa using h.lenCtl, hver, ?_, ?_, hf⟩
  · show RX4 v.prog (v.ctl.modify a F) d'.ths
    rw [hd]
    exact h.x.modify ha F g hbody hpc hrel hepi
  · exact (h.sp.ctl (CtlLe.modify _ _ _ hbody hfin)).objs hobjs

/-- the futures part reads the futures and the atomics of the reference state only -/
theorem RF.congr_d {p : Prog} {ctl : List TCtl} {futs : List FutSt} {objs : List OV4} {d d' : SCData4}
    (h : RF p ctl futs objs d) (h1 : d'.futs = d.futs) (h2 : d'.atoms = d.atoms) : RF p ctl futs objs d' := by
  obtain ⟨hs, hc, ha, hw⟩ := h
  exact ⟨by rw [h1]; exact hs, by rw [h1]; exact hc, by rw [h2]; exact ha, hw⟩

/-- the thread relation for a rewritten record / reference thread: what has to be shown anew -/
theorem ThRel4.of {p : Prog} {c c' : TCtl} {h h' : DTh4} (hr : ThRel4 p c h)
    (e1 : h'.started = h.started) (e2 : h'.finished = h.finished) (e3 : h'.plain = h.plain) (e4 : h'.held = h.held)
    (f1 : c'.fin = c.fin) (f2 : c'.locals = c.locals) (f3 : c'.dtorQueue = c.dtorQueue)
    (hst : stageOk (opOfCtl p c') c'.stage = true)
    (hprim : ∀ x, opOfCtl p c' = some (.atom x (.store 1 .rel)) → c'.stage = 1 → c'.prim = some (.store 1 .rel))
    (hm : match aheadOf (opOfCtl p c') c'.stage with
      | none => h'.pc = c'.pc ∧ h'.rets = c'.results ∧ h'.phase = phaseOf (opOfCtl p c') c'.stage
      | some r => h'.pc = c'.pc + 1 ∧ h'.rets = (c'.pc, r) :: c'.results ∧ h'.phase = 0) :
    ThRel4 p c' h' := by
  obtain ⟨r1, r2, r3, r4, r5, r6, _⟩ := hr
  exact ⟨by rw [e1]; exact r1, by rw [e2, f1]; exact r2, by rw [e3]; exact r3, by rw [e4]; exact r4,
    by rw [f2]; exact r5, by rw [f3]; exact r6, hst, hprim, hm⟩

/-- the futures part when the notification of thread `a` lands -/
theorem RF.land {p : Prog} {ctl : List TCtl} {futs : List FutSt} {objs : List OV4} {d : SCData4}
    (h : RF p ctl futs objs d) {a k : Nat} (ha : a < ctl.length) (F : TCtl → TCtl) {sp nt ds : Bool}
    (hpend : pendN p (ctl.getD a {}) = some k)
    (h0 : inflS p (ctl.getD a {}) = none ∧ callOf p (ctl.getD a {}) = none ∧ aw25 p (ctl.getD a {}) = none)
    (hF : fattr p (F (ctl.getD a {})) = (none, none, none, none))
    (hvo : objs[k]? = some (.notify sp nt ds)) :
    sp = true ∧ RF p (ctl.modify a F) futs (objs.set k (.notify sp true ds)) d := by
  obtain ⟨nt', ds', hk⟩ := h.c.pendOk a k ha hpend
  have hk' := hk
  rw [nvOf_some, hvo] at hk'
  cases hk'
  refine ⟨rfl, ?_⟩
  simp only [fattr, Prod.mk.injEq] at hF
  obtain ⟨e1, e2, e3, e4⟩ := hF
  have hset := view_set_notify (a' := true) (b' := true) (c' := ds) hvo
  refine RF.ofGroups' ha F e1 e2 e3 e4 ?_ ?_ ?_ ?_
  · rw [hset.1]
    refine h.s.nv ?_
    intro k' nt1 ds1 hk1
    by_cases e : k' = k
    · subst e; exact ⟨true, ds, upd_self _ _ _⟩
    · exact ⟨nt1, ds1, by rw [upd_ne _ _ e]; exact hk1⟩
  · rw [hset.1]
    have := h.c.land ha hpend hk
    have hca : upd (caOf p ctl) a none = caOf p ctl := by
      have : caOf p ctl a = none := h0.2.1
      rw [← this]; exact upd_same _ _
    rw [hca]; exact this
  · rw [hset.2.2]
    exact h.a.same h0.1
  · rw [hset.2.1]
    exact h.w.same h0.2.2

section
variable {w w' : World} {s : SC.St}

/-- the thread relation of the active thread -/
theorem rel4 (hR : R4 w s) (hact : w.tid < w.ctl.length) :
    ThRel4 w.prog (w.ctlOf w.tid) ((data4 s).ths.getD (w.ctlOf w.tid).body {}) :=
  (hR.x.thr w.tid hact).2

/-- **the general assembly**, for a world: the active thread has rewritten its record by `F`, the reference thread
of its body has changed by `g` -/
theorem R4_step (hR : R4 w s) (hact : w.tid < w.ctl.length) (F : TCtl → TCtl) (g : DTh4 → DTh4)
    (futs' : List FutSt) (objs' : List OV4) {d' : SCData4}
    (hv : view4 w' = { view4 w with ctl := w.ctl.modify w.tid F, futs := futs', objs := objs' })
    (hd : d'.ths = (data4 s).ths.modify (w.ctlOf w.tid).body g) (hver : d'.verdict = none)
    (hbody : (F (w.ctlOf w.tid)).body = (w.ctlOf w.tid).body)
    (hpc : (w.ctlOf w.tid).pc ≤ (F (w.ctlOf w.tid)).pc)
    (hrel : ThRel4 w.prog (F (w.ctlOf w.tid)) (g ((data4 s).ths.getD (w.ctlOf w.tid).body {})))
    (hepi : (F (w.ctlOf w.tid)).fin ≠ 0 → opOfCtl w.prog (F (w.ctlOf w.tid)) = none)
    (hfin : 10 ≤ (w.ctlOf w.tid).fin → 10 ≤ (F (w.ctlOf w.tid)).fin)
    (hobjs : ∀ (n : Nat) (nt ds : Bool), (view4 w).objs[n]? = some (OV4.notify false nt ds) →
      objs'[n]? = some (OV4.notify false nt ds))
    (hf : RF w.prog (w.ctl.modify w.tid F) futs' objs' d') : RV (view4 w') d' := by
  rw [hv]
  exact RV.step hR hact F g futs' objs' hd hver hbody hpc hrel hepi hfin hobjs hf

/-- **a stuttering stage**: only the stage (and the scratch fields) of the active thread's record move, within the
same phase of the reference -/
theorem R4_quiet (hR : R4 w s) (hact : w.tid < w.ctl.length) (F : TCtl → TCtl)
    (hv : view4 w' = { view4 w with ctl := w.ctl.modify w.tid F })
    (hbody : (F (w.ctlOf w.tid)).body = (w.ctlOf w.tid).body)
    (hpc : (F (w.ctlOf w.tid)).pc = (w.ctlOf w.tid).pc)
    (hres : (F (w.ctlOf w.tid)).results = (w.ctlOf w.tid).results)
    (hfin : (F (w.ctlOf w.tid)).fin = (w.ctlOf w.tid).fin)
    (hloc : (F (w.ctlOf w.tid)).locals = (w.ctlOf w.tid).locals)
    (hdq : (F (w.ctlOf w.tid)).dtorQueue = (w.ctlOf w.tid).dtorQueue)
    (hst : stageOk (opAt w) (F (w.ctlOf w.tid)).stage = true)
    (hah : aheadOf (opAt w) (F (w.ctlOf w.tid)).stage = aheadOf (opAt w) (w.ctlOf w.tid).stage)
    (hph : phaseOf (opAt w) (F (w.ctlOf w.tid)).stage = phaseOf (opAt w) (w.ctlOf w.tid).stage)
    (hattr : fattr w.prog (F (w.ctlOf w.tid)) = fattr w.prog (w.ctlOf w.tid))
    (hprim : ∀ x, opAt w = some (.atom x (.store 1 .rel)) → (F (w.ctlOf w.tid)).stage = 1 →
      (F (w.ctlOf w.tid)).prim = some (.store 1 .rel)) : R4 w' s := by
  have hopc : opOfCtl w.prog (F (w.ctlOf w.tid)) = opAt w := by
    unfold opOfCtl Refine3.opOfCtl opAt
    rw [hbody, hpc]
  obtain ⟨_, hrel⟩ := hR.x.thr w.tid hact
  have hrel' : ThRel4 w.prog (w.ctlOf w.tid) ((data4 s).ths.getD (w.ctlOf w.tid).body {}) := hrel
  obtain ⟨h1, h2, h3, h4, h5, h6, h7, h8, h9⟩ := hrel'
  unfold R4
  rw [hv]
  have := hR.step hact F id (view4 w).futs (view4 w).objs
    (by rw [modify_id' _ _ id (fun _ => rfl)]) hR.verdict hbody (by
      show (w.ctlOf w.tid).pc ≤ (F (w.ctlOf w.tid)).pc; rw [hpc]; exact Nat.le_refl _) (by
      show ThRel4 w.prog (F (w.ctlOf w.tid)) ((data4 s).ths.getD (w.ctlOf w.tid).body {})
      refine ⟨h1, by rw [hfin]; exact h2, h3, h4, by rw [hloc]; exact h5, by rw [hdq]; exact h6,
        by rw [hopc]; exact hst, by rw [hopc]; exact hprim, ?_⟩
      rw [hopc, hah, hpc, hres, hph]
      rw [opOfCtl_active] at h9
      exact h9) (by
      intro hne
      have hne' : (F (w.ctlOf w.tid)).fin ≠ 0 := hne
      rw [hfin] at hne'
      have := hR.x.epi w.tid hact hne'
      show opOfCtl w.prog (F (w.ctlOf w.tid)) = none
      rw [hopc]; exact this) (by
      show 10 ≤ (w.ctlOf w.tid).fin → 10 ≤ (F (w.ctlOf w.tid)).fin; rw [hfin]; exact id) (fun _ _ _ h => h)
    (RF.sameAttrs hact F hR.f hattr)
  exact this

theorem aheadOf_zero (o : Option Op) : aheadOf o 0 = none := by
  cases o with
  | none => rfl
  | some op => cases op <;> rfl

theorem phaseOf_zero (o : Option Op) : phaseOf o 0 = 0 := by
  cases o with
  | none => rfl
  | some op => cases op <;> rfl

theorem stageOk_zero (o : Option Op) : stageOk o 0 = true := by
  cases o with
  | none => rfl
  | some op => cases op <;> rfl

/-- **the twin thread catches up** with its reference thread: the operation completes with the result the reference
has already recorded -/
theorem R4_catchup (hR : R4 w s) (hact : w.tid < w.ctl.length) {op : Op} (hop : opAt w = some op) {r : Ret}
    (hah : aheadOf (opAt w) (w.ctlOf w.tid).stage = some r)
    (hattr : fattr w.prog (w.ctlOf w.tid) = (none, none, none, none))
    (hv : view4 w' = { view4 w with ctl := w.ctl.modify w.tid (completeF r) }) : R4 w' s := by
  have hrel := rel4 hR hact
  have r9 := hrel.2.2.2.2.2.2.2.2
  rw [opOfCtl_active, hah] at r9
  obtain ⟨e1, e2, e3, e4⟩ := fattr_stage0 w.prog (completeF r (w.ctlOf w.tid)) rfl
  have hattr' : fattr w.prog (completeF r (w.ctlOf w.tid)) = fattr w.prog (w.ctlOf w.tid) := by
    rw [hattr]; simp only [fattr, e1, e2, e3, e4]
  unfold R4
  refine R4_step hR hact (completeF r) id (view4 w).futs (view4 w).objs hv
    (by rw [modify_id' _ _ id (fun _ => rfl)]) hR.verdict rfl (Nat.le_succ _) ?_ ?_ id (fun _ _ _ h => h)
    (RF.sameAttrs hact _ hR.f hattr')
  · refine hrel.of rfl rfl rfl rfl rfl rfl rfl (stageOk_zero _) (by intro x _ h1; cases h1) ?_
    show match aheadOf _ 0 with | none => _ | some r => _
    rw [aheadOf_zero]
    show _ = (w.ctlOf w.tid).pc + 1 ∧ _ = ((w.ctlOf w.tid).pc, r) :: (w.ctlOf w.tid).results ∧ _ = phaseOf _ 0
    rw [phaseOf_zero]
    exact r9
  · intro hne
    exact absurd (fin_zero4 hR hact hop) hne

/-- a stage that drops a waker and completes the operation, of a thread whose reference thread has already recorded
the result -/
theorem sim_dropComplete (hR : R4 w s) (hact : w.tid < w.ctl.length) {op : Op} (hop : opAt w = some op)
    {a : Nat} {r : Ret} (hah : aheadOf (opAt w) (w.ctlOf w.tid).stage = some r)
    (hattr : fattr w.prog (w.ctlOf w.tid) = (none, none, none, none))
    (h : (do let w1 ← w.wakerDrop a; pure (w1.complete r)) = .ok w') : Sim4 w s w' := by
  obtain ⟨w1, h1, h2⟩ := Refine.bind_ok h
  simp only [pure, Except.pure] at h2
  cases h2
  obtain ⟨hk, hv1⟩ := wakerDrop_view h1
  have hlen : w.ctl.length = w.exec.threads.threads.length := hR.lenCtl
  refine ⟨hk.1.1, ⟨s, .nil s, ?_⟩, inRange_of (w := w) hk.2.1 (Nat.le_of_eq hk.2.2.symm) (by
    rw [← hlen]; exact hact)⟩
  refine R4_catchup hR hact hop hah hattr ?_
  rw [view4_complete, hv1, hk.1.2.1, hk.2.1]

end

end Refine4
end LoomVerif

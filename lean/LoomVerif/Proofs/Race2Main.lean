/-
Race exactness on the WAIT fragment, part 18: the step theorem with clocks and the exactness of the race checks.
-/
import LoomVerif.Proofs.Race2Chan
import LoomVerif.Proofs.Race2Notify
import LoomVerif.Proofs.Race2Park
import LoomVerif.Proofs.Race2Cv
import LoomVerif.Proofs.Race2Thread3
import LoomVerif.Proofs.Race2Err

namespace LoomVerif
namespace Race2
open Refine Refine2 Sy C07 C08 Clocks Race

section
variable {w w' : World} {s : SC.St}

theorem stepActive_eq_runOp2 {op : Op} (hop : opAt2 w = some op) :
    w.stepActive = w.runOp (w.ctlOf w.tid) op := by
  unfold World.stepActive
  unfold opAt2 opOfCtl at hop
  simp only [hop]

theorem stepActive_eq_epilogue2 (hop : opAt2 w = none) : w.stepActive = w.runEpilogue (w.ctlOf w.tid) := by
  unfold World.stepActive
  unfold opAt2 opOfCtl at hop
  simp only [hop]

/-- **one-step simulation with clocks, WAIT fragment**: a successful stage of the active thread of the twin, from a
world related (with clocks) to the reference state `s`, leads to a world related to `s` again (stuttering), or to a
world related to THE successor `s'` of `s` by the step of `SC.step` of the body the thread runs (a step of a thread
that is `SC.enabled`) or by the spurious return of its `nWait` (`SC.spurious`); in particular that step does not stop
with a race verdict (`RC2` contains `s'.verdict = none`). -/
theorem step_clock2 (hwf : WF3 w.prog) (hRC : RC2 w s) (hact : w.tid < w.ctl.length)
    (hactive : w.ths.isActive = true) (hok : resumeOk w = true)
    (h : w.stepActive = .ok w') : SimC2 w s w' := by
  have hsim : Sim2 w (data2 s) w' := (step_sim2 hwf.1 hRC.r hact hok h).1
  have fin3 : QuietOut2 w s w' ∨ RealOut2 w s w' ∨ SpurOut2 w s w' → SimC2 w s w' := by
    rintro (hq | hr | hs)
    · exact simC2_of_quiet hRC hsim hq
    · exact simC2_of_real hwf.1 hRC hsim hr
    · exact simC2_of_spur hRC hsim hs
  have fin : QuietOut2 w s w' ∨ RealOut2 w s w' → SimC2 w s w' := by
    rintro (hq | hr)
    · exact fin3 (.inl hq)
    · exact fin3 (.inr (.inl hr))
  cases hop : opAt2 w with
  | none =>
    rw [stepActive_eq_epilogue2 hop] at h
    exact fin (clk_epilogue2 hRC hact hop h)
  | some op =>
    rw [stepActive_eq_runOp2 hop] at h
    have hop' : (w.prog.threads.getD (w.ctlOf w.tid).body [])[(w.ctlOf w.tid).pc]? = some op := hop
    have hok' := hwf.1.opOk hop'
    cases op <;> simp only [Refine2.opOk, Bool.false_eq_true, Bool.and_eq_true, decide_eq_true_eq] at hok'
    case cellRead c =>
      rcases clk_cellRead2 hRC hact hop hok' with ⟨he, _⟩ | ⟨w'', hw'', hr⟩
      · rw [he] at h; cases h
      · rw [hw''] at h; cases h; exact fin (.inr hr)
    case cellWrite c v =>
      rcases clk_cellWrite2 hRC hact hop hok' with ⟨he, _⟩ | ⟨he, _⟩ | ⟨w'', hw'', hr⟩
      · rw [he] at h; cases h
      · rw [he] at h; cases h
      · rw [hw''] at h; cases h; exact fin (.inr hr)
    case lock m => exact fin (clk_lock2 hRC hact hop hok' h)
    case tryLock m => exact fin (clk_tryLock2 hRC hact hop hok' h)
    case unlock m => exact fin (.inr (clk_unlock2 hRC hact hactive hop hok' h))
    case spawn b => exact fin (.inr (clk_spawn2 hwf.1 hRC hact hop h))
    case join b => exact fin (clk_join2 hRC hact hop h)
    case ifEq i r n => exact fin (.inr (clk_ifEq2 hRC hact hop h))
    case send q v => exact fin (clk_send2 hRC hact hop hok' h)
    case recv q => exact fin (clk_recv2 hRC hact hop hok' h)
    case tryRecv q => exact fin (clk_tryRecv2 hRC hact hop hok' h)
    case dropRx q => exact absurd hop' (fun hh => hwf.noDrop hh)
    case nWait n => exact fin3 (clk_nWait2 hRC hact hop hok' h)
    case nNotify n => exact fin (clk_nNotify2 hRC hact hop hok' h)
    case park => exact fin (clk_park2 hRC hact hop hok h)
    case unpark u => exact fin (.inr (clk_unpark2 hRC hact hop h))
    case cvWait v m => exact fin (clk_cvWait2 hRC hact hactive hop hok'.1 hok'.2 hok h)
    case cvOne v => exact fin (clk_cvOne2 hRC hact hop hok' h)
    case cvAll v => exact fin (clk_cvAll2 hRC hact hop hok' h)

/-! ### the race checks are exact -/

/-- **`cellRead`: the twin panics with causality violation `k` exactly when the reference step stops with
`race k`** (and then `k = 9`) -/
theorem read_panics_iff_races2 (hRC : RC2 w s) (hact : w.tid < w.ctl.length) {c : Nat}
    (hop : opAt2 w = some (.cellRead c)) (hc : c < w.prog.cfg.nCells) (k : Nat) :
    w.stepActive = .error (.causality k) ↔
      SC.step w.prog s (body w w.tid) = [(s.tick (body w w.tid)).stop (.race k)] := by
  rw [stepActive_eq_runOp2 hop]
  rcases clk_cellRead2 hRC hact hop hc with ⟨he, hs⟩ | ⟨w'', hw'', hr⟩
  · rw [he, hs]
    constructor
    · intro h; cases h; rfl
    · intro h; rw [stop_race_inj h]
  · obtain ⟨_, _, _, s', hs', hv, _⟩ := hr
    rw [hw'', hs']
    constructor
    · intro h; cases h
    · intro h
      have : s' = (s.tick (body w w.tid)).stop (.race k) := by simpa using h
      rw [this] at hv; cases hv

/-- **`cellWrite`: the twin panics with causality violation `k` exactly when the reference step stops with
`race k`** (`k = 10`: against an earlier write, `k = 11`: against an earlier read; same precedence on both sides) -/
theorem write_panics_iff_races2 (hRC : RC2 w s) (hact : w.tid < w.ctl.length) {c : Nat} {v : Int}
    (hop : opAt2 w = some (.cellWrite c v)) (hc : c < w.prog.cfg.nCells) (k : Nat) :
    w.stepActive = .error (.causality k) ↔
      SC.step w.prog s (body w w.tid) = [(s.tick (body w w.tid)).stop (.race k)] := by
  rw [stepActive_eq_runOp2 hop]
  rcases clk_cellWrite2 hRC hact hop hc with ⟨he, hs⟩ | ⟨he, hs⟩ | ⟨w'', hw'', hr⟩
  · rw [he, hs]
    constructor
    · intro h; cases h; rfl
    · intro h; rw [stop_race_inj h]
  · rw [he, hs]
    constructor
    · intro h; cases h; rfl
    · intro h; rw [stop_race_inj h]
  · obtain ⟨_, _, _, s', hs', hv, _⟩ := hr
    rw [hw'', hs']
    constructor
    · intro h; cases h
    · intro h
      have : s' = (s.tick (body w w.tid)).stop (.race k) := by simpa using h
      rw [this] at hv; cases hv

/-- a cell access of the twin has exactly two outcomes: a causality violation or success -/
theorem cell_outcomes2 (hRC : RC2 w s) (hact : w.tid < w.ctl.length) (hcell : AtCell2 w) :
    (∃ k, w.stepActive = .error (.causality k) ∧ (k = 9 ∨ k = 10 ∨ k = 11)) ∨
    (∃ w' s', w.stepActive = .ok w' ∧ SC.step w.prog s (body w w.tid) = [s'] ∧ s'.verdict = none) := by
  rcases hcell with ⟨c, hop, hc⟩ | ⟨c, v, hop, hc⟩
  · rw [stepActive_eq_runOp2 hop]
    rcases clk_cellRead2 hRC hact hop hc with ⟨he, _⟩ | ⟨w'', hw'', hr⟩
    · exact .inl ⟨9, he, .inl rfl⟩
    · obtain ⟨_, _, _, s', hs', hv, _⟩ := hr
      exact .inr ⟨w'', s', hw'', hs', hv⟩
  · rw [stepActive_eq_runOp2 hop]
    rcases clk_cellWrite2 hRC hact hop hc with ⟨he, _⟩ | ⟨he, _⟩ | ⟨w'', hw'', hr⟩
    · exact .inl ⟨10, he, .inr (.inl rfl)⟩
    · exact .inl ⟨11, he, .inr (.inr rfl)⟩
    · obtain ⟨_, _, _, s', hs', hv, _⟩ := hr
      exact .inr ⟨w'', s', hw'', hs', hv⟩

end

end Race2
end LoomVerif

/-
List combinatorics used by the RC11 enumerator: `findIdx?`, `permutations` (really all
permutations), `product` (really the product).
-/
import LoomVerif.Oracle.RC11EnumV

namespace LoomVerif.RC11

/-! ### `findIdx?` -/

theorem findIdx?_some {α} {p : α → Bool} : ∀ {l : List α} {i : Nat}, findIdx? p l = some i →
    ∃ a, l[i]? = some a ∧ p a = true ∧ ∀ j b, j < i → l[j]? = some b → p b = false
  | [], i, h => by simp [findIdx?] at h
  | x :: l, i, h => by
    unfold findIdx? at h
    by_cases hx : p x = true
    · rw [if_pos hx] at h
      cases h
      exact ⟨x, rfl, hx, fun j b hj => by omega⟩
    · rw [if_neg hx] at h
      cases h' : findIdx? p l with
      | none => rw [h'] at h; cases h
      | some k =>
        rw [h'] at h
        have : i = k + 1 := by simpa using h.symm
        subst this
        obtain ⟨a, h1, h2, h3⟩ := findIdx?_some h'
        refine ⟨a, by simpa using h1, h2, ?_⟩
        intro j b hj hb
        cases j with
        | zero => simp at hb; subst hb; simpa using hx
        | succ j => exact h3 j b (by omega) (by simpa using hb)

theorem findIdx?_none {α} {p : α → Bool} : ∀ {l : List α}, findIdx? p l = none →
    ∀ a ∈ l, p a = false
  | [], _, a, h => by cases h
  | x :: l, h, a, ha => by
    unfold findIdx? at h
    by_cases hx : p x = true
    · rw [if_pos hx] at h; cases h
    · rw [if_neg hx] at h
      cases h' : findIdx? p l with
      | some k => rw [h'] at h; cases h
      | none =>
        rcases List.mem_cons.1 ha with rfl | ha
        · simpa using hx
        · exact findIdx?_none h' a ha

/-- in a duplicate-free list, `findIdx? (· == a)` is the position of `a` -/
theorem findIdx?_eq_of_nodup {l : List Nat} (hn : l.Nodup) {i a : Nat} (h : l[i]? = some a) :
    findIdx? (· == a) l = some i := by
  cases h' : findIdx? (· == a) l with
  | none =>
    have := findIdx?_none h' a (List.mem_of_getElem? h)
    simp at this
  | some k =>
    obtain ⟨b, h1, h2, -⟩ := findIdx?_some h'
    have : b = a := by simpa using h2
    subst this
    have hk : k < l.length := (List.getElem?_eq_some_iff.1 h1).1
    have hi : i < l.length := (List.getElem?_eq_some_iff.1 h).1
    have e1 : l[k] = b := (List.getElem?_eq_some_iff.1 h1).2
    have e2 : l[i] = b := (List.getElem?_eq_some_iff.1 h).2
    have := (List.getElem_inj (h₀ := hk) (h₁ := hi) hn).1 (e1.trans e2.symm)
    rw [this]

theorem findIdx?_eq_getElem? {l : List Nat} {i a : Nat} (h : findIdx? (· == a) l = some i) :
    l[i]? = some a := by
  obtain ⟨b, h1, h2, -⟩ := findIdx?_some h
  have : b = a := by simpa using h2
  rwa [this] at h1

theorem findIdx?_isSome_of_mem {l : List Nat} {a : Nat} (h : a ∈ l) :
    ∃ i, findIdx? (· == a) l = some i := by
  cases h' : findIdx? (· == a) l with
  | none => have := findIdx?_none h' a h; simp at this
  | some k => exact ⟨k, rfl⟩

/-! ### `permutations` -/

theorem perm_of_mem_permutations {α} : ∀ {xs l : List α}, l ∈ permutations xs → l.Perm xs
  | [], l, h => by simp [permutations] at h; subst h; exact .nil
  | x :: xs, l, h => by
    simp only [permutations, List.mem_flatMap, List.mem_map, List.mem_range] at h
    obtain ⟨q, hq, i, -, rfl⟩ := h
    have ih := perm_of_mem_permutations hq
    have h1 : (List.take i q ++ [x] ++ List.drop i q).Perm (x :: (List.take i q ++ List.drop i q)) := by
      rw [List.append_assoc]
      exact List.perm_middle
    rw [List.take_append_drop] at h1
    exact h1.trans (ih.cons x)

theorem mem_permutations_of_perm {α} : ∀ {xs l : List α}, l.Perm xs → l ∈ permutations xs
  | [], l, h => by
    have := h.eq_nil; subst this; simp [permutations]
  | x :: xs, l, h => by
    have hx : x ∈ l := h.symm.subset (List.mem_cons_self)
    obtain ⟨l1, l2, rfl⟩ := List.append_of_mem hx
    have h1 : (l1 ++ l2).Perm xs := by
      have := List.perm_middle.symm.trans h
      exact this.cons_inv
    have ih := mem_permutations_of_perm h1
    simp only [permutations, List.mem_flatMap, List.mem_map, List.mem_range]
    refine ⟨l1 ++ l2, ih, l1.length, by simp; omega, ?_⟩
    simp

theorem mem_permutations {α} {xs l : List α} : l ∈ permutations xs ↔ l.Perm xs :=
  ⟨perm_of_mem_permutations, mem_permutations_of_perm⟩

/-! ### `product` -/

theorem mem_product {α} : ∀ {ls : List (List α)} {l : List α},
    l ∈ product ls ↔
      l.length = ls.length ∧ ∀ (i : Nat) (x : α), l[i]? = some x → ∃ m, ls[i]? = some m ∧ x ∈ m
  | [], l => by
    simp only [product, List.mem_singleton, List.length_nil, List.length_eq_zero_iff]
    constructor
    · rintro rfl; simp
    · exact fun h => h.1
  | m :: ls, l => by
    simp only [product, List.mem_flatMap, List.mem_map]
    constructor
    · rintro ⟨x, hx, l', hl', rfl⟩
      obtain ⟨h1, h2⟩ := mem_product.1 hl'
      refine ⟨by simp [h1], ?_⟩
      intro i y hy
      cases i with
      | zero => simp at hy; subst hy; exact ⟨m, rfl, hx⟩
      | succ i => simpa using h2 i y (by simpa using hy)
    · rintro ⟨h1, h2⟩
      cases l with
      | nil => simp at h1
      | cons x l' =>
        obtain ⟨m', hm', hx⟩ := h2 0 x rfl
        simp at hm'; subst hm'
        refine ⟨x, hx, l', mem_product.2 ⟨by simpa using h1, ?_⟩, rfl⟩
        intro i y hy
        simpa using h2 (i + 1) y (by simpa using hy)

/-- the product over `List.range n` of a family of lists -/
theorem mem_product_range {α} {n : Nat} {f : Nat → List α} {l : List α} :
    l ∈ product ((List.range n).map f) ↔
      l.length = n ∧ ∀ (i : Nat) (x : α), l[i]? = some x → x ∈ f i := by
  rw [mem_product]
  simp only [List.length_map, List.length_range]
  constructor
  · rintro ⟨h1, h2⟩
    refine ⟨h1, fun i x hx => ?_⟩
    obtain ⟨m, hm, hxm⟩ := h2 i x hx
    have hi : i < n := by
      have := (List.getElem?_eq_some_iff.1 hx).1; omega
    simp [hi] at hm
    subst hm; exact hxm
  · rintro ⟨h1, h2⟩
    refine ⟨h1, fun i x hx => ?_⟩
    have hi : i < n := by
      have := (List.getElem?_eq_some_iff.1 hx).1; omega
    exact ⟨f i, by simp [hi], h2 i x hx⟩

end LoomVerif.RC11

/-
Refinement, STATICS fragment, part 7: the two kinds of `drop_locals` stages of the epilogue.

* `sim_finish5`: the `drop_locals` pass of a thread whose entries are all live (the first pass of a spawned thread,
  the only pass of the main thread) is the reference's `finish` step — whichever of its three shapes it takes
  (`Proofs/Refine5Drop.lean`).
* `sim_late5`: a later pass of a spawned thread stutters.
-/
import LoomVerif.Proofs.Refine5Drop

namespace LoomVerif
namespace Refine5
open Refine Sy C07 C08

/-- the reference's `finish` step of a thread that owns key 0 but not key 1 (`tlsdtor=2`): the destructor of key 0
re-initialises key 1 -/
theorem finish_reinit (p : Prog) (s : SCData5) (b : Nat) (hd2 : p.cfg.tlsDtor = 2)
    (hL1 : (s.loc b).lookup 1 = none) (main : Bool) :
    ((live2 true false).foldl (SCData5.dtorStep p (live2 true false) b)
      (if main = true then { s with lazyDropped := true } else s)).modTh b (fun h => { h with finished := true }) =
    reinitS { s with ths := s.ths.modify b fun h => { h with finished := true },
                     tlsDrops := (live2 true false).foldl C17.bump s.tlsDrops,
                     lazyDropped := (if main then true else s.lazyDropped) } b := by
  have hL1' : List.lookup 1 (s.locals[b]?.getD []) = none := by simpa [SCData5.loc] using hL1
  cases main
  · simp [live2, SCData5.dtorStep, SCData5.tlsGet, SCData5.loc, hd2, hL1', reinitS, SCData5.modTh, SCData5.modLoc,
      C17.bump]
  · simp [live2, SCData5.dtorStep, SCData5.tlsGet, SCData5.loc, hd2, hL1', reinitS, SCData5.modTh, SCData5.modLoc,
      C17.bump]

section
variable {w : World} {s : SCData5}

theorem enabled_end5 (hR : R5 w s) (hact : w.tid < w.ctl.length) (hnone : opAt w = none)
    (hfd : finD w.tid (w.ctlOf w.tid) = false) : SCData5.enabled w.prog s (w.ctlOf w.tid).body = true := by
  obtain ⟨_, _, hof⟩ := base5 hR hact
  obtain ⟨h1, h2⟩ := started_running5 hR hact hfd
  unfold SCData5.enabled SCData.enabled
  rw [SCData5.base_opOf, hof, hnone, SCData5.base_th, h1, h2]
  rfl

/-- the control table after `afterDrops` and the move of `fin` -/
theorem afterDrops_ctl (w : World) (k : Nat) :
    ((C17.afterDrops w).modCtl w.tid fun c => { c with fin := k }).ctl = w.ctl.modify w.tid (dropF k) := by
  show (w.ctl.modify w.tid _).modify w.tid _ = _
  rw [modify_modify']
  rfl

theorem sim_finish5 (hwf : WF5 w.prog) (hR : R5 w s) (hact : w.tid < w.ctl.length) (hnone : opAt w = none)
    (k : Nat)
    (hfd : finD w.tid (w.ctlOf w.tid) = false)
    (hfk : ∀ c : TCtl, c.fin = k → finD w.tid c = true)
    (h10 : 10 ≤ (w.ctlOf w.tid).fin → 10 ≤ k) (hk10 : k ≠ 10)
    (hmain : w.tid = 0 → (w.ctlOf 0).fin = 10) :
    Sim5 w s (w.dropLocals.modCtl w.tid fun c => { c with fin := k }) := by
  obtain ⟨hbl, hrel, hof⟩ := base5 hR hact
  obtain ⟨h1, h2, h3, h4, h5, h6, h7⟩ := hrel
  have htd : w.cfg.tlsDtor = 0 ∨ w.cfg.tlsDtor = 2 := hwf.2.2.2
  have hlive := h7.live hfd
  have hlk : C17.liveKeys w = ((s.loc (w.ctlOf w.tid).body).map (·.1)).reverse := by
    unfold C17.liveKeys
    rw [hlive]
    exact liveKeys_map _
  have hb0 : ((w.ctlOf w.tid).body == 0) = (w.tid == 0) := by
    have := hR.x.body_zero hact
    rw [Bool.eq_iff_iff, beq_iff_eq, beq_iff_eq]
    exact this
  -- the stage of the destruction proper
  have hkp1 : Keep w ((C17.afterDrops w).modCtl w.tid fun c => { c with fin := k }) := ⟨rfl, rfl, rfl, rfl, rfl⟩
  have hR1 := R5_drop_finish hR hact hnone hfd k hfk h10 hk10 hmain hkp1 (afterDrops_ctl w k) rfl rfl rfl
  generalize hkeys : (s.loc (w.ctlOf w.tid).body).map (·.1) = keys at hlk hR1
  have hcon : ∀ a, (C17.liveKeys w).contains a = keys.contains a := by
    intro a; rw [hlk, contains_reverse]
  have hl1 : ∀ a, ((w.ctlOf w.tid).locals.lookup a).isSome = keys.contains a := by
    intro a
    rw [hlive, lookup_map_some, Option.isSome_map, lookup_isSome_iff, hkeys]
  have hlive2 : SCData5.liveOf s (w.ctlOf w.tid).body = live2 (keys.contains 0) (keys.contains 1) := by
    unfold SCData5.liveOf
    rw [hkeys]
    exact filter_live2 keys
  -- membership of a state in the reference's `finish`
  have hstep : ∀ s' : SCData5,
      ((live2 (keys.contains 0) (keys.contains 1)).foldl
        (SCData5.dtorStep w.prog (live2 (keys.contains 0) (keys.contains 1)) (w.ctlOf w.tid).body)
        (if (w.tid == 0) = true then { s with lazyDropped := true } else s)).modTh (w.ctlOf w.tid).body
          (fun h => { h with finished := true }) = s' →
      (none, s') ∈ SCData5.stepL w.prog s (w.ctlOf w.tid).body := by
    intro s' hs'
    unfold SCData5.stepL
    rw [hof, hnone]
    refine List.mem_map.2 ⟨s', ?_, rfl⟩
    unfold SCData5.finish
    rw [hlive2]
    refine List.mem_map.2 ⟨live2 (keys.contains 0) (keys.contains 1), mem_perms2_self _, ?_⟩
    rw [hb0]
    exact hs'
  by_cases hA : w.cfg.tlsDtor = 0 ∨ (C17.liveKeys w).contains 0 = false
  · -- no destructor effect
    rw [dropLocals_plain' w htd hA]
    refine ⟨rfl, .inr ⟨none, _, enabled_end5 hR hact hnone hfd, hstep _ ?_, hR1, rfl⟩⟩
    rw [fold_dtor_aux _ _ _ _ _ htd (by
      intro e hc
      rcases hA with h | h
      · rw [show w.cfg.tlsDtor = w.prog.cfg.tlsDtor from rfl, e] at h; cases h
      · rw [hcon, hc] at h; cases h)]
    have hcond : ¬ (w.prog.cfg.tlsDtor = 2 ∧ keys.contains 0 = true) := by
      rintro ⟨e, hc⟩
      rcases hA with h | h
      · rw [show w.cfg.tlsDtor = w.prog.cfg.tlsDtor from rfl, e] at h; cases h
      · rw [hcon, hc] at h; cases h
    rw [if_neg hcond]
    show SCData5.modTh _ _ _ = dropS s (w.ctlOf w.tid).body keys (w.tid == 0)
    cases w.tid == 0 <;> rfl
  · have e2 : w.cfg.tlsDtor = 2 := by
      rcases htd with e | e
      · exact absurd (.inl e) hA
      · exact e
    have hc0 : (C17.liveKeys w).contains 0 = true := by
      cases hh : (C17.liveKeys w).contains 0 with
      | true => rfl
      | false => exact absurd (.inr hh) hA
    have hk0 : keys.contains 0 = true := by rw [← hcon]; exact hc0
    cases hq : (w.ctlOf w.tid).locals.lookup 1 with
    | some v =>
      -- the destructor of key 0 finds key 1 destroyed
      have hs1 : ((w.ctlOf w.tid).locals.lookup 1).isSome = true := by rw [hq]; rfl
      have hk1 : keys.contains 1 = true := by rw [← hl1]; exact hs1
      rw [dropLocals_obs2 w hact e2 hc0 hs1]
      have hR2 := R5_obs hR1 (fun O => O.set 0 (O.getD 0 0 ||| 2))
        (w2 := ({ C17.afterDrops w with tlsObs := w.tlsObs.set 0 (w.tlsObs.getD 0 0 ||| 2) } : World).modCtl w.tid
          fun c => { c with fin := k }) ⟨rfl, rfl, rfl, rfl, rfl⟩ rfl rfl rfl rfl
      refine ⟨rfl, .inr ⟨none, _, enabled_end5 hR hact hnone hfd, hstep _ ?_, hR2, rfl⟩⟩
      rw [fold_dtor_aux _ _ _ _ _ htd (fun _ _ => hk1), if_pos (And.intro (show w.prog.cfg.tlsDtor = 2 from e2) hk0)]
      show SCData5.modTh _ _ _ = { dropS s (w.ctlOf w.tid).body keys (w.tid == 0) with
        tlsObs := s.tlsObs.set 0 (s.tlsObs.getD 0 0 ||| 2) }
      cases w.tid == 0 <;> rfl
    | none =>
      -- the destructor of key 0 re-initialises key 1
      have hk1 : keys.contains 1 = false := by
        rw [← hl1, hq]; rfl
      have hL1 : (s.loc (w.ctlOf w.tid).body).lookup 1 = none := by
        have := hl1 1
        rw [hq, hlive] at *
        cases hh : (s.loc (w.ctlOf w.tid).body).lookup 1 with
        | none => rfl
        | some v =>
          have h' : (List.lookup 1 (s.loc (w.ctlOf w.tid).body)).isSome = keys.contains 1 := by
            rw [lookup_isSome_iff, hkeys]
          rw [hh, hk1] at h'
          cases h'
      rw [dropLocals_reinit w hact e2 hc0 hq]
      have hlA : ((C17.afterDrops w).ctlOf (C17.afterDrops w).tid).locals.lookup 1 = none := by
        show ((C17.afterDrops w).ctlOf w.tid).locals.lookup 1 = none
        rw [C17.afterDrops_locals w hact, C17.lookup_destroyed, hq]
        rfl
      rw [C17.tlsGet_fresh hlA]
      -- the world of the destruction proper
      have hc1 : ((C17.afterDrops w).modCtl w.tid fun c => { c with fin := k }).ctlOf w.tid =
          dropF k (w.ctlOf w.tid) := by
        show (((C17.afterDrops w).modCtl w.tid fun c => { c with fin := k }).ctl).getD w.tid {} = _
        rw [afterDrops_ctl, getD_modify_self _ _ _ _ hact]
        rfl
      have hact1 : ((C17.afterDrops w).modCtl w.tid fun c => { c with fin := k }).tid <
          ((C17.afterDrops w).modCtl w.tid fun c => { c with fin := k }).ctl.length := by
        rw [afterDrops_ctl]
        show w.tid < _
        simpa using hact
      have hR2 := R5_reinit hR1 hact1
        (by
          show (w.prog.threads.getD (((C17.afterDrops w).modCtl w.tid fun c => { c with fin := k }).ctlOf w.tid).body
            [])[(((C17.afterDrops w).modCtl w.tid fun c => { c with fin := k }).ctlOf w.tid).pc]? = none
          rw [hc1]; exact hnone)
        e2
        (by
          show finD w.tid (((C17.afterDrops w).modCtl w.tid fun c => { c with fin := k }).ctlOf w.tid) = true
          rw [hc1]; exact hfk _ rfl)
        (by
          show (((C17.afterDrops w).modCtl w.tid fun c => { c with fin := k }).ctlOf w.tid).locals.lookup 1 = none
          rw [hc1]
          show ((w.ctlOf w.tid).locals.map fun (k, _) => (k, (none : Option Nat))).lookup 1 = none
          rw [C17.lookup_destroyed, hq]; rfl)
        (w.tid * 10 + 1)
        (w2 := ({ (({ C17.afterDrops w with
              tlsInits := (C17.afterDrops w).tlsInits.set 1 ((C17.afterDrops w).tlsInits.getD 1 0 + 1) } : World).modCtl
                (C17.afterDrops w).tid fun c => { c with locals := (1, some ((C17.afterDrops w).tid * 10 + 1)) :: c.locals }) with
            tlsObs := w.tlsObs.set 0 (w.tlsObs.getD 0 0 ||| 1) } : World).modCtl w.tid fun c => { c with fin := k })
        ⟨rfl, rfl, rfl, rfl, rfl⟩
        (by
          show ((w.ctl.modify w.tid _).modify w.tid _).modify w.tid _ =
            ((w.ctl.modify w.tid _).modify w.tid _).modify w.tid _
          rw [modify_modify', modify_modify', modify_modify', modify_modify']
          rfl)
        rfl rfl rfl
      have hb1 : (((C17.afterDrops w).modCtl w.tid fun c => { c with fin := k }).ctlOf
          ((C17.afterDrops w).modCtl w.tid fun c => { c with fin := k }).tid).body = (w.ctlOf w.tid).body := by
        show (((C17.afterDrops w).modCtl w.tid fun c => { c with fin := k }).ctlOf w.tid).body = _
        rw [hc1]; rfl
      rw [hb1] at hR2
      refine ⟨rfl, .inr ⟨none, _, enabled_end5 hR hact hnone hfd, hstep _ ?_, hR2, rfl⟩⟩
      rw [hk0, hk1, finish_reinit w.prog s (w.ctlOf w.tid).body e2 hL1 (w.tid == 0)]
      unfold dropS
      rw [hk0, hk1]

/-- **a later `drop_locals` pass of a spawned thread** stutters -/
theorem sim_late5 (hwf : WF5 w.prog) (hR : R5 w s) (hact : w.tid < w.ctl.length) (hnone : opAt w = none)
    (ht0 : w.tid ≠ 0) (hfd : finD w.tid (w.ctlOf w.tid) = true) (k : Nat) (hk : k ≠ 0)
    (h10 : 10 ≤ (w.ctlOf w.tid).fin → 10 ≤ k) :
    Sim5 w s (w.dropLocals.modCtl w.tid fun c => { c with fin := k }) := by
  obtain ⟨hbl, hrel, hof⟩ := base5 hR hact
  have h7 := hrel.2.2.2.2.2.2
  have htd : w.cfg.tlsDtor = 0 ∨ w.cfg.tlsDtor = 2 := hwf.2.2.2
  have hc0 : (C17.liveKeys w).contains 0 = false := by
    cases hh : (C17.liveKeys w).contains 0 with
    | false => rfl
    | true =>
      have hm : 0 ∈ C17.liveKeys w := by simpa using hh
      obtain ⟨iid, hmem⟩ := (C17.mem_liveKeys w 0).1 hm
      rcases h7.dead hfd _ hmem with e | ⟨_, e⟩
      · cases e
      · cases e
  rw [dropLocals_plain' w htd (.inr hc0)]
  refine ⟨rfl, .inl ⟨?_, rfl⟩⟩
  exact R5_late hR hact hnone ht0 hfd k hk h10 ⟨rfl, rfl, rfl, rfl, rfl⟩ (afterDrops_ctl w k) rfl rfl rfl

end

end Refine5
end LoomVerif

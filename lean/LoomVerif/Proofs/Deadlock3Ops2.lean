/-
Deadlock soundness, FUTURES fragment, part 9: the stages of `blockOn f mode` that start a call (0), poll the flag
(10, 11, 14, 15), wait (the first half of `Notify::wait` at the end of stage 15 and of stage 51; the second half:
16, 53), and the stages of the self-waking future (50, 51, 52, 53).
-/
import LoomVerif.Proofs.Deadlock3Ops1

set_option linter.unusedSimpArgs false
set_option linter.unusedVariables false

namespace LoomVerif
namespace Deadlock3
open Refine Refine4 Deadlock Deadlock2

section
variable {w w1 w2 : World} {s : SC.St} {G : TCtl → TCtl} {H : Option Nat} {K : List Nat} {Fu : List FutSt}

/-- the `Arc` bookkeeping is not read by the invariant -/
theorem Mid.arcs (m : Mid w w1 G H K Fu) (a : List ArcInfo) : Mid w { w1 with arcs := a } G H K Fu :=
  ⟨m.prog, m.spawned, m.ctl, m.futs, m.tid, m.pan, m.act, m.len, m.g, m.oth, m.run, m.locks, m.mine, m.mkind,
    m.nmono, m.nkind, m.avail, m.path⟩

/-- after `notify` the flag is raised -/
theorem notifyEffect_notified {o : Nat} (h : w1.notifyEffect o = .ok w2) :
    ∃ sp ds, (ovW w2)[o]? = some (.notify sp true ds) := by
  obtain ⟨sp, nt, ds, u, hv0⟩ := notifyEffect_upd h
  obtain ⟨v0, hv, hov⟩ := u.ov
  exact ⟨sp, ds, by rw [hov, get_set_self _ hv]⟩

/-! ### stage 0: a new call -/

theorem st_bo0 (c : Ctx w s) {f mode : Nat} (hop : opAt w = some (.blockOn f mode))
    (hst : (w.ctlOf w.tid).stage = 0) : Out w s w.stepActive := by
  rw [Refine4.stepActive_op hop]
  show Out w s (w.blockOnStage (w.ctlOf w.tid) f mode)
  rw [C20.blockOn_stage0 w _ f mode hst]
  have m0 := Mid.start' c (H := none) (by rw [holdsAt_of hop, hst]; rfl)
  have m1 := m0.push (.notify { seqCst := false, spurious := true }) (by intro l h; cases h)
  have m2 := m1.push (.arc {}) (by intro l h; cases h)
  have m4 : ∃ g : FutSt → FutSt, Mid w (C20.setUp w f) id none [] (w.futs.modify f g) := by
    unfold C20.setUp
    exact ⟨_, (m2.arcs _).modFut f _⟩
  obtain ⟨g, m4⟩ := m4
  refine out_ok c (m4.setStage _) ⟨rfl, Nat.le_refl _, fun _ h => (by cases h), ?_, fun _ _ _ h => .inl h,
    fun n hn => (by cases hn), fun n hn => (by cases hn)⟩
  intro i hi hne f' hw
  by_cases e : f' = f
  · subst e
    exfalso
    obtain ⟨m', hop', _⟩ := wpos_call hw
    have hb := c.wf.1.blockOn_body hop' hop
    exact hne (c.r.x.inj i w.tid hi c.act hb)
  · rw [getD_modify_ne _ _ _ _ _ e]

/-! ### the polls: 10, 11, 14, 15 -/

theorem st_bo10 (c : Ctx w s) {f mode : Nat} (hop : opAt w = some (.blockOn f mode))
    (hst : (w.ctlOf w.tid).stage = 10) : Out w s w.stepActive := by
  rw [Refine4.stepActive_op hop]
  have e : w.runOp (w.ctlOf w.tid) (.blockOn f mode) = w.primStart f (World.pollPrim mode) 11 := by
    simp only [World.runOp, World.blockOnStage, hst]
  rw [e]
  have m0 := Mid.start' c (H := none) (by rw [holdsAt_of hop, hst]; rfl)
  refine out_primStart c m0 _ _ _ ?_ (wpos_stage (op := .blockOn f mode) hop rfl)
  exact Pos.simple rfl (Nat.le_refl _) rfl (fun _ h => by cases h) (fun _ => rfl)

theorem st_bo14 (c : Ctx w s) {f mode : Nat} (hop : opAt w = some (.blockOn f mode))
    (hst : (w.ctlOf w.tid).stage = 14) : Out w s w.stepActive := by
  rw [Refine4.stepActive_op hop]
  have e : w.runOp (w.ctlOf w.tid) (.blockOn f mode) = w.primStart f (World.pollPrim mode) 15 := by
    simp only [World.runOp, World.blockOnStage, hst]
  rw [e]
  have m0 := Mid.start' c (H := none) (by rw [holdsAt_of hop, hst]; rfl)
  refine out_primStart c m0 _ _ _ ?_ (wpos_stage (op := .blockOn f mode) hop rfl)
  exact Pos.simple rfl (Nat.le_refl _) rfl (fun _ h => by cases h) (fun _ => rfl)

theorem st_bo11 (c : Ctx w s) {f mode : Nat} (hop : opAt w = some (.blockOn f mode))
    (hst : (w.ctlOf w.tid).stage = 11) : Out w s w.stepActive := by
  rw [Refine4.stepActive_op hop]
  show Out w s (w.blockOnStage (w.ctlOf w.tid) f mode)
  rw [C20.blockOn_stage11 w _ f mode hst]
  have m0 := Mid.start' c (H := none) (by rw [holdsAt_of hop, hst]; rfl)
  refine out_bind (primEffect_noDL _ _ _) ?_
  rintro ⟨w1, r⟩ h1
  have m1 := m0.prim h1
  dsimp only
  split
  · refine out_branch c (m1.setStage 40) ?_ _ _ (wpos_stage (op := .blockOn f mode) hop rfl)
    exact Pos.simple rfl (Nat.le_refl _) rfl (fun _ h => by cases h) (fun _ => rfl)
  · refine out_branch c (m1.setStage _) ?_ _ _ ?_
    · exact Pos.simple rfl (Nat.le_refl _) rfl (fun _ h => by cases h) (fun _ => rfl)
    · refine wpos_stage (op := .blockOn f mode) hop ?_
      show wposT (.blockOn f mode) (if World.slotMode mode then 12 else 20) = none
      split <;> rfl

theorem st_bo15 (c : Ctx w s) {f mode : Nat} (hop : opAt w = some (.blockOn f mode))
    (hst : (w.ctlOf w.tid).stage = 15) : Out w s w.stepActive := by
  rw [Refine4.stepActive_op hop]
  show Out w s (w.blockOnStage (w.ctlOf w.tid) f mode)
  rw [C20.blockOn_stage15 w _ f mode hst]
  have m0 := Mid.start' c (H := none) (by rw [holdsAt_of hop, hst]; rfl)
  have hsok := stage_ok c.r c.act hop
  rw [hst] at hsok
  have h5 : mode ≠ 5 := by simpa [boStageOk] using hsok
  have hmc := mode_cases c.wf.1 hop h5
  have h2' : mode ≠ 2 := by rcases hmc with e | e | e | e <;> omega
  have e2 : (mode == 2) = false := by simpa using h2'
  have htgt : World.pollTarget mode = .val 1 := by simp only [World.pollTarget, e2, Bool.false_eq_true, if_false]
  refine out_bind (primEffect_noDL _ _ _) ?_
  rintro ⟨w1, r⟩ h1
  have m1 := m0.prim h1
  have hr := poll_read c.wf.1 c.r hop (.inr hst) c.ok h1
  dsimp only
  split
  · refine out_branch c (m1.setStage 40) ?_ _ _ (wpos_stage (op := .blockOn f mode) hop rfl)
    exact Pos.simple rfl (Nat.le_refl _) rfl (fun _ h => by cases h) (fun _ => rfl)
  · next hnr =>
    split
    · refine out_branch c (m1.setStage 41) ?_ _ _ (wpos_stage (op := .blockOn f mode) hop rfl)
      exact Pos.simple rfl (Nat.le_refl _) rfl (fun _ h => by cases h) (fun _ => rfl)
    · next hn4 =>
      have h4 : mode ≠ 4 := by simpa using hn4
      have hat : (data4 s).atom f ≠ 1 := by
        intro e
        apply hnr
        rw [hr, htgt, e]; rfl
      have htid1 : w1.tid = w.tid := m1.tid
      refine out_wait1 c m1 (fun st => if st == 1 then 16 else 10)
        (fun _ _ => Pos.simple rfl (Nat.le_refl _) rfl (fun _ h => by cases h) (fun _ => rfl))
        (fun bl => opAt4_call (op := .blockOn f mode) hop rfl rfl)
        (wpos_stage (op := .blockOn f mode) hop rfl)
        (fun w2 m2 _ hun hstuck => dead_call c m2 hop hst h4 hat hun hstuck) _ (fun _ _ => rfl)

/-! ### the second half of the wait: 16, 53 -/

/-- the `Notify` of a call is not the `Notify` of a join handle -/
theorem call_not_handle (c : Ctx w s) {f mode : Nat} (hop : opAt w = some (.blockOn f mode))
    (hst : (w.ctlOf w.tid).stage = 16 ∨ (w.ctlOf w.tid).stage = 53) {b i : Nat}
    (hmem : (b, i, (w.futs.getD f {}).notify) ∈ w.spawned) : False := by
  obtain ⟨_, nt, ds, hv, _⟩ := c.r.no_lost_wakeup c.wf.1 w.tid c.act hop hst
  obtain ⟨_, _, nt', ds', hv', _⟩ := c.r.sp.sp b i _ hmem
  rw [hv] at hv'
  cases hv'

theorem out_consume (c : Ctx w s) {f mode : Nat} (hop : opAt w = some (.blockOn f mode))
    (hst : (w.ctlOf w.tid).stage = 16 ∨ (w.ctlOf w.tid).stage = 53) (n : Nat) :
    Out w s (do let w1 ← w.notifyWait2 (w.futs.getD f {}).notify; pure (w1.setStage n)) := by
  have m0 := Mid.start' c (H := none) (by
    rw [holdsAt_of hop]; rcases hst with e | e <;> rw [e] <;> rfl)
  refine out_bind (notifyWait2_noDL _ _) fun w1 h1 => ?_
  have m1 := m0.consume h1
  refine out_pure c (m1.setStage n) ⟨rfl, Nat.le_refl _, fun _ h => (by cases h), fun _ _ _ _ _ => rfl,
    fun _ _ _ h => .inl h, ?_, ?_⟩
  · intro n' hn b i hmem
    simp only [List.mem_singleton] at hn
    subst hn
    exact (call_not_handle c hop hst hmem).elim
  · -- no other thread waits on the `Notify` of this call
    intro n' hn i hi hne hw op hopi e
    simp only [List.mem_singleton] at hn
    subst hn
    have hO := (c.j.thr i hi).opn hne
    rw [hopi] at hO
    unfold OpAt4 at hO
    cases hx : wpos w.prog (w.ctlOf i) with
    | none => rw [hx] at hw; cases hw
    | some x =>
      rw [hx] at hO hw
      cases x with
      | join b =>
        obtain ⟨t, n2, bl, hmem, e'⟩ := hO
        cases e'
        exact call_not_handle c hop hst (by rw [← e]; exact hmem)
      | call f' =>
        obtain ⟨bl, e'⟩ := hO
        cases e'
        obtain ⟨md, hopc, hst'⟩ := wpos_call hx
        -- two calls in progress with the same `Notify`: the same future, hence the same thread
        have hca : ∃ b1, caOf w.prog w.ctl i = some (f', md, b1) := by
          show ∃ b1, callOf w.prog (w.ctlOf i) = some (f', md, b1)
          unfold callOf
          rw [hopc]
          rcases hst' with e1 | e1 <;> rw [e1] <;> exact ⟨_, rfl⟩
        have hca0 : ∃ b1, caOf w.prog w.ctl w.tid = some (f, mode, b1) := by
          show ∃ b1, callOf w.prog (w.ctlOf w.tid) = some (f, mode, b1)
          unfold callOf
          have hopc0 : opOfCtl w.prog (w.ctlOf w.tid) = some (.blockOn f mode) := hop
          rw [hopc0]
          rcases hst with e1 | e1 <;> rw [e1] <;> exact ⟨_, rfl⟩
        obtain ⟨b1, hca⟩ := hca
        obtain ⟨b0, hca0⟩ := hca0
        have hff := c.r.f.c.callInj i w.tid f' f md mode b1 b0 hi c.act hca hca0 e
        subst hff
        have hb := c.wf.1.blockOn_body hopc (show opOfCtl w.prog (w.ctlOf w.tid) = _ from hop)
        exact hne (c.r.x.inj i w.tid hi c.act hb)
      | slotM f' => cases hw
      | awM f' => cases hw

theorem st_bo16 (c : Ctx w s) {f mode : Nat} (hop : opAt w = some (.blockOn f mode))
    (hst : (w.ctlOf w.tid).stage = 16) : Out w s w.stepActive := by
  rw [Refine4.stepActive_op hop]
  show Out w s (w.blockOnStage (w.ctlOf w.tid) f mode)
  rw [C20.blockOn_stage16 w _ f mode hst]
  exact out_consume c hop (.inl hst) 10

theorem st_bo53 (c : Ctx w s) {f mode : Nat} (hop : opAt w = some (.blockOn f mode))
    (hst : (w.ctlOf w.tid).stage = 53) : Out w s w.stepActive := by
  rw [Refine4.stepActive_op hop]
  show Out w s (w.blockOnStage (w.ctlOf w.tid) f mode)
  rw [C20.blockOn_stage53 w _ f mode hst]
  exact out_consume c hop (.inr hst) 52

/-! ### the self-waking future: 50, 51, 52 -/

theorem st_bo50 (c : Ctx w s) {f mode : Nat} (hop : opAt w = some (.blockOn f mode))
    (hst : (w.ctlOf w.tid).stage = 50) : Out w s w.stepActive := by
  rw [Refine4.stepActive_op hop]
  show Out w s (w.blockOnStage (w.ctlOf w.tid) f mode)
  rw [C20.blockOn_stage50 w _ f mode hst]
  have m0 := Mid.start' c (H := none) (by rw [holdsAt_of hop, hst]; rfl)
  refine out_branch c (m0.setStage 51) ?_ _ _ (wpos_stage (op := .blockOn f mode) hop rfl)
  exact Pos.simple rfl (Nat.le_refl _) rfl (fun _ h => by cases h) (fun _ => rfl)

theorem st_bo52 (c : Ctx w s) {f mode : Nat} (hop : opAt w = some (.blockOn f mode))
    (hst : (w.ctlOf w.tid).stage = 52) : Out w s w.stepActive := by
  rw [Refine4.stepActive_op hop]
  show Out w s (w.blockOnStage (w.ctlOf w.tid) f mode)
  rw [C20.blockOn_stage52 w _ f mode hst]
  have m0 := Mid.start' c (H := none) (by rw [holdsAt_of hop, hst]; rfl)
  refine out_branch c (m0.setStage 40) ?_ _ _ (wpos_stage (op := .blockOn f mode) hop rfl)
  exact Pos.simple rfl (Nat.le_refl _) rfl (fun _ h => by cases h) (fun _ => rfl)

theorem st_bo51 (c : Ctx w s) {f mode : Nat} (hop : opAt w = some (.blockOn f mode))
    (hst : (w.ctlOf w.tid).stage = 51) : Out w s w.stepActive := by
  rw [Refine4.stepActive_op hop]
  show Out w s (w.blockOnStage (w.ctlOf w.tid) f mode)
  rw [C20.blockOn_stage51 w _ f mode hst]
  have m0 := Mid.start' c (H := none) (by rw [holdsAt_of hop, hst]; rfl)
  refine out_bind (notifyEffect_noDL _ _) fun w1 h1 => ?_
  have m1 := m0.notify h1
  obtain ⟨sp, ds, hnt⟩ := notifyEffect_notified h1
  refine out_wait1 c m1 (fun st => if st == 1 then 53 else 52)
    (fun _ _ => Pos.simple rfl (Nat.le_refl _) rfl (fun _ h => by cases h) (fun _ => rfl))
    (fun bl => opAt4_call (op := .blockOn f mode) hop rfl rfl)
    (wpos_stage (op := .blockOn f mode) hop rfl)
    ?_ _ (fun _ _ => rfl)
  -- the wait never blocks: the flag has just been raised
  intro w2 m2 hov hun _
  exfalso
  rw [hov] at hun
  rcases hun with ⟨l, hl⟩ | ⟨sp', ds', hn⟩
  · rw [hnt] at hl; cases hl
  · rw [hnt] at hn; cases hn

end

end Deadlock3
end LoomVerif

/-
Race exactness on the WAIT fragment, part 12: the channel operations `send` (a release into the channel slot and a
new message clock), `recv` / `tryRecv` (the acquisition of the clock of the message taken).
-/
import LoomVerif.Proofs.Race2Rel
import LoomVerif.Proofs.C09Chan

namespace LoomVerif
namespace Race2
open Refine Refine2 Sy C07 C08 Clocks Race

/-! ### helpers -/

theorem chanObj_inj (w : World) {q q' : Nat} (h : w.chanObj q = w.chanObj q') : q = q' := by
  unfold World.chanObj at h; omega

theorem map_eq_cons_inv {α β : Type} {f : α → β} {l : List α} {a : β} {t : List β} (h : l.map f = a :: t) :
    ∃ x l', l = x :: l' ∧ f x = a ∧ l'.map f = t := by
  cases l with
  | nil => cases h
  | cons x l' =>
    simp only [List.map_cons, List.cons.injEq] at h
    exact ⟨x, l', rfl, h.1, h.2⟩

theorem All2.cons_left {α β : Type} {r : α → β → Prop} {a : α} {l1 : List α} {l2 : List β}
    (h : All2 r (a :: l1) l2) : ∃ b l2', l2 = b :: l2' ∧ r a b ∧ All2 r l1 l2' := by
  cases h with
  | cons hab htl => exact ⟨_, _, rfl, hab, htl⟩

theorem All2.nil_left {α β : Type} {r : α → β → Prop} {l2 : List β} (h : All2 r [] l2) : l2 = [] := by
  cases h; rfl

/-- `forOthers` with a function that keeps `key5` -/
theorem key5_forOthers (w : World) (p : Operation → Bool) (f : Thread → Thread) (hf : ∀ t, key5 (f t) = key5 t)
    (i : Nat) : key5 ((w.forOthers p f).ths.get i) = key5 (w.ths.get i) := by
  rw [WB.forOthers_get]
  split
  · rfl
  · split
    · split
      · exact hf _
      · rfl
    · rfl

/-- the thread entries after the acquisition of `sy` by the active thread -/
theorem load_get (w : World) (o : Nat) (x : Obj) (sy : Sync) (i : Nat) (ht : w.tid < nthr w) :
    ((w.setObj o x).setThs ((w.setObj o x).ths.syncLoad sy .acq)).ths.get i =
      if i = w.tid then { w.ths.get i with causality := (w.ths.get i).causality.join sy.hb } else w.ths.get i := by
  show (w.ths.syncLoad sy .acq).get i = _
  unfold Threads.syncLoad Threads.setCaus Threads.modifyActive
  rw [WB.get_modify]
  by_cases e : i = w.tid
  · subst e
    have hcnd : w.ths.activeId = w.tid ∧ w.tid < w.ths.threads.length := ⟨rfl, ht⟩
    rw [if_pos hcnd, if_pos rfl]
    rfl
  · have hcnd : ¬ (w.ths.activeId = i ∧ i < w.ths.threads.length) := fun hh => e hh.1.symm
    rw [if_neg hcnd, if_neg e]

section
variable {w w' : World} {s : SC.St}

/-! ### `send` -/

/-- the completing stage of `send`, for a world `w1` whose channel object is the one `sendEffect` stores and whose
thread entries keep `key5` -/
theorem send_core (hRC : RC2 w s) (hact : w.tid < w.ctl.length) {qi : Nat} {v : Int}
    (hop : opAt2 w = some (.send qi v)) (hq : qi < w.prog.cfg.nChans) {cs : ChanSt}
    (hobj : w.exec.objs[w.chanObj qi]? = some (.chan cs)) (w1 : World)
    (hc1 : w1.ctl = w.ctl) (hp1 : w1.prog = w.prog) (hs1 : w1.spawned = w.spawned) (ht1 : w1.tid = w.tid)
    (he1 : w1.events = w.events) (hn : nthr w1 = nthr w)
    (hobjs : w1.exec.objs = w.exec.objs.set (w.chanObj qi)
      (.chan (C09.chanSend cs w.ths.activeT.released w.ths.caus v)))
    (hk : ∀ i, key5 (w1.ths.get i) = key5 (w.ths.get i)) :
    RealOut2 w s (w1.complete .unit) := by
  obtain ⟨σT, σR, mT, mR, hc⟩ := hRC.clk
  have ht := nthr_tid2 hRC hact
  have hC : pendCv w.prog (w.ctlOf w.tid) = none := pendCv_of_op hop (by simp)
  have hcv : (s.th (body w w.tid)).cvNotified = none := (frag_cv hRC hact hC).2
  have ho : SC.opOf w.prog s (body w w.tid) = some (.send qi v) := (opOf_eq2 hRC.r hact).trans hop
  have hbt := body_lt_ths2 hRC.r hact
  have hpc : pendClk w σT w.tid = VV.zero :=
    pendClk_of_op (by rw [opAtI_tid2]; exact hop) (by intro n; simp) (by simp) (by intro b; simp)
  have hlt : w.chanObj qi < w.exec.objs.length := (List.getElem?_eq_some_iff.1 hobj).1
  have hsameT := fun i => sameThr_of_key5 (hk i)
  have hsameO : ∀ n, n ≠ w.chanObj qi → SameObj w.exec.objs w1.exec.objs n := by
    intro n hn'; rw [hobjs]; exact SameObj.set_ne _ _ hn'
  have hr : w.ths.activeT.released = VV.zero := hRC.inv.rel w.tid ht
  -- the new slot value is the new `senderSync`
  have hst : (σT.rel w.tid (cI w.prog qi)).mtx (cI w.prog qi) =
      (cs.senderSync.store w.ths.activeT.released w.ths.caus .rel).hb := by
    show upd σT.mtx (cI w.prog qi) _ (cI w.prog qi) = _
    rw [upd_self, WB.store_rel_hb, hr, join_zero, hc.lt.chn qi hq, objSs_of hobj, eq_caus2 hc.lt ht hpc]
    rfl
  have hshape : chanShape w1.exec.objs (w.chanObj qi) := by
    obtain ⟨cs0, h1, h2⟩ := hRC.inv2.rsl qi hq
    rw [hobj] at h1
    cases h1
    refine ⟨C09.chanSend cs w.ths.activeT.released w.ths.caus v, by rw [hobjs]; simp [hlt], ?_⟩
    simp [C09.chanSend, h2]
  have hI := complete_core2 (w' := w1.complete .unit) hRC hact hop hc.lt
    (σT' := σT.rel w.tid (cI w.prog qi))
    (mT' := upd mT qi (mT qi ++ [(σT.rel w.tid (cI w.prog qi)).mtx (cI w.prog qi)]))
    w1 .unit rfl hc1 hp1 hs1 ht1 hn
    (by rw [hobjs]; simp)
    (fun i _ => hsameT i)
    (hsameT w.tid).1.rel (hsameT w.tid).2 (hsameT w.tid).1.uc (hsameT w.tid).1.tok
    (by rw [(hsameT w.tid).1.caus]; exact le_refl _)
    (fun _ _ => rfl)
    (by
      show σT.thr w.tid = _
      rw [eq_caus2 hc.lt ht hpc, (hsameT w.tid).1.caus])
    (by
      intro m
      show (σT.mtx m).le (upd σT.mtx (cI w.prog qi) _ m)
      by_cases e : m = cI w.prog qi
      · subst e; rw [upd_self]; exact le_join_left _ _
      · rw [upd_ne _ _ e]; exact le_refl _)
    (by
      intro b
      show upd σT.mtx (cI w.prog qi) _ (kI w.prog b) = _
      rw [upd_ne _ _ (Ne.symm (cI_ne_kI w.prog hq b))])
    (by intro n hn'; rw [pend_none_of_op2 hop (by intro b; simp)] at hn'; cases hn')
    (fun b j n hm => (hsameO n (sp_ne_chan2 hRC.r hm hq)).hb)
    (by
      intro m hm
      left
      refine ⟨hsameO _ (Ne.symm (mtx_ne_chan hRC.r hm hq)), ?_⟩
      show upd σT.mtx (cI w.prog qi) _ m = _
      rw [upd_ne _ _ (m_ne_cI w.prog hm qi)])
    (by
      intro n hn'
      left
      refine ⟨hsameO _ (Ne.symm (ntf_ne_chan hRC.r hn' hq)), ?_⟩
      show upd σT.mtx (cI w.prog qi) _ (nI w.prog n) = _
      rw [upd_ne _ _ (nI_ne_cI w.prog hn' qi)])
    (by
      intro q hq'
      by_cases e : q = qi
      · subst e
        right
        refine ⟨?_, ?_, hshape⟩
        · rw [hst, hobjs, objSs_set_self _ _ hlt]; rfl
        · rw [upd_self, hst, hobjs, objRs_set_self _ _ hlt, hc.lt.msg q hq, objRs_of hobj]
          show _ = (cs.receiverSync ++ [cs.senderSync.store w.ths.activeT.released w.ths.caus .rel]).map (·.hb)
          rw [List.map_append]
          rfl
      · left
        refine ⟨hsameO _ (fun hh => e (chanObj_inj w hh)), ?_, upd_ne _ _ e⟩
        show upd σT.mtx (cI w.prog qi) _ (cI w.prog q) = _
        rw [upd_ne _ _ (fun hh => e (cI_inj w.prog hh))])
    (fun c hc' => .inl ⟨hsameO _ (Ne.symm (cell_ne_chan w hc' qi)), fun _ => rfl⟩)
  have hX1 := hc.x.tickR hc.gt hc.gr (inj_body2 hRC.r) w.tid hact
  have hGT' : Good (σT.rel w.tid (cI w.prog qi)) := hc.gt.rel _ _
  have hGR' : Good ((σR.tick (body w w.tid)).rel (body w w.tid) (cI w.prog qi)) := (hc.gr.tick _).rel _ _
  have hX' := hX1.rel w.tid hact (cI w.prog qi)
  refine realOut_complete hRC hact hop (by intro n; simp) w1 .unit hp1 he1 (step_send hcv ho (hRC.nd qi)) ?_
  refine newSt_complete hact w1 .unit ht1 hc1 hRC.fs.1 hRC.nd ⟨hI.1, hI.2.1⟩ hI.2.2
    (((hc.lr.tick hbt).send hq v).ret _ _) hGT' hGR' hX' ?_ ?_ ?_
  · intro q hq'
    by_cases e : q = qi
    · subst e
      rw [upd_self, upd_self]
      exact ((hc.mx q hq).imp fun _ _ hh => hh.ev rfl rfl).append (.cons (SideX.slot hX' _) .nil)
    · rw [upd_ne _ _ e, upd_ne _ _ e]
      exact (hc.mx q hq').imp fun _ _ hh => hh.ev rfl rfl
  · intro q Z hq' hZ
    by_cases e : q = qi
    · subst e
      rw [upd_self] at hZ
      rcases List.mem_append.1 hZ with h1 | h1
      · exact (hc.mgt q Z hq h1).rel _ _
      · rw [List.mem_singleton.1 h1]; exact SideGood.slot hGT' _
    · rw [upd_ne _ _ e] at hZ
      exact (hc.mgt q Z hq' hZ).rel _ _
  · intro q Z hq' hZ
    by_cases e : q = qi
    · subst e
      rw [upd_self] at hZ
      rcases List.mem_append.1 hZ with h1 | h1
      · exact ((hc.mgr q Z hq h1).tick _).rel _ _
      · rw [List.mem_singleton.1 h1]; exact SideGood.slot hGR' _
    · rw [upd_ne _ _ e] at hZ
      exact ((hc.mgr q Z hq' hZ).tick _).rel _ _

theorem clk_send2 (hRC : RC2 w s) (hact : w.tid < w.ctl.length) {qi : Nat} {v : Int}
    (hop : opAt2 w = some (.send qi v)) (hq : qi < w.prog.cfg.nChans)
    (h : w.runOp (w.ctlOf w.tid) (.send qi v) = .ok w') : QuietOut2 w s w' ∨ RealOut2 w s w' := by
  obtain ⟨cs, hobj⟩ := chan_obj2 hRC.r hq
  by_cases hs0 : (w.ctlOf w.tid).stage = 0
  · left
    rw [C09.runOp_send_stage0 w _ qi v hs0] at h
    exact quiet_branch2 hRC hact hop (by intro b; simp) (by intro i r n; simp) (by intro v m; simp)
      (by rw [hs0]; decide) 1 h (chan_lt2 hRC.r hq) (fun b j n hm e => sp_ne_chan2 hRC.r hm hq e.symm)
  · right
    rw [C09.runOp_send_stage1 w _ qi v hs0] at h
    obtain ⟨w1, hse, h⟩ := bind_ok h
    simp only [pure, Except.pure] at h
    cases h
    rw [C09.sendEffect_eq w _ v cs (getChan_of hobj)] at hse
    by_cases h0 : cs.msgCnt = 0
    · rw [if_pos h0] at hse
      cases hse
      refine send_core hRC hact hop hq hobj _ ?_ ?_ ?_ ?_ ?_ ?_ ?_ ?_
      iterate 5 rfl
      · show ((w.setObj _ _).forOthers _ _).ths.threads.length = _
        rw [WB.length_forOthers]; rfl
      · rfl
      · intro i
        rw [key5_forOthers _ _ _ key5_wake]; rfl
    · rw [if_neg h0] at hse
      cases hse
      refine send_core hRC hact hop hq hobj _ ?_ ?_ ?_ ?_ ?_ ?_ ?_ ?_
      iterate 7 rfl
      exact fun _ => rfl

/-! ### `recv`, `tryRecv` -/

/-- the completing stage of `recv` / `tryRecv`, for a world `w1` whose channel object has lost its first message and
in which the active thread has acquired that message's clock, the other threads keeping `key5` -/
theorem take_core (hRC : RC2 w s) (hact : w.tid < w.ctl.length) {op : Op} {qi : Nat}
    (hop : opAt2 w = some op) (hopr : op = .recv qi ∨ op = .tryRecv qi) (hq : qi < w.prog.cfg.nChans)
    {cs : ChanSt} (hobj : w.exec.objs[w.chanObj qi]? = some (.chan cs)) {sy : Sync} {rest : List Sync}
    {vq : Int} {qr : List Int} (hrs : cs.receiverSync = sy :: rest) (hqu : cs.queue = vq :: qr)
    (w1 : World) (hc1 : w1.ctl = w.ctl) (hp1 : w1.prog = w.prog) (hs1 : w1.spawned = w.spawned)
    (ht1 : w1.tid = w.tid) (he1 : w1.events = w.events) (hn : nthr w1 = nthr w)
    (hobjs : w1.exec.objs = w.exec.objs.set (w.chanObj qi)
      (.chan { cs with msgCnt := cs.msgCnt - 1, receiverSync := rest, queue := qr }))
    (hk : ∀ i, i ≠ w.tid → key5 (w1.ths.get i) = key5 (w.ths.get i))
    (hself : w1.ths.get w.tid =
      { w.ths.get w.tid with causality := (w.ths.get w.tid).causality.join sy.hb }) (r : Ret) :
    RealOut2 w s (w1.complete r) := by
  obtain ⟨σT, σR, mT, mR, hc⟩ := hRC.clk
  have ht := nthr_tid2 hRC hact
  have hn1 : ∀ n, op ≠ .nWait n := by rcases hopr with rfl | rfl <;> (intro n; simp)
  have hn2 : op ≠ .park := by rcases hopr with rfl | rfl <;> simp
  have hn3 : ∀ b, op ≠ .join b := by rcases hopr with rfl | rfl <;> (intro n; simp)
  have hn4 : ∀ v m, op ≠ .cvWait v m := by rcases hopr with rfl | rfl <;> (intro v m; simp)
  have hC : pendCv w.prog (w.ctlOf w.tid) = none := pendCv_of_op hop hn4
  have hcv : (s.th (body w w.tid)).cvNotified = none := (frag_cv hRC hact hC).2
  have ho : SC.opOf w.prog s (body w w.tid) = some op := (opOf_eq2 hRC.r hact).trans hop
  have hbt := body_lt_ths2 hRC.r hact
  have hpc : pendClk w σT w.tid = VV.zero := pendClk_of_op (by rw [opAtI_tid2]; exact hop) hn1 hn2 hn3
  have hlt : w.chanObj qi < w.exec.objs.length := (List.getElem?_eq_some_iff.1 hobj).1
  have hsameT := fun i (hi : i ≠ w.tid) => sameThr_of_key5 (hk i hi)
  have hsameO : ∀ n, n ≠ w.chanObj qi → SameObj w.exec.objs w1.exec.objs n := by
    intro n hn'; rw [hobjs]; exact SameObj.set_ne _ _ hn'
  -- the message clocks
  have hmT : mT qi = sy.hb :: rest.map (·.hb) := by
    rw [hc.lt.msg qi hq, objRs_of hobj]
    show cs.receiverSync.map (·.hb) = _
    rw [hrs]; rfl
  have hall := hc.mx qi hq
  rw [hmT] at hall
  obtain ⟨ZR, restR, hmR, hSX, htl⟩ := hall.cons_left
  have hmsg := hc.lr.msg qi hq
  rw [hmR] at hmsg
  obtain ⟨⟨v', c⟩, rest', hch, hc2, hrest'⟩ := map_eq_cons_inv hmsg.symm
  have hc2' : c = ZR := hc2
  subst hc2'
  have hmemT : sy.hb ∈ mT qi := by rw [hmT]; exact List.mem_cons_self
  have hmemR : c ∈ mR qi := by rw [hmR]; exact List.mem_cons_self
  have hsgT := hc.mgt qi _ hq hmemT
  have hsgR := (hc.mgr qi _ hq hmemR).tick (body w w.tid)
  have hshape : chanShape w1.exec.objs (w.chanObj qi) := by
    obtain ⟨cs0, h1, h2⟩ := hRC.inv2.rsl qi hq
    rw [hobj] at h1
    cases h1
    refine ⟨{ cs with msgCnt := cs.msgCnt - 1, receiverSync := rest, queue := qr }, by rw [hobjs]; simp [hlt], ?_⟩
    rw [hrs, hqu] at h2
    simpa using h2
  have hI := complete_core2 (w' := w1.complete r) hRC hact hop hc.lt
    (σT' := σT.acq w.tid sy.hb) (mT' := upd mT qi (rest.map (·.hb)))
    w1 r rfl hc1 hp1 hs1 ht1 hn
    (by rw [hobjs]; simp)
    (fun i hi => hsameT i hi)
    (by unfold trel; rw [hself])
    (by unfold topo; rw [hself])
    (by unfold tuc; rw [hself])
    (by unfold ttok; rw [hself])
    (by unfold tcaus; rw [hself]; exact le_join_left _ _)
    (by
      intro i hi
      show upd σT.thr w.tid _ i = _
      rw [upd_ne _ _ hi])
    (by
      show upd σT.thr w.tid _ w.tid = _
      rw [upd_self, eq_caus2 hc.lt ht hpc]
      unfold tcaus; rw [hself])
    (fun _ => le_refl _) (fun _ => rfl)
    (by intro n hn'; rw [pend_none_of_op2 hop hn3] at hn'; cases hn')
    (fun b j n hm => (hsameO n (sp_ne_chan2 hRC.r hm hq)).hb)
    (fun m hm => .inl ⟨hsameO _ (Ne.symm (mtx_ne_chan hRC.r hm hq)), rfl⟩)
    (fun n hn' => .inl ⟨hsameO _ (Ne.symm (ntf_ne_chan hRC.r hn' hq)), rfl⟩)
    (by
      intro q hq'
      by_cases e : q = qi
      · subst e
        right
        refine ⟨?_, ?_, hshape⟩
        · show σT.mtx (cI w.prog q) = _
          rw [hc.lt.chn q hq, objSs_of hobj, hobjs, objSs_set_self _ _ hlt]; rfl
        · rw [upd_self, hobjs, objRs_set_self _ _ hlt]; rfl
      · left
        exact ⟨hsameO _ (fun hh => e (chanObj_inj w hh)), rfl, upd_ne _ _ e⟩)
    (fun c hc' => .inl ⟨hsameO _ (Ne.symm (cell_ne_chan w hc' qi)), fun _ => rfl⟩)
  have hX1 := hc.x.tickR hc.gt hc.gr (inj_body2 hRC.r) w.tid hact
  have hGT' : Good (σT.acq w.tid sy.hb) := hc.gt.acq _ _ hsgT.om hsgT.cl
  have hGR' : Good ((σR.tick (body w w.tid)).acq (body w w.tid) c) := (hc.gr.tick _).acq _ _ hsgR.om hsgR.cl
  have hX' : XInv w.ctl.length (body w) (σT.acq w.tid sy.hb) ((σR.tick (body w w.tid)).acq (body w w.tid) c) :=
    hX1.acq (inj_body2 hRC.r) w.tid hact _ _ (hSX.ev (T' := σT) (R' := σR.tick (body w w.tid)) rfl rfl)
  have hch' : (s.tick (body w w.tid)).chan.getD qi [] = (v', c) :: rest' := hch
  have hpop := ((hc.lr.tick hbt).pop hq hch').2
  have hLR' : LinkR2 w.prog
      ((({ s.tick (body w w.tid) with chan := s.chan.set qi rest' } : SC.St).acquire (body w w.tid) c).ret
        (body w w.tid) (.val v'))
      ((σR.tick (body w w.tid)).acq (body w w.tid) c) (upd mR qi (rest'.map (·.2))) := by
    refine LinkR2.ret ?_ _ _
    exact LinkR2.acquire (s := { s.tick (body w w.tid) with chan := s.chan.set qi rest' }) hpop
      (by show body w w.tid < (s.tick (body w w.tid)).ths.length; rw [tick_len2]; exact hbt) _
  have hstep : SC.step w.prog s (body w w.tid) =
      [(({ s.tick (body w w.tid) with chan := s.chan.set qi rest' } : SC.St).acquire (body w w.tid) c).ret
        (body w w.tid) (.val v')] := by
    rcases hopr with rfl | rfl
    · exact step_recv hcv ho hch
    · exact step_tryRecv_some hcv ho hch
  refine realOut_complete hRC hact hop hn1 w1 r hp1 he1 hstep ?_
  refine newSt_complete hact w1 r ht1 hc1 hRC.fs.1 hRC.nd ⟨hI.1, hI.2.1⟩ hI.2.2 hLR' hGT' hGR' hX' ?_ ?_ ?_
  · intro q hq'
    by_cases e : q = qi
    · subst e
      rw [upd_self, upd_self, hrest']
      exact htl.imp fun _ _ hh => hh.ev rfl rfl
    · rw [upd_ne _ _ e, upd_ne _ _ e]
      exact (hc.mx q hq').imp fun _ _ hh => hh.ev rfl rfl
  · intro q Z hq' hZ
    by_cases e : q = qi
    · subst e
      rw [upd_self] at hZ
      exact (hc.mgt q Z hq (by rw [hmT]; exact List.mem_cons_of_mem _ hZ)).acq _ _
    · rw [upd_ne _ _ e] at hZ
      exact (hc.mgt q Z hq' hZ).acq _ _
  · intro q Z hq' hZ
    by_cases e : q = qi
    · subst e
      rw [upd_self, hrest'] at hZ
      exact ((hc.mgr q Z hq (by rw [hmR]; exact List.mem_cons_of_mem _ hZ)).tick _).acq _ _
    · rw [upd_ne _ _ e] at hZ
      exact ((hc.mgr q Z hq' hZ).tick _).acq _ _

/-- the completing stage of `recv` / `tryRecv` -/
theorem take_eff (hRC : RC2 w s) (hact : w.tid < w.ctl.length) {op : Op} {qi : Nat}
    (hop : opAt2 w = some op) (hopr : op = .recv qi ∨ op = .tryRecv qi) (hq : qi < w.prog.cfg.nChans)
    {w1 : World} {v : Int} (hre : w.recvEffect (w.chanObj qi) = .ok (w1, v)) :
    RealOut2 w s (w1.complete (.val v)) := by
  obtain ⟨cs, hobj⟩ := chan_obj2 hRC.r hq
  have ht := nthr_tid2 hRC hact
  rw [C09.recvEffect_eq w _ cs (getChan_of hobj)] at hre
  by_cases h0 : cs.msgCnt = 0
  · rw [if_pos h0] at hre; cases hre
  · rw [if_neg h0] at hre
    cases hrs : cs.receiverSync with
    | nil => simp [hrs] at hre
    | cons sy rest =>
      cases hqu : cs.queue with
      | nil => simp [hrs, hqu] at hre
      | cons vq qr =>
        simp only [hrs, hqu, Except.ok.injEq, Prod.mk.injEq] at hre
        obtain ⟨hw, hv⟩ := hre
        subst hv
        subst hw
        by_cases h1 : cs.msgCnt = 1
        · rw [if_pos h1]
          refine take_core hRC hact hop hopr hq hobj hrs hqu _ ?_ ?_ ?_ ?_ ?_ ?_ ?_ ?_ ?_ _
          iterate 5 rfl
          · show (World.forOthers _ _ _).ths.threads.length = _
            rw [WB.length_forOthers]
            show (w.ths.syncLoad sy .acq).threads.length = _
            rw [WB.length_syncLoad]; rfl
          · rfl
          · intro i hi
            rw [key5_forOthers _ _ _ key5_setBlocked, load_get w _ _ sy i ht, if_neg hi]
          · rw [WB.forOthers_get]
            have e : w.tid = (World.setThs (w.setObj (w.chanObj qi)
                (.chan { cs with msgCnt := cs.msgCnt - 1, receiverSync := rest, queue := qr }))
                ((w.setObj (w.chanObj qi)
                  (.chan { cs with msgCnt := cs.msgCnt - 1, receiverSync := rest, queue := qr })).ths.syncLoad sy
                  .acq)).tid := rfl
            rw [if_pos e, load_get w _ _ sy w.tid ht, if_pos rfl]
        · rw [if_neg h1]
          refine take_core hRC hact hop hopr hq hobj hrs hqu _ ?_ ?_ ?_ ?_ ?_ ?_ ?_ ?_ ?_ _
          iterate 5 rfl
          · show (w.ths.syncLoad sy .acq).threads.length = _
            rw [WB.length_syncLoad]; rfl
          · rfl
          · intro i hi
            rw [load_get w _ _ sy i ht, if_neg hi]
          · rw [load_get w _ _ sy w.tid ht, if_pos rfl]

theorem clk_recv2 (hRC : RC2 w s) (hact : w.tid < w.ctl.length) {qi : Nat}
    (hop : opAt2 w = some (.recv qi)) (hq : qi < w.prog.cfg.nChans)
    (h : w.runOp (w.ctlOf w.tid) (.recv qi) = .ok w') : QuietOut2 w s w' ∨ RealOut2 w s w' := by
  obtain ⟨cs, hobj⟩ := chan_obj2 hRC.r hq
  by_cases hs0 : (w.ctlOf w.tid).stage = 0
  · left
    rw [C09.runOp_recv_stage0 w _ qi cs hs0 (getChan_of hobj)] at h
    exact quiet_branch2 hRC hact hop (by intro b; simp) (by intro i r n; simp) (by intro v m; simp)
      (by rw [hs0]; decide) 1 h (chan_lt2 hRC.r hq) (fun b j n hm e => sp_ne_chan2 hRC.r hm hq e.symm)
  · right
    rw [C09.runOp_recv_stage1 w _ qi hs0] at h
    obtain ⟨⟨w1, v⟩, hre, h⟩ := bind_ok h
    simp only [pure, Except.pure] at h
    cases h
    exact take_eff hRC hact hop (.inl rfl) hq hre

theorem clk_tryRecv2 (hRC : RC2 w s) (hact : w.tid < w.ctl.length) {qi : Nat}
    (hop : opAt2 w = some (.tryRecv qi)) (hq : qi < w.prog.cfg.nChans)
    (h : w.runOp (w.ctlOf w.tid) (.tryRecv qi) = .ok w') : QuietOut2 w s w' ∨ RealOut2 w s w' := by
  obtain ⟨queue, hv, _, _⟩ := hRC.r.c.o.ch.q qi hq
  obtain ⟨cs, hobj0, hcnt, hqu⟩ := objView2_chan hv
  have hobj : w.exec.objs[w.chanObj qi]? = some (.chan cs) := hobj0
  by_cases hs0 : (w.ctlOf w.tid).stage = 0
  · by_cases h0 : cs.msgCnt = 0
    · right
      rw [C09.runOp_tryRecv_stage0_empty w _ qi cs hs0 (getChan_of hobj) h0] at h
      cases h
      obtain ⟨σT, σR, mT, mR, hc⟩ := hRC.clk
      have hC : pendCv w.prog (w.ctlOf w.tid) = none := pendCv_of_op hop (by simp)
      have hcv : (s.th (body w w.tid)).cvNotified = none := (frag_cv hRC hact hC).2
      have ho : SC.opOf w.prog s (body w w.tid) = some (.tryRecv qi) := (opOf_eq2 hRC.r hact).trans hop
      -- the reference queue is empty too
      have hmT : mT qi = [] := by
        obtain ⟨cs0, h1, h2⟩ := hRC.inv2.rsl qi hq
        rw [hobj] at h1
        cases h1
        rw [hc.lt.msg qi hq, objRs_of hobj]
        show cs.receiverSync.map (·.hb) = []
        have : cs.receiverSync.length = 0 := by rw [h2, hqu, ← hcnt, h0]
        rw [List.eq_nil_of_length_eq_zero this]; rfl
      have hall := hc.mx qi hq
      rw [hmT] at hall
      have hmR := hall.nil_left
      have hmsg := hc.lr.msg qi hq
      rw [hmR] at hmsg
      have hch : s.chan.getD qi [] = [] := List.map_eq_nil_iff.1 hmsg.symm
      refine realOut_complete hRC hact hop (by intro n; simp) w .empty rfl rfl (step_tryRecv_none hcv ho hch) ?_
      exact noop_core2 hRC hact hop (by intro n; simp) (by simp) (by intro b; simp) _
        (fun σR mR hL => hL.ret _ _) hRC.fs.1 hRC.nd
    · left
      rw [(C09.runOp_tryRecv_stage0_nonempty w _ qi cs hs0 (getChan_of hobj) h0).1] at h
      exact quiet_branch2 hRC hact hop (by intro b; simp) (by intro i r n; simp) (by intro v m; simp)
        (by rw [hs0]; decide) 1 h (chan_lt2 hRC.r hq) (fun b j n hm e => sp_ne_chan2 hRC.r hm hq e.symm)
  · right
    rw [C09.runOp_tryRecv_stage1 w _ qi hs0, C09.runOp_recv_stage1 w _ qi hs0] at h
    obtain ⟨⟨w1, v⟩, hre, h⟩ := bind_ok h
    simp only [pure, Except.pure] at h
    cases h
    exact take_eff hRC hact hop (.inr rfl) hq hre

end

end Race2
end LoomVerif

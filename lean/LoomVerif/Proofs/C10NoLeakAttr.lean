/-
The simp set collecting the `NoLeak` facts of `Proofs/C10NoLeak.lean` (an attribute has to be
declared in a module other than the one using it).
-/
import Lean.Meta.Tactic.Simp.RegisterCommand

/-- facts `NoLeak (f x)`: "`f` cannot raise a leak panic" -/
register_simp_attr noleak

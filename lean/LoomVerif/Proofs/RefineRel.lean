/-
Refinement, part 2: the abstraction relation `R : World → SCData → Prop` between the twin
(`Model/Interp.lean`) and the data of the reference semantics, and how it is transported along the
elementary changes of either side.

The relation has a control part `RX` (twin thread index ↔ DSL body index through `TCtl.body`; per thread
pc / recorded results / finished ↔ the epilogue has notified; started; bodies not yet spawned are untouched)
and an object part `RY` (cell `value`, mutex `lock` owner, the `JoinHandle` notify of every entry of
`World.spawned`).
-/
import LoomVerif.Proofs.RefineData
import LoomVerif.Proofs.SyncSched
import LoomVerif.Model.Interp

namespace LoomVerif
namespace Refine
open Sy

/-! ### lists -/

theorem getD_modify_self {α} (l : List α) (t : Nat) (f : α → α) (d : α) (h : t < l.length) :
    (l.modify t f).getD t d = f (l.getD t d) := by
  simp [List.getD, List.getElem?_modify, List.getElem?_eq_getElem h]

theorem getD_modify_ne {α} (l : List α) (t i : Nat) (f : α → α) (d : α) (h : i ≠ t) :
    (l.modify t f).getD i d = l.getD i d := by
  have : ¬ t = i := fun e => h e.symm
  simp [List.getD, List.getElem?_modify, this]

theorem getD_append_left {α} (l x : List α) (i : Nat) (d : α) (h : i < l.length) :
    (l ++ x).getD i d = l.getD i d := by
  simp [List.getD, List.getElem?_append_left h]

theorem getD_append_new {α} (l : List α) (a d : α) : (l ++ [a]).getD l.length d = a := by
  simp [List.getD]

theorem getD_set_self' {α} (l : List α) (i : Nat) (a d : α) (h : i < l.length) :
    (l.set i a).getD i d = a := by
  simp [List.getD, List.getElem?_set, h]

theorem getD_set_ne {α} (l : List α) (i j : Nat) (a d : α) (h : j ≠ i) :
    (l.set i a).getD j d = l.getD j d := by
  have : ¬ i = j := fun e => h e.symm
  simp [List.getD, List.getElem?_set, this]

/-! ### what the relation sees of an object -/

/-- the part of an object the fragment observes -/
inductive OV
  | cell (v : Int)
  | mutex (l : Option Nat)
  | notify (spurious notified : Bool)
  | other
deriving DecidableEq, Repr

def view : Obj → OV
  | .cell s => .cell s.value
  | .mutex s => .mutex s.lock
  | .notify s => .notify s.spurious s.notified
  | _ => .other

def objView (os : List Obj) (n : Nat) : Option OV := os[n]?.map view

/-- every object of `os` is still in `os'` and looks the same -/
def ViewLe (os os' : List Obj) : Prop := ∀ n v, objView os n = some v → objView os' n = some v

theorem ViewLe.refl (os : List Obj) : ViewLe os os := fun _ _ h => h

theorem view_touched {x x' : Obj} (h : Touched x x') : view x' = view x := by
  cases h <;> rfl

theorem ViewLe.of_touched {os os' : List Obj} (h : ObjsTouched os os') : ViewLe os os' := by
  intro n v hv
  unfold objView at hv ⊢
  cases hx : os[n]? with
  | none => rw [hx] at hv; cases hv
  | some x =>
    rw [hx] at hv
    obtain ⟨x', hx', ht⟩ := h n x hx
    rw [hx']
    simp only [Option.map_some] at hv ⊢
    rw [view_touched ht]; exact hv

theorem ViewLe.append (os x : List Obj) : ViewLe os (os ++ x) := by
  intro n v hv
  unfold objView at hv ⊢
  have hn : n < os.length := by
    apply Classical.byContradiction
    intro hn
    rw [List.getElem?_eq_none (by omega)] at hv
    cases hv
  rw [List.getElem?_append_left hn]; exact hv

theorem objView_lt {os : List Obj} {n : Nat} {v : OV} (h : objView os n = some v) : n < os.length := by
  apply Classical.byContradiction
  intro hn
  unfold objView at h
  rw [List.getElem?_eq_none (by omega)] at h
  cases h

theorem objView_set_self {os : List Obj} {o : Nat} (x : Obj) (h : o < os.length) :
    objView (os.set o x) o = some (view x) := by
  simp [objView, h]

theorem objView_set_ne (os : List Obj) {o n : Nat} (x : Obj) (h : n ≠ o) :
    objView (os.set o x) n = objView os n := by
  have : ¬ o = n := fun e => h e.symm
  simp [objView, List.getElem?_set, this]

theorem objView_cell {os : List Obj} {n : Nat} {v : Int} (h : objView os n = some (.cell v)) :
    ∃ cs, os[n]? = some (.cell cs) ∧ cs.value = v := by
  unfold objView at h
  cases hx : os[n]? with
  | none => rw [hx] at h; cases h
  | some x =>
    rw [hx] at h
    cases x <;> simp [view] at h
    exact ⟨_, rfl, h⟩

theorem objView_mutex {os : List Obj} {n : Nat} {l : Option Nat} (h : objView os n = some (.mutex l)) :
    ∃ ms, os[n]? = some (.mutex ms) ∧ ms.lock = l := by
  unfold objView at h
  cases hx : os[n]? with
  | none => rw [hx] at h; cases h
  | some x =>
    rw [hx] at h
    cases x <;> simp [view] at h
    exact ⟨_, rfl, h⟩

theorem objView_notify {os : List Obj} {n : Nat} {a b : Bool} (h : objView os n = some (.notify a b)) :
    ∃ ns, os[n]? = some (.notify ns) ∧ ns.spurious = a ∧ ns.notified = b := by
  unfold objView at h
  cases hx : os[n]? with
  | none => rw [hx] at h; cases h
  | some x =>
    rw [hx] at h
    cases x <;> simp [view] at h
    exact ⟨_, rfl, h.1, h.2⟩

theorem objView_of {os : List Obj} {n : Nat} {x : Obj} (h : os[n]? = some x) :
    objView os n = some (view x) := by simp [objView, h]

/-! ### the control part of the relation -/

/-- twin control record `c` of a thread ↔ data `h` of the body it runs: started; same pc and recorded results;
finished ↔ the epilogue has passed its notification (`fin ≥ 10`).  A thread that is mid-operation
(`stage = 1`) has not yet taken its reference step: `pc` and `rets` are still those before the operation.
The remaining clauses are twin-side invariants of fragment programs (no thread-locals, stages 0 / 1 only). -/
def ThRel (c : TCtl) (h : DTh) : Prop :=
  h.started = true ∧ h.pc = c.pc ∧ h.rets = c.results ∧ h.finished = decide (10 ≤ c.fin) ∧
    c.stage ≤ 1 ∧ c.locals = [] ∧ c.dtorQueue = []

structure RX (p : Prog) (ctl : List TCtl) (ths : List DTh) : Prop where
  len : ths.length = p.threads.length
  /-- twin thread 0 runs the main body -/
  main : 0 < ctl.length ∧ (ctl.getD 0 {}).body = 0
  thr : ∀ i, i < ctl.length →
    (ctl.getD i {}).body < p.threads.length ∧ ThRel (ctl.getD i {}) (ths.getD (ctl.getD i {}).body {})
  /-- a thread is in its epilogue only when its body is exhausted -/
  epi : ∀ i, i < ctl.length → (ctl.getD i {}).fin ≠ 0 →
    (p.threads.getD (ctl.getD i {}).body [])[(ctl.getD i {}).pc]? = none
  /-- distinct twin threads run distinct bodies -/
  inj : ∀ i j, i < ctl.length → j < ctl.length → (ctl.getD i {}).body = (ctl.getD j {}).body → i = j
  /-- a body no twin thread runs has not been started -/
  idle : ∀ b, b < p.threads.length → (∀ i, i < ctl.length → (ctl.getD i {}).body ≠ b) → ths.getD b {} = {}
  /-- the `spawn` that created a twin thread lies behind its spawner's pc -/
  past : ∀ i, 0 < i → i < ctl.length → ∃ j k, j < ctl.length ∧ k < (ctl.getD j {}).pc ∧
    (p.threads.getD (ctl.getD j {}).body [])[k]? = some (.spawn (ctl.getD i {}).body)

/-- the active thread `t` rewrites its own control record by `f` (same body, pc not decreasing) and the
reference thread of its body changes by `g`, related again -/
theorem RX.modify {p : Prog} {ctl : List TCtl} {ths : List DTh} (h : RX p ctl ths) {t : Nat}
    (ht : t < ctl.length) (f : TCtl → TCtl) (g : DTh → DTh)
    (hbody : (f (ctl.getD t {})).body = (ctl.getD t {}).body)
    (hpc : (ctl.getD t {}).pc ≤ (f (ctl.getD t {})).pc)
    (hrel : ThRel (f (ctl.getD t {})) (g (ths.getD (ctl.getD t {}).body {})))
    (hepi : (f (ctl.getD t {})).fin ≠ 0 →
      (p.threads.getD (ctl.getD t {}).body [])[(f (ctl.getD t {})).pc]? = none) :
    RX p (ctl.modify t f) (ths.modify (ctl.getD t {}).body g) := by
  have hlen : (ctl.modify t f).length = ctl.length := by simp
  have hbl : (ctl.getD t {}).body < ths.length := by rw [h.len]; exact (h.thr t ht).1
  have body_eq : ∀ i, ((ctl.modify t f).getD i {}).body = (ctl.getD i {}).body := by
    intro i
    by_cases hi : i = t
    · subst hi; rw [getD_modify_self _ _ _ _ ht]; exact hbody
    · rw [getD_modify_ne _ _ _ _ _ hi]
  have pc_le : ∀ i, (ctl.getD i {}).pc ≤ ((ctl.modify t f).getD i {}).pc := by
    intro i
    by_cases hi : i = t
    · subst hi; rw [getD_modify_self _ _ _ _ ht]; exact hpc
    · rw [getD_modify_ne _ _ _ _ _ hi]; exact Nat.le_refl _
  refine ⟨by simpa using h.len, ⟨by rw [hlen]; exact h.main.1, by rw [body_eq]; exact h.main.2⟩, ?_, ?_, ?_, ?_, ?_⟩
  · intro i hi
    rw [hlen] at hi
    rw [body_eq]
    refine ⟨(h.thr i hi).1, ?_⟩
    by_cases hit : i = t
    · subst hit
      rw [getD_modify_self _ _ _ _ ht, getD_modify_self _ _ _ _ hbl]
      exact hrel
    · have hne : (ctl.getD i {}).body ≠ (ctl.getD t {}).body := fun e => hit (h.inj i t hi ht e)
      rw [getD_modify_ne _ _ _ _ _ hit, getD_modify_ne _ _ _ _ _ hne]
      exact (h.thr i hi).2
  · intro i hi
    rw [hlen] at hi
    rw [body_eq]
    by_cases hit : i = t
    · subst hit
      rw [getD_modify_self _ _ _ _ ht]
      exact hepi
    · rw [getD_modify_ne _ _ _ _ _ hit]
      exact h.epi i hi
  · intro i j hi hj
    rw [hlen] at hi hj
    rw [body_eq, body_eq]
    exact h.inj i j hi hj
  · intro b hb hidle
    have hidle' : ∀ i, i < ctl.length → (ctl.getD i {}).body ≠ b := by
      intro i hi
      have := hidle i (by rw [hlen]; exact hi)
      rw [body_eq] at this; exact this
    have hne : b ≠ (ctl.getD t {}).body := fun e => hidle' t ht e.symm
    rw [getD_modify_ne _ _ _ _ _ hne]
    exact h.idle b hb hidle'
  · intro i hi0 hi
    rw [hlen] at hi
    obtain ⟨j, k, hj, hk, hop⟩ := h.past i hi0 hi
    refine ⟨j, k, by rw [hlen]; exact hj, Nat.lt_of_lt_of_le hk (pc_le j), ?_⟩
    rw [body_eq, body_eq]; exact hop

/-- a stuttering rewrite of the active thread's record -/
theorem RX.stutter {p : Prog} {ctl : List TCtl} {ths : List DTh} (h : RX p ctl ths) {t : Nat}
    (ht : t < ctl.length) (f : TCtl → TCtl)
    (hbody : (f (ctl.getD t {})).body = (ctl.getD t {}).body)
    (hpc : (ctl.getD t {}).pc ≤ (f (ctl.getD t {})).pc)
    (hrel : ThRel (f (ctl.getD t {})) (ths.getD (ctl.getD t {}).body {}))
    (hepi : (f (ctl.getD t {})).fin ≠ 0 →
      (p.threads.getD (ctl.getD t {}).body [])[(f (ctl.getD t {})).pc]? = none) :
    RX p (ctl.modify t f) ths := by
  have := h.modify ht f id hbody hpc hrel hepi
  rwa [modify_id' _ _ id (fun _ => rfl)] at this

/-- `spawn b`: a new twin thread running body `b`, which no thread ran before -/
theorem RX.append {p : Prog} {ctl : List TCtl} {ths : List DTh} (h : RX p ctl ths) {b : Nat}
    (hb0 : 0 < b) (hb : b < p.threads.length)
    (hidle : ∀ i, i < ctl.length → (ctl.getD i {}).body ≠ b)
    (hpast : ∃ j k, j < ctl.length ∧ k < (ctl.getD j {}).pc ∧
      (p.threads.getD (ctl.getD j {}).body [])[k]? = some (.spawn b)) :
    RX p (ctl ++ [({ body := b } : TCtl)]) (ths.modify b fun h => { h with started := true }) := by
  have hlen : (ctl ++ [({ body := b } : TCtl)]).length = ctl.length + 1 := by simp
  have old : ∀ i, i < ctl.length → (ctl ++ [({ body := b } : TCtl)]).getD i {} = ctl.getD i {} :=
    fun i hi => getD_append_left _ _ _ _ hi
  have new : (ctl ++ [({ body := b } : TCtl)]).getD ctl.length {} = { body := b } := getD_append_new _ _ _
  have hbl : b < ths.length := by rw [h.len]; exact hb
  refine ⟨by simpa using h.len, ⟨by omega, by rw [old 0 h.main.1]; exact h.main.2⟩, ?_, ?_, ?_, ?_, ?_⟩
  · intro i hi
    rw [hlen] at hi
    by_cases hin : i < ctl.length
    · rw [old i hin]
      refine ⟨(h.thr i hin).1, ?_⟩
      rw [getD_modify_ne _ _ _ _ _ (hidle i hin)]
      exact (h.thr i hin).2
    · have : i = ctl.length := by omega
      subst this
      rw [new]
      refine ⟨hb, ?_⟩
      rw [getD_modify_self _ _ _ _ hbl, h.idle b hb hidle]
      exact ⟨rfl, rfl, rfl, rfl, Nat.zero_le _, rfl, rfl⟩
  · intro i hi
    rw [hlen] at hi
    by_cases hin : i < ctl.length
    · rw [old i hin]; exact h.epi i hin
    · have : i = ctl.length := by omega
      subst this
      rw [new]
      intro hne; exact absurd rfl hne
  · intro i j hi hj
    rw [hlen] at hi hj
    by_cases hin : i < ctl.length <;> by_cases hjn : j < ctl.length
    · rw [old i hin, old j hjn]; exact h.inj i j hin hjn
    · have : j = ctl.length := by omega
      subst this
      rw [old i hin, new]; intro e; exact absurd e (hidle i hin)
    · have : i = ctl.length := by omega
      subst this
      rw [old j hjn, new]; intro e; exact absurd e.symm (hidle j hjn)
    · omega
  · intro b' hb' hidle'
    have hne : b' ≠ b := by
      intro e
      have := hidle' ctl.length (by omega)
      rw [new] at this; exact this e.symm
    rw [getD_modify_ne _ _ _ _ _ hne]
    apply h.idle b' hb'
    intro i hi
    have := hidle' i (by omega)
    rwa [old i hi] at this
  · intro i hi0 hi
    rw [hlen] at hi
    by_cases hin : i < ctl.length
    · obtain ⟨j, k, hj, hk, hop⟩ := h.past i hi0 hin
      refine ⟨j, k, by omega, ?_, ?_⟩
      · rw [old j hj]; exact hk
      · rw [old j hj, old i hin]; exact hop
    · have : i = ctl.length := by omega
      subst this
      obtain ⟨j, k, hj, hk, hop⟩ := hpast
      refine ⟨j, k, by omega, ?_, ?_⟩
      · rw [old j hj]; exact hk
      · rw [old j hj, new]; exact hop

/-- the thread about to execute `spawn b` shows that no thread runs `b` yet (each body is spawned by at most
one operation of the text, and that operation lies behind the pc of the thread that executed it) -/
theorem RX.spawn_fresh {p : Prog} {ctl : List TCtl} {ths : List DTh} (h : RX p ctl ths) (hwf : WF p)
    {t b : Nat} (ht : t < ctl.length)
    (hop : (p.threads.getD (ctl.getD t {}).body [])[(ctl.getD t {}).pc]? = some (.spawn b)) :
    0 < b ∧ b < p.threads.length ∧ ∀ i, i < ctl.length → (ctl.getD i {}).body ≠ b := by
  have hok := hwf.opOk hop
  simp only [opOk, Bool.and_eq_true, decide_eq_true_eq] at hok
  refine ⟨hok.1, hok.2, ?_⟩
  intro i hi e
  by_cases hi0 : i = 0
  · subst hi0
    rw [h.main.2] at e
    omega
  · obtain ⟨j, k, hj, hk, hop'⟩ := h.past i (by omega) hi
    rw [e] at hop'
    obtain ⟨e1, e2⟩ := hwf.spawn_unique hop hop'
    have := h.inj t j ht hj e1
    subst this
    omega

/-! ### the object part of the relation -/

structure RY (p : Prog) (ctl : List TCtl) (spawned : List (Nat × Nat × Nat)) (objs : List Obj)
    (cells : List Int) (mutex : List (Option Nat)) : Prop where
  lenC : cells.length = p.cfg.nCells
  lenM : mutex.length = p.cfg.nMutexes
  /-- cell `c` of the DSL is object `nAtomics + c`; same value -/
  cell : ∀ c, c < p.cfg.nCells → objView objs (p.cfg.nAtomics + c) = some (.cell (cells.getD c 0))
  /-- mutex `m` of the DSL is object `nAtomics + nCells + m`; its owner (a twin thread) runs the body that owns
  it in the reference state -/
  mtx : ∀ m, m < p.cfg.nMutexes → ∃ l, objView objs (p.cfg.nAtomics + p.cfg.nCells + m) = some (.mutex l) ∧
    l.map (fun i => (ctl.getD i {}).body) = mutex.getD m none ∧ ∀ i, l = some i → i < ctl.length
  /-- `World.spawned`: body ↦ (twin thread, `JoinHandle` notify).  The notify is never spurious, and it is
  notified only after the thread's epilogue has passed the notification -/
  sp : ∀ b i n, (b, i, n) ∈ spawned → i < ctl.length ∧ (ctl.getD i {}).body = b ∧
    ∃ nt, objView objs n = some (.notify false nt) ∧ (nt = true → 10 ≤ (ctl.getD i {}).fin)
  /-- distinct entries have distinct notify objects -/
  spn : ∀ e1 e2, e1 ∈ spawned → e2 ∈ spawned → e1.2.2 = e2.2.2 → e1.2.1 = e2.2.1

/-- `ctl'` extends `ctl`; bodies are kept and no thread leaves the tail of its epilogue (`fin ≥ 10`) -/
def CtlLe (ctl ctl' : List TCtl) : Prop :=
  ctl.length ≤ ctl'.length ∧ ∀ i, i < ctl.length →
    (ctl'.getD i {}).body = (ctl.getD i {}).body ∧ (10 ≤ (ctl.getD i {}).fin → 10 ≤ (ctl'.getD i {}).fin)

theorem CtlLe.modify (ctl : List TCtl) (t : Nat) (f : TCtl → TCtl)
    (hbody : (f (ctl.getD t {})).body = (ctl.getD t {}).body)
    (hfin : 10 ≤ (ctl.getD t {}).fin → 10 ≤ (f (ctl.getD t {})).fin) : CtlLe ctl (ctl.modify t f) := by
  refine ⟨by simp, fun i hi => ?_⟩
  by_cases hit : i = t
  · subst hit; rw [getD_modify_self _ _ _ _ hi]; exact ⟨hbody, hfin⟩
  · rw [getD_modify_ne _ _ _ _ _ hit]; exact ⟨rfl, id⟩

theorem CtlLe.append (ctl x : List TCtl) : CtlLe ctl (ctl ++ x) := by
  refine ⟨by simp, fun i hi => ?_⟩
  rw [getD_append_left _ _ _ _ hi]; exact ⟨rfl, id⟩

theorem CtlLe.trans {a b c : List TCtl} (h1 : CtlLe a b) (h2 : CtlLe b c) : CtlLe a c := by
  refine ⟨Nat.le_trans h1.1 h2.1, fun i hi => ?_⟩
  have hi' : i < b.length := Nat.lt_of_lt_of_le hi h1.1
  exact ⟨(h2.2 i hi').1.trans (h1.2 i hi).1, fun e => (h2.2 i hi').2 ((h1.2 i hi).2 e)⟩

theorem RY.ctl {p ctl ctl' sp objs cells mutex} (h : RY p ctl sp objs cells mutex) (hc : CtlLe ctl ctl') :
    RY p ctl' sp objs cells mutex := by
  refine ⟨h.lenC, h.lenM, h.cell, ?_, ?_, h.spn⟩
  · intro m hm
    obtain ⟨l, h1, h2, h3⟩ := h.mtx m hm
    refine ⟨l, h1, ?_, fun i hi => Nat.lt_of_lt_of_le (h3 i hi) hc.1⟩
    cases l with
    | none => exact h2
    | some i =>
      simp only [Option.map_some] at h2 ⊢
      rw [(hc.2 i (h3 i rfl)).1]; exact h2
  · intro b i n hmem
    obtain ⟨h1, h2, nt, h3, h4⟩ := h.sp b i n hmem
    refine ⟨Nat.lt_of_lt_of_le h1 hc.1, by rw [(hc.2 i h1).1]; exact h2, nt, h3, fun e => ?_⟩
    exact (hc.2 i h1).2 (h4 e)

theorem RY.viewLe {p ctl sp objs objs' cells mutex} (h : RY p ctl sp objs cells mutex)
    (hv : ViewLe objs objs') : RY p ctl sp objs' cells mutex := by
  refine ⟨h.lenC, h.lenM, fun c hc => hv _ _ (h.cell c hc), ?_, ?_, h.spn⟩
  · intro m hm
    obtain ⟨l, h1, h2, h3⟩ := h.mtx m hm
    exact ⟨l, hv _ _ h1, h2, h3⟩
  · intro b i n hmem
    obtain ⟨h1, h2, nt, h3, h4⟩ := h.sp b i n hmem
    exact ⟨h1, h2, nt, hv _ _ h3, h4⟩

/-- a cell is written -/
theorem RY.setCell {p ctl sp objs cells mutex} (h : RY p ctl sp objs cells mutex) {c : Nat}
    (hc : c < p.cfg.nCells) (x : Obj) (v : Int) (hx : view x = .cell v) :
    RY p ctl sp (objs.set (p.cfg.nAtomics + c) x) (cells.set c v) mutex := by
  have hlt : p.cfg.nAtomics + c < objs.length := objView_lt (h.cell c hc)
  refine ⟨by simpa using h.lenC, h.lenM, ?_, ?_, ?_, h.spn⟩
  · intro c' hc'
    by_cases e : c' = c
    · subst e
      rw [objView_set_self _ hlt, hx, getD_set_self' _ _ _ _ (by rw [h.lenC]; exact hc')]
    · rw [objView_set_ne _ _ (by omega), getD_set_ne _ _ _ _ _ e]
      exact h.cell c' hc'
  · intro m hm
    obtain ⟨l, h1, h2, h3⟩ := h.mtx m hm
    exact ⟨l, by rw [objView_set_ne _ _ (by omega)]; exact h1, h2, h3⟩
  · intro b i n hmem
    obtain ⟨h1, h2, nt, h3, h4⟩ := h.sp b i n hmem
    refine ⟨h1, h2, nt, ?_, h4⟩
    rw [objView_set_ne _ _ ?_]; exact h3
    intro e
    rw [e, h.cell c hc] at h3
    cases h3

/-- a mutex changes hands -/
theorem RY.setMutex {p ctl sp objs cells mutex} (h : RY p ctl sp objs cells mutex) {m : Nat}
    (hm : m < p.cfg.nMutexes) (x : Obj) (l : Option Nat) (hx : view x = .mutex l)
    (hl : ∀ i, l = some i → i < ctl.length) :
    RY p ctl sp (objs.set (p.cfg.nAtomics + p.cfg.nCells + m) x) cells
      (mutex.set m (l.map fun i => (ctl.getD i {}).body)) := by
  obtain ⟨l0, hl0, _, _⟩ := h.mtx m hm
  have hlt : p.cfg.nAtomics + p.cfg.nCells + m < objs.length := objView_lt hl0
  refine ⟨h.lenC, by simpa using h.lenM, ?_, ?_, ?_, h.spn⟩
  · intro c hc
    rw [objView_set_ne _ _ (by omega)]
    exact h.cell c hc
  · intro m' hm'
    by_cases e : m' = m
    · subst e
      refine ⟨l, ?_, ?_, hl⟩
      · rw [objView_set_self _ hlt, hx]
      · rw [getD_set_self' _ _ _ _ (by rw [h.lenM]; exact hm')]
    · obtain ⟨l', h1, h2, h3⟩ := h.mtx m' hm'
      refine ⟨l', ?_, ?_, h3⟩
      · rw [objView_set_ne _ _ (by omega)]; exact h1
      · rw [getD_set_ne _ _ _ _ _ e]; exact h2
  · intro b i n hmem
    obtain ⟨h1, h2, nt, h3, h4⟩ := h.sp b i n hmem
    refine ⟨h1, h2, nt, ?_, h4⟩
    rw [objView_set_ne _ _ ?_]; exact h3
    intro e
    rw [e, hl0] at h3
    cases h3

/-- the `JoinHandle` notify `o` changes its flag to `nt'`; if it is raised, the threads it belongs to have
passed their notification -/
theorem RY.setNotify {p ctl sp objs cells mutex} (h : RY p ctl sp objs cells mutex) {o : Nat} {nt0 : Bool}
    (ho : objView objs o = some (.notify false nt0)) (x : Obj) (nt' : Bool) (hx : view x = .notify false nt')
    (hfin : nt' = true → ∀ b i, (b, i, o) ∈ sp → 10 ≤ (ctl.getD i {}).fin) :
    RY p ctl sp (objs.set o x) cells mutex := by
  have hlt : o < objs.length := objView_lt ho
  refine ⟨h.lenC, h.lenM, ?_, ?_, ?_, h.spn⟩
  · intro c hc
    rw [objView_set_ne _ _ ?_]; exact h.cell c hc
    intro e
    have := h.cell c hc
    rw [e, ho] at this; cases this
  · intro m hm
    obtain ⟨l, h1, h2, h3⟩ := h.mtx m hm
    refine ⟨l, ?_, h2, h3⟩
    rw [objView_set_ne _ _ ?_]; exact h1
    intro e
    rw [e, ho] at h1; cases h1
  · intro b i n hmem
    obtain ⟨h1, h2, nt, h3, h4⟩ := h.sp b i n hmem
    by_cases e : n = o
    · subst e
      exact ⟨h1, h2, nt', by rw [objView_set_self _ hlt, hx], fun e' => hfin e' b i hmem⟩
    · exact ⟨h1, h2, nt, by rw [objView_set_ne _ _ e]; exact h3, h4⟩

/-- `spawn`: a fresh, non-spurious, unnotified notify object; a new control record; a new entry -/
theorem RY.spawn {p ctl sp objs cells mutex} (h : RY p ctl sp objs cells mutex) (b : Nat) (c : TCtl)
    (hc : c.body = b) (x : Obj) (hx : view x = .notify false false) :
    RY p (ctl ++ [c]) ((b, ctl.length, objs.length) :: sp) (objs ++ [x]) cells mutex := by
  have h1 := (h.ctl (CtlLe.append ctl [c])).viewLe (ViewLe.append objs [x])
  refine ⟨h1.lenC, h1.lenM, h1.cell, h1.mtx, ?_, ?_⟩
  · intro b' i n hmem
    rcases List.mem_cons.1 hmem with e | hmem
    · cases e
      refine ⟨by simp, by rw [getD_append_new]; exact hc, false, ?_, fun e => by cases e⟩
      simp [objView, hx]
    · exact h1.sp b' i n hmem
  · intro e1 e2 h1' h2' e
    rcases List.mem_cons.1 h1' with a1 | a1 <;> rcases List.mem_cons.1 h2' with a2 | a2
    · rw [a1, a2]
    · exfalso
      obtain ⟨b2, i2, n2⟩ := e2
      obtain ⟨_, _, nt, hv, _⟩ := h.sp b2 i2 n2 a2
      have := objView_lt hv
      rw [a1] at e; simp only at e; omega
    · exfalso
      obtain ⟨b1, i1, n1⟩ := e1
      obtain ⟨_, _, nt, hv, _⟩ := h.sp b1 i1 n1 a1
      have := objView_lt hv
      rw [a2] at e; simp only at e; omega
    · exact h.spn e1 e2 a1 a2 e

/-! ### the relation -/

/-- **the abstraction relation** between a world of the twin and the data of a reference state -/
structure R (w : World) (s : SCData) : Prop where
  /-- one control record per loom thread -/
  lenCtl : w.ctl.length = w.exec.threads.threads.length
  x : RX w.prog w.ctl s.ths
  y : RY w.prog w.ctl w.spawned w.exec.objs s.cells s.mutex

end Refine
end LoomVerif

/-
C07, rwlock layer: exact one-step laws of `World.postAcquireRead/Write`, `releaseRead/Write`
(`rt/rwlock.rs`), the reader-set representation (`insertSorted`) and its invariants.
-/
import LoomVerif.Proofs.C07Lock

namespace LoomVerif
namespace C07
open C12 Sy

/-- the reader set of a lock state (empty unless read-locked) -/
def readersOf : Option RwLocked → List Nat
  | some (.read rs) => rs
  | _ => []

/-- the writer of a lock state -/
def writerOf : Option RwLocked → Option Nat
  | some (.write t) => some t
  | _ => none

/-- strictly increasing: sorted and duplicate-free -/
def StrictSorted (l : List Nat) : Prop := l.Pairwise (· < ·)

/-! ### `insertSorted` -/

theorem mem_insertSorted (x y : Nat) (l : List Nat) :
    y ∈ World.insertSorted x l ↔ y = x ∨ y ∈ l := by
  induction l with
  | nil => simp [World.insertSorted]
  | cons a l ih =>
    unfold World.insertSorted
    split
    · simp
    · split
      · next h => simp at h; subst h; simp
      · simp [ih]; grind

theorem insertSorted_sorted (x : Nat) (l : List Nat) (h : StrictSorted l) :
    StrictSorted (World.insertSorted x l) := by
  unfold StrictSorted at *
  induction l with
  | nil => simp [World.insertSorted]
  | cons a l ih =>
    unfold World.insertSorted
    rw [List.pairwise_cons] at h
    split
    · next hlt =>
      rw [List.pairwise_cons]
      refine ⟨?_, List.pairwise_cons.2 h⟩
      intro b hb
      rcases List.mem_cons.1 hb with rfl | hb
      · exact hlt
      · exact Nat.lt_trans hlt (h.1 b hb)
    · split
      · exact List.pairwise_cons.2 h
      · next h1 h2 =>
        rw [List.pairwise_cons]
        refine ⟨?_, ih h.2⟩
        intro b hb
        rcases (mem_insertSorted x b l).1 hb with rfl | hb
        · simp at h2; omega
        · exact h.1 b hb

theorem StrictSorted.nodup {l : List Nat} (h : StrictSorted l) : l.Nodup := by
  unfold StrictSorted at h
  exact h.imp (fun hlt => Nat.ne_of_lt hlt)

theorem insertSorted_nil (x : Nat) : World.insertSorted x [] = [x] := rfl

/-- inserting a thread that is already a reader changes nothing -/
theorem insertSorted_of_mem (x : Nat) (l : List Nat) (h : StrictSorted l) (hx : x ∈ l) :
    World.insertSorted x l = l := by
  unfold StrictSorted at h
  induction l with
  | nil => cases hx
  | cons a l ih =>
    rw [List.pairwise_cons] at h
    unfold World.insertSorted
    rcases List.mem_cons.1 hx with rfl | hx
    · simp
    · have := h.1 x hx
      have h1 : ¬ x < a := by omega
      have h2 : ¬ x = a := by omega
      simp [h1, h2, ih h.2 hx]

theorem filter_sorted (p : Nat → Bool) (l : List Nat) (h : StrictSorted l) :
    StrictSorted (l.filter p) := List.Pairwise.filter p h

/-- on a duplicate-free list, `filter (· != t)` is `erase t` -/
theorem filter_ne_eq_erase (t : Nat) (l : List Nat) (h : l.Nodup) :
    l.filter (· != t) = l.erase t := by
  induction l with
  | nil => rfl
  | cons a l ih =>
    rw [List.nodup_cons] at h
    by_cases hat : a = t
    · subst hat
      simp only [List.filter_cons, bne_self_eq_false, Bool.false_eq_true, if_false,
        List.erase_cons_head]
      rw [List.filter_eq_self]
      intro b hb
      simp; intro e; subst e; exact h.1 hb
    · have : (a != t) = true := by simp [hat]
      simp only [List.filter_cons, this, if_true]
      rw [List.erase_cons_tail (by simp [hat]), ih h.2]

/-! ### `post_acquire_read_lock` -/

/-- write-locked: `post_acquire_read_lock` returns `false` and changes nothing -/
theorem postAcquireRead_writer {w : World} {o : Nat} {s : RwSt} {x : Nat}
    (h : w.exec.objs[o]? = some (.rwlock s)) (hl : s.lock = some (.write x)) :
    w.postAcquireRead o = .ok (w, false) := by
  unfold World.postAcquireRead
  simp [getRw_of h, hl, bind, Except.bind, pure, Except.pure]

/-- not write-locked: `post_acquire_read_lock` returns `true`; the explicit successor state -/
theorem postAcquireRead_ok {w : World} {o : Nat} {s : RwSt}
    (h : w.exec.objs[o]? = some (.rwlock s)) (hl : writerOf s.lock = none) :
    w.postAcquireRead o = .ok
      ({ w with exec := { w.exec with
          objs := w.exec.objs.set o (.rwlock { s with
            lock := some (.read (World.insertSorted w.tid (readersOf s.lock))) })
          threads := { w.exec.threads with threads :=
            (w.exec.threads.threads.mapIdx fun i th =>
              if i = w.tid then { th with causality := th.causality.join s.sync.hb }
              else if th.operation.any (fun op => op.obj == o && op.action == .rwWrite && op.blocking)
              then th.setBlocked else th) } } },
       true) := by
  unfold World.postAcquireRead
  rcases s with ⟨lock, la, sy⟩
  cases lock with
  | none =>
    simp only [getRw_of h, bind, Except.bind, pure, Except.pure]
    rw [acquire_normal_form]; rfl
  | some k =>
    cases k with
    | read rs =>
      simp only [getRw_of h, bind, Except.bind, pure, Except.pure]
      rw [acquire_normal_form]; rfl
    | write x => simp [writerOf] at hl

/-! ### `post_acquire_write_lock` -/

/-- locked (by readers or a writer): `post_acquire_write_lock` returns `false`, nothing changes -/
theorem postAcquireWrite_locked {w : World} {o : Nat} {s : RwSt}
    (h : w.exec.objs[o]? = some (.rwlock s)) (hl : s.lock.isSome = true) :
    w.postAcquireWrite o = .ok (w, false) := by
  unfold World.postAcquireWrite
  simp [getRw_of h, hl, bind, Except.bind, pure, Except.pure]

/-- unlocked: `post_acquire_write_lock` returns `true`; the explicit successor state -/
theorem postAcquireWrite_free {w : World} {o : Nat} {s : RwSt}
    (h : w.exec.objs[o]? = some (.rwlock s)) (hl : s.lock = none) :
    w.postAcquireWrite o = .ok
      ({ w with exec := { w.exec with
          objs := w.exec.objs.set o (.rwlock { s with lock := some (.write w.tid) })
          threads := { w.exec.threads with threads :=
            (w.exec.threads.threads.mapIdx fun i th =>
              if i = w.tid then { th with causality := th.causality.join s.sync.hb }
              else if th.operation.any (fun op => op.obj == o && op.blocking) then th.setBlocked
              else th) } } },
       true) := by
  unfold World.postAcquireWrite
  simp only [getRw_of h, hl, bind, Except.bind, pure, Except.pure, Option.isSome_none,
    Bool.false_eq_true, if_false]
  rw [acquire_normal_form]

/-! ### `release_write_lock`, `release_read_lock` -/

theorem releaseWrite_eq {w : World} {o : Nat} {s : RwSt}
    (h : w.exec.objs[o]? = some (.rwlock s)) :
    w.releaseWrite o = .ok
      { w with exec := { w.exec with
          objs := w.exec.objs.set o (.rwlock { s with
            lock := none, sync := s.sync.store w.ths.activeT.released w.ths.caus .rel })
          threads := { w.exec.threads with threads :=
            (w.exec.threads.threads.mapIdx fun i th =>
              if i = w.tid then th
              else if th.operation.any (fun op => op.obj == o) then th.wake else th) } } } := by
  unfold World.releaseWrite
  simp only [getRw_of h, bind, Except.bind, pure, Except.pure]
  rw [wake_normal_form]
  rfl

/-- the last reader leaves: the lock becomes free and the pending threads are made runnable -/
theorem releaseRead_last {w : World} {o : Nat} {s : RwSt} {rs : List Nat}
    (h : w.exec.objs[o]? = some (.rwlock s)) (hl : s.lock = some (.read rs))
    (he : rs.filter (· != w.tid) = []) :
    w.releaseRead o = .ok
      { w with exec := { w.exec with
          objs := w.exec.objs.set o (.rwlock { s with
            lock := none, sync := s.sync.store w.ths.activeT.released w.ths.caus .rel })
          threads := { w.exec.threads with threads :=
            (w.exec.threads.threads.mapIdx fun i th =>
              if i = w.tid then th
              else if th.operation.any (fun op => op.obj == o) then th.wake else th) } } } := by
  unfold World.releaseRead
  simp only [getRw_of h, hl, he, bind, Except.bind, pure, Except.pure, List.isEmpty_nil, if_true]
  rw [wake_normal_form]
  rfl

/-- other readers remain: only the reader set and the clock of the lock change; nobody is woken -/
theorem releaseRead_more {w : World} {o : Nat} {s : RwSt} {rs : List Nat}
    (h : w.exec.objs[o]? = some (.rwlock s)) (hl : s.lock = some (.read rs))
    (he : rs.filter (· != w.tid) ≠ []) :
    w.releaseRead o = .ok
      (w.setObj o (.rwlock { s with
        lock := some (.read (rs.filter (· != w.tid))),
        sync := s.sync.store w.ths.activeT.released w.ths.caus .rel })) := by
  unfold World.releaseRead
  have : (rs.filter (· != w.tid)).isEmpty = false := by
    cases hf : rs.filter (· != w.tid) with
    | nil => exact absurd hf he
    | cons a l => rfl
  simp only [getRw_of h, hl, this, bind, Except.bind, pure, Except.pure, Bool.false_eq_true,
    if_false]
  rfl

/-- not read-locked: "invalid internal loom state" -/
theorem releaseRead_invalid {w : World} {o : Nat} {s : RwSt}
    (h : w.exec.objs[o]? = some (.rwlock s)) (hl : ∀ rs, s.lock ≠ some (.read rs)) :
    w.releaseRead o = .error .invalidRw := by
  unfold World.releaseRead
  simp only [getRw_of h, bind, Except.bind]
  rfl

end C07
end LoomVerif

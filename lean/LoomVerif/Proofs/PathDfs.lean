/-
Parts C, D, F of C14: exploration runs, the `Covered` invariant, no repetition, depth-first
order, iteration count.
-/
import LoomVerif.Proofs.PathStep

namespace LoomVerif

/-! ### exclusion sets are stable under `Same` -/

namespace Entry

theorem sched_isSome_iff {s : Sched} (hw : s.WF) :
    s.activeIdx.isSome = true ↔ (sched s).dec < NT := by
  simp only [dec]
  cases ha : s.activeIdx with
  | none => simp
  | some a =>
    have := findIdx?_lt ha
    rw [hw.len] at this
    simpa using this

theorem Same.excl {e e' : Entry} (h : Same e e') (hw : e.WF) (hw' : e'.WF) :
    e'.excl = e.excl := by
  cases e with
  | sched s =>
    cases e' with
    | sched s' =>
      have h1 := sched_isSome_iff (s := s) hw
      have h2 := sched_isSome_iff (s := s') hw'
      have ht : s'.visitedIdx = s.visitedIdx := h.tried
      rw [h.dec] at h2
      have : s'.activeIdx.isSome = s.activeIdx.isSome := by
        rw [Bool.eq_iff_iff, h1, h2]
      simp only [Entry.excl, this, ht]
    | load _ => cases h.kind
    | spur _ => cases h.kind
  | load l =>
    cases e' with
    | sched _ => cases h.kind
    | load l' => exact h.tried
    | spur _ => cases h.kind
  | spur p =>
    cases e' with
    | sched _ => cases h.kind
    | load _ => cases h.kind
    | spur p' => exact h.tried

end Entry

namespace Path

/-! ### the `Covered` invariant -/

/-- the decision vector `h` of an earlier iteration is excluded by the stack `s`: at some
position `k` they agree on everything above and `h`'s decision at `k` is excluded there -/
def Covered (h : List Nat) (s : List Entry) : Prop :=
  ∃ k, ∃ hk : k < s.length, (∀ i, i < k → h[i]? = (s.map Entry.dec)[i]?) ∧
    ∃ d, h[k]? = some d ∧ d ∈ (s[k]).excl

theorem covered_ne {h : List Nat} {s : List Entry} (hc : Covered h s)
    (hf : ∀ e ∈ s, e.WF) : h ≠ s.map Entry.dec := by
  rintro rfl
  obtain ⟨k, hk, _, d, hd, hmem⟩ := hc
  have : (s.map Entry.dec)[k]? = some (s[k]).dec := by simp [hk]
  rw [this] at hd
  cases hd
  exact Entry.dec_not_mem_excl (hf _ (List.getElem_mem hk)) hmem

theorem covered_frame {h : List Nat} {p q : Path} (hc : Covered h p.branches)
    (hr : Frame p q) (hw : p.WF) : Covered h q.branches := by
  obtain ⟨k, hk, hpre, d, hd, hmem⟩ := hc
  have hlen := hr.len
  have hwq := hr.wf hw
  refine ⟨k, by omega, ?_, d, hd, ?_⟩
  · intro i hi
    rw [hpre i hi]
    have h1 : i < p.branches.length := by omega
    have h2 : i < q.branches.length := by omega
    simp [h1, h2, (hr.same i h1).dec]
  · rw [(hr.same k hk).excl (hw _ (List.getElem_mem hk)) (hwq _ (List.getElem_mem _))]
    exact hmem

theorem covered_step {h : List Nat} {pre suf : List Entry} {e e' : Entry}
    (hex : ∀ d, d = e.dec ∨ d ∈ e.excl → d ∈ e'.excl)
    (hc : Covered h (pre ++ e :: suf) ∨ h = (pre ++ e :: suf).map Entry.dec) :
    Covered h (pre ++ [e']) := by
  have key : ∀ i, i < pre.length →
      ((pre ++ e :: suf).map Entry.dec)[i]? = ((pre ++ [e']).map Entry.dec)[i]? := by
    intro i hi; simp [List.getElem?_append_left, hi]
  have hm : pre.length < (pre ++ [e']).length := by simp
  have hat : (pre ++ [e'])[pre.length]'hm = e' := by simp
  have hat0 : ((pre ++ e :: suf).map Entry.dec)[pre.length]? = some e.dec := by simp
  -- the finishing move: h agrees with the old stack up to and including position |pre|
  have finish : (∀ i, i ≤ pre.length → h[i]? = ((pre ++ e :: suf).map Entry.dec)[i]?) →
      Covered h (pre ++ [e']) := by
    intro hag
    refine ⟨pre.length, hm, ?_, e.dec, ?_, ?_⟩
    · intro i hi; rw [hag i (by omega), key i hi]
    · rw [hag _ (Nat.le_refl _), hat0]
    · rw [hat]; exact hex _ (Or.inl rfl)
  rcases hc with hc | rfl
  · obtain ⟨k, hk, hpre, d, hd, hmem⟩ := hc
    by_cases hlt : k < pre.length
    · refine ⟨k, by simp; omega, ?_, d, hd, ?_⟩
      · intro i hi; rw [hpre i hi, key i (by omega)]
      · simpa [List.getElem_append_left, hlt] using hmem
    · by_cases heq : k = pre.length
      · subst heq
        refine ⟨pre.length, hm, ?_, d, hd, ?_⟩
        · intro i hi; rw [hpre i hi, key i hi]
        · rw [hat]
          have : d ∈ e.excl := by simpa using hmem
          exact hex _ (Or.inr this)
      · apply finish
        intro i hi; exact hpre i (by omega)
  · exact finish (fun _ _ => rfl)

/-! ### `step` preserves well-formedness and the configuration -/

theorem step_wf {q p' : Path} (h : q.step = some p') (hw : q.WF) : p'.WF := by
  obtain ⟨pre, e, suf, e', h1, h2, _, rfl⟩ := (step_eq_some _ _).1 h
  intro x hx
  simp only [restart, List.mem_append, List.mem_singleton] at hx
  rcases hx with hx | rfl
  · exact hw x (by rw [h1]; simp [hx])
  · exact Entry.advance_wf h2 (hw e (by rw [h1]; simp))

theorem step_fields {q p' : Path} (h : q.step = some p') :
    p'.cap = q.cap ∧ p'.bound = q.bound ∧ p'.exploringOnStart = q.exploringOnStart ∧
      p'.pos = 0 ∧ p'.exploring = q.exploringOnStart ∧ p'.skipping = false := by
  obtain ⟨pre, e, suf, e', _, _, _, rfl⟩ := (step_eq_some _ _).1 h
  exact ⟨rfl, rfl, rfl, rfl, rfl, rfl⟩

theorem step_length {q p' : Path} (h : q.step = some p') :
    p'.branches.length ≤ q.branches.length := by
  obtain ⟨pre, e, suf, e', h1, _, _, rfl⟩ := (step_eq_some _ _).1 h
  simp [restart, h1]

/-! ### exploration runs -/

/-- A (prefix of a) run of `Builder::check`: starting with the stack `p`, an iteration
(related to its start by `R`) ends with the stack `q`; then `Path.step` either yields the start
of the next iteration or the run is over.  The list collects the end-of-iteration stacks. -/
inductive Explore (R : Path → Path → Prop) : Path → List Path → Prop
  | last {p q : Path} : R p q → Explore R p [q]
  | next {p q p' : Path} {qs : List Path} :
      R p q → q.step = some p' → Explore R p' qs → Explore R p (q :: qs)

/-- the run is complete: `Path.step` returned `false` after the last iteration -/
def Finished (qs : List Path) : Prop := ∃ q, qs.getLast? = some q ∧ q.step = none

theorem Explore.mono {R R' : Path → Path → Prop} (hRR : ∀ p q, R p q → R' p q)
    {p : Path} {qs : List Path} (h : Explore R p qs) : Explore R' p qs := by
  induction h with
  | last hr => exact .last (hRR _ _ hr)
  | next hr hs _ ih => exact .next (hRR _ _ hr) hs ih

theorem Explore.head {R : Path → Path → Prop} {p : Path} {qs : List Path}
    (h : Explore R p qs) : ∃ q rest, qs = q :: rest ∧ R p q := by
  cases h with
  | last hr => exact ⟨_, _, rfl, hr⟩
  | next hr _ _ => exact ⟨_, _, rfl, hr⟩

theorem Explore.ne_nil {R : Path → Path → Prop} {p : Path} {qs : List Path}
    (h : Explore R p qs) : qs ≠ [] := by
  obtain ⟨_, _, rfl, _⟩ := h.head; simp

theorem Explore.wf {p : Path} {qs : List Path} (h : Explore Frame p qs) (hw : p.WF) :
    ∀ q ∈ qs, q.WF := by
  induction h with
  | last hr => intro q hq; simp only [List.mem_singleton] at hq; subst hq; exact hr.wf hw
  | next hr hs _ ih =>
    intro q hq
    rcases List.mem_cons.1 hq with rfl | hq
    · exact hr.wf hw
    · exact ih (step_wf hs (hr.wf hw)) q hq

theorem Explore.cap {p : Path} {qs : List Path} (h : Explore Frame p qs) :
    ∀ q ∈ qs, q.cap = p.cap := by
  induction h with
  | last hr => intro q hq; simp only [List.mem_singleton] at hq; subst hq; exact hr.cap
  | next hr hs _ ih =>
    intro q hq
    rcases List.mem_cons.1 hq with rfl | hq
    · exact hr.cap
    · rw [ih q hq, (step_fields hs).1, hr.cap]

/-! ### C: no execution is repeated -/

theorem no_repeat_aux {p : Path} {qs : List Path} (h : Explore Frame p qs) :
    ∀ (H : List (List Nat)), p.WF → (∀ v ∈ H, Covered v p.branches) →
      (∀ v ∈ H, ∀ q ∈ qs, v ≠ D q) ∧ (qs.map D).Pairwise (· ≠ ·) := by
  induction h with
  | last hr =>
    intro H hw hc
    refine ⟨?_, by simp⟩
    intro v hv q hq
    simp only [List.mem_singleton] at hq; subst hq
    exact covered_ne (covered_frame (hc v hv) hr hw) (hr.wf hw)
  | @next p q p' qs hr hs _ ih =>
    intro H hw hc
    have hwq := hr.wf hw
    have hcq : ∀ v ∈ H, Covered v q.branches := fun v hv => covered_frame (hc v hv) hr hw
    obtain ⟨pre, e, suf, e', h1, h2, _, hp'⟩ := (step_eq_some _ _).1 hs
    have hc' : ∀ v ∈ D q :: H, Covered v p'.branches := by
      intro v hv
      rw [hp']
      show Covered v (pre ++ [e'])
      apply covered_step (Entry.advance_excl h2) (suf := suf)
      rcases List.mem_cons.1 hv with rfl | hv
      · exact Or.inr (by simp [D, h1])
      · exact Or.inl (by rw [← h1]; exact hcq v hv)
    obtain ⟨ih1, ih2⟩ := ih (D q :: H) (step_wf hs hwq) hc'
    refine ⟨?_, ?_⟩
    · intro v hv q' hq'
      rcases List.mem_cons.1 hq' with rfl | hq'
      · exact covered_ne (hcq v hv) hwq
      · exact ih1 v (List.mem_cons_of_mem _ hv) q' hq'
    · rw [List.map_cons, List.pairwise_cons]
      refine ⟨?_, ih2⟩
      intro v hv
      obtain ⟨q', hq', rfl⟩ := List.mem_map.1 hv
      exact ih1 (D q) (by simp) q' hq'

/-- the decision vectors of the iterations of a run that starts with an empty (more generally:
well-formed) stack are pairwise different -/
theorem no_repeat_frame {p : Path} {qs : List Path} (h : Explore Frame p qs) (hw : p.WF) :
    (qs.map D).Pairwise (· ≠ ·) :=
  (no_repeat_aux h [] hw (by simp)).2

/-! ### D: depth-first order -/

/-- `q'` is the end of the iteration that follows the iteration ending in `q`: with `m` the
deepest entry of `q` that has an alternative left, both took the same decisions above `m`,
and at `m` the new iteration takes a decision that is neither the old one nor one that was
exhausted (or excluded) before. -/
def DfsNext (q q' : Path) : Prop :=
  ∃ (m : Nat) (hm : m < q.branches.length) (hm' : m < q'.branches.length),
    (q.branches[m].advance).isSome = true ∧
    (∀ j (hj : j < q.branches.length), m < j → q.branches[j].advance = none) ∧
    (D q').take m = (D q).take m ∧
    q'.branches[m].dec ≠ q.branches[m].dec ∧
    q'.branches[m].dec ∉ q.branches[m].tried ∧
    q'.branches[m].dec ∉ q.branches[m].excl ∧
    (∀ d, d = q.branches[m].dec ∨ d ∈ q.branches[m].tried → d ∈ q'.branches[m].excl)

theorem dfsNext_of_step {q p' q' : Path} (hs : q.step = some p') (hr : Frame p' q')
    (hw : q.WF) : DfsNext q q' := by
  have hwp' := step_wf hs hw
  have hwq' := hr.wf hwp'
  obtain ⟨pre, e, suf, e', h1, h2, h3, rfl⟩ := (step_eq_some _ _).1 hs
  have hlen := hr.len
  simp only [restart, List.length_append, List.length_singleton] at hlen
  have hm : pre.length < q.branches.length := by simp [h1]
  have hqm : q.branches[pre.length] = e := by simp [h1]
  have hsame := hr.same pre.length (by simp [restart])
  have hp'm : (q.restart (pre ++ [e'])).branches[pre.length]'(by simp [restart]) = e' := by
    simp [restart]
  rw [hp'm] at hsame
  have hew : e.WF := hw e (by rw [h1]; simp)
  have hnew := Entry.advance_dec_new h2 hew
  have hexcl := hsame.excl (hwp' _ (by simp [restart])) (hwq' _ (List.getElem_mem _))
  refine ⟨pre.length, hm, by omega, by rw [hqm, h2]; rfl, ?_, ?_, ?_, ?_, ?_, ?_⟩
  · intro j hj hmj
    apply h3
    have : q.branches[j] = suf[j - pre.length - 1]'(by simp [h1] at hj; omega) := by
      simp only [h1]
      rw [List.getElem_append_right (by omega), List.getElem_cons]
      simp [show ¬ j - pre.length = 0 by omega]
    rw [this]; exact List.getElem_mem _
  · apply List.ext_getElem
    · simp [D, h1]; omega
    · intro i hi1 hi2
      have hi : i < pre.length := by simp at hi1; omega
      have := (hr.same i (by simp [restart]; omega)).dec
      simp only [restart, List.getElem_append_left hi] at this
      simp [D, h1, this]
  · rw [hqm, hsame.dec]; exact hnew.1
  · rw [hqm, hsame.dec]; exact hnew.2.2.1
  · rw [hqm, hsame.dec]; exact hnew.2.1
  · rw [hqm, hexcl]
    intro d hd
    apply Entry.advance_excl h2
    rcases hd with hd | hd
    · exact Or.inl hd
    · exact Or.inr (Entry.tried_subset_excl _ _ hd)

theorem dfs_order_frame {p : Path} {qs : List Path} (h : Explore Frame p qs) (hw : p.WF) :
    ∀ i (hi : i + 1 < qs.length), DfsNext qs[i] qs[i + 1] := by
  induction h with
  | last hr => intro i hi; simp at hi
  | @next p q p' qs hr hs hrest ih =>
    intro i hi
    have hwq := hr.wf hw
    cases i with
    | zero =>
      obtain ⟨q1, rest, rfl, hr1⟩ := hrest.head
      exact dfsNext_of_step hs hr1 hwq
    | succ n =>
      simp only [List.length_cons] at hi
      simpa using ih (step_wf hs hwq) n (by omega)

/-- consecutive decision vectors differ -/
theorem DfsNext.ne {q q' : Path} (h : DfsNext q q') : D q ≠ D q' := by
  obtain ⟨m, hm, hm', _, _, _, hne, _⟩ := h
  intro heq
  apply hne
  have : (D q')[m]'(by simpa [D] using hm') = (D q)[m]'(by simpa [D] using hm) := by
    simp only [heq]
  simpa [D] using this

/-! ### F: counting -/

/-- remove duplicates (keeps the last occurrence of every element) -/
def dedup {α} [DecidableEq α] : List α → List α
  | [] => []
  | a :: l => if a ∈ l then dedup l else a :: dedup l

theorem mem_dedup {α} [DecidableEq α] (l : List α) (a : α) : a ∈ dedup l ↔ a ∈ l := by
  induction l with
  | nil => simp [dedup]
  | cons x xs ih =>
    simp only [dedup]
    split
    · rename_i hx
      rw [ih, List.mem_cons]
      constructor
      · exact Or.inr
      · rintro (rfl | h)
        · exact hx
        · exact h
    · simp [ih]

theorem nodup_dedup {α} [DecidableEq α] (l : List α) : (dedup l).Nodup := by
  induction l with
  | nil => simp [dedup]
  | cons x xs ih =>
    simp only [dedup]
    split
    · exact ih
    · rename_i hx
      rw [List.nodup_cons]
      exact ⟨by rwa [mem_dedup], ih⟩

theorem dedup_eq_self {α} [DecidableEq α] (l : List α) (h : l.Pairwise (· ≠ ·)) :
    dedup l = l := by
  induction l with
  | nil => rfl
  | cons x xs ih =>
    rw [List.pairwise_cons] at h
    have hx : x ∉ xs := fun hm => h.1 x hm rfl
    simp [dedup, hx, ih h.2]

/-- number of distinct elements of a list -/
def distinctCount {α} [DecidableEq α] (l : List α) : Nat := (dedup l).length

theorem count_frame {p : Path} {qs : List Path} (h : Explore Frame p qs) (hw : p.WF) :
    distinctCount (qs.map D) = qs.length := by
  unfold distinctCount
  rw [dedup_eq_self _ (no_repeat_frame h hw)]
  simp

end Path
end LoomVerif

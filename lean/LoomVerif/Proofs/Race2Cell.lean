/-
Race exactness on the WAIT fragment, part 9: `cellRead` and `cellWrite`: the race check of the twin (`ahead`) fires
exactly when the race check of the reference (`ble`) fails.
-/
import LoomVerif.Proofs.Race2Lock

namespace LoomVerif
namespace Race2
open Refine Refine2 Sy C07 C08 Clocks Race

theorem sync_tuc (w : World) (i : Nat) : tuc w.sync i = tuc w i := by
  unfold tuc; rw [sync_get]; split <;> rfl

theorem sync_ttok (w : World) (i : Nat) : ttok w.sync i = ttok w i := by
  unfold ttok; rw [sync_get]; split <;> rfl

theorem cell_ne_ntf (w : World) {c : Nat} (hc : c < w.prog.cfg.nCells) (n : Nat) : w.notifyObj n ≠ w.cellObj c := by
  unfold World.notifyObj World.cvObj World.rwObj World.mutexObj World.cellObj World.cfg; omega

theorem cell_ne_chan (w : World) {c : Nat} (hc : c < w.prog.cfg.nCells) (n : Nat) : w.chanObj n ≠ w.cellObj c := by
  unfold World.chanObj World.notifyObj World.cvObj World.rwObj World.mutexObj World.cellObj World.cfg; omega

section
variable {w w' : World} {s : SC.St}

/-- the cells are idle: `cellRead` spelled out -/
theorem runOp_cellRead_eq2 (hRC : RC2 w s) {ci : Nat} (hci : ci < w.prog.cfg.nCells) :
    ∃ cs, w.exec.objs[w.cellObj ci]? = some (.cell cs) ∧ cs.isReading = 0 ∧ cs.isWriting = false ∧
      w.runOp (w.ctlOf w.tid) (.cellRead ci) =
        if (w.sync.ths.caus.ahead cs.writeAccess).isSome then .error (.causality 9)
        else .ok ((w.sync.setObj (w.cellObj ci)
          (.cell { cs with readAccess := cs.readAccess.join w.sync.ths.caus })).complete (.val cs.value)) := by
  obtain ⟨cs, h1, h2, h3⟩ := hRC.inv.cb ci hci
  refine ⟨cs, h1, h2, h3, ?_⟩
  rw [runOp_cellRead]
  have hg : w.sync.getCell (w.cellObj ci) = .ok cs := by
    have h1' : w.sync.exec.objs[w.cellObj ci]? = some (.cell cs) := h1
    unfold World.getCell
    rw [h1']
  rw [hg]
  simp only [bind, Except.bind, h3, Bool.false_eq_true, if_false, pure, Except.pure, throw, throwThe,
    MonadExceptOf.throw]

theorem runOp_cellWrite_eq2 (hRC : RC2 w s) {ci : Nat} (v : Int) (hci : ci < w.prog.cfg.nCells) :
    ∃ cs, w.exec.objs[w.cellObj ci]? = some (.cell cs) ∧ cs.isReading = 0 ∧ cs.isWriting = false ∧
      w.runOp (w.ctlOf w.tid) (.cellWrite ci v) =
        if (w.sync.ths.caus.ahead cs.writeAccess).isSome then .error (.causality 10)
        else if (w.sync.ths.caus.ahead cs.readAccess).isSome then .error (.causality 11)
        else .ok ((w.sync.setObj (w.cellObj ci)
          (.cell { cs with writeAccess := cs.writeAccess.join w.sync.ths.caus, value := v })).complete .unit) := by
  obtain ⟨cs, h1, h2, h3⟩ := hRC.inv.cb ci hci
  refine ⟨cs, h1, h2, h3, ?_⟩
  rw [runOp_cellWrite]
  have hg : w.sync.getCell (w.cellObj ci) = .ok cs := by
    have h1' : w.sync.exec.objs[w.cellObj ci]? = some (.cell cs) := h1
    unfold World.getCell
    rw [h1']
  rw [hg]
  simp only [bind, Except.bind, h2, h3, bne_self_eq_false, Bool.or_self, Bool.false_eq_true, if_false, pure,
    Except.pure, throw, throwThe, MonadExceptOf.throw]

/-- the clock systems after the tick both sides perform at a cell access -/
theorem ticked2 (hRC : RC2 w s) (hact : w.tid < w.ctl.length) {σT σR : CS} {mT mR : Nat → List VV}
    (hc : Clk w s σT σR mT mR) (hp : pendClk w σT w.tid = VV.zero) :
    Good (σT.tick w.tid) ∧ Good (σR.tick (body w w.tid)) ∧
    XInv w.ctl.length (body w) (σT.tick w.tid) (σR.tick (body w w.tid)) ∧
    Strict (σT.tick w.tid) w.tid ∧ Strict (σR.tick (body w w.tid)) (body w w.tid) ∧
    (σT.tick w.tid).thr w.tid = w.sync.ths.caus ∧
    LinkR2 w.prog (s.tick (body w w.tid)) (σR.tick (body w w.tid)) mR ∧
    (∀ q Z, q < w.prog.cfg.nChans → Z ∈ mT q →
      SideGood (σT.tick w.tid) Z ∧ Z.get w.tid < ((σT.tick w.tid).thr w.tid).get w.tid) ∧
    (∀ q Z, q < w.prog.cfg.nChans → Z ∈ mR q → SideGood (σR.tick (body w w.tid)) Z ∧
      Z.get (body w w.tid) < ((σR.tick (body w w.tid)).thr (body w w.tid)).get (body w w.tid)) := by
  have hle := ctl_le2 hRC.r
  have ht5 : w.tid < 5 := by have := hRC.nt; omega
  have hb5 : body w w.tid < 5 := by have := body_lt2 hRC.r hact; have := hRC.nt; omega
  have hX1 := hc.x.tickT hc.gt hc.gr w.tid hact
  have hX2 := hX1.tickR (hc.gt.tick _) hc.gr (inj_body2 hRC.r) w.tid hact
  refine ⟨hc.gt.tick _, hc.gr.tick _, hX2, hc.gt.strict_tick _ ht5, hc.gr.strict_tick _ hb5, ?_,
    hc.lr.tick (body_lt_ths2 hRC.r hact), ?_, ?_⟩
  · rw [sync_caus w (nthr_tid2 hRC hact), ← eq_caus2 hc.lt (nthr_tid2 hRC hact) hp]
    exact upd_self _ _ _
  · intro q Z hq hZ
    exact ⟨(hc.mgt q Z hq hZ).tick _, (hc.mgt q Z hq hZ).strict_tick _ ht5⟩
  · intro q Z hq hZ
    exact ⟨(hc.mgr q Z hq hZ).tick _, (hc.mgr q Z hq hZ).strict_tick _ hb5⟩

/-- membership of related lists -/
theorem All2.mem_strict {α β : Type} {r : α → β → Prop} {l1 : List α} {l2 : List β} (h : All2 r l1 l2)
    {P : α → Prop} {Q : β → Prop} (hP : ∀ a, a ∈ l1 → P a) (hQ : ∀ b, b ∈ l2 → Q b) :
    All2 (fun a b => r a b ∧ P a ∧ Q b) l1 l2 := by
  induction h with
  | nil => exact .nil
  | cons hab _ ih =>
    exact .cons ⟨hab, hP _ List.mem_cons_self, hQ _ List.mem_cons_self⟩
      (ih (fun a ha => hP a (List.mem_cons_of_mem _ ha)) (fun b hb => hQ b (List.mem_cons_of_mem _ hb)))

/-- the twin-side transfer and the new clock systems for a cell access: both sides tick and record -/
theorem cell_parts (hRC : RC2 w s) (hact : w.tid < w.ctl.length) {op : Op} (hop : opAt2 w = some op)
    (hn1 : ∀ n, op ≠ .nWait n) (hn2 : op ≠ .park) (hn3 : ∀ b, op ≠ .join b)
    {ci : Nat} (hci : ci < w.prog.cfg.nCells)
    {cs cs' : CellSt} (hobj : w.exec.objs[w.cellObj ci]? = some (.cell cs))
    (h1 : cs'.isReading = cs.isReading) (h2 : cs'.isWriting = cs.isWriting) (k : Bool)
    (hk : accOf k (.cell cs') = (accOf k (.cell cs)).join w.sync.ths.caus)
    (hk' : accOf (!k) (.cell cs') = accOf (!k) (.cell cs)) (r : Ret) {s' : SC.St}
    (hs' : ∀ σR mR, LinkR2 w.prog (s.tick (body w w.tid)) σR mR →
      LinkR2 w.prog s' (σR.record k (body w w.tid) ci) mR)
    (hv : s'.verdict = none) (hnd : ∀ q, s'.rxDropped.getD q false = false) :
    NewSt w ((w.sync.setObj (w.cellObj ci) (.cell cs')).complete r) s' := by
  obtain ⟨σT, σR, mT, mR, hc⟩ := hRC.clk
  have ht := nthr_tid2 hRC hact
  have hpc : pendClk w σT w.tid = VV.zero := pendClk_of_op (by rw [opAtI_tid2]; exact hop) hn1 hn2 hn3
  obtain ⟨hGT1, hGR1, hX1, hsT, hsR, hσt, hLR1, hmT, hmR⟩ := ticked2 hRC hact hc hpc
  have hlt : w.cellObj ci < w.exec.objs.length := (List.getElem?_eq_some_iff.1 hobj).1
  have hI := complete_core2 (w' := (w.sync.setObj (w.cellObj ci) (.cell cs')).complete r) hRC hact hop hc.lt
    (σT' := (σT.tick w.tid).record k w.tid ci) (mT' := mT)
    (w.sync.setObj (w.cellObj ci) (.cell cs')) r rfl rfl rfl rfl rfl (sync_len w)
    (by show (w.exec.objs.set _ _).length = _; simp)
    (fun i hi => ⟨⟨sync_tcaus_ne w hi, sync_trel w i, sync_tuc w i, sync_ttok w i⟩, sync_topo w i⟩)
    (sync_trel w _) (sync_topo w _) (sync_tuc w _) (sync_ttok w _)
    (by
      show (tcaus w w.tid).le (tcaus w.sync w.tid)
      rw [sync_tcaus_self w ht]; exact le_inc _ _)
    (by
      intro i hi
      show upd σT.thr w.tid _ i = _
      rw [upd_ne _ _ hi])
    (by
      show (σT.tick w.tid).thr w.tid = tcaus w.sync w.tid
      rw [hσt]; rfl)
    (fun _ => le_refl _) (fun _ => rfl)
    (by intro n hn; rw [pend_none_of_op2 hop hn3] at hn; cases hn)
    (by
      intro b j n _
      exact objHb_set_same _ hobj (x' := .cell cs') rfl n)
    (by
      intro m _
      exact .inl ⟨SameObj.set_ne _ _ (cell_ne_mtx w hci), rfl⟩)
    (by
      intro n _
      exact .inl ⟨SameObj.set_ne _ _ (cell_ne_ntf w hci n), rfl⟩)
    (by
      intro q _
      exact .inl ⟨SameObj.set_ne _ _ (cell_ne_chan w hci q), rfl, rfl⟩)
    (by
      intro c hc'
      have hacc : ∀ k'' c'', (σT.tick w.tid).acc k'' c'' = σT.acc k'' c'' := fun _ _ => rfl
      by_cases ec : c = ci
      · subst ec
        right
        refine ⟨?_, ?_⟩
        · intro k'
          show (if k' = k ∧ c = c then ((σT.tick w.tid).acc k c).join ((σT.tick w.tid).thr w.tid)
            else (σT.tick w.tid).acc k' c) = objAcc (w.exec.objs.set _ _) k' (w.cellObj c)
          rw [objAcc_set_self _ _ _ hlt]
          by_cases ek : k' = k
          · subst ek
            rw [if_pos ⟨rfl, rfl⟩, hk, hσt, hacc, hc.lt.acc k' c hc', objAcc_of k' hobj]
          · rw [if_neg (fun hh => ek hh.1), hacc, hc.lt.acc k' c hc', objAcc_of k' hobj]
            have : k' = !k := by cases k' <;> cases k <;> simp_all
            rw [this, hk']
        · exact cellIdle_set _ hobj h1 h2 (hRC.inv.cb c hc')
      · left
        refine ⟨SameObj.set_ne _ _ (fun e => ec (cellObj_inj w e)), ?_⟩
        intro k'
        show (if k' = k ∧ c = ci then _ else (σT.tick w.tid).acc k' c) = _
        rw [if_neg (fun hh => ec hh.2)]; rfl)
  refine newSt_complete hact _ r rfl rfl hv hnd ⟨hI.1, hI.2.1⟩ hI.2.2 (hs' _ _ hLR1)
    (hGT1.record k w.tid ci hsT) (hGR1.record k _ ci hsR)
    (hX1.record (inj_body2 hRC.r) k w.tid ci hact hsT hsR) ?_ ?_ ?_
  · intro q hq
    have hall := (hc.mx q hq).mem_strict (fun a ha => (hmT q a hq ha).2) (fun b hb => (hmR q b hq hb).2)
    exact hall.imp fun a b hh =>
      (hh.1.ev (T' := σT.tick w.tid) (R' := σR.tick (body w w.tid)) rfl rfl).record (inj_body2 hRC.r) k w.tid ci hact
        hh.2.1 hh.2.2
  · intro q Z hq hZ
    exact (hmT q Z hq hZ).1.record k w.tid ci (hmT q Z hq hZ).2
  · intro q Z hq hZ
    exact (hmR q Z hq hZ).1.record k _ ci (hmR q Z hq hZ).2

theorem clk_cellRead2 (hRC : RC2 w s) (hact : w.tid < w.ctl.length) {ci : Nat}
    (hop : opAt2 w = some (.cellRead ci)) (hci : ci < w.prog.cfg.nCells) :
    (w.runOp (w.ctlOf w.tid) (.cellRead ci) = .error (.causality 9) ∧
      SC.step w.prog s (body w w.tid) = [(s.tick (body w w.tid)).stop (.race 9)]) ∨
    (∃ w', w.runOp (w.ctlOf w.tid) (.cellRead ci) = .ok w' ∧ RealOut2 w s w') := by
  obtain ⟨σT, σR, mT, mR, hc⟩ := hRC.clk
  have hpc : pendClk w σT w.tid = VV.zero :=
    pendClk_of_op (by rw [opAtI_tid2]; exact hop) (by intro n; simp) (by simp) (by intro b; simp)
  obtain ⟨hGT1, hGR1, hX1, hsT, hsR, hσt, hLR1, _, _⟩ := ticked2 hRC hact hc hpc
  obtain ⟨cs, hobj, hr0, hw0, heq⟩ := runOp_cellRead_eq2 hRC hci
  have hC : pendCv w.prog (w.ctlOf w.tid) = none := pendCv_of_op hop (by simp)
  have hcv : (s.th (body w w.tid)).cvNotified = none := (frag_cv hRC hact hC).2
  have ho : SC.opOf w.prog s (body w w.tid) = some (.cellRead ci) := (opOf_eq2 hRC.r hact).trans hop
  have hstep := step_cellRead hcv ho
  rw [hc.lr.opnW ci] at hstep
  simp only [Bool.false_eq_true, if_false] at hstep
  have hagree := race_agree hGT1 hGR1 hX1 true ci w.tid hact
  have hTacc : (σT.tick w.tid).acc true ci = cs.writeAccess := by
    show σT.acc true ci = _
    rw [hc.lt.acc true ci hci, objAcc_of true hobj]; rfl
  have hRacc : (σR.tick (body w w.tid)).acc true ci = s.cellW.getD ci VV.zero := hc.lr.accW ci
  have hRthr : (σR.tick (body w w.tid)).thr (body w w.tid) = (s.tick (body w w.tid)).vc (body w w.tid) :=
    hLR1.thr _
  rw [hTacc, hσt, hRacc, hRthr] at hagree
  by_cases hA : cs.writeAccess.le w.sync.ths.caus
  · right
    have h1 : (w.sync.ths.caus.ahead cs.writeAccess).isSome = false := (ahead_isSome_eq_false_iff _ _).2 hA
    have h2 : (s.cellW.getD ci VV.zero).ble ((s.tick (body w w.tid)).vc (body w w.tid)) = true :=
      (ble_iff _ _).2 (hagree.1 hA)
    rw [h1] at heq
    rw [h2] at hstep
    simp only [Bool.false_eq_true, if_false, Bool.not_true] at heq hstep
    refine ⟨_, heq, realOut_complete hRC hact hop (by intro n; simp) _ _ rfl rfl hstep ?_⟩
    exact cell_parts hRC hact hop (by intro n; simp) (by simp) (by intro b; simp) hci hobj
      (cs' := { cs with readAccess := cs.readAccess.join w.sync.ths.caus }) rfl rfl false rfl rfl (.val cs.value)
      (fun σ m hL => (hL.recordR hci).ret _ _) hRC.fs.1 hRC.nd
  · left
    have h1 : (w.sync.ths.caus.ahead cs.writeAccess).isSome = true := (ahead_isSome_iff _ _).2 hA
    have h2 : (s.cellW.getD ci VV.zero).ble ((s.tick (body w w.tid)).vc (body w w.tid)) = false := by
      cases hb : (s.cellW.getD ci VV.zero).ble ((s.tick (body w w.tid)).vc (body w w.tid))
      · rfl
      · exact absurd (hagree.2 ((ble_iff _ _).1 hb)) hA
    rw [h1] at heq
    rw [h2] at hstep
    exact ⟨heq, hstep⟩

theorem clk_cellWrite2 (hRC : RC2 w s) (hact : w.tid < w.ctl.length) {ci : Nat} {v : Int}
    (hop : opAt2 w = some (.cellWrite ci v)) (hci : ci < w.prog.cfg.nCells) :
    (w.runOp (w.ctlOf w.tid) (.cellWrite ci v) = .error (.causality 10) ∧
      SC.step w.prog s (body w w.tid) = [(s.tick (body w w.tid)).stop (.race 10)]) ∨
    (w.runOp (w.ctlOf w.tid) (.cellWrite ci v) = .error (.causality 11) ∧
      SC.step w.prog s (body w w.tid) = [(s.tick (body w w.tid)).stop (.race 11)]) ∨
    (∃ w', w.runOp (w.ctlOf w.tid) (.cellWrite ci v) = .ok w' ∧ RealOut2 w s w') := by
  obtain ⟨σT, σR, mT, mR, hc⟩ := hRC.clk
  have hpc : pendClk w σT w.tid = VV.zero :=
    pendClk_of_op (by rw [opAtI_tid2]; exact hop) (by intro n; simp) (by simp) (by intro b; simp)
  obtain ⟨hGT1, hGR1, hX1, hsT, hsR, hσt, hLR1, _, _⟩ := ticked2 hRC hact hc hpc
  obtain ⟨cs, hobj, hr0, hw0, heq⟩ := runOp_cellWrite_eq2 hRC v hci
  have hC : pendCv w.prog (w.ctlOf w.tid) = none := pendCv_of_op hop (by simp)
  have hcv : (s.th (body w w.tid)).cvNotified = none := (frag_cv hRC hact hC).2
  have ho : SC.opOf w.prog s (body w w.tid) = some (.cellWrite ci v) := (opOf_eq2 hRC.r hact).trans hop
  have hstep := step_cellWrite hcv ho
  rw [hc.lr.opnW ci, hc.lr.opnR ci] at hstep
  simp only [Bool.false_eq_true, if_false, bne_self_eq_false] at hstep
  have hagW := race_agree hGT1 hGR1 hX1 true ci w.tid hact
  have hagR := race_agree hGT1 hGR1 hX1 false ci w.tid hact
  have hTaccW : (σT.tick w.tid).acc true ci = cs.writeAccess := by
    show σT.acc true ci = _
    rw [hc.lt.acc true ci hci, objAcc_of true hobj]; rfl
  have hTaccR : (σT.tick w.tid).acc false ci = cs.readAccess := by
    show σT.acc false ci = _
    rw [hc.lt.acc false ci hci, objAcc_of false hobj]; rfl
  have hRaccW : (σR.tick (body w w.tid)).acc true ci = s.cellW.getD ci VV.zero := hc.lr.accW ci
  have hRaccR : (σR.tick (body w w.tid)).acc false ci = s.cellR.getD ci VV.zero := hc.lr.accR ci
  have hRthr : (σR.tick (body w w.tid)).thr (body w w.tid) = (s.tick (body w w.tid)).vc (body w w.tid) :=
    hLR1.thr _
  rw [hTaccW, hσt, hRaccW, hRthr] at hagW
  rw [hTaccR, hσt, hRaccR, hRthr] at hagR
  have bleF : ∀ a b : VV, ¬ a.le b → a.ble b = false := by
    intro a b h
    cases hb : a.ble b
    · rfl
    · exact absurd ((ble_iff _ _).1 hb) h
  by_cases hA : cs.writeAccess.le w.sync.ths.caus
  · have h1 : (w.sync.ths.caus.ahead cs.writeAccess).isSome = false := (ahead_isSome_eq_false_iff _ _).2 hA
    have h2 : (s.cellW.getD ci VV.zero).ble ((s.tick (body w w.tid)).vc (body w w.tid)) = true :=
      (ble_iff _ _).2 (hagW.1 hA)
    rw [h1] at heq
    rw [h2] at hstep
    simp only [Bool.false_eq_true, if_false, Bool.not_true] at heq hstep
    by_cases hB : cs.readAccess.le w.sync.ths.caus
    · right; right
      have h3 : (w.sync.ths.caus.ahead cs.readAccess).isSome = false := (ahead_isSome_eq_false_iff _ _).2 hB
      have h4 : (s.cellR.getD ci VV.zero).ble ((s.tick (body w w.tid)).vc (body w w.tid)) = true :=
        (ble_iff _ _).2 (hagR.1 hB)
      rw [h3] at heq
      rw [h4] at hstep
      simp only [Bool.false_eq_true, if_false, Bool.not_true] at heq hstep
      refine ⟨_, heq, realOut_complete hRC hact hop (by intro n; simp) _ _ rfl rfl hstep ?_⟩
      exact cell_parts hRC hact hop (by intro n; simp) (by simp) (by intro b; simp) hci hobj
        (cs' := { cs with writeAccess := cs.writeAccess.join w.sync.ths.caus, value := v }) rfl rfl true rfl rfl .unit
        (fun σ m hL => (hL.recordW hci _).ret _ _) hRC.fs.1 hRC.nd
    · right; left
      have h3 : (w.sync.ths.caus.ahead cs.readAccess).isSome = true := (ahead_isSome_iff _ _).2 hB
      have h4 := bleF _ _ (fun h => hB (hagR.2 h))
      rw [h3] at heq
      rw [h4] at hstep
      exact ⟨heq, hstep⟩
  · left
    have h1 : (w.sync.ths.caus.ahead cs.writeAccess).isSome = true := (ahead_isSome_iff _ _).2 hA
    have h2 := bleF _ _ (fun h => hA (hagW.2 h))
    rw [h1] at heq
    rw [h2] at hstep
    exact ⟨heq, hstep⟩

end

end Race2
end LoomVerif

/-
Deadlock soundness, WAIT fragment, part 3: how the waiting positions `Blk`, the per-thread invariant `JT2` and
the twin-side invariant `JB2` are transported along the elementary changes of a stage.

* `Blk.frame`: the objects change, every view whose awaited condition does not hold is kept (a condvar's waiter
  list may change if the thread stays in it);
* `Blk.frame_at`: object `o` changes, the thread's pending operation is not on `o`;
* `OpAt.blk_mutex`: a thread that is not running whose pending operation WAITS on a mutex is at `lock` or at the
  re-acquisition of `cvWait`; `OpAt.rx`: one whose pending operation is a `chanRecv` is at a receiver-side
  operation of that channel;
* `JB2.local`: a stage without scheduling point; `JB2.sched`: a scheduling point.
-/
import LoomVerif.Proofs.Deadlock2Sched
import LoomVerif.Proofs.DeadlockInv

namespace LoomVerif
namespace Deadlock2
open Refine Refine2 Sy Deadlock

/-! ### `Blk` -/

section
variable {p : Prog} {sp sp' : List (Nat × Nat × Nat)} {objs objs' : List Obj} {i : Nat} {th th' : Thread}
  {c : TCtl}

/-- what may happen to a view whose awaited condition does not hold, as far as thread `i` is concerned: it is
kept; or it is the waiter list of a condvar, in which thread `i` (if it is blocked by `rt::block`: `np`) stays;
or it is a `Notify` whose flag stays clear -/
def VKeep (i : Nat) (np : Prop) (v v' : OV2) : Prop :=
  v' = v ∨
  (∃ ws ws', v = .condvar ws ∧ v' = .condvar ws' ∧ (np → i ∈ ws → i ∈ ws')) ∨
  (∃ a d a' d', v = .notify a false d ∧ v' = .notify a' false d')

/-- **frame**: every view whose awaited condition does not hold is kept (`VKeep`) -/
theorem Blk.frame (h : Blk p sp objs i th c) (hsp : ∀ e, e ∈ sp → e ∈ sp')
    (hop : th'.operation = th.operation) (hpk : th'.parked = th.parked)
    (htk : th.parked = true → th'.token = th.token)
    (hv : ∀ n v, objView2 objs n = some v → Stuck v →
      ∃ v', objView2 objs' n = some v' ∧ VKeep i (th.parked = false) v v') :
    Blk p sp' objs' i th' c := by
  have keep : ∀ n v, objView2 objs n = some v → Stuck v → (∀ ws, v ≠ .condvar ws) →
      (∀ a d, v ≠ .notify a false d) → objView2 objs' n = some v := by
    intro n v h1 h2 h3 h4
    obtain ⟨v', hv', hk⟩ := hv n v h1 h2
    rcases hk with e | ⟨ws, _, e, _⟩ | ⟨a, d, _, _, e, _⟩
    · rw [hv', e]
    · exact absurd e (h3 ws)
    · exact absurd e (h4 a d)
  have keepN : ∀ n a d, objView2 objs n = some (.notify a false d) →
      ∃ a' d', objView2 objs' n = some (.notify a' false d') := by
    intro n a d h1
    obtain ⟨v', hv', hk⟩ := hv n _ h1 trivial
    rcases hk with e | ⟨ws, _, e, _⟩ | ⟨a0, d0, a', d', e, e'⟩
    · exact ⟨a, d, by rw [hv', e]⟩
    · cases e
    · exact ⟨a', d', by rw [hv', e']⟩
  cases h with
  | lock m l a b x d =>
    exact .lock m l a b (by rw [hop]; exact x)
      (keep _ _ d trivial (by intro _ e; cases e) (by intro _ _ e; cases e))
  | cvRe v m l a b x d =>
    exact .cvRe v m l a b (by rw [hop]; exact x)
      (keep _ _ d trivial (by intro _ e; cases e) (by intro _ _ e; cases e))
  | recv q bl qu a b x d =>
    exact .recv q bl qu a b (by rw [hop]; exact x)
      (keep _ _ d trivial (by intro _ e; cases e) (by intro _ _ e; cases e))
  | nWait n bl a' d' a b x d =>
    obtain ⟨a2, d2, h2⟩ := keepN _ _ _ d
    exact .nWait n bl a2 d2 a b (by rw [hop]; exact x) h2
  | join b t n bl a' d' a b' m x d =>
    obtain ⟨a2, d2, h2⟩ := keepN _ _ _ d
    exact .join b t n bl a2 d2 a b' (hsp _ m) (by rw [hop]; exact x) h2
  | park a b x y z =>
    exact .park a b (by rw [hop]; exact x) (by rw [hpk]; exact y) (by rw [htk y]; exact z)
  | cvQ v m ws a b x y d e =>
    obtain ⟨v', hv', hk⟩ := hv _ _ d trivial
    rcases hk with e0 | ⟨ws0, ws', e0, e1, hm⟩ | ⟨_, _, _, _, e0, _⟩
    · exact .cvQ v m ws a b (by rw [hop]; exact x) (by rw [hpk]; exact y) (by rw [hv', e0]) e
    · cases e0
      exact .cvQ v m ws' a b (by rw [hop]; exact x) (by rw [hpk]; exact y) (by rw [hv', e1]) (hm y e)
    · cases e0

/-- **frame at an object**: only object `o` changes; the thread's pending operation is not on `o`; if `o` is a
condvar the thread, if it is in its waiter list, stays in it -/
theorem Blk.frame_at (h : Blk p sp objs i th c) (o : Nat) (hsp : ∀ e, e ∈ sp → e ∈ sp')
    (hop : th'.operation = th.operation) (hpk : th'.parked = th.parked)
    (htk : th.parked = true → th'.token = th.token)
    (hno : ∀ op, th.operation = some op → op.obj ≠ o)
    (hq : ∀ ws, objView2 objs o = some (.condvar ws) → i ∈ ws →
      ∃ ws', objView2 objs' o = some (.condvar ws') ∧ i ∈ ws')
    (hv : ∀ n v, n ≠ o → objView2 objs n = some v → objView2 objs' n = some v) :
    Blk p sp' objs' i th' c := by
  cases h with
  | lock m l a b x d => exact .lock m l a b (by rw [hop]; exact x) (hv _ _ (hno _ x) d)
  | cvRe v m l a b x d => exact .cvRe v m l a b (by rw [hop]; exact x) (hv _ _ (hno _ x) d)
  | recv q bl qu a b x d => exact .recv q bl qu a b (by rw [hop]; exact x) (hv _ _ (hno _ x) d)
  | nWait n bl a' d' a b x d => exact .nWait n bl a' d' a b (by rw [hop]; exact x) (hv _ _ (hno _ x) d)
  | join b t n bl a' d' a b' m x d =>
    exact .join b t n bl a' d' a b' (hsp _ m) (by rw [hop]; exact x) (hv _ _ (hno _ x) d)
  | park a b x y z =>
    exact .park a b (by rw [hop]; exact x) (by rw [hpk]; exact y) (by rw [htk y]; exact z)
  | cvQ v m ws a b x y d e =>
    by_cases ho : cvIdx p v = o
    · rw [ho] at d
      obtain ⟨ws', h1, h2⟩ := hq ws d e
      exact .cvQ v m ws' a b (by rw [hop]; exact x) (by rw [hpk]; exact y) (by rw [ho]; exact h1) h2
    · exact .cvQ v m ws a b (by rw [hop]; exact x) (by rw [hpk]; exact y) (hv _ _ ho d) e

end

/-! ### `OpAt` -/

section
variable {p : Prog} {sp sp' : List (Nat × Nat × Nat)} {objs : List Obj} {i : Nat} {th : Thread} {c : TCtl}

theorem OpAt.mono {o : Option Operation} (h : OpAt p sp i c o) (hsp : ∀ e, e ∈ sp → e ∈ sp') :
    OpAt p sp' i c o := by
  unfold OpAt at h ⊢
  split
  · next hop =>
    rw [hop] at h
    simp only at h
    split
    · next hf =>
      rw [if_pos hf] at h
      obtain ⟨b, n, hm, e⟩ := h
      exact ⟨b, n, hsp _ hm, e⟩
    · next hf => rw [if_neg hf] at h; exact h
  · next op hop =>
    rw [hop] at h
    simp only at h
    cases op <;> simp only at h ⊢ <;> try exact h
    case join b =>
      split
      · next hs =>
        rw [if_pos hs] at h
        obtain ⟨t, n, bl, hm, e⟩ := h
        exact ⟨t, n, bl, hsp _ hm, e⟩
      · next hs => rw [if_neg hs] at h; exact h

/-- **a thread that is not running and WAITS on mutex `m0`** is past the branch point of `lock m0` or of the
re-acquisition of a `cvWait _ m0`: with the mutex held, it is at a waiting position -/
theorem OpAt.blk_mutex {op' : Operation} {m0 l : Nat} (h : OpAt p sp i c (some op'))
    (hb : op'.blocking = true) (ho : op'.obj = mutexIdx p m0) (hm0 : m0 < p.cfg.nMutexes)
    (hsep : ∀ b t n, (b, t, n) ∈ sp → n ≠ mutexIdx p m0)
    (hop : th.operation = some op')
    (hview : objView2 objs (mutexIdx p m0) = some (.mutex (some l))) : Blk p sp objs i th c := by
  obtain ⟨obj, act, blk⟩ := op'
  simp only at hb ho
  subst hb ho
  unfold OpAt at h
  split at h
  · split at h
    · obtain ⟨_, _, _, e⟩ := h; cases e
    · cases h
  · next op hopc =>
    cases op <;> simp only at h
    case lock m =>
      split at h
      · next hs =>
        have hm : m = m0 := by
          have := (Operation.mk.inj (Option.some.inj h)).1
          unfold mutexIdx at this; omega
        subst hm
        have ha := (Operation.mk.inj (Option.some.inj h)).2.1
        subst ha
        exact .lock m l hopc hs hop hview
      · cases h
    case tryLock m =>
      split at h
      · have := (Operation.mk.inj (Option.some.inj h)).2.2; cases this
      · cases h
    case join b =>
      split at h
      · obtain ⟨t, n, bl, hm, e⟩ := h
        have := (Operation.mk.inj (Option.some.inj e)).1
        exact absurd this.symm (hsep b t n hm)
      · cases h
    case send q v =>
      split at h
      · have := (Operation.mk.inj (Option.some.inj h)).2.2; cases this
      · cases h
    case recv q =>
      split at h
      · obtain ⟨bl, e⟩ := h
        have := (Operation.mk.inj (Option.some.inj e)).1
        unfold mutexIdx chanIdx notifyIdx cvIdx at this; omega
      · cases h
    case tryRecv q =>
      split at h
      · have := (Operation.mk.inj (Option.some.inj h)).2.2; cases this
      · cases h
    case dropRx q =>
      split at h
      · have := (Operation.mk.inj (Option.some.inj h)).2.2; cases this
      · cases h
    case nWait n =>
      split at h
      · obtain ⟨bl, e⟩ := h
        have := (Operation.mk.inj (Option.some.inj e)).1
        unfold mutexIdx notifyIdx cvIdx at this; omega
      · cases h
    case nNotify n =>
      split at h
      · have := (Operation.mk.inj (Option.some.inj h)).2.2; cases this
      · cases h
    case cvWait v m =>
      split at h
      · have := (Operation.mk.inj (Option.some.inj h)).2.2; cases this
      · split at h
        · next hs =>
          have hm : m = m0 := by
            have := (Operation.mk.inj (Option.some.inj h)).1
            unfold mutexIdx at this; omega
          subst hm
          have ha := (Operation.mk.inj (Option.some.inj h)).2.1
          subst ha
          exact .cvRe v m l hopc hs hop hview
        · cases h
    case cvOne v =>
      split at h
      · have := (Operation.mk.inj (Option.some.inj h)).2.2; cases this
      · cases h
    case cvAll v =>
      split at h
      · have := (Operation.mk.inj (Option.some.inj h)).2.2; cases this
      · cases h
    all_goals cases h

/-- a thread that is not running whose pending operation is a `chanRecv` on the object of channel `q0` is at a
receiver-side operation of `q0` -/
theorem OpAt.rx {op' : Operation} {q0 : Nat} (h : OpAt p sp i c (some op'))
    (ha : op'.action = .chanRecv) (ho : op'.obj = chanIdx p q0) :
    ∃ op, opOfCtl p c = some op ∧ rxChan op = some q0 := by
  obtain ⟨obj, act, blk⟩ := op'
  simp only at ha ho
  subst ha ho
  unfold OpAt at h
  split at h
  · split at h
    · obtain ⟨_, _, _, e⟩ := h; cases e
    · cases h
  · next op hopc =>
    have key : ∀ q, chanIdx p q0 = chanIdx p q → q = q0 := by
      intro q e; unfold chanIdx at e; omega
    cases op <;> simp only at h
    case recv q =>
      split at h
      · obtain ⟨bl, e⟩ := h
        have := key q (Operation.mk.inj (Option.some.inj e)).1
        subst this
        exact ⟨_, hopc, rfl⟩
      · cases h
    case tryRecv q =>
      split at h
      · have := key q (Operation.mk.inj (Option.some.inj h)).1
        subst this
        exact ⟨_, hopc, rfl⟩
      · cases h
    case dropRx q =>
      split at h
      · have := key q (Operation.mk.inj (Option.some.inj h)).1
        subst this
        exact ⟨_, hopc, rfl⟩
      · cases h
    case join b =>
      split at h
      · obtain ⟨t, n, bl, hm, e⟩ := h
        have := (Operation.mk.inj (Option.some.inj e)).2.1; cases this
      · cases h
    case nWait n =>
      split at h
      · obtain ⟨bl, e⟩ := h
        have := (Operation.mk.inj (Option.some.inj e)).2.1; cases this
      · cases h
    case cvWait v m =>
      split at h
      · have := (Operation.mk.inj (Option.some.inj h)).2.1; cases this
      · split at h
        · have := (Operation.mk.inj (Option.some.inj h)).2.1; cases this
        · cases h
    all_goals first
      | (cases h; done)
      | (split at h
         · have := (Operation.mk.inj (Option.some.inj h)).2.1; cases this
         · cases h)

end

/-! ### `JT2` -/

section
variable {p : Prog} {sp sp' : List (Nat × Nat × Nat)} {objs objs' : List Obj} {i : Nat} {act act' : Prop}
  {th th' : Thread} {c : TCtl}

/-- a thread other than the running one along a change that keeps its pending operation -/
theorem JT2.other (h : JT2 p sp objs i False th c) (hsp : ∀ e, e ∈ sp → e ∈ sp')
    (hop : th'.operation = th.operation)
    (hterm : th'.state = .terminated → th.state = .terminated)
    (hblk : th'.state = .blocked → Blk p sp' objs' i th' c) : JT2 p sp' objs' i act' th' c :=
  ⟨hblk, fun ht => h.term (hterm ht), fun _ => by rw [hop]; exact (h.opn (fun f => f)).mono hsp⟩

theorem JT2.weaken (h : JT2 p sp objs i act th c) (ha : act → act') : JT2 p sp objs i act' th c :=
  ⟨h.blk, h.term, fun hn => h.opn (fun a => hn (ha a))⟩

/-- the running thread, neither blocked nor terminated -/
theorem JT2.running (hnb : th.state ≠ .blocked) (hnt : th.state ≠ .terminated) (ha : act) :
    JT2 p sp objs i act th c :=
  ⟨fun h => absurd h hnb, fun h => absurd h hnt, fun hn => absurd ha hn⟩

/-- an entry across `schedule` (objects are only touched) -/
theorem JT2.sched_keep (h : JT2 p sp objs i False th c) (hk : SchedKeep th th')
    (hv : ViewLe2 objs objs') : JT2 p sp objs' i act' th' c := by
  have hstate : th'.state = .blocked ∨ th'.state = .terminated → th'.state = th.state ∧ th'.parked = th.parked := by
    intro hh
    by_cases hy : th.state = .yield
    · rcases hk.yl hy with e | e <;> rcases hh with h' | h' <;> rw [e] at h' <;> cases h'
    · exact hk.st hy
  refine ⟨fun hb => ?_, fun ht => ?_, fun _ => by rw [hk.op]; exact h.opn (fun f => f)⟩
  · obtain ⟨e1, e2⟩ := hstate (.inl hb)
    exact (h.blk (by rw [← e1]; exact hb)).frame (fun _ h => h) hk.op e2 (fun _ => hk.tok)
      (fun n v hh _ => ⟨v, hv n v hh, .inl rfl⟩)
  · obtain ⟨e1, _⟩ := hstate (.inr ht)
    exact h.term (by rw [← e1]; exact ht)

end

/-! ### `Jnd` -/

section
variable {w w' : World}

theorem Jnd.frame (hJ : Jnd w) (hprog : w'.prog = w.prog) (hsp : w'.spawned = w.spawned)
    (hlen : w.ctl.length ≤ w'.ctl.length)
    (hfin : ∀ b i n, (b, i, n) ∈ w.spawned → 10 ≤ (w'.ctlOf i).fin → 10 ≤ (w.ctlOf i).fin)
    (hnv : ∀ b i n, (b, i, n) ∈ w.spawned → ∀ a d, objView2 w.exec.objs n = some (.notify a true d) →
      ∃ a' d', objView2 w'.exec.objs n = some (.notify a' true d'))
    (hpc : ∀ j, j < w.ctl.length → (w'.ctlOf j).body = (w.ctlOf j).body ∧ (w.ctlOf j).pc ≤ (w'.ctlOf j).pc) :
    Jnd w' := by
  intro b i n hmem h10
  rw [hsp] at hmem
  rcases hJ b i n hmem (hfin b i n hmem h10) with ⟨a, d, h⟩ | ⟨j, k, hj, hk, hop⟩
  · exact .inl (hnv b i n hmem a d h)
  · refine .inr ⟨j, k, by omega, by have := (hpc j hj).2; omega, ?_⟩
    rw [hprog, (hpc j hj).1]; exact hop

/-- `Jnd` along a step that rewrites the control record of the active thread only -/
theorem Jnd.modify (hJ : Jnd w) (hact : w.tid < w.ctl.length) {g : TCtl → TCtl}
    (hprog : w'.prog = w.prog) (hsp : w'.spawned = w.spawned) (hctl : w'.ctl = w.ctl.modify w.tid g)
    (hbody : (g (w.ctlOf w.tid)).body = (w.ctlOf w.tid).body)
    (hpc : (w.ctlOf w.tid).pc ≤ (g (w.ctlOf w.tid)).pc)
    (hfin : (∃ b n, (b, w.tid, n) ∈ w.spawned) → 10 ≤ (g (w.ctlOf w.tid)).fin → 10 ≤ (w.ctlOf w.tid).fin)
    (hnv : ∀ b i n, (b, i, n) ∈ w.spawned → ∀ a d, objView2 w.exec.objs n = some (.notify a true d) →
      ∃ a' d', objView2 w'.exec.objs n = some (.notify a' true d')) : Jnd w' := by
  refine hJ.frame hprog hsp (by rw [ctl_len_of_modify hctl]; exact Nat.le_refl _) ?_ hnv ?_
  · intro b i n hm h10
    rw [ctlOf_of_modify hctl hact] at h10
    split at h10
    · next e => subst e; exact hfin ⟨b, n, hm⟩ h10
    · exact h10
  · intro j hj
    rw [ctlOf_of_modify hctl hact]
    split
    · next e => subst e; exact ⟨hbody, hpc⟩
    · exact ⟨rfl, Nat.le_refl _⟩

end

/-! ### `JB2` -/

section
variable {w w' : World}

/-- **a stage without scheduling point**: the control record of the active thread is rewritten by `g`; the
running thread stays neither blocked nor terminated; every other thread keeps its pending operation, is not
terminated by the stage and, if it is blocked afterwards, is at a waiting position -/
theorem JB2.local (hJ : JB2 w) (hact : w.tid < w.ctl.length) {g : TCtl → TCtl}
    (hprog : w'.prog = w.prog) (hsp : w'.spawned = w.spawned) (htid : w'.tid = w.tid)
    (hctl : w'.ctl = w.ctl.modify w.tid g)
    (hself : (w'.ths.get w.tid).state ≠ .blocked ∧ (w'.ths.get w.tid).state ≠ .terminated)
    (hoth : ∀ i, i < w.ctl.length → i ≠ w.tid →
      (w'.ths.get i).operation = (w.ths.get i).operation ∧
      ((w'.ths.get i).state = .terminated → (w.ths.get i).state = .terminated) ∧
      ((w'.ths.get i).state = .blocked →
        Blk w.prog w.spawned w'.exec.objs i (w'.ths.get i) (w.ctlOf i)))
    (hjnd : Jnd w') : JB2 w' := by
  refine ⟨fun i hi => ?_, by rw [hsp]; exact hJ.spt, by rw [hsp]; exact hJ.sp0, hjnd⟩
  rw [ctl_len_of_modify hctl] at hi
  rw [hprog, hsp, htid, ctlOf_of_modify hctl hact]
  by_cases e : i = w.tid
  · subst e
    rw [if_pos rfl]
    exact JT2.running hself.1 hself.2 rfl
  · rw [if_neg e]
    obtain ⟨h1, h2, h3⟩ := hoth i hi e
    exact ((hJ.thr i hi).weaken (fun f => absurd f e)).other (fun _ h => h) h1 h2 h3

/-- **a scheduling point**: the active thread's entry is rewritten by `F`, its control record by `g`, then
`Exec.schedule` picks the next thread -/
theorem JB2.sched (hJ : JB2 w) (hin : w.tid < w.exec.threads.threads.length) (hact : w.tid < w.ctl.length)
    {F : Thread → Thread} {g : TCtl → TCtl} {e : Exec} {b : Bool} (hs : schedOn w F = .ok (e, b))
    (hexec : w'.exec = e) (hctl : w'.ctl = w.ctl.modify w.tid g) (hprog : w'.prog = w.prog)
    (hsp : w'.spawned = w.spawned)
    (hbody : (g (w.ctlOf w.tid)).body = (w.ctlOf w.tid).body)
    (hpc : (g (w.ctlOf w.tid)).pc = (w.ctlOf w.tid).pc)
    (hfin : 10 ≤ (g (w.ctlOf w.tid)).fin → 10 ≤ (w.ctlOf w.tid).fin)
    (hnew : JT2 w.prog w.spawned w.exec.objs w.tid False (F (w.ths.get w.tid)) (g (w.ctlOf w.tid))) :
    JB2 w' := by
  have hview : ViewLe2 w.exec.objs w'.exec.objs := by
    rw [hexec]
    exact ViewLe2.of_touched
      (@schedule_objs2 ({ w.exec with threads := w.ths.modifyActive F }) e b w.panicking hs)
  have hget : ∀ i, w'.ths.get i = e.threads.get i := by
    intro i; show w'.exec.threads.get i = _; rw [hexec]
  refine ⟨fun i hi => ?_, by rw [hsp]; exact hJ.spt, by rw [hsp]; exact hJ.sp0, ?_⟩
  · rw [ctl_len_of_modify hctl] at hi
    rw [hprog, hsp, ctlOf_of_modify hctl hact, hget]
    have hk := schedOn_keep hs hin i
    by_cases e' : i = w.tid
    · subst e'
      rw [if_pos rfl]
      have hE : entryOn w F w.tid = F (w.ths.get w.tid) := by unfold entryOn; rw [if_pos rfl]
      rw [hE] at hk
      exact hnew.sched_keep hk hview
    · rw [if_neg e']
      have hE : entryOn w F i = w.ths.get i := by unfold entryOn; rw [if_neg e']
      rw [hE] at hk
      exact ((hJ.thr i hi).weaken (fun f => absurd f e')).sched_keep hk hview
  · refine hJ.jnd.modify hact hprog hsp hctl hbody (by rw [hpc]; exact Nat.le_refl _) (fun _ => hfin) ?_
    intro b i n _ a d hv
    exact ⟨a, d, hview _ _ hv⟩

end

end Deadlock2
end LoomVerif

/-
Race exactness on the WAIT fragment, part 11: the stages of `unlock` (a release into a mutex slot) and `ifEq` (a move
of the pc alone).
-/
import LoomVerif.Proofs.Race2Mutex

namespace LoomVerif
namespace Race2
open Refine Refine2 Sy C07 C08 Clocks Race

section
variable {w w' : World} {s : SC.St}

/-! ### `unlock` -/

theorem clk_unlock2 (hRC : RC2 w s) (hact : w.tid < w.ctl.length) (hactive : w.ths.isActive = true) {mi : Nat}
    (hop : opAt2 w = some (.unlock mi)) (hmi : mi < w.prog.cfg.nMutexes)
    (h : w.runOp (w.ctlOf w.tid) (.unlock mi) = .ok w') : RealOut2 w s w' := by
  obtain ⟨ms, hobj⟩ := mtx_obj2 hRC.r hmi
  have hC : pendCv w.prog (w.ctlOf w.tid) = none := pendCv_of_op hop (by simp)
  have hcv : (s.th (body w w.tid)).cvNotified = none := (frag_cv hRC hact hC).2
  have ho : SC.opOf w.prog s (body w w.tid) = some (.unlock mi) := (opOf_eq2 hRC.r hact).trans hop
  have hbt := body_lt_ths2 hRC.r hact
  have ht := nthr_tid2 hRC hact
  rw [runOp_unlock] at h
  obtain ⟨w1, hrl, h⟩ := bind_ok h
  rw [releaseLock_active hobj hactive] at hrl
  obtain rfl : w1 = W2 w (w.exec.objs.set (w.mutexObj mi) (.mutex { ms with
      lock := none, sync := ms.sync.store w.ths.activeT.released w.ths.caus .rel })) (relF w (w.mutexObj mi)) := by
    cases hrl; rfl
  simp only [pure, Except.pure] at h
  cases h
  obtain ⟨σT, σR, mT, mR, hc⟩ := hRC.clk
  have hpc : pendClk w σT w.tid = VV.zero :=
    pendClk_of_op (by rw [opAtI_tid2]; exact hop) (by intro n; simp) (by simp) (by intro b; simp)
  have hlt : w.mutexObj mi < w.exec.objs.length := (List.getElem?_eq_some_iff.1 hobj).1
  have hkey : ∀ i t, key5 (relF w (w.mutexObj mi) i t) = key5 t := by
    intro i t
    unfold relF; split
    · rfl
    · split
      · exact key5_wake _
      · rfl
  have hnew : hbOf (.mutex { ms with lock := none, sync := ms.sync.store w.ths.activeT.released w.ths.caus .rel }) =
      (σT.mtx mi).join (σT.thr w.tid) := by
    show (ms.sync.store w.ths.activeT.released w.ths.caus .rel).hb = _
    rw [Clocks.Sync.store_of_releases _ _ _ (by rfl)]
    have hr : w.ths.activeT.released = VV.zero := hRC.inv.rel w.tid ht
    rw [hr, join_zero, hc.lt.mtx mi hmi, objHb_of hobj, eq_caus2 hc.lt ht hpc]
    rfl
  have hsameO : ∀ n, n ≠ w.mutexObj mi → SameObj w.exec.objs (w.exec.objs.set (w.mutexObj mi) (.mutex { ms with
      lock := none, sync := ms.sync.store w.ths.activeT.released w.ths.caus .rel })) n :=
    fun n hn => SameObj.set_ne _ _ hn
  have hsameT := fun i => W2_same w (w.exec.objs.set (w.mutexObj mi) (.mutex { ms with
      lock := none, sync := ms.sync.store w.ths.activeT.released w.ths.caus .rel })) (relF w (w.mutexObj mi)) i
      (fun _ => hkey i _)
  have hI := complete_core2 (w' := (W2 w (w.exec.objs.set (w.mutexObj mi) (.mutex { ms with
      lock := none, sync := ms.sync.store w.ths.activeT.released w.ths.caus .rel }))
      (relF w (w.mutexObj mi))).complete .unit) hRC hact hop hc.lt
    (σT' := σT.rel w.tid mi) (mT' := mT) _ .unit rfl rfl rfl rfl rfl (W2_nthr _ _ _)
    (by show (w.exec.objs.set _ _).length = _; simp)
    (fun i _ => hsameT i)
    (hsameT w.tid).1.rel (hsameT w.tid).2 (hsameT w.tid).1.uc (hsameT w.tid).1.tok
    (by rw [(hsameT w.tid).1.caus]; exact le_refl _)
    (fun _ _ => rfl)
    (by
      show σT.thr w.tid = _
      rw [eq_caus2 hc.lt ht hpc, (hsameT w.tid).1.caus])
    (by
      intro m
      show (σT.mtx m).le (upd σT.mtx mi _ m)
      by_cases e : m = mi
      · subst e; rw [upd_self]; exact le_join_left _ _
      · rw [upd_ne _ _ e]; exact le_refl _)
    (by
      intro b
      show upd σT.mtx mi _ (kI w.prog b) = _
      rw [upd_ne _ _ (Ne.symm (m_ne_kI w.prog hmi b))])
    (by intro n hn; rw [pend_none_of_op2 hop (by intro b; simp)] at hn; cases hn)
    (fun b j n hm => (hsameO n (sp_ne_mtx2 hRC.r hm hmi)).hb)
    (by
      intro m hm
      by_cases e : m = mi
      · subst e
        right
        show upd σT.mtx m _ m = objHb (w.exec.objs.set _ _) _
        rw [upd_self, objHb_set_self _ _ hlt, hnew]
      · left
        refine ⟨hsameO _ (fun hh => e (mutexObj_inj w hh)), ?_⟩
        show upd σT.mtx mi _ m = _
        rw [upd_ne _ _ e])
    (by
      intro n hn
      left
      refine ⟨hsameO _ (mtx_ne_ntf hRC.r hmi hn), ?_⟩
      show upd σT.mtx mi _ (nI w.prog n) = _
      rw [upd_ne _ _ (Ne.symm (m_ne_nI w.prog hmi n))])
    (by
      intro q hq
      left
      refine ⟨hsameO _ (mtx_ne_chan hRC.r hmi hq), ?_, rfl⟩
      show upd σT.mtx mi _ (cI w.prog q) = _
      rw [upd_ne _ _ (Ne.symm (m_ne_cI w.prog hmi q))])
    (fun c hc' => .inl ⟨hsameO _ (Ne.symm (cell_ne_mtx w hc')), fun _ => rfl⟩)
  have hX1 := hc.x.tickR hc.gt hc.gr (inj_body2 hRC.r) w.tid hact
  refine realOut_complete hRC hact hop (by intro n; simp) _ _ rfl rfl (step_unlock hcv ho) ?_
  refine newSt_complete hact _ .unit rfl rfl hRC.fs.1 hRC.nd ⟨hI.1, hI.2.1⟩ hI.2.2
    (((hc.lr.tick hbt).relM hmi _ _).ret _ _) (hc.gt.rel _ _) ((hc.gr.tick _).rel _ _)
    (hX1.rel w.tid hact mi) ?_ ?_ ?_
  · intro q hq
    exact (hc.mx q hq).imp fun _ _ hh => hh.ev rfl rfl
  · intro q Z hq hZ
    exact (hc.mgt q Z hq hZ).rel _ _
  · intro q Z hq hZ
    exact ((hc.mgr q Z hq hZ).tick _).rel _ _

/-! ### `ifEq` -/

theorem clk_ifEq2 (hRC : RC2 w s) (hact : w.tid < w.ctl.length) {i n : Nat} {r : Ret}
    (hop : opAt2 w = some (.ifEq i r n))
    (h : w.runOp (w.ctlOf w.tid) (.ifEq i r n) = .ok w') : RealOut2 w s w' := by
  have hC : pendCv w.prog (w.ctlOf w.tid) = none := pendCv_of_op hop (by simp)
  have hcv : (s.th (body w w.tid)).cvNotified = none := (frag_cv hRC hact hC).2
  have ho : SC.opOf w.prog s (body w w.tid) = some (.ifEq i r n) := (opOf_eq2 hRC.r hact).trans hop
  have hf0 := fin0 hRC hact hop
  have ht := nthr_tid2 hRC hact
  obtain ⟨hpc, _, hrets⟩ := pc_eq2 hRC.r hact
  have hs0 : (w.ctlOf w.tid).stage = 0 := by
    have := (base2 hRC.r.c hact).2.1.2.2.2.2.1
    have hop' : opOfCtl w.prog (w.ctlOf w.tid) = some (.ifEq i r n) := hop
    rw [hop'] at this
    exact Nat.le_zero.1 this
  -- any move of the pc alone
  have key : ∀ k : Nat, k ≠ 0 → ∀ s' : SC.St,
      s' = s.modTh (body w w.tid) (fun h => { h with pc := h.pc + k }) →
      SC.step w.prog s (body w w.tid) = [s'] →
      RealOut2 w s (w.modCtl w.tid fun c => { c with pc := c.pc + k }) := by
    intro k hk s' hs' hst
    have hself := ctlOf_modCtl_self w w.tid (fun c => { c with pc := c.pc + k }) hact
    have hne := fun j (hj : j ≠ w.tid) => ctlOf_modCtl_ne w w.tid (fun c => { c with pc := c.pc + k }) hj
    have hbody : ∀ j, body (w.modCtl w.tid fun c => { c with pc := c.pc + k }) j = body w j := by
      intro j
      unfold body
      by_cases e : j = w.tid
      · subst e; rw [hself]
      · rw [hne j e]
    refine ⟨rfl, ?_, no_spur hRC hact hop (by intro n; simp), s', hst, ?_⟩
    · -- not a stutter: the pc has moved
      intro hR' _
      have h1 := (pc_eq2 (s := s) hR' (show w.tid < (w.modCtl w.tid _).ctl.length by
        rw [ctl_len_modCtl]; exact hact)).1
      rw [hbody, hself] at h1
      have h1' : (s.th (body w w.tid)).pc = (w.ctlOf w.tid).pc + k := h1
      omega
    · obtain ⟨σT, σR, mT, mR, hc⟩ := hRC.clk
      have hpcl : pendClk w σT w.tid = VV.zero :=
        pendClk_of_op (by rw [opAtI_tid2]; exact hop) (by intro n; simp) (by simp) (by intro b; simp)
      obtain ⟨hT, hO⟩ := unpack hRC.inv hRC.inv2 hc.lt
      have hTt := hT w.tid ht
      have hfin' : fin (w.modCtl w.tid fun c => { c with pc := c.pc + k }) w.tid = 0 := by
        unfold fin; rw [hself]; exact hf0
      have hI := assemble (w' := w.modCtl w.tid fun c => { c with pc := c.pc + k }) hRC hc.lt (σT' := σT)
        (mT' := mT) rfl rfl rfl (Nat.le_refl _) hne (hbody _) (by intro h; rw [hf0] at h; omega)
        (by
          refine ThrInv.exact hTt.rel hTt.ob ?_ (eq_caus2 hc.lt ht hpcl) ?_ ?_
          · intro b j n' ho' hm hij
            right
            rcases hTt.jo b j n' ho' hm hij with h1 | h1
            · rw [pend_none_of_op2 hop (by intro b; simp)] at h1; cases h1
            · unfold fin at h1 ⊢; rw [hne j (Ne.symm hij)]; exact h1
          · intro _
            have := hTt.tok (by rw [hf0]; omega)
            rw [hbody]; exact this
          · intro _ htk
            exact hTt.tokz (by rw [hf0]; omega) htk)
        (fun j _ e => .inl ⟨⟨rfl, rfl, rfl, rfl⟩, rfl, rfl, fun _ => rfl⟩)
        (fun _ => le_refl _) (fun _ _ _ _ => le_refl _)
        (fun _ _ => .inl ⟨SameObj.refl _ _, rfl⟩) (fun _ _ => .inl ⟨SameObj.refl _ _, rfl⟩)
        (fun _ _ => .inl ⟨SameObj.refl _ _, rfl, rfl⟩) (fun _ _ => .inl ⟨SameObj.refl _ _, fun _ => rfl⟩)
        (nhb_frame (w' := w.modCtl w.tid fun c => { c with pc := c.pc + k }) hO (fun _ _ _ _ => rfl)
          (by
            intro j
            by_cases e : j = w.tid
            · subst e; rw [hfin', hf0]
            · unfold fin; rw [hne j e])
          (fun _ _ => rfl))
        (fun _ _ => rfl)
      refine ⟨by rw [hs']; exact hRC.fs.1, by rw [hs']; exact hRC.nd, hI.1, hI.2.1, σT, σR, mT, mR, hI.2.2, ?_, hc.gt,
        hc.gr, ?_, ?_, hc.mgt, hc.mgr⟩
      · rw [hs']; exact hc.lr.modTh _ _ (fun _ => rfl) (fun _ => rfl)
      · rw [ctl_len_modCtl]
        exact XInv.congr2 hc.x (fun j _ => hbody j)
      · intro q hq
        rw [ctl_len_modCtl]
        exact (hc.mx q hq).imp fun _ _ hh => hh.congr (fun j _ => hbody j)
  have hst := step_ifEq hcv ho
  rw [runOp_ifEq] at h
  rw [hrets, hpc] at hst
  split at h
  · next hcnd =>
    cases h
    rw [if_pos hcnd] at hst
    exact key 1 (by omega) _ rfl hst
  · next hcnd =>
    cases h
    rw [if_neg hcnd] at hst
    have := key (1 + n) (by omega) (s.modTh (body w w.tid) fun h => { h with pc := h.pc + 1 + n })
      (by simp [Nat.add_assoc]) hst
    simpa [Nat.add_assoc] using this

end

end Race2
end LoomVerif

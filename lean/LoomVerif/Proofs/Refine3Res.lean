/-
Refinement, RESOURCE fragment, part 3: the resource part of the abstraction relation.

`RArc`: the handle table of the twin (`World.handles`) and of the reference (`SCData3.handles`) name the same Arcs
(both number Arcs in creation order); Arc `a` of the reference has the count of the `rt::Arc` object
`(World.arcs[a]).obj` of the twin, which is also the std-side count `stdCount`; every `rt::Arc` object of the store
belongs to an entry of `World.arcs`; channels are empty.

`RTrk`: every allocation object of the store that is not dropped is the current object of a slot of `World.tracks` /
`World.rawAllocs`; a slot of the reference table `tracks` is "not dropped" exactly when the current object of the
slot is not dropped.

And how both are transported along the effects of the resource operations.
-/
import LoomVerif.Proofs.Refine3Rel

namespace LoomVerif
namespace Refine3
open Refine

/-- the default `World.arcInfo` answers with -/
abbrev dfltArc : ArcInfo := { obj := 0 }

/-! ### Arcs -/

structure RArc (os : List Obj) (hd : List (Nat × HandleSt)) (ar : List ArcInfo) (sa : List Nat)
    (sh : List (Nat × Nat)) : Prop where
  lenA : sa.length = ar.length
  /-- reference count = `ref_cnt` of the object = std-side count -/
  arc : ∀ a, a < ar.length → av os (ar.getD a dfltArc).obj = .arc (sa.getD a 0) ∧
    (ar.getD a dfltArc).stdCount = sa.getD a 0
  inj : ∀ a b, a < ar.length → b < ar.length → (ar.getD a dfltArc).obj = (ar.getD b dfltArc).obj → a = b
  /-- every `rt::Arc` object of the store is the object of an Arc -/
  all : ∀ n k, av os n = .arc k → ∃ a, a < ar.length ∧ (ar.getD a dfltArc).obj = n
  hnd : ∀ h, sh.lookup h = (hd.lookup h).map (·.arc)
  hndLt : ∀ h hs, hd.lookup h = some hs → hs.arc < ar.length
  noMsg : ∀ n k, av os n = .chan k → k = 0

theorem RArc.congr {os os' hd ar sa sh} (h : RArc os hd ar sa sh)
    (hA : ∀ n k, av os' n = .arc k ↔ av os n = .arc k) (hC : ∀ n k, av os' n = .chan k → av os n = .chan k) :
    RArc os' hd ar sa sh :=
  ⟨h.lenA, fun a ha => ⟨(hA _ _).2 (h.arc a ha).1, (h.arc a ha).2⟩, h.inj,
    fun n k hk => h.all n k ((hA _ _).1 hk), h.hnd, h.hndLt, fun n k hk => h.noMsg n k (hC n k hk)⟩

theorem RArc.aeq {os os' hd ar sa sh} (h : RArc os hd ar sa sh) (he : AEq os os') : RArc os' hd ar sa sh :=
  h.congr (fun n k => by rw [he n]) (fun n k hk => by rw [← he n]; exact hk)

theorem RArc.obj_lt {os hd ar sa sh} (h : RArc os hd ar sa sh) {a : Nat} (ha : a < ar.length) :
    (ar.getD a dfltArc).obj < os.length :=
  av_lt (by rw [(h.arc a ha).1]; intro e; cases e)

/-- `Arc::new` into handle `hn` -/
theorem RArc.new {os hd ar sa sh} (h : RArc os hd ar sa sh) (hn : Nat) :
    RArc (os ++ [.arc {}]) (SCData3.bind hd hn { arc := ar.length }) (ar ++ [({ obj := os.length } : ArcInfo)])
      (sa ++ [1]) (SCData3.bind sh hn sa.length) := by
  have old : ∀ a, a < ar.length →
      (ar ++ [({ obj := os.length } : ArcInfo)]).getD a dfltArc = ar.getD a dfltArc :=
    fun a ha => getD_append_left _ _ _ _ ha
  have new : (ar ++ [({ obj := os.length } : ArcInfo)]).getD ar.length dfltArc = { obj := os.length } :=
    getD_append_new _ _ _
  have olds : ∀ a, a < ar.length → (sa ++ [1]).getD a 0 = sa.getD a 0 :=
    fun a ha => getD_append_left _ _ _ _ (by rw [h.lenA]; exact ha)
  have news : (sa ++ [1]).getD ar.length 0 = 1 := by rw [← h.lenA]; exact getD_append_new _ _ _
  refine ⟨by simp [h.lenA], ?_, ?_, ?_, ?_, ?_, ?_⟩
  · intro a ha
    simp only [List.length_append, List.length_singleton] at ha
    by_cases hlt : a < ar.length
    · rw [old a hlt, olds a hlt, av_append, if_neg (Nat.ne_of_lt (h.obj_lt hlt))]
      exact h.arc a hlt
    · have : a = ar.length := by omega
      subst this
      rw [new, news, av_append, if_pos rfl]
      exact ⟨rfl, rfl⟩
  · intro a b ha hb e
    simp only [List.length_append, List.length_singleton] at ha hb
    by_cases hla : a < ar.length <;> by_cases hlb : b < ar.length
    · rw [old a hla, old b hlb] at e; exact h.inj a b hla hlb e
    · have : b = ar.length := by omega
      subst this
      rw [old a hla, new] at e
      have := h.obj_lt hla
      simp only at e; omega
    · have : a = ar.length := by omega
      subst this
      rw [old b hlb, new] at e
      have := h.obj_lt hlb
      simp only at e; omega
    · omega
  · intro n k hk
    rw [av_append] at hk
    split at hk
    · next e => exact ⟨ar.length, by simp, by rw [new, e]⟩
    · obtain ⟨a, ha, e⟩ := h.all n k hk
      exact ⟨a, by simp; omega, by rw [old a ha]; exact e⟩
  · intro h'
    rw [lookup_bind, lookup_bind, h.lenA]
    split
    · rfl
    · exact h.hnd h'
  · intro h' hs hl
    rw [lookup_bind] at hl
    simp only [List.length_append, List.length_singleton]
    split at hl
    · cases hl; exact Nat.lt_succ_self _
    · exact Nat.lt_succ_of_lt (h.hndLt h' hs hl)
  · intro n k hk
    rw [av_append] at hk
    split at hk
    · cases hk
    · exact h.noMsg n k hk

/-- the count of Arc `a` changes to `n'` (object and std side) -/
theorem RArc.setCount {os hd ar sa sh} (h : RArc os hd ar sa sh) {a : Nat} (ha : a < ar.length) (x : Obj)
    (n' : Nat) (hx : aview x = .arc n') (f : ArcInfo → ArcInfo) (hf1 : (f (ar.getD a dfltArc)).obj = (ar.getD a dfltArc).obj)
    (hf2 : (f (ar.getD a dfltArc)).stdCount = n') :
    RArc (os.set (ar.getD a dfltArc).obj x) hd (ar.modify a f) (sa.set a n') sh := by
  have hol := h.obj_lt ha
  have hsl : a < sa.length := by rw [h.lenA]; exact ha
  have obj_eq : ∀ b, ((ar.modify a f).getD b dfltArc).obj = (ar.getD b dfltArc).obj := by
    intro b
    by_cases e : b = a
    · subst e; rw [getD_modify_self _ _ _ _ ha]; exact hf1
    · rw [getD_modify_ne _ _ _ _ _ e]
  refine ⟨by simp [h.lenA], ?_, ?_, ?_, h.hnd, ?_, ?_⟩
  · intro b hb
    simp only [List.length_modify] at hb
    rw [obj_eq, av_set _ _ _ _ hol]
    by_cases e : b = a
    · subst e
      rw [if_pos rfl, getD_set_self' _ _ _ _ hsl, getD_modify_self _ _ _ _ ha]
      exact ⟨hx, hf2⟩
    · have hne : (ar.getD b dfltArc).obj ≠ (ar.getD a dfltArc).obj := fun e' => e (h.inj b a hb ha e')
      rw [if_neg hne, getD_set_ne _ _ _ _ _ e, getD_modify_ne _ _ _ _ _ e]
      exact h.arc b hb
  · intro b c hb hc e
    simp only [List.length_modify] at hb hc
    rw [obj_eq, obj_eq] at e
    exact h.inj b c hb hc e
  · intro n k hk
    rw [av_set _ _ _ _ hol] at hk
    split at hk
    · next e => exact ⟨a, by simpa using ha, by rw [obj_eq, e]⟩
    · obtain ⟨b, hb, e⟩ := h.all n k hk
      exact ⟨b, by simpa using hb, by rw [obj_eq]; exact e⟩
  · intro h' hs hl
    simpa using h.hndLt h' hs hl
  · intro n k hk
    rw [av_set _ _ _ _ hol] at hk
    split at hk
    · rw [hx] at hk; cases hk
    · exact h.noMsg n k hk

/-- handle `hn` is bound to an existing Arc -/
theorem RArc.bindH {os hd ar sa sh} (h : RArc os hd ar sa sh) (hn : Nat) (x : HandleSt) (hx : x.arc < ar.length) :
    RArc os (SCData3.bind hd hn x) ar sa (SCData3.bind sh hn x.arc) := by
  refine ⟨h.lenA, h.arc, h.inj, h.all, ?_, ?_, h.noMsg⟩
  · intro h'
    rw [lookup_bind, lookup_bind]
    split
    · rfl
    · exact h.hnd h'
  · intro h' hs hl
    rw [lookup_bind] at hl
    split at hl
    · cases hl; exact hx
    · exact h.hndLt h' hs hl

/-- handle `hn` is consumed -/
theorem RArc.unbindH {os hd ar sa sh} (h : RArc os hd ar sa sh) (hn : Nat) :
    RArc os (SCData3.unbind hd hn) ar sa (SCData3.unbind sh hn) := by
  refine ⟨h.lenA, h.arc, h.inj, h.all, ?_, ?_, h.noMsg⟩
  · intro h'
    rw [lookup_unbind, lookup_unbind]
    split
    · rfl
    · exact h.hnd h'
  · intro h' hs hl
    rw [lookup_unbind] at hl
    split at hl
    · cases hl
    · exact h.hndLt h' hs hl

/-- the `raw` flag of handle `hn` changes: invisible in the reference -/
theorem RArc.rawH {os hd ar sa sh} (h : RArc os hd ar sa sh) (hn : Nat) (hs x : HandleSt)
    (hl : hd.lookup hn = some hs) (hx : x.arc = hs.arc) :
    RArc os (SCData3.bind hd hn x) ar sa sh := by
  refine ⟨h.lenA, h.arc, h.inj, h.all, ?_, ?_, h.noMsg⟩
  · intro h'
    rw [lookup_bind]
    split
    · next e => subst e; rw [h.hnd, hl]; simp [hx]
    · exact h.hnd h'
  · intro h' hs' hl'
    rw [lookup_bind] at hl'
    split at hl'
    · cases hl'; rw [hx]; exact h.hndLt hn hs hl
    · exact h.hndLt h' hs' hl'

/-- a handle of the twin names a known Arc with an `rt::Arc` object carrying the reference count -/
theorem RArc.handle {os hd ar sa sh} (h : RArc os hd ar sa sh) {hn : Nat} {hs : HandleSt}
    (hl : hd.lookup hn = some hs) :
    sh.lookup hn = some hs.arc ∧ hs.arc < ar.length ∧ hs.arc < sa.length ∧
    ∃ s : ArcSt, os[(ar.getD hs.arc dfltArc).obj]? = some (.arc s) ∧ s.refCnt = sa.getD hs.arc 0 ∧
      (ar.getD hs.arc dfltArc).stdCount = sa.getD hs.arc 0 := by
  have hlt := h.hndLt hn hs hl
  refine ⟨by rw [h.hnd, hl]; rfl, hlt, by rw [h.lenA]; exact hlt, ?_⟩
  obtain ⟨h1, h2⟩ := h.arc hs.arc hlt
  unfold av at h1
  cases hx : os[(ar.getD hs.arc dfltArc).obj]? with
  | none => rw [hx] at h1; cases h1
  | some x =>
    rw [hx] at h1
    cases x <;> simp [aview] at h1
    exact ⟨_, rfl, h1, h2⟩

/-! ### `Track` values and raw allocations -/

structure RTrk (p : Prog) (os : List Obj) (tr ra : List (Nat × Nat)) (st : List (Nat × Bool)) : Prop where
  /-- an allocation that is not dropped is the current object of a slot -/
  cur : ∀ n, av os n = .alloc false → ∃ k, tr.lookup k = some n ∨ ra.lookup k = some n
  trk : ∀ k n, tr.lookup k = some n → ∃ d, av os n = .alloc d ∧ st.lookup k = some d
  raw : ∀ k n, ra.lookup k = some n → av os n = .alloc false ∧ st.lookup k = some false
  cov : ∀ k, st.lookup k = some false → (∃ n, tr.lookup k = some n) ∨ (∃ n, ra.lookup k = some n)
  injT : ∀ k k' n, tr.lookup k = some n → tr.lookup k' = some n → k = k'
  injR : ∀ k k' n, ra.lookup k = some n → ra.lookup k' = some n → k = k'
  disj : ∀ k k' n, tr.lookup k = some n → ra.lookup k' = some n → False
  keyT : ∀ k n, tr.lookup k = some n → isTrackSlot p k
  keyR : ∀ k n, ra.lookup k = some n → isAllocSlot p k
  nodup : (st.map (·.1)).Nodup

theorem RTrk.congr {p os os' tr ra st} (h : RTrk p os tr ra st)
    (hT : ∀ n d, av os' n = .alloc d ↔ av os n = .alloc d) : RTrk p os' tr ra st := by
  refine ⟨fun n hn => h.cur n ((hT _ _).1 hn), ?_, ?_, h.cov, h.injT, h.injR, h.disj, h.keyT, h.keyR, h.nodup⟩
  · intro k n hk
    obtain ⟨d, h1, h2⟩ := h.trk k n hk
    exact ⟨d, (hT _ _).2 h1, h2⟩
  · intro k n hk
    obtain ⟨h1, h2⟩ := h.raw k n hk
    exact ⟨(hT _ _).2 h1, h2⟩

theorem RTrk.aeq {p os os' tr ra st} (h : RTrk p os tr ra st) (he : AEq os os') : RTrk p os' tr ra st :=
  h.congr (fun n d => by rw [he n])

theorem RTrk.trk_lt {p os tr ra st} (h : RTrk p os tr ra st) {k n : Nat} (hk : tr.lookup k = some n) :
    n < os.length := by
  obtain ⟨d, h1, _⟩ := h.trk k n hk
  exact av_lt (by rw [h1]; intro e; cases e)

theorem RTrk.raw_lt {p os tr ra st} (h : RTrk p os tr ra st) {k n : Nat} (hk : ra.lookup k = some n) :
    n < os.length :=
  av_lt (by rw [(h.raw k n hk).1]; intro e; cases e)

/-- a `Track` slot is no raw-allocation slot -/
theorem RTrk.noRaw {p os tr ra st} (h : RTrk p os tr ra st) (hwf : WF3 p) {k : Nat} (hk : isTrackSlot p k) :
    ra.lookup k = none := by
  cases hr : ra.lookup k with
  | none => rfl
  | some n => exact (hwf.disjoint hk (h.keyR k n hr)).elim

theorem RTrk.noTrk {p os tr ra st} (h : RTrk p os tr ra st) (hwf : WF3 p) {k : Nat} (hk : isAllocSlot p k) :
    tr.lookup k = none := by
  cases hr : tr.lookup k with
  | none => rfl
  | some n => exact (hwf.disjoint (h.keyT k n hr) hk).elim

/-- `Track::new` into slot `k`; the value the slot held before (if any) has been dropped -/
theorem RTrk.trackNew {p os tr ra st} (h : RTrk p os tr ra st) (hwf : WF3 p) {k : Nat} (hk : isTrackSlot p k)
    (hold : ∀ n, tr.lookup k = some n → av os n = .alloc true) :
    RTrk p (os ++ [.alloc {}]) ((k, os.length) :: tr) ra (SCData3.bind st k false) := by
  have hra := h.noRaw hwf hk
  have hav : ∀ n, n < os.length → av (os ++ [.alloc {}]) n = av os n := by
    intro n hn; rw [av_append, if_neg (Nat.ne_of_lt hn)]
  have hnew : av (os ++ [.alloc {}]) os.length = .alloc false := by rw [av_append, if_pos rfl]; rfl
  refine ⟨?_, ?_, ?_, ?_, ?_, h.injR, ?_, ?_, h.keyR, nodup_bind _ _ _ h.nodup⟩
  · intro n hn
    rw [av_append] at hn
    split at hn
    · next e => exact ⟨k, .inl (by rw [lookup_cons, if_pos rfl, e])⟩
    · obtain ⟨k', hk'⟩ := h.cur n hn
      rcases hk' with hk' | hk'
      · have : k' ≠ k := by
          intro e; subst e
          rw [hold n hk'] at hn; cases hn
        exact ⟨k', .inl (by rw [lookup_cons, if_neg this]; exact hk')⟩
      · exact ⟨k', .inr hk'⟩
  · intro k' n hk'
    rw [lookup_cons] at hk'
    rw [lookup_bind]
    split at hk'
    · next e => cases hk'; subst e; exact ⟨false, hnew, by rw [if_pos rfl]⟩
    · next e =>
      rw [if_neg e, hav n (h.trk_lt hk')]
      exact h.trk k' n hk'
  · intro k' n hk'
    have : k' ≠ k := by intro e; subst e; rw [hra] at hk'; cases hk'
    rw [lookup_bind, if_neg this, hav n (h.raw_lt hk')]
    exact h.raw k' n hk'
  · intro k' hk'
    rw [lookup_bind] at hk'
    split at hk'
    · next e => subst e; exact .inl ⟨os.length, by rw [lookup_cons, if_pos rfl]⟩
    · next e =>
      rcases h.cov k' hk' with ⟨n, hn⟩ | hr
      · exact .inl ⟨n, by rw [lookup_cons, if_neg e]; exact hn⟩
      · exact .inr hr
  · intro k1 k2 n h1 h2
    rw [lookup_cons] at h1 h2
    split at h1 <;> split at h2
    · next e1 e2 => rw [e1, e2]
    · cases h1; have := h.trk_lt h2; omega
    · cases h2; have := h.trk_lt h1; omega
    · exact h.injT k1 k2 n h1 h2
  · intro k1 k2 n h1 h2
    rw [lookup_cons] at h1
    split at h1
    · cases h1; have := h.raw_lt h2; omega
    · exact h.disj k1 k2 n h1 h2
  · intro k' n hk'
    rw [lookup_cons] at hk'
    split at hk'
    · next e => subst e; exact hk
    · exact h.keyT k' n hk'

/-- the `Track` of slot `k` (object `o`) is dropped -/
theorem RTrk.trackDrop {p os tr ra st} (h : RTrk p os tr ra st) (hwf : WF3 p) {k o : Nat}
    (hk : tr.lookup k = some o) (x : Obj) (hx : aview x = .alloc true) :
    RTrk p (os.set o x) tr ra (SCData3.bind st k true) := by
  have hol := h.trk_lt hk
  have hra := h.noRaw hwf (h.keyT k o hk)
  refine ⟨?_, ?_, ?_, ?_, h.injT, h.injR, h.disj, h.keyT, h.keyR, nodup_bind _ _ _ h.nodup⟩
  · intro n hn
    rw [av_set _ _ _ _ hol] at hn
    split at hn
    · rw [hx] at hn; cases hn
    · exact h.cur n hn
  · intro k' n hk'
    rw [av_set _ _ _ _ hol, lookup_bind]
    by_cases e : n = o
    · subst e
      have := h.injT k' k n hk' hk
      subst this
      exact ⟨true, by rw [if_pos rfl]; exact hx, by rw [if_pos rfl]⟩
    · have : k' ≠ k := by intro e'; subst e'; rw [hk] at hk'; cases hk'; exact e rfl
      rw [if_neg e, if_neg this]
      exact h.trk k' n hk'
  · intro k' n hk'
    have hne : n ≠ o := fun e => h.disj k k' o hk (by rw [← e]; exact hk')
    have : k' ≠ k := by intro e; subst e; rw [hra] at hk'; cases hk'
    rw [av_set _ _ _ _ hol, if_neg hne, lookup_bind, if_neg this]
    exact h.raw k' n hk'
  · intro k' hk'
    rw [lookup_bind] at hk'
    split at hk'
    · cases hk'
    · exact h.cov k' hk'

/-- `alloc` into the free slot `k` -/
theorem RTrk.alloc {p os tr ra st} (h : RTrk p os tr ra st) (hwf : WF3 p) {k : Nat} (hk : isAllocSlot p k)
    (hfree : ra.lookup k = none) :
    RTrk p (os ++ [.alloc {}]) tr ((k, os.length) :: ra) (SCData3.bind st k false) := by
  have htr := h.noTrk hwf hk
  have hav : ∀ n, n < os.length → av (os ++ [.alloc {}]) n = av os n := by
    intro n hn; rw [av_append, if_neg (Nat.ne_of_lt hn)]
  have hnew : av (os ++ [.alloc {}]) os.length = .alloc false := by rw [av_append, if_pos rfl]; rfl
  refine ⟨?_, ?_, ?_, ?_, h.injT, ?_, ?_, h.keyT, ?_, nodup_bind _ _ _ h.nodup⟩
  · intro n hn
    rw [av_append] at hn
    split at hn
    · next e => exact ⟨k, .inr (by rw [lookup_cons, if_pos rfl, e])⟩
    · obtain ⟨k', hk'⟩ := h.cur n hn
      rcases hk' with hk' | hk'
      · exact ⟨k', .inl hk'⟩
      · have : k' ≠ k := by intro e; subst e; rw [hfree] at hk'; cases hk'
        exact ⟨k', .inr (by rw [lookup_cons, if_neg this]; exact hk')⟩
  · intro k' n hk'
    have : k' ≠ k := by intro e; subst e; rw [htr] at hk'; cases hk'
    rw [lookup_bind, if_neg this, hav n (h.trk_lt hk')]
    exact h.trk k' n hk'
  · intro k' n hk'
    rw [lookup_cons] at hk'
    rw [lookup_bind]
    split at hk'
    · next e => cases hk'; subst e; exact ⟨hnew, by rw [if_pos rfl]⟩
    · next e =>
      rw [if_neg e, hav n (h.raw_lt hk')]
      exact h.raw k' n hk'
  · intro k' hk'
    rw [lookup_bind] at hk'
    split at hk'
    · next e => subst e; exact .inr ⟨os.length, by rw [lookup_cons, if_pos rfl]⟩
    · next e =>
      rcases h.cov k' hk' with hl | ⟨n, hn⟩
      · exact .inl hl
      · exact .inr ⟨n, by rw [lookup_cons, if_neg e]; exact hn⟩
  · intro k1 k2 n h1 h2
    rw [lookup_cons] at h1 h2
    split at h1 <;> split at h2
    · next e1 e2 => rw [e1, e2]
    · cases h1; have := h.raw_lt h2; omega
    · cases h2; have := h.raw_lt h1; omega
    · exact h.injR k1 k2 n h1 h2
  · intro k1 k2 n h1 h2
    rw [lookup_cons] at h2
    split at h2
    · cases h2; have := h.trk_lt h1; omega
    · exact h.disj k1 k2 n h1 h2
  · intro k' n hk'
    rw [lookup_cons] at hk'
    split at hk'
    · next e => subst e; exact hk
    · exact h.keyR k' n hk'

/-- `dealloc` of slot `k` (object `o`) -/
theorem RTrk.dealloc {p os tr ra st} (h : RTrk p os tr ra st) (hwf : WF3 p) {k o : Nat}
    (hk : ra.lookup k = some o) (x : Obj) (hx : aview x = .alloc true) :
    RTrk p (os.set o x) tr (SCData3.unbind ra k) (SCData3.bind st k true) := by
  have hol := h.raw_lt hk
  have htr := h.noTrk hwf (h.keyR k o hk)
  refine ⟨?_, ?_, ?_, ?_, h.injT, ?_, ?_, h.keyT, ?_, nodup_bind _ _ _ h.nodup⟩
  · intro n hn
    rw [av_set _ _ _ _ hol] at hn
    split at hn
    · rw [hx] at hn; cases hn
    · next e =>
      obtain ⟨k', hk'⟩ := h.cur n hn
      rcases hk' with hk' | hk'
      · exact ⟨k', .inl hk'⟩
      · have : k' ≠ k := by intro e'; subst e'; rw [hk] at hk'; cases hk'; exact e rfl
        exact ⟨k', .inr (by rw [lookup_unbind, if_neg this]; exact hk')⟩
  · intro k' n hk'
    have hne : n ≠ o := fun e => h.disj k' k o (by rw [← e]; exact hk') hk
    have : k' ≠ k := by intro e; subst e; rw [htr] at hk'; cases hk'
    rw [av_set _ _ _ _ hol, if_neg hne, lookup_bind, if_neg this]
    exact h.trk k' n hk'
  · intro k' n hk'
    rw [lookup_unbind] at hk'
    split at hk'
    · cases hk'
    · next e =>
      have hne : n ≠ o := by
        intro e'; subst e'
        exact e (h.injR k' k n hk' hk)
      rw [av_set _ _ _ _ hol, if_neg hne, lookup_bind, if_neg e]
      exact h.raw k' n hk'
  · intro k' hk'
    rw [lookup_bind] at hk'
    split at hk'
    · cases hk'
    · next e =>
      rcases h.cov k' hk' with hl | ⟨n, hn⟩
      · exact .inl hl
      · exact .inr ⟨n, by rw [lookup_unbind, if_neg e]; exact hn⟩
  · intro k1 k2 n h1 h2
    rw [lookup_unbind] at h1 h2
    split at h1
    · cases h1
    · split at h2
      · cases h2
      · exact h.injR k1 k2 n h1 h2
  · intro k1 k2 n h1 h2
    rw [lookup_unbind] at h2
    split at h2
    · cases h2
    · exact h.disj k1 k2 n h1 h2
  · intro k' n hk'
    rw [lookup_unbind] at hk'
    split at hk'
    · cases hk'
    · exact h.keyR k' n hk'

/-! ### a store that changes in one kind of resource only -/

/-- pushing an `rt::Arc` object does not change the allocation objects -/
theorem alloc_append_arc (os : List Obj) (s : ArcSt) (n : Nat) (d : Bool) :
    av (os ++ [.arc s]) n = .alloc d ↔ av os n = .alloc d := by
  rw [av_append]
  split
  · next e =>
    subst e
    have : av os os.length = .other := by unfold av; rw [List.getElem?_eq_none (Nat.le_refl _)]
    rw [this]
    constructor <;> intro h <;> cases h
  · rfl

/-- replacing an `rt::Arc` object by one does not change the allocation objects -/
theorem alloc_set_arc {os : List Obj} {o : Nat} {s : ArcSt} (h : os[o]? = some (.arc s)) (s' : ArcSt) (n : Nat)
    (d : Bool) : av (os.set o (.arc s')) n = .alloc d ↔ av os n = .alloc d := by
  have ho : o < os.length := (List.getElem?_eq_some_iff.1 h).1
  rw [av_set _ _ _ _ ho]
  split
  · next e =>
    subst e
    rw [av_of h]
    constructor <;> intro h <;> cases h
  · rfl

/-- pushing an allocation object changes neither the Arc objects nor the channels -/
theorem arc_append_alloc (os : List Obj) (s : AllocSt) (n k : Nat) :
    (av (os ++ [.alloc s]) n = .arc k ↔ av os n = .arc k) ∧ (av (os ++ [.alloc s]) n = .chan k → av os n = .chan k) := by
  rw [av_append]
  split
  · next e =>
    subst e
    have : av os os.length = .other := by unfold av; rw [List.getElem?_eq_none (Nat.le_refl _)]
    rw [this]
    refine ⟨?_, ?_⟩
    · constructor <;> intro h <;> cases h
    · intro h; cases h
  · exact ⟨Iff.rfl, id⟩

/-- replacing an allocation object by one changes neither the Arc objects nor the channels -/
theorem arc_set_alloc {os : List Obj} {o : Nat} {d : Bool} (h : av os o = .alloc d) (s' : AllocSt) (n k : Nat) :
    (av (os.set o (.alloc s')) n = .arc k ↔ av os n = .arc k) ∧
    (av (os.set o (.alloc s')) n = .chan k → av os n = .chan k) := by
  have ho : o < os.length := av_lt (by rw [h]; intro e; cases e)
  rw [av_set _ _ _ _ ho]
  split
  · next e =>
    subst e
    rw [h]
    refine ⟨?_, ?_⟩
    · constructor <;> intro h <;> cases h
    · intro h; cases h
  · exact ⟨Iff.rfl, id⟩

end Refine3
end LoomVerif

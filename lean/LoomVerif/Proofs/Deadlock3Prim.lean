/-
Deadlock soundness, FUTURES fragment, part 3: what the helpers of the interpreter that do not schedule do to the
thread table (state and pending operation of every thread), to the objects (as the relation sees them) and to the
path: the atomic primitives, the waker's `Arc`, `post_acquire`, `release_lock`, `Notify::notify`, the second half
of `Notify::wait`.
-/
import LoomVerif.Proofs.Deadlock3NoDL

set_option linter.unusedSimpArgs false
set_option linter.unusedVariables false

namespace LoomVerif
namespace Deadlock3
open Refine Refine4 Deadlock

/-! ### thread tables with the same states and pending operations -/

/-- the same active thread, the same number of threads, every thread in the same state with the same pending
operation -/
def TSame (s s' : Threads) : Prop :=
  s'.active = s.active ∧ s'.threads.length = s.threads.length ∧
  ∀ i, (s'.get i).state = (s.get i).state ∧ (s'.get i).operation = (s.get i).operation

theorem TSame.refl (s : Threads) : TSame s s := ⟨rfl, rfl, fun _ => ⟨rfl, rfl⟩⟩

theorem TSame.trans {a b c : Threads} (h1 : TSame a b) (h2 : TSame b c) : TSame a c :=
  ⟨h2.1.trans h1.1, h2.2.1.trans h1.2.1,
    fun i => ⟨(h2.2.2 i).1.trans (h1.2.2 i).1, (h2.2.2 i).2.trans (h1.2.2 i).2⟩⟩

theorem tsame_modify (s : Threads) (i : Nat) (f : Thread → Thread)
    (hf : ∀ t, (f t).state = t.state ∧ (f t).operation = t.operation) : TSame s (s.modify i f) := by
  refine ⟨rfl, by simp [Threads.modify], fun j => ?_⟩
  rw [WB.get_modify]
  split
  · exact hf _
  · exact ⟨rfl, rfl⟩

theorem tsame_setCaus (s : Threads) (v : VV) : TSame s (s.setCaus v) :=
  tsame_modify s _ _ (fun _ => ⟨rfl, rfl⟩)

theorem tsame_syncLoad (s : Threads) (sy : Sync) (o : Ord) : TSame s (s.syncLoad sy o) := tsame_setCaus s _

theorem tsame_inc (s : Threads) : TSame s s.activeCausalityInc := tsame_modify s _ _ (fun _ => ⟨rfl, rfl⟩)

theorem Atomic.load_tsame {a : Atomic} {ths : Threads} {idx : Nat} {o : Ord} {r : Atomic × Threads × Nat}
    (h : a.load ths idx o = .ok r) : TSame ths r.2.1 := by
  unfold Atomic.load at h
  mt_split h
  all_goals first | (cases h; done) | (cases h; exact tsame_syncLoad _ _ _)

theorem Atomic.rmw_tsame {a : Atomic} {ths : Threads} {idx : Nat} {so fo : Ord} {f : Nat → Option Nat}
    {r : Atomic × Threads × Nat × Bool} (h : a.rmw ths idx so fo f = .ok r) : TSame ths r.2.1 := by
  unfold Atomic.rmw at h
  mt_split h
  all_goals first | (cases h; done) | (cases h; exact tsame_syncLoad _ _ _)

theorem Prim.effect_tsame {t : ATy} {a : Atomic} {ths : Threads} {p : Prim} {idx : Nat}
    {r : Atomic × Threads × Ret} (h : p.effect t a ths idx = .ok r) : TSame ths r.2.1 := by
  unfold Prim.effect at h
  mt_split h
  all_goals first
    | (cases h; done)
    | (cases h; exact TSame.refl _)
    | (have := Atomic.load_tsame ‹Atomic.load _ _ _ _ = Except.ok _›; cases h; exact this)
    | (have := Atomic.rmw_tsame ‹Atomic.rmw _ _ _ _ _ _ = Except.ok _›; cases h; exact this)

/-! ### the path along the load of an atomic -/

theorem entryOK_load (l : Load) : entryOK (.load l) = true := rfl

theorem pushLoad_pathOK {p p' : Path} {seed : List Nat} {pk : Bool} (h : p.pushLoad seed pk = .ok p')
    (hw : p.WF ∧ AllOK p) : p'.WF ∧ AllOK p' := by
  refine ⟨(Path.pushLoad_frame h).1.wf hw.1, ?_⟩
  obtain ⟨_, _, rfl⟩ := Path.pushLoad_ok h
  intro e he
  simp only [List.mem_append, List.mem_singleton] at he
  rcases he with he | rfl
  · exact hw.2 e he
  · rfl

theorem branchLoad_pathOK {p : Path} {r : Path × Nat} (h : p.branchLoad = .ok r)
    (hw : p.WF ∧ AllOK p) : r.1.WF ∧ AllOK r.1 := by
  obtain ⟨p', v⟩ := r
  obtain ⟨hf, hb⟩ := Path.branchLoad_frame h
  refine ⟨hf.wf hw.1, ?_⟩
  intro e he
  rw [hb] at he
  exact hw.2 e he

theorem pushLoad_replayOK {p p' : Path} {seed : List Nat} {pk : Bool} (h : p.pushLoad seed pk = .ok p')
    (hp : ReplayOK p) : ReplayOK p' := by
  obtain ⟨_, _, rfl⟩ := Path.pushLoad_ok h
  intro i hi hpi
  simp only [List.length_append, List.length_singleton] at hi
  by_cases e : i < p.branches.length
  · have := hp i e hpi
    simp only [List.getElem?_append_left e]
    exact this
  · have : i = p.branches.length := by omega
    subst this
    simp [entryOK, Entry.kind]

theorem branchLoad_replayOK {p : Path} {r : Path × Nat} (h : p.branchLoad = .ok r) (hp : ReplayOK p) :
    ReplayOK r.1 := by
  unfold Path.branchLoad at h
  split at h
  · cases h
  · split at h
    · cases h; exact hp.advance
    · cases h

/-! ### an atomic primitive -/

/-- what an atomic primitive does: the atomic object is rewritten; every thread keeps its state and its pending
operation; the path stays well-formed -/
structure PrimFx (w w1 : World) (x : Nat) : Prop where
  prog : w1.prog = w.prog
  ctl : w1.ctl = w.ctl
  spawned : w1.spawned = w.spawned
  futs : w1.futs = w.futs
  pan : w1.panicking = w.panicking
  ths : TSame w.exec.threads w1.exec.threads
  objs : ∃ a a', w.exec.objs[x]? = some (.atomic a) ∧ w1.exec.objs = w.exec.objs.set x (.atomic a')
  path : w.exec.path.WF ∧ AllOK w.exec.path → w1.exec.path.WF ∧ AllOK w1.exec.path
  rp : ReplayOK w.exec.path → ReplayOK w1.exec.path

theorem primEffect_fx {w w1 : World} {x : Nat} {p : Prim} {r : Ret} (h : w.primEffect x p = .ok (w1, r)) :
    PrimFx w w1 x := by
  unfold World.primEffect at h
  have key : ∀ w0 : World, w0.exec.objs = w.exec.objs → w0.exec.path = w.exec.path →
      TSame w.exec.threads w0.exec.threads → w0.prog = w.prog → w0.ctl = w.ctl → w0.spawned = w.spawned →
      w0.futs = w.futs → w0.panicking = w.panicking →
      (do
        let a ← w0.getAtomic (w0.atomObj x)
        let (w1, idx) ← match ← p.candidates a w0.ths with
          | some l => do
            let path ← if w0.exec.path.isTraversed then w0.exec.path.pushLoad l w0.panicking
                       else pure w0.exec.path
            let (path, idx) ← path.branchLoad
            pure (w0.setPath path, idx)
          | none => pure (w0, 0)
        let (a, ths, r) ← p.effect w1.cfg.ty a w1.ths idx
        pure ((w1.setObj (w1.atomObj x) (.atomic a)).setThs ths, r)) = Except.ok (w1, r) →
      PrimFx w w1 x := by
    intro w0 eo ep et e1 e2 e3 e4 e5 h
    simp only [bind, Except.bind, pure, Except.pure, World.atomObj] at h
    split at h
    · cases h
    · next a ha =>
      have ha' : w.exec.objs[x]? = some (.atomic a) := by
        rw [← eo]; exact getAtomic_ok4 ha
      repeat' split at h
      all_goals first
        | (cases h; done)
        | (cases h
           have hts := Prim.effect_tsame ‹Prim.effect _ _ _ _ _ = Except.ok _›
           refine ⟨e1, e2, e3, e4, e5, et.trans hts,
             ⟨a, _, ha', by show (w0.exec.objs.set x _) = _; rw [eo]⟩, fun hw => ?_, fun hw => ?_⟩
           · first
             | (show w0.exec.path.WF ∧ AllOK w0.exec.path
                rw [ep]; exact hw)
             | (exact branchLoad_pathOK ‹Path.branchLoad _ = Except.ok _›
                  (pushLoad_pathOK ‹Path.pushLoad _ _ _ = Except.ok _› (by rw [ep]; exact hw)))
             | (exact branchLoad_pathOK ‹Path.branchLoad _ = Except.ok _› (by rw [ep]; exact hw))
           · first
             | (show ReplayOK w0.exec.path
                rw [ep]; exact hw)
             | (exact branchLoad_replayOK ‹Path.branchLoad _ = Except.ok _›
                  (pushLoad_replayOK ‹Path.pushLoad _ _ _ = Except.ok _› (by rw [ep]; exact hw)))
             | (exact branchLoad_replayOK ‹Path.branchLoad _ = Except.ok _› (by rw [ep]; exact hw)))
  split at h
  · exact key w.sync rfl rfl (tsame_inc _) rfl rfl rfl rfl rfl h
  · exact key w rfl rfl (TSame.refl _) rfl rfl rfl rfl rfl h

/-! ### the waker's `Arc` -/

/-- a helper that rewrites an `Arc` object and the causality of the active thread only -/
structure ArcFx (w w1 : World) : Prop where
  prog : w1.prog = w.prog
  ctl : w1.ctl = w.ctl
  spawned : w1.spawned = w.spawned
  futs : w1.futs = w.futs
  pan : w1.panicking = w.panicking
  ths : TSame w.exec.threads w1.exec.threads
  objs : w1.exec.objs.map ov4 = w.exec.objs.map ov4
  path : w1.exec.path = w.exec.path

theorem ArcFx.refl (w : World) : ArcFx w w := ⟨rfl, rfl, rfl, rfl, rfl, TSame.refl _, rfl, rfl⟩

theorem ArcFx.trans {a b c : World} (h1 : ArcFx a b) (h2 : ArcFx b c) : ArcFx a c :=
  ⟨h2.prog.trans h1.prog, h2.ctl.trans h1.ctl, h2.spawned.trans h1.spawned, h2.futs.trans h1.futs,
    h2.pan.trans h1.pan, h1.ths.trans h2.ths, h2.objs.trans h1.objs, h2.path.trans h1.path⟩

theorem arcFx_setObj {w : World} {o : Nat} {s : ArcSt} (s' : ArcSt) (ho : w.exec.objs[o]? = some (.arc s)) :
    ArcFx w (w.setObj o (.arc s')) :=
  ⟨rfl, rfl, rfl, rfl, rfl, TSame.refl _, map_set_same ho rfl, rfl⟩

theorem arcFx_syncLoad (w : World) (sy : Sync) (o : Ord) : ArcFx w (w.setThs (w.ths.syncLoad sy o)) :=
  ⟨rfl, rfl, rfl, rfl, rfl, tsame_syncLoad _ _ _, rfl, rfl⟩

theorem wakerClone_fx {w w1 : World} {a : Nat} (h : w.wakerClone a = .ok w1) : ArcFx w w1 := by
  unfold World.wakerClone at h
  simp only [bind, Except.bind, pure, Except.pure] at h
  split at h
  · cases h
  · next s hs =>
    cases h
    exact ⟨rfl, rfl, rfl, rfl, rfl, TSame.refl _, map_set_same (C20.getArc_ok' hs) rfl, rfl⟩

theorem refDecEffect_fx {w w1 : World} {o : Nat} {b : Bool} (h : w.refDecEffect o = .ok (w1, b)) :
    ArcFx w w1 := by
  unfold World.refDecEffect at h
  simp only [bind, Except.bind, pure, Except.pure, throw, throwThe, MonadExceptOf.throw] at h
  split at h
  · cases h
  · next s hs =>
    have ho := C20.getArc_ok' hs
    split at h
    · cases h
    · split at h
      · cases h
        exact (arcFx_setObj _ ho).trans (arcFx_syncLoad _ _ _)
      · cases h
        exact arcFx_setObj _ ho

theorem afterDec_fx {w w1 : World} {a : Nat} {last : Bool} (h : w.afterDec a last = .ok w1) : ArcFx w w1 := by
  unfold World.afterDec at h
  simp only [bind, Except.bind, pure, Except.pure, throw, throwThe, MonadExceptOf.throw] at h
  repeat' split at h
  all_goals first
    | (cases h; done)
    | (cases h; exact ⟨rfl, rfl, rfl, rfl, rfl, TSame.refl _, rfl, rfl⟩)

theorem wakerDrop_fx {w w1 : World} {a : Nat} (h : w.wakerDrop a = .ok w1) : ArcFx w w1 := by
  rw [C20.wakerDrop_eq] at h
  obtain ⟨⟨w2, last⟩, h1, h2⟩ := Refine.bind_ok h
  exact (refDecEffect_fx h1).trans (afterDec_fx h2)

end Deadlock3
end LoomVerif

/-
C07, correspondence with the reference semantics (`Spec/SC.lean`) on the lock component: the twin's
lock objects, read through `absMutex` / `absRwWriter` / `absRwReaders` (loom thread ids mapped to
DSL thread indices by `ctl.body`), evolve under `tryLock`/`lock`/`unlock` (and the rwlock
operations) exactly as `SC.step` prescribes, and the twin's blocking condition is the negation of
`SC.enabled`.
-/
import LoomVerif.Proofs.C07Handover
import LoomVerif.Proofs.SyncRunOp
import LoomVerif.Spec.SC

namespace LoomVerif
namespace C07
open C12 Sy

/-- the DSL thread index run by loom thread `t` -/
def bodyOf (w : World) (t : Nat) : Nat := (w.ctlOf t).body

/-- the reference semantics' view of mutex `mi`: who holds it (as a DSL thread index) -/
def absMutex (w : World) (mi : Nat) : Option Nat :=
  match w.exec.objs[w.mutexObj mi]? with
  | some (.mutex m) => m.lock.map (bodyOf w)
  | _ => none

/-- the reference semantics' view of rwlock `li`: the writer -/
def absRwWriter (w : World) (li : Nat) : Option Nat :=
  match w.exec.objs[w.rwObj li]? with
  | some (.rwlock s) => (writerOf s.lock).map (bodyOf w)
  | _ => none

/-- the reference semantics' view of rwlock `li`: the readers -/
def absRwReaders (w : World) (li : Nat) : List Nat :=
  match w.exec.objs[w.rwObj li]? with
  | some (.rwlock s) => (readersOf s.lock).map (bodyOf w)
  | _ => []

/-! ### bookkeeping -/

theorem bodyOf_complete (w : World) (r : Ret) (t : Nat) : bodyOf (w.complete r) t = bodyOf w t := by
  simp only [bodyOf, World.complete, World.modCtl, World.ctlOf, List.getD, List.getElem?_modify]
  cases h : w.ctl[t]? with
  | none => simp
  | some c => by_cases e : w.tid = t <;> simp [e]

theorem mutexObj_inj (w : World) {i j : Nat} (h : w.mutexObj i = w.mutexObj j) : i = j := by
  simp only [World.mutexObj] at h; omega

theorem rwObj_inj (w : World) {i j : Nat} (h : w.rwObj i = w.rwObj j) : i = j := by
  simp only [World.rwObj, World.mutexObj] at h; omega

/-- `absMutex` after the mutex object `mi` was replaced and the operation completed -/
theorem absMutex_update {w : World} {mi : Nat} {m m' : MutexSt} (ts : Threads) (r : Ret)
    (h : w.exec.objs[w.mutexObj mi]? = some (.mutex m)) (mj : Nat) :
    absMutex (({ w with exec := { w.exec with
        objs := w.exec.objs.set (w.mutexObj mi) (.mutex m'), threads := ts } } : World).complete r) mj
      = if mj = mi then m'.lock.map (bodyOf w) else absMutex w mj := by
  have hb : bodyOf (({ w with exec := { w.exec with
        objs := w.exec.objs.set (w.mutexObj mi) (.mutex m'), threads := ts } } : World).complete r)
      = bodyOf w := by
    funext t; rw [bodyOf_complete]; rfl
  unfold absMutex
  rw [hb]
  show (match (w.exec.objs.set (w.mutexObj mi) (.mutex m'))[w.mutexObj mj]? with
      | some (.mutex m) => m.lock.map (bodyOf w) | _ => none) = _
  by_cases e : mj = mi
  · subst e
    rw [getElem?_set_self' _ _ _ _ h]; simp
  · have : w.mutexObj mj ≠ w.mutexObj mi := fun hh => e (mutexObj_inj w hh)
    rw [getElem?_set_ne' _ _ _ _ this]; simp [e]

theorem getD_set_list {α} (l : List α) (i j : Nat) (v d : α) (hi : i < l.length) :
    (l.set i v).getD j d = if j = i then v else l.getD j d := by
  by_cases e : j = i
  · subst e; simp [List.getD, hi]
  · have : ¬ i = j := fun h => e h.symm
    simp [List.getD, e, this]

/-! ### the reference semantics, specialised to the lock operations -/

theorem SC_step_tryLock {p : Prog} {s : SC.St} {t mi : Nat}
    (hcv : (s.th t).cvNotified = none) (hop : SC.opOf p s t = some (.tryLock mi)) :
    SC.step p s t =
      if (s.mutex.getD mi none).isNone then
        [(({ s.tick t with mutex := s.mutex.set mi (some t) } : SC.St).acquire t
            (s.mutexRel.getD mi VV.zero)).ret t (SC.bool01 true)]
      else [(s.tick t).ret t (SC.bool01 false)] := by
  unfold SC.step
  simp only [hcv, hop]
  rfl

theorem SC_step_lock {p : Prog} {s : SC.St} {t mi : Nat}
    (hcv : (s.th t).cvNotified = none) (hop : SC.opOf p s t = some (.lock mi)) :
    SC.step p s t =
      [(({ s.tick t with mutex := s.mutex.set mi (some t) } : SC.St).acquire t
          (s.mutexRel.getD mi VV.zero)).ret t .unit] := by
  unfold SC.step
  simp only [hcv, hop]
  rfl

theorem SC_step_unlock {p : Prog} {s : SC.St} {t mi : Nat}
    (hcv : (s.th t).cvNotified = none) (hop : SC.opOf p s t = some (.unlock mi)) :
    SC.step p s t =
      [({ s.tick t with
          mutex := s.mutex.set mi none
          mutexRel := s.mutexRel.set mi ((s.mutexRel.getD mi VV.zero).join ((s.tick t).vc t)) }
        : SC.St).ret t .unit] := by
  unfold SC.step
  simp only [hcv, hop]
  rfl

/-- `SC.enabled` of a thread that is at a `lock`: the mutex is free -/
theorem SC_enabled_lock {p : Prog} {s : SC.St} {t mi : Nat}
    (hv : s.verdict = none) (hst : (s.th t).started = true) (hfin : (s.th t).finished = false)
    (hw : (s.th t).cvWaiting = none) (hcv : (s.th t).cvNotified = none)
    (hop : SC.opOf p s t = some (.lock mi)) :
    SC.enabled p s t = (s.mutex.getD mi none).isNone := by
  unfold SC.enabled
  simp [hv, hst, hfin, hw, hcv, hop]

/-- the reference semantics never disables a `try_lock` -/
theorem SC_enabled_tryLock {p : Prog} {s : SC.St} {t mi : Nat}
    (hv : s.verdict = none) (hst : (s.th t).started = true) (hfin : (s.th t).finished = false)
    (hw : (s.th t).cvWaiting = none) (hcv : (s.th t).cvNotified = none)
    (hop : SC.opOf p s t = some (.tryLock mi)) :
    SC.enabled p s t = true := by
  unfold SC.enabled
  simp [hv, hst, hfin, hw, hcv, hop]

/-! ### one-step simulation on the mutex component -/

/-- the mutex component of an `SC` state is the abstraction of the twin's mutex objects -/
def MutexRel (w : World) (s : SC.St) : Prop := ∀ mj, s.mutex.getD mj none = absMutex w mj

theorem absMutex_of {w : World} {mi : Nat} {m : MutexSt}
    (h : w.exec.objs[w.mutexObj mi]? = some (.mutex m)) : absMutex w mi = m.lock.map (bodyOf w) := by
  simp [absMutex, h]

/-- `try_lock`, second stage: the twin returns `1` exactly when `SC.step` does, and the successor
mutex components correspond -/
theorem tryLock_sim {w : World} {c : TCtl} {mi : Nat} {m : MutexSt} {p : Prog} {s : SC.St}
    (h : w.exec.objs[w.mutexObj mi]? = some (.mutex m)) (hs : c.stage ≠ 0)
    (hrel : MutexRel w s) (hmi : mi < s.mutex.length)
    (hcv : (s.th (bodyOf w w.tid)).cvNotified = none)
    (hop : SC.opOf p s (bodyOf w w.tid) = some (.tryLock mi)) :
    ∃ w1 s1, w.postAcquire (w.mutexObj mi) = .ok (w1, (s.mutex.getD mi none).isNone) ∧
      w.runOp c (.tryLock mi) = .ok (w1.complete (.val (if (s.mutex.getD mi none).isNone then 1 else 0))) ∧
      SC.step p s (bodyOf w w.tid) =
        [s1.ret (bodyOf w w.tid) (.val (if (s.mutex.getD mi none).isNone then 1 else 0))] ∧
      MutexRel (w1.complete (.val (if (s.mutex.getD mi none).isNone then 1 else 0))) s1 := by
  have habs := hrel mi
  rw [absMutex_of h] at habs
  rw [SC_step_tryLock hcv hop, runOp_tryLock]
  simp only [hs, beq_iff_eq, if_false]
  cases hl : m.lock with
  | some x =>
    have hn : (s.mutex.getD mi none).isNone = false := by rw [habs, hl]; rfl
    rw [hn, postAcquire_held h (by simp [hl])]
    refine ⟨w, s.tick (bodyOf w w.tid), rfl, rfl, rfl, ?_⟩
    intro mj
    show s.mutex.getD mj none = _
    rw [hrel mj]
    unfold absMutex
    rw [show bodyOf (w.complete _) = bodyOf w from funext (bodyOf_complete w _)]
    rfl
  | none =>
    have hn : (s.mutex.getD mi none).isNone = true := by rw [habs, hl]; rfl
    rw [hn, postAcquire_free h hl]
    refine ⟨_, _, rfl, rfl, rfl, ?_⟩
    intro mj
    rw [absMutex_update _ _ h]
    show (s.mutex.set mi (some (bodyOf w w.tid))).getD mj none = _
    rw [getD_set_list _ _ _ _ _ hmi, hrel mj]
    rfl

/-- `lock`, second stage with the mutex free (the only case in which `SC` lets the thread step):
the successor mutex components correspond; with the mutex held the twin raises `expectedLock` -/
theorem lock_sim {w : World} {c : TCtl} {mi : Nat} {m : MutexSt} {p : Prog} {s : SC.St}
    (h : w.exec.objs[w.mutexObj mi]? = some (.mutex m)) (hs : c.stage ≠ 0)
    (hrel : MutexRel w s) (hmi : mi < s.mutex.length)
    (hcv : (s.th (bodyOf w w.tid)).cvNotified = none)
    (hop : SC.opOf p s (bodyOf w w.tid) = some (.lock mi)) :
    ((s.mutex.getD mi none).isNone = false → w.runOp c (.lock mi) = .error .expectedLock) ∧
    ((s.mutex.getD mi none).isNone = true →
      ∃ (w1 : World) (s1 : SC.St), w.runOp c (.lock mi) = .ok (w1.complete .unit) ∧
        SC.step p s (bodyOf w w.tid) = [s1.ret (bodyOf w w.tid) .unit] ∧
        MutexRel (w1.complete .unit) s1) := by
  have habs := hrel mi
  rw [absMutex_of h] at habs
  rw [SC_step_lock hcv hop, runOp_lock]
  simp only [hs, beq_iff_eq, if_false]
  constructor
  · intro hn
    have hl : m.lock.isSome = true := by
      rw [habs] at hn; cases hm : m.lock <;> simp [hm] at hn ⊢
    rw [postAcquire_held h hl]; rfl
  · intro hn
    have hl : m.lock = none := by
      rw [habs] at hn; cases hm : m.lock <;> simp [hm] at hn ⊢
    rw [postAcquire_free h hl]
    refine ⟨_, _, rfl, rfl, ?_⟩
    intro mj
    rw [absMutex_update _ _ h]
    show (s.mutex.set mi (some (bodyOf w w.tid))).getD mj none = _
    rw [getD_set_list _ _ _ _ _ hmi, hrel mj]
    rfl

/-- `lock`, first stage: the twin blocks the thread exactly when `SC.enabled` is false -/
theorem lock_block_iff_disabled {w : World} {c : TCtl} {mi : Nat} {m : MutexSt} {p : Prog}
    {s : SC.St} (h : w.exec.objs[w.mutexObj mi]? = some (.mutex m)) (hs : c.stage = 0)
    (hrel : MutexRel w s)
    (hv : s.verdict = none) (hst : (s.th (bodyOf w w.tid)).started = true)
    (hfin : (s.th (bodyOf w w.tid)).finished = false)
    (hw : (s.th (bodyOf w w.tid)).cvWaiting = none)
    (hcv : (s.th (bodyOf w w.tid)).cvNotified = none)
    (hop : SC.opOf p s (bodyOf w w.tid) = some (.lock mi)) :
    w.runOp c (.lock mi) =
      (w.setStage 1).branch (w.mutexObj mi) .opaque
        (block := !(SC.enabled p s (bodyOf w w.tid))) (wait := true) := by
  rw [SC_enabled_lock hv hst hfin hw hcv hop, hrel mi, absMutex_of h, runOp_lock]
  simp only [hs, getMutex_of h, bind, Except.bind]
  cases m.lock <;> rfl

/-- `unlock`: the successor mutex components correspond (`set m none`) -/
theorem unlock_sim {w : World} {c : TCtl} {mi : Nat} {m : MutexSt} {p : Prog} {s : SC.St}
    (h : w.exec.objs[w.mutexObj mi]? = some (.mutex m)) (ha : w.ths.isActive = true)
    (hrel : MutexRel w s) (hmi : mi < s.mutex.length)
    (hcv : (s.th (bodyOf w w.tid)).cvNotified = none)
    (hop : SC.opOf p s (bodyOf w w.tid) = some (.unlock mi)) :
    ∃ w1 s1, w.releaseLock (w.mutexObj mi) = .ok w1 ∧
      w.runOp c (.unlock mi) = .ok (w1.complete .unit) ∧
      SC.step p s (bodyOf w w.tid) = [s1.ret (bodyOf w w.tid) .unit] ∧
      MutexRel (w1.complete .unit) s1 ∧ absMutex (w1.complete .unit) mi = none := by
  rw [SC_step_unlock hcv hop, runOp_unlock, releaseLock_active h ha]
  refine ⟨_, _, rfl, rfl, rfl, ?_, ?_⟩
  · intro mj
    rw [absMutex_update _ _ h]
    show (s.mutex.set mi none).getD mj none = _
    rw [getD_set_list _ _ _ _ _ hmi, hrel mj]
    rfl
  · rw [absMutex_update _ _ h]; simp

end C07
end LoomVerif

/-
Refinement, WAIT fragment, part 11: `nNotify n` and `nWait n`, including the one modelled spurious return per
`Notify`: the twin decides it in the first stage of `nWait` (path entry `branchSpurious`, `didSpur := true`,
stage 2) and returns in the next stage; that stage is matched by a `SC.spurious` step of the reference.
-/
import LoomVerif.Proofs.Refine2Drop

namespace LoomVerif
namespace Refine2
open Refine Sy C07 C08

theorem pendN_modify (p : Prog) (ctl : List TCtl) (t : Nat) (f : TCtl → TCtl) (i : Nat) (hi : i < ctl.length) :
    pendN p ((ctl.modify t f).getD i {}) =
      if i = t then pendN p (f (ctl.getD t {})) else pendN p (ctl.getD i {}) := by
  by_cases e : i = t
  · subst e; rw [getD_modify_self _ _ _ _ hi, if_pos rfl]
  · rw [getD_modify_ne _ _ _ _ _ e, if_neg e]

/-- `Notify` `n` changes on both sides together with the control record of thread `t` -/
theorem RO.setN {p ctl sp objs nw s} (h : RO p ctl sp objs nw s) {n : Nat} (hn : n < p.cfg.nNotifies)
    (t : Nat) (f : TCtl → TCtl)
    (hbody : (f (ctl.getD t {})).body = (ctl.getD t {}).body)
    (hpc : (ctl.getD t {}).pc ≤ (f (ctl.getD t {})).pc)
    (hfin : 10 ≤ (ctl.getD t {}).fin → 10 ≤ (f (ctl.getD t {})).fin)
    (hC0 : pendCv p (ctl.getD t {}) = none) (hC1 : pendCv p (f (ctl.getD t {})) = none)
    (hD : ∀ q, pendD p (ctl.getD t {}) = some q → pendD p (f (ctl.getD t {})) = some q)
    (x : Obj) (fl ds b us : Bool) (hx : view2 x = .notify true fl ds)
    (hoth : ∀ n' st, n' ≠ n → pendN p (ctl.getD t {}) ≠ some (n', st) ∧
      pendN p (f (ctl.getD t {})) ≠ some (n', st))
    (h2 : ∀ i st, i < ctl.length → pendN p ((ctl.modify t f).getD i {}) = some (n, st) → b = true)
    (h3 : ∀ i j st st', i < ctl.length → j < ctl.length → pendN p ((ctl.modify t f).getD i {}) = some (n, st) →
      pendN p ((ctl.modify t f).getD j {}) = some (n, st') → i = j)
    (h4 : ∀ i, i < ctl.length → pendN p ((ctl.modify t f).getD i {}) = some (n, 2) → ds = true ∧ us = false)
    (h5 : (∀ i, i < ctl.length → pendN p ((ctl.modify t f).getD i {}) ≠ some (n, 2)) → ds = us) :
    RO p (ctl.modify t f) sp (objs.set (notifyIdx p n) x) (nw.set n b)
      { s with nFlag := s.nFlag.set n fl, nSpurUsed := s.nSpurUsed.set n us } := by
  obtain ⟨ds0, hv0, _⟩ := h.n.n n hn
  exact ⟨(h.y.modify t f hbody hfin).setOther hv0 x (by intro _ e; cases e) (by intro _ e; cases e)
      (by intro _ _ e; cases e),
    (h.ch.modify t f hbody hpc hD).setOther hv0 x (by intro _ _ e; cases e),
    h.n.setN hn t f x fl ds b us hx hoth h2 h3 h4 h5,
    (h.cv.modifyPlain t f hbody hC0 hC1).setOther hv0 x (by intro _ e; cases e)⟩

theorem notifyEffect_obs2 {w : World} {o : Nat} {ns : NotifySt} {w1 : World}
    (hn : w.exec.objs[o]? = some (.notify ns)) (h : w.notifyEffect o = .ok w1) :
    w1.ctl = w.ctl ∧ w1.tid = w.tid ∧ w1.prog = w.prog ∧ w1.spawned = w.spawned ∧
    w1.events = w.events ∧ w1.notifyWaiting = w.notifyWaiting ∧
    w1.exec.threads.threads.length = w.exec.threads.threads.length ∧
    ∃ ns' : NotifySt, ns'.spurious = ns.spurious ∧ ns'.notified = true ∧ ns'.didSpur = ns.didSpur ∧
      w1.exec.objs = w.exec.objs.set o (.notify ns') := by
  rw [notifyEffect_eq hn] at h
  cases h
  refine ⟨rfl, rfl, rfl, rfl, rfl, rfl, ?_,
    { ns with sync := ns.sync.store w.ths.activeT.released w.ths.caus .rel, notified := true }, rfl, rfl, rfl, rfl⟩
  simp

/-- the operations on `Notify` `n'` other than the one the thread is at -/
theorem pendN_other {p : Prog} {c : TCtl} {n : Nat} {op : Op} (hop : opOfCtl p c = some op)
    (hn : ∀ n', op = .nWait n' → n' = n) (n' st : Nat) (hne : n' ≠ n) : pendN p c ≠ some (n', st) := by
  unfold pendN
  rw [hop]
  intro e
  cases op <;> simp only at e
  case nWait m =>
    split at e
    · cases e
    · cases e
      exact hne (hn _ rfl)
  all_goals cases e

section
variable {w w' : World} {s : SCData2}

theorem sim_nNotify (hR : R2c w s) (hact : w.tid < w.ctl.length) {ni : Nat}
    (hop : opAt2 w = some (.nNotify ni)) (hn : ni < w.prog.cfg.nNotifies)
    (h : w.runOp (w.ctlOf w.tid) (.nNotify ni) = .ok w') : Sim2c w s w' := by
  obtain ⟨_, hrel, hof⟩ := base2 hR hact
  obtain ⟨hN, hC, hD⟩ := plain_pend (c := w.ctlOf w.tid) hop rfl
  obtain ⟨c1, c2⟩ := cv_none hR hact hC
  have hop' : opOfCtl w.prog (w.ctl.getD w.tid {}) = some (.nNotify ni) := hop
  rw [runOp_nNotify] at h
  split at h
  · obtain ⟨hqt, hc, _⟩ := branch_quiet2 h
    exact sim_stage (k := 1) hR hact hop (by simp) hC (Nat.le_refl _) (by omega) (quiet2_setStage hqt) hc
  · obtain ⟨w1, hne, h⟩ := bind_ok h
    simp only [pure, Except.pure] at h
    cases h
    obtain ⟨ds0, hv, a2, a3, a4, a5⟩ := hR.o.n.n ni hn
    obtain ⟨ns, hobj, hspur, hnot, hds⟩ := objView2_notify hv
    have hobj' : w.exec.objs[w.notifyObj ni]? = some (.notify ns) := hobj
    obtain ⟨hc1, ht1, hp1, hs1, he1, hnw, hl1, ns', hsp', hnt', hds', hobjs⟩ := notifyEffect_obs2 hobj' hne
    have hpe : ∀ i, i < w.ctl.length →
        pendN w.prog ((w.ctl.modify w.tid (completeF .unit)).getD i {}) = pendN w.prog (w.ctl.getD i {}) := by
      intro i hi
      rw [pendN_modify _ _ _ _ _ hi]
      split
      · next e => subst e; exact (pendN_stage0 _ _ rfl).trans hN.symm
      · rfl
    have hRO := hR.o.setN hn w.tid (completeF .unit) rfl (Nat.le_succ _) id hC (pendCv_stage0 _ _ rfl)
      (by intro q hq; rw [show w.ctl.getD w.tid {} = w.ctlOf w.tid from rfl, hD] at hq; cases hq)
      (.notify ns') true ds0 (w.notifyWaiting.getD ni false) (s.nSpurUsed.getD ni true)
      (by simp [view2, hsp', hspur, hnt', hds', hds])
      (by
        intro n' st _
        refine ⟨?_, ?_⟩
        · rw [show w.ctl.getD w.tid {} = w.ctlOf w.tid from rfl, hN]; intro e; cases e
        · rw [pendN_stage0 _ _ rfl]; intro e; cases e)
      (by intro i st hi hp; rw [hpe i hi] at hp; exact a2 i st hi hp)
      (by intro i j st st' hi hj hp hp'; rw [hpe i hi] at hp; rw [hpe j hj] at hp'; exact a3 i j st st' hi hj hp hp')
      (by intro i hi hp; rw [hpe i hi] at hp; exact a4 i hi hp)
      (by
        intro hall
        apply a5
        intro i hi
        have := hall i hi
        rwa [hpe i hi] at this)
    rw [set_getD_self, set_getD_self] at hRO
    have hR' := R2c_complete' (s := s) (d := { s with nFlag := s.nFlag.set ni true }) (w0 := w1)
      hR hact hop hc1 ht1 hp1 hs1 hl1 rfl .unit
      (by
        rw [hobjs, hnw]
        exact hRO.ths _ (CvSame.modify _ _ _ fun _ => ⟨rfl, rfl⟩))
    refine ⟨hp1, hR'.2, .inr ⟨some ((s.th (w.ctlOf w.tid).body).pc, .unit), _,
      .inl ⟨enabled_plain2 hR hact hop hC (by simp) (by simp) (by simp) (by simp) (by simp), ?_⟩, hR'.1, ?_⟩⟩
    · unfold SCData2.stepL
      simp only [c2, hof, hop]
      simp
    · rw [events_complete2, he1, ht1,
        show w1.ctlOf w.tid = w.ctlOf w.tid by simp only [World.ctlOf, hc1], hrel.2.1]
      rfl

theorem sim_nWait (hR : R2c w s) (hact : w.tid < w.ctl.length) {ni : Nat}
    (hop : opAt2 w = some (.nWait ni)) (hn : ni < w.prog.cfg.nNotifies)
    (h : w.runOp (w.ctlOf w.tid) (.nWait ni) = .ok w') : Sim2c w s w' := by
  obtain ⟨_, hrel, hof⟩ := base2 hR hact
  have hop' : opOfCtl w.prog (w.ctl.getD w.tid {}) = some (.nWait ni) := hop
  have hC : pendCv w.prog (w.ctlOf w.tid) = none := pendCv_of_op hop' (by simp)
  have hD : pendD w.prog (w.ctlOf w.tid) = none := pendD_of_op hop' (by simp)
  obtain ⟨c1, c2⟩ := cv_none hR hact hC
  obtain ⟨e1, e2⟩ := started_running2 hR hact (by rw [fin_zero2 hR hact hop]; omega)
  obtain ⟨ds0, hv, a2, a3, a4, a5⟩ := hR.o.n.n ni hn
  obtain ⟨ns, hobj, hspur, hnot, hds⟩ := objView2_notify hv
  have hobj' : w.exec.objs[w.notifyObj ni]? = some (.notify ns) := hobj
  have hlW : ni < w.notifyWaiting.length := by rw [hR.o.n.lenW]; exact hn
  have hst : (w.ctlOf w.tid).stage = 0 ∨ (w.ctlOf w.tid).stage = 1 ∨ (w.ctlOf w.tid).stage = 2 := by
    have := hrel.2.2.2.2.1
    rw [show opOfCtl w.prog (w.ctlOf w.tid) = some (.nWait ni) from hop] at this
    simp only [maxStage] at this
    omega
  -- `pendN` of the active thread, by stage
  have hpN : ∀ k, k ≠ 0 → pendN w.prog { w.ctl.getD w.tid {} with stage := k } = some (ni, k) := by
    intro k hk
    unfold pendN
    rw [show opOfCtl w.prog { w.ctl.getD w.tid {} with stage := k } = some (.nWait ni) from hop]
    simp only [hk, if_false]
  have hpNc : pendN w.prog (w.ctl.getD w.tid {}) =
      if (w.ctlOf w.tid).stage = 0 then none else some (ni, (w.ctlOf w.tid).stage) := by
    unfold pendN
    rw [hop']
    rfl
  have hothc : ∀ (c' : TCtl), (opOfCtl w.prog c' = some (.nWait ni) ∨ c'.stage = 0) → ∀ n' st, n' ≠ ni →
      pendN w.prog (w.ctl.getD w.tid {}) ≠ some (n', st) ∧ pendN w.prog c' ≠ some (n', st) := by
    intro c' hc' n' st hne
    refine ⟨pendN_other hop' (by intro m e; cases e; rfl) n' st hne, ?_⟩
    rcases hc' with hc' | hc'
    · exact pendN_other hc' (by intro m e; cases e; rfl) n' st hne
    · rw [pendN_stage0 _ _ hc']; intro e; cases e
  rcases hst with hst | hst | hst
  · -- stage 0: the waiter registers, decides about the spurious return, and reaches its scheduling point
    rw [runOp_nWait] at h
    simp only [hst] at h
    simp only [bind, Except.bind, pure, Except.pure, throw, throwThe, MonadExceptOf.throw] at h
    split at h
    · cases h
    · next hnw0 =>
      have hnw0' : w.notifyWaiting.getD ni false = false := by simpa using hnw0
      split at h
      · cases h
      · next v hv1 =>
        obtain ⟨w1, st⟩ := v
        cases h
        have hobj0 : ({ w with notifyWaiting := w.notifyWaiting.set ni true } : World).exec.objs[w.notifyObj ni]? =
            some (.notify ns) := hobj'
        obtain ⟨hc, hp, hsp, hev, hnw, hlen, _, hcase⟩ := notifyWait1_obs2 hobj0 hv1
        -- nobody is past the first stage of a wait on this notify
        have hnone : ∀ i st', i < w.ctl.length → pendN w.prog (w.ctl.getD i {}) ≠ some (ni, st') := by
          intro i st' hi hp'
          have := a2 i st' hi hp'
          rw [hnw0'] at this; cases this
        have hdu : ds0 = s.nSpurUsed.getD ni true := a5 (fun i hi => hnone i 2 hi)
        have hcur : pendN w.prog (w.ctl.getD w.tid {}) = none := by
          rw [hpNc, if_pos hst]
        -- the new status of the threads
        have hpe : ∀ k, k ≠ 0 → ∀ i st', i < w.ctl.length →
            pendN w.prog ((w.ctl.modify w.tid fun c => { c with stage := k }).getD i {}) = some (ni, st') →
            i = w.tid ∧ st' = k := by
          intro k hk i st' hi hp'
          rw [pendN_modify _ _ _ _ _ hi] at hp'
          split at hp'
          · next e =>
            rw [hpN k hk] at hp'
            cases hp'
            exact ⟨e, rfl⟩
          · exact absurd hp' (hnone i st' hi)
        have build : ∀ (k : Nat) (x : Obj) (ds : Bool), k ≠ 0 → k ≤ 2 → view2 x = .notify true (s.nFlag.getD ni false) ds →
            (k = 2 → ds = true ∧ s.nSpurUsed.getD ni true = false) → (k ≠ 2 → ds = s.nSpurUsed.getD ni true) →
            ViewLe2 (w.exec.objs.set (notifyIdx w.prog ni) x) w1.exec.objs →
            Sim2c w s (w1.modCtl w.tid fun c => { c with stage := k }) := by
          intro k x ds hk hk2 hx hk4 hk5 hview
          have hRO := hR.o.setN hn w.tid (fun c => { c with stage := k }) rfl (Nat.le_refl _) id hC
            (pendCv_of_op (c := { w.ctl.getD w.tid {} with stage := k }) hop (by simp))
            (by
              intro q hq
              rw [show w.ctl.getD w.tid {} = w.ctlOf w.tid from rfl, hD] at hq; cases hq)
            x (s.nFlag.getD ni false) ds true (s.nSpurUsed.getD ni true) hx
            (hothc { w.ctl.getD w.tid {} with stage := k } (.inl hop))
            (by intro _ _ _ _; rfl)
            (by
              intro i j st' st'' hi hj hp' hp''
              rw [(hpe k hk i st' hi hp').1, (hpe k hk j st'' hj hp'').1])
            (by
              intro i hi hp'
              exact hk4 (hpe k hk i 2 hi hp').2.symm)
            (by
              intro hall
              apply hk5
              intro e
              subst e
              have := hall w.tid hact
              rw [pendN_modify _ _ _ _ _ hact, if_pos rfl, hpN 2 (by omega)] at this
              exact this rfl)
          rw [set_getD_self, set_getD_self] at hRO
          have hR' := R2c_stage' (s := s) (s' := s) (w' := w1.modCtl w.tid fun c => { c with stage := k })
            hR hact hop k (by simpa [maxStage] using hk2) hp hsp hlen
            (by show w1.ctl.modify _ _ = _; rw [hc]) hR.x
            (by
              show RO _ _ _ w1.exec.objs w1.notifyWaiting s
              rw [hnw]
              exact hRO.viewLe hview)
          exact ⟨hp, hR'.2, .inl ⟨hR'.1, hev⟩⟩
        rcases hcase with ⟨rfl, hview⟩ | ⟨rfl, hsp', hdd, hview⟩
        · refine build 1 (.notify ns) ds0 (by omega) (by omega) (by simp [view2, hspur, hnot, hds])
            (by intro e; cases e) (fun _ => hdu) ?_
          rw [set_self_of_getElem? _ _ _ hobj]
          exact hview
        · have hds0 : ds0 = false := by rw [← hds]; exact hdd
          refine build 2 (.notify { ns with didSpur := true }) true (by omega) (by omega)
            (by simp [view2, hspur, hnot])
            (fun _ => ⟨rfl, by rw [← hdu]; exact hds0⟩) (by intro e; exact absurd rfl e) hview
  · -- stage 1: the flag is consumed; the reference step of `nWait`
    rw [runOp_nWait] at h
    simp only [hst] at h
    obtain ⟨w1, h1, h⟩ := bind_ok h
    obtain ⟨hn1, hc1, ht1, hp1, hs1, he1, hl1, hobjs⟩ := notifyWait2_obs hobj' h1
    have hnw := notifyWait2_nw h1
    simp only [pure, Except.pure] at h
    cases h
    have hcur : pendN w.prog (w.ctl.getD w.tid {}) = some (ni, 1) := by
      rw [hpNc, hst]; rfl
    have hnone : ∀ i st', i < w.ctl.length →
        pendN w.prog ((w.ctl.modify w.tid (completeF .unit)).getD i {}) ≠ some (ni, st') := by
      intro i st' hi hp'
      rw [pendN_modify _ _ _ _ _ hi] at hp'
      split at hp'
      · rw [pendN_stage0 _ _ rfl] at hp'; cases hp'
      · next e => exact e (a3 i w.tid st' 1 hi hact hp' hcur)
    have hdu : ds0 = s.nSpurUsed.getD ni true := by
      apply a5
      intro i hi hp'
      have := a3 i w.tid 2 1 hi hact hp' hcur
      subst this
      rw [hcur] at hp'; cases hp'
    have hRO := hR.o.setN hn w.tid (completeF .unit) rfl (Nat.le_succ _) id hC (pendCv_stage0 _ _ rfl)
      (by intro q hq; rw [show w.ctl.getD w.tid {} = w.ctlOf w.tid from rfl, hD] at hq; cases hq)
      (.notify { ns with notified := false }) false ds0 false (s.nSpurUsed.getD ni true)
      (by simp [view2, hspur, hds])
      (hothc (completeF .unit (w.ctl.getD w.tid {})) (.inr rfl))
      (by intro i st' hi hp'; exact absurd hp' (hnone i st' hi))
      (by intro i j st' st'' hi _ hp' _; exact absurd hp' (hnone i st' hi))
      (by intro i hi hp'; exact absurd hp' (hnone i 2 hi))
      (fun _ => hdu)
    rw [set_getD_self] at hRO
    have hR' := R2c_complete' (s := s) (d := { s with nFlag := s.nFlag.set ni false })
      (w0 := { w1 with notifyWaiting := w1.notifyWaiting.set ni false })
      hR hact hop hc1 ht1 hp1 hs1 hl1 rfl .unit
      (by
        show RO _ _ _ w1.exec.objs (w1.notifyWaiting.set ni false) _
        rw [hobjs, hnw]
        exact hRO.ths _ (CvSame.modify _ _ _ fun _ => ⟨rfl, rfl⟩))
    refine ⟨hp1, hR'.2, .inr ⟨some ((s.th (w.ctlOf w.tid).body).pc, .unit), _, .inl ⟨?_, ?_⟩, hR'.1, ?_⟩⟩
    · unfold SCData2.enabled
      rw [hof, hop, e1, e2, c1, c2]
      show (true && !false && s.nFlag.getD ni false) = true
      rw [← hnot, hn1]; rfl
    · unfold SCData2.stepL
      simp only [c2, hof, hop]
      simp
    · rw [events_complete2]
      show ((w1.ctlOf w1.tid).body, (w1.ctlOf w1.tid).pc, Ret.unit) :: w1.events.map triple = _
      rw [he1, ht1, show w1.ctlOf w.tid = w.ctlOf w.tid by simp only [World.ctlOf, hc1], hrel.2.1]
      rfl
  · -- stage 2: the spurious return; the reference takes its `spurious` step
    rw [runOp_nWait] at h
    simp only [hst] at h
    simp only [pure, Except.pure] at h
    cases h
    have hcur : pendN w.prog (w.ctl.getD w.tid {}) = some (ni, 2) := by
      rw [hpNc, hst]; rfl
    obtain ⟨hdt, hus⟩ := a4 w.tid hact hcur
    have hnone : ∀ i st', i < w.ctl.length →
        pendN w.prog ((w.ctl.modify w.tid (completeF .unit)).getD i {}) ≠ some (ni, st') := by
      intro i st' hi hp'
      rw [pendN_modify _ _ _ _ _ hi] at hp'
      split at hp'
      · rw [pendN_stage0 _ _ rfl] at hp'; cases hp'
      · next e => exact e (a3 i w.tid st' 2 hi hact hp' hcur)
    have hRO := hR.o.setN hn w.tid (completeF .unit) rfl (Nat.le_succ _) id hC (pendCv_stage0 _ _ rfl)
      (by intro q hq; rw [show w.ctl.getD w.tid {} = w.ctlOf w.tid from rfl, hD] at hq; cases hq)
      (.notify ns) (s.nFlag.getD ni false) true false true
      (by simp [view2, hspur, hnot, hds, hdt])
      (hothc (completeF .unit (w.ctl.getD w.tid {})) (.inr rfl))
      (by intro i st' hi hp'; exact absurd hp' (hnone i st' hi))
      (by intro i j st' st'' hi _ hp' _; exact absurd hp' (hnone i st' hi))
      (by intro i hi hp'; exact absurd hp' (hnone i 2 hi))
      (fun _ => rfl)
    rw [set_getD_self, set_self_of_getElem? _ _ _ hobj] at hRO
    have hR' := R2c_complete' (s := s) (d := { s with nSpurUsed := s.nSpurUsed.set ni true })
      (w0 := { w with notifyWaiting := w.notifyWaiting.set ni false })
      hR hact hop rfl rfl rfl rfl rfl rfl .unit
      (hRO.ths _ (CvSame.modify _ _ _ fun _ => ⟨rfl, rfl⟩))
    refine ⟨rfl, hR'.2, .inr ⟨some ((s.th (w.ctlOf w.tid).body).pc, .unit), _, .inr ?_, hR'.1, ?_⟩⟩
    · unfold SCData2.spuriousL
      simp only [hof, hop, e1, e2, c1, c2, hus]
      simp
    · rw [events_complete2]
      show ((w.ctlOf w.tid).body, (w.ctlOf w.tid).pc, Ret.unit) :: w.events.map triple = _
      rw [hrel.2.1]
      rfl

end

end Refine2
end LoomVerif

/-
Deadlock soundness, FUTURES fragment, part 8: the stages of `blockOn f mode` that register the waker (12, 30, 13 —
the slot; 20, 21, 25 — the `AtomicWaker`) and the return stages (40, 41, 43, 44, 45, 46).
-/
import LoomVerif.Proofs.Deadlock3Wait

set_option linter.unusedSimpArgs false
set_option linter.unusedVariables false

namespace LoomVerif
namespace Deadlock3
open Refine Refine4 Deadlock Deadlock2

/-! ### helpers -/

section
variable {p : Prog} {sp : List (Nat × Nat × Nat)} {Fu : List FutSt} {c : TCtl} {op : Op}

theorem wpos_stage (hop : opOfCtl p c = some op) (h : wposT op c.stage = none) : wpos p c = none := by
  rw [wpos_of hop]; exact h

theorem wpos_stage0 (h : c.stage = 0) : wpos p c = none := by
  unfold wpos
  cases opOfCtl p c with
  | none => rfl
  | some op => simp only [h]; exact wposT_zero op

theorem holdsAt_stage {o : Nat} (hop : opOfCtl p c = some op) (h : holdsT p op c.stage = some o) :
    holdsAt p c = some o := by
  rw [holdsAt_of hop]; exact h

theorem opAt4_slotM {o f : Nat} (hop : opOfCtl p c = some op) (hw : wposT op c.stage = some (.slotM f))
    (ho : o = mbase p + 2 * f) : OpAt4 p sp Fu c (some ⟨o, .opaque, true⟩) := by
  unfold OpAt4
  rw [wpos_of hop, hw, ho]

theorem opAt4_awM {o f : Nat} (hop : opOfCtl p c = some op) (hw : wposT op c.stage = some (.awM f))
    (ho : o = mbase p + 2 * f + 1) : OpAt4 p sp Fu c (some ⟨o, .opaque, true⟩) := by
  unfold OpAt4
  rw [wpos_of hop, hw, ho]

theorem lockPos_slot {o f : Nat} (hop : opOfCtl p c = some op) (hw : wposT op c.stage = some (.slotM f))
    (ho : o = mbase p + 2 * f) : LockPos p c o := .inl ⟨f, by rw [wpos_of hop]; exact hw, ho⟩

theorem lockPos_aw {o f : Nat} (hop : opOfCtl p c = some op) (hw : wposT op c.stage = some (.awM f))
    (ho : o = mbase p + 2 * f + 1) : LockPos p c o := .inr ⟨f, by rw [wpos_of hop]; exact hw, ho⟩

theorem opAt4_call {o f : Nat} {bl : Bool} (hop : opOfCtl p c = some op) (hw : wposT op c.stage = some (.call f))
    (ho : o = (Fu.getD f {}).notify) : OpAt4 p sp Fu c (some ⟨o, .opaque, bl⟩) := by
  unfold OpAt4
  rw [wpos_of hop, hw, ho]
  exact ⟨bl, rfl⟩

theorem opAt4_join {b t n : Nat} {bl : Bool} (hop : opOfCtl p c = some op) (hw : wposT op c.stage = some (.join b))
    (hm : (b, t, n) ∈ sp) : OpAt4 p sp Fu c (some ⟨n, .opaque, bl⟩) := by
  unfold OpAt4
  rw [wpos_of hop, hw]
  exact ⟨t, n, bl, hm, rfl⟩

end

section
variable {w w1 w2 : World} {s : SC.St}

/-- the start of a stage, with the mutex the active thread holds -/
theorem Mid.start' (c : Ctx w s) {H : Option Nat} (h : holdsAt w.prog (w.ctlOf w.tid) = H) :
    Mid w w id H [] w.futs := h ▸ Mid.start c

/-- `post_acquire` that finds the mutex held changes nothing -/
theorem postAcquire_false {o : Nat} (h : w1.postAcquire o = .ok (w2, false)) : w2 = w1 := by
  obtain ⟨m, hm⟩ := getMutex_of_ok ⟨_, h⟩
  exact (postAcquire_obs hm h).2.2.2.2.2.2.2.1 rfl

/-- the two mutexes of the future of the operation of the active thread -/
theorem fut_mtx (c : Ctx w s) {op : Op} {f k : Nat} (hop : opAt w = some op) (hk : futKind op = some (f, k)) :
    f < w.prog.cfg.nFutures ∧ (w.futs.getD f {}).slotMutex = mbase w.prog + 2 * f ∧
    (w.futs.getD f {}).awMutex = mbase w.prog + 2 * f + 1 := by
  obtain ⟨hf, _⟩ := fut_lt c.wf.1 hop hk
  exact ⟨hf, (c.r.f.s.mtx f hf).1, (c.r.f.s.mtx f hf).2⟩

/-! ### registration in the slot: 12, 30, 13 -/

theorem st_bo12 (c : Ctx w s) {f mode : Nat} (hop : opAt w = some (.blockOn f mode))
    (hst : (w.ctlOf w.tid).stage = 12) : Out w s w.stepActive := by
  rw [Refine4.stepActive_op hop]
  show Out w s (w.blockOnStage (w.ctlOf w.tid) f mode)
  rw [C20.blockOn_stage12 w _ f mode hst]
  obtain ⟨hf, hmS, hmA⟩ := fut_mtx c hop rfl
  have m0 := Mid.start' c (H := none) (by rw [holdsAt_of hop, hst]; rfl)
  refine out_bind (wakerClone_noDL _ _) fun w1 h1 => ?_
  have m1 := m0.wakerClone h1
  refine out_bind (getMutex_noDL _ _) fun mm hm => ?_
  refine out_lock c (m1.setStage 30) ?_ hm rfl ?_
  · exact Pos.simple rfl (Nat.le_refl _) rfl (fun _ h => by cases h) (fun _ => rfl)
  · exact lockPos_slot (op := .blockOn f mode) hop rfl hmS

theorem st_bo30 (c : Ctx w s) {f mode : Nat} (hop : opAt w = some (.blockOn f mode))
    (hst : (w.ctlOf w.tid).stage = 30) : Out w s w.stepActive := by
  rw [Refine4.stepActive_op hop]
  show Out w s (w.blockOnStage (w.ctlOf w.tid) f mode)
  rw [C20.blockOn_stage30 w _ f mode hst]
  obtain ⟨hf, hmS, hmA⟩ := fut_mtx c hop rfl
  have m0 := Mid.start' c (H := none) (by rw [holdsAt_of hop, hst]; rfl)
  refine out_bind (postAcquire_noDL _ _) ?_
  rintro ⟨w1, okk⟩ h1
  cases okk with
  | false => exact out_throw_bind _ rfl _
  | true =>
    have m1 := m0.acquire h1
    have m2 := m1.modFut f fun s => { s with slot := true }
    dsimp only
    simp only [Bool.not_true, Bool.false_eq_true, if_false]
    split
    · -- a waker was in the slot: it is dropped at stage 13, with the mutex held
      refine out_branch c (m2.setStage 13) ?_ _ _ (wpos_stage (op := .blockOn f mode) hop rfl)
      refine Pos.simple rfl (Nat.le_refl _) rfl ?_ (notify_modify _ _ _ (fun _ => rfl))
      intro o ho
      cases ho
      exact holdsAt_stage (op := .blockOn f mode) hop (by rw [hmS]; rfl)
    · refine out_bind (releaseLock_noDL _ _) fun w3 h3 => ?_
      have m3 := m2.release h3 (fun o' e => by cases e; rfl)
      refine out_pure c (m3.setStage 14) ?_
      exact Pos.simple rfl (Nat.le_refl _) rfl (fun _ h => by cases h) (notify_modify _ _ _ (fun _ => rfl))

theorem st_bo13 (c : Ctx w s) {f mode : Nat} (hop : opAt w = some (.blockOn f mode))
    (hst : (w.ctlOf w.tid).stage = 13) : Out w s w.stepActive := by
  rw [Refine4.stepActive_op hop]
  show Out w s (w.blockOnStage (w.ctlOf w.tid) f mode)
  rw [C20.blockOn_stage13 w _ f mode hst]
  obtain ⟨hf, hmS, hmA⟩ := fut_mtx c hop rfl
  have m0 := Mid.start' c (H := some (mbase w.prog + 2 * f)) (by rw [holdsAt_of hop, hst]; rfl)
  refine out_bind (wakerDrop_noDL _ _) fun w1 h1 => ?_
  have m1 := m0.wakerDrop h1
  refine out_bind (releaseLock_noDL _ _) fun w2 h2 => ?_
  have m2 := m1.release h2 (fun o' e => by cases e; exact hmS.symm)
  refine out_pure c (m2.setStage 14) ?_
  exact Pos.simple rfl (Nat.le_refl _) rfl (fun _ h => by cases h) (fun _ => rfl)

/-! ### registration in the `AtomicWaker`: 20, 21, 25 -/

theorem st_bo20 (c : Ctx w s) {f mode : Nat} (hop : opAt w = some (.blockOn f mode))
    (hst : (w.ctlOf w.tid).stage = 20) : Out w s w.stepActive := by
  rw [Refine4.stepActive_op hop]
  show Out w s (w.blockOnStage (w.ctlOf w.tid) f mode)
  rw [C20.blockOn_stage20 w _ f mode hst]
  have m0 := Mid.start' c (H := none) (by rw [holdsAt_of hop, hst]; rfl)
  refine out_bind (wakerClone_noDL _ _) fun w1 h1 => ?_
  have m1 := m0.wakerClone h1
  refine out_branch c (m1.setStage 21) ?_ _ _ (wpos_stage (op := .blockOn f mode) hop rfl)
  exact Pos.simple rfl (Nat.le_refl _) rfl (fun _ h => by cases h) (fun _ => rfl)

theorem st_bo21 (c : Ctx w s) {f mode : Nat} (hop : opAt w = some (.blockOn f mode))
    (hst : (w.ctlOf w.tid).stage = 21) : Out w s w.stepActive := by
  rw [Refine4.stepActive_op hop]
  show Out w s (w.blockOnStage (w.ctlOf w.tid) f mode)
  rw [C20.blockOn_stage21 w _ f mode hst]
  obtain ⟨hf, hmS, hmA⟩ := fut_mtx c hop rfl
  have m0 := Mid.start' c (H := none) (by rw [holdsAt_of hop, hst]; rfl)
  refine out_bind (postAcquire_noDL _ _) ?_
  rintro ⟨w1, okk⟩ h1
  cases okk with
  | false =>
    have e := postAcquire_false h1
    subst e
    dsimp only
    simp only [Bool.not_false, if_true]
    refine out_branch c (m0.setStage 22) ?_ _ _ (wpos_stage (op := .blockOn f mode) hop rfl)
    exact Pos.simple rfl (Nat.le_refl _) rfl (fun _ h => by cases h) (fun _ => rfl)
  | true =>
    have m1 := m0.acquire h1
    have m2 := m1.modFut f
      fun s => { s with awWaker := true, awArc := (w.futs.getD f {}).arc, awNotify := (w.futs.getD f {}).notify }
    dsimp only
    simp only [Bool.not_true, Bool.false_eq_true, if_false]
    split
    · refine out_branch c ((m2.modCtl fun c => { c with taken := (w.futs.getD f {}).awArc }).setStage 25) ?_ _ _
        (wpos_stage (op := .blockOn f mode) hop rfl)
      refine Pos.simple rfl (Nat.le_refl _) rfl ?_ (notify_modify _ _ _ (fun _ => rfl))
      intro o ho
      cases ho
      exact holdsAt_stage (op := .blockOn f mode) hop (by rw [hmA]; rfl)
    · refine out_bind (releaseLock_noDL _ _) fun w3 h3 => ?_
      have m3 := m2.release h3 (fun o' e => by cases e; rfl)
      refine out_pure c (m3.setStage 14) ?_
      exact Pos.simple rfl (Nat.le_refl _) rfl (fun _ h => by cases h) (notify_modify _ _ _ (fun _ => rfl))

theorem st_bo25 (c : Ctx w s) {f mode : Nat} (hop : opAt w = some (.blockOn f mode))
    (hst : (w.ctlOf w.tid).stage = 25) : Out w s w.stepActive := by
  rw [Refine4.stepActive_op hop]
  show Out w s (w.blockOnStage (w.ctlOf w.tid) f mode)
  rw [C20.blockOn_stage25 w _ f mode hst]
  obtain ⟨hf, hmS, hmA⟩ := fut_mtx c hop rfl
  have m0 := Mid.start' c (H := some (mbase w.prog + 2 * f + 1)) (by rw [holdsAt_of hop, hst]; rfl)
  refine out_bind (wakerDrop_noDL _ _) fun w1 h1 => ?_
  have m1 := m0.wakerDrop h1
  refine out_bind (releaseLock_noDL _ _) fun w2 h2 => ?_
  have m2 := m1.release h2 (fun o' e => by cases e; exact hmA.symm)
  refine out_pure c (m2.setStage 14) ?_
  exact Pos.simple rfl (Nat.le_refl _) rfl (fun _ h => by cases h) (fun _ => rfl)

/-! ### the return: 40, 41, 43, 44, 45, 46 -/

/-- a stage that drops a waker and completes the operation -/
theorem out_dropComplete (c : Ctx w s) {op : Op} (hop : opAt w = some op)
    (hH : holdsAt w.prog (w.ctlOf w.tid) = none) (a : Nat) (r : Ret) :
    Out w s (do let w1 ← w.wakerDrop a; pure (w1.complete r)) := by
  have m0 := Mid.start' c hH
  refine out_bind (wakerDrop_noDL _ _) fun w1 h1 => ?_
  have m1 := m0.wakerDrop h1
  refine out_pure c (m1.complete r) ?_
  exact Pos.simple rfl (Nat.le_succ _) rfl (fun _ h => by cases h) (fun _ => rfl)

theorem st_bo40 (c : Ctx w s) {f mode : Nat} (hop : opAt w = some (.blockOn f mode))
    (hst : (w.ctlOf w.tid).stage = 40) : Out w s w.stepActive := by
  rw [Refine4.stepActive_op hop]
  show Out w s (w.blockOnStage (w.ctlOf w.tid) f mode)
  rw [C20.blockOn_stage40 w _ f mode hst]
  obtain ⟨hf, hmS, hmA⟩ := fut_mtx c hop rfl
  have m0 := Mid.start' c (H := none) (by rw [holdsAt_of hop, hst]; rfl)
  refine out_bind (wakerDrop_noDL _ _) fun w1 h1 => ?_
  have m1 := m0.wakerDrop h1
  split
  · refine out_bind (getMutex_noDL _ _) fun mm hm => ?_
    refine out_lock c (m1.setStage 45) ?_ hm rfl ?_
    · exact Pos.simple rfl (Nat.le_refl _) rfl (fun _ h => by cases h) (fun _ => rfl)
    · exact lockPos_slot (op := .blockOn f mode) hop rfl hmS
  · split
    · refine out_pure c (m1.complete (.val 7)) ?_
      exact Pos.simple rfl (Nat.le_succ _) rfl (fun _ h => by cases h) (fun _ => rfl)
    · refine out_bind (getMutex_noDL _ _) fun mm hm => ?_
      refine out_lock c (m1.setStage 44) ?_ hm rfl ?_
      · exact Pos.simple rfl (Nat.le_refl _) rfl (fun _ h => by cases h) (fun _ => rfl)
      · exact lockPos_aw (op := .blockOn f mode) hop rfl hmA

theorem st_bo41 (c : Ctx w s) {f mode : Nat} (hop : opAt w = some (.blockOn f mode))
    (hst : (w.ctlOf w.tid).stage = 41) : Out w s w.stepActive := by
  rw [Refine4.stepActive_op hop]
  show Out w s (w.blockOnStage (w.ctlOf w.tid) f mode)
  rw [C20.blockOn_stage41 w _ f mode hst]
  exact out_dropComplete c hop (by rw [holdsAt_of hop, hst]; rfl) _ _

theorem st_bo43 (c : Ctx w s) {f mode : Nat} (hop : opAt w = some (.blockOn f mode))
    (hst : (w.ctlOf w.tid).stage = 43) : Out w s w.stepActive := by
  rw [Refine4.stepActive_op hop]
  show Out w s (w.blockOnStage (w.ctlOf w.tid) f mode)
  rw [C20.blockOn_stage43 w _ f mode hst]
  exact out_dropComplete c hop (by rw [holdsAt_of hop, hst]; rfl) _ _

theorem st_bo46 (c : Ctx w s) {f mode : Nat} (hop : opAt w = some (.blockOn f mode))
    (hst : (w.ctlOf w.tid).stage = 46) : Out w s w.stepActive := by
  rw [Refine4.stepActive_op hop]
  show Out w s (w.blockOnStage (w.ctlOf w.tid) f mode)
  rw [C20.blockOn_stage46 w _ f mode hst]
  exact out_dropComplete c hop (by rw [holdsAt_of hop, hst]; rfl) _ _

theorem st_bo45 (c : Ctx w s) {f mode : Nat} (hop : opAt w = some (.blockOn f mode))
    (hst : (w.ctlOf w.tid).stage = 45) : Out w s w.stepActive := by
  rw [Refine4.stepActive_op hop]
  show Out w s (w.blockOnStage (w.ctlOf w.tid) f mode)
  rw [C20.blockOn_stage45 w _ f mode hst]
  obtain ⟨hf, hmS, hmA⟩ := fut_mtx c hop rfl
  have m0 := Mid.start' c (H := none) (by rw [holdsAt_of hop, hst]; rfl)
  refine out_bind (postAcquire_noDL _ _) ?_
  rintro ⟨w1, okk⟩ h1
  cases okk with
  | false => exact out_throw_bind _ rfl _
  | true =>
    have m1 := m0.acquire h1
    have m2 := m1.modFut f fun s => { s with slot := false }
    dsimp only
    simp only [Bool.not_true, Bool.false_eq_true, if_false]
    refine out_bind (releaseLock_noDL _ _) fun w3 h3 => ?_
    have m3 := m2.release h3 (fun o' e => by cases e; rfl)
    split
    · refine out_branch c (m3.setStage 43) ?_ _ _ (wpos_stage (op := .blockOn f mode) hop rfl)
      exact Pos.simple rfl (Nat.le_refl _) rfl (fun _ h => by cases h) (notify_modify _ _ _ (fun _ => rfl))
    · refine out_pure c (m3.complete (.val 7)) ?_
      exact Pos.simple rfl (Nat.le_succ _) rfl (fun _ h => by cases h) (notify_modify _ _ _ (fun _ => rfl))

theorem st_bo44 (c : Ctx w s) {f mode : Nat} (hop : opAt w = some (.blockOn f mode))
    (hst : (w.ctlOf w.tid).stage = 44) : Out w s w.stepActive := by
  rw [Refine4.stepActive_op hop]
  show Out w s (w.blockOnStage (w.ctlOf w.tid) f mode)
  rw [C20.blockOn_stage44 w _ f mode hst]
  obtain ⟨hf, hmS, hmA⟩ := fut_mtx c hop rfl
  have m0 := Mid.start' c (H := none) (by rw [holdsAt_of hop, hst]; rfl)
  refine out_bind (postAcquire_noDL _ _) ?_
  rintro ⟨w1, okk⟩ h1
  cases okk with
  | false => exact out_throw_bind _ rfl _
  | true =>
    have m1 := m0.acquire h1
    have m2 := m1.modFut f fun s => { s with awWaker := false }
    dsimp only
    simp only [Bool.not_true, Bool.false_eq_true, if_false]
    refine out_bind (releaseLock_noDL _ _) fun w3 h3 => ?_
    have m3 := m2.release h3 (fun o' e => by cases e; rfl)
    split
    · refine out_branch c ((m3.modCtl fun c => { c with taken := (w.futs.getD f {}).awArc }).setStage 46) ?_ _ _
        (wpos_stage (op := .blockOn f mode) hop rfl)
      exact Pos.simple rfl (Nat.le_refl _) rfl (fun _ h => by cases h) (notify_modify _ _ _ (fun _ => rfl))
    · refine out_pure c (m3.complete (.val 7)) ?_
      exact Pos.simple rfl (Nat.le_succ _) rfl (fun _ h => by cases h) (notify_modify _ _ _ (fun _ => rfl))

end

end Deadlock3
end LoomVerif

/-
Deadlock soundness, WAIT fragment, part 8: the acquisition and the release of a mutex (`lock`, `tryLock`,
`unlock`, the last stage of `cvWait`).
-/
import LoomVerif.Proofs.Deadlock2Ops1

namespace LoomVerif
namespace Deadlock2
open Refine Refine2 Sy Deadlock C07 C08

section
variable {w w' : World} {s : SCData2}

theorem get_default' (s : Threads) (i : Nat) (h : ¬ i < s.threads.length) : s.get i = {} := by
  unfold Threads.get
  simp [List.getD, List.getElem?_eq_none (Nat.le_of_not_lt h)]

/-- a `JoinHandle` notify is not a mutex object -/
theorem spawned_ne_mutex (c : Ctx w s) {m : Nat} (hm : m < w.prog.cfg.nMutexes) :
    ∀ b t n, (b, t, n) ∈ w.spawned → n ≠ mutexIdx w.prog m := by
  intro b t n hmem e
  obtain ⟨_, _, nt, ds, hv, _⟩ := c.r.o.y.sp b t n hmem
  obtain ⟨l, hv', _⟩ := c.r.o.y.mtx m hm
  rw [e, hv'] at hv; cases hv

/-- `post_acquire` succeeds and the operation completes with `r` -/
theorem acquire_complete (c : Ctx w s) {mi : Nat} (hm : mi < w.prog.cfg.nMutexes) {ms : MutexSt}
    (hobj : w.exec.objs[w.mutexObj mi]? = some (.mutex ms)) (hfree : ms.lock = none) {w1 : World}
    (hpa : w.postAcquire (w.mutexObj mi) = .ok (w1, true)) (r : Ret) : Res w (w1.complete r) := by
  have hview : objView2 w.exec.objs (mutexIdx w.prog mi) = some (.mutex ms.lock) := objView2_of hobj
  have hlt : mutexIdx w.prog mi < w.exec.objs.length := objView2_lt hview
  obtain ⟨_, hc1, ht1, hp1, hs1, _, hl1, _, hobjs⟩ := Refine.postAcquire_obs hobj hpa
  replace hobjs := hobjs rfl
  obtain ⟨hpath, hths⟩ := Deadlock.postAcquire_ths hobj hfree hpa
  have hobjs' : (w1.complete r).exec.objs = w.exec.objs.set (w.mutexObj mi) (.mutex { ms with lock := some w.tid }) :=
    hobjs
  have hact1 : w1.ths.isActive = true := by
    have : w1.ths.isActive = w.ths.isActive := by
      rw [postAcquire_free hobj hfree] at hpa
      simp only [Except.ok.injEq, Prod.mk.injEq, and_true] at hpa
      subst hpa; rfl
    rw [this]; exact c.active
  refine Res.local (JB2.acquire_step (g := completeF r) (m := mi) (l := w.tid) c.j c.act c.run hm hp1 hs1 ht1
    (by rw [ctl_complete', hc1, ht1]) ?_ ?_ (by rw [hview, hfree]) ?_ (spawned_ne_mutex c hm) ?_ ?_) hpath hact1
  · show (w1.ths.get w.tid).state = _
    rw [hths w.tid c.hin, if_pos rfl]
  · intro i hi e
    have hil : i < w.exec.threads.threads.length := by rw [← c.r.lenCtl]; exact hi
    show w1.ths.get i = _
    rw [hths i hil, if_neg e]; rfl
  · rw [hobjs', Refine2.mutexObj_eq, objView2_set_self _ hlt]; rfl
  · intro n v hn hv
    rw [hobjs', Refine2.mutexObj_eq, objView2_set_ne _ _ hn]; exact hv
  · refine Jnd.complete c r hc1 ht1 hp1 hs1 ?_
    intro b i n _ a d hv
    rw [hobjs]
    exact nv_set (o := w.mutexObj mi) hview (by intro a d e; cases e) n a d hv

theorem step_lock (c : Ctx w s) {mi : Nat} (hm : mi < w.prog.cfg.nMutexes)
    (hop : opAt2 w = some (.lock mi)) (h : w.runOp (w.ctlOf w.tid) (.lock mi) = .ok w') : Res w w' := by
  obtain ⟨ms, hobj⟩ := mutex_obj c.r hm
  have hview : objView2 w.exec.objs (mutexIdx w.prog mi) = some (.mutex ms.lock) := objView2_of hobj
  rw [runOp_lock] at h
  split at h
  · simp only [getMutex_of hobj, bind, Except.bind] at h
    have hop' : opOfCtl w.prog { w.ctlOf w.tid with stage := 1 } = some (.lock mi) := hop
    refine branch_stage (g := fun c => { c with stage := 1 }) c h rfl rfl id ?_ ?_
    · unfold OpAt; rw [hop']; simp; rfl
    · intro hb
      cases hl : ms.lock with
      | none => rw [hl] at hb; cases hb
      | some l =>
        exact .lock mi l hop' rfl (by rw [branchF_operation]; rfl) (by rw [hview, hl])
  · obtain ⟨⟨w1, okk⟩, hpa, h⟩ := Refine.bind_ok h
    obtain ⟨hk, _⟩ := Refine.postAcquire_obs hobj hpa
    cases okk with
    | false => simp [bind, Except.bind, throw, throwThe, MonadExceptOf.throw] at h
    | true =>
      simp only [Bool.not_true, Bool.false_eq_true, if_false, bind, Except.bind, pure, Except.pure] at h
      cases h
      have hfree : ms.lock = none := by
        cases hh : ms.lock with
        | none => rfl
        | some i => rw [hh] at hk; cases hk
      exact acquire_complete c hm hobj hfree hpa _

theorem step_tryLock (c : Ctx w s) {mi : Nat} (hm : mi < w.prog.cfg.nMutexes)
    (hop : opAt2 w = some (.tryLock mi)) (h : w.runOp (w.ctlOf w.tid) (.tryLock mi) = .ok w') : Res w w' := by
  obtain ⟨ms, hobj⟩ := mutex_obj c.r hm
  rw [runOp_tryLock] at h
  split at h
  · have hop' : opOfCtl w.prog { w.ctlOf w.tid with stage := 1 } = some (.tryLock mi) := hop
    refine branch_stage (g := fun c => { c with stage := 1 }) c h rfl rfl id ?_ (by intro hb; cases hb)
    unfold OpAt; rw [hop']; simp; rfl
  · obtain ⟨⟨w1, okk⟩, hpa, h⟩ := Refine.bind_ok h
    obtain ⟨hk, _, _, _, _, _, _, hsame, _⟩ := Refine.postAcquire_obs hobj hpa
    simp only [pure, Except.pure] at h
    cases h
    cases okk with
    | false =>
      have hw1 : w1 = w := hsame rfl
      rw [hw1]
      exact quiet_complete c _ rfl rfl rfl rfl rfl c.active rfl (fun i _ _ => Same4.refl _)
        (fun i n v hv _ => ⟨v, hv, .inl rfl⟩) (fun b i n _ a d hv => ⟨a, d, hv⟩)
    | true =>
      have hfree : ms.lock = none := by
        cases hh : ms.lock with
        | none => rfl
        | some i => rw [hh] at hk; cases hk
      exact acquire_complete c hm hobj hfree hpa _

/-- `release_lock` by the active thread, seen from the other threads -/
theorem release_desc {w : World} {o : Nat} {ms : MutexSt} (hobj : w.exec.objs[o]? = some (.mutex ms))
    (ha : w.ths.isActive = true) {w1 : World} (h : w.releaseLock o = .ok w1) :
    w1.ctl = w.ctl ∧ w1.tid = w.tid ∧ w1.prog = w.prog ∧ w1.spawned = w.spawned ∧
    w1.exec.path = w.exec.path ∧ w1.ths.isActive = true ∧
    (∃ m' : MutexSt, m'.lock = none ∧ w1.exec.objs = w.exec.objs.set o (.mutex m')) ∧
    w1.ths.get w.tid = w.ths.get w.tid ∧
    w1.exec.threads.threads.length = w.exec.threads.threads.length ∧
    ∀ i, i < w.exec.threads.threads.length → i ≠ w.tid →
      ((¬ ∃ op, (w.ths.get i).operation = some op ∧ op.obj = o) ∧ w1.ths.get i = w.ths.get i) ∨
      ((∃ op, (w.ths.get i).operation = some op ∧ op.obj = o) ∧
        ∃ v, w1.ths.get i = ({ w.ths.get i with causality := v } : Thread).wake) := by
  obtain ⟨hc1, ht1, hp1, hs1, _, hl1, hm'⟩ := Refine.releaseLock_obs hobj h
  obtain ⟨hpath, hths⟩ := Deadlock.releaseLock_ths hobj ha h
  have hact1 : w1.ths.isActive = true := by
    have : w1.ths.isActive = w.ths.isActive := by
      rw [releaseLock_active hobj ha] at h
      simp only [Except.ok.injEq] at h
      subst h; rfl
    rw [this]; exact ha
  refine ⟨hc1, ht1, hp1, hs1, hpath, hact1, hm', ?_, hl1, ?_⟩
  · by_cases hin : w.tid < w.exec.threads.threads.length
    · rw [hths w.tid hin, if_pos rfl]
    · show w1.exec.threads.get w.tid = w.exec.threads.get w.tid
      rw [get_default' _ _ (by rw [hl1]; exact hin), get_default' _ _ hin]
  · intro i hi e
    have hg := hths i hi
    rw [if_neg e] at hg
    cases hop : (w.ths.get i).operation with
    | none =>
      left
      refine ⟨(by rintro ⟨op, ho, _⟩; cases ho), ?_⟩
      rw [hg, hop]; rfl
    | some op =>
      by_cases ho : op.obj = o
      · right
        refine ⟨⟨op, rfl, ho⟩, (w.ths.get i).causality, ?_⟩
        rw [hg, hop]
        simp [ho]
      · left
        refine ⟨(by rintro ⟨op', ho', h2⟩; cases ho'; exact ho h2), ?_⟩
        rw [hg, hop]
        simp [ho]

/-- `release_lock` followed by the rewriting of the active thread's control record (from the twin-side invariant
alone: also used on the intermediate world of `cvWait`) -/
theorem release_core {w : World} (hJ : JB2 w) (hact : w.tid < w.ctl.length)
    (hrun : (w.ths.get w.tid).state ≠ .blocked ∧ (w.ths.get w.tid).state ≠ .terminated)
    (hactive : w.ths.isActive = true) (hlen : w.ctl.length = w.exec.threads.threads.length)
    {o : Nat} {ms : MutexSt} (hobj : w.exec.objs[o]? = some (.mutex ms)) {w1 : World}
    (hrl : w.releaseLock o = .ok w1) {g : TCtl → TCtl} {w2 : World}
    (hp : w2.prog = w1.prog) (hs : w2.spawned = w1.spawned) (ht : w2.tid = w1.tid)
    (hc : w2.ctl = w1.ctl.modify w1.tid g) (he : w2.exec = w1.exec)
    (hbody : (g (w.ctlOf w.tid)).body = (w.ctlOf w.tid).body)
    (hpc : (w.ctlOf w.tid).pc ≤ (g (w.ctlOf w.tid)).pc)
    (hfin : 10 ≤ (g (w.ctlOf w.tid)).fin → 10 ≤ (w.ctlOf w.tid).fin) : JB2 w2 := by
  have hview : objView2 w.exec.objs o = some (.mutex ms.lock) := objView2_of hobj
  obtain ⟨hc1, ht1, hp1, hs1, _, _, ⟨m', _, hobjs⟩, hself, _, hths⟩ := release_desc hobj hactive hrl
  have hobjs2 : w2.exec.objs = w.exec.objs.set o (.mutex m') := by rw [he]; exact hobjs
  have hths2 : ∀ i, w2.ths.get i = w1.ths.get i := by
    intro i; show w2.exec.threads.get i = _; rw [he]; rfl
  refine JB2.wake_step (g := g) (o := o) hJ hact hrun (hp.trans hp1) (hs.trans hs1)
    (ht.trans ht1) (by rw [hc, hc1, ht1]) (by rw [hths2, hself]) ?_ ?_ ?_ ?_
  · intro i hi e
    have := hths i (by rw [← hlen]; exact hi) e
    rw [hths2]; exact this
  · intro ws hws
    rw [hview] at hws; cases hws
  · intro n v hn hv
    rw [hobjs2, objView2_set_ne _ _ hn]; exact hv
  · refine hJ.jnd.modify (g := g) hact (hp.trans hp1) (hs.trans hs1) (by rw [hc, hc1, ht1]) hbody hpc
      (fun _ => hfin) ?_
    intro b i n _ a d hv
    rw [hobjs2]
    exact nv_set (o := o) hview (by intro a d e; cases e) n a d hv

theorem release_step (c : Ctx w s) {mi : Nat} (hm : mi < w.prog.cfg.nMutexes) {w1 : World}
    (hrl : w.releaseLock (w.mutexObj mi) = .ok w1) {g : TCtl → TCtl} {w2 : World}
    (hp : w2.prog = w1.prog) (hs : w2.spawned = w1.spawned) (ht : w2.tid = w1.tid)
    (hc : w2.ctl = w1.ctl.modify w1.tid g) (he : w2.exec = w1.exec)
    (hbody : (g (w.ctlOf w.tid)).body = (w.ctlOf w.tid).body)
    (hpc : (w.ctlOf w.tid).pc ≤ (g (w.ctlOf w.tid)).pc)
    (hfin : 10 ≤ (g (w.ctlOf w.tid)).fin → 10 ≤ (w.ctlOf w.tid).fin) : JB2 w2 := by
  obtain ⟨ms, hobj⟩ := mutex_obj c.r hm
  exact release_core c.j c.act c.run c.active c.r.lenCtl hobj hrl hp hs ht hc he hbody hpc hfin

theorem step_unlock (c : Ctx w s) {mi : Nat} (hm : mi < w.prog.cfg.nMutexes)
    (h : w.runOp (w.ctlOf w.tid) (.unlock mi) = .ok w') : Res w w' := by
  obtain ⟨ms, hobj⟩ := mutex_obj c.r hm
  rw [runOp_unlock] at h
  obtain ⟨w1, hrl, h⟩ := Refine.bind_ok h
  simp only [pure, Except.pure] at h
  cases h
  obtain ⟨_, _, _, _, hpath, hact1, _⟩ := release_desc hobj c.active hrl
  exact Res.local (release_step (g := completeF .unit) c hm hrl rfl rfl rfl rfl rfl rfl (Nat.le_succ _) id)
    hpath hact1

end

end Deadlock2
end LoomVerif

/-
Definitions used to state property C14 about the DFS stack (`LoomVerif.Path`):
decision vectors, exhausted alternatives, open alternatives, well-formedness and the frame
condition of the API functions.  Nothing in here changes the model.
-/
import LoomVerif.Model.Path

namespace LoomVerif

/-! ### generic list helpers -/

/-- indices of the elements satisfying `p` (increasing) -/
def idxsOf {α} (p : α → Bool) : List α → List Nat
  | [] => []
  | a :: as => if p a then 0 :: (idxsOf p as).map (· + 1) else (idxsOf p as).map (· + 1)

theorem mem_idxsOf {α} (p : α → Bool) (l : List α) (i : Nat) :
    i ∈ idxsOf p l ↔ ∃ a, l[i]? = some a ∧ p a = true := by
  induction l generalizing i with
  | nil => simp [idxsOf]
  | cons x xs ih =>
    cases i with
    | zero =>
      by_cases hx : p x = true <;> simp [idxsOf, hx]
    | succ n =>
      by_cases hx : p x = true <;> simp [idxsOf, hx, ih]

theorem idxsOf_map {α β} (p : β → Bool) (f : α → β) (l : List α) :
    idxsOf p (l.map f) = idxsOf (p ∘ f) l := by
  induction l with
  | nil => rfl
  | cons x xs ih => simp [idxsOf, ih]

theorem findIdx?_map {α β} (p : β → Bool) (f : α → β) (l : List α) :
    findIdx? p (l.map f) = findIdx? (p ∘ f) l := by
  induction l with
  | nil => rfl
  | cons x xs ih => simp [findIdx?, ih]

/-- `findIdx?` finds the least index satisfying `p`. -/
theorem findIdx?_eq_some {α} (p : α → Bool) (l : List α) (i : Nat) :
    findIdx? p l = some i ↔
      ∃ h : i < l.length, p l[i] = true ∧ ∀ j (hj : j < i), p (l[j]'(by omega)) = false := by
  induction l generalizing i with
  | nil => simp [findIdx?]
  | cons x xs ih =>
    by_cases hx : p x = true
    · simp only [findIdx?, hx, if_true, Option.some.injEq]
      constructor
      · rintro rfl; exact ⟨by simp, by simpa using hx, by intro j hj; omega⟩
      · rintro ⟨h, _, hj⟩
        cases i with
        | zero => rfl
        | succ n => have := hj 0 (by omega); simp [hx] at this
    · simp only [findIdx?, hx, Bool.false_eq_true, if_false, Option.map_eq_some_iff]
      constructor
      · rintro ⟨n, hn, rfl⟩
        obtain ⟨h, h1, h2⟩ := (ih n).1 hn
        refine ⟨by simp; omega, by simpa using h1, ?_⟩
        intro j hj
        cases j with
        | zero => simpa using hx
        | succ m => simpa using h2 m (by omega)
      · rintro ⟨h, h1, h2⟩
        cases i with
        | zero => simp [hx] at h1
        | succ n =>
          refine ⟨n, (ih n).2 ⟨by simpa using h, by simpa using h1, ?_⟩, rfl⟩
          intro j hj
          simpa using h2 (j + 1) (by omega)

theorem findIdx?_eq_none {α} (p : α → Bool) (l : List α) :
    findIdx? p l = none ↔ ∀ a ∈ l, p a = false := by
  induction l with
  | nil => simp [findIdx?]
  | cons x xs ih =>
    by_cases hx : p x = true <;> simp [findIdx?, hx, ih]

theorem findIdx?_lt {α} {p : α → Bool} {l : List α} {i : Nat} (h : findIdx? p l = some i) :
    i < l.length := ((findIdx?_eq_some p l i).1 h).1

/-- `setFirst?` overwrites the element found by `findIdx?`. -/
theorem setFirst?_eq {α} (p : α → Bool) (v : α) (l : List α) :
    setFirst? p v l = (findIdx? p l).map (fun i => l.set i v) := by
  induction l with
  | nil => rfl
  | cons x xs ih =>
    by_cases hx : p x = true
    · simp [setFirst?, findIdx?, hx]
    · simp [setFirst?, findIdx?, hx, ih, Option.map_map, Function.comp_def]

/-- replacing an element counted by `q` with one not counted lowers the count by one -/
theorem countP_set_drop {α} (q : α → Bool) (l : List α) (i : Nat) (v : α) (h : i < l.length)
    (h1 : q l[i] = true) (h2 : q v = false) :
    (l.set i v).countP q + 1 = l.countP q := by
  induction l generalizing i with
  | nil => simp at h
  | cons x xs ih =>
    cases i with
    | zero =>
      have : q x = true := by simpa using h1
      simp [this, h2]
    | succ n =>
      have := ih n (by simpa using h) (by simpa using h1)
      simp only [List.set_cons_succ, List.countP_cons]
      omega

/-- replacing an element by one with the same `q`-value keeps the count -/
theorem countP_set_same {α} (q : α → Bool) (l : List α) (i : Nat) (v : α) (h : i < l.length)
    (h1 : q v = q l[i]) : (l.set i v).countP q = l.countP q := by
  induction l generalizing i with
  | nil => simp at h
  | cons x xs ih =>
    cases i with
    | zero =>
      have : q v = q x := by simpa using h1
      simp [List.countP_cons, this]
    | succ n =>
      have := ih n (by simpa using h) (by simpa using h1)
      simp only [List.set_cons_succ, List.countP_cons]
      omega

theorem countP_set_le {α} (q : α → Bool) (l : List α) (i : Nat) (v : α) :
    (l.set i v).countP q ≤ l.countP q + 1 := by
  induction l generalizing i with
  | nil => simp
  | cons x xs ih =>
    cases i with
    | zero => simp only [List.set_cons_zero, List.countP_cons]; split <;> split <;> omega
    | succ n =>
      have := ih n
      simp only [List.set_cons_succ, List.countP_cons]
      omega

/-! ### thread states -/

namespace ThSt
def isVisited : ThSt → Bool | visited => true | _ => false
/-- still selectable by the DFS: `skip` (may be woken by `backtrack`) or `pending` -/
def isOpen : ThSt → Bool | skip => true | pending => true | _ => false

theorem isActive_explore (t : ThSt) : t.explore.isActive = t.isActive := by cases t <;> rfl
theorem isVisited_explore (t : ThSt) : t.explore.isVisited = t.isVisited := by cases t <;> rfl
theorem isOpen_explore (t : ThSt) : t.explore.isOpen = t.isOpen := by cases t <;> rfl
theorem explore_explore (t : ThSt) : t.explore.explore = t.explore := by cases t <;> rfl
end ThSt

/-! ### decisions, exhausted alternatives, open alternatives -/

namespace Sched
/-- indices of the threads already explored at this branch point -/
def visitedIdx (s : Sched) : List Nat := idxsOf ThSt.isVisited s.threads
/-- number of threads that may still be explored at this branch point -/
def openCount (s : Sched) : Nat := s.threads.countP ThSt.isOpen
def activeCount (s : Sched) : Nat := s.threads.countP ThSt.isActive

structure WF (s : Sched) : Prop where
  len : s.threads.length = NT
  oneActive : s.activeCount ≤ 1
end Sched

namespace Load
structure WF (l : Load) : Prop where
  len : l.len ≤ NH
  pos : l.pos < l.len ∨ l.len = 0
end Load

/-- constructor tag of an entry -/
inductive Kind | sched | load | spur
deriving DecidableEq, Repr

namespace Entry

def kind : Entry → Kind
  | sched _ => .sched | load _ => .load | spur _ => .spur

/-- the decision taken at an entry: the scheduled thread (`NT` when no thread is active),
the index of the store read from, or whether the wakeup was spurious. -/
def dec : Entry → Nat
  | sched s => s.activeIdx.getD NT
  | load l => l.pos
  | spur p => if p.spur then 1 else 0

/-- decisions already exhausted at an entry -/
def tried : Entry → List Nat
  | sched s => s.visitedIdx
  | load l => List.range l.pos
  | spur p => if p.spur then [0] else []

/-- decisions that can never be taken again at this entry (for as long as it stays on the
stack): the exhausted ones and, for a schedule that has an active thread, the pseudo decision
`NT` ("no thread active").  `Path.step` always leaves an active thread behind, so a schedule
that was created without one never returns to that state; the `Visited` marks do not record
this, hence the extra element. -/
def excl : Entry → List Nat
  | sched s => if s.activeIdx.isSome then NT :: s.visitedIdx else s.visitedIdx
  | e => e.tried

/-- number of alternatives still open at an entry -/
def alt : Entry → Nat
  | sched s => if s.exploring then s.openCount else 0
  | load l => if l.exploring then l.len - l.pos - 1 else 0
  | spur p => if p.exploring then (if p.spur then 0 else 1) else 0

def WF : Entry → Prop
  | sched s => s.WF
  | load l => l.WF
  | spur _ => True

/-- what an API call may do to an entry that is already on the stack -/
structure Same (e e' : Entry) : Prop where
  kind : e'.kind = e.kind
  dec : e'.dec = e.dec
  tried : e'.tried = e.tried
  exploring : e'.exploring = e.exploring
  alt : e'.alt = e.alt

theorem Same.refl (e : Entry) : Same e e := ⟨rfl, rfl, rfl, rfl, rfl⟩

theorem Same.trans {a b c : Entry} (h1 : Same a b) (h2 : Same b c) : Same a c :=
  ⟨h2.kind.trans h1.kind, h2.dec.trans h1.dec, h2.tried.trans h1.tried,
   h2.exploring.trans h1.exploring, h2.alt.trans h1.alt⟩

theorem tried_subset_excl (e : Entry) : ∀ d ∈ e.tried, d ∈ e.excl := by
  intro d hd
  cases e with
  | sched s =>
    simp only [excl]
    split
    · exact List.mem_cons_of_mem _ hd
    · exact hd
  | load l => exact hd
  | spur p => exact hd

end Entry

namespace Path

/-- the decision vector of an iteration -/
def D (p : Path) : List Nat := p.branches.map Entry.dec

/-- every entry on the stack is well formed -/
def WF (p : Path) : Prop := ∀ e ∈ p.branches, e.WF

/-- the stack is within the configured number of branches -/
def LenOk (p : Path) : Prop := p.branches.length ≤ p.cap

/-- what one API call, or one whole iteration, may do to the stack: entries are only appended;
an entry that is already there keeps its constructor, decision, exhausted alternatives,
`exploring` flag and number of open alternatives. -/
structure Frame (p q : Path) : Prop where
  len : p.branches.length ≤ q.branches.length
  cap : q.cap = p.cap
  bound : q.bound = p.bound
  eos : q.exploringOnStart = p.exploringOnStart
  same : ∀ i (h : i < p.branches.length), Entry.Same p.branches[i] (q.branches[i]'(by omega))
  wf : p.WF → q.WF

theorem Frame.refl (p : Path) : Frame p p :=
  ⟨Nat.le_refl _, rfl, rfl, rfl, fun _ _ => Entry.Same.refl _, id⟩

theorem Frame.trans {p q r : Path} (h1 : Frame p q) (h2 : Frame q r) : Frame p r where
  len := Nat.le_trans h1.len h2.len
  cap := h2.cap.trans h1.cap
  bound := h2.bound.trans h1.bound
  eos := h2.eos.trans h1.eos
  same i h := (h1.same i h).trans (h2.same i (by have := h1.len; omega))
  wf h := h2.wf (h1.wf h)

end Path
end LoomVerif

/-
C07/C08: small concrete states (two or three threads, one mutex / notify) used as witnesses for
the refuted "full" forms of the properties and as non-vacuity examples.  Everything here is
evaluated by the kernel (`decide`, `rfl`, `decide +kernel`).
-/
import LoomVerif.Proofs.C07RwSC
import LoomVerif.Proofs.C08Join

namespace LoomVerif
namespace Ex
open C12 Sy C07 C08

/-- a world with the given thread table, active thread and object table; program: two mutexes'
worth of declarations are not needed — one mutex (object 0), one rwlock (object 1), one condvar
(object 2), one notify (object 3) -/
def mk (ths : List Thread) (active : Option Nat) (objs : Objs) : World :=
  { prog := { cfg := { nMutexes := 1, nRwlocks := 1, nCondvars := 1, nNotifies := 1 }
              threads := [[.tryLock 0], [.tryLock 0], []] }
    exec := { path := Path.new 1000 none false
              threads := { threads := ths, active := active }
              objs := objs }
    ctl := [{ body := 0 }, { body := 1 }, { body := 2 }]
    spawned := [(1, 1, 4), (2, 2, 5)]
    notifyWaiting := [false] }

def vv (l : List Nat) : VV := VV.ofList l

/-- object indices of the example program -/
theorem objIdx : (mk [] none []).mutexObj 0 = 0 ∧ (mk [] none []).rwObj 0 = 1 ∧
    (mk [] none []).cvObj 0 = 2 ∧ (mk [] none []).notifyObj 0 = 3 := by decide

/-- the standard object table: everything fresh -/
def objs0 : Objs := [.mutex {}, .rwlock {}, .condvar {}, .notify { spurious := true },
  .notify { seqCst := true }, .notify { seqCst := true }]

/-! ### F9: a pending `try_lock` is disabled by another thread's acquisition -/

/-- thread 1 has passed the branch point of `try_lock` (stage 0 recorded the operation
`⟨mutex, opaque⟩` — the same record a blocking `lock` leaves) and is runnable; thread 0 is active
in the second stage of its own `try_lock`; the mutex is free -/
def wF9 : World :=
  mk [{ causality := vv [1, 0, 0, 0, 0] },
      { operation := some ⟨0, .opaque⟩, causality := vv [1, 1, 0, 0, 0] }] (some 0) objs0

theorem F9_before : (wF9.ths.get 1).state = .runnable false ∧
    (wF9.ths.get 1).operation = some ⟨wF9.mutexObj 0, .opaque⟩ := by decide

/-- thread 0's `try_lock` succeeds (returns 1) and thread 1 — which only wants to TRY — is set
`blocked` -/
theorem F9_after :
    (wF9.runOp { stage := 1 } (.tryLock 0)).toOption.map
      (fun w' => ((w'.ths.get 1).state, w'.events.head?.map (·.ret))) =
    some (.blocked, some (.val 1)) := by decide +kernel

/-- the reference semantics in the corresponding state (mutex held by thread 0, thread 1 at its
`try_lock`): thread 1 is enabled -/
def sF9 : SC.St :=
  { SC.init wF9.prog with
    ths := [{ started := true, pc := 1 }, { started := true }, {}]
    mutex := [some 0] }

theorem F9_reference : SC.enabled wF9.prog sF9 1 = true ∧
    SC.opOf wF9.prog sF9 1 = some (.tryLock 0) := by decide

/-! ### F5/F6: `unpark` makes a thread blocked on a mutex / a join runnable -/

/-- thread 0 holds the mutex; thread 1 is blocked in `lock` (stage 0 found the mutex held) -/
def wF5 : World :=
  mk [{ causality := vv [3, 0, 0, 0, 0] },
      { state := .blocked, operation := some ⟨0, .opaque⟩, causality := vv [1, 1, 0, 0, 0] }]
    (some 0) [.mutex { lock := some 0 }, .rwlock {}, .condvar {}, .notify { spurious := true },
      .notify { seqCst := true }, .notify { seqCst := true }]

/-- thread 0 calls `unpark` on thread 1: thread 1 becomes runnable although the mutex is still
held by thread 0 -/
theorem F5_unpark :
    (wF5.runOp {} (.unpark 1)).toOption.map
      (fun w' => ((w'.ths.get 1).state, (w'.getMutex 0).toOption.map (·.lock))) =
    some (.runnable false, some (some 0)) := by decide +kernel

/-- … and when thread 1 is then scheduled, its `lock` continues with `post_acquire`, which fails:
loom panics with "expected to be able to acquire lock" -/
def wF5' : World :=
  mk [{ causality := vv [3, 0, 0, 0, 0] },
      { operation := some ⟨0, .opaque⟩, causality := vv [3, 1, 0, 0, 0] }]
    (some 1) [.mutex { lock := some 0 }, .rwlock {}, .condvar {}, .notify { spurious := true },
      .notify { seqCst := true }, .notify { seqCst := true }]

theorem F5_panic : (wF5'.runOp { body := 1, stage := 1 } (.lock 0)).toOption.isNone = true ∧
    (match wF5'.runOp { body := 1, stage := 1 } (.lock 0) with
      | .error .expectedLock => true | _ => false) = true := by decide +kernel

/-- thread 0 is blocked in `join 1` (the `JoinHandle`'s notify, object 4, is not notified);
thread 2 unparks it -/
def wF6 : World :=
  mk [{ state := .blocked, operation := some ⟨4, .opaque⟩ }, {}, { causality := vv [1, 0, 1, 0, 0] }]
    (some 2) objs0

theorem F6_unpark :
    (wF6.runOp { body := 2 } (.unpark 0)).toOption.map (fun w' => (w'.ths.get 0).state) =
    some (.runnable false) := by decide +kernel

/-- … and the resumed `join` panics on `assert!(state.notified)` -/
def wF6' : World :=
  mk [{ operation := some ⟨4, .opaque⟩ }, {}, {}] (some 0) objs0

theorem F6_panic :
    (match wF6'.runOp { stage := 1 } (.join 1) with
      | .error .notNotified => true | _ => false) = true := by decide +kernel

/-! ### F17: `unpark` raises the target's causality immediately -/

/-- thread 1 is runnable and never parks; thread 0 (causality `[5,0,0,0,0]`) unparks it -/
def wF17 : World :=
  mk [{ causality := vv [5, 0, 0, 0, 0] }, { causality := vv [1, 1, 0, 0, 0] }] (some 0) objs0

theorem F17_unpark :
    ((wF17.ths.unpark 1).get 1).causality = vv [5, 1, 0, 0, 0] ∧
    ((wF17.ths.unpark 1).get 1).state = .runnable true := by decide +kernel

/-! ### F18 (repaired): a release keeps a pending unpark token -/

/-- thread 1 is runnable WITH a stored token (`runnable true`), its stale `operation` (from an
earlier `lock`) still names the mutex; thread 0 releases the mutex -/
def wF18 : World :=
  mk [{ causality := vv [2, 0, 0, 0, 0] },
      { state := .runnable true, operation := some ⟨0, .opaque⟩ }]
    (some 0) [.mutex { lock := some 0 }, .rwlock {}, .condvar {}, .notify { spurious := true },
      .notify { seqCst := true }, .notify { seqCst := true }]

/-- since the repair of finding F18 (`Thread.wake` touches blocked threads only) the token survives the
release (it was reset to `runnable false` before) -/
theorem F18_token_kept :
    (wF18.releaseLock 0).toOption.map (fun w' => (w'.ths.get 1).state) =
    some (.runnable true) := by decide +kernel

/-- the same state with thread 1 blocked on the mutex: the release wakes it -/
def wF18b : World :=
  mk [{ causality := vv [2, 0, 0, 0, 0] },
      { state := .blocked, operation := some ⟨0, .opaque⟩ }]
    (some 0) [.mutex { lock := some 0 }, .rwlock {}, .condvar {}, .notify { spurious := true },
      .notify { seqCst := true }, .notify { seqCst := true }]

theorem F18_blocked_woken :
    (wF18b.releaseLock 0).toOption.map (fun w' => (w'.ths.get 1).state) =
    some (.runnable false) := by decide +kernel

end Ex
end LoomVerif

/-
C07/C08: small concrete states (two or three threads, one mutex / notify) used as witnesses for
the refuted "full" forms of the properties and as non-vacuity examples.  Everything here is
evaluated by the kernel (`decide`, `rfl`, `decide +kernel`).
-/
import LoomVerif.Proofs.C07RwSC
import LoomVerif.Proofs.C08Join

namespace LoomVerif
namespace Ex
open C12 Sy C07 C08

/-- a world with the given thread table, active thread and object table; program: two mutexes'
worth of declarations are not needed — one mutex (object 0), one rwlock (object 1), one condvar
(object 2), one notify (object 3) -/
def mk (ths : List Thread) (active : Option Nat) (objs : Objs) : World :=
  { prog := { cfg := { nMutexes := 1, nRwlocks := 1, nCondvars := 1, nNotifies := 1 }
              threads := [[.tryLock 0], [.tryLock 0], []] }
    exec := { path := Path.new 1000 none false
              threads := { threads := ths, active := active }
              objs := objs }
    ctl := [{ body := 0 }, { body := 1 }, { body := 2 }]
    spawned := [(1, 1, 4), (2, 2, 5)]
    notifyWaiting := [false] }

def vv (l : List Nat) : VV := VV.ofList l

/-- object indices of the example program -/
theorem objIdx : (mk [] none []).mutexObj 0 = 0 ∧ (mk [] none []).rwObj 0 = 1 ∧
    (mk [] none []).cvObj 0 = 2 ∧ (mk [] none []).notifyObj 0 = 3 := by decide

/-- the standard object table: everything fresh -/
def objs0 : Objs := [.mutex {}, .rwlock {}, .condvar {}, .notify { spurious := true },
  .notify { seqCst := true }, .notify { seqCst := true }]

/-! ### F9 (repaired): a pending `try_lock` is NOT disabled by another thread's acquisition -/

/-- thread 1 has passed the branch point of `try_lock` (stage 0 recorded the operation
`⟨mutex, opaque, blocking := false⟩`; a blocking `lock` records `blocking := true`) and is runnable; thread 0 is
active in the second stage of its own `try_lock`; the mutex is free -/
def wF9 : World :=
  mk [{ causality := vv [1, 0, 0, 0, 0] },
      { operation := some ⟨0, .opaque, false⟩, causality := vv [1, 1, 0, 0, 0] }] (some 0) objs0

theorem F9_before : (wF9.ths.get 1).state = .runnable ∧
    (wF9.ths.get 1).operation = some ⟨wF9.mutexObj 0, .opaque, false⟩ := by decide

/-- thread 0's `try_lock` succeeds (returns 1) and thread 1 — which only wants to TRY — stays `runnable`: its
whole entry is unchanged.  (Before the repair it was set `blocked`.) -/
theorem F9_after :
    (wF9.runOp { stage := 1 } (.tryLock 0)).toOption.map
      (fun w' => ((w'.ths.get 1).state, decide (w'.ths.get 1 = wF9.ths.get 1),
        w'.events.head?.map (·.ret))) =
    some (.runnable, true, some (.val 1)) := by decide +kernel

/-- the continuation: thread 1 is scheduled and runs the second stage of its `try_lock` while thread 0 holds
the mutex: it returns 0 (`false`), the mutex is still held by thread 0, thread 1 is still runnable -/
def wF9run : Except Panic World := do
  let w ← wF9.runOp { stage := 1 } (.tryLock 0)
  let w := w.setThs { w.ths with active := some 1 }
  w.runOp { body := 1, stage := 1 } (.tryLock 0)

theorem F9_later_try_fails :
    wF9run.toOption.map (fun w' => (w'.events.head?.map (·.ret),
      (w'.getMutex 0).toOption.map (·.lock), (w'.ths.get 1).state)) =
    some (some (.val 0), some (some 0), .runnable) := by decide +kernel

/-- the same state with thread 1 WAITING for the mutex (it has passed the branch point of a blocking `lock`:
`blocking := true`): thread 0's acquisition sets it `blocked` -/
def wF9w : World :=
  mk [{ causality := vv [1, 0, 0, 0, 0] },
      { operation := some ⟨0, .opaque, true⟩, causality := vv [1, 1, 0, 0, 0] }] (some 0) objs0

theorem F9_waiter_blocked :
    (wF9w.runOp { stage := 1 } (.tryLock 0)).toOption.map
      (fun w' => ((w'.ths.get 1).state, (w'.ths.get 1).parked, w'.events.head?.map (·.ret))) =
    some (.blocked, false, some (.val 1)) := by decide +kernel

/-- what the first stages record: thread 1, active with no pending operation and the mutex free, runs stage 0
of `try_lock` / of `lock`: the pending operation is `⟨mutex, opaque, false⟩` / `⟨mutex, opaque, true⟩` -/
def wF9s : World :=
  mk [{ causality := vv [1, 0, 0, 0, 0] }, { causality := vv [1, 1, 0, 0, 0] }] (some 1) objs0

theorem F9_records :
    (wF9s.runOp { body := 1 } (.tryLock 0)).toOption.map (fun w' => (w'.ths.get 1).operation) =
      some (some ⟨0, .opaque, false⟩) ∧
    (wF9s.runOp { body := 1 } (.lock 0)).toOption.map (fun w' => (w'.ths.get 1).operation) =
      some (some ⟨0, .opaque, true⟩) := by
  constructor <;> decide +kernel

/-- the reference semantics in the corresponding state (mutex held by thread 0, thread 1 at its
`try_lock`): thread 1 is enabled -/
def sF9 : SC.St :=
  { SC.init wF9.prog with
    ths := [{ started := true, pc := 1 }, { started := true }, {}]
    mutex := [some 0] }

theorem F9_reference : SC.enabled wF9.prog sF9 1 = true ∧
    SC.opOf wF9.prog sF9 1 = some (.tryLock 0) := by decide

/-! ### F5/F6 (repaired): `unpark` does not wake a thread blocked on a mutex / in a join -/

/-- thread 0 holds the mutex; thread 1 is blocked in `lock` (stage 0 found the mutex held) -/
def wF5 : World :=
  mk [{ causality := vv [3, 0, 0, 0, 0] },
      { state := .blocked, operation := some ⟨0, .opaque, true⟩, causality := vv [1, 1, 0, 0, 0] }]
    (some 0) [.mutex { lock := some 0 }, .rwlock {}, .condvar {}, .notify { spurious := true },
      .notify { seqCst := true }, .notify { seqCst := true }]

/-- thread 0 calls `unpark` on thread 1: thread 1 STAYS blocked (the mutex is still held by thread 0) and
keeps the unpark as a token.  (Before the repair it became runnable and its `lock` panicked with "expected
to be able to acquire lock".) -/
theorem F5_unpark :
    (wF5.runOp {} (.unpark 1)).toOption.map
      (fun w' => ((w'.ths.get 1).state, (w'.ths.get 1).token, (w'.ths.get 1).parked,
        (w'.getMutex 0).toOption.map (·.lock))) =
    some (.blocked, true, false, some (some 0)) := by decide +kernel

/-- thread 0 unparks thread 1, then releases the mutex (`release_lock`) -/
def wF5r : Except Panic World := do
  let w ← wF5.runOp {} (.unpark 1)
  w.releaseLock 0

/-- the continuation: thread 0 unparks thread 1, then releases the mutex (`release_lock`): thread 1 is woken
by the release and still holds the token; scheduled, its `lock` continues with `post_acquire`, which succeeds
(thread 1 owns the mutex); its next `park` consumes the token and returns without blocking (thread 1 is still
the active thread, runnable, token gone) -/
def wF5run : Except Panic World := do
  let w ← wF5.runOp {} (.unpark 1)
  let w ← w.releaseLock 0
  let w := w.setThs { w.ths with active := some 1 }
  let w ← w.runOp { body := 1, stage := 1 } (.lock 0)
  w.parkNow

theorem F5_no_panic :
    wF5r.toOption.map (fun w' => ((w'.ths.get 1).state, (w'.ths.get 1).token)) =
      some (.runnable, true) ∧
    wF5run.toOption.map (fun w' => ((w'.ths.get 1).state, (w'.ths.get 1).token, w'.ths.active,
        (w'.getMutex 0).toOption.map (·.lock))) =
      some (.runnable, false, some 1, some (some 1)) := by
  constructor <;> decide +kernel

/-- the state the old defect led to — thread 1 active in the second stage of `lock` although the mutex is
held by thread 0 — still panics in the model ("expected to be able to acquire lock"); `unpark` no longer
produces it.  (Also used as an example of a failing `try_lock`, `Lock.tryLock_examples`.) -/
def wF5' : World :=
  mk [{ causality := vv [3, 0, 0, 0, 0] },
      { operation := some ⟨0, .opaque, true⟩, causality := vv [3, 1, 0, 0, 0] }]
    (some 1) [.mutex { lock := some 0 }, .rwlock {}, .condvar {}, .notify { spurious := true },
      .notify { seqCst := true }, .notify { seqCst := true }]

theorem F5_old_state_panics :
    (match wF5'.runOp { body := 1, stage := 1 } (.lock 0) with
      | .error .expectedLock => true | _ => false) = true := by decide +kernel

/-- thread 0 is blocked in `join 1` (the `JoinHandle`'s notify, object 4, is not notified);
thread 2 unparks it: it STAYS blocked and keeps the token (before the repair it became runnable and its
`join` panicked on `assert!(state.notified)`) -/
def wF6 : World :=
  mk [{ state := .blocked, operation := some ⟨4, .opaque, true⟩ }, {}, { causality := vv [1, 0, 1, 0, 0] }]
    (some 2) objs0

theorem F6_unpark :
    (wF6.runOp { body := 2 } (.unpark 0)).toOption.map
      (fun w' => ((w'.ths.get 0).state, (w'.ths.get 0).token, (w'.ths.get 0).parked)) =
    some (.blocked, true, false) := by decide +kernel

/-- the continuation: thread 1 then exits (`notify` on the `JoinHandle`'s object 4): thread 0 is woken by
the notification, still with the token, and the resumed `join` succeeds (no `notNotified`) -/
def wF6run : Except Panic World := do
  let w ← wF6.runOp { body := 2 } (.unpark 0)
  let w := w.setThs { w.ths with active := some 1 }
  let w ← w.notifyEffect 4
  let w := w.setThs { w.ths with active := some 0 }
  w.runOp { stage := 1 } (.join 1)

theorem F6_no_panic :
    wF6run.toOption.map (fun w' => ((w'.ths.get 0).state, (w'.ths.get 0).token,
      w'.events.head?.map (·.ret))) = some (.runnable, true, some .unit) := by decide +kernel

/-- the state the old defect led to — thread 0 runnable in the second stage of `join 1` although object 4 is
not notified — still panics in the model (`assert!(state.notified)`); `unpark` no longer produces it -/
def wF6old : World :=
  mk [{ operation := some ⟨4, .opaque, true⟩ }, {}, {}] (some 0) objs0

theorem F6_old_state_panics :
    (match wF6old.runOp { stage := 1 } (.join 1) with
      | .error .notNotified => true | _ => false) = true := by decide +kernel

/-! ### F17 (repaired): `unpark` orders nothing until a `park` consumes it -/

/-- thread 1 is runnable and is not parked; thread 0 (causality `[5,0,0,0,0]`) unparks it -/
def wF17 : World :=
  mk [{ causality := vv [5, 0, 0, 0, 0] }, { causality := vv [1, 1, 0, 0, 0] }] (some 0) objs0

/-- the target's causality is what it was; the unparker's causality is stored in `unparkCaus`; the target is
still runnable and holds the token.  (Before the repair its causality rose to `[5,1,0,0,0]` at once.) -/
theorem F17_unpark :
    ((wF17.ths.unpark 1).get 1).causality = vv [1, 1, 0, 0, 0] ∧
    ((wF17.ths.unpark 1).get 1).unparkCaus = vv [5, 0, 0, 0, 0] ∧
    ((wF17.ths.unpark 1).get 1).state = .runnable ∧
    ((wF17.ths.unpark 1).get 1).token = true := by decide +kernel

/-- the continuation: thread 1 is scheduled and calls `park`: the token is consumed, the call returns at once
and NOW its causality is above the unparker's -/
def wF17park : Except Panic World :=
  let w := wF17.setThs (wF17.ths.unpark 1)
  (w.setThs { w.ths with active := some 1 }).parkNow

theorem F17_park_acquires :
    wF17park.toOption.map (fun w' => ((w'.ths.get 1).causality, (w'.ths.get 1).unparkCaus,
      (w'.ths.get 1).token, (w'.ths.get 1).state, w'.ths.active)) =
    some (vv [5, 1, 0, 0, 0], VV.zero, false, .runnable, some 1) := by decide +kernel

/-! ### F18 (repaired): no release, and no blocking, loses a pending unpark token -/

/-- thread 1 is runnable WITH a stored token, its stale `operation` (from an earlier `lock`) still names
the mutex; thread 0 releases the mutex -/
def wF18 : World :=
  mk [{ causality := vv [2, 0, 0, 0, 0] },
      { token := true, operation := some ⟨0, .opaque, true⟩ }]
    (some 0) [.mutex { lock := some 0 }, .rwlock {}, .condvar {}, .notify { spurious := true },
      .notify { seqCst := true }, .notify { seqCst := true }]

/-- the token survives the release -/
theorem F18_token_kept :
    (wF18.releaseLock 0).toOption.map (fun w' => ((w'.ths.get 1).state, (w'.ths.get 1).token)) =
    some (.runnable, true) := by decide +kernel

/-- the same state with thread 1 BLOCKED on the mutex and holding a token (it was unparked while blocked,
as in `F5_unpark`): the release wakes it, and the token is still there -/
def wF18b : World :=
  mk [{ causality := vv [2, 0, 0, 0, 0] },
      { state := .blocked, token := true, operation := some ⟨0, .opaque, true⟩ }]
    (some 0) [.mutex { lock := some 0 }, .rwlock {}, .condvar {}, .notify { spurious := true },
      .notify { seqCst := true }, .notify { seqCst := true }]

theorem F18_blocked_woken :
    (wF18b.releaseLock 0).toOption.map (fun w' => ((w'.ths.get 1).state, (w'.ths.get 1).token)) =
    some (.runnable, true) := by decide +kernel

/-- a token stored BEFORE blocking survives the blocking: thread 1 (active, token stored, the mutex held by
thread 0) runs the first stage of `lock`: it is blocked on the mutex — not parked — and keeps the token -/
def wF18c : World :=
  mk [{ causality := vv [2, 0, 0, 0, 0] }, { token := true, causality := vv [1, 1, 0, 0, 0] }]
    (some 1) [.mutex { lock := some 0 }, .rwlock {}, .condvar {}, .notify { spurious := true },
      .notify { seqCst := true }, .notify { seqCst := true }]

theorem F18_token_survives_blocking :
    (wF18c.runOp { body := 1 } (.lock 0)).toOption.map
      (fun w' => ((w'.ths.get 1).state, (w'.ths.get 1).token, (w'.ths.get 1).parked, w'.ths.active)) =
    some (.blocked, true, false, some 0) := by decide +kernel

/-! ### park / unpark -/

/-- thread 1 is blocked in `park` (`parked`); thread 0 unparks it: it is woken, no token is stored -/
def wPark : World :=
  mk [{ causality := vv [2, 0, 0, 0, 0] },
      { state := .blocked, parked := true, causality := vv [1, 1, 0, 0, 0] }] (some 0) objs0

theorem park_unpark_wakes :
    (wPark.runOp {} (.unpark 1)).toOption.map
      (fun w' => ((w'.ths.get 1).state, (w'.ths.get 1).token, (w'.ths.get 1).parked,
        (w'.ths.get 1).causality)) =
    some (.runnable, false, false, vv [2, 1, 0, 0, 0]) := by decide +kernel

/-- `park` without a token: the active thread 0 is blocked in `park`, thread 1 runs -/
theorem park_blocks :
    (wF17.parkNow).toOption.map
      (fun w' => ((w'.ths.get 0).state, (w'.ths.get 0).parked, (w'.ths.get 0).token, w'.ths.active)) =
    some (.blocked, true, false, some 1) := by decide +kernel

/-! ### F15 (repaired): a condvar waiter is not woken by `unpark`, and a stored unpark is not a notification -/

/-- thread 1 waits on the condvar (object 2): it blocked itself with `rt::block` — `blocked`, NOT `parked`, no
pending operation — and is the only element of `waiters`; thread 0 is active -/
def wF15 : World :=
  mk [{ causality := vv [4, 0, 0, 0, 0] },
      { state := .blocked, causality := vv [1, 1, 0, 0, 0] }] (some 0)
    [.mutex {}, .rwlock {}, .condvar { waiters := [1] }, .notify { spurious := true },
      .notify { seqCst := true }, .notify { seqCst := true }]

/-- thread 0's `unpark 1` leaves the waiter BLOCKED and in the queue; the unpark is stored as a token and
orders nothing (causality unchanged) -/
theorem F15_unpark_does_not_wake :
    (wF15.runOp {} (.unpark 1)).toOption.map
      (fun w' => ((w'.ths.get 1).state, (w'.ths.get 1).token, (w'.ths.get 1).parked)) =
      some (.blocked, true, false) ∧
    (wF15.runOp {} (.unpark 1)).toOption.map
      (fun w' => ((w'.ths.get 1).causality, (w'.getCv 2).toOption.map (·.waiters))) =
      some (vv [1, 1, 0, 0, 0], some [1]) := by
  constructor <;> decide +kernel

/-- thread 0's `notify_one` (second stage) wakes it: runnable, the notifier's causality joined, the queue empty,
no token handed out -/
theorem F15_notify_wakes :
    (wF15.runOp { stage := 1 } (.cvOne 0)).toOption.map
      (fun w' => ((w'.ths.get 1).state, (w'.ths.get 1).token, (w'.ths.get 1).causality,
        (w'.getCv 2).toOption.map (·.waiters))) =
    some (.runnable, false, vv [4, 1, 0, 0, 0], some []) := by decide +kernel

/-- thread 1, active, holds the mutex and HAS a stored unpark token; it runs stage 1 of `Condvar::wait`: it
enqueues itself, releases the mutex and BLOCKS (not parked) — the token neither makes the wait return nor is
consumed; thread 0 runs.  (Before the repair the wait went through `rt::park`, consumed the token and returned
without any notification.) -/
def wF15t : World :=
  mk [{ causality := vv [2, 0, 0, 0, 0] }, { token := true, causality := vv [1, 1, 0, 0, 0] }]
    (some 1) [.mutex { lock := some 1 }, .rwlock {}, .condvar {}, .notify { spurious := true },
      .notify { seqCst := true }, .notify { seqCst := true }]

theorem F15_token_is_no_notification :
    (wF15t.runOp { body := 1, stage := 1 } (.cvWait 0 0)).toOption.map
      (fun w' => ((w'.ths.get 1).state, (w'.ths.get 1).parked, (w'.ths.get 1).token, w'.ths.active)) =
      some (.blocked, false, true, some 0) ∧
    (wF15t.runOp { body := 1, stage := 1 } (.cvWait 0 0)).toOption.map
      (fun w' => ((w'.getCv 2).toOption.map (·.waiters), (w'.getMutex 0).toOption.map (·.lock))) =
      some (some [1], some none) := by
  constructor <;> decide +kernel

end Ex
end LoomVerif

/-
Refinement, WAIT fragment, part 23: the initial world is related to the initial reference state, and the one-step
simulation lifts to whole runs of `World.runLoop`.
-/
import LoomVerif.Proofs.Refine2Final
import LoomVerif.Proofs.RefineRun

set_option linter.unusedSimpArgs false
set_option linter.unusedVariables false

namespace LoomVerif
namespace Refine2
open Refine Sy

/-- the thread table at the start of an iteration (`Exec.new`, `Exec.step`): the main thread alone, in its initial
state, active -/
def FreshExec2 (e : Exec) : Prop := e.threads.threads = [{}] ∧ e.threads.active = some 0

theorem freshExec2_new (mt mb : Nat) (b : Option Nat) (x : Bool) : FreshExec2 (Exec.new mt mb b x) := ⟨rfl, rfl⟩

theorem freshExec2_step {e e' : Exec} (h : e.step = some e') : FreshExec2 e' := by
  unfold Exec.step at h
  cases hp : e.path.step with
  | none => rw [hp] at h; cases h
  | some p => rw [hp] at h; cases h; exact ⟨rfl, rfl⟩

theorem FreshExec2.fresh {e : Exec} (h : FreshExec2 e) : FreshExec e := ⟨by rw [h.1]; rfl, h.2⟩

/-- the objects `World.init` creates, in order -/
theorem init_shape2 {prog : Prog} {e : Exec} {w : World} (h : World.init prog e = .ok w) :
    w.prog = prog ∧ w.ctl = [{}] ∧ w.spawned = [] ∧ w.events = [] ∧ w.exec.threads = e.threads ∧
    w.notifyWaiting = List.replicate prog.cfg.nNotifies false ∧
    ∃ A ext : List Obj, A.length = prog.cfg.nAtomics ∧
      w.exec.objs = A ++ (List.replicate prog.cfg.nCells
          (.cell { readAccess := e.threads.caus, writeAccess := e.threads.caus }) ++
        (List.replicate prog.cfg.nMutexes (.mutex {}) ++
        (List.replicate prog.cfg.nRwlocks (.rwlock {}) ++
        (List.replicate prog.cfg.nCondvars (.condvar {}) ++
        (List.replicate prog.cfg.nNotifies (.notify { spurious := true }) ++
        (List.replicate prog.cfg.nChans (.chan {}) ++ ext)))))) := by
  unfold World.init at h
  simp only [Except.bind_eq_ok'] at h
  obtain ⟨a1, h1, a2, h2, a3, h3, a4, h4, a5, h5, a6, h6, a7, h7, a8, h8, h⟩ := h
  cases h
  refine ⟨rfl, rfl, rfl, rfl, rfl, rfl, ?_⟩
  obtain ⟨A, rfl, hA⟩ := forIn_try _ _ _ _ _ h1
  rw [forIn_pure] at h2 h3 h4 h5 h6 h7
  cases h2; cases h3; cases h4; cases h5; cases h6; cases h7
  obtain ⟨ext, hext⟩ := forIn_pair _ _ (fun s => s ++ [Obj.mutex { seqCst := true }, Obj.mutex { seqCst := false }])
    (fun s => s.2 ++ [({ slotMutex := s.1.length, awMutex := s.1.length + 1 } : FutSt)]) (fun s => ⟨_, rfl⟩) _ h8
  refine ⟨a1, ext, by simpa using hA, ?_⟩
  show a8.1 = _
  rw [hext]
  simp only [List.nil_append, List.length_range, List.append_assoc]

theorem getElem?_skip {α} (pre post : List α) (k : Nat) : (pre ++ post)[pre.length + k]? = post[k]? := by
  rw [List.getElem?_append_right (Nat.le_add_right _ _), Nat.add_sub_cancel_left]

theorem getElem?_hit {α} (n i : Nat) (x : α) (rest : List α) (h : i < n) :
    (List.replicate n x ++ rest)[i]? = some x := by
  rw [List.getElem?_append_left (by simpa using h)]
  simp [List.getElem?_replicate, h]

theorem getElem?_skipRep {α} (n k : Nat) (x : α) (rest : List α) :
    (List.replicate n x ++ rest)[n + k]? = rest[k]? := by
  have := getElem?_skip (List.replicate n x) rest k
  simpa using this

/-- **the initial world is related to the initial reference state** -/
theorem init_R2 {prog : Prog} {e : Exec} {w : World} (hwf : WF2 prog) (hf : FreshExec2 e)
    (h : World.init prog e = .ok w) :
    R2 w (data2 (SC.init prog)) ∧ w.prog = prog ∧ w.events = [] := by
  obtain ⟨hp, hc, hs, hev, hth, hnw, A, ext, hA, hobjs⟩ := init_shape2 h
  refine ⟨?_, hp, hev⟩
  have hths : (data2 (SC.init prog)).ths =
      (List.range prog.threads.length).map fun i => ({ started := i == 0 } : DTh2) := by
    simp [data2, SC.init, dth2, List.map_map, Function.comp_def]
  have hget : ∀ b, b < prog.threads.length →
      (data2 (SC.init prog)).ths.getD b {} = ({ started := b == 0 } : DTh2) := by
    intro b hb
    rw [hths]
    simp [List.getD, hb]
  have hctl0 : ([({} : TCtl)] : List TCtl).getD 0 {} = {} := rfl
  have hone : ∀ i, i < ([({} : TCtl)] : List TCtl).length → i = 0 := by
    intro i hi; simpa using hi
  have hpN : pendN prog ({} : TCtl) = none := pendN_stage0 _ _ rfl
  have hpC : pendCv prog ({} : TCtl) = none := pendCv_stage0 _ _ rfl
  -- the object views
  have vcell : ∀ c, c < prog.cfg.nCells → objView2 w.exec.objs (cellIdx prog c) = some (.cell 0) := by
    intro c hc'
    unfold objView2 cellIdx
    rw [hobjs, ← hA, getElem?_skip, getElem?_hit _ _ _ _ hc']; rfl
  have vmtx : ∀ m, m < prog.cfg.nMutexes → objView2 w.exec.objs (mutexIdx prog m) = some (.mutex none) := by
    intro m hm
    unfold objView2 mutexIdx
    rw [hobjs, ← hA, Nat.add_assoc, getElem?_skip, getElem?_skipRep, getElem?_hit _ _ _ _ hm]; rfl
  have vcv : ∀ v, v < prog.cfg.nCondvars → objView2 w.exec.objs (cvIdx prog v) = some (.condvar []) := by
    intro v hv
    unfold objView2 cvIdx
    rw [hobjs, ← hA, Nat.add_assoc, Nat.add_assoc, Nat.add_assoc, getElem?_skip, getElem?_skipRep,
      getElem?_skipRep, getElem?_skipRep, getElem?_hit _ _ _ _ hv]; rfl
  have vn : ∀ n, n < prog.cfg.nNotifies →
      objView2 w.exec.objs (notifyIdx prog n) = some (.notify true false false) := by
    intro n hn
    unfold objView2 notifyIdx cvIdx
    rw [hobjs, ← hA, Nat.add_assoc, Nat.add_assoc, Nat.add_assoc, Nat.add_assoc, getElem?_skip, getElem?_skipRep,
      getElem?_skipRep, getElem?_skipRep, getElem?_skipRep, getElem?_hit _ _ _ _ hn]; rfl
  have vch : ∀ q, q < prog.cfg.nChans → objView2 w.exec.objs (chanIdx prog q) = some (.chan 0 []) := by
    intro q hq
    unfold objView2 chanIdx notifyIdx cvIdx
    rw [hobjs, ← hA, Nat.add_assoc, Nat.add_assoc, Nat.add_assoc, Nat.add_assoc, Nat.add_assoc, getElem?_skip,
      getElem?_skipRep, getElem?_skipRep, getElem?_skipRep, getElem?_skipRep, getElem?_skipRep,
      getElem?_hit _ _ _ _ hq]; rfl
  have hx : RX2 prog [{}] (data2 (SC.init prog)).ths := by
    refine ⟨by rw [hths]; simp, ⟨by simp, rfl⟩, ?_, ?_, ?_, ?_, ?_⟩
    · intro i hi
      have := hone i hi
      subst this
      refine ⟨hwf.1, ?_⟩
      show ThRel2 prog ({} : TCtl) ((data2 (SC.init prog)).ths.getD 0 {})
      rw [hget 0 hwf.1]
      exact ⟨rfl, rfl, rfl, rfl, Nat.zero_le _, rfl, rfl⟩
    · intro i hi hne
      have := hone i hi
      subst this
      exact absurd rfl hne
    · intro i j hi hj _
      have := hone i hi
      have := hone j hj
      omega
    · intro b hb hidle
      have hb0 : b ≠ 0 := by
        intro e0
        exact hidle 0 (by simp) (by rw [e0]; rfl)
      rw [hget b hb]
      have : (b == 0) = false := by simpa using hb0
      rw [this]
    · intro i hi0 hi
      have := hone i hi
      omega
  have hro : RO prog [{}] [] w.exec.objs w.notifyWaiting (data2 (SC.init prog)) := by
    refine ⟨?_, ?_, ?_, ?_⟩
    · refine ⟨by simp [data2, SC.init], by simp [data2, SC.init], ?_, ?_, ?_, ?_⟩
      · intro c hc'
        rw [vcell c hc']
        simp [data2, SC.init, List.getD, List.getElem?_replicate, hc']
      · intro m hm
        refine ⟨none, vmtx m hm, ?_, by intro i hi; cases hi⟩
        simp [data2, SC.init, List.getD, List.getElem?_replicate, hm]
      · intro b i n hmem; cases hmem
      · intro e1 e2 h1; cases h1
    · refine ⟨by simp [data2, SC.init], by simp [data2, SC.init], by simp [data2, SC.init], ?_⟩
      intro q hq
      refine ⟨[], vch q hq, ?_, ?_⟩
      · intro hd
        simp [data2, SC.init, List.getD, List.getElem?_replicate, hq] at hd
      · intro _
        refine ⟨by simp [data2, SC.init, List.getD, List.getElem?_replicate, hq], [], ?_, fun hh => absurd rfl hh⟩
        simp [data2, SC.init, List.getD, List.getElem?_replicate, hq]
    · refine ⟨by simp [data2, SC.init], by simp [data2, SC.init], by rw [hnw]; simp, ?_⟩
      intro n hn
      refine ⟨false, ?_, ?_, ?_, ?_, ?_⟩
      · rw [vn n hn]
        simp [data2, SC.init, List.getD, List.getElem?_replicate, hn]
      · intro i st hi hpn
        have := hone i hi
        subst this
        rw [hctl0, hpN] at hpn; cases hpn
      · intro i j st st' hi hj hpn _
        have := hone i hi
        subst this
        rw [hctl0, hpN] at hpn; cases hpn
      · intro i hi hpn
        have := hone i hi
        subst this
        rw [hctl0, hpN] at hpn; cases hpn
      · intro _
        simp [data2, SC.init, List.getD, List.getElem?_replicate, hn]
    · refine ⟨by simp [data2, SC.init], ?_, ?_⟩
      · intro v hv
        refine ⟨[], vcv v hv, ?_, List.nodup_nil, by intro i hi; cases hi⟩
        simp [data2, SC.init, List.getD, List.getElem?_replicate, hv]
      · intro i hi
        have := hone i hi
        subst this
        rw [hctl0]
        refine ⟨fun _ => ?_, ?_⟩
        · show ((data2 (SC.init prog)).ths.getD 0 {}).cvWaiting = none ∧ _
          rw [hget 0 hwf.1]; exact ⟨rfl, rfl⟩
        · intro v m ws hp'
          rw [hpC] at hp'; cases hp'
  have hthr : ∀ i, w.exec.threads.get i = ({} : Thread) := by
    intro i
    rw [hth]
    unfold Threads.get
    rw [hf.1]
    cases i with
    | zero => rfl
    | succ k => rfl
  refine ⟨R2c.mk' (p := prog) (ctl := [{}]) (sp := []) hp hc hs (by rw [hth, hf.1]; rfl) hx hro, ?_, ?_, ?_⟩
  · intro i hi hfin
    have : i = 0 := by rw [hc] at hi; simpa using hi
    subst this
    rw [hthr 0]
    have hc0 : w.ctlOf 0 = {} := by simp only [World.ctlOf, hc]; rfl
    rw [hc0, parkedAt_false_of_stage (c := ({} : TCtl)) rfl]
    show ((data2 (SC.init prog)).ths.getD 0 {}).token = _
    rw [hget 0 hwf.1]; rfl
  · intro i hp'
    rw [hthr i] at hp'; cases hp'
  · intro i _ _
    rw [hthr i]; rfl

/-! ### runs -/

/-- **the run-level hypothesis**: `resumeOk` holds at every step the run takes.  Computable (by running the
twin). -/
def okRun : Nat → World → Bool
  | 0, _ => true
  | fuel + 1, w =>
    if !w.ths.isActive then true
    else resumeOk w &&
      match w.stepActive with
      | .error _ => true
      | .ok w' => okRun fuel w'

theorem init_inRange2 {prog : Prog} {e : Exec} {w : World} (hf : FreshExec2 e)
    (h : World.init prog e = .ok w) : InRange w := init_inRange hf.fresh h

/-- the simulation along `runLoop` -/
theorem runLoop_sim2 (p : Prog) (d0 : SCData2) (hwf : WF2 p) :
    ∀ (fuel : Nat) (w w' : World) (s : SCData2), w.prog = p → R2 w s → InRange w →
      SCData2.Run2 p d0 (w.events.reverse.map triple) s → okRun fuel w = true →
      World.runLoop fuel w = (w', none) →
      ∃ s', SCData2.Run2 p d0 (w'.events.reverse.map triple) s' ∧ R2 w' s' ∧ w'.prog = p := by
  intro fuel
  induction fuel with
  | zero =>
    intro w w' s _ _ _ _ _ h
    simp [World.runLoop] at h
  | succ fuel ih =>
    intro w w' s hp hR hrange hrun hok h
    unfold World.runLoop at h
    unfold okRun at hok
    split at h
    · cases h
      exact ⟨s, hrun, hR, hp⟩
    · next hact =>
      have hact' : w.ths.isActive = true := by simpa using hact
      have hin : w.tid < w.ctl.length := by rw [hR.c.lenCtl]; exact hrange hact'
      rw [if_neg hact] at hok
      simp only [Bool.and_eq_true] at hok
      split at h
      · cases h
      · next w1 hstep =>
        have hok1 : okRun fuel w1 = true := by
          have := hok.2
          rw [hstep] at this
          exact this
        obtain ⟨⟨hp1, hsim⟩, hr1⟩ := step_sim2 (by rw [hp]; exact hwf) hR hin hok.1 hstep
        rcases hsim with ⟨hR1, hev⟩ | ⟨l, s1, hrs, hR1, hev⟩
        · exact ih w1 w' s (hp1.trans hp) hR1 hr1 (by rw [hev]; exact hrun) hok1 h
        · rw [hp] at hrs
          refine ih w1 w' s1 (hp1.trans hp) hR1 hr1 ?_ hok1 h
          rw [triple_step hev]
          rcases hrs with ⟨hen, hst⟩ | hsp
          · exact SCData2.Run2.step hrun hen hst
          · exact SCData2.Run2.spur hrun hsp

end Refine2
end LoomVerif

/-
Property C17: "thread_local! and lazy_static! keep per-thread / per-execution semantics.  A loom
thread-local is initialised lazily once per thread, is private to that thread, is dropped when the
thread finishes (after which try_with reports AccessError), and nested `with` calls work; a loom
lazy_static is initialised at most once per execution, all threads see the same instance,
initialisation happens-before every access, it is dropped at the end of the iteration, and it is
re-initialised in the next iteration."

Headline theorems about the twin (`Model/Interp.lean`): `World.tlsGet` (`LocalKey::try_with`),
`World.dropLocals` (`Thread::drop_locals`), `World.lazyStage` (`Lazy::get` + a read of the cell in
the value, staged: the initialiser has a scheduling point) with its parts `World.lazyStatics`,
`World.lazyRead`, `World.lazyInitFinish`, the `.tls` / `.tlsTry` / `.tlsNest` / `.lazy` / `.lazyStat` cases
of `World.runOp`, the epilogue
`World.runEpilogue` / `World.finishThread`, `Exec.step` and `World.init`.  All of them are one-step
laws in arbitrary worlds; every hypothesis is explicit.

Conventions.  `(w.ctlOf w.tid).locals` are the thread-locals of the ACTIVE thread: key ↦ `some id`
(live) / `none` (destroyed).  The DSL declares two keys (0, 1) and two lazy statics (0, 1); the
harness counters `tlsInits`, `tlsDrops`, `lazyInits` have one slot per key (`World.init`: `[0, 0]`),
so the statements about counters carry `k < w.tlsInits.length` (`List.set` is a no-op out of range).
The id of a thread-local names its owner: the first initialisation by thread `t` is `t * 10 + 1`.
`w.tid < w.ctl.length` says that the active thread has a control record (always the case while a
thread runs).  Helper lemmas: `Proofs/C17Tls.lean`, `Proofs/C17Lazy.lean`.
-/
import LoomVerif.Proofs.C17Tls
import LoomVerif.Proofs.C17Lazy
import LoomVerif.Props.C13

namespace LoomVerif
open C17

/-! ## 1. `Tls.lazy_once_per_thread` -/

/-- `LocalKey::try_with` on the active thread.  No entry for `k`: the key's counter goes up by one,
the id names the owning thread (`id = w.tid * 10 + 1`), `(k, some id)` is recorded and `some id`
returned.  Live entry
`(k, some id)`: `some id` is returned and NOTHING changes (no second initialisation).  Destroyed
entry `(k, none)`: `none` is returned and nothing changes. -/
theorem Tls.lazy_once_per_thread (w : World) (k : Nat) :
    ((w.ctlOf w.tid).locals.lookup k = none →
      w.tlsGet k =
        (({ w with tlsInits := w.tlsInits.set k (w.tlsInits.getD k 0 + 1) } : World).modCtl w.tid
            (fun c => { c with locals := (k, some (w.tid * 10 + 1)) :: c.locals }),
          some (w.tid * 10 + 1)) ∧
      (k < w.tlsInits.length →
        (w.tlsGet k).1.tlsInits.getD k 0 = w.tlsInits.getD k 0 + 1) ∧
      (w.tid < w.ctl.length →
        ((w.tlsGet k).1.ctlOf w.tid).locals =
          (k, some (w.tid * 10 + 1)) :: (w.ctlOf w.tid).locals)) ∧
    (∀ id, (w.ctlOf w.tid).locals.lookup k = some (some id) → w.tlsGet k = (w, some id)) ∧
    ((w.ctlOf w.tid).locals.lookup k = some none → w.tlsGet k = (w, none)) :=
  ⟨fun h => ⟨tlsGet_fresh h, fun hk => tlsGet_fresh_counter h hk, fun ht => tlsGet_fresh_entry h ht⟩,
    fun _ h => tlsGet_live h, fun h => tlsGet_destroyed h⟩

/-! ## 2. `Tls.private` -/

/-- A thread-local is private to its thread: `tlsGet` writes only the ACTIVE thread's record, its
result depends only on the active thread's id and `locals`; the counters never decrease; and the
id an initialising access hands out encodes the thread (`t * 10 + 1`) — so two DIFFERENT threads
that initialise the same key (in any two worlds `w`, `w2`) get different ids. -/
theorem Tls.private (w : World) (k : Nat) :
    (∀ t', t' ≠ w.tid → (w.tlsGet k).1.ctlOf t' = w.ctlOf t') ∧
    (∀ w2 : World, (w2.ctlOf w2.tid).locals = (w.ctlOf w.tid).locals → w2.tid = w.tid →
      (w2.tlsGet k).2 = (w.tlsGet k).2) ∧
    (∀ k', w.tlsInits.getD k' 0 ≤ (w.tlsGet k).1.tlsInits.getD k' 0) ∧
    (∀ w2 : World, w2.tid ≠ w.tid →
      (w.ctlOf w.tid).locals.lookup k = none → (w2.ctlOf w2.tid).locals.lookup k = none →
      (w2.tlsGet k).2 ≠ (w.tlsGet k).2) := by
  refine ⟨fun t' h => tlsGet_other w k t' h, fun w2 hl hi => tlsGet_reads w w2 k hl hi,
    fun k' => tlsGet_counter_mono w k k', ?_⟩
  intro w2 hne h1 h2
  rw [tlsGet_fresh h1, tlsGet_fresh h2]
  intro e
  have : w2.tid * 10 + 1 = w.tid * 10 + 1 := Option.some.inj e
  omega

/-! ## 3. `Tls.dropped_at_exit`, `Tls.access_after_drop_is_error` -/

/-- the keys `Thread::drop_locals` drops: those with a live entry, in the order in which the thread
initialised them (`locals` is consed, hence the `reverse`); `bump` is the counter update.  A key is
listed once when the entries' keys are pairwise different — which `tlsGet` maintains (it only adds
an entry for a key that has none), starting from the empty list of a new thread. -/
theorem liveKeys_spelled_out (w : World) (k : Nat) :
    (liveKeys w = (w.ctlOf w.tid).locals.reverse.filterMap fun (k, v) => v.map fun _ => k) ∧
    (k ∈ liveKeys w ↔ ∃ id, (k, some id) ∈ (w.ctlOf w.tid).locals) ∧
    (∀ d : List Nat, bump d k = d.set k (d.getD k 0 + 1)) ∧
    (((w.ctlOf w.tid).locals.map (·.1)).Nodup →
      (liveKeys w).Nodup ∧ (liveKeys w).count k = if k ∈ liveKeys w then 1 else 0) ∧
    (w.tid < w.ctl.length → ((w.ctlOf w.tid).locals.map (·.1)).Nodup → ∀ j,
      (((w.tlsGet j).1.ctlOf w.tid).locals.map (·.1)).Nodup) :=
  ⟨rfl, mem_liveKeys w k, fun _ => rfl,
    fun h => ⟨liveKeys_nodup w h, count_of_nodup _ (liveKeys_nodup w h) k⟩,
    fun ht h j => tlsGet_keys_nodup w j ht h⟩

/-- `Thread::drop_locals` (the first stage of the epilogue of a spawned thread, `fin = 0`, BEFORE the
`JoinHandle` is notified — `Join.after_destructors` in `Props/C08.lean` — and again the first stage of the
common tail `finishThread`, `fin = 10`, the only pass of the main thread).  Whatever the destructors
do (`cfg.tlsDtor`): every key the thread had is destroyed afterwards, the other threads' records
and the execution are untouched, and the drop counters were bumped once per listed live key (the
loop `bump` over `liveKeys`: counter `k` goes up by the number of times `k` is listed — exactly
once for a live key, see `liveKeys_spelled_out`).  Unless key 0's destructor re-initialises key 1
(`tlsdtor=2`) every entry is `(k, none)`.  With `cfg.tlsDtor = 0` nothing else changes. -/
theorem Tls.dropped_at_exit (w : World) (ht : w.tid < w.ctl.length) :
    (∀ j v, (w.ctlOf w.tid).locals.lookup j = some v →
      (w.dropLocals.ctlOf w.tid).locals.lookup j = some none) ∧
    (w.cfg.tlsDtor ≠ 2 →
      (w.dropLocals.ctlOf w.tid).locals = (w.ctlOf w.tid).locals.map fun (k, _) => (k, none)) ∧
    (∀ t', t' ≠ w.tid → w.dropLocals.ctlOf t' = w.ctlOf t') ∧
    w.dropLocals.exec = w.exec ∧
    w.dropLocals.tlsDrops = (liveKeys w).foldl bump w.tlsDrops ∧
    (∀ k, k < w.tlsDrops.length →
      w.dropLocals.tlsDrops.getD k 0 = w.tlsDrops.getD k 0 + (liveKeys w).count k) ∧
    (w.cfg.tlsDtor = 0 →
      w.dropLocals =
        { w.modCtl w.tid (fun c => { c with locals := c.locals.map fun (k, _) => (k, none) }) with
          tlsDrops := (liveKeys w).foldl bump w.tlsDrops }) := by
  obtain ⟨h1, h2, h3⟩ := dropLocals_facts w ht
  refine ⟨h1, ?_, h2, World.dropLocals_exec w, h3, ?_, ?_⟩
  · intro hne
    rw [dropLocals_eq]
    split
    · have hlen : (afterDrops w).ctl.length = w.ctl.length := length_modCtl _ _ _
      rw [ctlOf_modCtl_self _ _ _ (by rw [hlen]; exact ht)]
      exact afterDrops_locals w ht
    · next e => exact absurd e hne
    · exact afterDrops_locals w ht
  · intro k hk
    rw [h3]
    exact bump_count (liveKeys w) w.tlsDrops k hk
  · intro h0
    exact dropLocals_plain (by rw [h0]; decide) (by rw [h0]; decide)

/-- After the thread's locals were dropped, an access to a key the thread had reports the
destruction: `tlsGet` returns `none` and changes nothing, `K.try_with` (`.tlsTry k`) completes with
`AccessError`, `K.with` (`.tls k`) panics ("cannot access a Thread Local Storage value during or
after destruction").  Second part: the same in ANY world in which the entry is destroyed. -/
theorem Tls.access_after_drop_is_error (w : World) (c : TCtl) (k : Nat) :
    (∀ v, w.tid < w.ctl.length → (w.ctlOf w.tid).locals.lookup k = some v →
      w.dropLocals.tlsGet k = (w.dropLocals, none) ∧
      w.dropLocals.runOp c (.tlsTry k) = .ok (w.dropLocals.complete .accessError) ∧
      w.dropLocals.runOp c (.tls k) = .error .tlsDestroyed) ∧
    ((w.ctlOf w.tid).locals.lookup k = some none →
      w.tlsGet k = (w, none) ∧
      w.runOp c (.tlsTry k) = .ok (w.complete .accessError) ∧
      w.runOp c (.tls k) = .error .tlsDestroyed) := by
  have gen : ∀ x : World, (x.ctlOf x.tid).locals.lookup k = some none →
      x.tlsGet k = (x, none) ∧ x.runOp c (.tlsTry k) = .ok (x.complete .accessError) ∧
      x.runOp c (.tls k) = .error .tlsDestroyed := fun x h =>
    ⟨tlsGet_destroyed h, runOp_tlsTry_none c (tlsGet_destroyed h),
      runOp_tls_none c (tlsGet_destroyed h)⟩
  refine ⟨fun v ht h => gen _ ?_, gen w⟩
  rw [dropLocals_tid]
  exact (dropLocals_facts w ht).1 k v h

/-- a live or fresh key: `K.with` / `K.try_with` complete with the id `tlsGet` returns -/
theorem Tls.access_returns_id (w w1 : World) (c : TCtl) (k id : Nat)
    (h : w.tlsGet k = (w1, some id)) :
    w.runOp c (.tls k) = .ok (w1.complete (.val id)) ∧
    w.runOp c (.tlsTry k) = .ok (w1.complete (.val id)) :=
  ⟨runOp_tls_of c h, runOp_tlsTry_of c h⟩

/-! ## 4. `Tls.nested_with` -/

/-- `K_k.with(|_| K_j.with(|v| v.id))`: `tlsGet k` first, then `tlsGet j` in the world the first
access left; the operation completes with the id of `j`.  If neither key is destroyed it always
completes, both keys are live afterwards (each initialised if needed, `k` first), and a destroyed
key makes it panic. -/
theorem Tls.nested_with (w : World) (c : TCtl) (k j : Nat) :
    (∀ w1 w2 idk idj, w.tlsGet k = (w1, some idk) → w1.tlsGet j = (w2, some idj) →
      w.runOp c (.tlsNest k j) = .ok (w2.complete (.val idj))) ∧
    (w.tid < w.ctl.length → (w.ctlOf w.tid).locals.lookup k ≠ some none →
      (w.ctlOf w.tid).locals.lookup j ≠ some none →
      ∃ w1 w2 idk idj, w.tlsGet k = (w1, some idk) ∧ w1.tlsGet j = (w2, some idj) ∧
        w.runOp c (.tlsNest k j) = .ok (w2.complete (.val idj)) ∧
        (w2.ctlOf w.tid).locals.lookup k = some (some idk) ∧
        (w2.ctlOf w.tid).locals.lookup j = some (some idj)) ∧
    ((w.ctlOf w.tid).locals.lookup k = some none →
      w.runOp c (.tlsNest k j) = .error .tlsDestroyed) ∧
    (∀ w1 idk, w.tlsGet k = (w1, some idk) → (w1.ctlOf w1.tid).locals.lookup j = some none →
      w.runOp c (.tlsNest k j) = .error .tlsDestroyed) := by
  refine ⟨fun w1 w2 idk idj h1 h2 => runOp_tlsNest_of c h1 h2, ?_,
    fun h => runOp_tlsNest_outer_none c (tlsGet_destroyed h),
    fun w1 idk h1 h2 => runOp_tlsNest_inner_none c h1 (tlsGet_destroyed h2)⟩
  intro ht hk hj
  obtain ⟨idk, h1⟩ := tlsGet_not_destroyed hk
  have e1 : w.tlsGet k = ((w.tlsGet k).1, some idk) := Prod.ext rfl h1
  have htid : (w.tlsGet k).1.tid = w.tid := tlsGet_tid w k
  have hlk := tlsGet_some_live ht e1
  -- `j` is still not destroyed after the access to `k`
  have hj' : ((w.tlsGet k).1.ctlOf (w.tlsGet k).1.tid).locals.lookup j ≠ some none := by
    rw [htid]
    intro hq
    by_cases e : j = k
    · subst e; rw [hlk] at hq; cases hq
    · rcases hq0 : (w.ctlOf w.tid).locals.lookup k with _ | _ | id'
      · have := tlsGet_fresh_entry hq0 ht
        rw [this] at hq
        have hjk : (j == k) = false := by simpa using e
        simp only [List.lookup, hjk] at hq
        exact hj hq
      · exact hk hq0
      · rw [tlsGet_live hq0] at hq; exact hj hq
  obtain ⟨idj, h2⟩ := tlsGet_not_destroyed hj'
  have e2 : (w.tlsGet k).1.tlsGet j = (((w.tlsGet k).1.tlsGet j).1, some idj) := Prod.ext rfl h2
  have ht1 : (w.tlsGet k).1.tid < (w.tlsGet k).1.ctl.length := by
    rw [htid, tlsGet_ctl_length]; exact ht
  have hlj := tlsGet_some_live ht1 e2
  rw [htid] at hlj
  refine ⟨_, _, idk, idj, e1, e2, runOp_tlsNest_of c e1 e2, ?_, hlj⟩
  have := tlsGet_keeps_lookup (w.tlsGet k).1 j k (some idk) (by rw [htid]; exact hlk)
  rw [htid] at this
  exact this

/-! ## 5. `Lazy.published_once`, `Lazy.same_instance` -/

/-- The worlds and values the statements below mention, spelled out (definitions in
`Proofs/C17Lazy.lean`).  `bumped w z`: the initialiser of `z` starts — its run is counted in `lazyInits[z]`
(the new value is its instance id).  `initWritten w z`: the rest of the initialiser has created its cell (a
fresh last object) and written `40 + z` into it after `rt::synchronize`; nothing else changed.
`initVal w id`: the `StaticValue` it registers if it wins the race: instance `id`, that cell, clock
`sync_store(AcqRel)` of the initialiser after its `synchronize`.  `initWorld w z id l`: `initWritten w z`
with that value registered in front of the table `l`.  `readWorld x sv cs`: the world a successful read of
the registered value `sv` (cell content `cs`) leaves.  `StaticsGrow z s s'`: the table `s'` is `s`, or `s`
with one new entry for `z`, which had none. -/
theorem Lazy.defs_spelled_out (w : World) (z id : Nat) (l : List (Nat × LazyVal)) :
    bumped w z = { w with lazyInits := w.lazyInits.set z (w.lazyInits.getD z 0 + 1) } ∧
    ((initWritten w z).exec.lazyStatics = w.exec.lazyStatics ∧
      (initWritten w z).lazyInits = w.lazyInits ∧
      (initWritten w z).ths = w.ths.activeCausalityInc ∧
      (initWritten w z).exec.objs = w.exec.objs ++
        [.cell { readAccess := w.ths.caus,
                 writeAccess := w.ths.caus.join w.ths.activeCausalityInc.caus, value := 40 + z }]) ∧
    initVal w id =
      { sync := w.ths.activeCausalityInc.syncStore Sync.new .ar, inst := id,
        cell := w.exec.objs.length } ∧
    initWorld w z id l =
      { initWritten w z with
        exec := { (initWritten w z).exec with lazyStatics := some ((z, initVal w id) :: l) } } ∧
    (∀ (x : World) (sv : LazyVal) (cs : CellSt),
      (readWorld x sv cs).exec.lazyStatics = x.exec.lazyStatics ∧
      (readWorld x sv cs).lazyInits = x.lazyInits ∧
      (readWorld x sv cs).ths = (x.ths.syncLoad sv.sync .acq).activeCausalityInc ∧
      (readWorld x sv cs).exec.objs = x.exec.objs.set sv.cell
        (.cell { cs with readAccess :=
          cs.readAccess.join (x.ths.syncLoad sv.sync .acq).activeCausalityInc.caus })) ∧
    (∀ s s', StaticsGrow z s s' ↔
      s' = s ∨ ∃ l sv, s = some l ∧ l.lookup z = none ∧ s' = some ((z, sv) :: l)) :=
  ⟨rfl, ⟨rfl, rfl, rfl, initWritten_objs w z⟩, rfl, rfl, fun _ _ _ => ⟨rfl, rfl, rfl, rfl⟩,
    fun _ _ => Iff.rfl⟩

/-- The stages of `lazy z` (`Lazy::get` + a read of the cell inside the value).  Stage 0 is `try_get`:
registered → the value is read and the operation completes; not registered → the initialiser starts: it
counts its run and draws its instance id `lazyInits[z] + 1`, and — when the program declares an atomic —
reaches its scheduling point `x0.fetch_add(1, Relaxed)` (the stage it continues with IS its instance id);
without an atomic it runs to its end in this stage.  A later stage `id` is the effect of the `fetch_add`
followed by the rest of the initialiser `lazyInitFinish z id`. -/
theorem Lazy.stages (w : World) (c : TCtl) (z : Nat) :
    (c.stage = 0 → w.exec.lazyStatics = none → w.lazyStage c z = .error .lazyShutdown) ∧
    (∀ l sv, c.stage = 0 → w.exec.lazyStatics = some l → l.lookup z = some sv →
      w.lazyStage c z = (w.lazyRead sv).map fun r => r.1.complete (.val r.2)) ∧
    (∀ l, c.stage = 0 → w.exec.lazyStatics = some l → l.lookup z = none → w.cfg.nAtomics = 0 →
      w.lazyStage c z =
        ((bumped w z).lazyInitFinish z (w.lazyInits.getD z 0 + 1)).map
          fun r => r.1.complete (.val r.2)) ∧
    (∀ l, c.stage = 0 → w.exec.lazyStatics = some l → l.lookup z = none → w.cfg.nAtomics ≠ 0 →
      w.lazyStage c z =
        (bumped w z).primStart 0 (.rmw (.add 1) .rlx .rlx) (w.lazyInits.getD z 0 + 1)) ∧
    (c.stage ≠ 0 → w.lazyStage c z = (do
      let (w1, _) ← w.primEffect 0 (.rmw (.add 1) .rlx .rlx)
      let (w2, v) ← w1.lazyInitFinish z c.stage
      pure (w2.complete (.val v)))) ∧
    w.runOp c (.lazy z) = w.lazyStage c z :=
  ⟨fun hc hs => lazyStage0_shutdown z hc hs, fun _ _ hc hs hz => lazyStage0_found hc hs hz,
    fun _ hc hs hz hx => lazyStage0_init_now hc hs hz hx,
    fun _ hc hs hz hx => lazyStage0_init_branch hc hs hz hx,
    fun hc => lazyStage_later z hc, rfl⟩

/-- A lazy static is REGISTERED at most once per execution (while the initialiser may run more than once:
`Lazy.init_can_run_twice`).  The rest of the initialiser `lazyInitFinish z id` (any world, any `id`) with the
table `some l`:
(1) if `z` is registered (`l.lookup z = some sv`: another thread won the race) the table is left as it
is — the entry is never replaced, the loser's value is dropped — the counters are untouched and the result
is read from the REGISTERED value `sv` (its instance, the content of its cell), not from the loser's;
(2) if `z` is not registered the call ALWAYS succeeds (the race checks of the initialiser's own cell
accesses pass), pushes exactly one entry for `z` — instance id `id`, a fresh cell (object index = old length
of the object table) holding `40 + z` — and returns `id * 100 + 40 + z`;
(3) every stage of `lazy z`, in any state, keeps every entry of the table and adds at most one, for `z`,
and only if `z` had none. -/
theorem Lazy.published_once {w : World} {z : Nat} {l : List (Nat × LazyVal)}
    (hs : w.exec.lazyStatics = some l) :
    (∀ sv id, l.lookup z = some sv →
      w.lazyInitFinish z id = (initWritten w z).lazyRead sv ∧
      ∀ w' v, w.lazyInitFinish z id = .ok (w', v) →
        w'.exec.lazyStatics = some l ∧ w'.lazyInits = w.lazyInits ∧
        ∃ cs, (initWritten w z).exec.objs[sv.cell]? = some (.cell cs) ∧
          v = (sv.inst : Int) * 100 + cs.value) ∧
    (∀ id, l.lookup z = none → w.tid < w.ths.threads.length →
      ∃ w' sv cs, w.lazyInitFinish z id = .ok (w', (id : Int) * 100 + (40 + z)) ∧
        w'.exec.lazyStatics = some ((z, sv) :: l) ∧
        sv.inst = id ∧ sv.cell = w.exec.objs.length ∧ w'.lazyInits = w.lazyInits ∧
        w'.exec.objs.length = w.exec.objs.length + 1 ∧
        w'.exec.objs[sv.cell]? = some (.cell cs) ∧ cs.value = 40 + z ∧ cs.isWriting = false) ∧
    (∀ c w', w.lazyStage c z = .ok w' →
      StaticsGrow z (some l) w'.exec.lazyStatics ∧
      ∃ l', w'.exec.lazyStatics = some l' ∧
        ∀ z' sv', l.lookup z' = some sv' → l'.lookup z' = some sv') := by
  refine ⟨fun sv id hz => ⟨lazyInitFinish_found id hs hz, fun w' v h => ?_⟩, fun id hz hact => ?_,
    fun c w' h => ?_⟩
  · obtain ⟨hg, hi⟩ := lazyInitFinish_statics h
    rw [lazyInitFinish_found id hs hz] at h
    obtain ⟨cs, hc, _, _, rfl, rfl⟩ := lazyRead_ok h
    exact ⟨hs, rfl, cs, hc, rfl⟩
  · refine ⟨_, initVal w id, { initCell w with
        writeAccess := w.ths.caus.join w.ths.activeCausalityInc.caus, value := 40 + z,
        readAccess := (initCell w).readAccess.join
          ((initWorld w z id l).ths.syncLoad (initVal w id).sync .acq).activeCausalityInc.caus },
      lazyInitFinish_init_ok id hs hz hact, rfl, rfl, rfl, rfl, ?_, ?_, rfl, rfl⟩
    · rw [readWorld_objs, initWorld_objs]; simp
    · rw [readWorld_objs, initWorld_objs]
      show ((w.exec.objs ++ _).set w.exec.objs.length _)[w.exec.objs.length]? = _
      simp
  · have hg := lazyStage_statics h
    rw [hs] at hg
    exact ⟨hg, hg.keeps rfl⟩

/-- All threads see the same instance.  Any access (by any thread, in any world whose table has the entry
`sv` for `z`) — stage 0 of `lazy z`, and also the rest of an initialiser that lost the race — is the read
`lazyRead sv` of THAT entry.  A read that passes the race check adds no entry, initialises nothing, and
returns `sv.inst * 100 +` the content of the cell inside the value — the same instance, and (the content
being unchanged: the access only records a read) the same value as every other access.  Conversely the read
succeeds whenever the cell is there, not being written, and its last write happens-before the reader (after
`sync_load(Acquire)` of the entry's clock). -/
theorem Lazy.same_instance {w : World} {z : Nat} {l : List (Nat × LazyVal)} {sv : LazyVal}
    (hs : w.exec.lazyStatics = some l) (hz : l.lookup z = some sv) :
    (∀ c : TCtl, c.stage = 0 →
      w.lazyStage c z = (w.lazyRead sv).map fun r => r.1.complete (.val r.2)) ∧
    (∀ id, w.lazyInitFinish z id = (initWritten w z).lazyRead sv) ∧
    (∀ (x x' : World) (v : Int), x.lazyRead sv = .ok (x', v) →
      x'.exec.lazyStatics = x.exec.lazyStatics ∧ x'.lazyInits = x.lazyInits ∧
      x'.exec.objs.length = x.exec.objs.length ∧
      ∃ cs, x.exec.objs[sv.cell]? = some (.cell cs) ∧ v = (sv.inst : Int) * 100 + cs.value ∧
        x'.exec.objs[sv.cell]? = some (.cell
          { cs with
            readAccess := cs.readAccess.join (x.ths.syncLoad sv.sync .acq).activeCausalityInc.caus })) ∧
    (∀ (x : World) cs, x.exec.objs[sv.cell]? = some (.cell cs) → cs.isWriting = false →
      ((x.ths.syncLoad sv.sync .acq).activeCausalityInc.caus.ahead cs.writeAccess).isSome = false →
      ∃ x', x.lazyRead sv = .ok (x', (sv.inst : Int) * 100 + cs.value)) := by
  refine ⟨fun c hc => lazyStage0_found hc hs hz, fun id => lazyInitFinish_found id hs hz, ?_, ?_⟩
  · intro x x' v h
    obtain ⟨cs, hc, _, _, rfl, rfl⟩ := lazyRead_ok h
    refine ⟨rfl, rfl, ?_, cs, hc, rfl, ?_⟩
    · rw [readWorld_objs]; simp
    · rw [readWorld_objs]
      have hlt : sv.cell < x.exec.objs.length := (List.getElem?_eq_some_iff.1 hc).1
      simp [hlt]
  · intro x cs hc hw ha
    exact ⟨_, lazyRead_of hc hw ha⟩

/-! ## 6. `Lazy.init_hb_access` -/

/-- Initialisation happens-before every access.  Every access ends in `lazyRead sv` of the registered
value (`Lazy.stages`, `Lazy.same_instance`), and
(1) a successful `lazyRead sv` (`sync_load(Acquire)` of the entry's clock) leaves the reader's causality
above `sv.sync.hb`;
(2) after a successful `lazyInitFinish z id` the table has an entry `sv` for `z` whose clock is below the
calling thread's causality; and when this call was the registering one, that clock is `Sync.store … .ar`
by the initialiser (after its `synchronize`), hence above the initialiser's causality at the call — the
registering thread's release clock is joined by every later reader. -/
theorem Lazy.init_hb_access :
    (∀ (w w' : World) (sv : LazyVal) (v : Int), w.tid < w.ths.threads.length →
      w.lazyRead sv = .ok (w', v) → sv.sync.hb.le w'.ths.caus ∧ w.ths.caus.le w'.ths.caus) ∧
    (∀ (w w' : World) (z id : Nat) (v : Int), w.tid < w.ths.threads.length →
      w.lazyInitFinish z id = .ok (w', v) →
      ∃ l sv, w'.exec.lazyStatics = some l ∧ l.lookup z = some sv ∧
        sv.sync.hb.le w'.ths.caus ∧ w.ths.caus.le w'.ths.caus ∧
        (∀ l0, w.exec.lazyStatics = some l0 → l0.lookup z = none →
          l = (z, sv) :: l0 ∧ sv.inst = id ∧ sv.sync = w.sync.ths.syncStore Sync.new .ar ∧
          w.ths.caus.le sv.sync.hb)) := by
  constructor
  · intro w w' sv v hact h
    obtain ⟨cs, _, _, _, _, rfl⟩ := lazyRead_ok h
    exact readWorld_caus w sv cs hact
  · intro w w' z id v hact h
    have hact' : (initWritten w z).tid < (initWritten w z).ths.threads.length := by
      rw [initWritten_ths]
      show w.ths.activeCausalityInc.activeId < _
      unfold Threads.activeCausalityInc Threads.modifyActive
      rw [WB.length_modify, WB.activeId_modify]; exact hact
    rcases hs : w.exec.lazyStatics with _ | l0
    · rw [lazyInitFinish_shutdown z id hs] at h; cases h
    · rcases hz : l0.lookup z with _ | sv
      · rw [lazyInitFinish_init id hs hz] at h
        obtain ⟨cs, _, _, _, _, rfl⟩ := lazyRead_ok h
        obtain ⟨c1, c2⟩ := readWorld_caus (initWorld w z id l0) (initVal w id) cs hact'
        refine ⟨(z, initVal w id) :: l0, initVal w id, rfl, by simp [List.lookup], c1, ?_, ?_⟩
        · rw [initWorld_ths] at c2
          exact C12.VV.le_trans (caus_le_inc w.ths) c2
        · intro l0' e0 _
          cases e0
          exact ⟨rfl, rfl, rfl, initVal_hb w id⟩
      · rw [lazyInitFinish_found id hs hz] at h
        obtain ⟨cs, _, _, _, _, rfl⟩ := lazyRead_ok h
        obtain ⟨c1, c2⟩ := readWorld_caus (initWritten w z) sv cs hact'
        refine ⟨l0, sv, hs, hz, c1, ?_, ?_⟩
        · rw [initWritten_ths] at c2
          exact C12.VV.le_trans (caus_le_inc w.ths) c2
        · intro l0' e0 hz'
          cases e0
          rw [hz] at hz'; cases hz'

/-! ## 7. `Lazy.dropped_at_end`, `Lazy.shutdown_access_panics`, `Lazy.reinit_next_iteration` -/

/-- The main thread's epilogue (`t = 0`, before the common tail): `lazy_statics.drop()` — the table
becomes `none` — and the thread enters the common tail (`fin := 10`). -/
theorem Lazy.dropped_at_end {w w' : World} {c : TCtl} (ht : w.tid = 0) (hf : c.fin < 10)
    (h : w.runEpilogue c = .ok w') :
    w'.exec.lazyStatics = none ∧
    w' = ({ w with exec := { w.exec with lazyStatics := none } } : World).modCtl w.tid
      (fun c => { c with fin := 10 }) := by
  rw [Sy.runEpilogue_main w c ht hf] at h
  cases h
  exact ⟨rfl, rfl⟩

/-- an access after the table was dropped (a thread that outlives the main closure, or a
thread-local destructor of the main thread) panics: "attempted to access lazy_static during
shutdown" — at the first `try_get` (stage 0) and at the second one (the rest of an initialiser that was at
its scheduling point when the table was dropped); `lazystat` reports no live instance. -/
theorem Lazy.shutdown_access_panics (w : World) (c : TCtl) (z : Nat)
    (hs : w.exec.lazyStatics = none) :
    w.lazyStatics = .error .lazyShutdown ∧
    (c.stage = 0 → w.lazyStage c z = .error .lazyShutdown ∧
      w.runOp c (.lazy z) = .error .lazyShutdown) ∧
    (∀ id, w.lazyInitFinish z id = .error .lazyShutdown) ∧
    w.runOp c (.lazyStat z) = .ok (w.complete (.val 0)) := by
  refine ⟨lazyStatics_none hs, fun hc => ⟨lazyStage0_shutdown z hc hs, lazyStage0_shutdown z hc hs⟩,
    fun id => lazyInitFinish_shutdown z id hs, ?_⟩
  simp only [World.runOp, hs]
  rfl

/-- The next iteration starts afresh: `Execution::step` resets the table to `some []`
(`C13.step_resets`), `World.init` keeps it and starts with all harness counters at zero and no
thread-local anywhere; so the first access to each lazy static in the new iteration starts the initialiser
again, as instance 1: without an atomic it registers instance 1 at once; with one it reaches its scheduling
point with stage 1, and the rest of the initialiser run on the (still empty) table registers instance 1. -/
theorem Lazy.reinit_next_iteration {e e' : Exec} {prog : Prog} {w : World}
    (hstep : e.step = some e') (hinit : World.init prog e' = .ok w) :
    w.exec.lazyStatics = some [] ∧ w.lazyInits = [0, 0] ∧ w.tlsInits = [0, 0] ∧
    w.tlsDrops = [0, 0] ∧ w.ctl = [{}] ∧
    ∀ z (c : TCtl), c.stage = 0 →
      (prog.cfg.nAtomics = 0 → ∃ (w1 : World) (sv : LazyVal), w.lazyStage c z = .ok (w1.complete (.val (100 + (40 + z)))) ∧
        w1.exec.lazyStatics = some [(z, sv)] ∧ sv.inst = 1 ∧ w1.lazyInits = w.lazyInits.set z 1) ∧
      (prog.cfg.nAtomics ≠ 0 →
        w.lazyStage c z = (bumped w z).primStart 0 (.rmw (.add 1) .rlx .rlx) 1 ∧
        (bumped w z).lazyInits = w.lazyInits.set z 1) ∧
      (∃ (w1 : World) (sv : LazyVal), w.lazyInitFinish z 1 = .ok (w1, 100 + (40 + z)) ∧
        w1.exec.lazyStatics = some [(z, sv)] ∧ sv.inst = 1) := by
  obtain ⟨_, hths, _, hls, _, _⟩ := C13.step_resets hstep
  obtain ⟨i1, i2, i3, i4, i5, _, i7, i8⟩ := init_facts hinit
  rw [hls] at i1
  refine ⟨i1, i3, i4, i5, i7, ?_⟩
  intro z c hc
  have hact : w.tid < w.ths.threads.length := by
    show w.exec.threads.activeId < w.exec.threads.threads.length
    rw [i2, hths]; exact Nat.zero_lt_one
  have hzero : w.lazyInits.getD z 0 = 0 := by
    rw [i3]
    rcases z with _ | _ | z <;> rfl
  have hcfg : w.cfg = prog.cfg := by show w.prog.cfg = _; rw [i8]
  refine ⟨fun hx => ?_, fun hx => ?_, ?_⟩
  · have hb : (bumped w z).exec.lazyStatics = some [] := i1
    obtain ⟨_, h2, _⟩ := Lazy.published_once (w := bumped w z) (z := z) hb
    obtain ⟨w', sv, cs, h1, h2, h3, _, h5, _⟩ := h2 (w.lazyInits.getD z 0 + 1) (by rfl) hact
    rw [lazyStage0_init_now hc i1 (by rfl) (by rw [hcfg]; exact hx), h1]
    rw [hzero] at h3
    refine ⟨w', sv, ?_, h2, h3, ?_⟩
    · show Except.ok (w'.complete (.val _)) = _
      rw [hzero]; rfl
    · rw [h5]; show w.lazyInits.set z (w.lazyInits.getD z 0 + 1) = _
      rw [hzero]
  · rw [lazyStage0_init_branch hc i1 (by rfl) (by rw [hcfg]; exact hx), hzero]
    refine ⟨rfl, ?_⟩
    show w.lazyInits.set z (w.lazyInits.getD z 0 + 1) = _
    rw [hzero]
  · obtain ⟨_, h2, _⟩ := Lazy.published_once (w := w) (z := z) i1
    obtain ⟨w', sv, cs, h1, h2, h3, _⟩ := h2 1 (by rfl) hact
    exact ⟨w', sv, by rw [h1]; rfl, h2, h3⟩

/-! ## 8. non-vacuity -/

namespace C17.Ex

/-- a fresh two-thread world: thread 0 active, thread 1 spawned (body 1), no objects -/
def w0 : World :=
  { prog := { cfg := {}, threads := [[.tls 0, .lazy 0], [.tls 0, .lazy 0]] }
    exec := { path := Path.new 1000 none false
              threads := { threads := [{ causality := VV.ofList [1, 0, 0, 0, 0] },
                                       { causality := VV.ofList [1, 1, 0, 0, 0] }], active := some 0 } }
    ctl := [{ body := 0 }, { body := 1 }]
    spawned := [(1, 1, 0)] }

/-- the same world with thread 1 active -/
def asThread1 (w : World) : World := w.setThs { w.ths with active := some 1 }

end C17.Ex

open C17.Ex in
/-- Thread-locals, concretely.  Thread 0's first `K0.with` gets id 1 and a second access id 1 again
(no re-initialisation: the counter stays 1); thread 1's first access to the same key gets id 11
(counter 2);
thread 1's access does not touch thread 0's record.  After `drop_locals` by thread 0 its entry is
destroyed, the drop counter of key 0 is 1, `try_with` reports `AccessError` and `with` panics. -/
theorem Tls.example :
    (w0.tlsGet 0).2 = some 1 ∧
    ((w0.tlsGet 0).1.tlsGet 0).2 = some 1 ∧ ((w0.tlsGet 0).1.tlsGet 0).1.tlsInits = [1, 0] ∧
    ((asThread1 (w0.tlsGet 0).1).tlsGet 0).2 = some 11 ∧
    ((asThread1 (w0.tlsGet 0).1).tlsGet 0).1.tlsInits = [2, 0] ∧
    (((asThread1 (w0.tlsGet 0).1).tlsGet 0).1.ctlOf 0).locals = [(0, some 1)] ∧
    (((asThread1 (w0.tlsGet 0).1).tlsGet 0).1.ctlOf 1).locals = [(0, some 11)] ∧
    ((w0.tlsGet 0).1.dropLocals.ctlOf 0).locals = [(0, none)] ∧
    (w0.tlsGet 0).1.dropLocals.tlsDrops = [1, 0] ∧
    (((w0.tlsGet 0).1.dropLocals.runOp {} (.tlsTry 0)).toOption.map
      fun w' => w'.events.head?.map (·.ret)) = some (some .accessError) ∧
    (match (w0.tlsGet 0).1.dropLocals.runOp {} (.tls 0) with
      | .error .tlsDestroyed => true | _ => false) = true ∧
    ((w0.runOp {} (.tlsNest 0 1)).toOption.map
      fun w' => (w'.events.head?.map (·.ret), (w'.ctlOf 0).locals, w'.tlsInits)) =
      some (some (.val 1), [(1, some 1), (0, some 1)], [1, 1]) := by
  refine ⟨?_, ?_, ?_, ?_, ?_, ?_, ?_, ?_, ?_, ?_, ?_, ?_⟩ <;> decide +kernel

open C17.Ex in
/-- Lazy statics, concretely (`w0` declares no atomic: the initialiser has no scheduling point).  Thread 0's
first `lazy 0` initialises instance 1 and returns `1 * 100 + 40`; thread 1's access afterwards returns the
same `140`, initialises nothing (the counter stays 1, the table keeps its one entry) and thread 1's
causality `[1,1,0,0,0]` becomes `[2,2,0,0,0]`, above the published clock `[2,0,0,0,0]` of the initialiser;
the rest of an initialiser with instance id 2 run by thread 1 on that table (it lost the race) creates its
cell (2 objects) but registers nothing and returns the winner's `140`; after the main thread's epilogue the
table is gone and an access panics. -/
theorem Lazy.example :
    ((w0.lazyStage {} 0).toOption.map fun r => (r.events.head?.map (·.ret), r.lazyInits)) =
      some (some (.val 140), [1, 0]) ∧
    ((w0.lazyStage {} 0).toOption.map fun r =>
      r.exec.lazyStatics.map (·.map fun e => (e.1, e.2.inst, e.2.cell, e.2.sync.hb))) =
      some (some [(0, 1, 0, VV.ofList [2, 0, 0, 0, 0])]) ∧
    ((w0.lazyStage {} 0).toOption.bind fun r =>
      ((asThread1 r).lazyStage { body := 1 } 0).toOption.map fun r2 =>
        (r2.events.head?.map (·.ret), r2.lazyInits, r2.exec.lazyStatics.map (·.length), r2.ths.caus)) =
      some (some (.val 140), [1, 0], some 1, VV.ofList [2, 2, 0, 0, 0]) ∧
    ((w0.lazyStage {} 0).toOption.bind fun r =>
      ((asThread1 r).lazyInitFinish 0 2).toOption.map fun r2 =>
        (r2.2, r2.1.lazyInits, r2.1.exec.lazyStatics.map (·.map fun e => e.2.inst),
          r2.1.exec.objs.length)) =
      some (140, [1, 0], some [1], 2) ∧
    ((w0.runEpilogue {}).toOption.map fun w' => w'.exec.lazyStatics.isSome) = some false ∧
    ((w0.runEpilogue {}).toOption.map fun w' =>
      match w'.lazyStage {} 0 with | .error .lazyShutdown => true | _ => false) = some true := by
  refine ⟨?_, ?_, ?_, ?_, ?_, ?_⟩ <;> decide +kernel

/-! ## 9. the initialiser can run twice -/

namespace C17.Twice

/-- `cfg x=1 | T0: spawn 1; lazy 0; join 1; ld 0 rlx | T1: ld 0 rlx; lazy 0` (the text `Prog.parse`
reads; the parser works on strings and does not reduce in the kernel, so the parsed program is given).  The
initialiser of lazy static 0 performs `x0.fetch_add(1, Relaxed)`; T0's last load (after the join) reads how
often it ran. -/
def prog : Prog :=
  { cfg := { nAtomics := 1 },
    threads := [[.spawn 1, .lazy 0, .join 1, .atom 0 (.load .rlx)],
                [.atom 0 (.load .rlx), .lazy 0]] }

/-- what we look at in an iteration: the verdict, and the results of the two `lazy 0` (`pc = 1`) and of
T0's last load (`pc = 3`), in execution order, as (thread, result) -/
def obs (it : Iteration) : Option Panic × List (Nat × Ret) :=
  (it.result.term,
    it.result.events.filterMap fun e => if e.pc = 3 ∨ e.pc = 1 then some (e.tid, e.ret) else none)

/-- the final world of the iteration that replays path `p` (the harness counters live in the world) -/
def finalWorld (p : Path) : Option World :=
  match World.init prog { Check.initExec prog.cfg with path := p } with
  | .ok w0 => some (World.runLoop 10000 w0).1
  | .error _ => none

end C17.Twice

open C17.Twice in
/-- The negative fact: "initialised at most once per execution" does NOT hold for the initialiser (it holds
for the registration, `Lazy.published_once`).  The exploration of `C17.Twice.prog` completes after 7
iterations, none panics; in iterations 3, 4 and 5 both threads find the static unregistered at their first
`try_get`, both run the initialiser — T0's last load of `x0` returns 2 and the harness counter
`lazyInits[0]` ends at 2 — and yet both accesses return the SAME instance (`240`: instance 2 won; `140`:
instance 1 won): the loser's value is dropped.  In the other iterations the initialiser runs once. -/
theorem Lazy.init_can_run_twice :
    (Check.run prog 100).2 = .completed ∧
    (Check.run prog 100).1.map obs =
      [(none, [(0, .val 140), (1, .val 140), (0, .val 1)]),
       (none, [(0, .val 140), (1, .val 140), (0, .val 1)]),
       (none, [(1, .val 240), (0, .val 240), (0, .val 2)]),
       (none, [(1, .val 240), (0, .val 240), (0, .val 2)]),
       (none, [(0, .val 140), (1, .val 140), (0, .val 2)]),
       (none, [(0, .val 140), (1, .val 140), (0, .val 1)]),
       (none, [(0, .val 140), (1, .val 140), (0, .val 1)])] ∧
    (Check.run prog 100).1.map (fun it => (finalWorld it.start).map (·.lazyInits)) =
      [some [1, 0], some [1, 0], some [2, 0], some [2, 0], some [2, 0], some [1, 0], some [1, 0]] := by
  refine ⟨?_, ?_, ?_⟩ <;> decide +kernel

end LoomVerif

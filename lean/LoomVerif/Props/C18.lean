/-
Property C18: "Spin loops that yield make progress and lose no exit outcome …"

The local pillars on the loom side: a thread that called `yield_now` is de-prioritised (chosen
only when no thread is runnable), is recorded as `yield` in the pushed entry and can never become
a backtrack alternative there, is re-activated by the next `schedule`; the "seen before yield"
pruning rule of atomic loads; the branch limit.  Vocabulary as in `Props/C01.lean`
(`Exec.choice`, `Exec.seedSt`, `Sched.MarkSpec`).
-/
import LoomVerif.Proofs.C18Yield

namespace LoomVerif.C18
open LoomVerif

/-! ## 1. a yielded thread is de-prioritised -/

/-- `Sched.yield_deprioritised`.
(a) After `yield_now` the thread is in state `yield` (`Thread.setYield`), which is neither
runnable nor terminated.
(b) A thread in `yield` state is chosen by `schedule` only if no thread is runnable, and then it
is the first yielded thread.
(c) In the entry pushed by `schedule` every yielded thread other than the chosen one is recorded
as `yield`, the chosen one as `active` (the general rule is `Exec.seed_states` of C01).
(d) `Schedule::backtrack` never changes a `yield` mark (`Thread::explore` only maps
`skip ↦ pending`): a yielded thread is never added as a backtrack alternative at that entry. -/
theorem Sched.yield_deprioritised :
    -- (a)
    (∀ (t : Thread) (id : Nat),
      (t.setYield id).state = .yield ∧ (t.setYield id).isYield = true ∧
      (t.setYield id).isRunnable = false ∧ (t.setYield id).isTerminated = false ∧
      (t.setYield id).lastYield = some (t.causality.get id) ∧
      (t.setYield id).yieldCount = t.yieldCount + 1) ∧
    -- (b)
    (∀ (ths : Threads), ths.activeId < ths.threads.length →
      ∀ (i : Nat) (th : Thread), ths.threads[i]? = some th → th.isYield = true →
        Exec.choice ths = some i →
        (∀ t ∈ ths.threads, t.isRunnable = false) ∧
        findIdx? Thread.isYield ths.threads = some i) ∧
    -- (c)
    (∀ (e e' : Exec) (pk b : Bool), e.path.isTraversed = true →
      e.threads.activeId < e.threads.threads.length → e.schedule pk = .ok (e', b) →
      ∃ p1 s, e.dporMarks = .ok p1 ∧ e'.path.branches = p1.branches ++ [.sched s] ∧
        s.activeIdx = e'.threads.active ∧
        ∀ (i : Nat) (th : Thread), e.threads.threads[i]? = some th → th.isYield = true →
          s.threads[i]? = some (if e'.threads.active = some i then .active else .yield)) ∧
    -- (d)
    (ThSt.yield.explore = .yield ∧ (∀ t : ThSt, t.explore = .pending ↔ t = .skip ∨ t = .pending)) ∧
    (∀ (s s' : Sched) (tid : Nat) (bound : Option Nat), s.backtrack tid bound = .ok s' →
      ∀ j : Nat, s.threads[j]? = some .yield → s'.threads[j]? = some .yield) := by
  refine ⟨Thread.setYield_spec, ?_, ?_, ⟨rfl, fun _ => ThSt.explore_eq_pending⟩, ?_⟩
  · intro ths hc i th hi hy hch
    exact Exec.choice_yield hc hi hy hch
  · intro e e' pk b ht hc h
    obtain ⟨p1, s, hd, hb, ha, hst⟩ := Exec.pushed_entry_states ht hc h
    refine ⟨p1, s, hd, hb, ha, ?_⟩
    intro i th hi hy
    rw [hst i, hi]
    simp only [Exec.seedSt, hy, if_true]
  · intro s s' tid bound h j hj
    exact LoomVerif.Sched.backtrack_yield_kept h j hj

/-! ## 2. yielded threads are re-activated -/

/-- `Sched.yield_reactivated`: the last loop of `schedule` sets every thread that is in `yield`
state and is not the chosen thread `nid` back to `runnable` and leaves all other threads
alone; the chosen thread keeps its state (only its DPOR clock may change).  Hence after
`schedule` no thread other than the chosen one is in `yield` state. -/
theorem Sched.yield_reactivated {e e' : Exec} {pk b : Bool} {nid : Nat}
    (h : e.schedule pk = .ok (e', b)) (hn : e'.threads.active = some nid) :
    e'.threads.threads.length = e.threads.threads.length ∧
    (∀ i th, e.threads.threads[i]? = some th →
      ∃ th', e'.threads.threads[i]? = some th' ∧
        (i ≠ nid → th' = if th.isYield then th.setRunnable else th) ∧
        (i = nid → th' = { th with dporVV := th'.dporVV })) ∧
    (∀ i th', e'.threads.threads[i]? = some th' → i ≠ nid → th'.isYield = false) :=
  ⟨(Exec.yield_reactivated h hn).1, (Exec.yield_reactivated h hn).2,
   Exec.no_yield_after_schedule h hn⟩

/-! ## 3. the "seen before yield" pruning rule -/

/-- `Atomic.seen_before_yield_prune`: `loadBlocked a ths o i j` (store `i` is withheld from a
load because of the later store `j`) is the disjunction of three reasons: `j` has been seen by
the current thread; `i` was first seen by the current thread before its last yield; both are
`SeqCst` and so is the load.  The yield reason holds iff the thread has yielded
(`lastYield = some ly`) and first saw store `i` at a version `v ≤ ly`. -/
theorem Atomic.seen_before_yield_prune (a : Atomic) (ths : Threads) (o : Ord) (i j : Nat) :
    (a.loadBlocked ths o i j = true ↔
      (a.storeAt j).firstSeen.isSeenByCurrent ths = true ∨
      (a.storeAt i).firstSeen.isSeenBeforeYield ths = true ∨
      (o.isSC = true ∧ (a.storeAt i).seqCst = true ∧ (a.storeAt j).seqCst = true)) ∧
    ((a.storeAt i).firstSeen.isSeenBeforeYield ths = true ↔
      ∃ ly v, ths.activeT.lastYield = some ly ∧
        (a.storeAt i).firstSeen.getD ths.activeId none = some v ∧ v ≤ ly) :=
  ⟨LoomVerif.Atomic.loadBlocked_iff_isSC a ths o i j, FirstSeen.isSeenBeforeYield_iff _ ths⟩

/-! ## 4. the branch limit -/

/-- `Path.branch_limit`: on a stack that has reached its capacity every call that would push an
entry (not made while panicking) fails with `branchLimit`; so does `schedule`.  Together with
`C14.iteration_frame` (calls never shrink the stack within an iteration) an await loop that can
never be satisfied, which pushes at least one entry per round, is cut off after at most `cap`
pushes. -/
theorem Path.branch_limit (p : Path) (h : p.cap ≤ p.branches.length) :
    (∀ seed, p.pushLoad seed false = .error .branchLimit) ∧
    (p.isTraversed = true → p.branchSpurious false = .error .branchLimit) ∧
    (p.isTraversed = true → ∀ seed, p.branchThread seed false = .error .branchLimit) ∧
    (∀ (e : Exec) (p1 : Path), e.path = p → e.threads.isActive = true → e.dporMarks = .ok p1 →
      p.isTraversed = true → e.schedule false = .error .branchLimit) := by
  obtain ⟨h1, h2, h3⟩ := LoomVerif.Path.push_at_limit p h
  refine ⟨h1, h2, h3, ?_⟩
  intro e p1 he ha hd ht
  subst he
  exact Exec.schedule_at_limit ha hd ht h

/-- … and calls made while not panicking never exceed the capacity. -/
theorem Path.call_len_ok {p p' : Path} (hc : Path.Call false p p') (hl : p.LenOk) : p'.LenOk :=
  hc.frame.2 rfl hl

end LoomVerif.C18

/-
DATA RACES ARE REPORTED EXACTLY (property C04, for the lock fragment of the DSL): the twin panics with a causality
violation at a cell access exactly when the corresponding step of the reference semantics `Spec/SC.lean` stops with
a race verdict.

`Props/Refine.lean` shows that every run of the twin over the lock fragment (`spawn`, `join`, `lock`, `unlock`,
`tryLock`, `cellRead`, `cellWrite`, `ifEq`) is an execution of the reference semantics as far as VALUES and BLOCKING
go.  What it leaves out is the race verdict: the twin detects races with loom's clocks (`Thread.causality`,
incremented by `rt::synchronize` at cell accesses and by `new_thread` at `spawn`; joined with the `Synchronize` clock
of a mutex at `post_acquire`, published there at `release_lock`; handed to a new thread at `spawn`; published in the
`JoinHandle`'s `Notify` when a thread ends and acquired by `join` when its wait returns — `Notify::notify` itself
only wakes the joiner and hands no clock to anybody: repair of finding F26), the reference with textbook
vector clocks that tick at every operation.  The two clock systems are different functions of the run; they agree
on every race check.

The relation `Race.RC w s` (`Proofs/RaceStep.lean`) extends `Refine.R`: besides `R w (data s)` it holds two clock
systems (`Proofs/RaceClocks.lean`), one describing the clocks of `w`, one those of `s`, both satisfying the textbook
invariants of vector clocks, and linked by: "for every thread and every cell, the LAST access of the thread to the
cell is known to a given thread / mutex clock of the twin iff it is known to the corresponding clock of the
reference" (`Race.XInv`).  The race checks compare exactly that (`Race.race_agree`).

Hypotheses, all explicit:
* `Refine.WF prog` (as in `Props/Refine.lean`);
* `prog.threads.length ≤ 5` (`MAX_THREADS`: a version vector has 5 slots; beyond that `VV.inc` is the identity in the
  twin AND in the reference, and neither detects anything);
* `Race.FreshClocks exec`: the thread table at the start of an iteration, WITH its content (the main thread alone,
  active, all clocks zero, no pending operation), as `Exec.new` and `Exec.step` produce it
  (`freshClocks_new`, `freshClocks_step`);
* for the step theorems: the stepping thread is the active thread of a world in which some thread is active
  (`w.ths.isActive`; `release_lock` does not publish when no thread is active) and it has a control record
  (`w.tid < w.ctl.length`; both hold along every run, `Refine.run_sane`).

Headlines: `Race.twin_panics_iff_reference_races`, `Race.only_cell_accesses_panic_with_causality`,
`Race.step_simulation_with_clocks`, `Race.reported_race_is_real`, `Race.no_missed_race_on_this_path`
(which strengthens `Refine.run_is_SC_execution`: its second disjunct is gone), and their `runIter` forms.
-/
import LoomVerif.Proofs.RaceRun
import LoomVerif.Props.Refine
import LoomVerif.Model.Check

namespace LoomVerif
namespace Race
open Refine

/-! ## 1. the race checks are exact -/

/-- the active thread is about to execute a cell access of a declared cell -/
def AtCell (w : World) : Prop :=
  (∃ c, opAt w = some (.cellRead c) ∧ c < w.prog.cfg.nCells) ∨
  (∃ c v, opAt w = some (.cellWrite c v) ∧ c < w.prog.cfg.nCells)

/-- **The twin panics with a causality violation exactly when the reference step stops with a race**: under
`RC w s`, when the active thread is about to execute `cellRead c` / `cellWrite c v`, the stage panics with
`.causality k` iff THE step of the reference semantics of the body it runs is `[(s.tick t).stop (.race k)]` — the
state reached by the tick of the thread, stopped with verdict `race k` — with the same `k` (`9`: read after an
unordered write; `10`: write after an unordered write; `11`: write after an unordered read; when both `10` and `11`
apply, both sides report `10`). -/
theorem twin_panics_iff_reference_races {w : World} {s : SC.St} (hRC : RC w s) (hact : w.tid < w.ctl.length)
    (hcell : AtCell w) (k : Nat) :
    w.stepActive = .error (.causality k) ↔
      SC.step w.prog s (body w w.tid) = [(s.tick (body w w.tid)).stop (.race k)] := by
  rcases hcell with ⟨c, hop, hc⟩ | ⟨c, v, hop, hc⟩
  · exact read_panics_iff_races hRC hact hop hc k
  · exact write_panics_iff_races hRC hact hop hc k

/-- when it does not panic, the stage of a cell access succeeds and the reference step carries no verdict: a cell
access of the twin has exactly two outcomes, a causality violation or success (no `cellBusy`, no internal error) -/
theorem cell_access_outcomes {w : World} {s : SC.St} (hRC : RC w s) (hact : w.tid < w.ctl.length)
    (hcell : AtCell w) :
    (∃ k, w.stepActive = .error (.causality k) ∧ (k = 9 ∨ k = 10 ∨ k = 11)) ∨
    (∃ w' s', w.stepActive = .ok w' ∧ SC.step w.prog s (body w w.tid) = [s'] ∧ s'.verdict = none) := by
  rcases hcell with ⟨c, hop, hc⟩ | ⟨c, v, hop, hc⟩
  · rw [stepActive_eq_runOp hop]
    rcases clk_cellRead hRC hact hop hc with ⟨he, _⟩ | ⟨w'', hw'', hr⟩
    · exact .inl ⟨9, he, .inl rfl⟩
    · obtain ⟨_, _, _, _, s', hs', hv, _⟩ := hr
      exact .inr ⟨w'', s', hw'', hs', hv⟩
  · rw [stepActive_eq_runOp hop]
    rcases clk_cellWrite hRC hact hop hc with ⟨he, _⟩ | ⟨he, _⟩ | ⟨w'', hw'', hr⟩
    · exact .inl ⟨10, he, .inr (.inl rfl)⟩
    · exact .inl ⟨11, he, .inr (.inr rfl)⟩
    · obtain ⟨_, _, _, _, s', hs', hv, _⟩ := hr
      exact .inr ⟨w'', s', hw'', hs', hv⟩

/-- **Only the race checks of `cellRead` / `cellWrite` panic with a causality violation**: no other stage of a
fragment program does (not the scheduler, not `post_acquire`, `release_lock`, `new_thread`, `Notify`) -/
theorem only_cell_accesses_panic_with_causality {w : World} {s : SC.St} (hwf : WF w.prog) (hRC : RC w s)
    (hact : w.tid < w.ctl.length) {k : Nat} (h : w.stepActive = .error (.causality k)) : AtCell w :=
  causality_only_at_cells hwf hRC hact h

/-! ## 2. the relation is an invariant -/

/-- **One-step simulation with clocks** (`Refine.step_simulation` with `RC` for `R`): a successful stage of the
active thread leads to a world related to the same reference state (stuttering), or to a world related to THE
successor `s'` of the reference step of the body the thread runs — a step of `SC.step` of a thread that is
`SC.enabled`, which carries no verdict (`RC w' s'` contains `s'.verdict = none`): the reference does not see a race
where the twin does not. -/
theorem step_simulation_with_clocks {w w' : World} {s : SC.St} (hwf : WF w.prog) (hRC : RC w s)
    (hact : w.tid < w.ctl.length) (hactive : w.ths.isActive = true) (h : w.stepActive = .ok w') :
    w'.prog = w.prog ∧
    ((RC w' s ∧ w'.events = w.events) ∨
     ∃ s', SC.enabled w.prog s (body w w.tid) = true ∧ s' ∈ SC.step w.prog s (body w w.tid) ∧ RC w' s' ∧
       ∃ l, (l, data s') ∈ SCData.stepL w.prog (data s) (body w w.tid) ∧
         w'.events.map triple = SCData.label (body w w.tid) l ++ w.events.map triple) :=
  step_clock hwf hRC hact hactive h

/-- the relation holds initially -/
theorem initially_related {prog : Prog} {exec : Exec} {w0 : World} (hwf : WF prog)
    (hnt : prog.threads.length ≤ 5) (hfresh : FreshClocks exec) (hinit : World.init prog exec = .ok w0) :
    RC w0 (SC.init prog) :=
  (init_RC hwf hnt hfresh hinit).1

theorem RC.verdict_none {w : World} {s : SC.St} (h : RC w s) : s.verdict = none := h.fs.1
theorem RC.related {w : World} {s : SC.St} (h : RC w s) : R w (data s) := h.r

/-! ## 3. runs -/

/-- **A reported race is real**: a run of the twin that ends with the panic `causality k` corresponds to an execution
of the reference semantics that ends with the verdict `race k`: there is an execution `SC.init prog →* s` of
`Spec/SC.lean` (every step a step of an enabled thread) whose data is related to the world `w` in which the
panicking stage started and whose trace of results is the event log of the twin, and the next step of the body `t`
of the thread that panicked — enabled in `s` — is `[(s.tick t).stop (.race k)]`. -/
theorem reported_race_is_real {prog : Prog} {exec : Exec} {w0 w : World} {fuel k : Nat}
    (hwf : WF prog) (hnt : prog.threads.length ≤ 5) (hfresh : FreshClocks exec)
    (hinit : World.init prog exec = .ok w0)
    (hrun : World.runLoop fuel w0 = (w, some (.causality k))) :
    ∃ s t, SCExec prog (SC.init prog) s ∧ RC w s ∧
      SCData.Run prog (data (SC.init prog)) (w.events.reverse.map triple) (data s) ∧
      SC.enabled prog s t = true ∧ SC.step prog s t = [(s.tick t).stop (.race k)] ∧
      SCExec prog (SC.init prog) ((s.tick t).stop (.race k)) := by
  obtain ⟨hRC, hp, hev⟩ := init_RC hwf hnt hfresh hinit
  have := runLoop_clock prog hwf fuel w0 w (SC.init prog) _ hp hRC (init_inRange hfresh.fresh hinit)
    (.nil _) (by rw [hev]; exact SCData.Run.nil _) hrun
  obtain ⟨s, t, hex, hRC', hrun', _, hen, hst⟩ := this
  exact ⟨s, t, hex, hRC', hrun', hen, hst, .step hex hen (by rw [hst]; exact List.mem_singleton.2 rfl)⟩

/-- **No race is missed on this path**: a run of the twin that completes corresponds to a full execution of
`Spec/SC.lean` — every step `SC.step` of a thread that is `SC.enabled` — that reaches no verdict: no step of it stops
with a race.  (`Refine.run_is_SC_execution` without its second disjunct "or a race verdict on a prefix".) -/
theorem no_missed_race_on_this_path {prog : Prog} {exec : Exec} {w0 w : World} {fuel : Nat}
    (hwf : WF prog) (hnt : prog.threads.length ≤ 5) (hfresh : FreshClocks exec)
    (hinit : World.init prog exec = .ok w0) (hrun : World.runLoop fuel w0 = (w, none)) :
    ∃ s, SCExec prog (SC.init prog) s ∧ s.verdict = none ∧ R w (data s) ∧
      SCData.Run prog (data (SC.init prog)) (w.events.reverse.map triple) (data s) ∧ RC w s := by
  obtain ⟨hRC, hp, hev⟩ := init_RC hwf hnt hfresh hinit
  have := runLoop_clock prog hwf fuel w0 w (SC.init prog) _ hp hRC (init_inRange hfresh.fresh hinit)
    (.nil _) (by rw [hev]; exact SCData.Run.nil _) hrun
  obtain ⟨s, hex, hRC', hrun'⟩ := this
  exact ⟨s, hex, hRC'.fs.1, hRC'.r, hrun', hRC'⟩

/-- every verdict-free prefix: along the execution of `no_missed_race_on_this_path` no intermediate state carries a
verdict either (an execution stops at its first verdict: `SC.enabled` is false once a verdict is set) -/
theorem scexec_verdict_none {p : Prog} {s0 s : SC.St} (h : SCExec p s0 s) (hv : s.verdict = none) :
    s0.verdict = none := by
  induction h with
  | nil => exact hv
  | step hex hen _ ih =>
    apply ih
    unfold SC.enabled at hen
    cases hv1 : (_ : SC.St).verdict with
    | none => rfl
    | some v => rw [hv1] at hen; simp at hen

/-! ### the same for `runIter` -/

/-- the leak check does not report causality violations -/
theorem checkForLeaks_not_causality (os : Objs) (k : Nat) : os.checkForLeaks ≠ .error (.causality k) := by
  induction os with
  | nil => intro h; cases h
  | cons o os ih =>
    cases o <;> simp only [Objs.checkForLeaks]
    all_goals first
      | exact ih
      | (split
         · intro h; cases h
         · exact ih)

/-- a completed iteration: its events are the trace of a reference execution without race verdict -/
theorem runIter_no_missed_race {prog : Prog} {exec : Exec} {fuel : Nat}
    (hwf : WF prog) (hnt : prog.threads.length ≤ 5) (hfresh : FreshClocks exec)
    (hterm : (runIter prog exec fuel).term = none) :
    ∃ s, SCExec prog (SC.init prog) s ∧ s.verdict = none ∧
      SCData.Run prog (data (SC.init prog)) ((runIter prog exec fuel).events.map triple) (data s) := by
  unfold runIter at hterm ⊢
  cases hi : World.init prog exec with
  | error e => rw [hi] at hterm; cases hterm
  | ok w0 =>
    rw [hi] at hterm
    simp only at hterm ⊢
    cases hr : World.runLoop fuel w0 with
    | mk w r =>
      rw [hr] at hterm
      cases r with
      | some e => cases hterm
      | none =>
        obtain ⟨s, h1, h2, _, h4, _⟩ := no_missed_race_on_this_path hwf hnt hfresh hi hr
        simp only
        refine ⟨s, h1, h2, ?_⟩
        split <;> exact h4

/-- an iteration that reports a race: there is a reference execution that ends with that race verdict -/
theorem runIter_reported_race_is_real {prog : Prog} {exec : Exec} {w0 : World} {fuel k : Nat}
    (hwf : WF prog) (hnt : prog.threads.length ≤ 5) (hfresh : FreshClocks exec)
    (hinit : World.init prog exec = .ok w0)
    (hterm : (runIter prog exec fuel).term = some (.causality k)) :
    ∃ s, SCExec prog (SC.init prog) s ∧ s.verdict = some (.race k) := by
  unfold runIter at hterm
  rw [hinit] at hterm
  simp only at hterm
  cases hr : World.runLoop fuel w0 with
  | mk w r =>
    rw [hr] at hterm
    cases r with
    | some e =>
      simp only at hterm
      cases hterm
      obtain ⟨s, t, _, _, _, _, _, hex⟩ := reported_race_is_real hwf hnt hfresh hinit hr
      exact ⟨_, hex, rfl⟩
    | none =>
      exfalso
      simp only at hterm
      split at hterm
      · next e he =>
        -- the leak check does not report causality violations
        cases hterm
        exact checkForLeaks_not_causality _ _ he
      · cases hterm

/-! ## 4. non-vacuity -/

namespace Example

/-- an unsynchronised write / read pair -/
def racy : Prog :=
  { cfg := { nCells := 1 }, threads := [[.spawn 1, .cellWrite 0 1, .join 1], [.cellRead 0]] }

/-- the same accesses under a mutex (and a read after the `join`) -/
def guarded : Prog :=
  { cfg := { nCells := 1, nMutexes := 1 },
    threads := [[.spawn 1, .lock 0, .cellWrite 0 1, .unlock 0, .join 1, .cellRead 0],
                [.lock 0, .cellRead 0, .unlock 0]] }

/-- a race that only some interleavings have: thread 1 reads cell 1 without synchronisation only when it found
cell 0 (protected by the mutex) still unwritten -/
def late : Prog :=
  { cfg := { nCells := 2, nMutexes := 1 },
    threads := [[.spawn 1, .lock 0, .cellWrite 0 1, .unlock 0, .cellWrite 1 5, .join 1],
                [.lock 0, .cellRead 0, .unlock 0, .ifEq 2 (.val 0) 1, .cellRead 1]] }

example : WF racy ∧ WF guarded ∧ WF late := by decide +kernel

/-- the unsynchronised pair is reported in the very iteration in which it happens: the first one -/
theorem racy_reported : (runIter racy (Check.initExec racy.cfg)).term = some (.causality 9) := by decide +kernel

/-- … and the theorem turns the report into a reference execution that ends with the verdict `race 9` -/
example : ∃ s, SCExec racy (SC.init racy) s ∧ s.verdict = some (.race 9) := by
  have hok : (match World.init racy (Check.initExec racy.cfg) with | .ok _ => true | .error _ => false) = true := by
    decide +kernel
  cases hi : World.init racy (Check.initExec racy.cfg) with
  | error e => rw [hi] at hok; cases hok
  | ok w0 =>
    exact runIter_reported_race_is_real (by decide +kernel) (by decide +kernel) (freshClocks_new _ _ _ _) hi
      racy_reported

/-- the mutex-protected version: the whole exploration (4 iterations) completes, no iteration reports anything -/
theorem guarded_never : (Check.run guarded 10).2 = .completed ∧
    ((Check.run guarded 10).1.map fun it => it.result.term) = [none, none, none, none] := by decide +kernel

/-- the first iteration of `late` is race-free (thread 1 finds cell 0 written and skips its read), the second is
not, and it is there that the race is reported: `causality 11`, the main thread's write of cell 1 after the
unordered read by thread 1 -/
theorem late_reported : ((Check.run late 10).1.map fun it => it.result.term) = [none, some (.causality 11)] ∧
    (Check.run late 10).2 = .panicked (.causality 11) := by decide +kernel

/-- the first (race-free) iteration of `late`: by the theorem its events are the trace of a reference execution
that reaches no verdict -/
example : ∃ s, SCExec late (SC.init late) s ∧ s.verdict = none ∧
    SCData.Run late (data (SC.init late)) ((runIter late (Check.initExec late.cfg)).events.map triple) (data s) :=
  runIter_no_missed_race (by decide +kernel) (by decide +kernel) (freshClocks_new _ _ _ _) (by decide +kernel)

end Example

end Race
end LoomVerif

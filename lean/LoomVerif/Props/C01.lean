/-
C01 — placeholder until the DPOR pillar theorems land: the DFS facts of C14 that C01 rests on.
-/
import LoomVerif.Props.C14

/-
Property C01 ("every interleaving outcome is explored"): the *local pillars* of the DPOR
argument, proved of the twin of `src/rt/{path,execution,object,access}.rs`, the validity of
loom's independence assumptions against the reference semantics `Spec/SC.lean`, and a
kernel-checked witness that the full completeness statement is false of the twin (finding F1).

Vocabulary (definitions in `LoomVerif/Proofs/`):

* `Sched.MarkSpec s tid s'` (`C01Backtrack`)  the marking rule of `Schedule::backtrack`; unfolded
  by `Sched.markSpec_def` below.
* `Path.NoExploringSchedAt p j`  entry `j` of `p` is not an exploring schedule entry.
* `Path.ConsWalk p c r`  the conservative walk of preemption-bounded DPOR from schedule entry `c`
  along `prev` links ends with target `r`; its four rules are restated by `Path.consWalk_def`.
* `Path.PrevDecr p`  every `prev` link points to a strictly smaller index (an invariant of all
  stacks built by the API: `Path.prevDecr_invariant`); it makes the fuel of
  `backtrackConservative` irrelevant.
* `Exec.raceOf e th`, `Exec.dporStep`, `Exec.dporSpec` (`C01Sched`)  the DPOR loop as a fold.
* `Exec.initial`, `Exec.choice`, `Exec.seedSt`, `Exec.IsPick` (`C01Choice`)  the choice of the
  next thread.
* `Dep.AtomicInvisible x y` etc. (`DepTables`): recording an access with action `x` does not
  change the slot consulted by a later operation with action `y`.
* `SC.NextOp p s t op` (`DepSC`): in the reference semantics thread `t` is not inside a `cvwait`
  and its next operation is `op`; `SC.doLoad`, `SC.doSend`, `SC.doRecv`, `SC.doClone`,
  `SC.doDropBig`: the successor state of the corresponding single step.
-/
import LoomVerif.Proofs.C18Yield
import LoomVerif.Proofs.DepTables
import LoomVerif.Proofs.C01False

namespace LoomVerif.C01
open LoomVerif

/-! ## 1. `Path.backtrack` -/

/-- `Thread::explore` changes a thread state only by `skip ↦ pending`. -/
theorem explore_def (t : ThSt) : t.explore = if t = .skip then .pending else t :=
  ThSt.explore_eq t

/-- The marking rule: only `threads` changes and keeps its length; `tid` out of range: nothing
changes; thread `tid` enabled: it is `explore`d, all others unchanged; thread `tid` `disabled`:
every thread is `explore`d. -/
theorem Sched.markSpec_def (s : Sched) (tid : Nat) (s' : Sched) :
    Sched.MarkSpec s tid s' ↔
      s' = { s with threads := s'.threads } ∧
      s'.threads.length = s.threads.length ∧
      (s.threads.length ≤ tid → s'.threads = s.threads) ∧
      (∀ st, s.threads[tid]? = some st → st ≠ .disabled →
        s'.threads[tid]? = some st.explore ∧ ∀ j : Nat, j ≠ tid → s'.threads[j]? = s.threads[j]?) ∧
      (s.threads[tid]? = some .disabled →
        ∀ j : Nat, s'.threads[j]? = (s.threads[j]?).map ThSt.explore) :=
  ⟨fun h => ⟨h.fields, h.length, h.outOfRange, h.enabled, h.disabled⟩,
   fun ⟨a, b, c, d, e⟩ => ⟨a, b, c, d, e⟩⟩

/-- In all cases no thread state changes other than `skip → pending`; in particular `yield`,
`active`, `visited`, `pending`, `disabled` marks are kept. -/
theorem Sched.mark_only_skip_pending {s s' : Sched} {tid : Nat} (h : Sched.MarkSpec s tid s') :
    ∀ (j : Nat) (st st' : ThSt), s.threads[j]? = some st → s'.threads[j]? = some st' → st' ≠ st →
      st = .skip ∧ st' = .pending :=
  h.only_skip_pending

/-- `Schedule::backtrack` (one entry): succeeds iff the entry is exploring and within the bound;
without a bound it marks; with bound `b` it marks unless `preemptions = b`. -/
theorem Sched.backtrack_post (s s' : Sched) (tid : Nat) (bound : Option Nat) :
    s.backtrack tid bound = .ok s' ↔
      s.exploring = true ∧
      match bound with
      | none => Sched.MarkSpec s tid s'
      | some b => s.preemptions ≤ b ∧
          (s.preemptions = b → s' = s) ∧ (s.preemptions ≠ b → Sched.MarkSpec s tid s') :=
  Sched.backtrack_spec s s' tid bound

/-- The first loop of `Path::backtrack` finds the nearest exploring schedule entry at or below
`point`. -/
theorem Path.findExploringSched_post (p : Path) (point : Nat) :
    (∀ i s, p.findExploringSched point = some (i, s) ↔
      i ≤ point ∧ p.schedAt i = some s ∧ s.exploring = true ∧
      ∀ j, i < j → j ≤ point → p.NoExploringSchedAt j) ∧
    (p.findExploringSched point = none ↔ ∀ j, j ≤ point → p.NoExploringSchedAt j) :=
  ⟨fun i s => Path.findExploringSched_spec p point i s, Path.findExploringSched_none p point⟩

/-- `Path.backtrack_post`, unbounded case: with `(i, s)` the nearest exploring schedule entry at
or below `point` — if there is none `p' = p`; otherwise `p'` differs from `p` exactly in entry
`i`, which is `s` marked for `tid`. -/
theorem Path.backtrack_post {p p' : Path} {point tid : Nat} (hb : p.bound = none)
    (h : p.backtrack point tid = .ok p') :
    point < p.branches.length ∧
    match p.findExploringSched point with
    | none => p' = p
    | some (i, s) =>
      ∃ s', Sched.MarkSpec s tid s' ∧ p' = { p with branches := p.branches.set i (.sched s') } :=
  Path.backtrack_post_unbounded hb h

/-- The four rules of the conservative walk.  From entry `c` (schedule `cs`):
`hit`: `cs.prev = some q`, the active threads of `c` and `q` differ and `cs` is exploring —
target `c`; `root`/`rootSkip`: `cs.prev = none` — target `c` if `cs` is exploring, else no
target; `next`: `cs.prev = some q` and (same active thread, or `cs` not exploring) — continue
from `q`.  (So an entry whose active thread differs from its predecessor's but which is not
exploring is passed over.) -/
theorem Path.consWalk_def (p : Path) (c : Nat) (r : Option Nat) :
    Path.ConsWalk p c r ↔
      ∃ cs, p.schedAt c = some cs ∧
        match cs.prev with
        | none => r = if cs.exploring then some c else none
        | some q => ∃ ps, p.schedAt q = some ps ∧
            if cs.activeIdx ≠ ps.activeIdx ∧ cs.exploring = true then r = some c
            else Path.ConsWalk p q r :=
  LoomVerif.Path.consWalk_iff p c r

/-- the walk is deterministic, its target is an exploring schedule entry at or below its start -/
theorem Path.consWalk_props {p : Path} {c : Nat} :
    (∀ r1 r2, Path.ConsWalk p c r1 → Path.ConsWalk p c r2 → r1 = r2) ∧
    (∀ t, Path.ConsWalk p c (some t) → ∃ ts, p.schedAt t = some ts ∧ ts.exploring = true) ∧
    (Path.PrevDecr p → ∀ t, Path.ConsWalk p c (some t) → t ≤ c) :=
  ⟨fun _ _ h1 h2 => h1.unique h2, fun _ h => h.target, fun hp _ h => h.target_le hp⟩

/-- `PrevDecr` holds initially and is kept by `branchThread`, `backtrack` and `schedule`. -/
theorem Path.prevDecr_invariant :
    (∀ cap bound x, Path.PrevDecr (Path.new cap bound x)) ∧
    (∀ p p' seed pk r, Path.PrevDecr p → p.branchThread seed pk = .ok (p', r) →
      Path.PrevDecr p') ∧
    (∀ p p' point tid, Path.PrevDecr p → p.backtrack point tid = .ok p' → Path.PrevDecr p') :=
  ⟨Path.PrevDecr.new, fun _ _ _ _ _ hp h => hp.branchThread h, fun _ _ _ _ hp h => hp.backtrack h⟩

/-- `Path.backtrack_post`, bounded case (`p.bound = some b`): entry `i` gets the same marking
unless `s.preemptions = b` (then it is unchanged); then, if `s.prev = some curr`, the
conservative walk from `curr` (in the updated stack) selects at most one further entry `t`,
which is marked by the same rule, subject to the same `preemptions = b` early return.  Nothing
else changes.  (`s.preemptions ≤ b` and `cs.preemptions ≤ b` are the `assert!`s that passed.) -/
theorem Path.backtrack_post_bounded {p p' : Path} {point tid b : Nat} (hb : p.bound = some b)
    (hp : Path.PrevDecr p) (h : p.backtrack point tid = .ok p') :
    point < p.branches.length ∧
    match p.findExploringSched point with
    | none => p' = p
    | some (i, s) =>
      s.preemptions ≤ b ∧
      ∃ s', (s.preemptions = b → s' = s) ∧ (s.preemptions ≠ b → Sched.MarkSpec s tid s') ∧
        match s.prev with
        | none => p' = p.setSched i s'
        | some curr =>
          ∃ r, Path.ConsWalk (p.setSched i s') curr r ∧
            match r with
            | none => p' = p.setSched i s'
            | some t =>
              ∃ cs cs', (p.setSched i s').schedAt t = some cs ∧ cs.exploring = true ∧
                cs.preemptions ≤ b ∧ (cs.preemptions = b → cs' = cs) ∧
                (cs.preemptions ≠ b → Sched.MarkSpec cs tid cs') ∧
                p' = (p.setSched i s').setSched t cs' :=
  LoomVerif.Path.backtrack_post_bounded hb hp h

/-! ## 2. the DPOR loop of `schedule` -/

/-- The backtrack point requested on behalf of a thread, the loop body, the loop. -/
theorem Exec.dpor_defs (e : Exec) :
    (∀ th, e.raceOf th =
      match th.operation with
      | none => .ok none
      | some op =>
        match e.objs.lastDependentAccess op with
        | .error err => .error err
        | .ok none => .ok none
        | .ok (some acc) =>
          if acc.happensBefore th.dporVV then .ok none else .ok (some acc.pathId)) ∧
    (∀ p x, Exec.dporStep e p x =
      match e.raceOf x.1 with
      | .error err => .error err
      | .ok none => .ok p
      | .ok (some point) => p.backtrack point x.2) ∧
    e.dporSpec = e.threads.threads.zipIdx.foldlM (Exec.dporStep e) e.path :=
  ⟨fun _ => rfl, fun _ _ => rfl, rfl⟩

/-- `Exec.schedule_race_post`: the DPOR loop applies, for each thread index `i` in increasing
order whose pending operation has a last dependent access `acc` that does not happen-before the
thread, the call `Path.backtrack · acc.pathId i`; other threads contribute nothing; if no thread
has a racing pending operation the path is unchanged. -/
theorem Exec.schedule_race_post (e : Exec) :
    e.dporMarks = e.dporSpec ∧
    ((∀ th ∈ e.threads.threads, e.raceOf th = .ok none) → e.dporMarks = .ok e.path) :=
  ⟨Exec.dporMarks_eq e, Exec.dporMarks_no_race e⟩

/-- The DPOR loop is a frame step that keeps the length, the cursor and the flags. -/
theorem Exec.dporMarks_frame {e : Exec} {p' : Path} (h : e.dporMarks = .ok p') :
    Path.Frame e.path p' ∧ p'.branches.length = e.path.branches.length ∧
      p' = { e.path with branches := p'.branches } ∧
      (Path.PrevDecr e.path → Path.PrevDecr p') :=
  LoomVerif.Exec.dporMarks_frame h

/-- `Exec.schedule_frame` -/
theorem Exec.schedule_frame {e e' : Exec} {pk b : Bool} (h : e.schedule pk = .ok (e', b)) :
    Path.Frame e.path e'.path ∧ e'.path.pos = e.path.pos + 1 ∧
      (Path.PrevDecr e.path → Path.PrevDecr e'.path) :=
  LoomVerif.Exec.schedule_frame h

/-! ## 3. the choice of the next thread -/

theorem Exec.choice_def (ths : Threads) :
    Exec.choice ths =
      if ths.activeT.isRunnable then some ths.activeId
      else match Exec.pickInitial ths.threads with
        | some m => some m
        | none => findIdx? Thread.isYield ths.threads := rfl

/-- `pickInitial`: the runnable thread with the smallest `yieldCount`, first among equals;
`none` iff no thread is runnable. -/
theorem Exec.pickInitial_post (ths : List Thread) :
    (∀ m, Exec.pickInitial ths = some m →
      ∃ tm, ths[m]? = some tm ∧ tm.isRunnable = true ∧
        ∀ j th, ths[j]? = some th → th.isRunnable = true →
          tm.yieldCount ≤ th.yieldCount ∧ (j < m → tm.yieldCount < th.yieldCount)) ∧
    (Exec.pickInitial ths = none ↔ ∀ th ∈ ths, th.isRunnable = false) :=
  ⟨fun _ h => Exec.pickInitial_eq_some h, Exec.pickInitial_eq_none ths⟩

/-- The chosen thread: the active thread if it is runnable ("avoid preemption"); otherwise the
runnable thread with the smallest `yieldCount` (first among equals); if no thread is runnable,
the first thread in `yield` state; none iff no thread is runnable or yielded. -/
theorem Exec.choice_post (ths : Threads) (hc : ths.activeId < ths.threads.length) :
    (ths.activeT.isRunnable = true → Exec.choice ths = some ths.activeId) ∧
    (ths.activeT.isRunnable = false → ∀ m, Exec.choice ths = some m →
      ∃ tm, ths.threads[m]? = some tm ∧
        ((tm.isRunnable = true ∧
            ∀ j th, ths.threads[j]? = some th → th.isRunnable = true →
              tm.yieldCount ≤ th.yieldCount ∧ (j < m → tm.yieldCount < th.yieldCount)) ∨
         (tm.isYield = true ∧ (∀ th ∈ ths.threads, th.isRunnable = false) ∧
            ∀ j th, j < m → ths.threads[j]? = some th → th.isYield = false))) ∧
    ((∃ th ∈ ths.threads, th.isRunnable = true) →
      ∃ m tm, Exec.choice ths = some m ∧ ths.threads[m]? = some tm ∧ tm.isRunnable = true) ∧
    (Exec.choice ths = none ↔ ∀ th ∈ ths.threads, th.isRunnable = false ∧ th.isYield = false) :=
  Exec.choice_spec ths hc

/-- The seed: the chosen thread is `active`; of the others, yielded threads are `yield`,
runnable ones `skip`, all others `disabled`; never `pending` or `visited`. -/
theorem Exec.seed_states (c : Option Nat) (i : Nat) (th : Thread) :
    (Exec.seedSt c i th = .active ↔ c = some i) ∧
    (Exec.seedSt c i th = .yield ↔ c ≠ some i ∧ th.isYield = true) ∧
    (Exec.seedSt c i th = .skip ↔ c ≠ some i ∧ th.isRunnable = true) ∧
    (Exec.seedSt c i th = .disabled ↔ c ≠ some i ∧ th.isYield = false ∧ th.isRunnable = false) ∧
    Exec.seedSt c i th ≠ .pending ∧ Exec.seedSt c i th ≠ .visited :=
  Exec.seedSt_cases c i th

/-- `Exec.schedule_choice`: when `schedule` pushes a new entry (the path is traversed; the
active thread id is in range) the next active thread is `choice e.threads`, and the pushed
entry `s` records it as `active` and every other thread `i` as `seedSt … i` (padded with
`disabled` up to `MAX_THREADS`). -/
theorem Exec.schedule_choice {e e' : Exec} {pk b : Bool} (ht : e.path.isTraversed = true)
    (hc : e.threads.activeId < e.threads.threads.length) (h : e.schedule pk = .ok (e', b)) :
    e'.threads.active = Exec.choice e.threads ∧
    ∃ p1 s, e.dporMarks = .ok p1 ∧
      e'.path = { p1 with pos := p1.pos + 1, branches := p1.branches ++ [.sched s] } ∧
      s.threads =
        Path.padTo (e.threads.threads.mapIdx (Exec.seedSt (Exec.choice e.threads))) NT .disabled ∧
      s.activeIdx = Exec.choice e.threads ∧ s.exploring = p1.exploring ∧
      s.prev = p1.lastSchedule :=
  LoomVerif.Exec.schedule_choice ht hc h

/-- … and what `schedule` returns, in terms of `choice`, when the DPOR loop succeeds, the branch
limit is respected and the thread table fits: with no choice, `.ok (_, true)` iff all threads
are terminated and `.error .deadlock` otherwise. -/
theorem Exec.schedule_result {e : Exec} {pk : Bool} {p1 : Path}
    (ha : e.threads.isActive = true) (hc : e.threads.activeId < e.threads.threads.length)
    (ht : e.path.isTraversed = true) (hlen : e.path.assertLen pk = .ok ())
    (hnt : e.threads.threads.length ≤ NT) (hd : e.dporMarks = .ok p1) :
    e.schedule pk =
      match Exec.choice e.threads with
      | none =>
        if e.threads.threads.all Thread.isTerminated then
          .ok ({ e with path := e.pushed p1, threads := { e.threads with active := none } }, true)
        else .error .deadlock
      | some nid => e.finish (e.pushed p1) p1.pos nid :=
  Exec.schedule_traversed_eq ha hc ht hlen hnt hd

/-! ## 4. the dependence tables and their validity -/

/-- Which slot an operation consults and which slots it writes, per object kind. -/
theorem Dep.tables :
    (∀ (a : Atomic) act,
      a.lastDependentAccess act = if act = .atomLoad then a.lastNonLoad else a.lastAccess) ∧
    (∀ (a : Atomic) act pid v,
      (a.setLastAccess act pid v).lastAccess = some ⟨pid, v⟩ ∧
      (a.setLastAccess act pid v).lastNonLoad =
        if act = .atomLoad then a.lastNonLoad else some ⟨pid, v⟩) ∧
    (∀ s : ChanSt,
      s.lastDependentAccess .chanSend = s.lastSend ∧ s.lastDependentAccess .chanRecv = s.lastRecv) ∧
    (∀ (s : ChanSt) pid v,
      s.setLastAccess .chanSend pid v = { s with lastSend := some ⟨pid, v⟩ } ∧
      s.setLastAccess .chanRecv pid v = { s with lastRecv := some ⟨pid, v⟩ }) ∧
    (∀ s : ArcSt,
      s.lastDependentAccess .arcInc = s.lastInspect ∧
      s.lastDependentAccess .arcDec =
        (match s.lastDec, s.lastInspect with
         | some d, some i => if i.pathId > d.pathId then some i else some d
         | some d, none => some d
         | none, i => i) ∧
      s.lastDependentAccess .arcInspect =
        (match s.lastMod with
         | some .inc => s.lastInc
         | some .dec => s.lastDec
         | none => none)) ∧
    (∀ (s : ArcSt) pid v,
      s.setLastAccess .arcInc pid v = { s with lastMod := some .inc, lastInc := some ⟨pid, v⟩ } ∧
      s.setLastAccess .arcDec pid v = { s with lastMod := some .dec, lastDec := some ⟨pid, v⟩ } ∧
      s.setLastAccess .arcInspect pid v = { s with lastInspect := some ⟨pid, v⟩ }) ∧
    -- mutex / rwlock / condvar / notify: one slot, consulted and written by every access
    (∀ (os os' : Objs) (op op' : Operation) pid v,
      ((∃ s, os[op.obj]? = some (.mutex s)) ∨ (∃ s, os[op.obj]? = some (.rwlock s)) ∨
        (∃ s, os[op.obj]? = some (.condvar s)) ∨ (∃ s, os[op.obj]? = some (.notify s))) →
      os.setLastAccess op pid v = .ok os' → op'.obj = op.obj →
      os'.lastDependentAccess op' = .ok (some ⟨pid, v⟩)) :=
  ⟨LoomVerif.Dep.atomic_consults, LoomVerif.Dep.atomic_records, LoomVerif.Dep.chan_consults,
   LoomVerif.Dep.chan_records, LoomVerif.Dep.arc_consults, LoomVerif.Dep.arc_records,
   LoomVerif.Dep.opaque_kinds⟩

theorem Dep.invisible_def (x y : Action) :
    (LoomVerif.Dep.AtomicInvisible x y ↔ ∀ (a : Atomic) pid v,
      (a.setLastAccess x pid v).lastDependentAccess y = a.lastDependentAccess y) ∧
    (LoomVerif.Dep.ChanInvisible x y ↔ ∀ (s : ChanSt) pid v,
      (s.setLastAccess x pid v).lastDependentAccess y = s.lastDependentAccess y) ∧
    (LoomVerif.Dep.ArcInvisible x y ↔ ∀ (s : ArcSt) pid v,
      (s.setLastAccess x pid v).lastDependentAccess y = s.lastDependentAccess y) :=
  ⟨Iff.rfl, Iff.rfl, Iff.rfl⟩

/-- `Dep.independent_pairs`: an earlier access `x` is invisible to a later operation `y` on the
same object exactly for: atomic load/load; channel send/recv (either order); `Arc` inc/inc,
inc/dec, dec/inc, inspect/inspect.  (Dec-after-inspect was in this list before the repair of finding
F10.) -/
theorem Dep.independent_pairs :
    (∀ x y, x ∈ [Action.atomLoad, .atomStore, .atomRmw] →
      y ∈ [Action.atomLoad, .atomStore, .atomRmw] →
      (LoomVerif.Dep.AtomicInvisible x y ↔ (x, y) = (.atomLoad, .atomLoad))) ∧
    (∀ x y, x ∈ [Action.chanSend, .chanRecv] → y ∈ [Action.chanSend, .chanRecv] →
      (LoomVerif.Dep.ChanInvisible x y ↔ x ≠ y)) ∧
    (∀ x y, x ∈ [Action.arcInc, .arcDec, .arcInspect] →
      y ∈ [Action.arcInc, .arcDec, .arcInspect] →
      (LoomVerif.Dep.ArcInvisible x y ↔ (x, y) ∈ [(Action.arcInc, Action.arcInc),
        (.arcInc, .arcDec), (.arcDec, .arcInc), (.arcInspect, .arcInspect)])) :=
  LoomVerif.Dep.independent_pairs

/-- (i) Two loads of the same atomic by different threads commute in `Spec/SC`: both orders
lead to the same state (same returned values, same cell, same clocks). -/
theorem Dep.load_load_commute {p : Prog} {s : SC.St} {t u x : Nat} {o o' : Ord} (htu : t ≠ u)
    (ht : SC.NextOp p s t (.atom x (.load o))) (hu : SC.NextOp p s u (.atom x (.load o'))) :
    (SC.step p s t).flatMap (fun s' => SC.step p s' u) =
      (SC.step p s u).flatMap (fun s' => SC.step p s' t) ∧
    (SC.step p s t).flatMap (fun s' => SC.step p s' u) =
      [SC.doLoad (SC.doLoad s t x o) u x o'] :=
  SC.load_load_commute htu ht hu

/-- (ii) `send q v` by `t` and `recv q` by `u ≠ t` on a non-empty queue commute: both orders
lead to the same state (same queue content, `u` receives the head `v0`). -/
theorem Dep.send_recv_commute {p : Prog} {s : SC.St} {t u q : Nat} {v v0 : Int} {c0 : VV}
    {rest : List (Int × VV)} (htu : t ≠ u)
    (ht : SC.NextOp p s t (.send q v)) (hu : SC.NextOp p s u (.recv q))
    (hq : s.chan.getD q [] = (v0, c0) :: rest) :
    (SC.step p s t).flatMap (fun s' => SC.step p s' u) =
      (SC.step p s u).flatMap (fun s' => SC.step p s' t) ∧
    (SC.step p s u).flatMap (fun s' => SC.step p s' t) =
      [SC.doSend (SC.doRecv s u q v0 c0 rest) t q v] :=
  SC.send_recv_commute htu ht hu hq

/-- (iii) `arcClone hd h2` by `t` and `arcDrop hd'` by `u ≠ t` on the same arc `a` (through
different handles `hd ≠ hd'`, `h2 ≠ hd'`) with strong count `n ≥ 2` commute: both orders lead to
the same state; the final count is `n`; the drop returns "not last" in both. -/
theorem Dep.arcClone_arcDrop_commute {p : Prog} {s : SC.St} {t u hd h2 hd' a n : Nat} {rel : VV}
    (htu : t ≠ u) (ht : SC.NextOp p s t (.arcClone hd h2)) (hu : SC.NextOp p s u (.arcDrop hd'))
    (ha : SC.arcOf s hd = some a) (ha' : SC.arcOf s hd' = some a) (hne1 : hd ≠ hd')
    (hne2 : h2 ≠ hd') (hn : s.arcs[a]? = some (n, rel)) (h2n : 2 ≤ n) :
    (SC.step p s t).flatMap (fun s' => SC.step p s' u) =
      (SC.step p s u).flatMap (fun s' => SC.step p s' t) ∧
    (SC.step p s u).flatMap (fun s' => SC.step p s' t) =
      [SC.doClone (SC.doDropBig s u hd' a n rel) t h2 a] ∧
    (SC.doClone (SC.doDropBig s u hd' a n rel) t h2 a).arcs[a]? =
      some (n, rel.join ((s.tick u).vc u)) :=
  SC.arcClone_arcDrop_commute htu ht hu ha ha' hne1 hne2 hn h2n

/-- (iv) finding F10, reference side: `strong_count` by thread 0 and `drop` by thread 1 on the same
`Arc` (count 2), both enabled, do NOT commute in `Spec/SC` — the count returned is 2 in one order and
1 in the other.  (`progF10 = T0: acount 0 | T1: adrop 1`.) -/
theorem Dep.arc_inspect_dec_not_commute :
    SC.NextOp LoomVerif.Dep.progF10 LoomVerif.Dep.stF10 0 (.arcCount 0) ∧
    SC.NextOp LoomVerif.Dep.progF10 LoomVerif.Dep.stF10 1 (.arcDrop 1) ∧
    SC.arcOf LoomVerif.Dep.stF10 0 = some 0 ∧ SC.arcOf LoomVerif.Dep.stF10 1 = some 0 ∧
    SC.enabled LoomVerif.Dep.progF10 LoomVerif.Dep.stF10 0 = true ∧
    SC.enabled LoomVerif.Dep.progF10 LoomVerif.Dep.stF10 1 = true ∧
    ((SC.step LoomVerif.Dep.progF10 LoomVerif.Dep.stF10 0).flatMap
        (fun s => SC.step LoomVerif.Dep.progF10 s 1)).map (fun s => (s.th 0).rets)
      = [[(0, .val 2)]] ∧
    ((SC.step LoomVerif.Dep.progF10 LoomVerif.Dep.stF10 1).flatMap
        (fun s => SC.step LoomVerif.Dep.progF10 s 0)).map (fun s => (s.th 0).rets)
      = [[(0, .val 1)]] :=
  LoomVerif.Dep.arc_inspect_dec_not_commute

/-- (iv) finding F10, twin side (repaired): if an inspection is recorded and is later in the path than
the last decrement (if any), `last_dependent_access(RefDec)` returns it — so a `RefDec` is ordered
after an earlier `Inspect`; in particular directly after the inspection was recorded; and an earlier
`Inspect` is not invisible to a later `RefDec`. -/
theorem Dep.arcDec_depends_on_inspect :
    (∀ (s : ArcSt) (i : Access), s.lastInspect = some i →
      (∀ d, s.lastDec = some d → d.pathId < i.pathId) →
      s.lastDependentAccess .arcDec = some i) ∧
    (∀ (s : ArcSt) pid v, (∀ d, s.lastDec = some d → d.pathId < pid) →
      (s.setLastAccess .arcInspect pid v).lastDependentAccess .arcDec = some ⟨pid, v⟩) ∧
    ¬ LoomVerif.Dep.ArcInvisible .arcInspect .arcDec :=
  ⟨LoomVerif.Dep.arcDec_depends_on_inspect, LoomVerif.Dep.arcDec_after_inspect,
   LoomVerif.Dep.arc_inspect_dec_dependent⟩

/-- … and the other cases: a decrement that is not earlier than the recorded inspection (or no
inspection) is what `last_dependent_access(RefDec)` returns; with neither recorded, nothing. -/
theorem Dep.arcDec_consults (s : ArcSt) :
    (∀ i, s.lastInspect = some i → (∀ d, s.lastDec = some d → d.pathId < i.pathId) →
      s.lastDependentAccess .arcDec = some i) ∧
    (∀ d, s.lastDec = some d → (∀ i, s.lastInspect = some i → i.pathId ≤ d.pathId) →
      s.lastDependentAccess .arcDec = some d) ∧
    (s.lastInspect = none → s.lastDec = none → s.lastDependentAccess .arcDec = none) :=
  LoomVerif.Dep.arcDec_consults s

/-- remainder of finding F10: ONE inspection slot.  `set_last_access(Inspect)` overwrites the previous
inspection, so after `inspect(a); inspect(b)` a decrement (later than `b`) is compared with `b` only.
Witness: inspections `a` (thread 1) and `b` (thread 2) with concurrent clocks, then a decrement whose
DPOR clock has seen `b` but not `a`: the access returned happens-before it — no backtrack point —
although the decrement races with inspection `a`. -/
theorem Dep.arc_single_inspect_slot :
    (∀ (s : ArcSt) pa va pb vb,
      (s.setLastAccess .arcInspect pa va).setLastAccess .arcInspect pb vb
        = s.setLastAccess .arcInspect pb vb) ∧
    (∀ (s : ArcSt) pa va pb vb, (∀ d, s.lastDec = some d → d.pathId < pb) →
      ((s.setLastAccess .arcInspect pa va).setLastAccess .arcInspect pb vb).lastDependentAccess .arcDec
        = some ⟨pb, vb⟩) ∧
    (let va := VV.ofList [0, 1, 0, 0, 0]
     let vb := VV.ofList [0, 0, 1, 0, 0]
     let dv := VV.ofList [0, 0, 1, 1, 0]
     let s := (({} : ArcSt).setLastAccess .arcInspect 3 va).setLastAccess .arcInspect 4 vb
     va.ble vb = false ∧ vb.ble va = false ∧ va.ble dv = false ∧
     ∃ acc, s.lastDependentAccess .arcDec = some acc ∧ acc.pathId = 4 ∧
       acc.happensBefore dv = true) :=
  LoomVerif.Dep.arc_single_inspect_slot

/-- (v) finding F7, twin side: `try_recv` on a channel without messages completes at once with
`empty`, without a `branch` call: it is not a scheduling point and leaves the execution
untouched. -/
theorem Dep.tryRecv_empty_no_branch (w : World) (c : TCtl) (q : Nat) (s : ChanSt)
    (hc : c.stage = 0) (hs : w.getChan (w.chanObj q) = .ok s) (h0 : s.msgCnt = 0) :
    w.runOp c (.tryRecv q) = .ok (w.complete .empty) ∧ (w.complete .empty).exec = w.exec :=
  LoomVerif.Dep.tryRecv_empty_no_branch w c q s hc hs h0

/-- (v) finding F7, reference side: `try_recv` on an empty queue by thread 0 and `send` by thread
1, both enabled, do NOT commute: thread 0 gets `empty` in one order and the message in the other.
(`progF7 = cfg q=1 | T0: tryrecv 0 | T1: send 0 7`.) -/
theorem Dep.tryrecv_send_not_independent :
    SC.NextOp LoomVerif.Dep.progF7 LoomVerif.Dep.stF7 0 (.tryRecv 0) ∧
    SC.NextOp LoomVerif.Dep.progF7 LoomVerif.Dep.stF7 1 (.send 0 7) ∧
    LoomVerif.Dep.stF7.chan.getD 0 [] = [] ∧
    SC.enabled LoomVerif.Dep.progF7 LoomVerif.Dep.stF7 0 = true ∧
    SC.enabled LoomVerif.Dep.progF7 LoomVerif.Dep.stF7 1 = true ∧
    ((SC.step LoomVerif.Dep.progF7 LoomVerif.Dep.stF7 0).flatMap
        (fun s => SC.step LoomVerif.Dep.progF7 s 1)).map (fun s => (s.th 0).rets)
      = [[(0, .empty)]] ∧
    ((SC.step LoomVerif.Dep.progF7 LoomVerif.Dep.stF7 1).flatMap
        (fun s => SC.step LoomVerif.Dep.progF7 s 0)).map (fun s => (s.th 0).rets)
      = [[(0, .val 7)]] :=
  LoomVerif.Dep.tryrecv_send_not_independent

/-! ## 5. the full statement is false of the twin (finding F1) -/

/-- `F1.prog = cfg x=1 | T0: spawn 1; st 0 1 rlx; ld 0 rlx; join 1 | T1: ld 0 rlx; st 0 2 rlx`.
(a) The reference semantics has a normally ending execution where T0's load returns 2 and T1's
load returns 1; (b) the twin explores the program to completion in 13 iterations, none of which
panics or shows these two values together. -/
theorem C01_full_false_witness :
    (∃ l, SC.outcomesNaive F1.prog 40 (SC.init F1.prog) = some l ∧
      ∃ o ∈ l, o.verdict = .ok ∧ (0, 2, Ret.val 2) ∈ o.rets ∧ (1, 0, Ret.val 1) ∈ o.rets) ∧
    (Check.run F1.prog).2 = .completed ∧ (Check.run F1.prog).1.length = 13 ∧
    (Check.run F1.prog).1.all
      (fun it => it.result.term == none && !F1.badPair it.result.events) = true :=
  ⟨F1.sc_has, F1.twin_misses⟩

/-- `C01_full_false`: "every outcome of the reference semantics is shown by some iteration of
the exploration" (`F1.TwinComplete`, unfolded on the right) fails for `F1.prog`. -/
theorem C01_full_false :
    ¬ (∀ l, SC.outcomesNaive F1.prog 40 (SC.init F1.prog) = some l →
        ∀ o ∈ l, ∃ it ∈ (Check.run F1.prog).1,
          ∀ t pc r, (t, pc, r) ∈ o.rets →
            ∃ e ∈ it.result.events, e.tid = t ∧ e.pc = pc ∧ e.ret = r) :=
  F1.not_complete

end LoomVerif.C01

/-
C03 — "Every explored execution is consistent with the C11 memory model."

Headline theorems only: the *local laws* (decision logic and one-step facts, valid in every state)
on which coherence, RMW atomicity, release/acquire and fence synchronisation and the SeqCst-fence
order rest.  `VV.le x y` is the pointwise order of vector clocks; a thread's `caus` is its
happens-before view; a store slot carries `hb` (the writer's view), `mo` (its modification-order
clock), `sync` (what an acquiring reader obtains) and `firstSeen`.
`ths.activeId < ths.threads.length` says that the active thread exists in the thread table (always
so in the runtime); `a.stores.length = 7` that the ring has its `MAX_ATOMIC_HISTORY` slots.
The model is `Model/{VV,Threads,Atomic}.lean`; the proofs are in `Proofs/Clocks*.lean`.
-/
import LoomVerif.Proofs.ClocksRing

namespace LoomVerif
open Clocks

/-! ## 0. the clock lattice -/

/-- `VV.le` is a partial order, `join` its least upper bound (idempotent, commutative,
associative), `ble`/`blt` decide `≤`/`<`, and `inc` strictly increases. -/
theorem VV.lattice :
    (∀ a : VV, a.le a) ∧ (∀ a b c : VV, a.le b → b.le c → a.le c) ∧
    (∀ a b : VV, a.le b → b.le a → a = b) ∧
    (∀ a b : VV, a.le (a.join b) ∧ b.le (a.join b)) ∧
    (∀ a b c : VV, a.le c → b.le c → (a.join b).le c) ∧
    (∀ a : VV, a.join a = a) ∧ (∀ a b : VV, a.join b = b.join a) ∧
    (∀ a b c : VV, (a.join b).join c = a.join (b.join c)) ∧
    (∀ a b : VV, a.ble b = true ↔ a.le b) ∧ (∀ a b : VV, a.blt b = true ↔ a.le b ∧ a ≠ b) ∧
    (∀ (a : VV) i, a.le (a.inc i)) ∧ (∀ (a : VV) i, i < 5 → a.blt (a.inc i) = true) :=
  ⟨le_refl, fun _ _ _ => le_trans, fun _ _ => le_antisymm,
    fun a b => ⟨le_join_left a b, le_join_right a b⟩, fun _ _ _ => join_le, join_idem, join_comm,
    join_assoc, ble_iff, blt_iff, le_inc, blt_inc⟩

/-! ## 1. `Synchronize`: release/acquire, and nothing more -/

/-- A releasing `sync_store` followed by an acquiring `sync_load` of the same synchronisation
point hands the writer's causality to the reader, whose causality only grows. -/
theorem Sync.acquire_gets_release (s : Sync) (rel writerCaus readerCaus : VV) (o o' : Ord)
    (ho : o.releases = true) (ho' : o'.acquires = true) :
    writerCaus.le ((s.store rel writerCaus o).load readerCaus o') ∧
    (∀ s' : Sync, readerCaus.le (s'.load readerCaus o')) := by
  refine ⟨?_, fun s' => Sync.le_load s' _ _⟩
  exact le_trans (Sync.caus_le_store s rel writerCaus ho) (Sync.hb_le_load _ _ ho')

/-- No over-synchronisation: a `Relaxed`/`Release` load acquires nothing; a `Relaxed`/`Acquire`
store publishes only the `released` view (set by release fences), nothing of the causality; and
no load ever acquires more than the synchronisation point carries. -/
theorem Sync.no_over_sync (s : Sync) (c released caus : VV) :
    (∀ o', o' = Ord.rlx ∨ o' = Ord.rel → s.load c o' = c) ∧
    (∀ o, o = Ord.rlx ∨ o = Ord.acq → (s.store released caus o).hb = s.hb.join released) ∧
    (∀ o', (s.load c o').le (c.join s.hb)) ∧
    (∀ o, (s.store released caus o).hb.le ((s.hb.join released).join caus)) := by
  refine ⟨?_, ?_, fun o' => Sync.load_le s c o', ?_⟩
  · rintro o' (rfl | rfl) <;> rfl
  · rintro o (rfl | rfl) <;> rfl
  · intro o
    cases ho : o.releases
    · rw [Sync.store_of_not_releases _ _ _ ho]; exact le_join_left _ _
    · rw [Sync.store_of_releases _ _ _ ho]; exact le_refl _

/-! ## 2. `State::store` -/

/-- A store fills slot `cnt % 7` with the value, the writer's causality as `hb`, a
modification-order clock above the writer's causality, and a synchronisation point that carries
the one it was given plus — for a releasing ordering — the writer's causality.  `cnt` grows by
one; no other slot and no race clock changes. -/
theorem Atomic.store_publishes (a : Atomic) (ths : Threads) (sync : Sync) (v : Nat) (o : Ord)
    (hlen : a.stores.length = 7) :
    let a' := a.store ths sync v o
    let n := a'.storeAt (a.cnt % 7)
    n.value = v ∧ n.hb = ths.caus ∧ n.seqCst = o.isSC ∧
    n.sync = sync.store ths.activeT.released ths.caus o ∧
    ths.caus.le n.mo ∧ sync.hb.le n.sync.hb ∧ (o.releases = true → ths.caus.le n.sync.hb) ∧
    a'.cnt = a.cnt + 1 ∧ a'.stores.length = 7 ∧
    (∀ i, i ≠ a.cnt % 7 → a'.storeAt i = a.storeAt i) ∧
    a'.loadedAt = a.loadedAt ∧ a'.unsyncLoadedAt = a.unsyncLoadedAt ∧
    a'.storedAt = a.storedAt ∧ a'.unsyncMutAt = a.unsyncMutAt := by
  intro a' n
  have hn : n = _ := C12.storeAt_store_new a ths sync v o hlen
  rw [hn]
  refine ⟨rfl, rfl, rfl, rfl, caus_le_newMo a ths, Sync.hb_le_store _ _ _ _,
    fun ho => Sync.caus_le_store _ _ _ ho, rfl, ?_, ?_, rfl, rfl, rfl, rfl⟩
  · show (a.store ths sync v o).stores.length = 7
    rw [store_length, hlen]
  · intro i hi
    exact C12.storeAt_store_ne a ths sync v o i hi

/-! ## 3. `State::load` -/

/-- A load of slot `idx` returns that slot's value.  The reader's causality only grows, by at
most the slot's synchronisation clock; with an acquiring ordering it grows by exactly that
clock, otherwise not at all.  Nothing else in the thread table changes. -/
theorem Atomic.load_acquires (a a' : Atomic) (ths ths' : Threads) (idx u : Nat) (o : Ord)
    (hact : ths.activeId < ths.threads.length)
    (h : a.load ths idx o = .ok (a', ths', u)) :
    u = (a.storeAt idx).value ∧ ths.caus.le ths'.caus ∧
    (o.acquires = true → (a.storeAt idx).sync.hb.le ths'.caus) ∧
    (o.acquires = true → ths'.caus = ths.caus.join (a.storeAt idx).sync.hb) ∧
    (o.acquires = false → ths'.caus = ths.caus) ∧
    ths' = ths.setCaus ths'.caus := by
  obtain ⟨_, h2, h3⟩ := load_ok h
  have hc : ths'.caus = (a.storeAt idx).sync.load ths.caus o := by
    rw [h2]; exact caus_syncLoad hact _ _
  refine ⟨h3, ?_, ?_, ?_, ?_, ?_⟩
  · rw [hc]; exact Sync.le_load _ _ _
  · intro ho; rw [hc]; exact Sync.hb_le_load _ _ ho
  · intro ho; rw [hc]; exact Sync.load_of_acquires _ _ ho
  · intro ho; rw [hc]; exact Sync.load_of_not_acquires _ _ ho
  · rw [hc]; exact h2

/-- What a load leaves alone: `cnt`, every other slot, and in every slot the value, `hb`, the
synchronisation point and the SeqCst flag (it may raise `mo` of slot `idx` and mark it seen).
It succeeds iff `track_load` does and then records the load. -/
theorem Atomic.load_frame (a a' : Atomic) (ths ths' : Threads) (idx u : Nat) (o : Ord)
    (h : a.load ths idx o = .ok (a', ths', u)) :
    a'.cnt = a.cnt ∧ a'.stores.length = a.stores.length ∧
    (∀ i, i ≠ idx → a'.storeAt i = a.storeAt i) ∧
    (∀ i, (a'.storeAt i).value = (a.storeAt i).value ∧ (a'.storeAt i).hb = (a.storeAt i).hb ∧
      (a'.storeAt i).sync = (a.storeAt i).sync ∧ (a'.storeAt i).seqCst = (a.storeAt i).seqCst) ∧
    a.unsyncMutAt.le ths.caus ∧ a'.loadedAt = a.loadedAt.join ths.caus := by
  obtain ⟨h1, _, _⟩ := load_ok h
  have hle : a.unsyncMutAt.le ths.caus := by
    cases ht : a.trackLoad ths with
    | error e =>
      have : a.load ths idx o = .error e := by unfold Atomic.load; rw [ht]; rfl
      rw [this] at h; cases h
    | ok a1 => exact (trackLoad_ok ht).2
  subst h1
  exact ⟨rfl, readPart_length a ths idx, fun i hi => readPart_storeAt_ne a ths idx i hi,
    fun i => ⟨readPart_value a ths idx i, readPart_hb a ths idx i, readPart_sync a ths idx i,
      readPart_seqCst a ths idx i⟩, hle, rfl⟩

/-- The release/acquire edge: an acquiring load of the slot just written by a releasing store
returns the stored value and ends with the reader's causality above the writer's. -/
theorem Atomic.release_acquire_edge (a : Atomic) (wths : Threads) (sync : Sync) (v : Nat)
    (o : Ord) (hlen : a.stores.length = 7) (ho : o.releases = true)
    (rths rths' : Threads) (a2 : Atomic) (u : Nat) (o' : Ord) (ho' : o'.acquires = true)
    (hact : rths.activeId < rths.threads.length)
    (h : (a.store wths sync v o).load rths (a.cnt % 7) o' = .ok (a2, rths', u)) :
    u = v ∧ wths.caus.le rths'.caus := by
  obtain ⟨hv, _, _, _, _, _, hrel, _⟩ := Atomic.store_publishes a wths sync v o hlen
  obtain ⟨hu, _, hacq, _⟩ := Atomic.load_acquires _ _ _ _ _ _ _ hact h
  exact ⟨hu.trans hv, le_trans (hrel ho) (hacq ho')⟩

/-! ## 4. `State::rmw`: release sequences -/

/-- A successful RMW reading slot `idx` writes slot `cnt % 7` with a synchronisation point that
carries the one of the store it read — whatever its own ordering — and, if its success ordering
releases, also its own causality.  It returns the value it read; its own causality acquires the
read store's clock iff the success ordering acquires. -/
theorem Atomic.release_sequence (a a' : Atomic) (ths ths' : Threads) (idx prev next : Nat)
    (b : Bool) (so fo : Ord) (f : Nat → Option Nat) (hlen : a.stores.length = 7)
    (hact : ths.activeId < ths.threads.length)
    (hf : f (a.storeAt idx).value = some next)
    (h : a.rmw ths idx so fo f = .ok (a', ths', prev, b)) :
    let n := a'.storeAt (a.cnt % 7)
    prev = (a.storeAt idx).value ∧ b = true ∧ n.value = next ∧ a'.cnt = a.cnt + 1 ∧
    (a.storeAt idx).sync.hb.le n.sync.hb ∧
    (so.releases = true → ths.caus.le n.sync.hb) ∧
    ths.caus.le ths'.caus ∧
    (so.acquires = true → (a.storeAt idx).sync.hb.le ths'.caus) ∧
    (so.acquires = false → ths'.caus = ths.caus) := by
  intro n
  obtain ⟨h1, h2, h3, h4⟩ := rmw_ok_some hf h
  have hc : ths'.caus = (a.storeAt idx).sync.load ths.caus so := by
    rw [h2]; exact caus_syncLoad hact _ _
  have hlen4 : ({ readPart a ths idx with
      storedAt := (readPart a ths idx).storedAt.join ths.caus } : Atomic).stores.length = NH := by
    show (readPart a ths idx).stores.length = NH
    rw [readPart_length]; exact hlen
  have hnew := C12.storeAt_store_new _ (ths.syncLoad (a.storeAt idx).sync so)
    (a.storeAt idx).sync next so hlen4
  subst h1
  have hn : n = _ := hnew
  rw [hn]
  refine ⟨h3, h4, rfl, rfl, Sync.hb_le_store _ _ _ _, ?_, ?_, ?_, ?_⟩
  · intro ho
    refine le_trans ?_ (Sync.caus_le_store _ _ _ ho)
    rw [← h2, hc]; exact Sync.le_load _ _ _
  · rw [hc]; exact Sync.le_load _ _ _
  · intro ho; rw [hc]; exact Sync.hb_le_load _ _ ho
  · intro ho; rw [hc]; exact Sync.load_of_not_acquires _ _ ho

/-- A failed RMW (`compare_exchange` mismatch) is a load with the failure ordering. -/
theorem Atomic.rmw_failure (a a' : Atomic) (ths ths' : Threads) (idx prev : Nat)
    (b : Bool) (so fo : Ord) (f : Nat → Option Nat)
    (hact : ths.activeId < ths.threads.length)
    (hf : f (a.storeAt idx).value = none)
    (h : a.rmw ths idx so fo f = .ok (a', ths', prev, b)) :
    prev = (a.storeAt idx).value ∧ b = false ∧ a'.cnt = a.cnt ∧
    (∀ i, (a'.storeAt i).value = (a.storeAt i).value ∧ (a'.storeAt i).sync = (a.storeAt i).sync) ∧
    ths'.caus = (a.storeAt idx).sync.load ths.caus fo := by
  obtain ⟨h1, h2, h3, h4⟩ := rmw_ok_none hf h
  subst h1
  refine ⟨h3, h4, rfl, fun i => ⟨readPart_value a ths idx i, readPart_sync a ths idx i⟩, ?_⟩
  rw [h2]; exact caus_syncLoad hact _ _

/-- Release sequence through an RMW: releasing store by `wths`; an RMW of ANY ordering by `mths`
reads it; an acquiring load by `rths` of the RMW's store.  The reader obtains the RMW's value and
the original writer's causality. -/
theorem Atomic.release_sequence_edge (a0 : Atomic) (wths : Threads) (sync0 : Sync) (v : Nat)
    (o : Ord) (hlen : a0.stores.length = 7) (ho : o.releases = true)
    (mths mths' : Threads) (a2 : Atomic) (prev next : Nat) (b : Bool) (so fo : Ord)
    (f : Nat → Option Nat) (hf : f v = some next)
    (hmact : mths.activeId < mths.threads.length)
    (hm : (a0.store wths sync0 v o).rmw mths (a0.cnt % 7) so fo f = .ok (a2, mths', prev, b))
    (rths rths' : Threads) (a3 : Atomic) (u : Nat) (o' : Ord) (ho' : o'.acquires = true)
    (hract : rths.activeId < rths.threads.length)
    (hr : a2.load rths ((a0.cnt + 1) % 7) o' = .ok (a3, rths', u)) :
    prev = v ∧ u = next ∧ wths.caus.le rths'.caus := by
  obtain ⟨hv, _, _, _, _, _, hrel, hcnt, hlen1, _⟩ :=
    Atomic.store_publishes a0 wths sync0 v o hlen
  have hf' : f ((a0.store wths sync0 v o).storeAt (a0.cnt % 7)).value = some next := by
    rw [hv]; exact hf
  obtain ⟨hp, _, hn, _, hseq, _⟩ :=
    Atomic.release_sequence _ _ _ _ _ _ _ _ _ _ _ hlen1 hmact hf' hm
  rw [hcnt] at hn hseq
  obtain ⟨hu, _, hacq, _⟩ := Atomic.load_acquires _ _ _ _ _ _ _ hract hr
  exact ⟨hp.trans hv, hu.trans hn, le_trans (hrel ho) (le_trans hseq (hacq ho'))⟩

/-! ## 5. coherence -/

/-- CoRR / CoWR in clock form: a load is never offered a store `i` that is modification-order
below a store `j` already seen by the loading thread's causality. -/
theorem Atomic.coherence_vv (a : Atomic) (ths : Threads) (o : Ord) (l : List Nat)
    (h : a.matchLoadToStores ths o = .ok l) (i : Nat) (hi : i ∈ l) :
    i < a.cnt ∧ i < 7 ∧
    ∀ j, j < a.cnt → j < 7 → j ≠ i → (a.storeAt i).mo.blt (a.storeAt j).mo = true →
      (a.storeAt j).firstSeen.isSeenByCurrent ths = false := by
  have := (match_exact a _ l h i).1 hi
  have h7 : i < min a.cnt 7 := this.1
  refine ⟨by omega, by omega, ?_⟩
  intro j hj hj7 hne hlt
  have hb := this.2 j (by show j < min a.cnt 7; omega) hne hlt
  unfold Atomic.loadBlocked at hb
  simp only [Bool.or_eq_false_iff] at hb
  exact hb.1.1

/-- The candidate list, exactly: slot `i` is offered iff it is a real slot and no real slot `j`
with a strictly larger modification-order clock triggers one of the three coded reasons
(`loadBlocked`: `j` seen by the current causality; `i` seen before the last yield; both SeqCst
and the load SeqCst).  A store is withheld ONLY for those.  The list is in slot order. -/
theorem Atomic.candidates_exact (a : Atomic) (ths : Threads) (o : Ord) (l : List Nat)
    (h : a.matchLoadToStores ths o = .ok l) :
    (∀ i, i ∈ l ↔ i < min a.cnt 7 ∧ ∀ j, j < min a.cnt 7 → j ≠ i →
      (a.storeAt i).mo.blt (a.storeAt j).mo = true → a.loadBlocked ths o i j = false) ∧
    l.Sublist (List.range 7) :=
  ⟨match_exact a _ l h, matchOuter_sublist a _ _ l h⟩

/-- `loadBlocked` spelled out. -/
theorem Atomic.loadBlocked_iff (a : Atomic) (ths : Threads) (o : Ord) (i j : Nat) :
    a.loadBlocked ths o i j = true ↔
      (a.storeAt j).firstSeen.isSeenByCurrent ths = true ∨
      (a.storeAt i).firstSeen.isSeenBeforeYield ths = true ∨
      (o = Ord.sc ∧ (a.storeAt i).seqCst = true ∧ (a.storeAt j).seqCst = true) := by
  unfold Atomic.loadBlocked
  cases o <;> simp [Ord.isSC, or_assoc]

/-- `apply_load_coherence` on slot `idx` only raises that slot's `mo`; afterwards every other
slot that the thread has seen, or whose writer's view is strictly below the thread's causality,
is modification-order below (or equal to) the slot being read. -/
theorem Atomic.load_coherence (a : Atomic) (ths : Threads) (idx : Nat)
    (hidx : idx < a.stores.length) :
    let a' := a.applyLoadCoherence ths idx
    (a.storeAt idx).mo.le (a'.storeAt idx).mo ∧
    a'.storeAt idx = { a.storeAt idx with mo := (a'.storeAt idx).mo } ∧
    (∀ i, i ≠ idx → a'.storeAt i = a.storeAt i) ∧ a'.cnt = a.cnt ∧
    (∀ i, i < 7 → i ≠ idx →
      (a.storeAt i).firstSeen.isSeenByCurrent ths = true ∨ (a.storeAt i).hb.blt ths.caus = true →
      (a'.storeAt i).mo.le (a'.storeAt idx).mo) := by
  intro a'
  have hidx' : a'.storeAt idx = { a.storeAt idx with mo := C12.cohMo a ths idx } := by
    show (a.applyLoadCoherence ths idx).storeAt idx = _
    rw [C12.applyLoadCoherence_eq, storeAt_modifyStore, if_pos ⟨rfl, hidx⟩]
  have hne : ∀ i, i ≠ idx → a'.storeAt i = a.storeAt i := by
    intro i hi
    show (a.applyLoadCoherence ths idx).storeAt i = _
    rw [C12.applyLoadCoherence_eq, storeAt_modifyStore_ne _ _ _ _ hi]
  refine ⟨?_, ?_, hne, rfl, ?_⟩
  · rw [hidx']; exact le_cohMo a ths idx
  · rw [hidx']
  · intro i hi hn hc
    rw [hne i hn, hidx']
    exact coh_le_cohMo a ths idx i hi hn hc

/-- CoWW / CoRW in clock form: the `mo` of a new store is above the writer's causality and above
the `mo` of every slot the writer has seen. -/
theorem Atomic.store_coherence (a : Atomic) (ths : Threads) (sync : Sync) (v : Nat) (o : Ord)
    (hlen : a.stores.length = 7) :
    let n := (a.store ths sync v o).storeAt (a.cnt % 7)
    ths.caus.le n.mo ∧
    ∀ i, i < 7 → (a.storeAt i).firstSeen.isSeenByCurrent ths = true → (a.storeAt i).mo.le n.mo := by
  intro n
  have hn : n = _ := C12.storeAt_store_new a ths sync v o hlen
  rw [hn]
  refine ⟨caus_le_newMo a ths, ?_⟩
  intro i hi hs
  exact seen_le_newMo a ths _ (storeAt_mem a i (by rw [hlen]; exact hi)) hs

/-! ## 6. RMW atomicity -/

/-- An RMW is offered exactly the clock-maximal real slots: `i` is a candidate iff no other real
slot has a strictly larger modification-order clock.  This is what the code guarantees about RMW
atomicity; it does NOT imply that no store can later be ordered between the read store and the
RMW's own store (clock-incomparable stores are both maximal) — see finding F4 in DESIGN.md. -/
theorem Atomic.rmw_reads_maximal (a : Atomic) (l : List Nat) (h : a.matchRmwToStores = .ok l) :
    (∀ i, i ∈ l ↔ i < min a.cnt 7 ∧ ∀ j, j < min a.cnt 7 → j ≠ i →
      (a.storeAt i).mo.blt (a.storeAt j).mo = false) ∧
    l.Sublist (List.range 7) := by
  refine ⟨?_, matchOuter_sublist a _ _ l h⟩
  intro i
  rw [match_exact a _ l h i]
  constructor
  · rintro ⟨h1, h2⟩
    refine ⟨h1, fun j hj hne => ?_⟩
    cases hb : (a.storeAt i).mo.blt (a.storeAt j).mo
    · rfl
    · exact absurd (h2 j hj hne hb) (by simp)
  · rintro ⟨h1, h2⟩
    refine ⟨h1, fun j hj hne hlt => ?_⟩
    rw [h2 j hj hne] at hlt; cases hlt

/-! ## 7. `fence(SeqCst)` -/

/-- `seq_cst_fence`: afterwards the fencing thread's causality equals the global SeqCst clock,
which is the join of the old SeqCst clock and the thread's old causality; nothing else in the
thread table changes. -/
theorem Fence.seqcst_total (s : Threads) (hact : s.activeId < s.threads.length) :
    s.seqCstFence.caus = s.seqCstFence.seqCst ∧
    s.seqCstFence.seqCst = s.caus.join s.seqCst ∧
    s.seqCst.le s.seqCstFence.seqCst ∧ s.caus.le s.seqCstFence.caus ∧
    s.seqCstFence = { s.setCaus s.seqCstFence.caus with seqCst := s.seqCstFence.seqCst } := by
  have h1 := seqCstFence_caus hact
  have h2 := seqCstFence_seqCst s
  refine ⟨h1.trans h2.symm, h2, ?_, ?_, ?_⟩
  · rw [h2]; exact le_join_right _ _
  · rw [h1]; exact le_join_left _ _
  · rw [h1, h2]
    show _ = { s.setCaus (s.caus.join s.seqCst) with seqCst := s.caus.join s.seqCst }
    have : s.seqCst.join (s.caus.join s.seqCst) = s.caus.join s.seqCst := h2
    show ({ s.setCaus (s.caus.join s.seqCst) with
      seqCst := s.seqCst.join (s.caus.join s.seqCst) } : Threads) = _
    rw [this]

/-- The SC fences form a chain: if the global SeqCst clock has not shrunk between a fence by `s`'s
active thread and a later fence in state `t` (by any thread), the later fencing thread ends with a
causality above the earlier one's. -/
theorem Fence.seqcst_chain (s t : Threads) (hs : s.activeId < s.threads.length)
    (ht : t.activeId < t.threads.length) (h : s.seqCstFence.seqCst.le t.seqCst) :
    s.seqCstFence.caus.le t.seqCstFence.caus := by
  rw [(Fence.seqcst_total s hs).1, seqCstFence_caus ht]
  exact le_trans h (le_join_right _ _)

/-- The steps of the thread table other than `seq_cst_fence` leave the global SeqCst clock
alone … -/
theorem Threads.seqCst_untouched (s : Threads) :
    (∀ sy o, (s.syncLoad sy o).seqCst = s.seqCst) ∧ (∀ v, (s.setCaus v).seqCst = s.seqCst) ∧
    s.activeCausalityInc.seqCst = s.seqCst ∧ (∀ id, (s.unpark id).seqCst = s.seqCst) ∧
    (∀ id, (s.wake id).seqCst = s.seqCst) ∧
    (∀ i f, (s.modify i f).seqCst = s.seqCst) ∧ (∀ n, ({ s with active := n }).seqCst = s.seqCst) ∧
    (∀ s' id, s.newThread = .ok (s', id) → s'.seqCst = s.seqCst) := by
  refine ⟨fun _ _ => rfl, fun _ => rfl, rfl, ?_, ?_, fun _ _ => rfl, fun _ => rfl, ?_⟩
  · intro id
    unfold Threads.unpark
    split <;> rfl
  · intro id
    unfold Threads.wake
    split <;> rfl
  · intro s' id h
    unfold Threads.newThread at h
    split at h
    · have := Except.ok.inj h
      rw [← (Prod.mk.inj this).1]
    · cases h

/-- … so along ANY interleaving of SC fences (`ScStep.fence`) and steps that do not touch the
SeqCst clock (`ScStep.other`: every other runtime step, by any thread, including switching the
active thread), a later SC fence ends with a causality above that of every earlier SC fence:
the views of SC fences are totally ordered, in execution order. -/
theorem Fence.seqcst_order (s t : Threads) (hs : s.activeId < s.threads.length)
    (ht : t.activeId < t.threads.length) (h : ScSteps s.seqCstFence t) :
    s.seqCstFence.caus.le t.seqCstFence.caus :=
  Fence.seqcst_chain s t hs ht h.seqCst_mono

/-! ## 8. non-vacuity: message passing on one cell, two threads -/

section NonVacuity

private def T (active : Nat) (c0 c1 : List Nat) : Threads :=
  { threads := [{ causality := VV.ofList c0 }, { causality := VV.ofList c1 }],
    active := some active }

private def getOk {α : Type} [Inhabited α] : Except Panic α → α
  | .ok a => a
  | .error _ => default

/-- thread 0 creates the cell (store #0, value 0) … -/
private def cell0 : Atomic := getOk (Atomic.new (T 0 [1, 0, 0, 0, 0] [0, 1, 0, 0, 0]) 0)
/-- … and later stores 42 with `Release` at causality `[2,0,0,0,0]` (store #1) -/
private def cell1 : Atomic := cell0.store (T 0 [2, 0, 0, 0, 0] [0, 1, 0, 0, 0]) Sync.new 42 .rel
/-- thread 1, spawned after the cell was created, not synchronised with thread 0 since -/
private def reader : Threads := T 1 [2, 0, 0, 0, 0] [1, 1, 0, 0, 0]

private def loadBy (a : Atomic) (t : Threads) (idx : Nat) (o : Ord) : Atomic × List Nat × Nat :=
  match a.load t idx o with
  | .ok (a', t', u) => (a', t'.caus.toList, u)
  | .error _ => default

example : cell1.cnt = 2 := by decide +kernel
/-- both stores are offered to thread 1 -/
example : cell1.matchLoadToStores reader .acq = .ok [0, 1] := by decide +kernel
/-- an `Acquire` load of store #1 reads 42 and acquires the writer's clock … -/
example : (loadBy cell1 reader 1 .acq).2 = ([2, 1, 0, 0, 0], 42) := by decide +kernel
/-- … a `Relaxed` load reads 42 and acquires nothing -/
example : (loadBy cell1 reader 1 .rlx).2 = ([1, 1, 0, 0, 0], 42) := by decide +kernel
/-- after having read store #1, thread 1 is no longer offered store #0 (CoRR), with any
ordering … -/
example : (loadBy cell1 reader 1 .rlx).1.matchLoadToStores reader .rlx = .ok [1] := by
  decide +kernel
/-- … while having read store #0 leaves both on offer -/
example : (loadBy cell1 reader 0 .rlx).1.matchLoadToStores reader .rlx = .ok [0, 1] := by
  decide +kernel
/-- an RMW is only offered the mo-maximal store #1 -/
example : cell1.matchRmwToStores = .ok [1] := by decide +kernel

/-- a `Relaxed` `fetch_add(1)` by thread 1 on the `Release` store continues its release sequence:
the RMW thread itself acquires nothing, its store carries the writer's clock `[2,0,…]`, and an
`Acquire` load of that store obtains it -/
private def cell2 : Atomic × List Nat × Nat × Bool :=
  match cell1.rmw reader 1 .rlx .rlx (fun x => some (x + 1)) with
  | .ok (a', t', p, b) => (a', t'.caus.toList, p, b)
  | .error _ => default

example : cell2.2 = ([1, 1, 0, 0, 0], 42, true) := by decide +kernel
example : ((cell2.1.storeAt 2).value, (cell2.1.storeAt 2).sync.hb.toList) =
    (43, [2, 0, 0, 0, 0]) := by decide +kernel
example : (loadBy cell2.1 (T 1 [0, 0, 0, 0, 0] [1, 2, 0, 0, 0]) 2 .acq).2 =
    ([2, 2, 0, 0, 0], 43) := by decide +kernel

/-- two SC fences: the second fencing thread ends above the first -/
example : ((T 0 [3, 0, 0, 0, 0] [0, 4, 0, 0, 0]).seqCstFence.caus.toList,
    ({ (T 0 [3, 0, 0, 0, 0] [0, 4, 0, 0, 0]).seqCstFence with active := some 1 } :
      Threads).seqCstFence.caus.toList) = ([3, 0, 0, 0, 0], [3, 4, 0, 0, 0]) := by decide +kernel

/-! The two side conditions are needed (and hold in every runtime state): with a ring that does
not have its 7 slots a store is lost, and with an `active` index outside the thread table an
acquiring load acquires nothing. -/
example : ((({ stores := [] } : Atomic).store reader Sync.new 42 .rel).storeAt 0).value = 0 := by
  decide +kernel
example : (({ reader with active := some 4 } : Threads).syncLoad
    ⟨VV.ofList [2, 0, 0, 0, 0]⟩ .acq).caus.toList = [0, 0, 0, 0, 0] := by decide +kernel

end NonVacuity

end LoomVerif

/-
THE VECTOR CLOCKS OF THE REFERENCE SEMANTICS DECIDE THE DECLARATIVE DATA RACE
(lock fragment of the DSL; extended to rwlocks, `Notify`, park/unpark and channels).

`Spec/SC.lean` — the trusted meaning of "data race" for the checks of this project — does not define a race
declaratively: it RUNS the textbook vector-clock algorithm (every thread carries `St.vc`; mutexes, rwlocks, notifies,
park tokens, channels and messages carry clocks; cells carry `cellW` / `cellR`; a cell access compares the cell clocks
with the clock of the accessing thread and stops the execution with `Verdict.race k` when they are not below it).
This file removes the trust in that algorithm: the verdict it computes is exactly the declarative property

  "two conflicting accesses of one cell by different threads (at least one a write) that are not ordered by
   happens-before",

where happens-before is defined on the EVENTS of an execution without any clock.

DEFINITIONS (all in `Proofs/VCSoundDefs.lean`, meant to be read):
* `VCSound.Run p tr s`: executions of the reference WITH HISTORY — `tr` is the list of the steps `(t, s, s')` taken from
  `SC.init p` (each `s' ∈ SC.step p s t` with `SC.enabled p s t`), `s` the state reached.  `run_iff_SCExec`: these are
  the executions `Refine.SCExec` of `Props/Refine.lean`.
* `VCSound.Event` (thread, operation, recorded result), `VCSound.events p tr`: the events of a trace; the index of an
  event is its position.
* `VCSound.Edge evs j i` (`j < i`): the generating edges —
    PROGRAM ORDER: `evs[j]`, `evs[i]` are steps of the same thread;
    SPAWN: `evs[j]` is the `spawn` of the thread of `evs[i]`;
    JOIN: `evs[i]` is a `join` of the thread of `evs[j]`;
    RELEASE → ACQUIRE (`Event.Rel`, `Event.Acq`, `VCSound.Obj`): `evs[j]` releases into a synchronisation object and
      `evs[i]` acquires from the SAME object — every release happens before EVERY LATER acquire:
        mutex `m`:    `unlock m` → `lock m` / `trylock m` that returned 1            (the lock fragment)
        rwlock `l`:   `unrd l` / `unwr l` → `rd l` / `wr l` / successful `tryrd l` / `trywr l`
        `Notify n`:   `nnotify n` → `nwait n`
        token of `u`: `unpark u` → `park` by thread `u`;
    MESSAGE (`ChanSync true`): `evs[j]` is a `send q` before the receiver of `q` is dropped — it puts message number
      `n` into the channel — and `evs[i]` is the event that takes message number `n` out of it: the `recv q` /
      successful `tryrecv q` before which exactly `n` messages had been taken (FIFO), or the `droprx q` that discards
      it: "send → the recv that receives that message".
  `VCSound.HB evs`: the TRANSITIVE CLOSURE (`Relation.TransGen`) of `Edge evs`.  `HBeq`: or equal.
* `VCSound.Conflict a b`: both access the same cell and one of them writes it.
* `VCSound.clocks tr`: the clock `St.vc` of the stepping thread after each step (the algorithm's data).
* `Event.ticks`: the operation advances the own component of its thread (`SC.step` ticks on every operation except
  `ifEq` and the end of the thread; cell accesses, lock operations, `spawn` and `join` all tick).

=====================================================================================================================
WHAT "HAPPENS-BEFORE" THE REFERENCE DECIDES — read this before trusting its verdict as "the" data race.
Every synchronisation object of `Spec/SC.lean` carries ONE clock that ACCUMULATES all releases and is never reset, as
loom's own objects do.  So the relation the reference (and loom) decides is

    release → EVERY LATER acquire of the same object,

not "release → the acquire that consumes it".  For a mutex this is the textbook relation.  For the others it is the
happens-before of an implementation whose release operations are read-modify-writes on one word (C++20 release
sequences continue through RMWs), and MORE than "the wait it wakes":
* `Notify`: a `nwait` acquires from EVERY earlier `nnotify` of the object, not only from the one whose notification it
  consumes.  `Example.Notify2` is a kernel-checked run of a program of the wait fragment (`Refine2.WF2`) in which a
  write and a read of a cell are ordered ONLY by such an edge (`nnotify` of thread 0 → `nwait` of thread 3, although
  thread 1 consumed that notification): the reference reports no race (`Example.Notify2.trace_events`), and with
  "notify → only the wait it wakes" the two accesses would be unordered, i.e. a data race
  (`Example.Notify2.unordered_if_wake_only`).
* rwlock: `unrd l` → later `rd l` is an edge (readers synchronise with later readers; `Example.Sync2`).
* park token: `unpark u` → every later `park` of `u`; all parks of `u` are in program order, so this IS the closure of
  "unpark → the park that consumes the token".
* channels: the clock of a message is the accumulated clock of ALL sends so far, so a take also acquires from the
  sends of the earlier messages.  With a SINGLE CONSUMER per channel (`Refine2.RxOrder`, part of `WFX`; std `mpsc` has
  one `Receiver`) the earlier messages were taken by earlier steps of the same thread and this is exactly "send → the
  recv that receives that message" (`hb_iff_hba`, `Proofs/VCSoundExact.lean`); with two consumers it is not
  (not covered: `WFX` excludes it).
=====================================================================================================================

COVERED
* the lock fragment of `Props/Refine.lean` — `spawn`, `join`, `lock`, `tryLock`, `unlock`, `cellRead`, `cellWrite`,
  `ifEq`, the end of a thread — under `Refine.WF p`: theorems without suffix (`race_reported_iff_unordered_conflict`, …);
* in addition `rd`, `tryrd`, `wr`, `trywr`, `unrd`, `unwr`, `nwait`, `nnotify`, `park`, `unpark`, `send`, `recv`,
  `tryrecv`, `droprx` — under `VCSound.WFX p`: theorems with suffix `_sync` (and all the clock characterisations, which
  are stated once, for `WFX`; `WFX.of_wf : Refine.WF p → WFX p`).
NOT covered (no theorem here): condvars, atomics, the read / write SECTIONS (`crdb` …), arcs, futures, thread-locals,
and the SPURIOUS return of `nwait` (`SC.spurious` is not a step of `SC.step`; a run in the sense of `Run` has none).

HYPOTHESES, all explicit:
* `Refine.WF p` / `VCSound.WFX p` (decidable): only fragment operations, declared cells, mutexes, rwlocks, notifies and
  channels, `spawn t` names an existing body `0 < t`, every body is spawned by at most one operation of the text, all
  receiver-side operations on a channel are in one body.  Each part is needed: an undeclared object has no clock in the
  reference (`List.set` out of range does nothing), so its accesses / releases are never recorded; a second `spawn` of a
  running body would join the spawner's clock into the middle of the child; two consumers: see above.
* `p.threads.length ≤ 5` (`MAX_THREADS`): a version vector has 5 slots and `VV.inc t` is the identity for `t ≥ 5`.
  Beyond that the reference misses races: `six_threads_race_unreported` below is a kernel-checked run of a 6-thread
  program in which two unordered writes of a cell are NOT reported.  (Known boundary: `Props/Race.lean` states the same
  hypothesis; real loom refuses to spawn a sixth thread.)

HEADLINES
* `race_reported_iff_unordered_conflict` (`…_sync`): a step of a run stops with a race verdict IFF an earlier access of
  the same cell by another thread conflicts with it and does not happen before it.
* `step_verdict_declarative`: the exact verdict (`none` / `race 9` / `race 10` / `race 11`) of every step, declaratively.
* `completed_trace_is_race_free`, `race_verdict_is_data_race` (`…_sync`): the trace-level corollaries.
* `clock_le_iff_hb`, `clock_component_le_iff_hb`: the textbook characterisation — for a ticking event `j` and ANY
  event `i` of a run, `clock j ≤ clock i` (equivalently: own component of `clock j` ≤ that component of `clock i`) iff
  `j = i` or `j` happens before `i`.
* `thread_clock_iff`, `object_clock_iff` (`mutex_clock_iff`), `cellW_clock_iff`, `cellR_clock_iff`: what every clock
  STORED in a reachable state knows, declaratively.  `own_component_counts`, `clock_stamp_counts`: the own component
  counts the ticking steps of the thread (plus its `spawn`).
* Non-vacuity: `Example.Locked` (mutex-protected cell: the enumerator of the reference finds no race in any trace, so
  all conflicting accesses of every run are ordered; one trace and its `unlock → lock` edge are exhibited),
  `Example.Racy` (a trace ending in `race 9`, the unordered pair named and proved unordered FROM THE DEFINITION of `HB`),
  `Example.Notify2`, `Example.Sync2` (rwlock, park token), `Example.Chan` (message edge), `Example.Six`.
-/
import LoomVerif.Proofs.VCSoundFinal

namespace LoomVerif
namespace VCSound
open Refine (WF SCExec)

variable {p : Prog} {tr : List Step} {s : SC.St}

/-! ## 0. runs with history are the executions of the reference -/

theorem run_iff_SCExec (p : Prog) (s : SC.St) : SCExec p (SC.init p) s ↔ ∃ tr, Run p tr s := by
  constructor
  · intro h
    have key : ∀ {s0 s : SC.St}, SCExec p s0 s → ∀ tr0, Run p tr0 s0 → ∃ tr, Run p tr s := by
      intro s0 s h
      induction h with
      | nil => intro tr0 h0; exact ⟨tr0, h0⟩
      | step _ hen hstep ih =>
        intro tr0 h0
        obtain ⟨tr, hr⟩ := ih tr0 h0
        exact ⟨_, .snoc hr hen hstep⟩
    exact key h [] .nil
  · rintro ⟨tr, h⟩
    induction h with
    | nil => exact .nil _
    | snoc _ hen hstep ih => exact .step ih hen hstep

/-! ## 1. the clocks characterise happens-before -/

/-- **Vector-clock characterisation (component form).**  In a run of a well-formed program of the fragment with at
most five threads, let `j` be a TICKING event (any operation except `ifEq` / thread end) of thread `u = ej.t`, and
`i` ANY event.  Then the own component of the clock of `j` — the value of `(vc u)[u]` right after the tick of step `j`,
i.e. the number of ticks of `u` so far (plus one if `u` was spawned: `spawn` starts the child at `1`) — is at most
the `u`-component of the clock of `i` IFF `j = i` or `j` happens before `i`. -/
theorem clock_component_le_iff_hb (hwf : WFX p) (hlen : p.threads.length ≤ 5) (h : Run p tr s) {j i : Nat}
    {ej ei : Step} (hj : tr[j]? = some ej) (hi : tr[i]? = some ei) (ht : (ej.ev p).ticks = true) :
    ej.clock.get ej.t ≤ ei.clock.get ej.t ↔ HBeq (events p tr) j i :=
  h.clock_get_le_iff_hb hwf hlen hj hi ht

/-- **What the own component counts** (how `SC.step` ticks): `(s.vc u)[u]` is the number of events so far that ADVANCE
component `u` (`Event.advances u`): the ticking steps of `u` (every operation except `ifEq` and the end of the thread)
and the `spawn` of `u` (none for the main thread; exactly one otherwise, which starts the child at `1`). -/
theorem own_component_counts (hwf : WFX p) (hlen : p.threads.length ≤ 5) (h : Run p tr s) {u : Nat} (hu : u < 5) :
    (s.vc u).get u = advCount (events p tr) u :=
  (h.invK hwf hlen).own u hu

/-- … and the own component of the clock of a ticking event `j` of thread `u` is that count at `j`: event `j` is the
`k`-th event that advances `u`, for `k = ej.clock.get ej.t`.  With `clock_component_le_iff_hb` / `thread_clock_iff`:
`(s.vc t)[u] ≥ k` iff the `k`-th advancing event of `u` happens-before-or-equals the current point of `t` (for the
ticking steps of `u`; the `spawn` of `u`, which is advancing event number 1 of a spawned thread, is a step of another
thread). -/
theorem clock_stamp_counts (hwf : WFX p) (hlen : p.threads.length ≤ 5) (h : Run p tr s) {j : Nat} {ej : Step}
    (hj : tr[j]? = some ej) (ht : (ej.ev p).ticks = true) :
    ej.clock.get ej.t = advCount ((events p tr).take (j + 1)) ej.t :=
  (h.invK hwf hlen).stamp j (ej.ev p) ej.clock (by rw [events_getElem?, hj]; rfl) (by rw [clocks_getElem?, hj]; rfl) ht

/-- **Vector-clock characterisation (whole clocks).**  `clock j ≤ clock i` iff `j = i` or `j` happens before `i`. -/
theorem clock_le_iff_hb (hwf : WFX p) (hlen : p.threads.length ≤ 5) (h : Run p tr s) {j i : Nat}
    {ej ei : Step} (hj : tr[j]? = some ej) (hi : tr[i]? = some ei) (ht : (ej.ev p).ticks = true) :
    ej.clock.le ei.clock ↔ HBeq (events p tr) j i :=
  h.clock_le_iff_hb hwf hlen hj hi ht

/-- **Thread clocks of a reachable state.**  `(s.vc u)[ej.t] ≥` the own component of the clock of the ticking event
`j` IFF `j` happens-before-or-equals the current point of `u`: a step of `u`, or (when `u` has not stepped yet) the
`spawn` of `u` (`Vis`). -/
theorem thread_clock_iff (hwf : WFX p) (hlen : p.threads.length ≤ 5) (h : Run p tr s) {j : Nat} {ej : Step}
    (hj : tr[j]? = some ej) (ht : (ej.ev p).ticks = true) (u : Nat) :
    ej.clock.get ej.t ≤ (s.vc u).get ej.t ↔
      ∃ (i : Nat) (e : Event), (events p tr)[i]? = some e ∧ (e.thr = u ∨ e.op = some (.spawn u)) ∧
        HBeq (events p tr) j i :=
  h.vc_iff_hb hwf hlen hj ht u

/-- **Clocks of synchronisation objects** (`mutexRel m`, `rwRel l`, `nRel n`, `tokenVC` of thread `u`; `View.orel`):
the clock of `o` knows the ticking event `j` iff `j` happens-before-or-equals a release into `o` — for every object
from which somebody can still acquire (`¬ Dead`: an `unpark` of a thread that has ended is not recorded). -/
theorem object_clock_iff (hwf : WFX p) (hlen : p.threads.length ≤ 5) (h : Run p tr s) {j : Nat} {ej : Step}
    (hj : tr[j]? = some ej) (ht : (ej.ev p).ticks = true) (o : Obj) (hd : ¬ Dead p (view s) o) :
    ej.clock.get ej.t ≤ ((view s).orel o).get ej.t ↔
      ∃ (i : Nat) (a : Event), (events p tr)[i]? = some a ∧ a.Rel o ∧ HBeq (events p tr) j i :=
  h.orel_iff_hb hwf hlen hj ht o hd

/-- **Mutex clocks**: `mutexRel m` knows the ticking event `j` iff `j` happens-before-or-equals an `unlock m`. -/
theorem mutex_clock_iff (hwf : WFX p) (hlen : p.threads.length ≤ 5) (h : Run p tr s) {j : Nat} {ej : Step}
    (hj : tr[j]? = some ej) (ht : (ej.ev p).ticks = true) (m : Nat) :
    ej.clock.get ej.t ≤ (s.mutexRel.getD m VV.zero).get ej.t ↔
      ∃ (i : Nat) (a : Event), (events p tr)[i]? = some a ∧ a.op = some (.unlock m) ∧ HBeq (events p tr) j i := by
  have := h.orel_iff_hb hwf hlen hj ht (.mutex m) (by rintro (⟨u, hu, _⟩ | ⟨q, hq, _⟩) <;> first | cases hu | cases hq)
  rw [show ((view s).orel (.mutex m)) = s.mutexRel.getD m VV.zero from rfl] at this
  rw [this]
  constructor
  · rintro ⟨i, a, h1, ⟨op, h2, h3⟩, h4⟩
    refine ⟨i, a, h1, ?_, h4⟩
    rw [h2]
    cases op <;> simp [relObjOf] at h3
    rw [h3]
  · rintro ⟨i, a, h1, h2, h3⟩
    exact ⟨i, a, h1, ⟨_, h2, rfl⟩, h3⟩

/-- **Last-write clocks of cells**: `cellW c` knows the ticking event `j` iff `j` happens-before-or-equals a write of
`c` (in a state that has not stopped). -/
theorem cellW_clock_iff (hwf : WFX p) (hlen : p.threads.length ≤ 5) (h : Run p tr s) (hv : s.verdict = none)
    {j : Nat} {ej : Step} (hj : tr[j]? = some ej) (ht : (ej.ev p).ticks = true) (c : Nat) :
    ej.clock.get ej.t ≤ (s.cellW.getD c VV.zero).get ej.t ↔
      ∃ (i : Nat) (a : Event), (events p tr)[i]? = some a ∧ a.isWrite c ∧ HBeq (events p tr) j i :=
  h.cellW_iff_hb hwf hlen hv hj ht c

/-- **Read clocks of cells**: `cellR c` knows the ticking event `j` iff `j` happens-before-or-equals a read of `c`. -/
theorem cellR_clock_iff (hwf : WFX p) (hlen : p.threads.length ≤ 5) (h : Run p tr s) (hv : s.verdict = none)
    {j : Nat} {ej : Step} (hj : tr[j]? = some ej) (ht : (ej.ev p).ticks = true) (c : Nat) :
    ej.clock.get ej.t ≤ (s.cellR.getD c VV.zero).get ej.t ↔
      ∃ (i : Nat) (a : Event), (events p tr)[i]? = some a ∧ a.isRead c ∧ HBeq (events p tr) j i :=
  h.cellR_iff_hb hwf hlen hv hj ht c

/-! ## 2. the race verdict is the declarative data race -/

/-- **The verdict of every step, declaratively.**  `UnordAt p tr n t P`: some event `j < n` of a thread other than `t`
satisfies `P` and does NOT happen before event `n`.  Step `n` of a run (thread `e.t`)
* leaves no verdict iff no earlier conflicting access of another thread is unordered with it;
* stops with `race 9` iff it is a read of a cell with an unordered earlier write;
* stops with `race 10` iff it is a write of a cell with an unordered earlier write;
* stops with `race 11` iff it is a write of a cell all of whose earlier writes are ordered before it, with an
  unordered earlier read.
(The four cases are exhaustive and their right-hand sides mutually exclusive, so each line is an "iff".) -/
theorem step_verdict_declarative (hwf : WFX p) (hlen : p.threads.length ≤ 5) (h : Run p tr s) {n : Nat} {e : Step}
    (hn : tr[n]? = some e) :
    (e.s'.verdict = none ∧ ¬ UnordAt p tr n e.t (Conflict · (e.ev p))) ∨
    (e.s'.verdict = some (.race 9) ∧ ∃ x, (e.ev p).isRead x ∧ UnordAt p tr n e.t (·.isWrite x)) ∨
    (e.s'.verdict = some (.race 10) ∧ ∃ x, (e.ev p).isWrite x ∧ UnordAt p tr n e.t (·.isWrite x)) ∨
    (e.s'.verdict = some (.race 11) ∧ ∃ x, (e.ev p).isWrite x ∧ ¬ UnordAt p tr n e.t (·.isWrite x) ∧
      UnordAt p tr n e.t (·.isRead x)) :=
  h.verdict_at_hb hwf hlen hn

/-- **HEADLINE (fragment with rwlocks, `Notify`, park/unpark).**  Step `n` of a run of the reference stops with
`Verdict.race k` IFF there is an earlier event `j` of the trace, by ANOTHER thread, that CONFLICTS with it (both access
the same cell, one of the two is a write) and is NOT happens-before it. -/
theorem race_reported_iff_unordered_conflict_sync (hwf : WFX p) (hlen : p.threads.length ≤ 5) (h : Run p tr s)
    {n : Nat} {e : Step} (hn : tr[n]? = some e) :
    (∃ k, e.s'.verdict = some (.race k)) ↔
      ∃ (j : Nat) (a : Event), j < n ∧ (events p tr)[j]? = some a ∧ a.thr ≠ e.t ∧ Conflict a (e.ev p) ∧
        ¬ HB (events p tr) j n := by
  have hU : ∀ {P : Event → Prop}, (∀ a, P a → Conflict a (e.ev p)) → UnordAt p tr n e.t P →
      UnordAt p tr n e.t (Conflict · (e.ev p)) := by
    rintro P hP ⟨j, a, h1, h2, h3, h4, h5⟩
    exact ⟨j, a, h1, h2, h3, hP a h4, h5⟩
  rcases h.verdict_at_hb hwf hlen hn with ⟨hv, hu⟩ | ⟨hv, x, hx, hu⟩ | ⟨hv, x, hx, hu⟩ | ⟨hv, x, hx, _, hu⟩
  · constructor
    · rintro ⟨k, hk⟩; rw [hv] at hk; cases hk
    · intro hh; exact (hu hh).elim
  · exact ⟨fun _ => hU (fun a ha => ⟨x, .inl ⟨ha, .inl hx⟩⟩) hu, fun _ => ⟨9, hv⟩⟩
  · exact ⟨fun _ => hU (fun a ha => ⟨x, .inl ⟨ha, .inr hx⟩⟩) hu, fun _ => ⟨10, hv⟩⟩
  · exact ⟨fun _ => hU (fun a ha => ⟨x, .inr ⟨.inl ha, hx⟩⟩) hu, fun _ => ⟨11, hv⟩⟩

/-- **HEADLINE (lock fragment, `Refine.WF`).**  A step of the reference stops with `Verdict.race k` at a cell access
IFF there is an earlier access of the same cell in the trace by another thread, conflicting with it (one of the two is
a write), that is NOT happens-before the current access. -/
theorem race_reported_iff_unordered_conflict (hwf : WF p) (hlen : p.threads.length ≤ 5) (h : Run p tr s) {n : Nat}
    {e : Step} (hn : tr[n]? = some e) :
    (∃ k, e.s'.verdict = some (.race k)) ↔
      ∃ (j : Nat) (a : Event), j < n ∧ (events p tr)[j]? = some a ∧ a.thr ≠ e.t ∧ Conflict a (e.ev p) ∧
        ¬ HB (events p tr) j n :=
  race_reported_iff_unordered_conflict_sync (WFX.of_wf hwf) hlen h hn

/-- the only verdicts a run of the fragment can reach are the three race verdicts -/
theorem verdict_is_race (hwf : WFX p) (hlen : p.threads.length ≤ 5) (h : Run p tr s) :
    s.verdict = none ∨ s.verdict = some (.race 9) ∨ s.verdict = some (.race 10) ∨ s.verdict = some (.race 11) := by
  rcases h.last with ⟨_, rfl⟩ | ⟨tr0, e, rfl, rfl⟩
  · exact .inl rfl
  · have hn : (tr0 ++ [e])[tr0.length]? = some e := by
      rw [List.getElem?_append_right (Nat.le_refl _)]; simp
    rcases h.verdict_at_hb hwf hlen hn with ⟨hv, _⟩ | ⟨hv, _⟩ | ⟨hv, _⟩ | ⟨hv, _⟩
    · exact .inl hv
    · exact .inr (.inl hv)
    · exact .inr (.inr (.inl hv))
    · exact .inr (.inr (.inr hv))

/-- **A trace without a race verdict is data-race free**: in a run whose end state carries no race verdict, any two
conflicting accesses of different threads are ordered by happens-before. -/
theorem completed_trace_is_race_free_sync (hwf : WFX p) (hlen : p.threads.length ≤ 5) (h : Run p tr s)
    (hs : ∀ k, s.verdict ≠ some (.race k)) {j i : Nat} {a b : Event} (hji : j < i)
    (ha : (events p tr)[j]? = some a) (hb : (events p tr)[i]? = some b) (hne : a.thr ≠ b.thr)
    (hc : Conflict a b) : HB (events p tr) j i := by
  rw [events_getElem?] at hb
  cases hti : tr[i]? with
  | none => rw [hti] at hb; cases hb
  | some e =>
    rw [hti] at hb; cases hb
    apply Classical.byContradiction
    intro hn
    obtain ⟨k, hk⟩ := (race_reported_iff_unordered_conflict_sync hwf hlen h hti).2 ⟨j, a, hji, ha, hne, hc, hn⟩
    rcases h.after hti with ⟨_, he⟩ | ⟨_, he⟩
    · rw [he] at hk; exact hs k hk
    · rw [he] at hk; cases hk

/-- the same for the lock fragment (`Refine.WF`) -/
theorem completed_trace_is_race_free (hwf : WF p) (hlen : p.threads.length ≤ 5) (h : Run p tr s)
    (hs : ∀ k, s.verdict ≠ some (.race k)) {j i : Nat} {a b : Event} (hji : j < i)
    (ha : (events p tr)[j]? = some a) (hb : (events p tr)[i]? = some b) (hne : a.thr ≠ b.thr)
    (hc : Conflict a b) : HB (events p tr) j i :=
  completed_trace_is_race_free_sync (WFX.of_wf hwf) hlen h hs hji ha hb hne hc

/-- **The reference's race verdict is the declarative data race**: a run that ends with `Verdict.race k` contains two
conflicting accesses of different threads that are not ordered by happens-before (the later one is the last step). -/
theorem race_verdict_is_data_race_sync (hwf : WFX p) (hlen : p.threads.length ≤ 5) (h : Run p tr s) {k : Nat}
    (hk : s.verdict = some (.race k)) :
    ∃ (j i : Nat) (a b : Event), j < i ∧ i + 1 = tr.length ∧ (events p tr)[j]? = some a ∧
      (events p tr)[i]? = some b ∧ a.thr ≠ b.thr ∧ Conflict a b ∧ ¬ HB (events p tr) j i := by
  rcases h.last with ⟨_, rfl⟩ | ⟨tr0, e, rfl, rfl⟩
  · cases hk
  · have hn : (tr0 ++ [e])[tr0.length]? = some e := by
      rw [List.getElem?_append_right (Nat.le_refl _)]; simp
    obtain ⟨j, a, h1, h2, h3, h4, h5⟩ := (race_reported_iff_unordered_conflict_sync hwf hlen h hn).1 ⟨k, hk⟩
    exact ⟨j, tr0.length, a, e.ev p, h1, by simp, h2, by rw [events_getElem?, hn]; rfl, h3, h4, h5⟩

/-- the same for the lock fragment (`Refine.WF`) -/
theorem race_verdict_is_data_race (hwf : WF p) (hlen : p.threads.length ≤ 5) (h : Run p tr s) {k : Nat}
    (hk : s.verdict = some (.race k)) :
    ∃ (j i : Nat) (a b : Event), j < i ∧ i + 1 = tr.length ∧ (events p tr)[j]? = some a ∧
      (events p tr)[i]? = some b ∧ a.thr ≠ b.thr ∧ Conflict a b ∧ ¬ HB (events p tr) j i :=
  race_verdict_is_data_race_sync (WFX.of_wf hwf) hlen h hk

/-! ## 3. non-vacuity -/

namespace Example

/-- an edge of a concrete event list, from its components (all decidable) -/
theorem edge_of {evs : List Event} {j i : Nat} {a b : Event} (hlt : j < i) (ha : evs[j]? = some a)
    (hb : evs[i]? = some b) (hs : Sync a b) : Edge evs j i := ⟨hlt, .inl ⟨a, b, ha, hb, hs⟩⟩

/-! ### a mutex-protected cell: no race in any trace -/
namespace Locked

/-- `cfg c=1 m=1 | T0: spawn 1; lock 0; cwr 0 1; unlock 0; join 1 | T1: lock 0; crd 0; unlock 0` -/
def prog : Prog :=
  { cfg := { nCells := 1, nMutexes := 1 },
    threads := [[.spawn 1, .lock 0, .cellWrite 0 1, .unlock 0, .join 1], [.lock 0, .cellRead 0, .unlock 0]] }

theorem wf : WF prog ∧ prog.threads.length ≤ 5 := by decide +kernel

/-- the main thread takes the lock first -/
def sched : List Nat := [0, 0, 0, 0, 1, 1, 1, 1, 0, 0]
def trace : List Step := (traceOf prog sched).1
def final : SC.St := (traceOf prog sched).2

theorem run : Run prog trace final := traceOf_run prog sched

/-- the events of the trace (kernel-evaluated), and no verdict at its end -/
theorem trace_events : events prog trace =
    [⟨0, some (.spawn 1), some .unit⟩, ⟨0, some (.lock 0), some .unit⟩, ⟨0, some (.cellWrite 0 1), some .unit⟩,
     ⟨0, some (.unlock 0), some .unit⟩, ⟨1, some (.lock 0), some .unit⟩, ⟨1, some (.cellRead 0), some (.val 1)⟩,
     ⟨1, some (.unlock 0), some .unit⟩, ⟨1, none, none⟩, ⟨0, some (.join 1), some .unit⟩, ⟨0, none, none⟩] ∧
    final.verdict = none := by
  decide +kernel

/-- its clocks (kernel-evaluated): the `lock` of thread 1 (event 4) acquires `[4,0,…]` from the `unlock` (event 3) -/
theorem trace_clocks : (clocks trace).map VV.toList =
    [[1, 0, 0, 0, 0], [2, 0, 0, 0, 0], [3, 0, 0, 0, 0], [4, 0, 0, 0, 0], [4, 2, 0, 0, 0], [4, 3, 0, 0, 0],
     [4, 4, 0, 0, 0], [4, 4, 0, 0, 0], [5, 4, 0, 0, 0], [5, 4, 0, 0, 0]] := by
  decide +kernel

/-- **the `unlock 0 → lock 0` edge** from event 3 (thread 0) to event 4 (thread 1): a generating edge of `HB` -/
theorem unlock_lock_edge : Edge (events prog trace) 3 4 := by
  rw [trace_events.1]
  exact edge_of (by decide) rfl rfl
    (.inr (.inr (.inr ⟨.mutex 0, ⟨_, rfl, rfl⟩, ⟨_, rfl, rfl, fun h => by cases h⟩⟩)))

/-- hence the write (event 2) happens before the read (event 5): program order, the mutex edge, program order;
proved from the DEFINITION of `HB` -/
theorem write_hb_read : HB (events prog trace) 2 5 := by
  have e23 : Edge (events prog trace) 2 3 := by
    rw [trace_events.1]; exact edge_of (by decide) rfl rfl (.inl rfl)
  have e45 : Edge (events prog trace) 4 5 := by
    rw [trace_events.1]; exact edge_of (by decide) rfl rfl (.inl rfl)
  exact .tail (.tail (.single e23) unlock_lock_edge) e45

/-- … and the clocks agree (by the theorem, and by evaluation: `[3,0,…] ≤ [4,3,…]`) -/
example : ((clocks trace)[2]?.bind fun a => (clocks trace)[5]?.map fun b => a.ble b) = some true := by
  decide +kernel

/-- the enumerator of the reference (kernel-evaluated, `Props/Oracle.lean`) finds 5 terminal states reachable, all with
verdict `ok` -/
theorem naive_all_ok : (SC.outcomesNaive prog 14 (SC.init prog)).map
    (fun l => (l.length, l.all fun o => o.verdict == .ok)) = some (5, true) := by
  decide +kernel

/-- **no trace of the program ends in a race** (by the verified enumerator) -/
theorem no_race {tr : List Step} {s : SC.St} (h : Run prog tr s) (k : Nat) : s.verdict ≠ some (.race k) := by
  cases hn : SC.outcomesNaive prog 14 (SC.init prog) with
  | none => have := naive_all_ok; rw [hn] at this; cases this
  | some l =>
    have hall := naive_all_ok
    rw [hn] at hall
    simp only [Option.map_some, Option.some.injEq, Prod.mk.injEq] at hall
    refine no_race_of_naive hn ?_ h k
    intro o ho k' hk
    have := List.all_eq_true.1 hall.2 o ho
    rw [hk] at this
    cases this

/-- **… hence in EVERY trace of the program all conflicting accesses of different threads are ordered by
happens-before** (`completed_trace_is_race_free`) -/
theorem all_traces_ordered {tr : List Step} {s : SC.St} (h : Run prog tr s) {j i : Nat} {a b : Event} (hji : j < i)
    (ha : (events prog tr)[j]? = some a) (hb : (events prog tr)[i]? = some b) (hne : a.thr ≠ b.thr)
    (hc : Conflict a b) : HB (events prog tr) j i :=
  completed_trace_is_race_free wf.1 wf.2 h (no_race h) hji ha hb hne hc

end Locked

/-! ### an unprotected cell: a trace ending in a race -/
namespace Racy

/-- `cfg c=1 | T0: spawn 1; cwr 0 1; join 1 | T1: crd 0` -/
def prog : Prog :=
  { cfg := { nCells := 1 }, threads := [[.spawn 1, .cellWrite 0 1, .join 1], [.cellRead 0]] }

theorem wf : WF prog ∧ prog.threads.length ≤ 5 := by decide +kernel

def sched : List Nat := [0, 0, 1]
def trace : List Step := (traceOf prog sched).1
def final : SC.St := (traceOf prog sched).2

theorem run : Run prog trace final := traceOf_run prog sched

/-- the trace: `spawn 1`, the write by thread 0, the read by thread 1 — which stops with `race 9` -/
theorem trace_events : events prog trace =
    [⟨0, some (.spawn 1), some .unit⟩, ⟨0, some (.cellWrite 0 1), some .unit⟩, ⟨1, some (.cellRead 0), none⟩] ∧
    final.verdict = some (.race 9) := by
  decide +kernel

/-- **the unordered pair**: the write (event 1, thread 0) and the read (event 2, thread 1) conflict … -/
theorem pair_conflicts : Conflict ⟨0, some (.cellWrite 0 1), some .unit⟩ ⟨1, some (.cellRead 0), none⟩ :=
  ⟨0, .inl ⟨⟨1, rfl⟩, .inl rfl⟩⟩

/-- … and are NOT ordered by happens-before: proved from the DEFINITION of `HB` (no edge `1 → 2`: different threads,
event 1 is not a `spawn`, event 2 is neither a `join` nor an acquire; and no event lies between them) -/
theorem pair_unordered : ¬ HB (events prog trace) 1 2 := by
  rw [trace_events.1]
  intro h
  cases h with
  | single e =>
    obtain ⟨_, ⟨a, b, ha, hb, hs⟩ | ⟨q, a, b, ha, hb, ⟨x, hx⟩, _⟩⟩ := e
    · simp only [List.getElem?_cons_succ, List.getElem?_cons_zero, Option.some.injEq] at ha hb
      subst ha hb
      rcases hs with h | h | h | ⟨o, ⟨op, h1, h2⟩, ⟨op', h3, h4, _⟩⟩
      · simp at h
      · simp at h
      · simp at h
      · simp only [Option.some.injEq] at h3; subst h3; simp [acqObjOf] at h4
    · simp only [List.getElem?_cons_succ, List.getElem?_cons_zero, Option.some.injEq] at ha
      subst ha
      simp at hx
  | tail h1 e =>
    have := HB.lt h1
    have := e.1
    omega

/-- the theorem gives the same pair: the run ends in a race, so it contains an unordered conflicting pair whose later
member is the last step -/
example : ∃ (j i : Nat) (a b : Event), j < i ∧ i + 1 = trace.length ∧ (events prog trace)[j]? = some a ∧
    (events prog trace)[i]? = some b ∧ a.thr ≠ b.thr ∧ Conflict a b ∧ ¬ HB (events prog trace) j i :=
  race_verdict_is_data_race wf.1 wf.2 run trace_events.2

/-- and conversely the declarative side alone forces the verdict: since the pair above is unordered, the headline
theorem says step 2 stops with a race verdict -/
example : ∃ k, final.verdict = some (.race k) := by
  have hlen : trace.length = 3 := by
    have := congrArg List.length trace_events.1
    simpa [events] using this
  have hn : trace[2]? = some trace[2] := List.getElem?_eq_getElem (by omega)
  have hev : trace[2].ev prog = ⟨1, some (.cellRead 0), none⟩ := by
    have h1 := events_getElem? prog trace 2
    rw [hn, trace_events.1] at h1
    exact (Option.some.inj h1).symm
  have ht : trace[2].t = 1 := congrArg Event.thr hev
  have hlast : trace[2].s' = final := by
    rcases run.after hn with ⟨_, h⟩ | ⟨h, _⟩
    · exact h
    · omega
  rw [← hlast]
  refine (race_reported_iff_unordered_conflict wf.1 wf.2 run hn).2
    ⟨1, ⟨0, some (.cellWrite 0 1), some .unit⟩, by decide, by rw [trace_events.1]; rfl, by rw [ht]; decide, ?_,
      pair_unordered⟩
  rw [hev]; exact pair_conflicts

end Racy

/-! ### `Notify`: a wait acquires from every earlier notification, not only from the one that wakes it -/
namespace Notify2

/-- `cfg c=1 n=1 | T0: spawn 1; spawn 2; spawn 3; cwr 0 1; nnotify 0 | T1: nwait 0 | T2: nnotify 0 | T3: nwait 0; crd 0` -/
def prog : Prog :=
  { cfg := { nCells := 1, nNotifies := 1 },
    threads := [[.spawn 1, .spawn 2, .spawn 3, .cellWrite 0 1, .nNotify 0], [.nWait 0], [.nNotify 0],
                [.nWait 0, .cellRead 0]] }

/-- a program of this development's fragment AND of the wait fragment of `Props/Refine2.lean` -/
theorem wf : WFX prog ∧ Refine2.WF2 prog ∧ prog.threads.length ≤ 5 := by decide +kernel

/-- thread 0 writes and notifies; thread 1 consumes that notification; thread 2 notifies; thread 3 waits, reads -/
def sched : List Nat := [0, 0, 0, 0, 0, 1, 2, 3, 3]
def trace : List Step := (traceOf prog sched).1
def final : SC.St := (traceOf prog sched).2

theorem run : Run prog trace final := traceOf_run prog sched

/-- the events of the trace; the reference completes it WITHOUT a verdict -/
theorem trace_events : events prog trace =
    [⟨0, some (.spawn 1), some .unit⟩, ⟨0, some (.spawn 2), some .unit⟩, ⟨0, some (.spawn 3), some .unit⟩,
     ⟨0, some (.cellWrite 0 1), some .unit⟩, ⟨0, some (.nNotify 0), some .unit⟩, ⟨1, some (.nWait 0), some .unit⟩,
     ⟨2, some (.nNotify 0), some .unit⟩, ⟨3, some (.nWait 0), some .unit⟩, ⟨3, some (.cellRead 0), some (.val 1)⟩] ∧
    final.verdict = none := by
  decide +kernel

/-- the clock of thread 3 after its `nwait` (event 7) contains the clock of the `nnotify` of thread 0 (event 4) -/
theorem trace_clocks : (clocks trace).map VV.toList =
    [[1, 0, 0, 0, 0], [2, 0, 0, 0, 0], [3, 0, 0, 0, 0], [4, 0, 0, 0, 0], [5, 0, 0, 0, 0], [5, 2, 0, 0, 0],
     [2, 0, 2, 0, 0], [5, 0, 2, 2, 0], [5, 0, 2, 3, 0]] := by
  decide +kernel

/-- with the happens-before relation the clocks decide (`nnotify` → EVERY later `nwait`), the write (event 3) happens
before the read (event 8): program order, the edge `nnotify` (event 4, thread 0) → `nwait` (event 7, thread 3),
program order -/
theorem write_hb_read : HB (events prog trace) 3 8 := by
  have e34 : Edge (events prog trace) 3 4 := by
    rw [trace_events.1]; exact edge_of (by decide) rfl rfl (.inl rfl)
  have e47 : Edge (events prog trace) 4 7 := by
    rw [trace_events.1]
    exact edge_of (by decide) rfl rfl
      (.inr (.inr (.inr ⟨.notify 0, ⟨_, rfl, rfl⟩, ⟨_, rfl, rfl, fun h => by cases h⟩⟩)))
  have e78 : Edge (events prog trace) 7 8 := by
    rw [trace_events.1]; exact edge_of (by decide) rfl rfl (.inl rfl)
  exact .tail (.tail (.single e34) e47) e78

/-- "notify → the wait it wakes" for THIS trace: the `nwait` of thread 1 (event 5) consumes the notification of event
4, the `nwait` of thread 3 (event 7) the one of event 6.  The edges: program order, spawn, join, and these two. -/
def wakeEdge (evs : List Event) (j i : Nat) : Bool :=
  decide (j < i) &&
  match evs[j]?, evs[i]? with
  | some a, some b =>
    a.thr == b.thr || a.op == some (.spawn b.thr) || b.op == some (.join a.thr) ||
    (j == 4 && i == 5) || (j == 6 && i == 7)
  | _, _ => false

theorem wakeEdge_lt {evs : List Event} {j i : Nat} (h : wakeEdge evs j i = true) : i < evs.length := by
  unfold wakeEdge at h
  apply Classical.byContradiction
  intro hn
  rw [List.getElem?_eq_none (Nat.le_of_not_lt hn)] at h
  cases evs[j]? <;> simp at h

/-- everything reachable from event 3 along `wakeEdge` is event 4 or event 5 (kernel-evaluated) -/
theorem wake_closed : ∀ i' < 9, ∀ j' < 6, (j' = 3 ∨ j' = 4 ∨ j' = 5) →
    wakeEdge (events prog trace) j' i' = true → (i' = 4 ∨ i' = 5) := by
  rw [trace_events.1]; decide +kernel

/-- **with "notify → the wait it wakes" the write (event 3) and the read (event 8) are NOT ordered**: everything
reachable from event 3 along `wakeEdge` is event 4 or event 5.  So under that reading of happens-before this run
contains a data race (conflicting accesses of threads 0 and 3) that `Spec/SC.lean` does not report. -/
theorem unordered_if_wake_only :
    ¬ Relation.TransGen (fun j i => wakeEdge (events prog trace) j i = true) 3 8 := by
  have hlen : (events prog trace).length = 9 := by rw [trace_events.1]; rfl
  have closed : ∀ j i, (j = 3 ∨ j = 4 ∨ j = 5) → wakeEdge (events prog trace) j i = true → (i = 4 ∨ i = 5) := by
    intro j i hj he
    have hi := wakeEdge_lt he
    rw [hlen] at hi
    exact wake_closed i hi j (by omega) hj he
  have key : ∀ i, Relation.TransGen (fun j i => wakeEdge (events prog trace) j i = true) 3 i → (i = 4 ∨ i = 5) := by
    intro i h
    induction h with
    | single e => exact closed 3 _ (.inl rfl) e
    | tail _ e ih => exact closed _ _ (.inr ih) e
  intro h
  have := key 8 h
  omega

end Notify2

/-! ### rwlocks and park / unpark: the release → acquire edges in use -/
namespace Sync2

/-- `cfg c=2 l=1 | T0: spawn 1; cwr 0 1; rd 0; unrd 0; cwr 1 1; unpark 1; join 1 | T1: rd 0; unrd 0; crd 0; park; crd 1` -/
def prog : Prog :=
  { cfg := { nCells := 2, nRwlocks := 1 },
    threads := [[.spawn 1, .cellWrite 0 1, .read 0, .unread 0, .cellWrite 1 1, .unpark 1, .join 1],
                [.read 0, .unread 0, .cellRead 0, .park, .cellRead 1]] }

theorem wf : WFX prog ∧ prog.threads.length ≤ 5 := by decide +kernel

def sched : List Nat := [0, 0, 0, 0, 1, 1, 1, 0, 0, 1, 1, 1, 0, 0]
def trace : List Step := (traceOf prog sched).1
def final : SC.St := (traceOf prog sched).2

theorem run : Run prog trace final := traceOf_run prog sched

theorem trace_events : events prog trace =
    [⟨0, some (.spawn 1), some .unit⟩, ⟨0, some (.cellWrite 0 1), some .unit⟩, ⟨0, some (.read 0), some .unit⟩,
     ⟨0, some (.unread 0), some .unit⟩, ⟨1, some (.read 0), some .unit⟩, ⟨1, some (.unread 0), some .unit⟩,
     ⟨1, some (.cellRead 0), some (.val 1)⟩, ⟨0, some (.cellWrite 1 1), some .unit⟩, ⟨0, some (.unpark 1), some .unit⟩,
     ⟨1, some .park, some .unit⟩, ⟨1, some (.cellRead 1), some (.val 1)⟩, ⟨1, none, none⟩,
     ⟨0, some (.join 1), some .unit⟩, ⟨0, none, none⟩] ∧
    final.verdict = none := by
  decide +kernel

/-- the reader → reader edge: `unrd 0` of thread 0 (event 3) → `rd 0` of thread 1 (event 4) -/
theorem unread_read_edge : Edge (events prog trace) 3 4 := by
  rw [trace_events.1]
  exact edge_of (by decide) rfl rfl
    (.inr (.inr (.inr ⟨.rw 0, ⟨_, rfl, rfl⟩, ⟨_, rfl, rfl, fun h => by cases h⟩⟩)))

/-- the token edge: `unpark 1` (event 8) → `park` of thread 1 (event 9) -/
theorem unpark_park_edge : Edge (events prog trace) 8 9 := by
  rw [trace_events.1]
  exact edge_of (by decide) rfl rfl
    (.inr (.inr (.inr ⟨.token 1, ⟨_, rfl, rfl⟩, ⟨_, rfl, rfl, fun h => by cases h⟩⟩)))

/-- the run has no race verdict, so by the theorem both conflicting pairs are ordered: write / read of cell 0
(events 1, 6) and write / read of cell 1 (events 7, 10) -/
example : HB (events prog trace) 1 6 ∧ HB (events prog trace) 7 10 := by
  have hs : ∀ k, final.verdict ≠ some (.race k) := by
    intro k h; rw [trace_events.2] at h; cases h
  constructor
  · refine completed_trace_is_race_free_sync wf.1 wf.2 run hs (by decide) (a := ⟨0, some (.cellWrite 0 1), some .unit⟩)
      (b := ⟨1, some (.cellRead 0), some (.val 1)⟩) ?_ ?_ (by decide) ⟨0, .inl ⟨⟨1, rfl⟩, .inl rfl⟩⟩
    · rw [trace_events.1]; rfl
    · rw [trace_events.1]; rfl
  · refine completed_trace_is_race_free_sync wf.1 wf.2 run hs (by decide) (a := ⟨0, some (.cellWrite 1 1), some .unit⟩)
      (b := ⟨1, some (.cellRead 1), some (.val 1)⟩) ?_ ?_ (by decide) ⟨1, .inl ⟨⟨1, rfl⟩, .inl rfl⟩⟩
    · rw [trace_events.1]; rfl
    · rw [trace_events.1]; rfl

end Sync2

/-! ### channels: "send → the recv that receives that message" -/
namespace Chan

/-- `cfg c=1 q=1 | T0: spawn 1; spawn 2; recv 0; recv 0; crd 0 | T1: cwr 0 1; send 0 1 | T2: send 0 2`
(two producers, one consumer) -/
def prog : Prog :=
  { cfg := { nCells := 1, nChans := 1 },
    threads := [[.spawn 1, .spawn 2, .recv 0, .recv 0, .cellRead 0], [.cellWrite 0 1, .send 0 1], [.send 0 2]] }

theorem wf : WFX prog ∧ prog.threads.length ≤ 5 := by decide +kernel

/-- thread 2 sends first (message 0), then thread 1 writes the cell and sends (message 1); the main thread receives
both and reads the cell -/
def sched : List Nat := [0, 0, 2, 1, 1, 0, 0, 0]
def trace : List Step := (traceOf prog sched).1
def final : SC.St := (traceOf prog sched).2

theorem run : Run prog trace final := traceOf_run prog sched

theorem trace_events : events prog trace =
    [⟨0, some (.spawn 1), some .unit⟩, ⟨0, some (.spawn 2), some .unit⟩, ⟨2, some (.send 0 2), some .unit⟩,
     ⟨1, some (.cellWrite 0 1), some .unit⟩, ⟨1, some (.send 0 1), some .unit⟩, ⟨0, some (.recv 0), some (.val 2)⟩,
     ⟨0, some (.recv 0), some (.val 1)⟩, ⟨0, some (.cellRead 0), some (.val 1)⟩] ∧
    final.verdict = none := by
  decide +kernel

/-- **the message edge**: the `send` of thread 1 (event 4) puts message number 1 into the channel; the second `recv`
(event 6) is the one before which exactly one message had been taken: it receives that message -/
theorem send_recv_edge : Edge (events prog trace) 4 6 := by
  rw [trace_events.1]
  exact ⟨by decide, .inr ⟨0, _, _, rfl, rfl, ⟨1, rfl⟩, by decide, .inl ⟨.inl rfl, by decide⟩⟩⟩

/-- … and the FIRST `recv` (event 5) does not receive it: no edge from event 4 to event 5 -/
theorem send_not_first_recv : ¬ Edge (events prog trace) 4 5 := by
  rw [trace_events.1]
  rintro ⟨_, ⟨a, b, ha, hb, hs⟩ | ⟨q, a, b, ha, hb, ⟨x, hx⟩, _, hh⟩⟩
  · simp only [List.getElem?_cons_succ, List.getElem?_cons_zero, Option.some.injEq] at ha hb
    subst ha hb
    rcases hs with h | h | h | ⟨o, _, ⟨op', h3, h4, _⟩⟩
    · simp at h
    · simp at h
    · simp at h
    · simp only [Option.some.injEq] at h3; subst h3; simp [acqObjOf] at h4
  · simp only [List.getElem?_cons_succ, List.getElem?_cons_zero, Option.some.injEq] at ha hb
    subst ha hb
    simp only [Option.some.injEq, Op.send.injEq] at hx
    obtain ⟨rfl, _⟩ := hx
    rcases hh with ⟨_, hc⟩ | ⟨hd, _⟩
    · revert hc; decide
    · simp [Event.dropOn] at hd

/-- the write of thread 1 (event 3) happens before the read of the main thread (event 7): program order, the message
edge, program order — and the reference reports no race -/
theorem write_hb_read : HB (events prog trace) 3 7 := by
  have e34 : Edge (events prog trace) 3 4 := by
    rw [trace_events.1]; exact edge_of (by decide) rfl rfl (.inl rfl)
  have e67 : Edge (events prog trace) 6 7 := by
    rw [trace_events.1]; exact edge_of (by decide) rfl rfl (.inl rfl)
  exact .tail (.tail (.single e34) send_recv_edge) e67

/-- by the theorem (the run has no race verdict) -/
example : HB (events prog trace) 3 7 := by
  refine completed_trace_is_race_free_sync wf.1 wf.2 run (fun k h => by rw [trace_events.2] at h; cases h)
    (by decide) (a := ⟨1, some (.cellWrite 0 1), some .unit⟩) (b := ⟨0, some (.cellRead 0), some (.val 1)⟩) ?_ ?_
    (by decide) ⟨0, .inl ⟨⟨1, rfl⟩, .inl rfl⟩⟩
  · rw [trace_events.1]; rfl
  · rw [trace_events.1]; rfl

end Chan

/-! ### the boundary: six threads -/
namespace Six

/-- `cfg c=1 | T0: spawn 5; cwr 0 1 | T1: | T2: | T3: | T4: | T5: cwr 0 2` -/
def prog : Prog :=
  { cfg := { nCells := 1 }, threads := [[.spawn 5, .cellWrite 0 1], [], [], [], [], [.cellWrite 0 2]] }

def sched : List Nat := [0, 5, 0]
def trace : List Step := (traceOf prog sched).1
def final : SC.St := (traceOf prog sched).2

theorem trace_events : WF prog ∧ prog.threads.length = 6 ∧ events prog trace =
    [⟨0, some (.spawn 5), some .unit⟩, ⟨5, some (.cellWrite 0 2), some .unit⟩,
     ⟨0, some (.cellWrite 0 1), some .unit⟩] ∧ final.verdict = none := by
  decide +kernel

theorem pair_unordered : ¬ HB (events prog trace) 1 2 := by
  rw [trace_events.2.2.1]
  intro h
  cases h with
  | single e =>
    obtain ⟨_, ⟨a, b, ha, hb, hs⟩ | ⟨q, a, b, ha, hb, ⟨x, hx⟩, _⟩⟩ := e
    · simp only [List.getElem?_cons_succ, List.getElem?_cons_zero, Option.some.injEq] at ha hb
      subst ha hb
      rcases hs with h | h | h | ⟨o, ⟨op, h1, h2⟩, ⟨op', h3, h4, _⟩⟩
      · simp at h
      · simp at h
      · simp at h
      · simp only [Option.some.injEq] at h3; subst h3; simp [acqObjOf] at h4
    · simp only [List.getElem?_cons_succ, List.getElem?_cons_zero, Option.some.injEq] at ha
      subst ha
      simp at hx
  | tail h1 e =>
    have := HB.lt h1
    have := e.1
    omega

end Six

/-- **Why `threads.length ≤ 5` is a hypothesis**: a well-formed program with SIX threads has a run (`spawn 5`, the write
of thread 5, the write of thread 0) that the reference completes WITHOUT a verdict although the two writes conflict,
belong to different threads and are not ordered by happens-before.  (`VV.inc 5` is the identity: thread 5 never
advances a component of its own, so its write clock `[1,0,0,0,0]` is below every later clock of its spawner.) -/
theorem six_threads_race_unreported :
    WF Six.prog ∧ Run Six.prog Six.trace Six.final ∧ Six.final.verdict = none ∧
    ∃ (a b : Event), (events Six.prog Six.trace)[1]? = some a ∧ (events Six.prog Six.trace)[2]? = some b ∧
      a.thr ≠ b.thr ∧ Conflict a b ∧ ¬ HB (events Six.prog Six.trace) 1 2 := by
  refine ⟨Six.trace_events.1, traceOf_run _ _, Six.trace_events.2.2.2, ⟨5, some (.cellWrite 0 2), some .unit⟩,
    ⟨0, some (.cellWrite 0 1), some .unit⟩, ?_, ?_, by decide, ⟨0, .inl ⟨⟨2, rfl⟩, .inr ⟨1, rfl⟩⟩⟩,
    Six.pair_unordered⟩
  · rw [Six.trace_events.2.2.1]; rfl
  · rw [Six.trace_events.2.2.1]; rfl

end Example

end VCSound
end LoomVerif
